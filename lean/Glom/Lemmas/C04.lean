import Glom.Spec.C04
/-
  Helper lemmas for C04: what `WF` pins down, the C3 merge and the MRO of the wrapper class,
  the case analysis of `glom()`'s handler, propagation through plain frames, nesting levels.
-/
namespace Glom.C04

/-! ### what `WF` pins down -/

theorem WF_eq {F : Facts} (h : WF F = true) : F = docFacts F.attrGuarded := by
  unfold WF at h
  exact eq_of_beq h

structure WFParts (F : Facts) : Prop where
  defIfSkip : F.defIfSkip = some .none_
  defElse : F.defElse = none
  skipIfMissing : F.skipIfMissing = []
  skipElse : F.skipElse = ["GlomError"]
  debugDefault : F.debugDefault = false
  outerCatch : F.outerCatch = ["Exception"]
  copyArgsCheck : F.copyArgsCheck = true
  copyFallback : F.copyFallback = true
  wrapArgsCheck : F.wrapArgsCheck = true
  wrapFallback : F.wrapFallback = true
  wrapTypeInTry : F.wrapTypeInTry = true
  errTest : F.errTestTruthy = false
  tmeCopy : F.tmeCopyFixed = false
  frameCatch : F.frameCatch = ["Exception"]
  coalesceSkip : F.coalesceSkipDefault = ["GlomError"]
  iterCatch : F.iterCatch = ["Exception"]
  iterRaises : F.iterRaises = "TypeError"
  getitemCatch : F.getitemCatch = ["KeyError", "IndexError", "TypeError", "ValueError"]
  getattrCatch : F.getattrCatch = ["AttributeError"]
  pathCatch : F.pathCatch = ["Exception"]

theorem WF_parts {F : Facts} (h : WF F = true) : WFParts F := by
  have e := WF_eq h
  exact
    { defIfSkip := congrArg Facts.defIfSkip e
      defElse := congrArg Facts.defElse e
      skipIfMissing := congrArg Facts.skipIfMissing e
      skipElse := congrArg Facts.skipElse e
      debugDefault := congrArg Facts.debugDefault e
      outerCatch := congrArg Facts.outerCatch e
      copyArgsCheck := congrArg Facts.copyArgsCheck e
      copyFallback := congrArg Facts.copyFallback e
      wrapArgsCheck := congrArg Facts.wrapArgsCheck e
      wrapFallback := congrArg Facts.wrapFallback e
      wrapTypeInTry := congrArg Facts.wrapTypeInTry e
      errTest := congrArg Facts.errTestTruthy e
      tmeCopy := congrArg Facts.tmeCopyFixed e
      frameCatch := congrArg Facts.frameCatch e
      coalesceSkip := congrArg Facts.coalesceSkipDefault e
      iterCatch := congrArg Facts.iterCatch e
      iterRaises := congrArg Facts.iterRaises e
      getitemCatch := congrArg Facts.getitemCatch e
      getattrCatch := congrArg Facts.getattrCatch e
      pathCatch := congrArg Facts.pathCatch e }

/-! ### effective settings = documented settings -/

theorem effDefault_eq_ref {F : Facts} (w : WFParts F) (s : Settings) : effDefault F s = refDefault s := by
  unfold effDefault refDefault
  cases s.default <;> simp [w.defIfSkip, w.defElse]

theorem effSkip_eq_ref {F : Facts} (w : WFParts F) (s : Settings) : effSkip F s = refSkip s := by
  unfold effSkip refSkip
  rw [effDefault_eq_ref w]
  unfold refDefault
  cases hs : s.skipExc <;> cases hd : s.default <;> simp [w.skipIfMissing, w.skipElse]

theorem effDebug_eq {F : Facts} (w : WFParts F) (s : Settings) : effDebug F s = s.debug.getD false := by
  unfold effDebug; rw [w.debugDefault]

/-! ### the C3 merge -/

theorem mem_dropHead {h x : String} {l : List String} (hx : x ∈ l) : x = h ∨ x ∈ dropHead h l := by
  cases l with
  | nil => cases hx
  | cons a t =>
    by_cases ha : (a == h) = true
    · simp only [dropHead, ha, if_true]
      rcases List.mem_cons.mp hx with rfl | hx
      · exact Or.inl (eq_of_beq ha)
      · exact Or.inr hx
    · simp only [dropHead, ha]; exact Or.inr hx

theorem all_isEmpty_no_mem {ls : List (List String)} (h : ls.all List.isEmpty = true)
    {l : List String} (hl : l ∈ ls) {x : String} (hx : x ∈ l) : False := by
  have := List.all_eq_true.mp h l hl
  cases l with
  | nil => cases hx
  | cons a t => simp at this

/-- **soundness of the merge**: every class of every input list is in the result -/
theorem c3merge_sound : ∀ (n : Nat) (ls : List (List String)) (r : List String),
    c3merge n ls = some r → ∀ l ∈ ls, ∀ x ∈ l, x ∈ r := by
  intro n
  induction n with
  | zero =>
    intro ls r h l hl x hx
    unfold c3merge at h
    split at h
    · rename_i he; exact (all_isEmpty_no_mem he hl hx).elim
    · cases h
  | succ n ih =>
    intro ls r h l hl x hx
    unfold c3merge at h
    split at h
    · rename_i he; exact (all_isEmpty_no_mem he hl hx).elim
    · split at h
      · cases h
      · rename_i hd _
        cases hm : c3merge n (ls.map (dropHead hd)) with
        | none => rw [hm] at h; cases h
        | some r' =>
          rw [hm] at h
          simp only [Option.map_some, Option.some.injEq] at h
          subst h
          rcases mem_dropHead (h := hd) hx with rfl | hx'
          · exact List.mem_cons_self
          · exact List.mem_cons_of_mem _ (ih _ _ hm _ (List.mem_map_of_mem hl) _ hx')

theorem pickHead_skip_nil (ls rest : List (List String)) : pickHead ls ([] :: rest) = pickHead ls rest := rfl

theorem pickHead_free {ls rest : List (List String)} {h : String} {t : List String}
    (hf : inTail ls h = false) : pickHead ls ((h :: t) :: rest) = some h := by
  simp [pickHead, hf]

theorem pickHead_blocked {ls rest : List (List String)} {h : String} {t : List String}
    (hf : inTail ls h = true) : pickHead ls ((h :: t) :: rest) = pickHead ls rest := by
  simp [pickHead, hf]

theorem c3merge_step {n : Nat} {ls : List (List String)} {h : String}
    (hne : ls.all List.isEmpty = false) (hp : pickHead ls ls = some h) :
    c3merge (n + 1) ls = (c3merge n (ls.map (dropHead h))).map (h :: ·) := by
  rw [c3merge]
  simp [hne, hp]

theorem dropHead_cons_self (h : String) (t : List String) : dropHead h (h :: t) = t := by
  simp [dropHead]

theorem dropHead_cons_ne {h a : String} (t : List String) (hne : a ≠ h) : dropHead h (a :: t) = a :: t := by
  simp [dropHead, hne]

theorem dropHead_not_mem {h : String} {l : List String} (hn : h ∉ l) : dropHead h l = l := by
  cases l with
  | nil => rfl
  | cons a t =>
    have : a ≠ h := fun e => hn (e ▸ List.mem_cons_self)
    exact dropHead_cons_ne t this

/-- a sublist of `a :: A` (nodup): after dropping a leading `a` it is a sublist of `A`, and `a` is
    not in its tail -/
theorem sublist_dropHead {a : String} {A l : List String} (hnd : (a :: A).Nodup) (hs : l.Sublist (a :: A)) :
    (dropHead a l).Sublist A ∧ a ∉ l.tail := by
  have haA : a ∉ A := (List.nodup_cons.mp hnd).1
  cases hs with
  | cons _ h =>
    -- l <+ A
    have hal : a ∉ l := fun hm => haA (h.subset hm)
    refine ⟨by rw [dropHead_not_mem hal]; exact h, fun hm => hal (List.mem_of_mem_tail hm)⟩
  | cons_cons _ h =>
    -- l = a :: l', l' <+ A
    rename_i l'
    refine ⟨by rw [dropHead_cons_self]; exact h, ?_⟩
    intro hm
    exact haA (h.subset hm)

/-- **a dominant list**: when every other list is a sublist of the (duplicate-free) first one,
    the merge is the first list -/
theorem c3merge_dominant : ∀ (A : List String) (ls : List (List String)) (n : Nat),
    A.Nodup → (∀ l ∈ ls, l.Sublist A) → A.length ≤ n → c3merge n (A :: ls) = some A := by
  intro A
  induction A with
  | nil =>
    intro ls n _ hs _
    have hall : (([] : List String) :: ls).all List.isEmpty = true := by
      simp only [List.all_cons, List.isEmpty_nil, Bool.true_and, List.all_eq_true]
      intro l hl
      have := hs l hl
      cases l with
      | nil => rfl
      | cons a t => cases this
    cases n <;> simp [c3merge, hall]
  | cons a A ih =>
    intro ls n hnd hs hn
    cases n with
    | zero => simp at hn
    | succ n =>
      have hne : ((a :: A) :: ls).all List.isEmpty = false := by simp
      have hfree : inTail ((a :: A) :: ls) a = false := by
        simp only [inTail, List.any_cons, List.tail_cons, Bool.or_eq_false_iff, List.any_eq_false]
        refine ⟨?_, ?_⟩
        · simpa using (List.nodup_cons.mp hnd).1
        · intro l hl
          have := (sublist_dropHead hnd (hs l hl)).2
          simpa using this
      rw [c3merge_step hne (pickHead_free hfree)]
      simp only [List.map_cons, dropHead_cons_self]
      rw [ih (ls.map (dropHead a)) n (List.nodup_cons.mp hnd).2 ?_ (by simpa using hn)]
      · rfl
      · intro l hl
        obtain ⟨l0, hl0, rfl⟩ := List.mem_map.mp hl
        exact (sublist_dropHead hnd (hs l0 hl0)).1

end Glom.C04

namespace Glom.C04

/-! ### the MRO of the wrapper class -/

/-- a class name that is none of GlomError's own MRO -/
def Free (x : String) : Prop := x ≠ "GlomError" ∧ x ≠ "Exception" ∧ x ≠ "BaseException" ∧ x ≠ "object"

theorem inTail_three (a b c : List String) (h : String) :
    inTail [a, b, c] h = (a.tail.contains h || b.tail.contains h || c.tail.contains h) := by
  simp [inTail, Bool.or_assoc]

theorem free_not_glomTail {x : String} (hx : Free x) : glomMro.tail.contains x = false := by
  obtain ⟨_, h2, h3, h4⟩ := hx
  simp [glomMro, h2, h3, h4]

/-- phase B–D of the merge: the classes before `Exception` are taken one by one, then GlomError
    (blocked until `Exception` heads the first list), then the rest of the exception's MRO -/
theorem c3merge_insert : ∀ (pre rest : List String) (n : Nat),
    (pre ++ "Exception" :: rest).Nodup → (∀ x ∈ pre, Free x) → "GlomError" ∉ rest →
    ["BaseException", "object"].Sublist rest → pre.length + rest.length + 3 ≤ n →
    c3merge n [pre ++ "Exception" :: rest, glomMro, ["GlomError"]]
      = some (pre ++ "GlomError" :: "Exception" :: rest) := by
  intro pre
  induction pre with
  | nil =>
    intro rest n hnd _ hg hsub hn
    cases n with
    | zero => omega
    | succ n =>
      simp only [List.nil_append] at hnd ⊢
      have hne : ([("Exception" :: rest), glomMro, ["GlomError"]].all List.isEmpty) = false := by simp
      have hblocked : inTail [("Exception" :: rest), glomMro, ["GlomError"]] "Exception" = true := by
        rw [inTail_three]; simp [glomMro]
      have hfree : inTail [("Exception" :: rest), glomMro, ["GlomError"]] "GlomError" = false := by
        rw [inTail_three]
        simp [glomMro, hg]
      have hp : pickHead [("Exception" :: rest), glomMro, ["GlomError"]]
          [("Exception" :: rest), glomMro, ["GlomError"]] = some "GlomError" := by
        rw [pickHead_blocked hblocked]
        show pickHead _ (("GlomError" :: ["Exception", "BaseException", "object"]) :: [["GlomError"]]) = _
        exact pickHead_free hfree
      rw [c3merge_step hne hp]
      have hd1 : dropHead "GlomError" ("Exception" :: rest) = "Exception" :: rest :=
        dropHead_cons_ne rest (by decide)
      have hd2 : dropHead "GlomError" glomMro = ["Exception", "BaseException", "object"] := by
        simp [glomMro, dropHead]
      have hd3 : dropHead "GlomError" ["GlomError"] = [] := by simp [dropHead]
      simp only [List.map_cons, List.map_nil, hd1, hd2, hd3]
      rw [c3merge_dominant ("Exception" :: rest) [["Exception", "BaseException", "object"], []] n hnd ?_
        (by simp only [List.length_cons]; omega)]
      · rfl
      · intro l hl
        simp only [List.mem_cons, List.not_mem_nil, or_false] at hl
        rcases hl with rfl | rfl
        · exact List.Sublist.cons_cons _ hsub
        · exact List.nil_sublist _
  | cons p pre ih =>
    intro rest n hnd hfreeAll hg hsub hn
    cases n with
    | zero => simp at hn
    | succ n =>
      have hp : Free p := hfreeAll p List.mem_cons_self
      simp only [List.cons_append] at hnd ⊢
      have hne : ([(p :: (pre ++ "Exception" :: rest)), glomMro, ["GlomError"]].all List.isEmpty) = false := by
        simp
      have hfree : inTail [(p :: (pre ++ "Exception" :: rest)), glomMro, ["GlomError"]] p = false := by
        rw [inTail_three]
        have h1 : (pre ++ "Exception" :: rest).contains p = false := by
          simpa using (List.nodup_cons.mp hnd).1
        simp only [List.tail_cons, h1, free_not_glomTail hp, Bool.false_or]
        simp
      rw [c3merge_step hne (pickHead_free hfree)]
      have hd2 : dropHead p glomMro = glomMro := by
        simp only [glomMro]; exact dropHead_cons_ne _ (Ne.symm hp.1)
      have hd3 : dropHead p ["GlomError"] = ["GlomError"] := dropHead_cons_ne _ (Ne.symm hp.1)
      simp only [List.map_cons, List.map_nil, dropHead_cons_self, hd2, hd3]
      rw [ih rest n (List.nodup_cons.mp hnd).2 (fun x hx => hfreeAll x (List.mem_cons_of_mem _ hx)) hg hsub
        (by simp only [List.length_cons] at hn; omega)]
      rfl

/-- **the wrapper's MRO exists** for every consistent MRO of an `Exception` subclass that is not a
    GlomError: the classes up to `Exception`, GlomError, then `Exception` and the rest -/
theorem wrapMro_exc (c : String) (pre rest : List String)
    (hnd : (c :: pre ++ "Exception" :: rest).Nodup)
    (hfree : ∀ x ∈ c :: pre, Free x) (hg : "GlomError" ∉ rest)
    (hsub : ["BaseException", "object"].Sublist rest) :
    wrapMro (c :: pre ++ "Exception" :: rest) = some (c :: pre ++ "GlomError" :: "Exception" :: rest) := by
  unfold wrapMro
  have hc : Free c := hfree c List.mem_cons_self
  simp only [List.cons_append, List.headD_cons, List.length_cons]
  have hne : ([(c :: (pre ++ "Exception" :: rest)), glomMro, [c, "GlomError"]].all List.isEmpty) = false := by
    simp
  have hfr : inTail [(c :: (pre ++ "Exception" :: rest)), glomMro, [c, "GlomError"]] c = false := by
    rw [inTail_three]
    have h1 : (pre ++ "Exception" :: rest).contains c = false := by
      simpa using (List.nodup_cons.mp hnd).1
    simp only [List.tail_cons, h1, free_not_glomTail hc, Bool.false_or]
    simp [hc.1]
  rw [c3merge_step hne (pickHead_free hfr)]
  have hd2 : dropHead c glomMro = glomMro := by
    simp only [glomMro]; exact dropHead_cons_ne _ (Ne.symm hc.1)
  simp only [List.map_cons, List.map_nil, dropHead_cons_self, hd2]
  rw [c3merge_insert pre rest _ (List.nodup_cons.mp hnd).2
    (fun x hx => hfree x (List.mem_cons_of_mem _ hx)) hg hsub (by simp only [List.length_append, List.length_cons]; omega)]
  rfl

/-- **a wrapped error wrapped again**: when GlomError's MRO is already part of the class's MRO the
    merge changes nothing -/
theorem wrapMro_of_glomerror (c : String) (t : List String)
    (hnd : (c :: t).Nodup) (hc : c ≠ "GlomError") (hsub : glomMro.Sublist t) :
    wrapMro (c :: t) = some (c :: t) := by
  unfold wrapMro
  simp only [List.headD_cons, List.length_cons]
  have hct : c ∉ t := (List.nodup_cons.mp hnd).1
  have hcg : c ∉ glomMro := fun h => hct (hsub.subset h)
  have hne : ([(c :: t), glomMro, [c, "GlomError"]].all List.isEmpty) = false := by simp
  have hfr : inTail [(c :: t), glomMro, [c, "GlomError"]] c = false := by
    rw [inTail_three]
    have h1 : t.contains c = false := by simpa using hct
    have h2 : glomMro.tail.contains c = false := by
      have : c ∉ glomMro.tail := fun h => hcg (List.mem_of_mem_tail h)
      simpa using this
    simp only [List.tail_cons, h1, h2, Bool.false_or]
    simp [hc]
  rw [c3merge_step hne (pickHead_free hfr)]
  simp only [List.map_cons, List.map_nil, dropHead_cons_self, dropHead_not_mem hcg]
  rw [c3merge_dominant t [glomMro, ["GlomError"]] _ (List.nodup_cons.mp hnd).2 ?_ (by omega)]
  · rfl
  · intro l hl
    simp only [List.mem_cons, List.not_mem_nil, or_false] at hl
    rcases hl with rfl | rfl
    · exact hsub
    · exact (List.singleton_sublist.mpr (hsub.subset (by simp [glomMro])))

theorem insertGlom_free (pre rest : List String) (hfree : ∀ x ∈ pre, Free x) :
    insertGlom (pre ++ "Exception" :: rest) = pre ++ "GlomError" :: "Exception" :: rest := by
  induction pre with
  | nil => simp [insertGlom]
  | cons p pre ih =>
    obtain ⟨h1, h2, h3, _⟩ := hfree p List.mem_cons_self
    simp only [List.cons_append, insertGlom, beq_iff_eq, h1, h2, h3, if_false]
    rw [ih (fun x hx => hfree x (List.mem_cons_of_mem _ hx))]

end Glom.C04

namespace Glom.C04

/-! ### class chains -/

theorem isInst_self (e : ExcObj) : isInst e e.cls.name = true := by
  simp [isInst, ClassInfo.mro]

/-- what `type(name, bases, …)` in `GlomError.wrap` yields, when it yields a class -/
theorem wrapClass_cases {c wc : ClassInfo} (h : wrapClass c = some wc) :
    (glomMro.contains c.name = true ∧ wc.bases = glomMro ∧ wc.ctor = some ∧ wc.frozen = false ∧
      wc.copyVia = .args ∧ wc.boolRaises = false) ∨
    (glomMro.contains c.name = false ∧ c.sealed = false ∧ wrapMro c.mro = some wc.bases ∧ wc.ctor = c.ctor ∧
      wc.frozen = c.frozen ∧ wc.copyVia = c.copyVia ∧ wc.falsy = c.falsy ∧ wc.boolRaises = c.boolRaises) := by
  unfold wrapClass at h
  by_cases hg : glomMro.contains c.name = true
  · rw [if_pos hg] at h
    cases h
    exact Or.inl ⟨hg, rfl, rfl, rfl, rfl, rfl⟩
  · rw [if_neg hg] at h
    by_cases hs : c.sealed = true
    · rw [if_pos hs] at h; cases h
    · rw [if_neg hs] at h
      cases hm : wrapMro c.mro with
      | none => rw [hm] at h; cases h
      | some m =>
        rw [hm] at h
        simp only [Option.map_some, Option.some.injEq] at h
        subst h
        exact Or.inr ⟨by simpa using hg, by simpa using hs, rfl, rfl, rfl, rfl, rfl, rfl⟩

theorem wrapClass_has_glom {c wc : ClassInfo} (h : wrapClass c = some wc) :
    wc.mro.contains "GlomError" = true := by
  rcases wrapClass_cases h with ⟨_, hb, _⟩ | ⟨_, _, hm, _⟩
  · simp [ClassInfo.mro, hb, glomMro]
  · have := c3merge_sound _ _ _ hm glomMro (by simp) "GlomError" (by simp [glomMro])
    simp [ClassInfo.mro, this]

theorem wrapClass_has_orig {c wc : ClassInfo} (h : wrapClass c = some wc) :
    wc.mro.contains c.name = true := by
  rcases wrapClass_cases h with ⟨hg, hb, _⟩ | ⟨_, _, hm, _⟩
  · simp only [ClassInfo.mro, hb, List.contains_cons, hg, Bool.or_true]
  · have := c3merge_sound _ _ _ hm c.mro (by simp) c.name (by simp [ClassInfo.mro])
    simp [ClassInfo.mro, this]

/-- a class whose recorded MRO is that of the builtin it names (only `GlomError`'s own bases matter) -/
def ClassOK (c : ClassInfo) : Prop := glomMro.contains c.name = true → ∀ x ∈ c.mro, x ∈ glomMro

/-- **every base stays catchable**: each class of the original MRO is in the wrapper's MRO -/
theorem wrapClass_sup {c wc : ClassInfo} (h : wrapClass c = some wc) (hok : ClassOK c) :
    ∀ x ∈ c.mro, x ∈ wc.mro := by
  intro x hx
  rcases wrapClass_cases h with ⟨hg, hb, _⟩ | ⟨_, _, hm, _⟩
  · simp only [ClassInfo.mro, hb]
    exact List.mem_cons_of_mem _ (hok hg x hx)
  · exact List.mem_cons_of_mem _ (c3merge_sound _ _ _ hm c.mro (by simp) x hx)

/-- an exception that may leave `glom()` in place of `e`: an instance of `e`'s class with `e`'s args -/
def Faithful (e out : ExcObj) : Prop := isInst out e.cls.name = true ∧ out.args = e.args

theorem Faithful.refl (e : ExcObj) : Faithful e e := ⟨isInst_self e, rfl⟩

/-- the classes the handler copes with: attribute assignment on a GlomError instance succeeds or is
    guarded, so does `bool(e)` (evaluated when `_finalize` formats the traceback), `copy.copy` keeps the class -/
structure Tame (F : Facts) (c : ClassInfo) : Prop where
  attrOk : c.mro.contains "GlomError" = true → (F.attrGuarded = true ∨ c.frozen = false)
  boolOk : F.attrGuarded = true ∨ c.boolRaises = false
  copyOk : c.copyVia ≠ .foreign

/-! ### `GlomError.wrap` and `copy.copy` under the guards -/

/-- what the handler raises instead of `e` -/
inductive Raised (e out : ExcObj) : Prop
  | orig (h : out = e)                                         -- the very object
  | copy (hc : out.cls = e.cls) (ha : out.args = e.args) (hw : out.wrapped = some e.id)
      (hg : isInst e "GlomError" = true)                        -- only GlomErrors are copied
  | wrapper (wc : ClassInfo) (hwc : wrapClass e.cls = some wc) (hc : out.cls = wc) (ha : out.args = e.args)
      (hw : out.wrapped = some e.id) (hcause : out.cause = none ∧ out.context = none) (hfz : wc.frozen = false)

theorem Raised.faithful {e out : ExcObj} (h : Raised e out) : Faithful e out := by
  cases h with
  | orig h => subst h; exact Faithful.refl _
  | copy hc ha _ _ => exact ⟨by simp [isInst, hc, ClassInfo.mro], ha⟩
  | wrapper wc hwc hc ha _ _ _ => exact ⟨by simpa [isInst, hc] using wrapClass_has_orig hwc, ha⟩

theorem Raised.args {e out : ExcObj} (h : Raised e out) : out.args = e.args := h.faithful.2

theorem Raised.reach {e out : ExcObj} (h : Raised e out) : out = e ∨ out.wrapped = some e.id := by
  cases h with
  | orig h => exact Or.inl h
  | copy _ _ hw _ => exact Or.inr hw
  | wrapper _ _ _ _ hw _ _ => exact Or.inr hw

/-- every except clause that caught `e` catches what is raised instead -/
theorem Raised.sup {e out : ExcObj} (h : Raised e out) (hok : ClassOK e.cls) :
    ∀ c, isInst e c = true → isInst out c = true := by
  intro c hc
  cases h with
  | orig h => subst h; exact hc
  | copy hcl _ _ _ => simpa [isInst, hcl] using hc
  | wrapper wc hwc hcl _ _ _ _ =>
    have : c ∈ e.cls.mro := by simpa [isInst] using hc
    have := wrapClass_sup hwc hok c this
    simpa [isInst, hcl] using this

theorem pyCopy_cls {F : Facts} (w : WFParts F) {e c : ExcObj} (hf : e.cls.copyVia ≠ .foreign)
    (h : pyCopy F e = some c) : c.cls = e.cls := by
  unfold pyCopy at h
  split at h
  · cases h; rfl
  · rename_i hk; exact absurd hk hf
  · simp only [w.tmeCopy, Bool.false_eq_true, if_false] at h
    split at h
    · split at h
      · simp only [Option.map_eq_some_iff] at h
        obtain ⟨a, _, rfl⟩ := h; rfl
      · cases h
    · simp only [Option.map_eq_some_iff] at h
      obtain ⟨a, _, rfl⟩ := h; rfl

/-- the `err` of the GlomError branch: the copy when it has the same args, else the original -/
theorem copy_branch_faithful {F : Facts} (w : WFParts F) (e : ExcObj) (hf : e.cls.copyVia ≠ .foreign) :
    ∃ err, copyBranch F e = .ok err ∧ err.cls = e.cls ∧ err.args = e.args := by
  unfold copyBranch
  simp only [w.copyArgsCheck, w.copyFallback, Bool.true_and, if_true]
  cases h : pyCopy F e with
  | none => exact ⟨e, rfl, rfl, rfl⟩
  | some c =>
    by_cases ha : c.args = e.args
    · exact ⟨c, by simp [ha], pyCopy_cls w hf h, ha⟩
    · exact ⟨e, by simp [ha], rfl, rfl⟩

/-- the GlomError branch ends in the original or in a copy of the same class -/
theorem glomErr_finish {F : Facts} (w : WFParts F) (e : ExcObj) (ht : Tame F e.cls)
    (hg : isInst e "GlomError" = true) :
    ∃ out, finish F e (glomErrBranch F e) = .exc out ∧ Raised e out ∧ out.cls = e.cls := by
  obtain ⟨⟨eid, ecls, eargs, einit, ecause, ectx, ewr⟩, herr, hcls, hargs⟩ :=
    copy_branch_faithful w e ht.copyOk
  simp only at hcls hargs
  subst hcls hargs
  have hgm : e.cls.mro.contains "GlomError" = true := by simpa [isInst] using hg
  unfold glomErrBranch
  rw [herr]
  simp only [isInst, hgm, if_true]
  by_cases hfz : e.cls.frozen = true
  · have hga : F.attrGuarded = true := by
      rcases ht.attrOk hgm with h | h
      · exact h
      · rw [hfz] at h; cases h
    simp only [hfz, if_true, hga, finish, isInst, hgm]
    exact ⟨e, rfl, .orig rfl, rfl⟩
  · have hfz' : e.cls.frozen = false := by simpa using hfz
    by_cases hbr : e.cls.boolRaises = true
    · have hga : F.attrGuarded = true := by
        rcases ht.boolOk with h | h
        · exact h
        · rw [hbr] at h; cases h
      simp only [hfz', Bool.false_eq_true, if_false, finish, isInst, hgm, if_true, hbr, hga]
      exact ⟨e, rfl, .orig rfl, rfl⟩
    · have hbr' : e.cls.boolRaises = false := by simpa using hbr
      simp only [hfz', Bool.false_eq_true, if_false, finish, isInst, hgm, if_true, hbr', w.errTest, Bool.false_and]
      exact ⟨_, rfl, .copy rfl rfl rfl hg, rfl⟩

/-- the other branch ends in the original or in an instance of the wrapper class -/
theorem wrap_finish {F : Facts} (w : WFParts F) (e : ExcObj) (ht : Tame F e.cls)
    (hg : isInst e "GlomError" = false) :
    ∃ out, finish F e (wrap F e) = .exc out ∧ Raised e out ∧
      (out = e ∨ ∃ wc, wrapClass e.cls = some wc ∧ out.cls = wc ∧ wc.frozen = false) := by
  have hgm : e.cls.mro.contains "GlomError" = false := by simpa [isInst] using hg
  unfold wrap
  cases hwc : wrapClass e.cls with
  | none =>
    simp only [w.wrapTypeInTry, w.wrapFallback, Bool.and_self, if_true, finish, hg, Bool.false_eq_true, if_false]
    exact ⟨e, rfl, .orig rfl, Or.inl rfl⟩
  | some wc =>
    simp only [w.wrapArgsCheck, w.wrapFallback, Bool.true_and, if_true]
    cases hc : wc.ctor e.args with
    | none =>
      simp only [finish, hg, Bool.false_eq_true, if_false]
      exact ⟨e, rfl, .orig rfl, Or.inl rfl⟩
    | some a =>
      by_cases ha : a = e.args
      · subst ha
        simp only [bne_self_eq_false, Bool.false_eq_true, if_false]
        by_cases hfz : wc.frozen = true
        · simp only [hfz, if_true, finish, hg, Bool.false_eq_true, if_false]
          exact ⟨e, rfl, .orig rfl, Or.inl rfl⟩
        · have hfz' : wc.frozen = false := by simpa using hfz
          simp only [hfz', Bool.false_eq_true, if_false, finish]
          have hig : isInst (ExcObj.mk (e.id + 1) wc e.args e.args none none (some e.id)) "GlomError" = true :=
            wrapClass_has_glom hwc
          by_cases hbr : e.cls.boolRaises = true
          · have hga : F.attrGuarded = true := by
              rcases ht.boolOk with h | h
              · exact h
              · rw [hbr] at h; cases h
            simp only [hig, if_true, hbr, hga]
            exact ⟨e, rfl, .orig rfl, Or.inl rfl⟩
          · have hbr' : e.cls.boolRaises = false := by simpa using hbr
            simp only [hig, if_true, Bool.false_eq_true, if_false, hbr', w.errTest, Bool.false_and]
            exact ⟨_, rfl, .wrapper wc hwc rfl rfl rfl ⟨rfl, rfl⟩ hfz', Or.inr ⟨wc, rfl, rfl, hfz'⟩⟩
      · simp only [bne_iff_ne, ne_eq, ha, not_false_eq_true, if_true, finish, hg,
          Bool.false_eq_true, if_false]
        exact ⟨e, rfl, .orig rfl, Or.inl rfl⟩

/-- a rebuildable, extensible class whose wrapper class can be created IS wrapped -/
theorem wrap_finish_glom {F : Facts} (w : WFParts F) (e : ExcObj)
    (hre : rebuildable e = true) (hext : extensible e = true) (hwc : (wrapClass e.cls).isSome = true) :
    ∃ out, finish F e (wrap F e) = .exc out ∧ isInst out "GlomError" = true := by
  obtain ⟨wc, hwc⟩ := Option.isSome_iff_exists.mp hwc
  have hfz : e.cls.frozen = false := by
    simp only [extensible, Bool.and_eq_true, Bool.not_eq_true'] at hext; exact hext.1.2
  have hbr : e.cls.boolRaises = false := by
    simp only [extensible, Bool.and_eq_true, Bool.not_eq_true'] at hext; exact hext.2
  have hctor : wc.ctor e.args = some e.args ∧ wc.frozen = false := by
    rcases wrapClass_cases hwc with ⟨_, _, hc, hf, _⟩ | ⟨_, _, _, hc, hf, _⟩
    · exact ⟨by rw [hc], hf⟩
    · exact ⟨by rw [hc]; simpa [rebuildable] using hre, by rw [hf]; exact hfz⟩
  unfold wrap
  rw [hwc]
  simp only [hctor.1, w.wrapArgsCheck, Bool.true_and, bne_self_eq_false, Bool.false_eq_true, if_false, hctor.2,
    finish]
  have hig : isInst (ExcObj.mk (e.id + 1) wc e.args e.args none none (some e.id)) "GlomError" = true :=
    wrapClass_has_glom hwc
  simp only [hig, if_true, Bool.false_eq_true, if_false, hbr, w.errTest, Bool.false_and]
  exact ⟨_, rfl, hig⟩

/-! ### the handler -/

/-- with `glom_debug` on, the handler re-raises the object it caught -/
theorem handler_debug {F : Facts} (s : Settings) (e : ExcObj) (hd : effDebug F s = true) :
    handler F s e = .exc e := by
  unfold handler; simp [hd]

/-- with `glom_debug` off, the handler raises the original, a copy of the same class, or an
    instance of the wrapper class -/
theorem handler_nodebug {F : Facts} (w : WFParts F) (s : Settings) (e : ExcObj) (ht : Tame F e.cls)
    (hd : effDebug F s = false) :
    ∃ out, handler F s e = .exc out ∧ Raised e out := by
  unfold handler
  simp only [hd, Bool.false_eq_true, if_false]
  by_cases hg : isInst e "GlomError" = true
  · obtain ⟨out, h, hr, _⟩ := glomErr_finish w e ht hg
    exact ⟨out, by simp only [hg, if_true]; exact h, hr⟩
  · have hg' : isInst e "GlomError" = false := by simpa using hg
    obtain ⟨out, h, hr, _⟩ := wrap_finish w e ht hg'
    exact ⟨out, by simp only [hg', Bool.false_eq_true, if_false]; exact h, hr⟩

/-- … a GlomError whenever `e` is one, or can be rebuilt from its args by a class that can be extended -/
theorem handler_glomerror {F : Facts} (w : WFParts F) (s : Settings) (e : ExcObj) (ht : Tame F e.cls)
    (hd : effDebug F s = false)
    (hre : isInst e "GlomError" = true ∨
      (rebuildable e = true ∧ extensible e = true ∧ (wrapClass e.cls).isSome = true)) :
    ∃ out, handler F s e = .exc out ∧ isInst out "GlomError" = true := by
  unfold handler
  simp only [hd, Bool.false_eq_true, if_false]
  by_cases hg : isInst e "GlomError" = true
  · obtain ⟨out, h, _, hc⟩ := glomErr_finish w e ht hg
    exact ⟨out, by simp only [hg, if_true]; exact h, by simpa [isInst, hc] using hg⟩
  · have hg' : isInst e "GlomError" = false := by simpa using hg
    rcases hre with h | ⟨h1, h2, h3⟩
    · exact absurd h hg
    · obtain ⟨out, h, hi⟩ := wrap_finish_glom w e h1 h2 h3
      exact ⟨out, by simp only [hg', Bool.false_eq_true, if_false]; exact h, hi⟩

/-- in every case the handler raises a faithful exception -/
theorem handler_raised {F : Facts} (w : WFParts F) (s : Settings) (e : ExcObj) (ht : Tame F e.cls) :
    ∃ out, handler F s e = .exc out ∧ Raised e out := by
  cases hd : effDebug F s with
  | true => exact ⟨e, handler_debug s e hd, .orig rfl⟩
  | false => exact handler_nodebug w s e ht hd

theorem outer_raised {F : Facts} (w : WFParts F) (s : Settings) (e : ExcObj) (ht : Tame F e.cls) :
    ∃ out, outer F s e = .exc out ∧ Raised e out := by
  unfold outer
  split
  · exact handler_raised w s e ht
  · exact ⟨e, rfl, .orig rfl⟩

theorem outer_faithful {F : Facts} (w : WFParts F) (s : Settings) (e : ExcObj) (ht : Tame F e.cls) :
    ∃ out, outer F s e = .exc out ∧ Faithful e out := by
  obtain ⟨out, h, hr⟩ := outer_raised w s e ht
  exact ⟨out, h, hr.faithful⟩

/-- what is raised and is not a GlomError is the original object -/
theorem Raised.not_glom {e out : ExcObj} (h : Raised e out) (hg : isInst out "GlomError" = false) : out = e := by
  cases h with
  | orig h => exact h
  | copy hc _ _ hge => rw [isInst, hc] at hg; rw [isInst, hg] at hge; cases hge
  | wrapper wc hwc hc _ _ _ _ =>
    have := wrapClass_has_glom hwc
    rw [isInst, hc, this] at hg; cases hg

/-- what is raised instead of a tame exception is tame again -/
theorem Raised.tame {F : Facts} {e out : ExcObj} (h : Raised e out) (ht : Tame F e.cls) : Tame F out.cls := by
  cases h with
  | orig h => subst h; exact ht
  | copy hc _ _ _ => rw [hc]; exact ht
  | wrapper wc hwc hc _ _ _ hfz =>
    rw [hc]
    rcases wrapClass_cases hwc with ⟨_, _, _, _, hk, hb⟩ | ⟨_, _, _, _, _, hk, _, hb⟩
    · exact ⟨fun _ => Or.inr hfz, Or.inr hb, by rw [hk]; intro h; cases h⟩
    · exact ⟨fun _ => Or.inr hfz, by rw [hb]; exact ht.boolOk, by rw [hk]; exact ht.copyOk⟩

theorem glomMro_length {x : String} (h : x ∈ glomMro) : x.length ≤ 13 := by
  simp only [glomMro, List.mem_cons, List.not_mem_nil, or_false] at h
  rcases h with rfl | rfl | rfl | rfl <;> decide

theorem wrapName_not_glom (c : ClassInfo) : glomMro.contains (wrapName c) = false := by
  cases h : glomMro.contains (wrapName c) with
  | false => rfl
  | true =>
    have hl := glomMro_length (List.contains_iff_mem.mp h)
    simp only [wrapName, String.length_append] at hl
    have : "GlomError.wrap(".length = 15 := by decide
    omega

theorem Raised.classOK {e out : ExcObj} (h : Raised e out) (hok : ClassOK e.cls) : ClassOK out.cls := by
  cases h with
  | orig h => subst h; exact hok
  | copy hc _ _ _ => rw [hc]; exact hok
  | wrapper wc hwc hc _ _ _ _ =>
    rw [hc]
    intro hg
    have hn : wc.name = wrapName e.cls := by
      unfold wrapClass at hwc
      split at hwc
      · cases hwc; rfl
      · split at hwc
        · cases hwc
        · cases hm : wrapMro e.cls.mro with
          | none => rw [hm] at hwc; cases hwc
          | some m => rw [hm] at hwc; cases hwc; rfl
    rw [hn, wrapName_not_glom] at hg
    cases hg

/-- `glom()` either returns the default — exactly when the caller selected this error — or
    lets the outer handler decide -/
theorem glomTop_cases {F : Facts} (w : WFParts F) (s : Settings) (e : ExcObj) :
    (selected s e = true ∧ ∃ d, refDefault s = some d ∧ glomTop F s (.exc e) = .dflt d) ∨
    (selected s e = false ∧ glomTop F s (.exc e) = outer F s e) := by
  unfold glomTop selected
  simp only [effSkip_eq_ref w, effDefault_eq_ref w]
  cases hm : matchesAny e (refSkip s) with
  | false => right; simp
  | true =>
    cases hd : refDefault s with
    | none => right; simp
    | some d => left; simp

end Glom.C04

namespace Glom.C04

/-! ### chains of handlers -/

/-- `b` is what `a` has become after any number of `glom()` handlers -/
inductive Derives : ExcObj → ExcObj → Prop
  | refl (e : ExcObj) : Derives e e
  | step {a b c : ExcObj} : Derives a b → Raised b c → Derives a c

/-- the classes all theorems are about -/
def Good (F : Facts) (e : ExcObj) : Prop := Tame F e.cls ∧ ClassOK e.cls

theorem Raised.good {F : Facts} {e out : ExcObj} (h : Raised e out) (hg : Good F e) : Good F out :=
  ⟨h.tame hg.1, h.classOK hg.2⟩

theorem Derives.good {F : Facts} {a b : ExcObj} (h : Derives a b) (hg : Good F a) : Good F b := by
  induction h with
  | refl => exact hg
  | step _ hr ih => exact hr.good ih

theorem Derives.args {a b : ExcObj} (h : Derives a b) : b.args = a.args := by
  induction h with
  | refl => rfl
  | step _ hr ih => rw [hr.args, ih]

/-- every except clause that caught the original catches what it has become -/
theorem Derives.sup {F : Facts} {a b : ExcObj} (h : Derives a b) (hg : Good F a) :
    ∀ c, isInst a c = true → isInst b c = true := by
  induction h with
  | refl => intro c hc; exact hc
  | step hd hr ih => intro c hc; exact hr.sup (hd.good hg).2 c (ih c hc)

theorem Derives.faithful {F : Facts} {a b : ExcObj} (h : Derives a b) (hg : Good F a) : Faithful a b :=
  ⟨h.sup hg _ (isInst_self a), h.args⟩

theorem Derives.trans {a b c : ExcObj} (h1 : Derives a b) (h2 : Derives b c) : Derives a c := by
  induction h2 with
  | refl => exact h1
  | step _ hr ih => exact .step ih hr

/-! ### frames -/

theorem frameG_id (E : EvalEnv) (o : Outc) : frameG E o = o := by
  unfold frameG
  cases o with
  | val => rfl
  | exc x => simp

theorem evalSeq_append_exc (E : EvalEnv) (pre post : List Sp) (x : Sp) (o : ExcObj)
    (hpre : ∀ p ∈ pre, eval E p = .val) (hx : eval E x = .exc o) :
    evalSeq E (pre ++ x :: post) = .exc o := by
  induction pre with
  | nil => simp [evalSeq, hx]
  | cons p r ih =>
    have hp : eval E p = .val := hpre p (by simp)
    simp only [List.cons_append, evalSeq, hp]
    exact ih (fun q hq => hpre q (by simp [hq]))

theorem evalCoal_absorb (E : EvalEnv) (pre post : List Sp) (x : Sp) (sk : List String) (d : Bool)
    (hpre : ∀ p ∈ pre, ∃ o, eval E p = .exc o ∧ matchesAny o sk = true) :
    evalCoal E (pre ++ x :: post) sk d = evalCoal E (x :: post) sk d := by
  induction pre with
  | nil => rfl
  | cons p r ih =>
    obtain ⟨o, ho, hc⟩ := hpre p (by simp)
    simp only [List.cons_append, evalCoal, ho, hc, if_true]
    exact ih (fun q hq => hpre q (by simp [hq]))

/-! ### contexts made of plain frames (tuple / dict / list / Spec-like / iterator steps), of any depth -/

inductive Ctx where
  | hole
  | tup (pre : List Sp) (c : Ctx) (post : List Sp)
  | dct (pre : List Sp) (c : Ctx) (post : List Sp)
  | lst (c : Ctx)
  | frame (c : Ctx)
  | first (c : Ctx)

def Ctx.plug : Ctx → Sp → Sp
  | .hole, x => x
  | .tup pre c post, x => .tup (pre ++ c.plug x :: post)
  | .dct pre c post, x => .dct (pre ++ c.plug x :: post)
  | .lst c, x => .lst (c.plug x)
  | .frame c, x => .frame (c.plug x)
  | .first c, x => .first (c.plug x)

def Ctx.depth : Ctx → Nat
  | .hole => 0
  | .tup _ c _ | .dct _ c _ | .lst c | .frame c | .first c => c.depth + 1

/-- everything evaluated before the hole returns; an iterator step (`First(key)`, `Iter().map`, `__next__`)
    is not crossed by a StopIteration (Python takes it for the end of the iteration) -/
def Ctx.PreOk (E : EvalEnv) (o : ExcObj) : Ctx → Prop
  | .hole => True
  | .tup pre c _ | .dct pre c _ => (∀ p ∈ pre, eval E p = .val) ∧ c.PreOk E o
  | .lst c | .frame c => c.PreOk E o
  | .first c => matchesAny o ["StopIteration"] = false ∧ c.PreOk E o

theorem plug_propagates (E : EvalEnv) (c : Ctx) (x : Sp) (o : ExcObj)
    (hpre : c.PreOk E o) (hx : eval E x = .exc o) : eval E (c.plug x) = .exc o := by
  induction c with
  | hole => exact hx
  | tup pre c post ih =>
    simp only [Ctx.plug, eval, frameG_id]
    exact evalSeq_append_exc E pre post _ o hpre.1 (ih hpre.2)
  | dct pre c post ih =>
    simp only [Ctx.plug, eval, frameG_id]
    exact evalSeq_append_exc E pre post _ o hpre.1 (ih hpre.2)
  | lst c ih =>
    simp only [Ctx.plug, eval, frameG_id, ih hpre]
  | frame c ih =>
    simp only [Ctx.plug, eval, frameG_id, ih hpre]
  | first c ih =>
    simp only [Ctx.plug, eval, frameG_id, ih hpre.2, hpre.1]
    simp

/-! ### the only exception objects an evaluation can end with -/

mutual
def hasFault : Sp → Bool
  | .ok | .badPath | .badMatch => false
  | .fault | .faultConv _ => true
  | .tup xs | .dct xs => hasFaultL xs
  | .lst x | .frame x | .first x | .nest x _ => hasFault x
  | .coal xs _ _ => hasFaultL xs
def hasFaultL : List Sp → Bool
  | [] => false
  | x :: r => hasFault x || hasFaultL r
end

def internalClasses (F : Facts) : List String :=
  ["PathAccessError", "TypeMatchError", "CoalesceError", F.iterRaises]

/-- the outcome is the prepared exception — as it is, or as the handlers of nested `glom()` calls
    re-raised it — (only if the spec contains the fault), or one of glom's own errors -/
def OriginOk (E : EvalEnv) (s : Bool) (o : Outc) : Prop :=
  match o with
  | .val => True
  | .exc e => (s = true ∧ Derives E.inj e) ∨ ∃ c ∈ internalClasses E.F, Derives (E.internal c) e

theorem OriginOk.mono {E : EvalEnv} {a b : Bool} {o : Outc} (h : OriginOk E a o) (hab : a = true → b = true) :
    OriginOk E b o := by
  cases o with
  | val => trivial
  | exc e =>
    rcases h with ⟨ha, hd⟩ | h
    · exact Or.inl ⟨hab ha, hd⟩
    · exact Or.inr h

theorem OriginOk.internal (E : EvalEnv) (s : Bool) {c : String} (hc : c ∈ internalClasses E.F) :
    OriginOk E s (.exc (E.internal c)) := Or.inr ⟨c, hc, .refl _⟩

theorem eval_origin (E : EvalEnv) (w : WFParts E.F) (hinj : Good E.F E.inj)
    (hint : ∀ c, Good E.F (E.internal c)) :
    (∀ s, OriginOk E (hasFault s) (eval E s)) ∧
    (∀ xs sk d, OriginOk E (hasFaultL xs) (evalCoal E xs sk d)) ∧
    (∀ xs, OriginOk E (hasFaultL xs) (evalSeq E xs)) := by
  have hpa : "PathAccessError" ∈ internalClasses E.F := by simp [internalClasses]
  have htm : "TypeMatchError" ∈ internalClasses E.F := by simp [internalClasses]
  have hco : "CoalesceError" ∈ internalClasses E.F := by simp [internalClasses]
  have hit : E.F.iterRaises ∈ internalClasses E.F := by simp [internalClasses]
  apply eval.mutual_induct E
    (fun s => OriginOk E (hasFault s) (eval E s))
    (fun xs sk d => OriginOk E (hasFaultL xs) (evalCoal E xs sk d))
    (fun xs => OriginOk E (hasFaultL xs) (evalSeq E xs))
  case case1 => simp [eval, frameG_id, OriginOk]
  case case2 => simp only [eval, frameG_id, hasFault]; exact Or.inl ⟨rfl, .refl _⟩
  case case3 =>
    intro k
    simp only [eval, frameG_id, hasFault]
    split
    · cases k <;> simp only [Facts.convRaises]
      · exact OriginOk.internal E _ hit
      all_goals exact OriginOk.internal E _ hpa
    · exact Or.inl ⟨rfl, .refl _⟩
  case case4 => simp only [eval, frameG_id]; exact OriginOk.internal E _ hpa
  case case5 => simp only [eval, frameG_id]; exact OriginOk.internal E _ htm
  case case6 => intro a ih; simpa [eval, frameG_id, hasFault] using ih
  case case7 => intro a ih; simpa [eval, frameG_id, hasFault] using ih
  case case8 =>
    intro a ih
    simp only [eval, frameG_id, hasFault]
    cases h : eval E a with
    | val => simpa [h] using ih
    | exc o => simpa [h] using ih
  case case9 => intro a ih; simpa [eval, frameG_id, hasFault] using ih
  case case10 =>
    intro a ih
    simp only [eval, frameG_id, hasFault]
    cases h : eval E a with
    | val => simp [OriginOk]
    | exc o =>
      rw [h] at ih
      by_cases hc : matchesAny o ["StopIteration"] = true
      · simp [hc, OriginOk]
      · simpa [hc] using ih
  case case11 => intro a sk d ih; simpa [eval, frameG_id, hasFault] using ih
  case case12 =>
    intro a s ih
    simp only [eval, frameG_id, hasFault]
    cases h : eval E a with
    | val => simp [toBody, glomTop, OriginOk]
    | exc e =>
      rw [h] at ih
      simp only [toBody]
      rcases glomTop_cases w s e with ⟨_, d, _, hd⟩ | ⟨_, ho⟩
      · rw [hd]; trivial
      · rw [ho]
        have hgood : Good E.F e := by
          rcases ih with ⟨_, hd⟩ | ⟨c, _, hd⟩
          · exact hd.good hinj
          · exact hd.good (hint c)
        obtain ⟨out, hout, hr⟩ := outer_raised w s e hgood.1
        rw [hout]
        rcases ih with ⟨hs, hd⟩ | ⟨c, hc, hd⟩
        · exact Or.inl ⟨hs, .step hd hr⟩
        · exact Or.inr ⟨c, hc, .step hd hr⟩
  case case13 => intro x; simp [evalCoal, OriginOk]
  case case14 =>
    intro x d hd
    have : d = false := by simpa using hd
    subst this
    simp only [evalCoal, Bool.false_eq_true, if_false]
    exact OriginOk.internal E _ hco
  case case15 => intro x r sk d hx _; simp [evalCoal, hx, OriginOk]
  case case16 =>
    intro x r sk d a hx hc _ ih
    simp only [evalCoal, hx, hc, if_true]
    exact ih.mono (by simp only [hasFaultL, Bool.or_eq_true]; exact Or.inr)
  case case17 =>
    intro x r sk d a hx hc ih
    simp only [evalCoal, hx, hc]
    rw [hx] at ih
    exact ih.mono (by simp only [hasFaultL, Bool.or_eq_true]; exact Or.inl)
  case case18 => simp [evalSeq, OriginOk]
  case case19 =>
    intro x r hx _ ih
    simp only [evalSeq, hx]
    exact ih.mono (by simp only [hasFaultL, Bool.or_eq_true]; exact Or.inr)
  case case20 =>
    intro x r a hx ih
    simp only [evalSeq, hx]
    rw [hx] at ih
    exact ih.mono (by simp only [hasFaultL, Bool.or_eq_true]; exact Or.inl)

/-! ### nesting levels: plain frames, iterator steps, Coalesce, nested `glom()` calls -/

inductive Level where
  | plain                                                  -- `Spec(x)`, `Call`/`Invoke` argument, …
  | iter                                                   -- `First(x)`, `Iter().map(x)`, …
  | coal (skip : Option (List String)) (dflt : Bool)       -- `Coalesce(x, skip_exc=…, default=…)`
  | nest (s : Settings)                                    -- `glom(target, x, **s)` inside a callable

def Level.wrap : Level → Sp → Sp
  | .plain, x => .frame x
  | .iter, x => .first x
  | .coal sk d, x => .coal [x] sk d
  | .nest s, x => .nest x s

/-- the levels around a spec, outermost first -/
def plugLevels : List Level → Sp → Sp
  | [], x => x
  | l :: r, x => l.wrap (plugLevels r x)

/-- what one level does to what reaches it — stated with the DOCUMENTED notions only (`selected`,
    the documented `Coalesce` default) and the handler of `glom()` -/
def Level.pass (E : EvalEnv) : Level → Outc → Outc
  | _, .val => .val
  | .plain, .exc e => .exc e
  | .iter, .exc e => if matchesAny e ["StopIteration"] then .val else .exc e
  | .coal sk d, .exc e =>
    if matchesAny e (sk.getD ["GlomError"]) then (if d then .val else .exc (E.internal "CoalesceError"))
    else .exc e
  | .nest s, .exc e =>
    if selected s e then .val
    else match outer E.F s e with
      | .exc out => .exc out
      | _ => .val

def travel (E : EvalEnv) : List Level → Outc → Outc
  | [], o => o
  | l :: r, o => l.pass E (travel E r o)

theorem level_pass (E : EvalEnv) (w : WFParts E.F) (l : Level) (x : Sp) :
    eval E (l.wrap x) = l.pass E (eval E x) := by
  cases l with
  | plain => simp only [Level.wrap, eval, frameG_id]; cases eval E x <;> rfl
  | iter =>
    simp only [Level.wrap, eval, frameG_id]
    cases eval E x <;> simp [Level.pass]
  | coal sk d =>
    simp only [Level.wrap, eval, frameG_id, evalCoal, w.coalesceSkip]
    cases h : eval E x with
    | val => simp [Level.pass]
    | exc e => simp [Level.pass]
  | nest s =>
    simp only [Level.wrap, eval, frameG_id]
    cases h : eval E x with
    | val => simp [Level.pass, toBody, glomTop]
    | exc e =>
      simp only [toBody, Level.pass]
      rcases glomTop_cases w s e with ⟨hs, d, _, hd⟩ | ⟨hs, ho⟩
      · rw [hd, hs]; simp
      · rw [ho, hs]
        cases outer E.F s e <;> simp

theorem levels_travel (E : EvalEnv) (w : WFParts E.F) (ls : List Level) (x : Sp) :
    eval E (plugLevels ls x) = travel E ls (eval E x) := by
  induction ls with
  | nil => rfl
  | cons l r ih => simp only [plugLevels, travel, level_pass E w, ih]

/-- what leaves any number of levels is what entered, re-raised by the handlers on the way, unless a
    Coalesce level replaced it by its CoalesceError -/
theorem travel_derives (E : EvalEnv) (w : WFParts E.F) (hint : Good E.F (E.internal "CoalesceError"))
    (ls : List Level) (e out : ExcObj) (hg : Good E.F e) (h : travel E ls (.exc e) = .exc out) :
    Derives e out ∨ Derives (E.internal "CoalesceError") out := by
  induction ls generalizing out with
  | nil => simp only [travel, Outc.exc.injEq] at h; subst h; exact Or.inl (.refl _)
  | cons l r ih =>
    simp only [travel] at h
    cases hr : travel E r (.exc e) with
    | val => rw [hr] at h; cases l <;> simp [Level.pass] at h
    | exc m =>
      rw [hr] at h
      have hm := ih m hr
      have hgm : Good E.F m := by
        rcases hm with hd | hd
        · exact hd.good hg
        · exact hd.good hint
      cases l with
      | plain => simp only [Level.pass, Outc.exc.injEq] at h; subst h; exact hm
      | iter =>
        simp only [Level.pass] at h
        split at h
        · cases h
        · simp only [Outc.exc.injEq] at h; subst h; exact hm
      | coal sk d =>
        simp only [Level.pass] at h
        split at h
        · split at h
          · cases h
          · simp only [Outc.exc.injEq] at h; subst h; exact Or.inr (.refl _)
        · simp only [Outc.exc.injEq] at h; subst h; exact hm
      | nest s =>
        simp only [Level.pass] at h
        split at h
        · cases h
        · obtain ⟨o2, ho2, hr2⟩ := outer_raised w s m hgm.1
          rw [ho2] at h
          simp only [Outc.exc.injEq] at h; subst h
          rcases hm with hd | hd
          · exact Or.inl (.step hd hr2)
          · exact Or.inr (.step hd hr2)

end Glom.C04

namespace Glom.C04

/-- **the merge respects every order it is given**: each input list — the MRO of each base, and the
    list of the bases themselves — is a subsequence of the result -/
theorem c3merge_order : ∀ (n : Nat) (ls : List (List String)) (r : List String),
    c3merge n ls = some r → ∀ l ∈ ls, l.Sublist r := by
  intro n
  induction n with
  | zero =>
    intro ls r h l hl
    unfold c3merge at h
    split at h
    · rename_i he
      have := List.all_eq_true.mp he l hl
      cases l with
      | nil => exact List.nil_sublist _
      | cons a t => simp at this
    · cases h
  | succ n ih =>
    intro ls r h l hl
    unfold c3merge at h
    split at h
    · rename_i he
      have := List.all_eq_true.mp he l hl
      cases l with
      | nil => exact List.nil_sublist _
      | cons a t => simp at this
    · split at h
      · cases h
      · rename_i hd _
        cases hm : c3merge n (ls.map (dropHead hd)) with
        | none => rw [hm] at h; cases h
        | some r' =>
          rw [hm] at h
          simp only [Option.map_some, Option.some.injEq] at h
          subst h
          have hsub := ih _ _ hm _ (List.mem_map_of_mem (f := dropHead hd) hl)
          cases l with
          | nil => exact List.nil_sublist _
          | cons a t =>
            by_cases ha : a = hd
            · subst ha
              rw [dropHead_cons_self] at hsub
              exact List.Sublist.cons_cons _ hsub
            · rw [dropHead_cons_ne t ha] at hsub
              exact List.Sublist.cons _ hsub

theorem matchesAny_mono {e out : ExcObj} (h : ∀ c, isInst e c = true → isInst out c = true) (cs : List String)
    (hm : matchesAny e cs = true) : matchesAny out cs = true := by
  simp only [matchesAny, List.any_eq_true] at hm ⊢
  obtain ⟨c, hc, hi⟩ := hm
  exact ⟨c, hc, h c hi⟩

end Glom.C04

namespace Glom.C04

/-! ### the conversions of glom's own `try` blocks, with the documented `except` clauses -/

def docCatch : Conv → List String
  | .iter | .path => ["Exception"]
  | .getattr => ["AttributeError"]
  | .getitem => ["KeyError", "IndexError", "TypeError", "ValueError"]

def docRaises : Conv → String
  | .iter => "TypeError"
  | _ => "PathAccessError"

theorem conv_eval (E : EvalEnv) (w : WFParts E.F) (k : Conv) :
    eval E (.faultConv k) =
      (if matchesAny E.inj (docCatch k) then .exc (E.internal (docRaises k)) else .exc E.inj) := by
  simp only [eval, frameG_id]
  cases k <;>
    simp only [Facts.convCatch, Facts.convRaises, w.iterCatch, w.iterRaises, w.getitemCatch, w.getattrCatch,
      w.pathCatch, docCatch, docRaises] <;> rfl

/-- nothing raised: the computed value is returned, never the default (by definition of the model) -/
theorem glomTop_val (F : Facts) (s : Settings) : glomTop F s .val = .value := rfl

end Glom.C04
