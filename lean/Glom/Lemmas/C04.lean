import Glom.Spec.C04
/-
  Helper lemmas for C04: what `WF` pins down, the C3 merge and the MRO of the wrapper class,
  the case analysis of `glom()`'s handler, propagation through plain frames, nesting levels.
-/
namespace Glom.C04

/-! ### what `WF` pins down -/

theorem WF_eq {F : Facts} (h : WF F = true) : F = docFacts F.wrapTypeInTry F.attrGuarded := by
  unfold WF at h
  exact eq_of_beq h

structure WFParts (F : Facts) : Prop where
  defIfSkip : F.defIfSkip = some .none_
  defElse : F.defElse = none
  skipIfMissing : F.skipIfMissing = []
  skipElse : F.skipElse = ["GlomError"]
  debugDefault : F.debugDefault = false
  outerCatch : F.outerCatch = ["Exception"]
  copyArgsCheck : F.copyArgsCheck = true
  copyFallback : F.copyFallback = true
  wrapArgsCheck : F.wrapArgsCheck = true
  wrapFallback : F.wrapFallback = true
  errTest : F.errTestTruthy = false
  tmeCopy : F.tmeCopyFixed = false
  frameCatch : F.frameCatch = ["Exception"]
  coalesceSkip : F.coalesceSkipDefault = ["GlomError"]
  iterCatch : F.iterCatch = ["Exception"]
  iterRaises : F.iterRaises = "TypeError"
  getitemCatch : F.getitemCatch = ["KeyError", "IndexError", "TypeError", "ValueError"]
  getattrCatch : F.getattrCatch = ["AttributeError"]
  pathCatch : F.pathCatch = ["Exception"]

theorem WF_parts {F : Facts} (h : WF F = true) : WFParts F := by
  have e := WF_eq h
  exact
    { defIfSkip := congrArg Facts.defIfSkip e
      defElse := congrArg Facts.defElse e
      skipIfMissing := congrArg Facts.skipIfMissing e
      skipElse := congrArg Facts.skipElse e
      debugDefault := congrArg Facts.debugDefault e
      outerCatch := congrArg Facts.outerCatch e
      copyArgsCheck := congrArg Facts.copyArgsCheck e
      copyFallback := congrArg Facts.copyFallback e
      wrapArgsCheck := congrArg Facts.wrapArgsCheck e
      wrapFallback := congrArg Facts.wrapFallback e
      errTest := congrArg Facts.errTestTruthy e
      tmeCopy := congrArg Facts.tmeCopyFixed e
      frameCatch := congrArg Facts.frameCatch e
      coalesceSkip := congrArg Facts.coalesceSkipDefault e
      iterCatch := congrArg Facts.iterCatch e
      iterRaises := congrArg Facts.iterRaises e
      getitemCatch := congrArg Facts.getitemCatch e
      getattrCatch := congrArg Facts.getattrCatch e
      pathCatch := congrArg Facts.pathCatch e }

/-! ### effective settings = documented settings -/

theorem effDefault_eq_ref {F : Facts} (w : WFParts F) (s : Settings) : effDefault F s = refDefault s := by
  unfold effDefault refDefault
  cases s.default <;> simp [w.defIfSkip, w.defElse]

theorem effSkip_eq_ref {F : Facts} (w : WFParts F) (s : Settings) : effSkip F s = refSkip s := by
  unfold effSkip refSkip
  rw [effDefault_eq_ref w]
  unfold refDefault
  cases hs : s.skipExc <;> cases hd : s.default <;> simp [w.skipIfMissing, w.skipElse]

theorem effDebug_eq {F : Facts} (w : WFParts F) (s : Settings) : effDebug F s = s.debug.getD false := by
  unfold effDebug; rw [w.debugDefault]

/-! ### the C3 merge -/

theorem mem_dropHead {h x : String} {l : List String} (hx : x ∈ l) : x = h ∨ x ∈ dropHead h l := by
  cases l with
  | nil => cases hx
  | cons a t =>
    by_cases ha : (a == h) = true
    · simp only [dropHead, ha, if_true]
      rcases List.mem_cons.mp hx with rfl | hx
      · exact Or.inl (eq_of_beq ha)
      · exact Or.inr hx
    · simp only [dropHead, ha]; exact Or.inr hx

theorem all_isEmpty_no_mem {ls : List (List String)} (h : ls.all List.isEmpty = true)
    {l : List String} (hl : l ∈ ls) {x : String} (hx : x ∈ l) : False := by
  have := List.all_eq_true.mp h l hl
  cases l with
  | nil => cases hx
  | cons a t => simp at this

/-- **soundness of the merge**: every class of every input list is in the result -/
theorem c3merge_sound : ∀ (n : Nat) (ls : List (List String)) (r : List String),
    c3merge n ls = some r → ∀ l ∈ ls, ∀ x ∈ l, x ∈ r := by
  intro n
  induction n with
  | zero =>
    intro ls r h l hl x hx
    unfold c3merge at h
    split at h
    · rename_i he; exact (all_isEmpty_no_mem he hl hx).elim
    · cases h
  | succ n ih =>
    intro ls r h l hl x hx
    unfold c3merge at h
    split at h
    · rename_i he; exact (all_isEmpty_no_mem he hl hx).elim
    · split at h
      · cases h
      · rename_i hd _
        cases hm : c3merge n (ls.map (dropHead hd)) with
        | none => rw [hm] at h; cases h
        | some r' =>
          rw [hm] at h
          simp only [Option.map_some, Option.some.injEq] at h
          subst h
          rcases mem_dropHead (h := hd) hx with rfl | hx'
          · exact List.mem_cons_self
          · exact List.mem_cons_of_mem _ (ih _ _ hm _ (List.mem_map_of_mem hl) _ hx')

theorem pickHead_skip_nil (ls rest : List (List String)) : pickHead ls ([] :: rest) = pickHead ls rest := rfl

theorem pickHead_free {ls rest : List (List String)} {h : String} {t : List String}
    (hf : inTail ls h = false) : pickHead ls ((h :: t) :: rest) = some h := by
  simp [pickHead, hf]

theorem pickHead_blocked {ls rest : List (List String)} {h : String} {t : List String}
    (hf : inTail ls h = true) : pickHead ls ((h :: t) :: rest) = pickHead ls rest := by
  simp [pickHead, hf]

theorem c3merge_step {n : Nat} {ls : List (List String)} {h : String}
    (hne : ls.all List.isEmpty = false) (hp : pickHead ls ls = some h) :
    c3merge (n + 1) ls = (c3merge n (ls.map (dropHead h))).map (h :: ·) := by
  rw [c3merge]
  simp [hne, hp]

theorem dropHead_cons_self (h : String) (t : List String) : dropHead h (h :: t) = t := by
  simp [dropHead]

theorem dropHead_cons_ne {h a : String} (t : List String) (hne : a ≠ h) : dropHead h (a :: t) = a :: t := by
  simp [dropHead, hne]

theorem dropHead_not_mem {h : String} {l : List String} (hn : h ∉ l) : dropHead h l = l := by
  cases l with
  | nil => rfl
  | cons a t =>
    have : a ≠ h := fun e => hn (e ▸ List.mem_cons_self)
    exact dropHead_cons_ne t this

/-- a sublist of `a :: A` (nodup): after dropping a leading `a` it is a sublist of `A`, and `a` is
    not in its tail -/
theorem sublist_dropHead {a : String} {A l : List String} (hnd : (a :: A).Nodup) (hs : l.Sublist (a :: A)) :
    (dropHead a l).Sublist A ∧ a ∉ l.tail := by
  have haA : a ∉ A := (List.nodup_cons.mp hnd).1
  cases hs with
  | cons _ h =>
    -- l <+ A
    have hal : a ∉ l := fun hm => haA (h.subset hm)
    refine ⟨by rw [dropHead_not_mem hal]; exact h, fun hm => hal (List.mem_of_mem_tail hm)⟩
  | cons_cons _ h =>
    -- l = a :: l', l' <+ A
    rename_i l'
    refine ⟨by rw [dropHead_cons_self]; exact h, ?_⟩
    intro hm
    exact haA (h.subset hm)

/-- **a dominant list**: when every other list is a sublist of the (duplicate-free) first one,
    the merge is the first list -/
theorem c3merge_dominant : ∀ (A : List String) (ls : List (List String)) (n : Nat),
    A.Nodup → (∀ l ∈ ls, l.Sublist A) → A.length ≤ n → c3merge n (A :: ls) = some A := by
  intro A
  induction A with
  | nil =>
    intro ls n _ hs _
    have hall : (([] : List String) :: ls).all List.isEmpty = true := by
      simp only [List.all_cons, List.isEmpty_nil, Bool.true_and, List.all_eq_true]
      intro l hl
      have := hs l hl
      cases l with
      | nil => rfl
      | cons a t => cases this
    cases n <;> simp [c3merge, hall]
  | cons a A ih =>
    intro ls n hnd hs hn
    cases n with
    | zero => simp at hn
    | succ n =>
      have hne : ((a :: A) :: ls).all List.isEmpty = false := by simp
      have hfree : inTail ((a :: A) :: ls) a = false := by
        simp only [inTail, List.any_cons, List.tail_cons, Bool.or_eq_false_iff, List.any_eq_false]
        refine ⟨?_, ?_⟩
        · simpa using (List.nodup_cons.mp hnd).1
        · intro l hl
          have := (sublist_dropHead hnd (hs l hl)).2
          simpa using this
      rw [c3merge_step hne (pickHead_free hfree)]
      simp only [List.map_cons, dropHead_cons_self]
      rw [ih (ls.map (dropHead a)) n (List.nodup_cons.mp hnd).2 ?_ (by simpa using hn)]
      · rfl
      · intro l hl
        obtain ⟨l0, hl0, rfl⟩ := List.mem_map.mp hl
        exact (sublist_dropHead hnd (hs l0 hl0)).1

end Glom.C04

namespace Glom.C04

/-! ### the MRO of the wrapper class -/

/-- a class name that is none of GlomError's own MRO -/
def Free (x : String) : Prop := x ≠ "GlomError" ∧ x ≠ "Exception" ∧ x ≠ "BaseException" ∧ x ≠ "object"

theorem inTail_three (a b c : List String) (h : String) :
    inTail [a, b, c] h = (a.tail.contains h || b.tail.contains h || c.tail.contains h) := by
  simp [inTail, Bool.or_assoc]

theorem free_not_glomTail {x : String} (hx : Free x) : glomMro.tail.contains x = false := by
  obtain ⟨_, h2, h3, h4⟩ := hx
  simp [glomMro, h2, h3, h4]

/-- phase B–D of the merge: the classes before `Exception` are taken one by one, then GlomError
    (blocked until `Exception` heads the first list), then the rest of the exception's MRO -/
theorem c3merge_insert : ∀ (pre rest : List String) (n : Nat),
    (pre ++ "Exception" :: rest).Nodup → (∀ x ∈ pre, Free x) → "GlomError" ∉ rest →
    ["BaseException", "object"].Sublist rest → pre.length + rest.length + 3 ≤ n →
    c3merge n [pre ++ "Exception" :: rest, glomMro, ["GlomError"]]
      = some (pre ++ "GlomError" :: "Exception" :: rest) := by
  intro pre
  induction pre with
  | nil =>
    intro rest n hnd _ hg hsub hn
    cases n with
    | zero => omega
    | succ n =>
      simp only [List.nil_append] at hnd ⊢
      have hne : ([("Exception" :: rest), glomMro, ["GlomError"]].all List.isEmpty) = false := by simp
      have hblocked : inTail [("Exception" :: rest), glomMro, ["GlomError"]] "Exception" = true := by
        rw [inTail_three]; simp [glomMro]
      have hfree : inTail [("Exception" :: rest), glomMro, ["GlomError"]] "GlomError" = false := by
        rw [inTail_three]
        simp [glomMro, hg]
      have hp : pickHead [("Exception" :: rest), glomMro, ["GlomError"]]
          [("Exception" :: rest), glomMro, ["GlomError"]] = some "GlomError" := by
        rw [pickHead_blocked hblocked]
        show pickHead _ (("GlomError" :: ["Exception", "BaseException", "object"]) :: [["GlomError"]]) = _
        exact pickHead_free hfree
      rw [c3merge_step hne hp]
      have hd1 : dropHead "GlomError" ("Exception" :: rest) = "Exception" :: rest :=
        dropHead_cons_ne rest (by decide)
      have hd2 : dropHead "GlomError" glomMro = ["Exception", "BaseException", "object"] := by
        simp [glomMro, dropHead]
      have hd3 : dropHead "GlomError" ["GlomError"] = [] := by simp [dropHead]
      simp only [List.map_cons, List.map_nil, hd1, hd2, hd3]
      rw [c3merge_dominant ("Exception" :: rest) [["Exception", "BaseException", "object"], []] n hnd ?_
        (by simp only [List.length_cons]; omega)]
      · rfl
      · intro l hl
        simp only [List.mem_cons, List.not_mem_nil, or_false] at hl
        rcases hl with rfl | rfl
        · exact List.Sublist.cons_cons _ hsub
        · exact List.nil_sublist _
  | cons p pre ih =>
    intro rest n hnd hfreeAll hg hsub hn
    cases n with
    | zero => simp at hn
    | succ n =>
      have hp : Free p := hfreeAll p List.mem_cons_self
      simp only [List.cons_append] at hnd ⊢
      have hne : ([(p :: (pre ++ "Exception" :: rest)), glomMro, ["GlomError"]].all List.isEmpty) = false := by
        simp
      have hfree : inTail [(p :: (pre ++ "Exception" :: rest)), glomMro, ["GlomError"]] p = false := by
        rw [inTail_three]
        have h1 : (pre ++ "Exception" :: rest).contains p = false := by
          simpa using (List.nodup_cons.mp hnd).1
        simp only [List.tail_cons, h1, free_not_glomTail hp, Bool.false_or]
        simp
      rw [c3merge_step hne (pickHead_free hfree)]
      have hd2 : dropHead p glomMro = glomMro := by
        simp only [glomMro]; exact dropHead_cons_ne _ (Ne.symm hp.1)
      have hd3 : dropHead p ["GlomError"] = ["GlomError"] := dropHead_cons_ne _ (Ne.symm hp.1)
      simp only [List.map_cons, List.map_nil, dropHead_cons_self, hd2, hd3]
      rw [ih rest n (List.nodup_cons.mp hnd).2 (fun x hx => hfreeAll x (List.mem_cons_of_mem _ hx)) hg hsub
        (by simp only [List.length_cons] at hn; omega)]
      rfl

/-- **the wrapper's MRO exists** for every consistent MRO of an `Exception` subclass that is not a
    GlomError: the classes up to `Exception`, GlomError, then `Exception` and the rest -/
theorem wrapMro_exc (c : String) (pre rest : List String)
    (hnd : (c :: pre ++ "Exception" :: rest).Nodup)
    (hfree : ∀ x ∈ c :: pre, Free x) (hg : "GlomError" ∉ rest)
    (hsub : ["BaseException", "object"].Sublist rest) :
    wrapMro (c :: pre ++ "Exception" :: rest) = some (c :: pre ++ "GlomError" :: "Exception" :: rest) := by
  unfold wrapMro
  have hc : Free c := hfree c List.mem_cons_self
  simp only [List.cons_append, List.headD_cons, List.length_cons]
  have hne : ([(c :: (pre ++ "Exception" :: rest)), glomMro, [c, "GlomError"]].all List.isEmpty) = false := by
    simp
  have hfr : inTail [(c :: (pre ++ "Exception" :: rest)), glomMro, [c, "GlomError"]] c = false := by
    rw [inTail_three]
    have h1 : (pre ++ "Exception" :: rest).contains c = false := by
      simpa using (List.nodup_cons.mp hnd).1
    simp only [List.tail_cons, h1, free_not_glomTail hc, Bool.false_or]
    simp [hc.1]
  rw [c3merge_step hne (pickHead_free hfr)]
  have hd2 : dropHead c glomMro = glomMro := by
    simp only [glomMro]; exact dropHead_cons_ne _ (Ne.symm hc.1)
  simp only [List.map_cons, List.map_nil, dropHead_cons_self, hd2]
  rw [c3merge_insert pre rest _ (List.nodup_cons.mp hnd).2
    (fun x hx => hfree x (List.mem_cons_of_mem _ hx)) hg hsub (by simp only [List.length_append, List.length_cons]; omega)]
  rfl

/-- **a wrapped error wrapped again**: when GlomError's MRO is already part of the class's MRO the
    merge changes nothing -/
theorem wrapMro_of_glomerror (c : String) (t : List String)
    (hnd : (c :: t).Nodup) (hc : c ≠ "GlomError") (hsub : glomMro.Sublist t) :
    wrapMro (c :: t) = some (c :: t) := by
  unfold wrapMro
  simp only [List.headD_cons, List.length_cons]
  have hct : c ∉ t := (List.nodup_cons.mp hnd).1
  have hcg : c ∉ glomMro := fun h => hct (hsub.subset h)
  have hne : ([(c :: t), glomMro, [c, "GlomError"]].all List.isEmpty) = false := by simp
  have hfr : inTail [(c :: t), glomMro, [c, "GlomError"]] c = false := by
    rw [inTail_three]
    have h1 : t.contains c = false := by simpa using hct
    have h2 : glomMro.tail.contains c = false := by
      have : c ∉ glomMro.tail := fun h => hcg (List.mem_of_mem_tail h)
      simpa using this
    simp only [List.tail_cons, h1, h2, Bool.false_or]
    simp [hc]
  rw [c3merge_step hne (pickHead_free hfr)]
  simp only [List.map_cons, List.map_nil, dropHead_cons_self, dropHead_not_mem hcg]
  rw [c3merge_dominant t [glomMro, ["GlomError"]] _ (List.nodup_cons.mp hnd).2 ?_ (by omega)]
  · rfl
  · intro l hl
    simp only [List.mem_cons, List.not_mem_nil, or_false] at hl
    rcases hl with rfl | rfl
    · exact hsub
    · exact (List.singleton_sublist.mpr (hsub.subset (by simp [glomMro])))

theorem insertGlom_free (pre rest : List String) (hfree : ∀ x ∈ pre, Free x) :
    insertGlom (pre ++ "Exception" :: rest) = pre ++ "GlomError" :: "Exception" :: rest := by
  induction pre with
  | nil => simp [insertGlom]
  | cons p pre ih =>
    obtain ⟨h1, h2, h3, _⟩ := hfree p List.mem_cons_self
    simp only [List.cons_append, insertGlom, beq_iff_eq, h1, h2, h3, if_false]
    rw [ih (fun x hx => hfree x (List.mem_cons_of_mem _ hx))]

end Glom.C04
