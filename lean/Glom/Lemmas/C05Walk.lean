import Glom.Lemmas.C05Store
/-
  C05 — the NO_PYFRAME walk of `_glom`'s exception handler over a chain of handed-on frames.
-/
namespace Glom.C05

def upOf (fs : Array Frame) (j : Nat) : Option Nat := fs[j]?.map (·.up)
def noPyOf (fs : Array Frame) (j : Nat) : Option Bool := fs[j]?.map (·.noPy)

theorem upOf_modFrame (fs : Array Frame) (i : Nat) (g : Frame → Frame) (k : Nat)
    (hg : ∀ f, (g f).up = f.up) : upOf (modFrame fs i g) k = upOf fs k := by
  simp only [upOf, modFrame_get]
  split <;> cases fs[k]? <;> simp [hg]

theorem noPyOf_modFrame (fs : Array Frame) (i : Nat) (g : Frame → Frame) (k : Nat)
    (hg : ∀ f, (g f).noPy = f.noPy) : noPyOf (modFrame fs i g) k = noPyOf fs k := by
  simp only [noPyOf, modFrame_get]
  split <;> cases fs[k]? <;> simp [hg]

/-- `seg` (most recent first) is a chain of frames below the frame `p`: each is the parent of the
    one before it, all but the most recent are flagged NO_PYFRAME, the oldest is a child of `p` -/
def SegInv (fs : Array Frame) (p : Nat) : List Nat → Prop
  | [] => True
  | [h] => upOf fs h = some p ∧ p < h
  | x :: y :: r => upOf fs x = some y ∧ noPyOf fs y = some true ∧ y < x ∧ SegInv fs p (y :: r)

theorem SegInv_congr (fs fs' : Array Frame) (p : Nat)
    (hu : ∀ j, upOf fs' j = upOf fs j) (hn : ∀ j, noPyOf fs' j = noPyOf fs j) :
    ∀ seg, SegInv fs p seg → SegInv fs' p seg
  | [], _ => trivial
  | [h], hs => by simpa [SegInv, hu] using hs
  | x :: y :: r, hs => by
    simp only [SegInv, hu, hn] at hs ⊢
    exact ⟨hs.1, hs.2.1, hs.2.2.1, SegInv_congr fs fs' p hu hn (y :: r) hs.2.2.2⟩

/-- only what concerns the frames of `seg` matters (and flags may be added) -/
theorem SegInv_congr_on (fs fs' : Array Frame) (p : Nat) :
    ∀ seg, (∀ j, j ∈ seg → upOf fs' j = upOf fs j ∧ (noPyOf fs j = some true → noPyOf fs' j = some true)) →
      SegInv fs p seg → SegInv fs' p seg
  | [], _, _ => trivial
  | [h], hj, hs => by
    have := hj h (by simp)
    simpa [SegInv, this.1] using hs
  | x :: y :: r, hj, hs => by
    have hx := hj x (by simp)
    have hy := hj y (by simp)
    simp only [SegInv, hx.1] at hs ⊢
    exact ⟨hs.1, hy.2 hs.2.1, hs.2.2.1,
      SegInv_congr_on fs fs' p (y :: r) (fun j hm => hj j (List.mem_cons_of_mem _ hm)) hs.2.2.2⟩

theorem SegInv_lt (fs : Array Frame) (p : Nat) : ∀ seg, SegInv fs p seg → ∀ j, j ∈ seg → p < j
  | [], _, j, hj => by simp at hj
  | [h], hs, j, hj => by
    simp at hj; subst hj; exact hs.2
  | x :: y :: r, hs, j, hj => by
    have ih := SegInv_lt fs p (y :: r) hs.2.2.2
    rcases List.mem_cons.mp hj with h | h
    · subst h
      have := ih y (by simp)
      have := hs.2.2.1
      omega
    · exact ih j h

/-- the chain is strictly decreasing -/
theorem SegInv_head_gt (fs : Array Frame) (p : Nat) : ∀ x seg, SegInv fs p (x :: seg) → ∀ j, j ∈ seg → j < x
  | _, [], _, j, hj => by simp at hj
  | x, y :: r, hs, j, hj => by
    have ih := SegInv_head_gt fs p y r hs.2.2.2
    rcases List.mem_cons.mp hj with h | h
    · subst h; exact hs.2.2.1
    · have := ih j h
      have := hs.2.2.1
      omega

/-- the frame of `seg` whose parent is `j` -/
def below (p : Nat) : List Nat → Nat → Option Nat
  | [], _ => none
  | [h], j => if j = p then some h else none
  | x :: y :: r, j => if j = y then some x else below p (y :: r) j

/-- what the walk does to frame `j`: the error becomes the CUR_ERROR of every frame of the chain,
    and every frame of the chain is appended to the CHILD_ERRORS of its parent -/
def walkUpd (e p : Nat) (seg : List Nat) (j : Nat) (f : Frame) : Frame :=
  { f with curError := if j ∈ seg then some e else f.curError,
           childErrors := f.childErrors ++ (below p seg j).toList }

theorem below_none_of_gt (p : Nat) (fs : Array Frame) : ∀ seg j, SegInv fs p seg → (∀ x, x ∈ seg → x < j) →
    below p seg j = none
  | [], _, _, _ => rfl
  | [h], j, hs, hj => by
    have := hj h (by simp)
    have := hs.2
    simp [below]; omega
  | x :: y :: r, j, hs, hj => by
    have hy := hj y (by simp)
    simp only [below]
    rw [if_neg (by omega)]
    exact below_none_of_gt p fs (y :: r) j hs.2.2.2 (fun z hz => hj z (List.mem_cons_of_mem _ hz))

theorem walkUp_seg (e p : Nat) : ∀ (seg : List Nat) (q : Nat) (fs : Array Frame) (fuel : Nat),
    SegInv fs p (q :: seg) → noPyOf fs q = some true → noPyOf fs p = some false →
    seg.length < fuel →
    ∀ j, (walkUp e fuel q fs)[j]? = fs[j]?.map (walkUpd e p (q :: seg) j) := by
  intro seg
  induction seg with
  | nil =>
    intro q fs fuel hs hq hp hfuel j
    obtain ⟨fuel, rfl⟩ : ∃ k, fuel = k + 1 := ⟨fuel - 1, by simp at hfuel; omega⟩
    unfold walkUp
    cases hfq : fs[q]? with
    | none => simp [noPyOf, hfq] at hq
    | some f =>
      have hnp : f.noPy = true := by simpa [noPyOf, hfq] using hq
      have hup : f.up = p := by simpa [SegInv, upOf, hfq] using hs.1
      have hpq : p < q := hs.2
      simp only [hnp, if_true, hup]
      rw [walkUp_stop]
      · simp only [modFrame_get]
        by_cases h1 : j = q
        · subst h1
          have : j ≠ p := by omega
          simp [this, hfq, walkUpd, below]
        · by_cases h2 : j = p
          · subst h2
            simp only [if_neg h1, if_true]
            cases fs[j]? <;> simp [walkUpd, below, h1]
          · simp only [if_neg h1, if_neg h2]
            cases fs[j]? <;> simp [walkUpd, below, h1, h2]
      · have : p ≠ q := by omega
        simp only [modFrame_get, if_neg this, if_true]
        simp only [noPyOf] at hp
        cases hfp : fs[p]? with
        | none => simp [hfp] at hp
        | some fp => simp [hfp] at hp ⊢; exact hp
  | cons y r ih =>
    intro q fs fuel hs hq hp hfuel j
    obtain ⟨fuel, rfl⟩ : ∃ k, fuel = k + 1 := ⟨fuel - 1, by simp at hfuel; omega⟩
    unfold walkUp
    cases hfq : fs[q]? with
    | none => simp [noPyOf, hfq] at hq
    | some f =>
      have hnp : f.noPy = true := by simpa [noPyOf, hfq] using hq
      have hup : f.up = y := by simpa [SegInv, upOf, hfq] using hs.1
      have hyq : y < q := hs.2.2.1
      have hpy : p < y := SegInv_lt fs p (y :: r) hs.2.2.2 y (by simp)
      simp only [hnp, if_true, hup]
      have hpres_u : ∀ k, upOf (modFrame (modFrame fs y fun p => { p with childErrors := p.childErrors ++ [q] }) q
          fun c => { c with curError := some e }) k = upOf fs k := by
        intro k
        refine (upOf_modFrame _ _ _ _ ?_).trans (upOf_modFrame _ _ _ _ ?_) <;> intro _ <;> rfl
      have hpres_n : ∀ k, noPyOf (modFrame (modFrame fs y fun p => { p with childErrors := p.childErrors ++ [q] }) q
          fun c => { c with curError := some e }) k = noPyOf fs k := by
        intro k
        refine (noPyOf_modFrame _ _ _ _ ?_).trans (noPyOf_modFrame _ _ _ _ ?_) <;> intro _ <;> rfl
      rw [ih y _ fuel (SegInv_congr _ _ p hpres_u hpres_n _ hs.2.2.2) (by rw [hpres_n]; exact hs.2.1)
        (by rw [hpres_n]; exact hp) (by simp at hfuel; omega) j]
      simp only [modFrame_get]
      have hgt : ∀ x, x ∈ (y :: r) → x < q := fun x hx => SegInv_head_gt fs p q (y :: r) hs x hx
      have hbq : below p (y :: r) q = none := below_none_of_gt p fs (y :: r) q hs.2.2.2 hgt
      have hqnot : q ∉ (y :: r) := fun hm => by have := hgt q hm; omega
      by_cases h1 : j = q
      · subst h1
        have : j ≠ y := by omega
        simp only [if_true, if_neg this, hfq, Option.map_some]
        simp [walkUpd, below, this, hbq, hqnot]
      · by_cases h2 : j = y
        · subst h2
          simp only [if_neg h1, if_true]
          cases fs[j]? with
          | none => rfl
          | some fj =>
            simp only [Option.map_some, walkUpd, below, if_true]
            have hbj : below p (j :: r) j = none := by
              cases r with
              | nil => simp [below]; omega
              | cons z r' =>
                have hzj : z < j := hs.2.2.2.2.2.1
                simp only [below]
                rw [if_neg (by omega)]
                exact below_none_of_gt p fs (z :: r') j hs.2.2.2.2.2.2
                  (fun x hx => SegInv_head_gt fs p j (z :: r') hs.2.2.2 x hx)
            simp [hbj]
        · simp only [if_neg h1, if_neg h2]
          cases fs[j]? with
          | none => rfl
          | some fj =>
            simp only [Option.map_some, walkUpd, below, if_neg h2]
            simp [h1]

end Glom.C05
