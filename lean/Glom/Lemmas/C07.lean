import Glom.Lemmas.Frames
import Glom.Lemmas.Hoare
/-
  C07 — isolation lemmas: which scopes a container spec hands to its sub-specs.
  `dictLoop`, `listLoop`, `coalesceLoop`, `andLoop`, `orLoop`, `mapLoop`, `pairLoop`
  call the evaluator at the container's own scope only: nothing a sibling
  bound can reach another sibling or the enclosing spec.
-/
set_option linter.unusedSectionVars false
namespace Glom.Interp
open ScopeAlg

section
variable {σ : Type} [ScopeAlg σ]

/-- two evaluators that agree whenever they are called at scope `sc` -/
def AgreeAt (rec1 rec2 : Rec σ) (sc : σ) : Prop := ∀ s t, rec1 s t sc = rec2 s t sc

theorem dictLoop_congr (p : Prims) {rec1 rec2 : Rec σ} (target : V) (sc : σ) (h : AgreeAt rec1 rec2 sc) :
    ∀ es acc, dictLoop p rec1 target sc es acc = dictLoop p rec2 target sc es acc := by
  intro es
  induction es with
  | nil => intro acc; rfl
  | cons e rest ih =>
    obtain ⟨field, sub⟩ := e
    intro acc
    simp only [dictLoop, h sub target, h field target, ih]

theorem listLoop_congr {rec1 rec2 : Rec σ} (sub : Spec) (sc : σ) (h : AgreeAt rec1 rec2 sc) :
    ∀ items acc, listLoop rec1 sub sc items acc = listLoop rec2 sub sc items acc := by
  intro items
  induction items with
  | nil => intro acc; rfl
  | cons it rest ih => intro acc; simp only [listLoop, h sub it, ih]

theorem mapLoop_congr {rec1 rec2 : Rec σ} (target : V) (sc : σ) (h : AgreeAt rec1 rec2 sc) :
    ∀ xs acc, mapLoop rec1 target sc xs acc = mapLoop rec2 target sc xs acc := by
  intro xs
  induction xs with
  | nil => intro acc; rfl
  | cons x rest ih => intro acc; simp only [mapLoop, h x target, ih]

theorem pairLoop_congr (p : Prims) {rec1 rec2 : Rec σ} (target : V) (sc : σ) (h : AgreeAt rec1 rec2 sc) :
    ∀ es acc, pairLoop p rec1 target sc es acc = pairLoop p rec2 target sc es acc := by
  intro es
  induction es with
  | nil => intro acc; rfl
  | cons e rest ih =>
    obtain ⟨ks, vs⟩ := e
    intro acc; simp only [pairLoop, h ks target, h vs target, ih]

theorem coalesceLoop_congr (p : Prims) {rec1 rec2 : Rec σ} (target : V) (sc : σ) (sk : Skip)
    (se : List String) (h : AgreeAt rec1 rec2 sc) :
    ∀ subs, coalesceLoop p rec1 target sc sk se subs = coalesceLoop p rec2 target sc sk se subs := by
  intro subs
  induction subs with
  | nil => rfl
  | cons s rest ih => simp only [coalesceLoop, h s target, ih]

theorem andLoop_congr {rec1 rec2 : Rec σ} (target : V) (sc : σ) (h : AgreeAt rec1 rec2 sc) :
    ∀ cs res, andLoop rec1 target sc cs res = andLoop rec2 target sc cs res := by
  intro cs
  induction cs with
  | nil => intro res; rfl
  | cons c rest ih => intro res; simp only [andLoop, h c target, ih]

theorem orLoop_congr (p : Prims) {rec1 rec2 : Rec σ} (target : V) (sc : σ) (h : AgreeAt rec1 rec2 sc) :
    ∀ cs, orLoop p rec1 target sc cs = orLoop p rec2 target sc cs := by
  intro cs
  induction cs with
  | nil => rfl
  | cons c rest ih =>
    cases rest with
    | nil => simp only [orLoop, h c target]
    | cons c2 r2 => simp only [orLoop, h c target, ih]

end
end Glom.Interp
