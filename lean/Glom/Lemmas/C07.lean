import Glom.Lemmas.Frames
import Glom.Lemmas.Hoare
import Glom.Lemmas.MonadLaws
/-
  C07 — isolation lemmas: which scopes a container spec hands to its sub-specs.
  `dictLoop`, `listLoop`, `coalesceLoop`, `andLoop`, `orLoop`, `mapLoop`, `pairLoop`
  call the evaluator at the container's own scope only: nothing a sibling
  bound can reach another sibling or the enclosing spec.
-/
set_option linter.unusedSectionVars false
namespace Glom.Interp
open ScopeAlg

section
variable {σ : Type} [ScopeAlg σ]

/-- two evaluators that agree whenever they are called at scope `sc` -/
def AgreeAt (rec1 rec2 : Rec σ) (sc : σ) : Prop := ∀ s t, rec1 s t sc = rec2 s t sc

theorem dictLoop_congr (p : Prims) {rec1 rec2 : Rec σ} (target : V) (sc : σ) (h : AgreeAt rec1 rec2 sc) :
    ∀ es acc, dictLoop p rec1 target sc es acc = dictLoop p rec2 target sc es acc := by
  intro es
  induction es with
  | nil => intro acc; rfl
  | cons e rest ih =>
    obtain ⟨field, sub⟩ := e
    intro acc
    simp only [dictLoop, h sub target, h field target, ih]

theorem listLoop_congr {rec1 rec2 : Rec σ} (sub : Spec) (sc : σ) (h : AgreeAt rec1 rec2 sc) :
    ∀ items acc, listLoop rec1 sub sc items acc = listLoop rec2 sub sc items acc := by
  intro items
  induction items with
  | nil => intro acc; rfl
  | cons it rest ih => intro acc; simp only [listLoop, h sub it, ih]

theorem mapLoop_congr {rec1 rec2 : Rec σ} (target : V) (sc : σ) (h : AgreeAt rec1 rec2 sc) :
    ∀ xs acc, mapLoop rec1 target sc xs acc = mapLoop rec2 target sc xs acc := by
  intro xs
  induction xs with
  | nil => intro acc; rfl
  | cons x rest ih => intro acc; simp only [mapLoop, h x target, ih]

theorem pairLoop_congr (p : Prims) {rec1 rec2 : Rec σ} (target : V) (sc : σ) (h : AgreeAt rec1 rec2 sc) :
    ∀ es acc, pairLoop p rec1 target sc es acc = pairLoop p rec2 target sc es acc := by
  intro es
  induction es with
  | nil => intro acc; rfl
  | cons e rest ih =>
    obtain ⟨ks, vs⟩ := e
    intro acc; simp only [pairLoop, h ks target, h vs target, ih]

theorem coalesceLoop_congr (p : Prims) {rec1 rec2 : Rec σ} (target : V) (sc : σ) (sk : Skip)
    (se : List String) (h : AgreeAt rec1 rec2 sc) :
    ∀ subs, coalesceLoop p rec1 target sc sk se subs = coalesceLoop p rec2 target sc sk se subs := by
  intro subs
  induction subs with
  | nil => rfl
  | cons s rest ih => simp only [coalesceLoop, h s target, ih]

theorem andLoop_congr {rec1 rec2 : Rec σ} (target : V) (sc : σ) (h : AgreeAt rec1 rec2 sc) :
    ∀ cs res, andLoop rec1 target sc cs res = andLoop rec2 target sc cs res := by
  intro cs
  induction cs with
  | nil => intro res; rfl
  | cons c rest ih => intro res; simp only [andLoop, h c target, ih]

theorem orLoop_congr (p : Prims) {rec1 rec2 : Rec σ} (target : V) (sc : σ) (h : AgreeAt rec1 rec2 sc) :
    ∀ cs, orLoop p rec1 target sc cs = orLoop p rec2 target sc cs := by
  intro cs
  induction cs with
  | nil => rfl
  | cons c rest ih =>
    cases rest with
    | nil => simp only [orLoop, h c target]
    | cons c2 r2 => simp only [orLoop, h c target, ih]

end
end Glom.Interp

/-! ### chains: what every link inherits, whatever the steps in between return -/
namespace Glom.Interp
open ScopeAlg

section
variable {σ : Type} [ScopeAlg σ]

theorem M.bind_congr_on {α β} (m : M α) (f g : α → M β)
    (h : ∀ st st' a, m st = (st', .ok a) → f a st' = g a st') : m >>= f = m >>= g := by
  apply M.ext; intro st
  rw [M.bind_apply, M.bind_apply]
  rcases hm : m st with ⟨st', r⟩
  cases r with
  | error e => rfl
  | ok a => exact h st st' a hm

/-- **Chain invariant.**  Let `P` be a property of scopes that `chain_child` keeps and that every
    step of the chain keeps (a step handed a scope with `P` finishes in a scope with `P`).  Once a
    link finished in a scope with `P`, `_handle_tuple` evaluates *every* later step at a scope with
    `P` — whatever the steps return (a value, SKIP: the loop hands on the finished scope of the
    step in both cases): the evaluator's behaviour at scopes without `P` is irrelevant. -/
theorem tupleLoop_inv_congr (P : σ → Prop) {rec1 rec2 : Rec σ}
    (hchain : ∀ owner c : σ, P c → P (chain owner c)) :
    ∀ (steps : List Spec),
      (∀ s ∈ steps, ∀ t c st st' r, P c → rec1 s t c st = (st', .ok r) → P r.2) →
      (∀ s ∈ steps, ∀ t c, P c → rec1 s t c = rec2 s t c) →
      ∀ (res : V) (cur c0 : σ), P c0 →
        tupleLoop rec1 steps res cur (some c0) = tupleLoop rec2 steps res cur (some c0) := by
  intro steps
  induction steps with
  | nil => intro _ _ res cur c0 _; rfl
  | cons sub rest ih =>
    intro hkeep hag res cur c0 h0
    have hsc : P (chain cur c0) := hchain cur c0 h0
    have hk' : ∀ s ∈ rest, ∀ t c st st' r, P c → rec1 s t c st = (st', .ok r) → P r.2 :=
      fun s hs => hkeep s (List.mem_cons_of_mem _ hs)
    have ha' : ∀ s ∈ rest, ∀ t c, P c → rec1 s t c = rec2 s t c :=
      fun s hs => hag s (List.mem_cons_of_mem _ hs)
    have ih' := ih hk' ha'
    simp only [tupleLoop, nextScope]
    rw [← hag sub (List.mem_cons_self ..) res (chain cur c0) hsc]
    apply M.bind_congr_on
    intro st st' a ha
    have hp : P a.2 := hkeep sub (List.mem_cons_self ..) res (chain cur c0) st st' a hsc ha
    obtain ⟨v, c1⟩ := a
    cases v <;> first | rfl | exact congrFun (ih' _ (chain cur c0) c1 hp) st'

end
end Glom.Interp

/-! ### a minimal `Prims` for concrete examples -/
namespace Glom.Interp

/-- nothing of Python's is needed by binders, readers and `Val` -/
def trivPrims : Prims :=
  { eq := fun _ _ => false, truthy := fun _ => true, hashable := fun _ => true, isinstance := fun _ _ => false,
    iterate := fun _ => .error ⟨"TypeError"⟩, getSeg := fun _ _ => .error ⟨"PathAccessError"⟩,
    tEval := fun steps v => match steps with | [] => .ok v | _ => .error ⟨"Unsupported"⟩,
    applyFn := fun _ _ _ => .error ⟨"TypeError"⟩, applyTy := fun _ _ => .error ⟨"TypeError"⟩,
    isSub := fun a b => a == b || b == "GlomError" || b == "Exception", typeName := fun _ => "object" }

def isOkInt (r : St × Except Err V) (n : Int) : Bool := match r.2 with | .ok (.int i) => i == n | _ => false
def isOkStr (r : St × Except Err V) (s : String) : Bool := match r.2 with | .ok (.str i) => i == s | _ => false
def isErr (r : St × Except Err V) (c : String) : Bool := match r.2 with | .error e => e.cls == c | _ => false

end Glom.Interp
