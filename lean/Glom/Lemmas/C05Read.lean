import Glom.Lemmas.C05Text
/-
  C05 — clause 3 of the checker reads the trace the way its indentation asks (`targetsAtLastSpec`):
  the reader as a fold over the lines, what it does on the lines `format_target_spec_trace`
  writes, and on whole texts.
-/
set_option linter.unusedSimpArgs false
namespace Glom.C05

/-- the state of the reader: the target in force at every nesting depth, and the candidate
    targets at the last line that showed the spec looked for -/
abbrev RS := List (Option Str) × List Str

/-- one line of `targetsAtLastSpec.go` -/
def rstep (inner : CallInfo) (s : RS) (l : Str) : RS :=
  let d := (gutter l).1
  let mark := (gutter l).2
  let tg1 := if mark == some '\\' && d > 0 then setAt s.1 d (getAt s.1 (d - 1)) else s.1
  match afterLabel "Target".toList l with
  | some t => (setAt tg1 d (some t), s.2)
  | none =>
    match afterLabel "Spec".toList l with
    | some shown =>
      if showsValue inner.spec inner.slen shown then
        (tg1, (match getAt tg1 d with | some t => [t] | none => []) ++
          (if mark == some 'X' && d > 0 then (match getAt tg1 (d - 1) with | some t => [t] | none => []) else []))
      else (tg1, s.2)
    | none => (tg1, s.2)

theorem go_eq (inner : CallInfo) : ∀ (lines : List Str) (tg : List (Option Str)) (found : List Str),
    targetsAtLastSpec.go inner lines tg found = (lines.foldl (rstep inner) (tg, found)).2
  | [], tg, found => by simp [targetsAtLastSpec.go]
  | l :: rest, tg, found => by
    simp only [targetsAtLastSpec.go, List.foldl_cons, rstep]
    cases h1 : afterLabel "Target".toList l with
    | some t => simp only []; exact go_eq inner rest _ _
    | none =>
      simp only []
      cases h2 : afterLabel "Spec".toList l with
      | none => simp only []; exact go_eq inner rest _ _
      | some shown =>
        simp only []
        split
        · exact go_eq inner rest _ _
        · exact go_eq inner rest _ _

/-- reading a text from a state -/
def readT (inner : CallInfo) (T : Str) (s : RS) : RS := (splitLines T).foldl (rstep inner) s

theorem readT_joinLines (inner : CallInfo) (segs : List Str) (hne : segs ≠ []) (s : RS) :
    readT inner (joinLines segs) s = segs.foldl (fun s seg => readT inner seg s) s := by
  unfold readT
  rw [splitLines_joinLines segs hne]
  induction segs generalizing s with
  | nil => rfl
  | cons x r ih =>
    simp only [List.flatMap_cons, List.foldl_append, List.foldl_cons]
    by_cases hr : r = []
    · subst hr; simp
    · exact ih hr _

theorem readT_line (inner : CallInfo) (l : Str) (h : NoNL l) (s : RS) : readT inner l s = rstep inner s l := by
  unfold readT
  rw [splitLines_noNL l h]
  rfl

/-! ### `setAt` / `getAt` -/

theorem getAt_setAt_same (l : List (Option Str)) (i : Nat) (v : Option Str) : getAt (setAt l i v) i = v := by
  unfold setAt getAt
  split
  · rename_i h
    simp [List.getElem?_set, h]
  · rename_i h
    have hlen : (l ++ List.replicate (i - l.length) none).length = i := by simp; omega
    rw [List.getElem?_append_right (by omega), hlen]
    simp

theorem getAt_setAt_ne (l : List (Option Str)) (i j : Nat) (v : Option Str) (hij : i ≠ j) :
    getAt (setAt l j v) i = getAt l i := by
  unfold setAt getAt
  split
  · simp [List.getElem?_set, Ne.symm hij]
  · rename_i h
    have hlen : l.length ≤ j := by omega
    by_cases hi : i < l.length
    · rw [List.append_assoc, List.getElem?_append_left hi]
    · have hi' : l.length ≤ i := by omega
      rw [List.getElem?_eq_none hi']
      by_cases hi2 : i < j
      · rw [List.append_assoc, List.getElem?_append_right hi', List.getElem?_append_left (by simp; omega)]
        simp only [List.getElem?_replicate]
        split <;> rfl
      · rw [List.getElem?_eq_none (by simp; omega)]


/-! ### the gutter of the lines of a text -/

theorem takeWhile_bars (d : Nat) (c : Char) (r : Str) (hc : c ≠ '|') :
    (List.replicate d '|' ++ c :: r).takeWhile (· == '|') = List.replicate d '|' := by
  induction d with
  | zero => simp [List.takeWhile, hc]
  | succ d ih => simp [List.replicate_succ, List.takeWhile, ih]

theorem drop_bars (d : Nat) (r : Str) : (List.replicate d '|' ++ r).drop d = r := by
  have : (List.replicate d '|').length = d := by simp
  rw [List.drop_append_of_le_length (by omega), List.drop_of_length_le (by omega)]
  simp

/-- the gutter of an unmarked line at depth `d`: depth `d`, and a mark that is neither `\` nor `X` -/
theorem gutter_line (d : Nat) (t x : Str) (ht : t = tickOf d ∨ t = "+ ".toList) :
    (gutter (indentOf d ++ t ++ x)).1 = d ∧ (gutter (indentOf d ++ t ++ x)).2 ≠ some '\\' ∧
      (gutter (indentOf d ++ t ++ x)).2 ≠ some 'X' := by
  rcases ht with rfl | rfl
  · cases d with
    | zero => simp [indentOf, tickOf, gutter, List.takeWhile]
    | succ d =>
      have h1 : indentOf (d + 1) ++ tickOf (d + 1) ++ x = ' ' :: (List.replicate (d + 2) '|' ++ ' ' :: x) := by
        simp [indentOf, tickOf, List.replicate_succ']
      rw [h1]
      simp only [gutter, takeWhile_bars (d + 2) ' ' x (by decide), List.length_replicate, drop_bars]
      simp
  · have h1 : indentOf d ++ "+ ".toList ++ x = ' ' :: (List.replicate d '|' ++ '+' :: ' ' :: x) := by
      simp [indentOf]
    rw [h1]
    simp only [gutter, takeWhile_bars d '+' (' ' :: x) (by decide), List.length_replicate, drop_bars]
    simp

/-- the gutter of the first line of a branch: depth `d`, mark `\` -/
theorem gutter_marked (d : Nat) (_hd : 1 ≤ d) (t x : Str) (ht : t = tickOf d ∨ t = "+ ".toList) :
    gutter (remark d (indentOf d ++ t ++ x) '\\') = (d, some '\\') := by
  have htl : ∃ c, t = c :: ' ' :: [] := by
    rcases ht with rfl | rfl
    · unfold tickOf; split <;> exact ⟨_, rfl⟩
    · exact ⟨'+', rfl⟩
  obtain ⟨c, rfl⟩ := htl
  have h1 : remark d (indentOf d ++ [c, ' '] ++ x) '\\' = ' ' :: (List.replicate d '|' ++ '\\' :: ' ' :: x) := by
    unfold remark indentOf
    have e1 : (' ' :: List.replicate d '|' ++ [c, ' '] ++ x).take (d + 1) = ' ' :: List.replicate d '|' := by
      rw [List.append_assoc, List.take_append_of_le_length (by simp)]
      rw [List.take_of_length_le (by simp)]
    have e2 : (' ' :: List.replicate d '|' ++ [c, ' '] ++ x).drop (d + 2) = ' ' :: x := by
      have e3 : ' ' :: List.replicate d '|' ++ [c, ' '] ++ x = (' ' :: List.replicate d '|' ++ [c]) ++ (' ' :: x) := by simp
      rw [e3, List.drop_append_of_le_length (by simp), List.drop_of_length_le (by simp)]
      simp
    rw [e1, e2]
    simp
  rw [h1]
  simp only [gutter, takeWhile_bars d '\\' (' ' :: x) (by decide), List.length_replicate, drop_bars]
  simp

/-- `\` on the first line of a branch: the reader first copies the target in force one level up -/
def copyUp (d : Nat) (s : RS) : RS := (setAt s.1 d (getAt s.1 (d - 1)), s.2)

theorem rstep_marked (inner : CallInfo) (s : RS) (l l' : Str) (d : Nat) (hd : 1 ≤ d)
    (hg' : gutter l' = (d, some '\\')) (hg : (gutter l).1 = d) (hm1 : (gutter l).2 ≠ some '\\')
    (hm2 : (gutter l).2 ≠ some 'X')
    (ht : afterLabel "Target".toList l' = afterLabel "Target".toList l)
    (hs : afterLabel "Spec".toList l' = afterLabel "Spec".toList l) :
    rstep inner s l' = rstep inner (copyUp d s) l := by
  unfold rstep copyUp
  simp only [hg', hg, ht, hs]
  have e1 : ((some '\\' == some '\\') && decide (d > 0)) = true := by simp; omega
  have e2 : (((gutter l).2 == some '\\') && decide (d > 0)) = false := by simp [hm1]
  have e3 : ((some '\\' == some 'X') && decide (d > 0)) = false := by simp
  have e4 : (((gutter l).2 == some 'X') && decide (d > 0)) = false := by simp [hm2]
  simp only [e1, e2, e3, e4, if_true, Bool.false_eq_true, if_false]


/-! ### the reader on a `Target:` / `Spec:` line -/

/-- what a `Target:` line at depth `d` shows of a frame -/
def tgtShown (width : Nat) (f : Frame) (d : Nat) : Str :=
  formatValue f.target f.tlen ((width : Int) - ((d + 11 : Nat) : Int))

theorem traceLine_target (d w : Nat) (f : Frame) :
    traceLine d w "Target".toList (tickOf d) f.target f.tlen =
      (indentOf d ++ tickOf d) ++ ("Target".toList ++ ": ".toList ++ tgtShown w f d) := by
  have hlen : (indentOf d ++ tickOf d ++ "Target".toList ++ ": ".toList).length = d + 11 := by
    simp [indentOf_length, tickOf_length]
  rw [traceLine_eq, hlen]
  rfl

theorem traceLine_spec (d w : Nat) (t : Str) (f : Frame) (hl : t.length = 2) :
    traceLine d w "Spec".toList t f.spec f.slen =
      (indentOf d ++ t) ++ ("Spec".toList ++ ": ".toList ++ specShown w f d) := by
  have hlen : (indentOf d ++ t ++ "Spec".toList ++ ": ".toList).length = d + 9 := by
    simp [indentOf_length, hl]
  rw [traceLine_eq, hlen]
  rfl

theorem NoNL_targetLine (d w : Nat) (f : Frame) (h : NoNL f.target) :
    NoNL (traceLine d w "Target".toList (tickOf d) f.target f.tlen) := by
  rw [traceLine_target]
  apply NoNL_append (Gut_NoNL (Gut_append (Gut_indentOf d) (Gut_tickOf d)))
  apply NoNL_append (NoNL_append (NoNL_lit "Target" (by decide)) (NoNL_lit ": " (by decide)))
  exact formatValue_NoNL _ _ _ h

theorem NoNL_specLine (d w : Nat) (t : Str) (f : Frame) (ht : t = tickOf d ∨ t = "+ ".toList) (h : NoNL f.spec) :
    NoNL (traceLine d w "Spec".toList t f.spec f.slen) := by
  have htg : Gut t := by rcases ht with rfl | rfl; exact Gut_tickOf d; exact Gut_plus
  have htl : t.length = 2 := by rcases ht with rfl | rfl; exact tickOf_length d; rfl
  rw [traceLine_spec d w t f htl]
  apply NoNL_append (Gut_NoNL (Gut_append (Gut_indentOf d) htg))
  apply NoNL_append (NoNL_append (NoNL_lit "Spec" (by decide)) (NoNL_lit ": " (by decide)))
  exact formatValue_NoNL _ _ _ h

/-- a `Target:` line sets the target in force at its depth -/
theorem rstep_targetLine (inner : CallInfo) (s : RS) (d w : Nat) (f : Frame) :
    rstep inner s (traceLine d w "Target".toList (tickOf d) f.target f.tlen) =
      (setAt s.1 d (some (tgtShown w f d)), s.2) := by
  rw [traceLine_target]
  have hg := gutter_line d (tickOf d) ("Target".toList ++ ": ".toList ++ tgtShown w f d) (Or.inl rfl)
  have hal : afterLabel "Target".toList ((indentOf d ++ tickOf d) ++ ("Target".toList ++ ": ".toList ++ tgtShown w f d)) =
      some (tgtShown w f d) := by
    rw [afterLabel_gutter _ _ _ (Gut_append (Gut_indentOf d) (Gut_tickOf d)), afterLabel_target_self]
  unfold rstep
  simp only [hal, hg.1]
  have e2 : (((gutter (indentOf d ++ tickOf d ++ ("Target".toList ++ ": ".toList ++ tgtShown w f d))).2 == some '\\') &&
      decide (d > 0)) = false := by rw [beq_eq_false_iff_ne.mpr hg.2.1]; rfl
  rw [e2]
  rfl

/-- a `Spec:` line leaves the targets alone; if it shows the spec looked for, the candidates are
    the target in force at its depth -/
theorem rstep_specLine (inner : CallInfo) (s : RS) (d w : Nat) (t : Str) (f : Frame) (ht : t = tickOf d ∨ t = "+ ".toList) :
    rstep inner s (traceLine d w "Spec".toList t f.spec f.slen) =
      (s.1, if showsValue inner.spec inner.slen (specShown w f d) then
              (match getAt s.1 d with | some t => [t] | none => []) else s.2) := by
  have htg : Gut t := by rcases ht with rfl | rfl; exact Gut_tickOf d; exact Gut_plus
  have htl : t.length = 2 := by rcases ht with rfl | rfl; exact tickOf_length d; rfl
  rw [traceLine_spec d w t f htl]
  have hg := gutter_line d t ("Spec".toList ++ ": ".toList ++ specShown w f d) ht
  have hal1 : afterLabel "Target".toList ((indentOf d ++ t) ++ ("Spec".toList ++ ": ".toList ++ specShown w f d)) = none := by
    rw [afterLabel_gutter _ _ _ (Gut_append (Gut_indentOf d) htg), afterLabel_target_spec]
  have hal2 : afterLabel "Spec".toList ((indentOf d ++ t) ++ ("Spec".toList ++ ": ".toList ++ specShown w f d)) =
      some (specShown w f d) := by
    rw [afterLabel_gutter _ _ _ (Gut_append (Gut_indentOf d) htg), afterLabel_spec_self]
  unfold rstep
  simp only [hal1, hal2, hg.1]
  have e2 : (((gutter (indentOf d ++ t ++ ("Spec".toList ++ ": ".toList ++ specShown w f d))).2 == some '\\') &&
      decide (d > 0)) = false := by rw [beq_eq_false_iff_ne.mpr hg.2.1]; rfl
  have e4 : (((gutter (indentOf d ++ t ++ ("Spec".toList ++ ": ".toList ++ specShown w f d))).2 == some 'X') &&
      decide (d > 0)) = false := by rw [beq_eq_false_iff_ne.mpr hg.2.2]; rfl
  rw [e2, e4]
  simp only [Bool.false_eq_true, if_false, List.append_nil]
  split <;> rfl

/-- the first line of a branch (marked `\`), when it is a `Target:` / `Spec:` line -/
theorem readT_marked_line (inner : CallInfo) (s : RS) (d : Nat) (hd : 1 ≤ d) (t body : Str)
    (ht : t = tickOf d ∨ t = "+ ".toList) (hb : NoNL body) :
    readT inner (remark d (indentOf d ++ t ++ body) '\\') s = rstep inner (copyUp d s) (indentOf d ++ t ++ body) := by
  have htg : Gut t := by rcases ht with rfl | rfl; exact Gut_tickOf d; exact Gut_plus
  have htl : t.length = 2 := by rcases ht with rfl | rfl; exact tickOf_length d; rfl
  have hg : Gut (indentOf d ++ t) := Gut_append (Gut_indentOf d) htg
  have hlen : d + 2 ≤ (indentOf d ++ t).length := by simp [indentOf_length, htl]
  have hrem : remark d (indentOf d ++ t ++ body) '\\' = remark d (indentOf d ++ t) '\\' ++ body :=
    remark_prefix d _ body '\\' hlen
  have hg' : Gut (remark d (indentOf d ++ t) '\\') := Gut_remark d _ '\\' hg (by decide)
  have hnl : NoNL (remark d (indentOf d ++ t ++ body) '\\') := by
    rw [hrem]; exact NoNL_append (Gut_NoNL hg') hb
  rw [readT_line inner _ hnl]
  have hgl := gutter_line d t body ht
  apply rstep_marked inner s _ _ d hd (gutter_marked d hd t body ht) hgl.1 hgl.2.1 hgl.2.2
  · rw [hrem, afterLabel_gutter _ _ _ hg', afterLabel_gutter _ _ _ hg]
  · rw [hrem, afterLabel_gutter _ _ _ hg', afterLabel_gutter _ _ _ hg]


/-! ### branches that are read over: they do not touch the targets in force at lower depths -/

/-- a line that starts like a line nested at depth ≥ `δ` -/
def DeepAt (δ : Nat) (l : Str) : Prop :=
  ∃ c x, l = ' ' :: (List.replicate δ '|' ++ c :: x) ∧ (c = '|' ∨ c = '\\' ∨ c = 'X' ∨ c = '+')

theorem DeepAt_gutter {δ : Nat} {l : Str} (h : DeepAt δ l) : δ ≤ (gutter l).1 := by
  obtain ⟨c, x, rfl, hc⟩ := h
  rcases hc with rfl | rfl | rfl | rfl
  · -- one more bar: at least δ + 1 bars
    have h1 : ' ' :: (List.replicate δ '|' ++ '|' :: x) = ' ' :: (List.replicate (δ + 1) '|' ++ x) := by
      simp [List.replicate_succ']
    rw [h1]
    simp only [gutter]
    have hb : δ + 1 ≤ ((List.replicate (δ + 1) '|' ++ x).takeWhile (· == '|')).length := by
      rw [List.takeWhile_append_of_pos (by simp)]
      simp
    split <;> simp only [] <;> omega
  · simp only [gutter, takeWhile_bars δ '\\' x (by decide), List.length_replicate, drop_bars]; simp
  · simp only [gutter, takeWhile_bars δ 'X' x (by decide), List.length_replicate, drop_bars]; simp
  · simp only [gutter, takeWhile_bars δ '+' x (by decide), List.length_replicate, drop_bars]; simp

theorem DeepAt_mono {δ δ' : Nat} {l : Str} (h : DeepAt δ' l) (hd : δ ≤ δ') : DeepAt δ l := by
  obtain ⟨c, x, rfl, hc⟩ := h
  by_cases he : δ = δ'
  · subst he; exact ⟨c, x, rfl, hc⟩
  · obtain ⟨k, rfl⟩ : ∃ k, δ' = δ + (k + 1) := ⟨δ' - δ - 1, by omega⟩
    refine ⟨'|', List.replicate k '|' ++ c :: x, ?_, Or.inl rfl⟩
    rw [← List.replicate_append_replicate, List.replicate_succ]
    simp

theorem DeepAt_remark {δ : Nat} {l : Str} (p : Nat) (m : Char) (h : DeepAt δ l) (hp : δ ≤ p)
    (hm : m = '\\' ∨ m = 'X') : DeepAt δ (remark p l m) := by
  obtain ⟨c, x, rfl, hc⟩ := h
  have hA : (' ' :: List.replicate δ '|').length = δ + 1 := by simp
  have hl : ' ' :: (List.replicate δ '|' ++ c :: x) = (' ' :: List.replicate δ '|') ++ c :: x := by simp
  unfold remark
  by_cases he : p = δ
  · subst he
    refine ⟨m, x, ?_, by rcases hm with rfl | rfl <;> simp⟩
    rw [hl, List.take_left' hA]
    have : ((' ' :: List.replicate p '|') ++ c :: x).drop (p + 2) = x := by
      have : ((' ' :: List.replicate p '|') ++ [c]).length = p + 2 := by simp
      rw [show (' ' :: List.replicate p '|') ++ c :: x = ((' ' :: List.replicate p '|') ++ [c]) ++ x by simp,
        List.drop_left' this]
    rw [this]
    simp
  · obtain ⟨k, rfl⟩ : ∃ k, p = δ + 1 + k := ⟨p - δ - 1, by omega⟩
    refine ⟨c, x.take k ++ m :: x.drop (k + 1), ?_, hc⟩
    rw [hl]
    have e1 : ((' ' :: List.replicate δ '|') ++ c :: x).take (δ + 1 + k + 1) =
        (' ' :: List.replicate δ '|') ++ c :: x.take k := by
      rw [List.take_append, List.take_of_length_le (by simp; omega), hA]
      have : δ + 1 + k + 1 - (δ + 1) = k + 1 := by omega
      rw [this]; simp
    have e2 : ((' ' :: List.replicate δ '|') ++ c :: x).drop (δ + 1 + k + 2) = x.drop (k + 1) := by
      rw [List.drop_append, List.drop_of_length_le (by simp; omega), hA]
      have : δ + 1 + k + 2 - (δ + 1) = k + 2 := by omega
      rw [this]; simp
    rw [e1, e2]
    simp

theorem DeepAt_indent (d : Nat) (hd : 1 ≤ d) (t x : Str) (ht : t = tickOf d ∨ t = "+ ".toList) :
    DeepAt d (indentOf d ++ t ++ x) := by
  rcases ht with rfl | rfl
  · have : tickOf d = "| ".toList := by unfold tickOf; rw [if_neg (by simp; omega)]
    rw [this]
    exact ⟨'|', ' ' :: x, by simp [indentOf], Or.inl rfl⟩
  · exact ⟨'+', ' ' :: x, by simp [indentOf], Or.inr (Or.inr (Or.inr rfl))⟩

/-- a line the reader passes without touching the targets -/
def Quiet (l : Str) : Prop :=
  afterLabel "Target".toList l = none ∧ ¬ ((gutter l).2 = some '\\' ∧ 0 < (gutter l).1)

def DQ (δ : Nat) (l : Str) : Prop := DeepAt δ l ∨ Quiet l

/-- the reader on a line nested at depth ≥ `δ` (or a quiet one): the targets below `δ` stay -/
theorem rstep_DQ (inner : CallInfo) (s : RS) (l : Str) (δ : Nat) (h : DQ δ l) :
    ∀ i, i < δ → getAt (rstep inner s l).1 i = getAt s.1 i := by
  intro i hi
  rcases h with h | h
  · have hd := DeepAt_gutter h
    have htg1 : getAt (if ((gutter l).2 == some '\\' && decide ((gutter l).1 > 0)) = true
        then setAt s.1 (gutter l).1 (getAt s.1 ((gutter l).1 - 1)) else s.1) i = getAt s.1 i := by
      split
      · exact getAt_setAt_ne _ _ _ _ (by omega)
      · rfl
    unfold rstep
    simp only []
    cases afterLabel "Target".toList l with
    | some t => simp only []; rw [getAt_setAt_ne _ _ _ _ (by omega)]; exact htg1
    | none =>
      simp only []
      cases afterLabel "Spec".toList l with
      | none => exact htg1
      | some shown => simp only []; split <;> exact htg1
  · obtain ⟨h1, h2⟩ := h
    have hc : ((gutter l).2 == some '\\' && decide ((gutter l).1 > 0)) = false := by
      cases hb : ((gutter l).2 == some '\\' && decide ((gutter l).1 > 0)) with
      | false => rfl
      | true =>
        simp only [Bool.and_eq_true, beq_iff_eq, decide_eq_true_eq] at hb
        exact absurd ⟨hb.1, hb.2⟩ h2
    unfold rstep
    simp only [h1, hc, Bool.false_eq_true, if_false]
    cases afterLabel "Spec".toList l with
    | none => rfl
    | some shown => simp only []; split <;> rfl

theorem foldl_rstep_DQ (inner : CallInfo) (δ : Nat) : ∀ (lines : List Str) (s : RS), (∀ l, l ∈ lines → DQ δ l) →
    ∀ i, i < δ → getAt (lines.foldl (rstep inner) s).1 i = getAt s.1 i
  | [], _, _, _, _ => rfl
  | l :: rest, s, h, i, hi => by
    simp only [List.foldl_cons]
    rw [foldl_rstep_DQ inner δ rest _ (fun l' hl' => h l' (List.mem_cons_of_mem _ hl')) i hi]
    exact rstep_DQ inner s l δ (h l (by simp)) i hi

/-! ### lines that do not show the spec looked for leave the candidates alone -/

theorem rstep_found (inner : CallInfo) (s : RS) (l : Str)
    (h : ∀ shown, afterLabel "Spec".toList l = some shown → showsValue inner.spec inner.slen shown = false) :
    (rstep inner s l).2 = s.2 := by
  unfold rstep
  simp only []
  cases afterLabel "Target".toList l with
  | some t => rfl
  | none =>
    simp only []
    cases hs : afterLabel "Spec".toList l with
    | none => rfl
    | some shown =>
      simp only []
      rw [h shown hs]
      rfl

theorem readT_found (inner : CallInfo) (T : Str) (s : RS)
    (h : ∀ shown, shown ∈ SLT T → showsValue inner.spec inner.slen shown = false) : (readT inner T s).2 = s.2 := by
  unfold readT
  have key : ∀ (lines : List Str) (s : RS), (∀ l, l ∈ lines → ∀ shown, afterLabel "Spec".toList l = some shown →
      showsValue inner.spec inner.slen shown = false) → (lines.foldl (rstep inner) s).2 = s.2 := by
    intro lines
    induction lines with
    | nil => intro s _; rfl
    | cons l rest ih =>
      intro s hl
      simp only [List.foldl_cons]
      rw [ih _ (fun l' hl' => hl l' (List.mem_cons_of_mem _ hl'))]
      exact rstep_found inner s l (hl l (by simp))
  apply key
  intro l hl shown hs
  apply h shown
  unfold SLT linesMap
  exact List.mem_filterMap.mpr ⟨l, hl, hs⟩

end Glom.C05
