import Glom.Lemmas.C05Text
/-
  C05 — clause 3 of the checker reads the trace the way its indentation asks (`targetsAtLastSpec`):
  the reader as a fold over the lines, what it does on the lines `format_target_spec_trace`
  writes, and on whole texts.
-/
set_option linter.unusedSimpArgs false
namespace Glom.C05

/-- the state of the reader: the target in force at every nesting depth, and the candidate
    targets at the last line that showed the spec looked for -/
abbrev RS := List (Option Str) × List Str

/-- one line of `targetsAtLastSpec.go` -/
def rstep (inner : CallInfo) (s : RS) (l : Str) : RS :=
  let d := (gutter l).1
  let mark := (gutter l).2
  let tg1 := if mark == some '\\' && d > 0 then setAt s.1 d (getAt s.1 (d - 1)) else s.1
  match afterLabel "Target".toList l with
  | some t => (setAt tg1 d (some t), s.2)
  | none =>
    match afterLabel "Spec".toList l with
    | some shown =>
      if showsValue inner.spec inner.slen shown then
        (tg1, (match getAt tg1 d with | some t => [t] | none => []) ++
          (if mark == some 'X' && d > 0 then (match getAt tg1 (d - 1) with | some t => [t] | none => []) else []))
      else (tg1, s.2)
    | none => (tg1, s.2)

theorem go_eq (inner : CallInfo) : ∀ (lines : List Str) (tg : List (Option Str)) (found : List Str),
    targetsAtLastSpec.go inner lines tg found = (lines.foldl (rstep inner) (tg, found)).2
  | [], tg, found => by simp [targetsAtLastSpec.go]
  | l :: rest, tg, found => by
    simp only [targetsAtLastSpec.go, List.foldl_cons, rstep]
    cases h1 : afterLabel "Target".toList l with
    | some t => simp only []; exact go_eq inner rest _ _
    | none =>
      simp only []
      cases h2 : afterLabel "Spec".toList l with
      | none => simp only []; exact go_eq inner rest _ _
      | some shown =>
        simp only []
        split
        · exact go_eq inner rest _ _
        · exact go_eq inner rest _ _

/-- reading a text from a state -/
def readT (inner : CallInfo) (T : Str) (s : RS) : RS := (splitLines T).foldl (rstep inner) s

theorem readT_joinLines (inner : CallInfo) (segs : List Str) (hne : segs ≠ []) (s : RS) :
    readT inner (joinLines segs) s = segs.foldl (fun s seg => readT inner seg s) s := by
  unfold readT
  rw [splitLines_joinLines segs hne]
  induction segs generalizing s with
  | nil => rfl
  | cons x r ih =>
    simp only [List.flatMap_cons, List.foldl_append, List.foldl_cons]
    by_cases hr : r = []
    · subst hr; simp
    · exact ih hr _

theorem readT_line (inner : CallInfo) (l : Str) (h : NoNL l) (s : RS) : readT inner l s = rstep inner s l := by
  unfold readT
  rw [splitLines_noNL l h]
  rfl

/-! ### `setAt` / `getAt` -/

theorem getAt_setAt_same (l : List (Option Str)) (i : Nat) (v : Option Str) : getAt (setAt l i v) i = v := by
  unfold setAt getAt
  split
  · rename_i h
    simp [List.getElem?_set, h]
  · rename_i h
    have hlen : (l ++ List.replicate (i - l.length) none).length = i := by simp; omega
    rw [List.getElem?_append_right (by omega), hlen]
    simp

theorem getAt_setAt_ne (l : List (Option Str)) (i j : Nat) (v : Option Str) (hij : i ≠ j) :
    getAt (setAt l j v) i = getAt l i := by
  unfold setAt getAt
  split
  · simp [List.getElem?_set, Ne.symm hij]
  · rename_i h
    have hlen : l.length ≤ j := by omega
    by_cases hi : i < l.length
    · rw [List.append_assoc, List.getElem?_append_left hi]
    · have hi' : l.length ≤ i := by omega
      rw [List.getElem?_eq_none hi']
      by_cases hi2 : i < j
      · rw [List.append_assoc, List.getElem?_append_right hi', List.getElem?_append_left (by simp; omega)]
        simp only [List.getElem?_replicate]
        split <;> rfl
      · rw [List.getElem?_eq_none (by simp; omega)]


/-! ### the gutter of the lines of a text -/

theorem takeWhile_bars (d : Nat) (c : Char) (r : Str) (hc : c ≠ '|') :
    (List.replicate d '|' ++ c :: r).takeWhile (· == '|') = List.replicate d '|' := by
  induction d with
  | zero => simp [List.takeWhile, hc]
  | succ d ih => simp [List.replicate_succ, List.takeWhile, ih]

theorem drop_bars (d : Nat) (r : Str) : (List.replicate d '|' ++ r).drop d = r := by
  have : (List.replicate d '|').length = d := by simp
  rw [List.drop_append_of_le_length (by omega), List.drop_of_length_le (by omega)]
  simp

/-- the gutter of an unmarked line at depth `d`: depth `d`, and a mark that is neither `\` nor `X` -/
theorem gutter_line (d : Nat) (t x : Str) (ht : t = tickOf d ∨ t = "+ ".toList) :
    (gutter (indentOf d ++ t ++ x)).1 = d ∧ (gutter (indentOf d ++ t ++ x)).2 ≠ some '\\' ∧
      (gutter (indentOf d ++ t ++ x)).2 ≠ some 'X' := by
  rcases ht with rfl | rfl
  · cases d with
    | zero => simp [indentOf, tickOf, gutter, List.takeWhile]
    | succ d =>
      have h1 : indentOf (d + 1) ++ tickOf (d + 1) ++ x = ' ' :: (List.replicate (d + 2) '|' ++ ' ' :: x) := by
        simp [indentOf, tickOf, List.replicate_succ']
      rw [h1]
      simp only [gutter, takeWhile_bars (d + 2) ' ' x (by decide), List.length_replicate, drop_bars]
      simp
  · have h1 : indentOf d ++ "+ ".toList ++ x = ' ' :: (List.replicate d '|' ++ '+' :: ' ' :: x) := by
      simp [indentOf]
    rw [h1]
    simp only [gutter, takeWhile_bars d '+' (' ' :: x) (by decide), List.length_replicate, drop_bars]
    simp

/-- the gutter of the first line of a branch: depth `d`, mark `\` -/
theorem gutter_marked (d : Nat) (_hd : 1 ≤ d) (t x : Str) (ht : t = tickOf d ∨ t = "+ ".toList) :
    gutter (remark d (indentOf d ++ t ++ x) '\\') = (d, some '\\') := by
  have htl : ∃ c, t = c :: ' ' :: [] := by
    rcases ht with rfl | rfl
    · unfold tickOf; split <;> exact ⟨_, rfl⟩
    · exact ⟨'+', rfl⟩
  obtain ⟨c, rfl⟩ := htl
  have h1 : remark d (indentOf d ++ [c, ' '] ++ x) '\\' = ' ' :: (List.replicate d '|' ++ '\\' :: ' ' :: x) := by
    unfold remark indentOf
    have e1 : (' ' :: List.replicate d '|' ++ [c, ' '] ++ x).take (d + 1) = ' ' :: List.replicate d '|' := by
      rw [List.append_assoc, List.take_append_of_le_length (by simp)]
      rw [List.take_of_length_le (by simp)]
    have e2 : (' ' :: List.replicate d '|' ++ [c, ' '] ++ x).drop (d + 2) = ' ' :: x := by
      have e3 : ' ' :: List.replicate d '|' ++ [c, ' '] ++ x = (' ' :: List.replicate d '|' ++ [c]) ++ (' ' :: x) := by simp
      rw [e3, List.drop_append_of_le_length (by simp), List.drop_of_length_le (by simp)]
      simp
    rw [e1, e2]
    simp
  rw [h1]
  simp only [gutter, takeWhile_bars d '\\' (' ' :: x) (by decide), List.length_replicate, drop_bars]
  simp

/-- `\` on the first line of a branch: the reader first copies the target in force one level up -/
def copyUp (d : Nat) (s : RS) : RS := (setAt s.1 d (getAt s.1 (d - 1)), s.2)

theorem rstep_marked (inner : CallInfo) (s : RS) (l l' : Str) (d : Nat) (hd : 1 ≤ d)
    (hg' : gutter l' = (d, some '\\')) (hg : (gutter l).1 = d) (hm1 : (gutter l).2 ≠ some '\\')
    (hm2 : (gutter l).2 ≠ some 'X')
    (ht : afterLabel "Target".toList l' = afterLabel "Target".toList l)
    (hs : afterLabel "Spec".toList l' = afterLabel "Spec".toList l) :
    rstep inner s l' = rstep inner (copyUp d s) l := by
  unfold rstep copyUp
  simp only [hg', hg, ht, hs]
  have e1 : ((some '\\' == some '\\') && decide (d > 0)) = true := by simp; omega
  have e2 : (((gutter l).2 == some '\\') && decide (d > 0)) = false := by simp [hm1]
  have e3 : ((some '\\' == some 'X') && decide (d > 0)) = false := by simp
  have e4 : (((gutter l).2 == some 'X') && decide (d > 0)) = false := by simp [hm2]
  simp only [e1, e2, e3, e4, if_true, Bool.false_eq_true, if_false]


/-! ### the reader on a `Target:` / `Spec:` line -/

/-- what a `Target:` line at depth `d` shows of a frame -/
def tgtShown (width : Nat) (f : Frame) (d : Nat) : Str :=
  formatValue f.target f.tlen ((width : Int) - ((d + 11 : Nat) : Int))

theorem traceLine_target (d w : Nat) (f : Frame) :
    traceLine d w "Target".toList (tickOf d) f.target f.tlen =
      (indentOf d ++ tickOf d) ++ ("Target".toList ++ ": ".toList ++ tgtShown w f d) := by
  have hlen : (indentOf d ++ tickOf d ++ "Target".toList ++ ": ".toList).length = d + 11 := by
    simp [indentOf_length, tickOf_length]
  rw [traceLine_eq, hlen]
  rfl

theorem traceLine_spec (d w : Nat) (t : Str) (f : Frame) (hl : t.length = 2) :
    traceLine d w "Spec".toList t f.spec f.slen =
      (indentOf d ++ t) ++ ("Spec".toList ++ ": ".toList ++ specShown w f d) := by
  have hlen : (indentOf d ++ t ++ "Spec".toList ++ ": ".toList).length = d + 9 := by
    simp [indentOf_length, hl]
  rw [traceLine_eq, hlen]
  rfl

theorem NoNL_targetLine (d w : Nat) (f : Frame) (h : NoNL f.target) :
    NoNL (traceLine d w "Target".toList (tickOf d) f.target f.tlen) := by
  rw [traceLine_target]
  apply NoNL_append (Gut_NoNL (Gut_append (Gut_indentOf d) (Gut_tickOf d)))
  apply NoNL_append (NoNL_append (NoNL_lit "Target" (by decide)) (NoNL_lit ": " (by decide)))
  exact formatValue_NoNL _ _ _ h

theorem NoNL_specLine (d w : Nat) (t : Str) (f : Frame) (ht : t = tickOf d ∨ t = "+ ".toList) (h : NoNL f.spec) :
    NoNL (traceLine d w "Spec".toList t f.spec f.slen) := by
  have htg : Gut t := by rcases ht with rfl | rfl; exact Gut_tickOf d; exact Gut_plus
  have htl : t.length = 2 := by rcases ht with rfl | rfl; exact tickOf_length d; rfl
  rw [traceLine_spec d w t f htl]
  apply NoNL_append (Gut_NoNL (Gut_append (Gut_indentOf d) htg))
  apply NoNL_append (NoNL_append (NoNL_lit "Spec" (by decide)) (NoNL_lit ": " (by decide)))
  exact formatValue_NoNL _ _ _ h

/-- a `Target:` line sets the target in force at its depth -/
theorem rstep_targetLine (inner : CallInfo) (s : RS) (d w : Nat) (f : Frame) :
    rstep inner s (traceLine d w "Target".toList (tickOf d) f.target f.tlen) =
      (setAt s.1 d (some (tgtShown w f d)), s.2) := by
  rw [traceLine_target]
  have hg := gutter_line d (tickOf d) ("Target".toList ++ ": ".toList ++ tgtShown w f d) (Or.inl rfl)
  have hal : afterLabel "Target".toList ((indentOf d ++ tickOf d) ++ ("Target".toList ++ ": ".toList ++ tgtShown w f d)) =
      some (tgtShown w f d) := by
    rw [afterLabel_gutter _ _ _ (Gut_append (Gut_indentOf d) (Gut_tickOf d)), afterLabel_target_self]
  unfold rstep
  simp only [hal, hg.1]
  have e2 : (((gutter (indentOf d ++ tickOf d ++ ("Target".toList ++ ": ".toList ++ tgtShown w f d))).2 == some '\\') &&
      decide (d > 0)) = false := by rw [beq_eq_false_iff_ne.mpr hg.2.1]; rfl
  rw [e2]
  rfl

/-- a `Spec:` line leaves the targets alone; if it shows the spec looked for, the candidates are
    the target in force at its depth -/
theorem rstep_specLine (inner : CallInfo) (s : RS) (d w : Nat) (t : Str) (f : Frame) (ht : t = tickOf d ∨ t = "+ ".toList) :
    rstep inner s (traceLine d w "Spec".toList t f.spec f.slen) =
      (s.1, if showsValue inner.spec inner.slen (specShown w f d) then
              (match getAt s.1 d with | some t => [t] | none => []) else s.2) := by
  have htg : Gut t := by rcases ht with rfl | rfl; exact Gut_tickOf d; exact Gut_plus
  have htl : t.length = 2 := by rcases ht with rfl | rfl; exact tickOf_length d; rfl
  rw [traceLine_spec d w t f htl]
  have hg := gutter_line d t ("Spec".toList ++ ": ".toList ++ specShown w f d) ht
  have hal1 : afterLabel "Target".toList ((indentOf d ++ t) ++ ("Spec".toList ++ ": ".toList ++ specShown w f d)) = none := by
    rw [afterLabel_gutter _ _ _ (Gut_append (Gut_indentOf d) htg), afterLabel_target_spec]
  have hal2 : afterLabel "Spec".toList ((indentOf d ++ t) ++ ("Spec".toList ++ ": ".toList ++ specShown w f d)) =
      some (specShown w f d) := by
    rw [afterLabel_gutter _ _ _ (Gut_append (Gut_indentOf d) htg), afterLabel_spec_self]
  unfold rstep
  simp only [hal1, hal2, hg.1]
  have e2 : (((gutter (indentOf d ++ t ++ ("Spec".toList ++ ": ".toList ++ specShown w f d))).2 == some '\\') &&
      decide (d > 0)) = false := by rw [beq_eq_false_iff_ne.mpr hg.2.1]; rfl
  have e4 : (((gutter (indentOf d ++ t ++ ("Spec".toList ++ ": ".toList ++ specShown w f d))).2 == some 'X') &&
      decide (d > 0)) = false := by rw [beq_eq_false_iff_ne.mpr hg.2.2]; rfl
  rw [e2, e4]
  simp only [Bool.false_eq_true, if_false, List.append_nil]
  split <;> rfl

/-- the first line of a branch (marked `\`), when it is a `Target:` / `Spec:` line -/
theorem readT_marked_line (inner : CallInfo) (s : RS) (d : Nat) (hd : 1 ≤ d) (t body : Str)
    (ht : t = tickOf d ∨ t = "+ ".toList) (hb : NoNL body) :
    readT inner (remark d (indentOf d ++ t ++ body) '\\') s = rstep inner (copyUp d s) (indentOf d ++ t ++ body) := by
  have htg : Gut t := by rcases ht with rfl | rfl; exact Gut_tickOf d; exact Gut_plus
  have htl : t.length = 2 := by rcases ht with rfl | rfl; exact tickOf_length d; rfl
  have hg : Gut (indentOf d ++ t) := Gut_append (Gut_indentOf d) htg
  have hlen : d + 2 ≤ (indentOf d ++ t).length := by simp [indentOf_length, htl]
  have hrem : remark d (indentOf d ++ t ++ body) '\\' = remark d (indentOf d ++ t) '\\' ++ body :=
    remark_prefix d _ body '\\' hlen
  have hg' : Gut (remark d (indentOf d ++ t) '\\') := Gut_remark d _ '\\' hg (by decide)
  have hnl : NoNL (remark d (indentOf d ++ t ++ body) '\\') := by
    rw [hrem]; exact NoNL_append (Gut_NoNL hg') hb
  rw [readT_line inner _ hnl]
  have hgl := gutter_line d t body ht
  apply rstep_marked inner s _ _ d hd (gutter_marked d hd t body ht) hgl.1 hgl.2.1 hgl.2.2
  · rw [hrem, afterLabel_gutter _ _ _ hg', afterLabel_gutter _ _ _ hg]
  · rw [hrem, afterLabel_gutter _ _ _ hg', afterLabel_gutter _ _ _ hg]


/-! ### branches that are read over: they do not touch the targets in force at lower depths -/

/-- a line that starts like a line nested at depth ≥ `δ` -/
def DeepAt (δ : Nat) (l : Str) : Prop :=
  ∃ c x, l = ' ' :: (List.replicate δ '|' ++ c :: x) ∧ (c = '|' ∨ c = '\\' ∨ c = 'X' ∨ c = '+')

theorem DeepAt_gutter {δ : Nat} {l : Str} (h : DeepAt δ l) : δ ≤ (gutter l).1 := by
  obtain ⟨c, x, rfl, hc⟩ := h
  rcases hc with rfl | rfl | rfl | rfl
  · -- one more bar: at least δ + 1 bars
    have h1 : ' ' :: (List.replicate δ '|' ++ '|' :: x) = ' ' :: (List.replicate (δ + 1) '|' ++ x) := by
      simp [List.replicate_succ']
    rw [h1]
    simp only [gutter]
    have hb : δ + 1 ≤ ((List.replicate (δ + 1) '|' ++ x).takeWhile (· == '|')).length := by
      rw [List.takeWhile_append_of_pos (by simp)]
      simp
    split <;> simp only [] <;> omega
  · simp only [gutter, takeWhile_bars δ '\\' x (by decide), List.length_replicate, drop_bars]; simp
  · simp only [gutter, takeWhile_bars δ 'X' x (by decide), List.length_replicate, drop_bars]; simp
  · simp only [gutter, takeWhile_bars δ '+' x (by decide), List.length_replicate, drop_bars]; simp

theorem DeepAt_mono {δ δ' : Nat} {l : Str} (h : DeepAt δ' l) (hd : δ ≤ δ') : DeepAt δ l := by
  obtain ⟨c, x, rfl, hc⟩ := h
  by_cases he : δ = δ'
  · subst he; exact ⟨c, x, rfl, hc⟩
  · obtain ⟨k, rfl⟩ : ∃ k, δ' = δ + (k + 1) := ⟨δ' - δ - 1, by omega⟩
    refine ⟨'|', List.replicate k '|' ++ c :: x, ?_, Or.inl rfl⟩
    rw [← List.replicate_append_replicate, List.replicate_succ]
    simp

theorem DeepAt_remark {δ : Nat} {l : Str} (p : Nat) (m : Char) (h : DeepAt δ l) (hp : δ ≤ p)
    (hm : m = '\\' ∨ m = 'X') : DeepAt δ (remark p l m) := by
  obtain ⟨c, x, rfl, hc⟩ := h
  have hA : (' ' :: List.replicate δ '|').length = δ + 1 := by simp
  have hl : ' ' :: (List.replicate δ '|' ++ c :: x) = (' ' :: List.replicate δ '|') ++ c :: x := by simp
  unfold remark
  by_cases he : p = δ
  · subst he
    refine ⟨m, x, ?_, by rcases hm with rfl | rfl <;> simp⟩
    rw [hl, List.take_left' hA]
    have : ((' ' :: List.replicate p '|') ++ c :: x).drop (p + 2) = x := by
      have : ((' ' :: List.replicate p '|') ++ [c]).length = p + 2 := by simp
      rw [show (' ' :: List.replicate p '|') ++ c :: x = ((' ' :: List.replicate p '|') ++ [c]) ++ x by simp,
        List.drop_left' this]
    rw [this]
    simp
  · obtain ⟨k, rfl⟩ : ∃ k, p = δ + 1 + k := ⟨p - δ - 1, by omega⟩
    refine ⟨c, x.take k ++ m :: x.drop (k + 1), ?_, hc⟩
    rw [hl]
    have e1 : ((' ' :: List.replicate δ '|') ++ c :: x).take (δ + 1 + k + 1) =
        (' ' :: List.replicate δ '|') ++ c :: x.take k := by
      rw [List.take_append, List.take_of_length_le (by simp; omega), hA]
      have : δ + 1 + k + 1 - (δ + 1) = k + 1 := by omega
      rw [this]; simp
    have e2 : ((' ' :: List.replicate δ '|') ++ c :: x).drop (δ + 1 + k + 2) = x.drop (k + 1) := by
      rw [List.drop_append, List.drop_of_length_le (by simp; omega), hA]
      have : δ + 1 + k + 2 - (δ + 1) = k + 2 := by omega
      rw [this]; simp
    rw [e1, e2]
    simp

theorem DeepAt_indent (d : Nat) (hd : 1 ≤ d) (t x : Str) (ht : t = tickOf d ∨ t = "+ ".toList) :
    DeepAt d (indentOf d ++ t ++ x) := by
  rcases ht with rfl | rfl
  · have : tickOf d = "| ".toList := by unfold tickOf; rw [if_neg (by simp; omega)]
    rw [this]
    exact ⟨'|', ' ' :: x, by simp [indentOf], Or.inl rfl⟩
  · exact ⟨'+', ' ' :: x, by simp [indentOf], Or.inr (Or.inr (Or.inr rfl))⟩

/-- a line the reader passes without touching the targets -/
def Quiet (l : Str) : Prop :=
  afterLabel "Target".toList l = none ∧ ¬ ((gutter l).2 = some '\\' ∧ 0 < (gutter l).1)

def DQ (δ : Nat) (l : Str) : Prop := DeepAt δ l ∨ Quiet l

/-- the reader on a line nested at depth ≥ `δ` (or a quiet one): the targets below `δ` stay -/
theorem rstep_DQ (inner : CallInfo) (s : RS) (l : Str) (δ : Nat) (h : DQ δ l) :
    ∀ i, i < δ → getAt (rstep inner s l).1 i = getAt s.1 i := by
  intro i hi
  rcases h with h | h
  · have hd := DeepAt_gutter h
    have htg1 : getAt (if ((gutter l).2 == some '\\' && decide ((gutter l).1 > 0)) = true
        then setAt s.1 (gutter l).1 (getAt s.1 ((gutter l).1 - 1)) else s.1) i = getAt s.1 i := by
      split
      · exact getAt_setAt_ne _ _ _ _ (by omega)
      · rfl
    unfold rstep
    simp only []
    cases afterLabel "Target".toList l with
    | some t => simp only []; rw [getAt_setAt_ne _ _ _ _ (by omega)]; exact htg1
    | none =>
      simp only []
      cases afterLabel "Spec".toList l with
      | none => exact htg1
      | some shown => simp only []; split <;> exact htg1
  · obtain ⟨h1, h2⟩ := h
    have hc : ((gutter l).2 == some '\\' && decide ((gutter l).1 > 0)) = false := by
      cases hb : ((gutter l).2 == some '\\' && decide ((gutter l).1 > 0)) with
      | false => rfl
      | true =>
        simp only [Bool.and_eq_true, beq_iff_eq, decide_eq_true_eq] at hb
        exact absurd ⟨hb.1, hb.2⟩ h2
    unfold rstep
    simp only [h1, hc, Bool.false_eq_true, if_false]
    cases afterLabel "Spec".toList l with
    | none => rfl
    | some shown => simp only []; split <;> rfl

theorem foldl_rstep_DQ (inner : CallInfo) (δ : Nat) : ∀ (lines : List Str) (s : RS), (∀ l, l ∈ lines → DQ δ l) →
    ∀ i, i < δ → getAt (lines.foldl (rstep inner) s).1 i = getAt s.1 i
  | [], _, _, _, _ => rfl
  | l :: rest, s, h, i, hi => by
    simp only [List.foldl_cons]
    rw [foldl_rstep_DQ inner δ rest _ (fun l' hl' => h l' (List.mem_cons_of_mem _ hl')) i hi]
    exact rstep_DQ inner s l δ (h l (by simp)) i hi

/-! ### lines that do not show the spec looked for leave the candidates alone -/

theorem rstep_found (inner : CallInfo) (s : RS) (l : Str)
    (h : ∀ shown, afterLabel "Spec".toList l = some shown → showsValue inner.spec inner.slen shown = false) :
    (rstep inner s l).2 = s.2 := by
  unfold rstep
  simp only []
  cases afterLabel "Target".toList l with
  | some t => rfl
  | none =>
    simp only []
    cases hs : afterLabel "Spec".toList l with
    | none => rfl
    | some shown =>
      simp only []
      rw [h shown hs]
      rfl

theorem readT_found (inner : CallInfo) (T : Str) (s : RS)
    (h : ∀ shown, shown ∈ SLT T → showsValue inner.spec inner.slen shown = false) : (readT inner T s).2 = s.2 := by
  unfold readT
  have key : ∀ (lines : List Str) (s : RS), (∀ l, l ∈ lines → ∀ shown, afterLabel "Spec".toList l = some shown →
      showsValue inner.spec inner.slen shown = false) → (lines.foldl (rstep inner) s).2 = s.2 := by
    intro lines
    induction lines with
    | nil => intro s _; rfl
    | cons l rest ih =>
      intro s hl
      simp only [List.foldl_cons]
      rw [ih _ (fun l' hl' => hl l' (List.mem_cons_of_mem _ hl'))]
      exact rstep_found inner s l (hl l (by simp))
  apply key
  intro l hl shown hs
  apply h shown
  unfold SLT linesMap
  exact List.mem_filterMap.mpr ⟨l, hl, hs⟩


/-! ### every text at depth `δ ≥ 1` consists of lines nested at depth ≥ `δ`, and quiet ones -/

/-- the lines of an error text are passed by the reader: no label, no `\` mark at a depth > 0 -/
def ErrQuiet (errText : Nat → Str) : Prop :=
  ∀ e l, l ∈ splitLines (errText e) →
    afterLabel "Target".toList l = none ∧ afterLabel "Spec".toList l = none ∧
      ¬ ((gutter l).2 = some '\\' ∧ 0 < (gutter l).1)

theorem ErrQuiet.labelFree {errText : Nat → Str} (h : ErrQuiet errText) : ErrLabelFree errText :=
  fun e l hl => (h e l hl).2.1

/-- the first line is nested at depth ≥ `δ`; every line is, or is quiet -/
def BranchText (δ : Nat) (T : Str) : Prop :=
  (∃ hd tl, splitLines T = hd :: tl ∧ DeepAt δ hd) ∧ ∀ l, l ∈ splitLines T → DQ δ l

theorem BranchText_mono {δ : Nat} {T : Str} (h : BranchText (δ + 1) T) : BranchText δ T := by
  obtain ⟨⟨hd, tl, h1, h2⟩, h3⟩ := h
  refine ⟨⟨hd, tl, h1, DeepAt_mono h2 (by omega)⟩, ?_⟩
  intro l hl
  rcases h3 l hl with h' | h'
  · exact Or.inl (DeepAt_mono h' (by omega))
  · exact Or.inr h'

theorem BranchText_line (d : Nat) (hd : 1 ≤ d) (t body : Str) (ht : t = tickOf d ∨ t = "+ ".toList) (hb : NoNL body) :
    BranchText d (indentOf d ++ t ++ body) := by
  have htg : Gut t := by rcases ht with rfl | rfl; exact Gut_tickOf d; exact Gut_plus
  have hnl : NoNL (indentOf d ++ t ++ body) := NoNL_append (Gut_NoNL (Gut_append (Gut_indentOf d) htg)) hb
  rw [BranchText, splitLines_noNL _ hnl]
  refine ⟨⟨_, [], rfl, DeepAt_indent d hd t body ht⟩, ?_⟩
  intro l hl
  simp only [List.mem_singleton] at hl
  subst hl
  exact Or.inl (DeepAt_indent d hd t body ht)

theorem BranchText_err (d : Nat) (hd : 1 ≤ d) (errText : Nat → Str) (e : Nat) (he : ErrQuiet errText) :
    BranchText d (indentOf d ++ tickOf d ++ errText e) := by
  cases hs : splitLines (errText e) with
  | nil => exact absurd hs (splitLines_ne_nil _)
  | cons hd' tl =>
    have hsp := splitLines_prefix _ (errText e) hd' tl (Gut_NoNL (Gut_append (Gut_indentOf d) (Gut_tickOf d))) hs
    rw [BranchText, hsp]
    refine ⟨⟨_, tl, rfl, DeepAt_indent d hd (tickOf d) hd' (Or.inl rfl)⟩, ?_⟩
    intro l hl
    rcases List.mem_cons.mp hl with hl | hl
    · subst hl; exact Or.inl (DeepAt_indent d hd (tickOf d) hd' (Or.inl rfl))
    · have := he e l (by rw [hs]; exact List.mem_cons_of_mem _ hl)
      exact Or.inr ⟨this.1, this.2.2⟩

theorem BranchText_remark (d : Nat) (m : Char) (s : Str) (hg : GPre (d + 3) s) (h : BranchText d s)
    (hm : m = '\\' ∨ m = 'X') : BranchText d (remark d s m) := by
  obtain ⟨g, x, rfl, hgut, hlen⟩ := hg
  have hmg : isGutterChar m = true := by rcases hm with rfl | rfl <;> decide
  obtain ⟨⟨hd0, tl0, hsp0, hdeep⟩, hall⟩ := h
  cases hs : splitLines x with
  | nil => exact absurd hs (splitLines_ne_nil x)
  | cons hd' tl =>
    have hg' := Gut_remark d g m hgut hmg
    have hold := splitLines_prefix g x hd' tl (Gut_NoNL hgut) hs
    rw [hold] at hsp0 hall
    simp only [List.cons.injEq] at hsp0
    obtain ⟨rfl, rfl⟩ := hsp0
    have hnew : splitLines (remark d (g ++ x) m) = remark d (g ++ hd') m :: tl := by
      rw [remark_prefix d g x m (by omega), remark_prefix d g hd' m (by omega)]
      exact splitLines_prefix _ x hd' tl (Gut_NoNL hg') hs
    rw [BranchText, hnew]
    have hhead := DeepAt_remark d m hdeep (Nat.le_refl d) hm
    refine ⟨⟨_, tl, rfl, hhead⟩, ?_⟩
    intro l hl
    rcases List.mem_cons.mp hl with hl | hl
    · subst hl; exact Or.inl hhead
    · exact hall l (List.mem_cons_of_mem _ hl)

theorem BranchText_joinLines (d : Nat) : ∀ (segs : List Str), segs ≠ [] → (∀ s, s ∈ segs → BranchText d s) →
    BranchText d (joinLines segs)
  | [], h, _ => absurd rfl h
  | x :: r, _, hall => by
    rw [BranchText, splitLines_joinLines (x :: r) (by simp)]
    obtain ⟨⟨hd, tl, hsp, hdeep⟩, _⟩ := hall x (by simp)
    refine ⟨⟨hd, tl ++ r.flatMap splitLines, by simp [hsp], hdeep⟩, ?_⟩
    intro l hl
    obtain ⟨s, hs, hls⟩ := List.mem_flatMap.mp hl
    exact (hall s hs).2 l hls

theorem allSegs_BranchText (fs : Array Frame) (errText : Nat → Str) (rootError width depth : Nat) (lb : Bool)
    (recur : Nat → Option Nat → Bool → Str) (hd : 1 ≤ depth) (hfs : FramesOneLine fs) (herr : ErrQuiet errText) :
    ∀ (rows : List Row) (prev : Option Nat),
    (∀ r, r ∈ rows → ∀ b, b ∈ r.branches → ∀ p l, BranchText depth (recur b p l)) →
    ∀ s, s ∈ allSegs fs errText rootError width depth lb recur rows prev → BranchText depth s
  | [], _, _, s, hs => by simp [allSegs] at hs
  | r :: rest, prev, hrec, s, hs => by
    have ih := allSegs_BranchText fs errText rootError width depth lb recur hd hfs herr rest
    simp only [allSegs] at hs
    cases hf : fs[r.frame]? with
    | none =>
      rw [hf] at hs
      exact ih prev (fun r' hr' => hrec r' (List.mem_cons_of_mem _ hr')) s hs
    | some f =>
      rw [hf] at hs
      obtain ⟨hns, hnt⟩ := hfs _ f hf
      rcases List.mem_append.mp hs with h | h
      · simp only [rowSegs, List.mem_append] at h
        rcases h with (h | h) | h
        · split at h
          · simp only [List.mem_singleton] at h; subst h
            rw [traceLine_target]
            exact BranchText_line depth hd _ _ (Or.inl rfl)
              (NoNL_append (NoNL_append (NoNL_lit "Target" (by decide)) (NoNL_lit ": " (by decide))) (formatValue_NoNL _ _ _ hnt))
          · simp at h
        · cases hb : r.branches.reverse with
          | nil =>
            rw [hb] at h
            simp only [List.mem_singleton] at h; subst h
            rw [traceLine_spec depth width _ f (tickOf_length depth)]
            exact BranchText_line depth hd _ _ (Or.inl rfl)
              (NoNL_append (NoNL_append (NoNL_lit "Spec" (by decide)) (NoNL_lit ": " (by decide))) (formatValue_NoNL _ _ _ hns))
          | cons lastB revInit =>
            rw [hb] at h
            have hbs := branches_of_reverse hb
            simp only [List.mem_append, List.mem_singleton, List.mem_map] at h
            rcases h with (h | ⟨b, hb', h⟩) | h
            · subst h
              rw [traceLine_spec depth width _ f rfl]
              exact BranchText_line depth hd _ _ (Or.inr rfl)
                (NoNL_append (NoNL_append (NoNL_lit "Spec" (by decide)) (NoNL_lit ": " (by decide))) (formatValue_NoNL _ _ _ hns))
            · subst h; exact hrec r (by simp) b (by rw [hbs]; simp [hb']) _ _
            · subst h; exact hrec r (by simp) lastB (by rw [hbs]; simp) _ _
        · cases he : r.error with
          | none => rw [he] at h; exact absurd h (by simp)
          | some e =>
            rw [he] at h
            by_cases hne : (e != rootError) = true
            · simp only [hne, if_true, List.mem_singleton] at h; subst h
              exact BranchText_err depth hd errText e herr
            · simp [hne] at h
      · exact ih (some f.tid) (fun r' hr' => hrec r' (List.mem_cons_of_mem _ hr')) s h

/-- **the text of a branch (any depth `d ≥ 1`, any marks) is read over without touching the targets
    in force at depths `< d`** — its lines are nested at depth ≥ `d` or quiet -/
theorem branch_text (fs : Array Frame) (errText : Nat → Str) (rootError width : Nat)
    (hfs : FramesOneLine fs) (herr : ErrQuiet errText) :
    ∀ (fuel h d : Nat) (prev : Option Nat) (lb : Bool), Renderable fs fuel h → 1 ≤ d →
      BranchText d (formatTrace fs errText rootError width fuel h d prev lb)
  | 0, _, _, _, _, hr, _ => by simp [Renderable] at hr
  | fuel + 1, h, d, prev, lb, hr, hd => by
    obtain ⟨hne, hrows⟩ := hr
    rw [formatTrace_succ]
    have hrec : ∀ r, r ∈ unpack fs h → ∀ b, b ∈ r.branches → ∀ p l,
        BranchText d (formatTrace fs errText rootError width fuel b (d + 1) p l) :=
      fun r hr b hb p l => BranchText_mono
        (branch_text fs errText rootError width hfs herr fuel b (d + 1) p l ((hrows r hr).2 b hb) (by omega))
    have hall := allSegs_BranchText fs errText rootError width d lb
      (fun b p l => formatTrace fs errText rootError width fuel b (d + 1) p l) hd hfs herr (unpack fs h) prev hrec
    have hgp : ∀ s, s ∈ allSegs fs errText rootError width d lb
        (fun b p l => formatTrace fs errText rootError width fuel b (d + 1) p l) (unpack fs h) prev → GPre (d + 3) s := by
      apply allSegs_GPre
      intro r hr b hb p l
      exact GPre_mono (by omega) (formatTrace_GPre fs errText rootError width fuel b (d + 1) p l ((hrows r hr).2 b hb))
    have hsne := allSegs_ne_nil fs errText rootError width d lb
      (fun b p l => formatTrace fs errText rootError width fuel b (d + 1) p l) (unpack fs h) prev hne
      (fun r hr => (hrows r hr).1)
    simp only []
    have hd0 : (d == 0) = false := by simp; omega
    rw [hd0]
    simp only [Bool.false_eq_true, if_false]
    have h1 : ∀ s, s ∈ setHead (allSegs fs errText rootError width d lb
        (fun b p l => formatTrace fs errText rootError width fuel b (d + 1) p l) (unpack fs h) prev)
        (fun s => remark d s '\\') → BranchText d s ∧ GPre (d + 3) s := by
      intro s hs
      rcases mem_setHead _ _ hs with h' | ⟨s0, h0, rfl⟩
      · exact ⟨hall s h', hgp s h'⟩
      · exact ⟨BranchText_remark d '\\' s0 (hgp s0 h0) (hall s0 h0) (Or.inl rfl),
          GPre_remark d '\\' (hgp s0 h0) (by omega) (by decide)⟩
    split
    · apply BranchText_joinLines d _ (setLast_ne_nil _ (setHead_ne_nil _ hsne))
      intro s hs
      rcases mem_setLast _ _ hs with h' | ⟨s0, h0, rfl⟩
      · exact (h1 s h').1
      · exact BranchText_remark d 'X' s0 (h1 s0 h0).2 (h1 s0 h0).1 (Or.inr rfl)
    · exact BranchText_joinLines d _ (setHead_ne_nil _ hsne) (fun s hs => (h1 s hs).1)

/-- reading a branch keeps the targets in force below its depth -/
theorem readT_branch (inner : CallInfo) (T : Str) (δ : Nat) (h : BranchText δ T) (s : RS) :
    ∀ i, i < δ → getAt (readT inner T s).1 i = getAt s.1 i :=
  foldl_rstep_DQ inner δ _ s h.2


/-! ### every `Spec:` line of a text is the line of a rendered row -/

theorem SLT_targetLine (d w : Nat) (f : Frame) (h : NoNL f.target) :
    SLT (traceLine d w "Target".toList (tickOf d) f.target f.tlen) = [] := by
  unfold SLT linesMap
  rw [splitLines_noNL _ (NoNL_targetLine d w f h), traceLine_target]
  simp only [List.filterMap_cons, List.filterMap_nil]
  rw [afterLabel_gutter _ _ _ (Gut_append (Gut_indentOf d) (Gut_tickOf d)), afterLabel_spec_target]

theorem SLT_err (d : Nat) (e : Str) (he : ∀ l, l ∈ splitLines e → afterLabel "Spec".toList l = none) :
    SLT (indentOf d ++ tickOf d ++ e) = [] := by
  unfold SLT linesMap
  apply List.filterMap_eq_nil_iff.mpr
  intro l hl
  cases hs : splitLines e with
  | nil => exact absurd hs (splitLines_ne_nil e)
  | cons hd' tl =>
    rw [splitLines_prefix _ e hd' tl (Gut_NoNL (Gut_append (Gut_indentOf d) (Gut_tickOf d))) hs] at hl
    rcases List.mem_cons.mp hl with hl | hl
    · subst hl
      rw [afterLabel_gutter _ _ _ (Gut_append (Gut_indentOf d) (Gut_tickOf d))]
      exact he hd' (by rw [hs]; simp)
    · exact he l (by rw [hs]; exact List.mem_cons_of_mem _ hl)

theorem allSegs_SLT_mem (fs : Array Frame) (errText : Nat → Str) (rootError width depth : Nat) (lb : Bool)
    (recur : Nat → Option Nat → Bool → Str) (hfs : FramesOneLine fs) (herr : ErrLabelFree errText) :
    ∀ (rows : List Row) (prev : Option Nat) (seg shown : Str),
    seg ∈ allSegs fs errText rootError width depth lb recur rows prev → shown ∈ SLT seg →
    ∃ r, r ∈ rows ∧ ((∃ f, fs[r.frame]? = some f ∧ shown = specShown width f depth) ∨
      (∃ b, b ∈ r.branches ∧ ∃ p l, shown ∈ SLT (recur b p l)))
  | [], _, seg, _, hs, _ => by simp [allSegs] at hs
  | r :: rest, prev, seg, shown, hs, hsh => by
    have ih := allSegs_SLT_mem fs errText rootError width depth lb recur hfs herr rest
    have lift : (∃ r', r' ∈ rest ∧ ((∃ f, fs[r'.frame]? = some f ∧ shown = specShown width f depth) ∨
        (∃ b, b ∈ r'.branches ∧ ∃ p l, shown ∈ SLT (recur b p l)))) →
        ∃ r', r' ∈ r :: rest ∧ ((∃ f, fs[r'.frame]? = some f ∧ shown = specShown width f depth) ∨
        (∃ b, b ∈ r'.branches ∧ ∃ p l, shown ∈ SLT (recur b p l))) :=
      fun ⟨r', h1, h2⟩ => ⟨r', List.mem_cons_of_mem _ h1, h2⟩
    simp only [allSegs] at hs
    cases hf : fs[r.frame]? with
    | none => rw [hf] at hs; exact lift (ih prev seg shown hs hsh)
    | some f =>
      rw [hf] at hs
      obtain ⟨hns, hnt⟩ := hfs _ f hf
      rcases List.mem_append.mp hs with h | h
      · refine ⟨r, by simp, ?_⟩
        simp only [rowSegs, List.mem_append] at h
        rcases h with (h | h) | h
        · exfalso
          split at h
          · simp only [List.mem_singleton] at h; subst h
            rw [SLT_targetLine depth width f hnt] at hsh; simp at hsh
          · simp at h
        · cases hb : r.branches.reverse with
          | nil =>
            rw [hb] at h
            simp only [List.mem_singleton] at h; subst h
            rw [SLT_specLine depth width _ f (Gut_tickOf depth) (tickOf_length depth) hns] at hsh
            simp only [List.mem_singleton] at hsh
            exact Or.inl ⟨f, hf, hsh⟩
          | cons lastB revInit =>
            rw [hb] at h
            have hbs := branches_of_reverse hb
            simp only [List.mem_append, List.mem_singleton, List.mem_map] at h
            rcases h with (h | ⟨b, hb', h⟩) | h
            · subst h
              rw [SLT_specLine depth width _ f Gut_plus rfl hns] at hsh
              simp only [List.mem_singleton] at hsh
              exact Or.inl ⟨f, hf, hsh⟩
            · subst h; exact Or.inr ⟨b, by rw [hbs]; simp [hb'], _, _, hsh⟩
            · subst h; exact Or.inr ⟨lastB, by rw [hbs]; simp, _, _, hsh⟩
        · exfalso
          cases he : r.error with
          | none => rw [he] at h; exact absurd h (by simp)
          | some e =>
            rw [he] at h
            by_cases hne : (e != rootError) = true
            · simp only [hne, if_true, List.mem_singleton] at h; subst h
              rw [SLT_err depth _ (herr e)] at hsh; simp at hsh
            · simp [hne] at h
      · exact lift (ih (some f.tid) seg shown h hsh)

theorem SLT_mem_shown (fs : Array Frame) (errText : Nat → Str) (rootError width : Nat)
    (hfs : FramesOneLine fs) (herr : ErrLabelFree errText) :
    ∀ (fuel h d : Nat) (prev : Option Nat) (lb : Bool), Renderable fs fuel h →
      ∀ shown, shown ∈ SLT (formatTrace fs errText rootError width fuel h d prev lb) →
      ∃ p, p ∈ shownRows fs fuel h d ∧ ∃ f, fs[p.2.frame]? = some f ∧ shown = specShown width f p.1
  | 0, _, _, _, _, hr, _, _ => by simp [Renderable] at hr
  | fuel + 1, h, d, prev, lb, hr, shown, hsh => by
    have hr' := hr
    obtain ⟨_, hrows⟩ := hr
    unfold SLT at hsh
    rw [linesMap_formatTrace _ (afterLabel_nil _ (by decide)) (fun g g' x hg hg' => afterLabel_gut_irrel _ g g' x hg hg')
      fs errText rootError width fuel h d prev lb hr'] at hsh
    obtain ⟨seg, hseg, hsh'⟩ := List.mem_flatMap.mp hsh
    obtain ⟨r, hrm, hcase⟩ := allSegs_SLT_mem fs errText rootError width d lb _ hfs herr _ _ seg shown hseg hsh'
    rcases hcase with ⟨f, hf, heq⟩ | ⟨b, hb, p, l, hin⟩
    · refine ⟨(d, r), ?_, f, hf, heq⟩
      rw [shownRows_succ]
      exact List.mem_flatMap.mpr ⟨r, hrm, by simp⟩
    · obtain ⟨q, hq, f, hf, heq⟩ := SLT_mem_shown fs errText rootError width hfs herr fuel b (d + 1) p l
        ((hrows r hrm).2 b hb) shown hin
      refine ⟨q, ?_, f, hf, heq⟩
      rw [shownRows_succ]
      exact List.mem_flatMap.mpr ⟨r, hrm, List.mem_cons_of_mem _ (List.mem_flatMap.mpr ⟨b, hb, hq⟩)⟩


/-! ### the rows on the path of the error: their `Target:` / `Spec:` lines, read in order -/

/-- `x` shows the target of every call whose target has the identity `τ` -/
def ShowsTid (fs : Array Frame) (τ : Nat) (x : Str) : Prop :=
  ∀ (j : Nat) (f : Frame), 1 ≤ j → fs[j]? = some f → f.tid = τ → showsValue f.target f.tlen x = true

/-- the identity of a target determines its text -/
def TidOK (fs : Array Frame) : Prop :=
  ∀ (j j' : Nat) (f f' : Frame), 1 ≤ j → 1 ≤ j' → fs[j]? = some f → fs[j']? = some f' → f.tid = f'.tid →
    f.target = f'.target ∧ f.tlen = f'.tlen

/-- the target in force at depth `d` is the previous row's target -/
def LevelInv (fs : Array Frame) (d : Nat) (prev : Option Nat) (tg : List (Option Str)) : Prop :=
  ∀ τ, prev = some τ → ∃ x, getAt tg d = some x ∧ ShowsTid fs τ x

/-- the `Target:` / `Spec:` lines of rows (without the texts of their branches and their error lines) -/
def pathLines (fs : Array Frame) (width d : Nat) : List Row → Option Nat → List Str
  | [], _ => []
  | r :: rest, prev =>
    match fs[r.frame]? with
    | none => pathLines fs width d rest prev
    | some f =>
      (if prev != some f.tid then [traceLine d width "Target".toList (tickOf d) f.target f.tlen] else []) ++
      [traceLine d width "Spec".toList (if r.branches = [] then tickOf d else "+ ".toList) f.spec f.slen] ++
      pathLines fs width d rest (some f.tid)

theorem pathLines_ne_nil (fs : Array Frame) (width d : Nat) (r : Row) (rest : List Row) (prev : Option Nat)
    (f : Frame) (hf : fs[r.frame]? = some f) : pathLines fs width d (r :: rest) prev ≠ [] := by
  simp only [pathLines, hf]
  split <;> simp

/-- every line of `pathLines` is a single line and the first one is a line of depth `d` -/
theorem pathLines_lines (fs : Array Frame) (width d : Nat) (hfs : FramesOneLine fs) :
    ∀ (R : List Row) (prev : Option Nat) (l : Str), l ∈ pathLines fs width d R prev →
      NoNL l ∧ ∃ t body, l = indentOf d ++ t ++ body ∧ (t = tickOf d ∨ t = "+ ".toList) ∧ NoNL body
  | [], _, l, h => by simp [pathLines] at h
  | r :: rest, prev, l, h => by
    have ih := pathLines_lines fs width d hfs rest
    simp only [pathLines] at h
    cases hf : fs[r.frame]? with
    | none => rw [hf] at h; exact ih prev l h
    | some f =>
      rw [hf] at h
      obtain ⟨hns, hnt⟩ := hfs _ f hf
      simp only [List.mem_append, List.mem_singleton] at h
      rcases h with (h | h) | h
      · split at h
        · simp only [List.mem_singleton] at h; subst h
          refine ⟨NoNL_targetLine d width f hnt, tickOf d, _, traceLine_target d width f, Or.inl rfl, ?_⟩
          exact NoNL_append (NoNL_append (NoNL_lit "Target" (by decide)) (NoNL_lit ": " (by decide))) (formatValue_NoNL _ _ _ hnt)
        · simp at h
      · subst h
        have ht : (if r.branches = [] then tickOf d else "+ ".toList) = tickOf d ∨
            (if r.branches = [] then tickOf d else "+ ".toList) = "+ ".toList := by
          split
          · exact Or.inl rfl
          · exact Or.inr rfl
        have htl : (if r.branches = [] then tickOf d else "+ ".toList).length = 2 := by
          split
          · exact tickOf_length d
          · rfl
        refine ⟨NoNL_specLine d width _ f ht hns, _, _, traceLine_spec d width _ f htl, ht, ?_⟩
        exact NoNL_append (NoNL_append (NoNL_lit "Spec" (by decide)) (NoNL_lit ": " (by decide))) (formatValue_NoNL _ _ _ hns)
      · exact ih (some f.tid) l h

/-- **reading the lines of the rows on the path**: afterwards the target in force at depth `d` is the
    target of the last row; and if the last row's `Spec:` line shows the spec looked for, the
    candidates are that target -/
theorem read_pathLines (inner : CallInfo) (fs : Array Frame) (width d : Nat) (htid : TidOK fs) :
    ∀ (R : List Row) (last : Row) (prev : Option Nat) (s : RS) (fl : Frame),
    (∀ r, r ∈ R ++ [last] → 1 ≤ r.frame ∧ (fs[r.frame]?).isSome = true) →
    fs[last.frame]? = some fl → LevelInv fs d prev s.1 →
    let s1 := (pathLines fs width d (R ++ [last]) prev).foldl (rstep inner) s
    LevelInv fs d (some fl.tid) s1.1 ∧
    (showsValue inner.spec inner.slen (specShown width fl d) = true →
      ∃ x, s1.2 = [x] ∧ ShowsTid fs fl.tid x)
  | [], last, prev, s, fl, hfr, hfl, hinv => by
    have hj := (hfr last (by simp)).1
    simp only [List.nil_append, pathLines, hfl, List.foldl_append, List.foldl_cons, List.foldl_nil]
    -- after the `Target:` line (if any) the target in force is the row's
    have hT : ∀ s0 : RS, LevelInv fs d prev s0.1 →
        LevelInv fs d (some fl.tid) ((if (prev != some fl.tid) = true then
          [traceLine d width "Target".toList (tickOf d) fl.target fl.tlen] else []).foldl (rstep inner) s0).1 := by
      intro s0 h0
      split
      · simp only [List.foldl_cons, List.foldl_nil, rstep_targetLine]
        intro τ hτ
        simp only [Option.some.injEq] at hτ
        subst hτ
        refine ⟨_, getAt_setAt_same _ _ _, ?_⟩
        intro j f hj' hf ht
        obtain ⟨h1, h2⟩ := htid j last.frame f fl hj' hj hf hfl ht
        rw [h1, h2]
        exact showsValue_formatValue _ _ _
      · rename_i hp
        simp only [List.foldl_nil]
        have : prev = some fl.tid := by simpa using hp
        rw [← this]; exact h0
    have h1 := hT s hinv
    generalize ((if (prev != some fl.tid) = true then
          [traceLine d width "Target".toList (tickOf d) fl.target fl.tlen] else []).foldl (rstep inner) s) = sT at h1
    have ht : (if last.branches = [] then tickOf d else "+ ".toList) = tickOf d ∨
        (if last.branches = [] then tickOf d else "+ ".toList) = "+ ".toList := by
      split
      · exact Or.inl rfl
      · exact Or.inr rfl
    rw [rstep_specLine inner sT d width _ fl ht]
    refine ⟨h1, ?_⟩
    intro hsh
    simp only [hsh, if_true]
    obtain ⟨x, hx1, hx2⟩ := h1 fl.tid rfl
    exact ⟨x, by rw [hx1], hx2⟩
  | r :: R, last, prev, s, fl, hfr, hfl, hinv => by
    have hr := hfr r (by simp)
    obtain ⟨f, hf⟩ := Option.isSome_iff_exists.mp hr.2
    simp only [List.cons_append, pathLines, hf, List.foldl_append, List.foldl_cons, List.foldl_nil]
    apply read_pathLines inner fs width d htid R last (some f.tid) _ fl
      (fun r' hr' => hfr r' (by simp only [List.cons_append]; exact List.mem_cons_of_mem _ hr')) hfl
    -- the invariant after the lines of `r`
    have hT : LevelInv fs d (some f.tid) ((if (prev != some f.tid) = true then
          [traceLine d width "Target".toList (tickOf d) f.target f.tlen] else []).foldl (rstep inner) s).1 := by
      split
      · simp only [List.foldl_cons, List.foldl_nil, rstep_targetLine]
        intro τ hτ
        simp only [Option.some.injEq] at hτ
        subst hτ
        refine ⟨_, getAt_setAt_same _ _ _, ?_⟩
        intro j f' hj' hf' ht
        obtain ⟨h1, h2⟩ := htid j r.frame f' f hj' hr.1 hf' hf ht
        rw [h1, h2]
        exact showsValue_formatValue _ _ _
      · rename_i hp
        simp only [List.foldl_nil]
        have : prev = some f.tid := by simpa using hp
        rw [← this]; exact hinv
    generalize ((if (prev != some f.tid) = true then
          [traceLine d width "Target".toList (tickOf d) f.target f.tlen] else []).foldl (rstep inner) s) = sT at hT
    have ht : (if r.branches = [] then tickOf d else "+ ".toList) = tickOf d ∨
        (if r.branches = [] then tickOf d else "+ ".toList) = "+ ".toList := by
      split
      · exact Or.inl rfl
      · exact Or.inr rfl
    rw [rstep_specLine inner sT d width _ f ht]
    exact hT


/-! ### the pieces of a text whose rows are on the path -/

/-- the texts of the branches of a row -/
def branchTexts (recur : Nat → Option Nat → Bool → Str) (tid : Nat) (lb : Bool) (br : List Nat) : List Str :=
  match br.reverse with
  | [] => []
  | lastB :: revInit => revInit.reverse.map (fun b => recur b (some tid) false) ++ [recur lastB (some tid) lb]

theorem rowSegs_noErr (errText : Nat → Str) (rootError width depth : Nat) (lb : Bool)
    (recur : Nat → Option Nat → Bool → Str) (f : Frame) (r : Row) (prev : Option Nat)
    (he : rowErrLine rootError r = false) :
    rowSegs errText rootError width depth lb recur f r prev =
      (if prev != some f.tid then [traceLine depth width "Target".toList (tickOf depth) f.target f.tlen] else []) ++
      [traceLine depth width "Spec".toList (if r.branches = [] then tickOf depth else "+ ".toList) f.spec f.slen] ++
      branchTexts recur f.tid lb r.branches := by
  unfold rowSegs branchTexts
  have hne' : ∀ e, r.error = some e → (e != rootError) = false := by
    intro e hre
    unfold rowErrLine at he
    rw [hre] at he
    exact he
  cases hb : r.branches.reverse with
  | nil =>
    have hbn : r.branches = [] := by simpa using hb
    cases hre : r.error with
    | none => simp [hbn]
    | some e => simp [hbn, hne' e hre]
  | cons lastB revInit =>
    have hbs := branches_of_reverse hb
    have hne : r.branches ≠ [] := by rw [hbs]; simp
    cases hre : r.error with
    | none => simp [hne]
    | some e => simp [hne, hne' e hre]

theorem allSegs_path (fs : Array Frame) (errText : Nat → Str) (rootError width d : Nat) (lb : Bool)
    (recur : Nat → Option Nat → Bool → Str) : ∀ (R : List Row) (last : Row) (R2 : List Row) (prev : Option Nat) (fl : Frame),
    (∀ r, r ∈ R → r.branches = [] ∧ rowErrLine rootError r = false ∧ (fs[r.frame]?).isSome = true) →
    rowErrLine rootError last = false → fs[last.frame]? = some fl →
    allSegs fs errText rootError width d lb recur (R ++ [last] ++ R2) prev =
      pathLines fs width d (R ++ [last]) prev ++ branchTexts recur fl.tid lb last.branches ++
        allSegs fs errText rootError width d lb recur R2 (some fl.tid)
  | [], last, R2, prev, fl, _, hel, hfl => by
    simp only [List.nil_append, List.cons_append, allSegs, pathLines, hfl, rowSegs_noErr _ _ _ _ _ _ _ _ _ hel]
    simp
  | r :: R, last, R2, prev, fl, hR, hel, hfl => by
    obtain ⟨hb, he, hs⟩ := hR r (by simp)
    obtain ⟨f, hf⟩ := Option.isSome_iff_exists.mp hs
    have ih := allSegs_path fs errText rootError width d lb recur R last R2 (some f.tid) fl
      (fun r' hr' => hR r' (List.mem_cons_of_mem _ hr')) hel hfl
    simp only [List.cons_append, allSegs, pathLines, hf, rowSegs_noErr _ _ _ _ _ _ _ _ _ he]
    rw [ih]
    simp [hb, branchTexts]

theorem foldl_readT_lines (inner : CallInfo) : ∀ (Ls : List Str) (s : RS), (∀ l, l ∈ Ls → NoNL l) →
    Ls.foldl (fun s seg => readT inner seg s) s = Ls.foldl (rstep inner) s
  | [], _, _ => rfl
  | l :: rest, s, h => by
    simp only [List.foldl_cons]
    rw [readT_line inner l (h l (by simp))]
    exact foldl_readT_lines inner rest _ (fun l' hl' => h l' (List.mem_cons_of_mem _ hl'))

theorem setHead_append {g : Str → Str} : ∀ (A B : List Str), A ≠ [] → setHead (A ++ B) g = setHead A g ++ B
  | [], _, h => absurd rfl h
  | a :: A, B, _ => rfl

theorem setLast_append_ne {g : Str → Str} (A B : List Str) (hB : B ≠ []) : setLast (A ++ B) g = A ++ setLast B g := by
  obtain ⟨init, x, rfl⟩ := exists_dropLast_getLast B hB
  rw [← List.append_assoc, setLast_append, setLast_append, List.append_assoc]

/-- reading the lines of the path rows when the first one carries the `\` mark -/
theorem read_marked_pathLines (inner : CallInfo) (fs : Array Frame) (width d : Nat) (hd : 1 ≤ d)
    (hfs : FramesOneLine fs) (R : List Row) (prev : Option Nat) (s : RS)
    (hne : pathLines fs width d R prev ≠ []) :
    (setHead (pathLines fs width d R prev) (fun x => remark d x '\\')).foldl (fun s seg => readT inner seg s) s =
      (pathLines fs width d R prev).foldl (rstep inner) (copyUp d s) := by
  have hl := pathLines_lines fs width d hfs R prev
  cases hp : pathLines fs width d R prev with
  | nil => exact absurd hp hne
  | cons u1 rest =>
    rw [hp] at hl
    obtain ⟨_, t, body, rfl, ht, hb⟩ := hl u1 (by simp)
    simp only [setHead, List.foldl_cons]
    rw [readT_marked_line inner s d hd t body ht hb]
    exact foldl_readT_lines inner rest _ (fun l hl' => (hl l (List.mem_cons_of_mem _ hl')).1)

/-- **reading a whole text whose rows are on the path**: the lines of the path rows are read from
    the entry state (after the copy the `\` mark asks for), then the remaining pieces (the `X`
    mark, if any, is on the last of them) -/
theorem readT_path_text (inner : CallInfo) (fs : Array Frame) (errText : Nat → Str) (rootError width fuel h d : Nat)
    (prev : Option Nat) (hfs : FramesOneLine fs) (R : List Row) (Rest : List Str) (s : RS)
    (hU : allSegs fs errText rootError width d true
      (fun b p l => formatTrace fs errText rootError width fuel b (d + 1) p l) (unpack fs h) prev =
      pathLines fs width d R prev ++ Rest)
    (hne : pathLines fs width d R prev ≠ [])
    (hlle : lastErrLine fs rootError (unpack fs h) false = true → Rest ≠ []) :
    readT inner (formatTrace fs errText rootError width (fuel + 1) h d prev true) s =
      (if d ≠ 0 ∧ lastErrLine fs rootError (unpack fs h) false = true
        then setLast Rest (fun x => remark d x 'X') else Rest).foldl (fun s seg => readT inner seg s)
        ((pathLines fs width d R prev).foldl (rstep inner) (if d = 0 then s else copyUp d s)) := by
  rw [formatTrace_succ]
  simp only [hU]
  by_cases hd0 : d = 0
  · subst hd0
    simp only [beq_self_eq_true, if_true, ne_eq, not_true_eq_false, false_and, if_false]
    rw [readT_joinLines inner _ (by simp [hne]), List.foldl_append,
      foldl_readT_lines inner _ s (fun l hl => (pathLines_lines fs width 0 hfs R prev l hl).1)]
  · have hdb : (d == 0) = false := by simp [hd0]
    simp only [hdb, Bool.false_eq_true, if_false, Bool.not_true, Bool.false_or, hd0, ne_eq, not_false_eq_true, true_and]
    rw [setHead_append _ _ hne]
    by_cases hl : lastErrLine fs rootError (unpack fs h) false = true
    · simp only [hl, if_true]
      rw [setLast_append_ne _ _ (hlle hl),
        readT_joinLines inner _ (by simp [setHead_ne_nil _ hne]), List.foldl_append,
        read_marked_pathLines inner fs width d (by omega) hfs R prev s hne]
    · simp only [hl, Bool.false_eq_true, if_false]
      rw [readT_joinLines inner _ (by simp [setHead_ne_nil _ hne]), List.foldl_append,
        read_marked_pathLines inner fs width d (by omega) hfs R prev s hne]


/-! ### clause 6: the `+ Spec:` lines of a text are the lines of its rendered rows that have branches -/

/-- the `+ Spec:` texts of a text -/
def PLT (T : Str) : List Str := linesMap plusSpec T

theorem plusSpec_nil : plusSpec [] = none := by simp [plusSpec, gutter]

theorem gutter_tick_mark (d : Nat) (x : Str) : (gutter (indentOf d ++ tickOf d ++ x)).2 ≠ some '+' := by
  cases d with
  | zero => simp [indentOf, tickOf, gutter, List.takeWhile]
  | succ d =>
    have h1 : indentOf (d + 1) ++ tickOf (d + 1) ++ x = ' ' :: (List.replicate (d + 2) '|' ++ ' ' :: x) := by
      simp [indentOf, tickOf, List.replicate_succ']
    rw [h1]
    simp only [gutter, takeWhile_bars (d + 2) ' ' x (by decide), List.length_replicate, drop_bars]
    simp

/-- a mark written over a line nested at depth ≥ `d`: the line reads as depth `d` with that mark -/
theorem DeepAt_remark_gutter {d : Nat} {l : Str} (m : Char) (h : DeepAt d l) (hm : m = '\\' ∨ m = 'X') :
    (gutter (remark d l m)).2 = some m := by
  obtain ⟨c, x, rfl, _⟩ := h
  have hA : (' ' :: List.replicate d '|').length = d + 1 := by simp
  have hl : ' ' :: (List.replicate d '|' ++ c :: x) = (' ' :: List.replicate d '|') ++ c :: x := by simp
  have hr : remark d (' ' :: (List.replicate d '|' ++ c :: x)) m = ' ' :: (List.replicate d '|' ++ m :: x) := by
    unfold remark
    rw [hl, List.take_left' hA]
    have : ((' ' :: List.replicate d '|') ++ c :: x).drop (d + 2) = x := by
      have h2 : ((' ' :: List.replicate d '|') ++ [c]).length = d + 2 := by simp
      rw [show (' ' :: List.replicate d '|') ++ c :: x = ((' ' :: List.replicate d '|') ++ [c]) ++ x by simp,
        List.drop_left' h2]
    rw [this]
    simp
  rw [hr]
  have hmb : m ≠ '|' := by rcases hm with rfl | rfl <;> decide
  simp only [gutter, takeWhile_bars d m x hmb, List.length_replicate, drop_bars]
  rcases hm with rfl | rfl <;> simp

theorem PLT_joinLines (segs : List Str) : PLT (joinLines segs) = segs.flatMap PLT :=
  linesMap_joinLines plusSpec plusSpec_nil segs

/-- a mark on the first line of a piece of a branch text can only remove a `+ Spec:` line -/
theorem PLT_remark_subset (d : Nat) (m : Char) (s : Str) (hg : GPre (d + 3) s) (h : BranchText d s)
    (hm : m = '\\' ∨ m = 'X') : ∀ shown, shown ∈ PLT (remark d s m) → shown ∈ PLT s := by
  obtain ⟨g, x, rfl, hgut, hlen⟩ := hg
  have hmg : isGutterChar m = true := by rcases hm with rfl | rfl <;> decide
  obtain ⟨⟨hd0, tl0, hsp0, hdeep⟩, _⟩ := h
  cases hs : splitLines x with
  | nil => exact absurd hs (splitLines_ne_nil x)
  | cons hd' tl =>
    have hg' := Gut_remark d g m hgut hmg
    have hold := splitLines_prefix g x hd' tl (Gut_NoNL hgut) hs
    rw [hold] at hsp0
    simp only [List.cons.injEq] at hsp0
    obtain ⟨rfl, rfl⟩ := hsp0
    have hnew : splitLines (remark d (g ++ x) m) = remark d (g ++ hd') m :: tl := by
      rw [remark_prefix d g x m (by omega), remark_prefix d g hd' m (by omega)]
      exact splitLines_prefix _ x hd' tl (Gut_NoNL hg') hs
    intro shown hsh
    unfold PLT linesMap at hsh ⊢
    rw [hnew] at hsh
    rw [hold]
    have hnone : plusSpec (remark d (g ++ hd') m) = none := by
      unfold plusSpec
      rw [DeepAt_remark_gutter m hdeep hm]
      rcases hm with rfl | rfl <;> simp
    simp only [List.filterMap_cons, hnone] at hsh
    simp only [List.filterMap_cons]
    split
    · exact hsh
    · exact List.mem_cons_of_mem _ hsh

theorem PLT_targetLine (d w : Nat) (f : Frame) (h : NoNL f.target) :
    PLT (traceLine d w "Target".toList (tickOf d) f.target f.tlen) = [] := by
  unfold PLT linesMap
  rw [splitLines_noNL _ (NoNL_targetLine d w f h), traceLine_target]
  simp only [List.filterMap_cons, List.filterMap_nil, plusSpec]
  rw [afterLabel_gutter _ _ _ (Gut_append (Gut_indentOf d) (Gut_tickOf d)), afterLabel_spec_target]
  simp

theorem PLT_specLine_tick (d w : Nat) (f : Frame) (h : NoNL f.spec) :
    PLT (traceLine d w "Spec".toList (tickOf d) f.spec f.slen) = [] := by
  unfold PLT linesMap
  rw [splitLines_noNL _ (NoNL_specLine d w _ f (Or.inl rfl) h), traceLine_spec d w _ f (tickOf_length d)]
  simp only [List.filterMap_cons, List.filterMap_nil, plusSpec]
  have := gutter_tick_mark d ("Spec".toList ++ ": ".toList ++ specShown w f d)
  rw [beq_eq_false_iff_ne.mpr this]
  simp

theorem PLT_specLine_plus (d w : Nat) (f : Frame) (h : NoNL f.spec) :
    ∀ shown, shown ∈ PLT (traceLine d w "Spec".toList "+ ".toList f.spec f.slen) → shown = specShown w f d := by
  intro shown hsh
  unfold PLT linesMap at hsh
  rw [splitLines_noNL _ (NoNL_specLine d w _ f (Or.inr rfl) h), traceLine_spec d w _ f rfl] at hsh
  simp only [List.filterMap_cons, List.filterMap_nil, plusSpec] at hsh
  rw [afterLabel_gutter _ _ _ (Gut_append (Gut_indentOf d) Gut_plus), afterLabel_spec_self] at hsh
  by_cases hg : ((gutter (indentOf d ++ "+ ".toList ++ ("Spec".toList ++ ": ".toList ++ specShown w f d))).2 == some '+') = true
  · rw [if_pos hg] at hsh; simpa using hsh
  · rw [if_neg hg] at hsh; simp at hsh

theorem PLT_err (d : Nat) (e : Str) (he : ∀ l, l ∈ splitLines e → afterLabel "Spec".toList l = none) :
    PLT (indentOf d ++ tickOf d ++ e) = [] := by
  unfold PLT linesMap
  apply List.filterMap_eq_nil_iff.mpr
  intro l hl
  have hall : afterLabel "Spec".toList l = none := by
    cases hs : splitLines e with
    | nil => exact absurd hs (splitLines_ne_nil e)
    | cons hd' tl =>
      rw [splitLines_prefix _ e hd' tl (Gut_NoNL (Gut_append (Gut_indentOf d) (Gut_tickOf d))) hs] at hl
      rcases List.mem_cons.mp hl with hl | hl
      · subst hl
        rw [afterLabel_gutter _ _ _ (Gut_append (Gut_indentOf d) (Gut_tickOf d))]
        exact he hd' (by rw [hs]; simp)
      · exact he l (by rw [hs]; exact List.mem_cons_of_mem _ hl)
  unfold plusSpec
  rw [hall]; simp

theorem allSegs_PLT_mem (fs : Array Frame) (errText : Nat → Str) (rootError width depth : Nat) (lb : Bool)
    (recur : Nat → Option Nat → Bool → Str) (hfs : FramesOneLine fs) (herr : ErrLabelFree errText) :
    ∀ (rows : List Row) (prev : Option Nat) (seg shown : Str),
    seg ∈ allSegs fs errText rootError width depth lb recur rows prev → shown ∈ PLT seg →
    ∃ r, r ∈ rows ∧ ((r.branches ≠ [] ∧ ∃ f, fs[r.frame]? = some f ∧ shown = specShown width f depth) ∨
      (∃ b, b ∈ r.branches ∧ ∃ p l, shown ∈ PLT (recur b p l)))
  | [], _, seg, _, hs, _ => by simp [allSegs] at hs
  | r :: rest, prev, seg, shown, hs, hsh => by
    have ih := allSegs_PLT_mem fs errText rootError width depth lb recur hfs herr rest
    have lift : (∃ r', r' ∈ rest ∧ ((r'.branches ≠ [] ∧ ∃ f, fs[r'.frame]? = some f ∧ shown = specShown width f depth) ∨
        (∃ b, b ∈ r'.branches ∧ ∃ p l, shown ∈ PLT (recur b p l)))) →
        ∃ r', r' ∈ r :: rest ∧ ((r'.branches ≠ [] ∧ ∃ f, fs[r'.frame]? = some f ∧ shown = specShown width f depth) ∨
        (∃ b, b ∈ r'.branches ∧ ∃ p l, shown ∈ PLT (recur b p l))) :=
      fun ⟨r', h1, h2⟩ => ⟨r', List.mem_cons_of_mem _ h1, h2⟩
    simp only [allSegs] at hs
    cases hf : fs[r.frame]? with
    | none => rw [hf] at hs; exact lift (ih prev seg shown hs hsh)
    | some f =>
      rw [hf] at hs
      obtain ⟨hns, hnt⟩ := hfs _ f hf
      rcases List.mem_append.mp hs with h | h
      · refine ⟨r, by simp, ?_⟩
        simp only [rowSegs, List.mem_append] at h
        rcases h with (h | h) | h
        · exfalso
          split at h
          · simp only [List.mem_singleton] at h; subst h
            rw [PLT_targetLine depth width f hnt] at hsh; simp at hsh
          · simp at h
        · cases hb : r.branches.reverse with
          | nil =>
            exfalso
            rw [hb] at h
            simp only [List.mem_singleton] at h; subst h
            rw [PLT_specLine_tick depth width f hns] at hsh; simp at hsh
          | cons lastB revInit =>
            rw [hb] at h
            have hbs := branches_of_reverse hb
            have hbne : r.branches ≠ [] := by rw [hbs]; simp
            simp only [List.mem_append, List.mem_singleton, List.mem_map] at h
            rcases h with (h | ⟨b, hb', h⟩) | h
            · subst h
              exact Or.inl ⟨hbne, f, hf, PLT_specLine_plus depth width f hns shown hsh⟩
            · subst h; exact Or.inr ⟨b, by rw [hbs]; simp [hb'], _, _, hsh⟩
            · subst h; exact Or.inr ⟨lastB, by rw [hbs]; simp, _, _, hsh⟩
        · exfalso
          cases he : r.error with
          | none => rw [he] at h; exact absurd h (by simp)
          | some e =>
            rw [he] at h
            by_cases hne : (e != rootError) = true
            · simp only [hne, if_true, List.mem_singleton] at h; subst h
              rw [PLT_err depth _ (herr e)] at hsh; simp at hsh
            · simp [hne] at h
      · exact lift (ih (some f.tid) seg shown h hsh)

/-- **every `+ Spec:` line of a text is the line of a rendered row that has branches** -/
theorem PLT_mem_shown (fs : Array Frame) (errText : Nat → Str) (rootError width : Nat)
    (hfs : FramesOneLine fs) (herr : ErrQuiet errText) :
    ∀ (fuel h d : Nat) (prev : Option Nat) (lb : Bool), Renderable fs fuel h →
      ∀ shown, shown ∈ PLT (formatTrace fs errText rootError width fuel h d prev lb) →
      ∃ p, p ∈ shownRows fs fuel h d ∧ p.2.branches ≠ [] ∧ ∃ f, fs[p.2.frame]? = some f ∧ shown = specShown width f p.1
  | 0, _, _, _, _, hr, _, _ => by simp [Renderable] at hr
  | fuel + 1, h, d, prev, lb, hr, shown, hsh => by
    obtain ⟨hne, hrows⟩ := hr
    -- the piece the line is in, without its mark
    have hseg : ∃ seg, seg ∈ allSegs fs errText rootError width d lb
        (fun b p l => formatTrace fs errText rootError width fuel b (d + 1) p l) (unpack fs h) prev ∧ shown ∈ PLT seg := by
      rw [formatTrace_succ] at hsh
      simp only [] at hsh
      have hgp : ∀ s, s ∈ allSegs fs errText rootError width d lb
          (fun b p l => formatTrace fs errText rootError width fuel b (d + 1) p l) (unpack fs h) prev → GPre (d + 3) s := by
        apply allSegs_GPre
        intro r hr b hb p l
        exact GPre_mono (by omega) (formatTrace_GPre fs errText rootError width fuel b (d + 1) p l ((hrows r hr).2 b hb))
      by_cases hd0 : d = 0
      · subst hd0
        simp only [beq_self_eq_true, if_true] at hsh
        rw [PLT_joinLines] at hsh
        obtain ⟨seg, h1, h2⟩ := List.mem_flatMap.mp hsh
        exact ⟨seg, h1, h2⟩
      · have hdb : (d == 0) = false := by simp [hd0]
        simp only [hdb, Bool.false_eq_true, if_false] at hsh
        have hbt := allSegs_BranchText fs errText rootError width d lb
          (fun b p l => formatTrace fs errText rootError width fuel b (d + 1) p l) (by omega) hfs herr (unpack fs h) prev
          (fun r hr b hb p l => BranchText_mono
            (branch_text fs errText rootError width hfs herr fuel b (d + 1) p l ((hrows r hr).2 b hb) (by omega)))
        -- through `setHead` / `setLast`
        have hhead : ∀ s1, s1 ∈ setHead (allSegs fs errText rootError width d lb
            (fun b p l => formatTrace fs errText rootError width fuel b (d + 1) p l) (unpack fs h) prev)
            (fun s => remark d s '\\') → shown ∈ PLT s1 →
            ∃ seg, seg ∈ allSegs fs errText rootError width d lb
              (fun b p l => formatTrace fs errText rootError width fuel b (d + 1) p l) (unpack fs h) prev ∧ shown ∈ PLT seg := by
          intro s1 hs1 hin
          rcases mem_setHead _ _ hs1 with h' | ⟨s0, h0, rfl⟩
          · exact ⟨s1, h', hin⟩
          · exact ⟨s0, h0, PLT_remark_subset d '\\' s0 (hgp s0 h0) (hbt s0 h0) (Or.inl rfl) shown hin⟩
        split at hsh
        · rw [PLT_joinLines] at hsh
          obtain ⟨s2, h1, h2⟩ := List.mem_flatMap.mp hsh
          rcases mem_setLast _ _ h1 with h' | ⟨s1, h1', rfl⟩
          · exact hhead s2 h' h2
          · -- the `X` mark on a piece that may already carry the `\` mark
            rcases mem_setHead _ _ h1' with h'' | ⟨s0, h0, rfl⟩
            · exact ⟨s1, h'', PLT_remark_subset d 'X' s1 (hgp s1 h'') (hbt s1 h'') (Or.inr rfl) shown h2⟩
            · have hg1 := GPre_remark d '\\' (hgp s0 h0) (by omega) (by decide)
              have hb1 := BranchText_remark d '\\' s0 (hgp s0 h0) (hbt s0 h0) (Or.inl rfl)
              have := PLT_remark_subset d 'X' _ hg1 hb1 (Or.inr rfl) shown h2
              exact ⟨s0, h0, PLT_remark_subset d '\\' s0 (hgp s0 h0) (hbt s0 h0) (Or.inl rfl) shown this⟩
        · rw [PLT_joinLines] at hsh
          obtain ⟨s1, h1, h2⟩ := List.mem_flatMap.mp hsh
          exact hhead s1 h1 h2
    obtain ⟨seg, hsegm, hshseg⟩ := hseg
    obtain ⟨r, hrm, hcase⟩ := allSegs_PLT_mem fs errText rootError width d lb _ hfs herr.labelFree _ _ seg shown hsegm hshseg
    rcases hcase with ⟨hbne, f, hf, heq⟩ | ⟨b, hb, p, l, hin⟩
    · refine ⟨(d, r), ?_, hbne, f, hf, heq⟩
      rw [shownRows_succ]
      exact List.mem_flatMap.mpr ⟨r, hrm, by simp⟩
    · obtain ⟨q, hq, hqb, f, hf, heq⟩ := PLT_mem_shown fs errText rootError width hfs herr fuel b (d + 1) p l
        ((hrows r hrm).2 b hb) shown hin
      refine ⟨q, ?_, hqb, f, hf, heq⟩
      rw [shownRows_succ]
      exact List.mem_flatMap.mpr ⟨r, hrm, List.mem_cons_of_mem _ (List.mem_flatMap.mpr ⟨b, hb, hq⟩)⟩

end Glom.C05
