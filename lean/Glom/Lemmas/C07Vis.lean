import Glom.Spec.C07
import Glom.Lemmas.C08
import Glom.Lemmas.C07
/-
  C07 — the static visibility checker is sound for the model: the main induction (`interp_vis`) over the
  visibility fragment `vfragF`, with one lemma per loop.
-/
set_option linter.unusedSectionVars false
set_option linter.unusedSimpArgs false
namespace Glom.Interp
open ScopeAlg

/-- the scope shows what the static environment says -/
def Agree {σ : Type} [ScopeAlg σ] (sc : σ) (env : SEnv) : Prop :=
  ∀ k, match env.get k with
    | .known v => lookup sc k = some v
    | .unbound => lookup sc k = Option.none
    | .unknown => True

def ReadsIn (eqV : V → V → Bool) (W : List (Nat × SVal)) (evs : List Ev) : Prop :=
  ∀ r ∈ readsOf evs, ∃ w, (r.1, w) ∈ W ∧ readOK eqV w r.2 = true

theorem readsIn_nil (eqV) (W) : ReadsIn eqV W [] := by intro r hr; simp [readsOf] at hr

theorem readsIn_append {eqV W a b} (ha : ReadsIn eqV W a) (hb : ReadsIn eqV W b) : ReadsIn eqV W (a ++ b) := by
  intro r hr
  simp only [readsOf, List.filterMap_append, List.mem_append] at hr
  rcases hr with hr | hr
  · exact ha r hr
  · exact hb r hr

theorem readsIn_mono {eqV W W' evs} (h : ReadsIn eqV W evs) (hs : ∀ x ∈ W, x ∈ W') : ReadsIn eqV W' evs := by
  intro r hr
  obtain ⟨w, hw, hok⟩ := h r hr
  exact ⟨w, hs _ hw, hok⟩

theorem senv_get_cons (k0 : String) (v0 : SVal) (e : SEnv) (k : String) :
    SEnv.get ((k0, v0) :: e) k = if (k0 == k) = true then v0 else e.get k := by
  simp only [SEnv.get, List.find?_cons]
  cases (k0 == k) <;> simp

theorem senv_get_append (a b : SEnv) (k : String) :
    (a ++ b).get k = (match a.find? (·.1 == k) with | some (_, v) => v | Option.none => b.get k) := by
  simp only [SEnv.get, List.find?_append]
  cases a.find? (·.1 == k) <;> rfl

end Glom.Interp

namespace Glom.Interp
open ScopeAlg
section
variable {σ : Type} [ScopeAlg σ] [LawfulScope σ]

/-- what the evaluator must satisfy on the fragment (the claim of the main induction, for `rec`) -/
def RecVis (eqV : V → V → Bool) (rec : Rec σ) (fuel : Nat) : Prop :=
  ∀ (spec : Spec) (t : V) (sc : σ) (env : SEnv) (st : St), vfragF fuel spec = true →
    mode sc = .auto → argMode sc = false → Agree sc env →
    ∃ evs, (rec spec t sc st).1.log = st.log ++ evs ∧
      ReadsIn eqV (expectReads fuel .auto false env spec) evs ∧
      ∀ v c', (rec spec t sc st).2 = .ok (v, c') → Agree c' (exportsOf spec ++ env)

/-- expectation of a chain, recursively -/
def chainEx (fuel : Nat) : SEnv → List Spec → List (Nat × SVal)
  | _, [] => []
  | env, x :: xs => expectReads fuel .auto false env x ++ chainEx fuel (exportsOf x ++ env) xs

theorem chain_fold (fuel : Nat) : ∀ (xs : List Spec) (env : SEnv) (acc : List (Nat × SVal)),
    (xs.foldl (fun (a : SEnv × List (Nat × SVal)) x =>
      (exportsOf x ++ a.1, a.2 ++ expectReads fuel .auto false a.1 x)) (env, acc)).2 = acc ++ chainEx fuel env xs := by
  intro xs
  induction xs with
  | nil => intro env acc; simp [chainEx]
  | cons x xs ih => intro env acc; simp only [List.foldl_cons, ih, chainEx, List.append_assoc]

theorem agree_of_lookup_eq {sc sc' : σ} {env : SEnv} (h : Agree sc env) (he : ∀ k, lookup sc' k = lookup sc k) :
    Agree sc' env := by
  intro k
  have := h k
  cases hk : env.get k <;> simp only [hk] at this ⊢ <;> first | (rw [he]; exact this) | trivial

theorem tupleLoop_vis (eqV : V → V → Bool) (rec : Rec σ) (fuel : Nat) (hrec : RecVis eqV rec fuel) :
    ∀ (steps : List Spec) (env : SEnv) (res : V) (cur : σ) (last : Option σ) (st : St),
      steps.all (vfragF fuel) = true → mode cur = .auto → argMode cur = false →
      Agree (nextScope cur last) env →
      ∃ evs, (tupleLoop rec steps res cur last st).1.log = st.log ++ evs ∧
        ReadsIn eqV (chainEx fuel env steps) evs := by
  intro steps
  induction steps with
  | nil => intro env res cur last st _ _ _ _; exact ⟨[], by simp [tupleLoop, M.pure_apply], readsIn_nil _ _⟩
  | cons s rest ih =>
    intro env res cur last st hf hm ha hag
    simp only [List.all_cons, Bool.and_eq_true] at hf
    have hm' : mode (nextScope cur last) = .auto := by rw [nextScope_mode, hm]
    have ha' : argMode (nextScope cur last) = false := by rw [nextScope_argMode, ha]
    obtain ⟨evs1, hlog1, hr1, hexp⟩ := hrec s res (nextScope cur last) env st hf.1 hm' ha' hag
    simp only [tupleLoop, M.bind_apply]
    rcases hrun : rec s res (nextScope cur last) st with ⟨st1, r1⟩
    rw [hrun] at hlog1 hexp
    simp only at hlog1 hexp
    cases r1 with
    | error e =>
      exact ⟨evs1, hlog1, readsIn_mono hr1 (by intro x hx; simp [chainEx, hx])⟩
    | ok vc =>
      obtain ⟨v, c1⟩ := vc
      have hag1 : Agree (nextScope (nextScope cur last) (some c1)) (exportsOf s ++ env) := by
        apply agree_of_lookup_eq (hexp v c1 rfl)
        intro k; simp [nextScope, LawfulScope.lookup_chain]
      have hnext := fun res' => ih (exportsOf s ++ env) res' (nextScope cur last) (some c1) st1 hf.2 hm' ha' hag1
      have fin : ∀ res', ∃ evs, (tupleLoop rec rest res' (nextScope cur last) (some c1) st1).1.log = st.log ++ evs ∧
          ReadsIn eqV (chainEx fuel env (s :: rest)) evs := by
        intro res'
        obtain ⟨evs2, hlog2, hr2⟩ := hnext res'
        refine ⟨evs1 ++ evs2, by rw [hlog2, hlog1, List.append_assoc], ?_⟩
        apply readsIn_append
        · exact readsIn_mono hr1 (by intro x hx; simp [chainEx, hx])
        · exact readsIn_mono hr2 (by intro x hx; simp [chainEx, hx])
      cases v <;> first
        | exact fin _
        | exact ⟨evs1, by simpa [M.pure_apply] using hlog1, readsIn_mono hr1 (by intro x hx; simp [chainEx, hx])⟩

theorem dictLoop_vis (eqV : V → V → Bool) (p : Prims) (rec : Rec σ) (fuel : Nat) (hrec : RecVis eqV rec fuel)
    (t : V) (sc : σ) (env : SEnv) (hm : mode sc = .auto) (ha : argMode sc = false) (hag : Agree sc env) :
    ∀ (es : List (Spec × Spec)) (acc : List (V × V)) (st : St),
      es.all (fun e => e.1.isComputedKey == false && (reify e.1).isSome && vfragF fuel e.2) = true →
      ∃ evs, (dictLoop p rec t sc es acc st).1.log = st.log ++ evs ∧
        ReadsIn eqV (es.flatMap (fun e => expectReads fuel .auto false env e.2)) evs := by
  intro es
  induction es with
  | nil => intro acc st _; exact ⟨[], by simp [dictLoop, M.pure_apply], readsIn_nil _ _⟩
  | cons e rest ih =>
    obtain ⟨field, sub⟩ := e
    intro acc st hf
    simp only [List.all_cons, Bool.and_eq_true, beq_iff_eq] at hf
    obtain ⟨⟨⟨hck, hre⟩, hsub⟩, hrest⟩ := hf
    obtain ⟨evs1, hlog1, hr1, _⟩ := hrec sub t sc env st hsub hm ha hag
    simp only [dictLoop, M.bind_apply, hck]
    rcases hrun : rec sub t sc st with ⟨st1, r1⟩
    rw [hrun] at hlog1
    simp only at hlog1
    have hmono1 : ReadsIn eqV (((field, sub) :: rest).flatMap (fun e => expectReads fuel .auto false env e.2)) evs1 :=
      readsIn_mono hr1 (by intro x hx; simp [hx])
    cases r1 with
    | error e => exact ⟨evs1, hlog1, hmono1⟩
    | ok vc =>
      obtain ⟨v, c1⟩ := vc
      have fin : ∀ acc', ∃ evs, (dictLoop p rec t sc rest acc' st1).1.log = st.log ++ evs ∧
          ReadsIn eqV (((field, sub) :: rest).flatMap (fun e => expectReads fuel .auto false env e.2)) evs := by
        intro acc'
        obtain ⟨evs2, hlog2, hr2⟩ := ih acc' st1 (by simpa [Bool.and_eq_true, beq_iff_eq] using hrest)
        exact ⟨evs1 ++ evs2, by rw [hlog2, hlog1, List.append_assoc],
          readsIn_append hmono1 (readsIn_mono hr2 (by intro x hx; simp at hx ⊢; exact Or.inr hx))⟩
      obtain ⟨kv, hkv⟩ := Option.isSome_iff_exists.mp hre
      cases v <;> simp only [hkv, Bool.false_eq_true, if_false] <;> exact fin _

theorem listLoop_vis (eqV : V → V → Bool) (rec : Rec σ) (fuel : Nat) (hrec : RecVis eqV rec fuel)
    (sub : Spec) (hsub : vfragF fuel sub = true) (sc : σ) (env : SEnv) (hm : mode sc = .auto)
    (ha : argMode sc = false) (hag : Agree sc env) :
    ∀ (items acc : List V) (st : St),
      ∃ evs, (listLoop rec sub sc items acc st).1.log = st.log ++ evs ∧
        ReadsIn eqV (expectReads fuel .auto false env sub) evs := by
  intro items
  induction items with
  | nil => intro acc st; exact ⟨[], by simp [listLoop, M.pure_apply], readsIn_nil _ _⟩
  | cons x xs ih =>
    intro acc st
    obtain ⟨evs1, hlog1, hr1, _⟩ := hrec sub x sc env st hsub hm ha hag
    simp only [listLoop, M.bind_apply]
    rcases hrun : rec sub x sc st with ⟨st1, r1⟩
    rw [hrun] at hlog1
    simp only at hlog1
    cases r1 with
    | error e => exact ⟨evs1, hlog1, hr1⟩
    | ok vc =>
      obtain ⟨v, c1⟩ := vc
      have fin : ∀ acc', ∃ evs, (listLoop rec sub sc xs acc' st1).1.log = st.log ++ evs ∧
          ReadsIn eqV (expectReads fuel .auto false env sub) evs := by
        intro acc'
        obtain ⟨evs2, hlog2, hr2⟩ := ih acc' st1
        exact ⟨evs1 ++ evs2, by rw [hlog2, hlog1, List.append_assoc], readsIn_append hr1 hr2⟩
      cases v <;> first
        | exact fin _
        | exact ⟨evs1, by simpa [M.pure_apply] using hlog1, hr1⟩

theorem coalesceLoop_vis (eqV : V → V → Bool) (p : Prims) (rec : Rec σ) (fuel : Nat) (hrec : RecVis eqV rec fuel)
    (t : V) (sc : σ) (env : SEnv) (se : List String) (hm : mode sc = .auto) (ha : argMode sc = false)
    (hag : Agree sc env) :
    ∀ (subs : List Spec) (st : St), subs.all (vfragF fuel) = true →
      ∃ evs, (coalesceLoop p rec t sc .never se subs st).1.log = st.log ++ evs ∧
        ReadsIn eqV (subs.flatMap (expectReads fuel .auto false env)) evs := by
  intro subs
  induction subs with
  | nil => intro st _; exact ⟨[], by simp [coalesceLoop, M.pure_apply], readsIn_nil _ _⟩
  | cons s rest ih =>
    intro st hf
    simp only [List.all_cons, Bool.and_eq_true] at hf
    obtain ⟨evs1, hlog1, hr1, _⟩ := hrec s t sc env st hf.1 hm ha hag
    simp only [coalesceLoop, M.bind_apply, M.attempt]
    rcases hrun : rec s t sc st with ⟨st1, r1⟩
    rw [hrun] at hlog1
    simp only at hlog1
    have hmono1 : ReadsIn eqV ((s :: rest).flatMap (expectReads fuel .auto false env)) evs1 :=
      readsIn_mono hr1 (by intro x hx; simp [hx])
    have fin : ∃ evs, (coalesceLoop p rec t sc .never se rest st1).1.log = st.log ++ evs ∧
        ReadsIn eqV ((s :: rest).flatMap (expectReads fuel .auto false env)) evs := by
      obtain ⟨evs2, hlog2, hr2⟩ := ih st1 hf.2
      exact ⟨evs1 ++ evs2, by rw [hlog2, hlog1, List.append_assoc],
        readsIn_append hmono1 (readsIn_mono hr2 (by intro x hx; simp at hx ⊢; exact Or.inr hx))⟩
    cases r1 with
    | error e =>
      simp only
      split
      · exact fin
      · exact ⟨evs1, by simpa [M.throw] using hlog1, hmono1⟩
    | ok vc =>
      simp only [skipFunc, M.pure_apply]
      exact ⟨evs1, hlog1, hmono1⟩

theorem switchLoop_vis (eqV : V → V → Bool) (p : Prims) (rec : Rec σ) (fuel : Nat) (hrec : RecVis eqV rec fuel)
    (t : V) (sc : σ) (env : SEnv) (hm : mode sc = .auto) (ha : argMode sc = false) (hag : Agree sc env) :
    ∀ (cases : List (Spec × Spec)) (st : St), cases.all (fun e => vfragF fuel e.1 && vfragF fuel e.2) = true →
      ∃ evs, (switchLoop p rec t sc cases st).1.log = st.log ++ evs ∧
        ReadsIn eqV (cases.flatMap (fun e => expectReads fuel .auto false env e.1 ++
          expectReads fuel .auto false (exportsOf e.1 ++ env) e.2)) evs := by
  intro cs
  induction cs with
  | nil => intro st _; exact ⟨[], by simp [switchLoop, M.pure_apply], readsIn_nil _ _⟩
  | cons e rest ih =>
    obtain ⟨ks, vs⟩ := e
    intro st hf
    simp only [List.all_cons, Bool.and_eq_true] at hf
    obtain ⟨⟨hk, hv⟩, hrest⟩ := hf
    obtain ⟨evs1, hlog1, hr1, hexp⟩ := hrec ks t sc env st hk hm ha hag
    simp only [switchLoop, M.bind_apply, M.attempt]
    rcases hrun : rec ks t sc st with ⟨st1, r1⟩
    rw [hrun] at hlog1 hexp
    simp only at hlog1 hexp
    have hmono1 : ReadsIn eqV (((ks, vs) :: rest).flatMap (fun e => expectReads fuel .auto false env e.1 ++
        expectReads fuel .auto false (exportsOf e.1 ++ env) e.2)) evs1 :=
      readsIn_mono hr1 (by intro x hx; simp [hx])
    cases r1 with
    | error e =>
      simp only
      split
      · obtain ⟨evs2, hlog2, hr2⟩ := ih st1 (by simpa [Bool.and_eq_true] using hrest)
        exact ⟨evs1 ++ evs2, by rw [hlog2, hlog1, List.append_assoc],
          readsIn_append hmono1 (readsIn_mono hr2 (by
            intro x hx
            simp only [List.flatMap_cons, List.mem_append]
            exact Or.inr hx))⟩
      · exact ⟨evs1, by simpa [M.throw] using hlog1, hmono1⟩
    | ok kc =>
      obtain ⟨kv, c1⟩ := kc
      have hagv : Agree (chain sc c1) (exportsOf ks ++ env) :=
        agree_of_lookup_eq (hexp kv c1 rfl) (fun k => LawfulScope.lookup_chain ..)
      obtain ⟨evs2, hlog2, hr2, _⟩ := hrec vs t (chain sc c1) (exportsOf ks ++ env) st1 hv
        (by rw [LawfulScope.mode_chain, hm]) (by rw [LawfulScope.argMode_chain, ha]) hagv
      simp only [M.bind_apply]
      rcases hrun2 : rec vs t (chain sc c1) st1 with ⟨st2, r2⟩
      rw [hrun2] at hlog2
      simp only at hlog2
      refine ⟨evs1 ++ evs2, ?_, readsIn_append hmono1 (readsIn_mono hr2 (by intro x hx; simp [hx]))⟩
      cases r2 <;> simp [M.pure_apply, hlog2, hlog1, List.append_assoc]

/-! ### `S(k=<literal>)`: the values are the literals of the spec -/

theorem argVal_literal (p : Prims) (fuel : Nat) (s : Spec) (v : V) (hl : argLiteral s = .known v) (t : V) (sc : σ)
    (st : St) : argVal (interp p (fuel + 1)) t s sc st = (st, .ok v) := by
  cases s <;> simp only [argLiteral] at hl <;> (try cases hl) <;>
    simp [argVal, interp, Spec.isSpecLike, LawfulScope.argMode_child, LawfulScope.argMode_setArgMode,
      argModeFn, reify, glomit, M.bind_apply, M.pure_apply]

theorem kwLoop_literal (p : Prims) (fuel : Nat) (t : V) (sc : σ) :
    ∀ (bs : List (String × Spec)) (acc : List (String × V)) (st : St),
      bs.all (fun b => match argLiteral b.2 with | .known _ => true | _ => false) = true →
      ∃ kvs, kwLoop (fun s t c => do let v ← argVal (interp p (fuel + 1)) t s c; pure (v, c)) t sc bs acc st =
          (st, .ok (acc ++ kvs)) ∧
        kvs.map (fun kv => (kv.1, SVal.known kv.2)) = bs.map (fun b => (b.1, argLiteral b.2)) := by
  intro bs
  induction bs with
  | nil => intro acc st _; exact ⟨[], by simp [kwLoop, M.pure_apply], rfl⟩
  | cons b rest ih =>
    obtain ⟨k, s⟩ := b
    intro acc st hf
    simp only [List.all_cons, Bool.and_eq_true] at hf
    cases hl : argLiteral s with
    | known v =>
      obtain ⟨kvs, hrun, hmap⟩ := ih (acc ++ [(k, v)]) st hf.2
      refine ⟨(k, v) :: kvs, ?_, by simp [hmap, hl]⟩
      simp only [kwLoop, M.bind_apply, argVal_literal p fuel s v hl, M.pure_apply, hrun]
      simp
    | unbound => simp [hl] at hf
    | unknown => simp [hl] at hf

theorem agree_foldl_bind (sc : σ) (env : SEnv) (hag : Agree sc env) :
    ∀ (kvs : List (String × V)) (done : SEnv) (c : σ), Agree c (done ++ env) →
      Agree (kvs.foldl (fun c kv => bind c kv.1 kv.2) c)
        ((kvs.map (fun kv => (kv.1, SVal.known kv.2))).reverse ++ (done ++ env)) := by
  intro kvs
  induction kvs with
  | nil => intro done c h; simpa using h
  | cons kv rest ih =>
    intro done c h
    simp only [List.foldl_cons, List.map_cons, List.reverse_cons, List.append_assoc]
    have h1 : Agree (bind c kv.1 kv.2) (((kv.1, SVal.known kv.2) :: done) ++ env) := by
      intro k
      rw [List.cons_append, senv_get_cons]
      by_cases hk : kv.1 = k
      · subst hk; simp [LawfulScope.lookup_bind]
      · have hk' : (kv.1 == k) = false := by simpa using hk
        simp only [hk', Bool.false_eq_true, if_false]
        have := h k
        cases hg : (done ++ env).get k <;> simp only [hg] at this ⊢ <;>
          first | (rw [LawfulScope.lookup_bind]; simp [Ne.symm hk, this]) | trivial
    have := ih ((kv.1, SVal.known kv.2) :: done) (bind c kv.1 kv.2) h1
    simpa [List.append_assoc] using this

theorem expect_literal_key (fuel : Nat) (m : Mode) (a : Bool) (env : SEnv) (k : Spec) (h : (reify k).isSome = true) :
    expectReads fuel m a env k = [] := by
  cases fuel with
  | zero => rfl
  | succ f => cases k <;> simp_all [reify, expectReads]

theorem agree_child_arg {sc : σ} {env : SEnv} (h : Agree sc env) : Agree (setArgMode (child sc) false) env :=
  agree_of_lookup_eq h (fun k => by rw [LawfulScope.lookup_setArgMode, LawfulScope.lookup_child])

theorem agree_child {sc : σ} {env : SEnv} (h : Agree sc env) : Agree (child sc) env :=
  agree_of_lookup_eq h (fun k => LawfulScope.lookup_child ..)

theorem interp_speclike (p : Prims) (fuel : Nat) (spec : Spec) (t : V) (sc : σ) (h : spec.isSpecLike = true) :
    interp p (fuel + 1) spec t sc = glomit p (interp p fuel) spec t (setArgMode (child sc) false) := by
  simp only [interp, h, if_true]

theorem interp_plain_auto (p : Prims) (fuel : Nat) (spec : Spec) (t : V) (sc : σ) (h : spec.isSpecLike = false)
    (hm : mode sc = .auto) (ha : argMode sc = false) :
    interp p (fuel + 1) spec t sc = (autoFn p (interp p fuel) spec t (child sc) >>= fun v => pure (v, child sc)) := by
  simp only [interp, h, Bool.false_eq_true, if_false, LawfulScope.argMode_child, LawfulScope.mode_child, hm, ha]

/-- a computation followed by a pure repackaging: same state, and an ok result comes from an ok result -/
theorem bind_pure_fst {α β} (m : M α) (g : α → β) (st : St) : ((m >>= fun a => pure (g a)) st).1 = (m st).1 := by
  rw [M.bind_apply]; rcases m st with ⟨s1, r⟩; cases r <;> rfl

theorem bind_pure_ok {α β} (m : M α) (g : α → β) (st : St) (b : β)
    (h : ((m >>= fun a => pure (g a)) st).2 = .ok b) : ∃ a, (m st).2 = .ok a ∧ g a = b := by
  rw [M.bind_apply] at h
  rcases hm : m st with ⟨s1, r⟩
  rw [hm] at h
  cases r with
  | error e => simp at h
  | ok a => exact ⟨a, rfl, by simpa [M.pure_apply] using h⟩

/-- the conclusion of `RecVis` for one evaluation `x` that ends in the scope `c0` whenever it succeeds -/
theorem vis_wrap (eqV : V → V → Bool) {α : Type} (m : M α) (g : α → V) (c0 : σ) (st : St) (W : List (Nat × SVal))
    (env' : SEnv) (hc : Agree c0 env')
    (h : ∃ evs, (m st).1.log = st.log ++ evs ∧ ReadsIn eqV W evs) :
    ∃ evs, ((m >>= fun a => pure (g a, c0)) st).1.log = st.log ++ evs ∧ ReadsIn eqV W evs ∧
      ∀ v c', ((m >>= fun a => pure (g a, c0)) st).2 = .ok (v, c') → Agree c' env' := by
  obtain ⟨evs, hlog, hr⟩ := h
  refine ⟨evs, by rw [bind_pure_fst]; exact hlog, hr, ?_⟩
  intro v c' hok
  obtain ⟨a, _, hg⟩ := bind_pure_ok m (fun a => (g a, c0)) st (v, c') hok
  have : c0 = c' := by simpa using congrArg Prod.snd hg
  rw [← this]; exact hc

/-- **main induction**: on the visibility fragment the interpreter's read events are the statically
    expected ones, and a step leaves to the next link exactly the bindings `exportsOf` lists -/
theorem interp_vis (eqV : V → V → Bool) (heq : ∀ v, eqV v v = true) (p : Prims) (hT : ∀ v, p.tEval [] v = .ok v) :
    ∀ fuel, RecVis (σ := σ) eqV (interp p fuel) fuel := by
  intro fuel
  induction fuel with
  | zero => intro spec t sc env st hf; simp [vfragF] at hf
  | succ fuel ih =>
    intro spec t sc env st hf hm ha hag
    have hm1 : mode (setArgMode (child sc) false) = .auto := by rw [LawfulScope.mode_setArgMode, LawfulScope.mode_child, hm]
    have ha1 : argMode (setArgMode (child sc) false) = false := LawfulScope.argMode_setArgMode ..
    have hag1 := agree_child_arg hag
    have hmo : mode (child sc) = .auto := by rw [LawfulScope.mode_child, hm]
    have hao : argMode (child sc) = false := by rw [LawfulScope.argMode_child, ha]
    have hago := agree_child hag
    cases spec with
    | val v =>
      rw [interp_speclike p fuel _ t sc rfl]
      exact ⟨[], by simp [glomit, M.pure_apply], readsIn_nil _ _, by
        intro v' c' h; simp [glomit, M.pure_apply] at h; rw [← h.2]; simpa [exportsOf] using hag1⟩
    | t steps =>
      rw [interp_speclike p fuel _ t sc rfl]
      have := vis_wrap eqV (M.lift (p.tEval steps t)) id (setArgMode (child sc) false) st
        (expectReads (fuel + 1) .auto false env (.t steps)) (exportsOf (.t steps) ++ env) (by simpa [exportsOf] using hag1)
        ⟨[], by simp [M.lift], readsIn_nil _ _⟩
      simpa [glomit] using this
    | aBind k =>
      rw [interp_speclike p fuel _ t sc rfl]
      refine ⟨[], by simp [glomit, M.pure_apply], readsIn_nil _ _, ?_⟩
      intro v' c' h
      simp [glomit, M.pure_apply] at h
      rw [← h.2]
      intro k'
      simp only [exportsOf, List.singleton_append, senv_get_cons]
      by_cases hk : k = k'
      · subst hk; simp
      · have hk' : (k == k') = false := by simpa using hk
        simp only [hk', Bool.false_eq_true, if_false]
        have := hag1 k'
        cases hg : env.get k' <;> simp only [hg] at this ⊢ <;>
          first | (rw [LawfulScope.lookup_bind]; simp [Ne.symm hk, this]) | trivial
    | rprobe id inner =>
      cases inner with
      | sRead name steps =>
        cases steps with
        | cons a b => simp [vfragF] at hf
        | nil =>
          simp only [vfragF, decide_eq_true_eq] at hf
          rw [interp_speclike p fuel _ t sc rfl]
          obtain ⟨f', rfl⟩ : ∃ k, fuel = k + 1 := ⟨fuel - 1, by omega⟩
          have hlk : lookup (setArgMode (child (setArgMode (child sc) false)) false) name = lookup sc name := by
            rw [LawfulScope.lookup_setArgMode, LawfulScope.lookup_child, LawfulScope.lookup_setArgMode,
              LawfulScope.lookup_child]
          have hwant : (id, env.get name) ∈ expectReads (f' + 1 + 1) .auto false env (.rprobe id (.sRead name [])) := by
            simp [expectReads]
          have hagn := hag name
          have hinner : interp p (f' + 1) (.sRead name []) t (setArgMode (child sc) false) =
              glomit p (interp p f') (.sRead name []) t (setArgMode (child (setArgMode (child sc) false)) false) :=
            interp_speclike p f' _ t _ rfl
          cases hl : lookup sc name with
          | none =>
            refine ⟨[.read id (.error ⟨"PathAccessError"⟩)], ?_, ?_, ?_⟩
            · simp [glomit, hinner, M.bind_apply, M.attempt, hlk, hl, M.fail, M.throw, M.logEv]
            · intro r hr
              simp only [readsOf, List.filterMap_cons, List.filterMap_nil, List.mem_singleton] at hr
              subst hr
              refine ⟨env.get name, hwant, ?_⟩
              cases hg : env.get name <;> simp only [hg] at hagn <;> simp_all [readOK]
            · intro v' c' h
              simp [glomit, hinner, M.bind_apply, M.attempt, hlk, hl, M.fail, M.throw, M.logEv] at h
          | some v =>
            refine ⟨[.read id (.ok v)], ?_, ?_, ?_⟩
            · simp [glomit, hinner, M.bind_apply, M.attempt, hlk, hl, M.lift, hT, M.pure_apply, M.logEv]
            · intro r hr
              simp only [readsOf, List.filterMap_cons, List.filterMap_nil, List.mem_singleton] at hr
              subst hr
              refine ⟨env.get name, hwant, ?_⟩
              cases hg : env.get name <;> simp only [hg] at hagn <;> simp_all [readOK]
            · intro v' c' h
              simp [glomit, hinner, M.bind_apply, M.attempt, hlk, hl, M.lift, hT, M.pure_apply, M.logEv] at h
              rw [← h.2]; simpa [exportsOf] using hag1
      | _ => simp [vfragF] at hf
    | tuple xs =>
      simp only [vfragF] at hf
      rw [interp_plain_auto p fuel _ t sc rfl hm ha]
      have hW : expectReads (fuel + 1) .auto false env (.tuple xs) = chainEx fuel env xs := by
        simp [expectReads, chain_fold]
      rw [hW]
      exact vis_wrap eqV (autoFn p (interp p fuel) (.tuple xs) t (child sc)) id (child sc) st _ _
        (by simpa [exportsOf] using hago)
        (tupleLoop_vis eqV (interp p fuel) fuel ih xs env t (child sc) Option.none st hf hmo hao
          (by simpa [nextScope] using hago))
    | pipe xs =>
      simp only [vfragF] at hf
      rw [interp_speclike p fuel _ t sc rfl]
      have hW : expectReads (fuel + 1) .auto false env (.pipe xs) = chainEx fuel env xs := by
        simp [expectReads, chain_fold]
      rw [hW]
      have := vis_wrap eqV (tupleLoop (interp p fuel) xs t (setArgMode (child sc) false) Option.none) id
        (setArgMode (child sc) false) st _ (exportsOf (.pipe xs) ++ env) (by simpa [exportsOf] using hag1)
        (tupleLoop_vis eqV (interp p fuel) fuel ih xs env t (setArgMode (child sc) false) Option.none st hf hm1 ha1
          (by simpa [nextScope] using hag1))
      simpa [glomit] using this
    | dict o es =>
      simp only [vfragF] at hf
      rw [interp_plain_auto p fuel _ t sc rfl hm ha]
      obtain ⟨evs, hlog, hr⟩ := dictLoop_vis eqV p (interp p fuel) fuel ih t (child sc) env hmo hao hago es [] st hf
      have hr' : ReadsIn eqV (expectReads (fuel + 1) .auto false env (.dict o es)) evs := by
        apply readsIn_mono hr
        intro x hx
        have hmm : (Mode.auto == Mode.mtch) = false := rfl
        simp only [expectReads, Bool.not_false, Bool.true_and, hmm, Bool.false_eq_true, if_false, List.mem_flatMap] at hx ⊢
        obtain ⟨e, he, hxe⟩ := hx
        exact ⟨e, he, List.mem_append_right _ hxe⟩
      have := vis_wrap eqV (dictLoop p (interp p fuel) t (child sc) es []) (fun kvs => V.dict o kvs) (child sc) st _
        (exportsOf (.dict o es) ++ env) (by simpa [exportsOf] using hago) ⟨evs, hlog, hr'⟩
      simpa [autoFn] using this
    | list xs =>
      cases xs with
      | nil => simp [vfragF] at hf
      | cons sub rest =>
        simp only [vfragF] at hf
        rw [interp_plain_auto p fuel _ t sc rfl hm ha]
        cases hit : p.iterate t with
        | error e =>
          refine ⟨[], by simp [autoFn, M.bind_apply, M.lift, hit], readsIn_nil _ _, ?_⟩
          intro v' c' h
          simp [autoFn, M.bind_apply, M.lift, hit] at h
        | ok items =>
          obtain ⟨evs, hlog, hr⟩ := listLoop_vis eqV (interp p fuel) fuel ih sub hf (child sc) env hmo hao hago items [] st
          have hr' : ReadsIn eqV (expectReads (fuel + 1) .auto false env (.list (sub :: rest))) evs :=
            readsIn_mono hr (by intro x hx; simp [expectReads, hx])
          have := vis_wrap eqV (listLoop (interp p fuel) sub (child sc) items []) (fun vs => V.list vs) (child sc) st _
            (exportsOf (.list (sub :: rest)) ++ env) (by simpa [exportsOf] using hago) ⟨evs, hlog, hr'⟩
          have e : (autoFn p (interp p fuel) (.list (sub :: rest)) t (child sc) >>= fun v => pure (v, child sc)) =
              (listLoop (interp p fuel) sub (child sc) items [] >>= fun vs => pure (V.list vs, child sc)) := by
            apply M.ext; intro s0
            simp only [autoFn, M.bind_apply, M.lift, hit]
            rcases listLoop (interp p fuel) sub (child sc) items [] s0 with ⟨s1, r1⟩
            cases r1 <;> rfl
          rw [e]; exact this
    | sBind bs =>
      simp only [vfragF, Bool.and_eq_true, decide_eq_true_eq] at hf
      rw [interp_speclike p fuel _ t sc rfl]
      obtain ⟨f', rfl⟩ : ∃ k, fuel = k + 1 := ⟨fuel - 1, by omega⟩
      obtain ⟨kvs, hrun, hmap⟩ := kwLoop_literal p f' t (setArgMode (child sc) false) bs [] st hf.2
      refine ⟨[], by simp [glomit, M.bind_apply, hrun, M.pure_apply], readsIn_nil _ _, ?_⟩
      intro v' c' h
      simp [glomit, M.bind_apply, hrun, M.pure_apply] at h
      rw [← h.2]
      have := agree_foldl_bind (setArgMode (child sc) false) env hag1 kvs [] (setArgMode (child sc) false) (by simpa using hag1)
      simpa [exportsOf, hmap] using this
    | specW x bindings =>
      simp only [vfragF] at hf
      rw [interp_speclike p fuel _ t sc rfl]
      have hagb := agree_foldl_bind (setArgMode (child sc) false) env hag1 bindings [] (setArgMode (child sc) false)
        (by simpa using hag1)
      simp only [List.nil_append] at hagb
      have hmb : ∀ (l : List (String × V)) (c : σ), mode c = .auto → mode (l.foldl (fun c kv => bind c kv.1 kv.2) c) = .auto := by
        intro l; induction l with
        | nil => intro c h; exact h
        | cons a r ihl => intro c h; exact ihl _ (by rw [LawfulScope.mode_bind]; exact h)
      have hab : ∀ (l : List (String × V)) (c : σ), argMode c = false → argMode (l.foldl (fun c kv => bind c kv.1 kv.2) c) = false := by
        intro l; induction l with
        | nil => intro c h; exact h
        | cons a r ihl => intro c h; exact ihl _ (by rw [LawfulScope.argMode_bind]; exact h)
      obtain ⟨evs, hlog, hr, _⟩ := ih x t _ _ st hf (hmb bindings _ hm1) (hab bindings _ ha1) hagb
      have := vis_wrap eqV (interp p fuel x t (bindings.foldl (fun c kv => bind c kv.1 kv.2) (setArgMode (child sc) false)))
        (fun r => r.1) (bindings.foldl (fun c kv => bind c kv.1 kv.2) (setArgMode (child sc) false)) st
        (expectReads (fuel + 1) .auto false env (.specW x bindings)) (exportsOf (.specW x bindings) ++ env)
        (by simpa [exportsOf] using hagb) ⟨evs, hlog, by simpa [expectReads] using hr⟩
      simpa [glomit] using this
    | coalesce subs d fac sk se =>
      cases d with
      | some _ => simp [vfragF] at hf
      | none =>
        cases fac with
        | some _ => simp [vfragF] at hf
        | none =>
          cases sk with
          | never =>
            simp only [vfragF] at hf
            rw [interp_speclike p fuel _ t sc rfl]
            obtain ⟨evs, hlog, hr⟩ := coalesceLoop_vis eqV p (interp p fuel) fuel ih t (setArgMode (child sc) false) env se
              hm1 ha1 hag1 subs st hf
            refine ⟨evs, ?_, by simpa [expectReads, optList] using hr, ?_⟩
            · simp only [glomit, M.bind_apply]
              rcases hrun : coalesceLoop p (interp p fuel) t (setArgMode (child sc) false) .never se subs st with ⟨st1, r1⟩
              rw [hrun] at hlog
              cases r1 with
              | error e => simpa using hlog
              | ok o => cases o <;> simpa [M.pure_apply, M.fail, M.throw] using hlog
            · intro v' c' h
              simp only [glomit, M.bind_apply] at h
              rcases hrun : coalesceLoop p (interp p fuel) t (setArgMode (child sc) false) .never se subs st with ⟨st1, r1⟩
              rw [hrun] at h
              cases r1 with
              | error e => simp at h
              | ok o =>
                cases o with
                | none => simp [M.fail, M.throw] at h
                | some w => simp [M.pure_apply] at h; rw [← h.2]; simpa [exportsOf] using hag1
          | _ => simp [vfragF] at hf
    | switch cases d =>
      cases d with
      | some _ => simp [vfragF] at hf
      | none =>
        simp only [vfragF] at hf
        rw [interp_speclike p fuel _ t sc rfl]
        obtain ⟨evs, hlog, hr⟩ := switchLoop_vis eqV p (interp p fuel) fuel ih t (setArgMode (child sc) false) env
          hm1 ha1 hag1 cases st hf
        refine ⟨evs, ?_, by simpa [expectReads, optList] using hr, ?_⟩
        · simp only [glomit, M.bind_apply]
          rcases hrun : switchLoop p (interp p fuel) t (setArgMode (child sc) false) cases st with ⟨st1, r1⟩
          rw [hrun] at hlog
          cases r1 with
          | error e => simpa using hlog
          | ok o => cases o <;> simpa [M.pure_apply, M.fail, M.throw] using hlog
        · intro v' c' h
          simp only [glomit, M.bind_apply] at h
          rcases hrun : switchLoop p (interp p fuel) t (setArgMode (child sc) false) cases st with ⟨st1, r1⟩
          rw [hrun] at h
          cases r1 with
          | error e => simp at h
          | ok o =>
            cases o with
            | none => simp [M.fail, M.throw] at h
            | some w => simp [M.pure_apply] at h; rw [← h.2]; simpa [exportsOf] using hag1
    | _ => simp [vfragF] at hf

end
end Glom.Interp
