import Glom.Lemmas.C05Walk
/-
  C05 — the frame store after the events of an evaluation tree (closed form, by induction over
  the tree).
-/
namespace Glom.C05

/-- what the sub-evaluations `K` do to the frame of the call that makes them -/
def pUpd (prev : Option Nat) (h n : Nat) (K : Kids) (f : Frame) : Frame :=
  { f with lastChild := (lastHead prev n K).or f.lastChild,
           childErrors := f.childErrors ++ failedHeads h prev n K }

/-- what chained sub-evaluations `K` do to the frames `seg` of the chain they continue -/
def chainUpd (p : Nat) (seg : List Nat) (n : Nat) (K : Kids) (j : Nat) (f : Frame) : Frame :=
  if some j = seg.head? then
    { (match segRes K with | some e => walkUpd e p seg j f | none => f) with
      noPy := true, lastChild := some n, childErrors := if (segRes K).isSome then [n] else [] }
  else (match segRes K with | some e => walkUpd e p seg j f | none => f)

def oldUpd (p : Nat) (seg : List Nat) (n : Nat) (K : Kids) (j : Nat) (f : Frame) : Frame :=
  if j = p then pUpd seg.head? (seg.getLastD 0) n K f
  else if K.startsChained then chainUpd p seg n K j f
  else f

theorem below_eq_none (p : Nat) : ∀ seg j, j ≠ p → j ∉ seg → below p seg j = none
  | [], _, _, _ => rfl
  | [h], j, hp, _ => by simp [below, hp]
  | x :: y :: r, j, hp, hj => by
    simp only [below]
    have : j ≠ y := fun h => hj (by simp [h])
    rw [if_neg this]
    exact below_eq_none p (y :: r) j hp (fun hm => hj (List.mem_cons_of_mem _ hm))

theorem below_p (p : Nat) (fs : Array Frame) : ∀ seg, SegInv fs p seg → below p seg p = seg.getLast?
  | [], _ => rfl
  | [h], _ => by simp [below]
  | x :: y :: r, hs => by
    have hy : p < y := SegInv_lt fs p (y :: r) hs.2.2.2 y (by simp)
    simp only [below]
    rw [if_neg (by omega), below_p p fs (y :: r) hs.2.2.2]
    simp [List.getLast?_cons_cons]

theorem walkUpd_other (e p : Nat) (seg : List Nat) (j : Nat) (f : Frame) (hp : j ≠ p) (hj : j ∉ seg) :
    walkUpd e p seg j f = f := by
  simp [walkUpd, below_eq_none p seg j hp hj, hj]

theorem map_id' (o : Option Frame) (g : Frame → Frame) (h : ∀ f, g f = f) : o.map g = o := by
  cases o <;> simp [h]

theorem upOf_of_map (fs fs' : Array Frame) (j : Nat) (g : Frame → Frame) (h : fs'[j]? = fs[j]?.map g)
    (hg : ∀ f, (g f).up = f.up) : upOf fs' j = upOf fs j := by
  simp only [upOf, h]; cases fs[j]? <;> simp [hg]

theorem noPyOf_of_map (fs fs' : Array Frame) (j : Nat) (g : Frame → Frame) (h : fs'[j]? = fs[j]?.map g)
    (hg : ∀ f, (g f).noPy = f.noPy) : noPyOf fs' j = noPyOf fs j := by
  simp only [noPyOf, h]; cases fs[j]? <;> simp [hg]

theorem runKids_nil (p : Nat) (seg : List Nat) (n : Nat) (s : RState) (hsz : s.frames.size = n) :
    ∀ j, s.frames[j]? = if n ≤ j then frameAt p seg.head? n .nil j else s.frames[j]?.map (oldUpd p seg n .nil j) := by
  intro j
  split
  · simp only [frameAt]
    apply Array.getElem?_eq_none; omega
  · symm
    apply map_id'
    intro f
    simp [oldUpd, pUpd, lastHead, failedHeads, Kids.startsChained]


theorem failedHeads_none (h h' n : Nat) (K : Kids) : failedHeads h none n K = failedHeads h' none n K := by
  cases K <;> simp [failedHeads]

theorem SegInv_length (fs : Array Frame) (p : Nat) : ∀ x seg, SegInv fs p (x :: seg) → seg.length ≤ x
  | _, [], _ => by simp
  | x, y :: r, hs => by
    have := SegInv_length fs p y r hs.2.2.2
    have := hs.2.2.1
    simp; omega

/-- the new frame of a sub-evaluation when it has returned / raised (before any later chained step) -/
def ownFrame (par n : Nat) (i : Info) (ks : Kids) (res : Option Nat) : Frame :=
  { spec := i.spec, target := i.target, tid := i.tid, tlen := i.tlen, slen := i.slen, up := par,
    lastChild := lastHead none (n + 1) ks, childErrors := failedHeads n none (n + 1) ks,
    curError := res, noPy := false }

/-- the state after entering a sub-evaluation and running its own sub-evaluations -/
theorem kid_s2 (ch : Bool) (i : Info) (ks : Kids) (p : Nat) (seg : List Nat) (n : Nat) (s : RState)
    (par : Nat) (hpar : par < n)
    (hsz : s.frames.size = n)
    (s2 : RState)
    (hks : s2.stack = n :: s.stack ∧ s2.frames.size = n + 1 + ks.size ∧
      ∀ j, s2.frames[j]? = if n + 1 ≤ j then frameAt n none (n + 1) ks j
        else (step s (.enter par ch i.spec i.target i.tid i.tlen i.slen)).frames[j]?.map (oldUpd n [] (n + 1) ks j))
    (hks0 : ks.startsChained = false) :
    ∀ j, s2.frames[j]? =
      if j = n then some (ownFrame par n i ks none)
      else if n < j then frameAt n none (n + 1) ks j
      else if j = par then s.frames[j]?.map (enterUpd ch n)
      else s.frames[j]? := by
  intro j
  rw [hks.2.2 j, step_enter_frames s par ch _ _ _ _ _ (by omega) j, hsz]
  by_cases h1 : j = n
  · subst h1
    simp only [if_true, if_neg (by omega : ¬ j + 1 ≤ j), Option.map_some]
    simp [oldUpd, pUpd, ownFrame, failedHeads_none 0 j]
  · by_cases h2 : n < j
    · simp [h1, h2, (by omega : n + 1 ≤ j)]
    · simp only [if_neg h1, if_neg h2, if_neg (by omega : ¬ n + 1 ≤ j)]
      have hid : ∀ f, oldUpd n [] (n + 1) ks j f = f := by
        intro f; simp [oldUpd, h1, hks0]
      by_cases h3 : j = par
      · simp only [if_pos h3]
        rw [map_id' _ _ hid]
      · simp only [if_neg h3]
        rw [map_id' _ _ hid]


/-- what a whole sub-evaluation (entry, its own sub-evaluations, exit) does to an older frame `j` -/
def kidUpd (p : Nat) (seg : List Nat) (ch : Bool) (n : Nat) (res : Option Nat) (j : Nat) (f : Frame) : Frame :=
  if ch then
    (match res with
     | some e => walkUpd e p seg j (if some j = seg.head? then { enterUpd true n f with childErrors := [n] } else f)
     | none => if some j = seg.head? then enterUpd true n f else f)
  else if j = p then { f with lastChild := some n, childErrors := f.childErrors ++ (if res.isSome then [n] else []) }
  else f

theorem kid_s3 (ch : Bool) (i : Info) (ks : Kids) (res : Option Nat) (p : Nat) (seg : List Nat) (n : Nat)
    (s : RState) (par : Nat)
    (hparDef : par = if ch then seg.head?.getD p else p)
    (hsz : s.frames.size = n) (hp : p < n) (hpnp : noPyOf s.frames p = some false)
    (hseg : SegInv s.frames p seg) (hlt : ∀ x, x ∈ seg → x < n) (hch : ch = true → seg ≠ [])
    (s2 : RState) (h2st : s2.stack = n :: s.stack) (h2sz : s2.frames.size = n + 1 + ks.size)
    (h2f : ∀ j, s2.frames[j]? =
      if j = n then some (ownFrame par n i ks none)
      else if n < j then frameAt n none (n + 1) ks j
      else if j = par then s.frames[j]?.map (enterUpd ch n)
      else s.frames[j]?) :
    (step s2 (exitEv res)).stack = s.stack ∧ (step s2 (exitEv res)).frames.size = n + 1 + ks.size ∧
    ∀ j, (step s2 (exitEv res)).frames[j]? =
      if j = n then some (ownFrame par n i ks res)
      else if n < j then frameAt n none (n + 1) ks j
      else s.frames[j]?.map (kidUpd p seg ch n res j) := by
  have hparlt : par < n := by
    subst hparDef
    cases ch
    · simpa using hp
    · cases seg with
      | nil => exact absurd rfl (hch rfl)
      | cons q segt => simpa using hlt q (by simp)
  cases res with
  | none =>
    refine ⟨by simp [exitEv, step_exitOk, h2st], by simpa [exitEv, step_exitOk] using h2sz, ?_⟩
    intro j
    simp only [exitEv, step_exitOk]
    rw [h2f j]
    by_cases h1 : j = n
    · simp [h1]
    · by_cases h2 : n < j
      · simp [h1, h2]
      · simp only [if_neg h1, if_neg h2]
        cases ch
        · simp only [Bool.false_eq_true, if_false] at hparDef
          subst hparDef
          by_cases h3 : j = par
          · simp only [if_pos h3]
            cases s.frames[j]? <;> simp [kidUpd, enterUpd, h3]
          · simp only [if_neg h3]
            symm; apply map_id'; intro f; simp [kidUpd, h3]
        · cases seg with
          | nil => exact absurd rfl (hch rfl)
          | cons q segt =>
            simp only [if_true, List.head?_cons, Option.getD_some] at hparDef
            subst hparDef
            by_cases h3 : j = par
            · simp only [if_pos h3]
              cases s.frames[j]? <;> simp [kidUpd, h3]
            · simp only [if_neg h3]
              symm; apply map_id'; intro f
              have : ¬ (some j = some par) := by simpa using h3
              simp [kidUpd, this]
  | some e =>
    have hfc : s2.frames[n]? = some (ownFrame par n i ks none) := by rw [h2f n]; simp
    rw [show exitEv (some e) = Ev.exitErr e from rfl, step_exitErr s2 e n s.stack _ h2st hfc]
    have hupfc : (ownFrame par n i ks none).up = par := rfl
    rw [hupfc]
    -- the store before the walk
    have hM : ∀ j, (modFrame (modFrame s2.frames par (fun p => { p with childErrors := p.childErrors ++ [n] })) n
        (fun x => { x with curError := some e }))[j]? =
        if j = n then some (ownFrame par n i ks (some e))
        else if n < j then frameAt n none (n + 1) ks j
        else if j = par then s.frames[j]?.map (fun f => { enterUpd ch n f with childErrors := (enterUpd ch n f).childErrors ++ [n] })
        else s.frames[j]? := by
      intro j
      simp only [modFrame_get]
      rw [h2f j]
      by_cases h1 : j = n
      · have : j ≠ par := by omega
        subst h1
        simp only [if_true, if_neg this, Option.map_some]
        rfl
      · by_cases h2 : n < j
        · have : j ≠ par := by omega
          simp [h1, h2, this]
        · by_cases h3 : j = par
          · simp only [if_neg h1, if_neg h2, if_pos h3, if_true]
            cases s.frames[j]? <;> simp
          · simp [h1, h2, h3]
    refine ⟨rfl, by simp [walkUp_size, modFrame_size, h2sz], ?_⟩
    cases ch
    · -- own scope: the parent is not flagged, no walk
      simp only [Bool.false_eq_true, if_false] at hparDef
      subst hparDef
      have hstop : noPyOf (modFrame (modFrame s2.frames par (fun p => { p with childErrors := p.childErrors ++ [n] })) n
          (fun x => { x with curError := some e })) par = some false := by
        simp only [noPyOf, hM par]
        have h1 : par ≠ n := by omega
        have h2 : ¬ n < par := by omega
        simp only [if_neg h1, if_neg h2, if_true]
        simp only [noPyOf] at hpnp
        cases hf : s.frames[par]? with
        | none => simp [hf] at hpnp
        | some f => simpa [hf, enterUpd] using hpnp
      rw [walkUp_stop _ _ _ _ hstop]
      intro j
      rw [hM j]
      by_cases h1 : j = n
      · simp [h1]
      · by_cases h2 : n < j
        · simp [h1, h2]
        · simp only [if_neg h1, if_neg h2]
          by_cases h3 : j = par
          · simp only [if_pos h3]
            cases s.frames[j]? <;> simp [kidUpd, enterUpd, h3]
          · simp only [if_neg h3]
            symm; apply map_id'; intro f; simp [kidUpd, h3]
    · cases seg with
      | nil => exact absurd rfl (hch rfl)
      | cons q segt =>
        simp only [if_true, List.head?_cons, Option.getD_some] at hparDef
        subst hparDef
        have hpq : p < par := SegInv_lt _ _ _ hseg par (by simp)
        -- the chain is still a chain in the store before the walk
        have hsegM : SegInv (modFrame (modFrame s2.frames par (fun p => { p with childErrors := p.childErrors ++ [n] })) n
            (fun x => { x with curError := some e })) p (par :: segt) := by
          apply SegInv_congr_on s.frames _ p (par :: segt) _ hseg
          intro j hj
          have hjn : j < n := hlt j hj
          have h1 : j ≠ n := by omega
          have h2 : ¬ n < j := by omega
          constructor
          · simp only [upOf, hM j, if_neg h1, if_neg h2]
            split <;> cases s.frames[j]? <;> simp [enterUpd]
          · simp only [noPyOf, hM j, if_neg h1, if_neg h2]
            split <;> cases s.frames[j]? <;> simp [enterUpd]
        have hqM : noPyOf (modFrame (modFrame s2.frames par (fun p => { p with childErrors := p.childErrors ++ [n] })) n
            (fun x => { x with curError := some e })) par = some true := by
          have h1 : par ≠ n := by omega
          have h2 : ¬ n < par := by omega
          simp only [noPyOf, hM par, if_neg h1, if_neg h2, if_true]
          have : upOf s.frames par ≠ none := by
            cases segt with
            | nil => simp [SegInv] at hseg; simp [hseg.1]
            | cons y r => simp [SegInv] at hseg; simp [hseg.1]
          simp only [upOf] at this
          cases hf : s.frames[par]? with
          | none => simp [hf] at this
          | some f => simp [enterUpd]
        have hpM : noPyOf (modFrame (modFrame s2.frames par (fun p => { p with childErrors := p.childErrors ++ [n] })) n
            (fun x => { x with curError := some e })) p = some false := by
          have h1 : p ≠ n := by omega
          have h2 : ¬ n < p := by omega
          have h3 : p ≠ par := by omega
          simpa only [noPyOf, hM p, if_neg h1, if_neg h2, if_neg h3] using hpnp
        have hlen : segt.length < s2.frames.size := by
          have := SegInv_length _ _ _ _ hseg
          omega
        intro j
        rw [walkUp_seg e p segt par _ _ hsegM hqM hpM hlen j, hM j]
        by_cases h1 : j = n
        · have hn1 : j ≠ p := by omega
          have hn2 : j ∉ (par :: segt) := fun hm => by have := hlt j hm; omega
          subst h1
          simp only [if_true, Option.map_some]
          rw [walkUpd_other e p _ j _ hn1 hn2]
        · by_cases h2 : n < j
          · simp only [if_neg h1, if_pos h2]
            apply map_id'
            intro f
            apply walkUpd_other
            · omega
            · intro hm; have := hlt j hm; omega
          · simp only [if_neg h1, if_neg h2]
            by_cases h3 : j = par
            · simp only [if_pos h3]
              cases s.frames[j]? <;> simp [kidUpd, enterUpd, h3]
            · simp only [if_neg h3]
              have : ¬ (some j = some par) := by simpa using h3
              cases s.frames[j]? <;> simp [kidUpd, this]


theorem or_or_some (a : Option Nat) (n : Nat) (b : Option Nat) : (a.or (some n)).or b = a.or (some n) := by
  cases a <;> simp

theorem below_head_none (p : Nat) (fs : Array Frame) (q : Nat) (segt : List Nat)
    (hs : SegInv fs p (q :: segt)) : below p (q :: segt) q = none := by
  cases segt with
  | nil => have := hs.2; simp [below]; omega
  | cons y r =>
    have hyq : y < q := hs.2.2.1
    simp only [below]
    rw [if_neg (by omega)]
    exact below_none_of_gt p fs (y :: r) q hs.2.2.2 (fun x hx => SegInv_head_gt fs p q (y :: r) hs x hx)

theorem chainUpd_not_head (p : Nat) (seg : List Nat) (n : Nat) (K : Kids) (j : Nat) (f : Frame)
    (h : ¬ (some j = seg.head?)) :
    chainUpd p seg n K j f = (match segRes K with | some e => walkUpd e p seg j f | none => f) := by
  unfold chainUpd; rw [if_neg h]

theorem chainUpd_head (p : Nat) (seg : List Nat) (n : Nat) (K : Kids) (j : Nat) (f : Frame)
    (h : some j = seg.head?) :
    chainUpd p seg n K j f =
      { (match segRes K with | some e => walkUpd e p seg j f | none => f) with
        noPy := true, lastChild := some n, childErrors := if (segRes K).isSome then [n] else [] } := by
  unfold chainUpd; rw [if_pos h]

/-- the effect on an older frame of a sub-evaluation followed by the later ones, composed -/
theorem upd_compose (ch : Bool) (i : Info) (ks : Kids) (res : Option Nat) (rest : Kids)
    (p : Nat) (seg : List Nat) (n : Nat) (fs : Array Frame)
    (hseg : SegInv fs p seg) (hlt : ∀ x, x ∈ seg → x < n) (hch : ch = true → seg ≠ [])
    (hres : rest.startsChained = true → res = none)
    (j : Nat) (hj : j < n) (f : Frame) :
    oldUpd p (n :: (if ch then seg else [])) (n + 1 + ks.size) rest j (kidUpd p seg ch n res j f) =
      oldUpd p seg n (.cons ch i ks res rest) j f := by
  by_cases hjp : j = p
  · -- the frame of the call that makes the sub-evaluations
    subst hjp
    cases ch
    · simp [oldUpd, pUpd, kidUpd, lastHead, failedHeads, or_or_some, List.append_assoc]
    · cases seg with
      | nil => exact absurd rfl (hch rfl)
      | cons q segt =>
        have hq : j < q := SegInv_lt _ _ _ hseg q (by simp)
        have hne : ¬ (some j = some q) := by simp; omega
        have hnot : j ∉ (q :: segt) := fun hm => by
          have := SegInv_lt _ _ _ hseg j hm; omega
        have hb : below j (q :: segt) j = some ((q :: segt).getLastD 0) := by
          rw [below_p j fs _ hseg]
          simp [List.getLast?_cons]
        have hl : (n :: q :: segt).getLastD 0 = (q :: segt).getLastD 0 := by simp [List.getLastD]
        have hjq : ¬ j = q := by omega
        cases res with
        | none =>
          simp only [oldUpd, if_true, kidUpd, List.head?_cons, if_neg hne, pUpd, lastHead, failedHeads, hl]
          simp [hjq]
        | some e =>
          simp only [oldUpd, if_true, kidUpd, List.head?_cons, if_neg hne, pUpd, lastHead, failedHeads, hl,
            walkUpd, hb, if_neg hnot]
          simp [hjq]
  · -- any other older frame
    have hjn : j ≠ n := by omega
    have hnj : ¬ (some j = some n) := by simpa using hjn
    cases ch
    · -- the sub-evaluation was made with the call's own frame: only that frame is touched
      have hk : kidUpd p seg false n res j f = f := by simp [kidUpd, hjp]
      have hr : oldUpd p seg n (.cons false i ks res rest) j f = f := by
        simp [oldUpd, hjp, Kids.startsChained]
      rw [hk, hr]
      simp only [Bool.false_eq_true, if_false, oldUpd, if_neg hjp]
      split
      · rw [chainUpd_not_head _ _ _ _ _ _ (by simpa using hjn)]
        cases segRes rest with
        | none => rfl
        | some e => exact walkUpd_other e p [n] j f hjp (by simpa using hjn)
      · rfl
    · cases seg with
      | nil => exact absurd rfl (hch rfl)
      | cons q segt =>
        have hqn : q < n := hlt q (by simp)
        have hbq : below p (q :: segt) q = none := below_head_none p fs q segt hseg
        have hr : oldUpd p (q :: segt) n (.cons true i ks res rest) j f =
            chainUpd p (q :: segt) n (.cons true i ks res rest) j f := by
          simp [oldUpd, hjp, Kids.startsChained]
        rw [hr]
        simp only [if_true, oldUpd, if_neg hjp]
        cases hrs : rest.startsChained with
        | true =>
          have hres' := hres hrs
          subst hres'
          have hsr : segRes (.cons true i ks none rest) = segRes rest := by simp [segRes, hrs]
          simp only [if_true]
          rw [chainUpd_not_head _ _ _ _ _ _ (by simpa using hjn)]
          by_cases hjq : j = q
          · subst hjq
            rw [chainUpd_head _ _ _ _ _ _ (by simp), hsr]
            cases segRes rest with
            | none => simp [kidUpd, enterUpd]
            | some e => simp [kidUpd, enterUpd, walkUpd, below]
          · rw [chainUpd_not_head _ _ _ _ _ _ (by simpa using hjq), hsr]
            cases segRes rest with
            | none => simp [kidUpd, hjq]
            | some e => simp [kidUpd, hjq, walkUpd, below, hjn]
        | false =>
          have hsr : segRes (.cons true i ks res rest) = res := by simp [segRes, hrs]
          simp only [Bool.false_eq_true, if_false]
          by_cases hjq : j = q
          · subst hjq
            rw [chainUpd_head _ _ _ _ _ _ (by simp), hsr]
            cases res with
            | none => simp [kidUpd, enterUpd]
            | some e => simp [kidUpd, enterUpd, walkUpd, hbq]
          · rw [chainUpd_not_head _ _ _ _ _ _ (by simpa using hjq), hsr]
            cases res with
            | none => simp [kidUpd, hjq]
            | some e => simp [kidUpd, hjq]


theorem kidUpd_up (p : Nat) (seg : List Nat) (ch : Bool) (n : Nat) (res : Option Nat) (j : Nat) (f : Frame) :
    (kidUpd p seg ch n res j f).up = f.up := by
  unfold kidUpd
  cases ch <;> cases res <;> simp only [Bool.false_eq_true, if_false, if_true] <;> split <;> simp [walkUpd, enterUpd]

theorem kidUpd_noPy_mono (p : Nat) (seg : List Nat) (ch : Bool) (n : Nat) (res : Option Nat) (j : Nat) (f : Frame)
    (h : f.noPy = true) : (kidUpd p seg ch n res j f).noPy = true := by
  unfold kidUpd
  cases ch <;> cases res <;> simp only [Bool.false_eq_true, if_false, if_true] <;> split <;> simp [walkUpd, enterUpd, h]

theorem kidUpd_noPy_p (p : Nat) (seg : List Nat) (ch : Bool) (n : Nat) (res : Option Nat) (f : Frame)
    (h : ¬ (some p = seg.head?)) : (kidUpd p seg ch n res p f).noPy = f.noPy := by
  unfold kidUpd
  cases ch <;> cases res <;> simp [walkUpd, h]

/-- **The frame store after the events of the sub-evaluations `K`** of the call with frame `p`
    (started in any state in which `p` is an open, unflagged frame and `seg` is the chain the
    previous sub-evaluation belongs to): the new frames are `frameAt`, the older frames are changed
    by `oldUpd` only. -/
theorem runKids : ∀ (K : Kids) (p : Nat) (seg : List Nat) (n : Nat) (s : RState),
    s.frames.size = n → p < n → noPyOf s.frames p = some false →
    SegInv s.frames p seg → (∀ x, x ∈ seg → x < n) →
    chainOk seg.isEmpty K = true →
    (run s (evKids p seg.head? n K)).stack = s.stack ∧
    (run s (evKids p seg.head? n K)).frames.size = n + K.size ∧
    ∀ j, (run s (evKids p seg.head? n K)).frames[j]? =
      if n ≤ j then frameAt p seg.head? n K j else s.frames[j]?.map (oldUpd p seg n K j) := by
  intro K
  induction K with
  | nil =>
    intro p seg n s hsz _ _ _ _ _
    exact ⟨rfl, by simp [evKids, run_nil, Kids.size, hsz], runKids_nil p seg n s hsz⟩
  | cons ch i ks res rest ihks ihrest =>
    intro p seg n s hsz hp hpnp hseg hlt hok
    simp only [chainOk, Bool.and_eq_true, Bool.not_eq_true', Bool.or_eq_true, Bool.and_eq_false_imp] at hok
    obtain ⟨⟨⟨hfirst, hoks⟩, hres⟩, hokr⟩ := hok
    have hch : ch = true → seg ≠ [] := by
      intro h hs; subst hs; simp [h] at hfirst
    have hres' : rest.startsChained = true → res = none := by
      intro h; rcases hres with h' | h'
      · simp [h] at h'
      · simpa using h'
    -- the parent the sub-evaluation is entered with
    generalize hparDef : (if ch then seg.head?.getD p else p) = par
    have hparlt : par < n := by
      subst hparDef
      cases ch
      · simpa using hp
      · cases seg with
        | nil => exact absurd rfl (hch rfl)
        | cons q segt => simpa using hlt q (by simp)
    have hfl : (ch && seg.head?.isSome) = ch := by
      cases ch
      · rfl
      · cases seg with
        | nil => exact absurd rfl (hch rfl)
        | cons q segt => rfl
    have hks0 : ks.startsChained = false := by
      cases ks with
      | nil => rfl
      | cons c _ _ _ _ =>
        simp only [chainOk, Bool.and_eq_true, Bool.not_eq_true', Bool.and_eq_false_imp] at hoks
        simpa [Kids.startsChained] using hoks.1.1.1
    simp only [evKids, run_cons, run_append, hparDef, hfl]
    -- enter, then the sub-evaluations of the sub-evaluation
    have h1sz := step_enter_size s par ch i.spec i.target i.tid i.tlen i.slen
    have h1st := step_enter_stack s par ch i.spec i.target i.tid i.tlen i.slen
    have h1f := step_enter_frames s par ch i.spec i.target i.tid i.tlen i.slen (by omega)
    generalize step s (.enter par ch i.spec i.target i.tid i.tlen i.slen) = s1 at h1sz h1st h1f
    have h1n : noPyOf s1.frames n = some false := by
      simp [noPyOf, h1f n, hsz]
    obtain ⟨h2st, h2sz, h2f⟩ := ihks n [] (n + 1) s1 (by omega) (by omega) h1n trivial (by simp) hoks
    simp only [List.head?_nil] at h2st h2sz h2f
    generalize run s1 (evKids n none (n + 1) ks) = s2 at h2st h2sz h2f
    have h2f' := kid_s2 ch i ks p seg n s par hparlt hsz s2
      ⟨by rw [h2st, h1st, hsz], by omega, by
        intro j; rw [h2f j, h1f j, step_enter_frames s par ch _ _ _ _ _ (by omega) j]⟩ hks0
    -- exit
    obtain ⟨h3st, h3sz, h3f⟩ := kid_s3 ch i ks res p seg n s par hparDef.symm hsz hp hpnp hseg hlt hch s2
      (by rw [h2st, h1st, hsz]) (by omega) h2f'
    generalize step s2 (exitEv res) = s3 at h3st h3sz h3f
    -- the later sub-evaluations
    have hheadp : ¬ (some p = seg.head?) := by
      cases seg with
      | nil => simp
      | cons q segt =>
        have := SegInv_lt _ _ _ hseg q (by simp)
        simp; omega
    have h3p : noPyOf s3.frames p = some false := by
      rw [noPyOf_of_map s.frames s3.frames p (kidUpd p seg ch n res p)
        (by rw [h3f p, if_neg (by omega), if_neg (by omega)])
        (fun f => kidUpd_noPy_p p seg ch n res f hheadp)]
      exact hpnp
    have hupn : upOf s3.frames n = some par := by simp [upOf, h3f n, ownFrame]
    have h3seg : SegInv s3.frames p (n :: (if ch then seg else [])) := by
      cases ch
      · simp only [Bool.false_eq_true, if_false] at hparDef ⊢
        subst hparDef
        exact ⟨hupn, hp⟩
      · cases seg with
        | nil => exact absurd rfl (hch rfl)
        | cons q segt =>
          simp only [if_true, List.head?_cons, Option.getD_some] at hparDef ⊢
          subst hparDef
          have hqex : upOf s.frames q ≠ none := by
            cases segt with
            | nil => simp [SegInv] at hseg; simp [hseg.1]
            | cons y r => simp [SegInv] at hseg; simp [hseg.1]
          refine ⟨hupn, ?_, hparlt, ?_⟩
          · simp only [noPyOf, h3f q, if_neg (by omega : ¬ q = n), if_neg (by omega : ¬ n < q)]
            simp only [upOf] at hqex
            cases hf : s.frames[q]? with
            | none => simp [hf] at hqex
            | some f => cases res <;> simp [kidUpd, enterUpd, walkUpd]
          · apply SegInv_congr_on s.frames _ p (q :: segt) _ hseg
            intro j hj
            have hjn : j < n := hlt j hj
            have e1 : s3.frames[j]? = s.frames[j]?.map (kidUpd p (q :: segt) true n res j) := by
              rw [h3f j, if_neg (by omega), if_neg (by omega)]
            constructor
            · exact upOf_of_map _ _ _ _ e1 (kidUpd_up _ _ _ _ _ _)
            · intro h
              simp only [noPyOf, e1] at h ⊢
              cases hf : s.frames[j]? with
              | none => simp [hf] at h
              | some f =>
                simp [hf] at h
                simp [kidUpd_noPy_mono _ _ _ _ _ _ _ h]
    have h3lt : ∀ x, x ∈ (n :: (if ch then seg else [])) → x < n + 1 + ks.size := by
      intro x hx
      rcases List.mem_cons.mp hx with h | h
      · omega
      · cases ch
        · simp at h
        · have := hlt x (by simpa using h); omega
    obtain ⟨h4st, h4sz, h4f⟩ := ihrest p (n :: (if ch then seg else [])) (n + 1 + ks.size) s3 h3sz (by omega)
      h3p h3seg h3lt (by simpa using hokr)
    simp only [List.head?_cons] at h4st h4sz h4f
    refine ⟨by rw [h4st, h3st], by rw [h4sz]; simp [Kids.size]; omega, ?_⟩
    intro j
    rw [h4f j]
    by_cases hA : n + 1 + ks.size ≤ j
    · -- a frame of a later sub-evaluation
      have h1 : j ≠ n := by omega
      have h2 : ¬ j < n + 1 + ks.size := by omega
      simp only [if_pos hA, if_pos (by omega : n ≤ j), frameAt, if_neg h1, if_neg h2]
    · simp only [if_neg hA]
      rw [h3f j]
      by_cases hC : j = n
      · -- the frame of the sub-evaluation itself
        subst hC
        have hjp : j ≠ p := by omega
        simp only [if_true, Option.map_some, if_pos (Nat.le_refl j), frameAt, hparDef]
        congr 1
        simp only [oldUpd, if_neg hjp]
        cases hrs : rest.startsChained with
        | false => simp [ownFrame]
        | true =>
          have hr := hres' hrs
          subst hr
          simp only [if_true]
          rw [chainUpd_head _ _ _ _ _ _ (by simp)]
          cases segRes rest with
          | none => simp [ownFrame]
          | some e => simp [ownFrame, walkUpd]
      · by_cases hB : n < j
        · -- a frame below the sub-evaluation
          simp only [if_neg hC, if_pos hB, if_pos (by omega : n ≤ j), frameAt, if_pos (by omega : j < n + 1 + ks.size)]
          apply map_id'
          intro f
          have hjp : j ≠ p := by omega
          have hjn : ¬ (some j = some n) := by simp; omega
          have hnot : j ∉ (n :: (if ch then seg else [])) := by
            intro hm
            rcases List.mem_cons.mp hm with h | h
            · omega
            · cases ch
              · simp at h
              · have := hlt j (by simpa using h); omega
          simp only [oldUpd, if_neg hjp]
          split
          · rw [chainUpd_not_head _ _ _ _ _ _ (by simpa using hjn)]
            cases segRes rest with
            | none => rfl
            | some e => exact walkUpd_other e p _ j f hjp hnot
          · rfl
        · -- an older frame
          have hjn : j < n := by omega
          simp only [if_neg hC, if_neg hB, if_neg (by omega : ¬ n ≤ j), Option.map_map]
          cases s.frames[j]? with
          | none => rfl
          | some f =>
            simp only [Option.map_some, Function.comp]
            rw [upd_compose ch i ks res rest p seg n s.frames hseg hlt hch hres' j hjn f]

end Glom.C05
