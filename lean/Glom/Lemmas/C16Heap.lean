import Glom.Model.C16Heap
/-
  C16 — the T-expression loop on a store of cells (`Heap.tstep`, `Heap.tEvalH`) refines the
  loop on values (`TOp.apply`, `tEval`) and never writes an existing cell.
-/
set_option linter.unusedSimpArgs false
set_option linter.unusedVariables false
set_option linter.unnecessarySimpa false

namespace Glom.C16.Heap
open Glom.C16

/-! ### acyclic stores: a cell refers to earlier cells only (items are built children first) -/

def elemLt (bound : Nat) : Elem → Prop
  | .imm _ => True
  | .ref b => b < bound

def cellLt (bound : Nat) : Cell → Prop
  | .list xs | .tuple xs => ∀ e ∈ xs, elemLt bound e
  | .dict es => ∀ e ∈ es, elemLt bound e.2

def acyclic (st : Store) : Prop := ∀ a cell, st[a]? = some cell → cellLt a cell

theorem elemLt_mono {b c : Nat} (h : b ≤ c) : ∀ {e : Elem}, elemLt b e → elemLt c e
  | .imm _, _ => trivial
  | .ref _, he => Nat.lt_of_lt_of_le he h

/-- the value of an element: read down to its own depth -/
def valE (st : Store) : Elem → V
  | .imm v => v
  | .ref b => derefE (b + 1) st (.ref b)

def cellVal (f : Elem → V) : Cell → V
  | .list xs => .list (xs.map f)
  | .tuple xs => .tuple (xs.map f)
  | .dict es => .dict (es.map (fun e => (e.1, f e.2)))

theorem derefE_imm (n : Nat) (st : Store) (v : V) : derefE n st (.imm v) = v := by
  cases n <;> rfl

theorem derefE_ref_succ (n : Nat) (st : Store) (a : Nat) (cell : Cell) (h : st[a]? = some cell) :
    derefE (n + 1) st (.ref a) = cellVal (derefE n st) cell := by
  simp only [derefE, h]
  cases cell <;> rfl

theorem cellVal_congr {f g : Elem → V} {bound : Nat} : ∀ {cell : Cell}, cellLt bound cell →
    (∀ e, elemLt bound e → f e = g e) → cellVal f cell = cellVal g cell
  | .list xs, hc, h => by
    simp only [cellVal]; congr 1; exact List.map_congr_left (fun e he => h e (hc e he))
  | .tuple xs, hc, h => by
    simp only [cellVal]; congr 1; exact List.map_congr_left (fun e he => h e (hc e he))
  | .dict es, hc, h => by
    simp only [cellVal]; congr 1
    exact List.map_congr_left (fun e he => by rw [h e.2 (hc e he)])

/-- more fuel and a longer store do not change what an existing reference denotes -/
theorem deref_stable {st : Store} (hac : acyclic st) :
    ∀ b, b < st.length → ∀ n, b < n → ∀ ex, derefE n (st ++ ex) (.ref b) = valE st (.ref b) := by
  intro b
  induction b using Nat.strongRecOn with
  | _ b ih =>
    intro hb n hn ex
    obtain ⟨n', rfl⟩ : ∃ n', n = n' + 1 := ⟨n - 1, by omega⟩
    have hcell : st[b]? = some st[b] := List.getElem?_eq_getElem hb
    have hcell' : (st ++ ex)[b]? = some st[b] := by rw [List.getElem?_append_left hb]; exact hcell
    have hlt := hac b _ hcell
    rw [derefE_ref_succ n' _ b _ hcell', valE, derefE_ref_succ b st b _ hcell]
    apply cellVal_congr hlt
    intro e he
    cases e with
    | imm v => simp [derefE_imm]
    | ref c =>
      have hc : c < b := he
      rw [ih c hc (by omega) n' (by omega) ex]
      have := ih c hc (by omega) b hc []
      simpa using this.symm

theorem valE_unfold {st : Store} (hac : acyclic st) {b : Nat} (hb : b < st.length) {cell : Cell}
    (hcell : st[b]? = some cell) : valE st (.ref b) = cellVal (valE st) cell := by
  rw [valE, derefE_ref_succ b st b _ hcell]
  apply cellVal_congr (hac b _ hcell)
  intro e he
  cases e with
  | imm v => simp [derefE_imm, valE]
  | ref c =>
    have hc : c < b := he
    have := deref_stable hac c (by omega) b hc []
    simpa using this

theorem valE_ext {st : Store} (hac : acyclic st) (ex : Store) : ∀ {e : Elem}, elemLt st.length e →
    valE (st ++ ex) e = valE st e
  | .imm _, _ => rfl
  | .ref b, he => deref_stable hac b he (b + 1) (Nat.lt_succ_self b) ex

theorem acyclic_snoc {st : Store} (hac : acyclic st) {c : Cell} (hc : cellLt st.length c) : acyclic (st ++ [c]) := by
  intro a cell h
  by_cases ha : a < st.length
  · rw [List.getElem?_append_left ha] at h
    exact hac a cell h
  · have hlen : a < (st ++ [c]).length := by
      by_cases h2 : a < (st ++ [c]).length
      · exact h2
      · rw [List.getElem?_eq_none (by omega)] at h; cases h
    have ha' : a = st.length := by simp at hlen; omega
    subst ha'
    simp at h
    subst h
    exact hc

theorem snoc_get (st : Store) (c : Cell) : (st ++ [c])[st.length]? = some c := by simp

/-! ### sequence / dict primitives commute with reading the values -/

theorem seqGet_map (f : Elem → V) (xs : List Elem) (i : Int) :
    seqGet (xs.map f) i = (seqGetP xs i).map f := by
  simp only [seqGet, seqGetP, List.length_map]
  split <;> (try split) <;> simp [List.getElem?_map]

theorem seqGetP_mem {xs : List Elem} {i : Int} {e : Elem} (h : seqGetP xs i = some e) : e ∈ xs := by
  unfold seqGetP at h
  by_cases h1 : (if i < 0 then i + (xs.length : Int) else i) < 0
  · rw [if_pos h1] at h; cases h
  · rw [if_neg h1] at h; exact List.mem_of_getElem? h

theorem dget_mapE (f : Elem → V) (es : List (V × Elem)) (k : V) :
    dget (es.map (fun e => (e.1, f e.2))) k = (dgetE es k).map f := by
  induction es with
  | nil => rfl
  | cons e es ih =>
    obtain ⟨k', v⟩ := e
    by_cases h : keyEq k' k = true <;> simp [dget, dgetE, h, ih]

theorem dgetE_mem {es : List (V × Elem)} {k : V} {e : Elem} (h : dgetE es k = some e) : ∃ p ∈ es, p.2 = e := by
  induction es with
  | nil => simp [dgetE] at h
  | cons p es ih =>
    obtain ⟨k', v⟩ := p
    by_cases hk : keyEq k' k = true
    · simp [dgetE, hk] at h; exact ⟨(k', v), List.mem_cons_self, h⟩
    · have hk' : keyEq k' k = false := by simpa using hk
      simp [dgetE, hk'] at h
      obtain ⟨p, hp, he⟩ := ih h
      exact ⟨p, List.mem_cons_of_mem _ hp, he⟩

theorem dsetE_map (f : Elem → V) (hf : ∀ v, f (.imm v) = v) (es : List (V × Elem)) (k v : V) :
    (dsetE es k (.imm v)).map (fun e => (e.1, f e.2)) = dset (es.map (fun e => (e.1, f e.2))) k v := by
  induction es with
  | nil => simp [dsetE, dset, hf]
  | cons e es ih =>
    obtain ⟨k', v'⟩ := e
    by_cases h : keyEq k' k = true <;> simp [dsetE, dset, h, ih, hf]

theorem dupdateE_map (f : Elem → V) (hf : ∀ v, f (.imm v) = v) (ps : List (V × V)) :
    ∀ es : List (V × Elem), (dupdateE es ps).map (fun e => (e.1, f e.2)) =
      dupdate (es.map (fun e => (e.1, f e.2))) ps := by
  induction ps with
  | nil => intro es; rfl
  | cons p ps ih =>
    intro es
    simp only [dupdateE, dupdate, List.foldl_cons]
    have := ih (dsetE es p.1 (.imm p.2))
    simp only [dupdateE, dupdate] at this
    rw [this, dsetE_map f hf]

theorem dsetE_lt {bound : Nat} {es : List (V × Elem)} (h : ∀ e ∈ es, elemLt bound e.2) (k v : V) :
    ∀ e ∈ dsetE es k (.imm v), elemLt bound e.2 := by
  induction es with
  | nil => intro e he; simp [dsetE] at he; subst he; trivial
  | cons p es ih =>
    obtain ⟨k', v'⟩ := p
    intro e he
    by_cases hk : keyEq k' k = true
    · simp only [dsetE, hk, if_true] at he
      rcases List.mem_cons.mp he with rfl | he
      · trivial
      · exact h e (List.mem_cons_of_mem _ he)
    · have hk' : keyEq k' k = false := by simpa using hk
      simp only [dsetE, hk', Bool.false_eq_true, if_false] at he
      rcases List.mem_cons.mp he with rfl | he
      · exact h _ List.mem_cons_self
      · exact ih (fun e' he' => h e' (List.mem_cons_of_mem _ he')) e he

theorem dupdateE_lt {bound : Nat} (ps : List (V × V)) : ∀ {es : List (V × Elem)}, (∀ e ∈ es, elemLt bound e.2) →
    ∀ e ∈ dupdateE es ps, elemLt bound e.2 := by
  induction ps with
  | nil => intro es h; exact h
  | cons p ps ih =>
    intro es h
    simp only [dupdateE, List.foldl_cons]
    exact ih (dsetE_lt h p.1 p.2)

theorem repeatList_map {α β : Type} (f : α → β) (xs : List α) (n : Int) :
    (repeatList xs n).map f = repeatList (xs.map f) n := by
  simp [repeatList, List.map_flatten, List.map_replicate]

theorem repeatList_mem {α : Type} {xs : List α} {n : Int} {e : α} (h : e ∈ repeatList xs n) : e ∈ xs := by
  simp only [repeatList, List.mem_flatten, List.mem_replicate] at h
  obtain ⟨l, ⟨_, rfl⟩, he⟩ := h
  exact he

theorem map_valE_ext {st : Store} (hac : acyclic st) (ex : Store) {bound : Nat} (hb : bound ≤ st.length)
    {xs : List Elem} (h : ∀ e ∈ xs, elemLt bound e) : xs.map (valE (st ++ ex)) = xs.map (valE st) :=
  List.map_congr_left (fun e he => valE_ext hac ex (elemLt_mono hb (h e he)))

theorem map_imm_valE (st : Store) (ys : List V) : (ys.map Elem.imm).map (valE st) = ys := by
  induction ys with
  | nil => rfl
  | cons y ys ih => simp [valE, ih]

/-! ### one step: the store step refines the value step; old cells are untouched -/

/-- what a step guarantees -/
structure StepRes (st : Store) (cur : Elem) (op : TOp) (st' : Store) (cur' : Elem) : Prop where
  val : op.apply (valE st cur) = .ok (valE st' cur')
  ext : ∃ ex, st' = st ++ ex
  acy : acyclic st'
  lt : elemLt st'.length cur'

theorem alloc_res {st : Store} (hac : acyclic st) {cur : Elem} {op : TOp} {c : Cell} (hc : cellLt st.length c)
    (hv : op.apply (valE st cur) = .ok (cellVal (valE (st ++ [c])) c)) :
    StepRes st cur op (st ++ [c]) (.ref st.length) := by
  have hac' := acyclic_snoc hac hc
  refine ⟨?_, ⟨[c], rfl⟩, hac', by simp [elemLt]⟩
  rw [valE_unfold hac' (by simp) (snoc_get st c)]
  exact hv

theorem tstep_refines (st : Store) (cur : Elem) (op : TOp) (hac : acyclic st) (hcur : elemLt st.length cur) :
    match tstep st cur op with
    | .ok (st', cur') => StepRes st cur op st' cur'
    | .error e => op.apply (valE st cur) = .error e := by
  cases cur with
  | imm v =>
    simp only [tstep, valE]
    cases h : op.apply v with
    | ok v' => exact ⟨by simpa [valE] using h, ⟨[], by simp⟩, hac, trivial⟩
    | error e => rfl
  | ref a =>
    have ha : a < st.length := hcur
    have hcell : st[a]? = some st[a] := List.getElem?_eq_getElem ha
    have hlt := hac a _ hcell
    have hval := valE_unfold hac ha hcell
    simp only [tstep, hcell]
    cases hc : st[a] with
    | list xs =>
      rw [hc] at hlt hval
      simp only [cellVal] at hval
      have hlt' : ∀ e ∈ xs, elemLt st.length e := fun e he => elemLt_mono (Nat.le_of_lt ha) (hlt e he)
      cases op with
      | item k =>
        simp only [hval, TOp.apply, getItem]
        cases hk : asInt k with
        | none => rfl
        | some i =>
          simp only [seqGet_map]
          cases hg : seqGetP xs i with
          | none => rfl
          | some e =>
            exact ⟨by rw [hval]; simp [TOp.apply, getItem, hk, seqGet_map, hg], ⟨[], by simp⟩, hac,
              hlt' e (seqGetP_mem hg)⟩
      | add lit =>
        cases lit with
        | list ys =>
          apply alloc_res hac
          · intro e he
            rcases List.mem_append.mp he with h | h
            · exact hlt' e h
            · simp at h; obtain ⟨y, _, rfl⟩ := h; trivial
          · simp only [hval, TOp.apply, asInt, cellVal, List.map_append, map_imm_valE,
              map_valE_ext hac [_] (Nat.le_of_lt ha) hlt]
        | _ => simp [hval, TOp.apply, asInt, pae]
      | mul n =>
        apply alloc_res hac
        · intro e he; exact hlt' e (repeatList_mem he)
        · simp only [hval, TOp.apply, asInt, cellVal, repeatList_map,
            map_valE_ext hac [_] (Nat.le_of_lt ha) hlt]
      | bor lit => simp [hval, TOp.apply, pae]
      | mod n => simp [hval, TOp.apply, asInt, pae]
    | tuple xs =>
      rw [hc] at hlt hval
      simp only [cellVal] at hval
      have hlt' : ∀ e ∈ xs, elemLt st.length e := fun e he => elemLt_mono (Nat.le_of_lt ha) (hlt e he)
      cases op with
      | item k =>
        simp only [hval, TOp.apply, getItem]
        cases hk : asInt k with
        | none => rfl
        | some i =>
          simp only [seqGet_map]
          cases hg : seqGetP xs i with
          | none => rfl
          | some e =>
            exact ⟨by rw [hval]; simp [TOp.apply, getItem, hk, seqGet_map, hg], ⟨[], by simp⟩, hac,
              hlt' e (seqGetP_mem hg)⟩
      | add lit =>
        cases lit with
        | tuple ys =>
          apply alloc_res hac
          · intro e he
            rcases List.mem_append.mp he with h | h
            · exact hlt' e h
            · simp at h; obtain ⟨y, _, rfl⟩ := h; trivial
          · simp only [hval, TOp.apply, asInt, cellVal, List.map_append, map_imm_valE,
              map_valE_ext hac [_] (Nat.le_of_lt ha) hlt]
        | _ => simp [hval, TOp.apply, asInt, pae]
      | mul n =>
        apply alloc_res hac
        · intro e he; exact hlt' e (repeatList_mem he)
        · simp only [hval, TOp.apply, asInt, cellVal, repeatList_map,
            map_valE_ext hac [_] (Nat.le_of_lt ha) hlt]
      | bor lit => simp [hval, TOp.apply, pae]
      | mod n => simp [hval, TOp.apply, asInt, pae]
    | dict es =>
      rw [hc] at hlt hval
      simp only [cellVal] at hval
      have hlt' : ∀ e ∈ es, elemLt st.length e.2 := fun e he => elemLt_mono (Nat.le_of_lt ha) (hlt e he)
      cases op with
      | item k =>
        simp only [hval, TOp.apply, getItem, dget_mapE]
        cases hg : dgetE es k with
        | none => rfl
        | some e =>
          obtain ⟨p, hp, rfl⟩ := dgetE_mem hg
          exact ⟨by rw [hval]; simp [TOp.apply, getItem, dget_mapE, hg], ⟨[], by simp⟩, hac, hlt' p hp⟩
      | bor lit =>
        cases lit with
        | dict ps =>
          apply alloc_res hac
          · exact dupdateE_lt ps hlt'
          · have hext : es.map (fun e => (e.1, valE (st ++ [Cell.dict (dupdateE es ps)]) e.2)) =
                es.map (fun e => (e.1, valE st e.2)) :=
              List.map_congr_left (fun e he => by rw [valE_ext hac _ (hlt' e he)])
            simp only [hval, TOp.apply, cellVal, dupdateE_map (valE _) (fun _ => rfl), hext]
        | _ => simp [hval, TOp.apply, pae]
      | add lit => cases lit <;> simp [hval, TOp.apply, asInt, pae]
      | mul n => simp [hval, TOp.apply, asInt, pae]
      | mod n => simp [hval, TOp.apply, asInt, pae]

/-! ### the loop -/

theorem tEvalH_refines : ∀ (ops : List TOp) (st : Store) (cur : Elem), acyclic st → elemLt st.length cur →
    match tEvalH st cur ops with
    | .ok (st', cur') => tEval ops (valE st cur) = .ok (valE st' cur') ∧ (∃ ex, st' = st ++ ex) ∧ acyclic st'
    | .error e => tEval ops (valE st cur) = .error e
  | [], st, cur, hac, _ => by simp only [tEvalH, tEval]; exact ⟨trivial, ⟨[], by simp⟩, hac⟩
  | op :: ops, st, cur, hac, hcur => by
    have h1 := tstep_refines st cur op hac hcur
    simp only [tEvalH, tEval]
    cases hs : tstep st cur op with
    | error e => rw [hs] at h1; simp only at h1; simp [h1]
    | ok p =>
      obtain ⟨st1, cur1⟩ := p
      rw [hs] at h1
      simp only at h1
      obtain ⟨ex1, rfl⟩ := h1.ext
      have h2 := tEvalH_refines ops (st ++ ex1) cur1 h1.acy h1.lt
      simp only [h1.val]
      cases hr : tEvalH (st ++ ex1) cur1 ops with
      | error e => rw [hr] at h2; simpa using h2
      | ok q =>
        obtain ⟨st2, cur2⟩ := q
        rw [hr] at h2
        simp only at h2 ⊢
        obtain ⟨hv, ⟨ex2, rfl⟩, hac2⟩ := h2
        exact ⟨hv, ⟨ex1 ++ ex2, by simp⟩, hac2⟩

end Glom.C16.Heap
