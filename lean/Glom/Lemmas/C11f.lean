import Glom.Lemmas.C11e
/-
  Helper lemmas for C11, part 6: `arg_val` on a literal (`argEval`).

  A. it only appends cells and fills cells it appended itself (`ArgOK`): every cell that existed
     before — the target, the literal — is untouched, whatever happens;
  B. the memo is a partial injection from original exact lists / dicts to cells created during
     the call (`MemoInv`): **one rebuilt object per distinct original** (this is what "the stored
     value has the sharing structure of the literal" rests on).
-/
namespace Glom.C11
open Glom Glom.Mut

/-- what a state transformer that only creates and fills its own cells guarantees -/
structure ArgOK (st st' : St) : Prop where
  pres : Pres st.heap st'.heap
  len : st.heap.length ≤ st'.heap.length
  log : LogExt st.heap.length st.log st'.log
  calls : st'.calls = st.calls
  hidden : st'.hidden = st.hidden
  made : st'.made = st.made

theorem ArgOK.refl (st : St) : ArgOK st st :=
  ⟨Pres.refl _, Nat.le_refl _, LogExt.refl _ _, rfl, rfl, rfl⟩

theorem ArgOK.trans {a b c : St} (h1 : ArgOK a b) (h2 : ArgOK b c) : ArgOK a c :=
  ⟨Pres.trans h1.pres h2.pres h1.len, Nat.le_trans h1.len h2.len, h1.log.trans h2.log h1.len,
   by rw [h2.calls, h1.calls], by rw [h2.hidden, h1.hidden], by rw [h2.made, h1.made]⟩

theorem ArgOK.alloc (st : St) (o : Obj) : ArgOK st (st.alloc o) :=
  ⟨Pres.append _ _, by simp [St.alloc], ⟨[.alloc st.heap.length], rfl, by simp [evNew]⟩, rfl, rfl, rfl⟩

/-- filling a cell at or above the length of `st0`'s heap -/
theorem ArgOK.fill {st0 st : St} (h : ArgOK st0 st) (b : Nat) (hb : st0.heap.length ≤ b) (o : Obj) :
    ArgOK st0 (st.fill b o) := by
  refine ⟨?_, by simpa [St.fill] using h.len, ?_, h.calls, h.hidden, h.made⟩
  · intro a ha
    have : b ≠ a := by omega
    simp only [St.fill, List.getElem?_set_ne this]
    exact h.pres a ha
  · exact h.log.snoc (by simpa [evNew] using hb)

theorem argList_ok {f : St → Memo → Val → St × Memo × Except MErr Val}
    (hf : ∀ st m x, ArgOK st (f st m x).1) : ∀ xs st m, ArgOK st (argList f st m xs).1 := by
  intro xs
  induction xs with
  | nil => intro st m; exact ArgOK.refl _
  | cons x xs ih =>
    intro st m
    simp only [argList]
    have h1 := hf st m x
    cases hr : f st m x with
    | mk st1 r1 =>
      obtain ⟨m1, r⟩ := r1
      rw [hr] at h1
      cases r with
      | error e => exact h1
      | ok y =>
        simp only
        have h2 := ih st1 m1
        cases hr2 : argList f st1 m1 xs with
        | mk st2 r2 =>
          obtain ⟨m2, r'⟩ := r2
          rw [hr2] at h2
          cases r' <;> exact h1.trans h2

theorem argEntries_ok {f : St → Memo → Val → St × Memo × Except MErr Val}
    (hf : ∀ st m x, ArgOK st (f st m x).1) : ∀ es st m acc, ArgOK st (argEntries f st m es acc).1 := by
  intro es
  induction es with
  | nil => intro st m acc; exact ArgOK.refl _
  | cons e es ih =>
    intro st m acc
    obtain ⟨k, v⟩ := e
    simp only [argEntries]
    have h1 := hf st m k
    cases hr : f st m k with
    | mk st1 r1 =>
      obtain ⟨m1, r⟩ := r1
      rw [hr] at h1
      cases r with
      | error e => exact h1
      | ok k' =>
        simp only
        have h2 := hf st1 m1 v
        cases hr2 : f st1 m1 v with
        | mk st2 r2 =>
          obtain ⟨m2, r'⟩ := r2
          rw [hr2] at h2
          cases r' with
          | error e => exact h1.trans h2
          | ok v' =>
            simp only
            split
            · exact h1.trans h2
            · exact (h1.trans h2).trans (ih st2 m2 _)

/-- **`arg_val` never touches a cell that existed before it was called** — neither the target nor
    the literal it rebuilds —: it appends cells and fills the cells it appended -/
theorem argEval_ok (env : MEnv) (target : Val) :
    ∀ (fuel : Nat) (st : St) (m : Memo) (v : Val), ArgOK st (argEval env target fuel st m v).1 := by
  intro fuel
  induction fuel with
  | zero => intro st m v; exact ArgOK.refl _
  | succ f ih =>
    intro st m v
    cases v with
    | ref a =>
      simp only [argEval]
      cases ho : st.heap[a]? with
      | none => exact ArgOK.refl _
      | some o =>
        cases o with
        | inst c steps =>
          simp only
          split
          · split <;> exact ArgOK.refl _
          · exact ArgOK.refl _
        | list c xs =>
          simp only
          split
          · cases hm : List.lookup a m with
            | some b => exact ArgOK.refl _
            | none =>
              simp only
              have h1 := ArgOK.alloc st (.list "list" [])
              have h2 := argList_ok (f := fun st m x => argEval env target f st m x) ih xs
                (st.alloc (.list "list" [])) ((a, st.heap.length) :: m)
              cases hr : argList (fun st m x => argEval env target f st m x) (st.alloc (.list "list" []))
                  ((a, st.heap.length) :: m) xs with
              | mk st2 r2 =>
                obtain ⟨m2, r⟩ := r2
                rw [hr] at h2
                cases r with
                | error e => exact h1.trans h2
                | ok ys => exact (h1.trans h2).fill _ (Nat.le_refl _) _
          · exact ArgOK.refl _
        | dict c es =>
          simp only
          split
          · cases hm : List.lookup a m with
            | some b => exact ArgOK.refl _
            | none =>
              simp only
              have h1 := ArgOK.alloc st (.dict "dict" [])
              have h2 := argEntries_ok (f := fun st m x => argEval env target f st m x) ih es
                (st.alloc (.dict "dict" [])) ((a, st.heap.length) :: m) []
              cases hr : argEntries (fun st m x => argEval env target f st m x) (st.alloc (.dict "dict" []))
                  ((a, st.heap.length) :: m) es [] with
              | mk st2 r2 =>
                obtain ⟨m2, r⟩ := r2
                rw [hr] at h2
                cases r with
                | error e => exact h1.trans h2
                | ok ys => exact (h1.trans h2).fill _ (Nat.le_refl _) _
          · exact ArgOK.refl _
        | tuple c xs =>
          simp only
          split
          · have h2 := argList_ok (f := fun st m x => argEval env target f st m x) ih xs st m
            cases hr : argList (fun st m x => argEval env target f st m x) st m xs with
            | mk st2 r2 =>
              obtain ⟨m2, r⟩ := r2
              rw [hr] at h2
              cases r with
              | error e => exact h2
              | ok ys => exact h2.trans (ArgOK.alloc _ _)
          · exact ArgOK.refl _
        | set c xs =>
          simp only
          split
          · have h2 := argList_ok (f := fun st m x => argEval env target f st m x) ih xs st m
            cases hr : argList (fun st m x => argEval env target f st m x) st m xs with
            | mk st2 r2 =>
              obtain ⟨m2, r⟩ := r2
              rw [hr] at h2
              cases r with
              | error e => exact h2
              | ok ys =>
                simp only
                split
                · exact h2.trans (ArgOK.alloc _ _)
                · exact h2
          · exact ArgOK.refl _
    | _ => exact ArgOK.refl _

end Glom.C11

namespace Glom.C11
open Glom Glom.Mut

/-! ### B. the memo is a partial injection into the cells created during the call -/

/-- the memo maps pairwise distinct originals to pairwise distinct cells, all created at or above
    `base` and existing in the current heap -/
structure MemoInv (base : Nat) (st : St) (m : Memo) : Prop where
  base_le : base ≤ st.heap.length
  fresh : ∀ p ∈ m, base ≤ p.2 ∧ p.2 < st.heap.length
  keys : (m.map (·.1)).Nodup
  vals : (m.map (·.2)).Nodup

theorem MemoInv.mono {base : Nat} {st st' : St} {m : Memo} (h : MemoInv base st m)
    (hl : st.heap.length ≤ st'.heap.length) : MemoInv base st' m :=
  ⟨Nat.le_trans h.base_le hl, fun p hp => ⟨(h.fresh p hp).1, Nat.lt_of_lt_of_le (h.fresh p hp).2 hl⟩,
   h.keys, h.vals⟩

theorem lookup_none_not_mem {m : Memo} {a : Nat} (h : List.lookup a m = none) : a ∉ m.map (·.1) := by
  induction m with
  | nil => simp
  | cons p r ih =>
    obtain ⟨k, v⟩ := p
    simp only [List.lookup] at h
    split at h
    · contradiction
    · rename_i hne
      simp only [List.map_cons, List.mem_cons, not_or]
      refine ⟨?_, ih h⟩
      intro e; subst e; simp at hne

/-- entering a new original into the memo, with the next address as its counterpart -/
theorem MemoInv.enter {base : Nat} {st : St} {m : Memo} (h : MemoInv base st m) {a : Nat}
    (ha : List.lookup a m = none) (o : Obj) : MemoInv base (st.alloc o) ((a, st.heap.length) :: m) := by
  refine ⟨by simp [St.alloc]; exact Nat.le_succ_of_le h.base_le, ?_, ?_, ?_⟩
  · intro p hp
    rcases List.mem_cons.1 hp with rfl | hp
    · exact ⟨h.base_le, by simp [St.alloc]⟩
    · exact ⟨(h.fresh p hp).1, by simp [St.alloc]; exact Nat.lt_succ_of_lt (h.fresh p hp).2⟩
  · simp only [List.map_cons, List.nodup_cons]
    exact ⟨lookup_none_not_mem ha, h.keys⟩
  · simp only [List.map_cons, List.nodup_cons]
    refine ⟨?_, h.vals⟩
    intro hmem
    obtain ⟨p, hp, he⟩ := List.mem_map.1 hmem
    have := (h.fresh p hp).2
    omega

/-- the outcome of a step of `arg_val`: the memo invariant is kept, the memo only grows (at the front) -/
def MemoStep (base : Nat) (m : Memo) (out : St × Memo × Except MErr α) : Prop :=
  MemoInv base out.1 out.2.1 ∧ ∃ ext, out.2.1 = ext ++ m

theorem argList_memo {base : Nat} {f : St → Memo → Val → St × Memo × Except MErr Val}
    (hf : ∀ st m x, MemoInv base st m → MemoStep base m (f st m x)) :
    ∀ xs st m, MemoInv base st m → MemoStep base m (argList f st m xs) := by
  intro xs
  induction xs with
  | nil => intro st m hi; exact ⟨hi, [], rfl⟩
  | cons x xs ih =>
    intro st m hi
    simp only [argList]
    have h1 := hf st m x hi
    cases hr : f st m x with
    | mk st1 r1 =>
      obtain ⟨m1, r⟩ := r1
      rw [hr] at h1
      cases r with
      | error e => exact h1
      | ok y =>
        simp only
        obtain ⟨hi1, e1, he1⟩ := h1
        simp only at hi1 he1
        have h2 := ih st1 m1 hi1
        cases hr2 : argList f st1 m1 xs with
        | mk st2 r2 =>
          obtain ⟨m2, r'⟩ := r2
          rw [hr2] at h2
          obtain ⟨hi2, e2, he2⟩ := h2
          simp only at hi2 he2
          cases r' <;> exact ⟨hi2, e2 ++ e1, by simp only [he2, he1, List.append_assoc]⟩

theorem argEntries_memo {base : Nat} {f : St → Memo → Val → St × Memo × Except MErr Val}
    (hf : ∀ st m x, MemoInv base st m → MemoStep base m (f st m x)) :
    ∀ es st m acc, MemoInv base st m → MemoStep base m (argEntries f st m es acc) := by
  intro es
  induction es with
  | nil => intro st m acc hi; exact ⟨hi, [], rfl⟩
  | cons e es ih =>
    intro st m acc hi
    obtain ⟨k, v⟩ := e
    simp only [argEntries]
    have h1 := hf st m k hi
    cases hr : f st m k with
    | mk st1 r1 =>
      obtain ⟨m1, r⟩ := r1
      rw [hr] at h1
      cases r with
      | error e => exact h1
      | ok k' =>
        simp only
        obtain ⟨hi1, e1, he1⟩ := h1
        simp only at hi1 he1
        have h2 := hf st1 m1 v hi1
        cases hr2 : f st1 m1 v with
        | mk st2 r2 =>
          obtain ⟨m2, r'⟩ := r2
          rw [hr2] at h2
          obtain ⟨hi2, e2, he2⟩ := h2
          simp only at hi2 he2
          cases r' with
          | error e => exact ⟨hi2, e2 ++ e1, by simp only [he2, he1, List.append_assoc]⟩
          | ok v' =>
            simp only
            split
            · exact ⟨hi2, e2 ++ e1, by simp only [he2, he1, List.append_assoc]⟩
            · obtain ⟨hi3, e3, he3⟩ := ih st2 m2 (setEntry acc k' v') hi2
              exact ⟨hi3, e3 ++ (e2 ++ e1), by rw [he3]; simp only [he2, he1, List.append_assoc]⟩

theorem MemoInv.fill {base : Nat} {st : St} {m : Memo} (h : MemoInv base st m) (b : Nat) (o : Obj) :
    MemoInv base (st.fill b o) m :=
  ⟨by simpa [St.fill] using h.base_le, fun p hp => by simpa [St.fill] using h.fresh p hp, h.keys, h.vals⟩

theorem MemoInv.alloc {base : Nat} {st : St} {m : Memo} (h : MemoInv base st m) (o : Obj) :
    MemoInv base (st.alloc o) m :=
  h.mono (by simp [St.alloc])

/-- **one rebuilt object per distinct original**: through the whole of an `arg_val` evaluation the memo
    stays a partial injection from original lists / dicts into cells created during the call, and
    no entry is ever removed or replaced -/
theorem argEval_memo (env : MEnv) (target : Val) (base : Nat) :
    ∀ (fuel : Nat) (st : St) (m : Memo) (v : Val), MemoInv base st m →
      MemoStep base m (argEval env target fuel st m v) := by
  intro fuel
  induction fuel with
  | zero => intro st m v hi; exact ⟨hi, [], rfl⟩
  | succ f ih =>
    intro st m v hi
    have triv : ∀ (r : Except MErr Val), MemoStep base m (st, m, r) := fun r => ⟨hi, [], rfl⟩
    cases v with
    | ref a =>
      simp only [argEval]
      cases ho : st.heap[a]? with
      | none => exact triv _
      | some o =>
        cases o with
        | inst c steps =>
          simp only
          split
          · split <;> exact triv _
          · exact triv _
        | list c xs =>
          simp only
          split
          · cases hm : List.lookup a m with
            | some b => exact triv _
            | none =>
              simp only
              have h2 := argList_memo (f := fun st m x => argEval env target f st m x) ih xs
                (st.alloc (.list "list" [])) ((a, st.heap.length) :: m) (hi.enter hm _)
              cases hr : argList (fun st m x => argEval env target f st m x) (st.alloc (.list "list" []))
                  ((a, st.heap.length) :: m) xs with
              | mk st2 r2 =>
                obtain ⟨m2, r⟩ := r2
                rw [hr] at h2
                obtain ⟨hi2, e2, he2⟩ := h2
                simp only at hi2 he2
                cases r with
                | error e => exact ⟨hi2, e2 ++ [(a, st.heap.length)], by simp [he2]⟩
                | ok ys => exact ⟨hi2.fill _ _, e2 ++ [(a, st.heap.length)], by simp [he2]⟩
          · exact triv _
        | dict c es =>
          simp only
          split
          · cases hm : List.lookup a m with
            | some b => exact triv _
            | none =>
              simp only
              have h2 := argEntries_memo (f := fun st m x => argEval env target f st m x) ih es
                (st.alloc (.dict "dict" [])) ((a, st.heap.length) :: m) [] (hi.enter hm _)
              cases hr : argEntries (fun st m x => argEval env target f st m x) (st.alloc (.dict "dict" []))
                  ((a, st.heap.length) :: m) es [] with
              | mk st2 r2 =>
                obtain ⟨m2, r⟩ := r2
                rw [hr] at h2
                obtain ⟨hi2, e2, he2⟩ := h2
                simp only at hi2 he2
                cases r with
                | error e => exact ⟨hi2, e2 ++ [(a, st.heap.length)], by simp [he2]⟩
                | ok ys => exact ⟨hi2.fill _ _, e2 ++ [(a, st.heap.length)], by simp [he2]⟩
          · exact triv _
        | tuple c xs =>
          simp only
          split
          · have h2 := argList_memo (f := fun st m x => argEval env target f st m x) ih xs st m hi
            cases hr : argList (fun st m x => argEval env target f st m x) st m xs with
            | mk st2 r2 =>
              obtain ⟨m2, r⟩ := r2
              rw [hr] at h2
              obtain ⟨hi2, e2, he2⟩ := h2
              simp only at hi2 he2
              cases r with
              | error e => exact ⟨hi2, e2, he2⟩
              | ok ys => exact ⟨hi2.alloc _, e2, he2⟩
          · exact triv _
        | set c xs =>
          simp only
          split
          · have h2 := argList_memo (f := fun st m x => argEval env target f st m x) ih xs st m hi
            cases hr : argList (fun st m x => argEval env target f st m x) st m xs with
            | mk st2 r2 =>
              obtain ⟨m2, r⟩ := r2
              rw [hr] at h2
              obtain ⟨hi2, e2, he2⟩ := h2
              simp only at hi2 he2
              cases r with
              | error e => exact ⟨hi2, e2, he2⟩
              | ok ys =>
                simp only
                split
                · exact ⟨hi2.alloc _, e2, he2⟩
                · exact ⟨hi2, e2, he2⟩
          · exact triv _
    | _ => exact triv _

/-! the memo only grows (no entry is ever removed or replaced) -/

theorem argList_ext {f : St → Memo → Val → St × Memo × Except MErr Val}
    (hf : ∀ st m x, ∃ ext, (f st m x).2.1 = ext ++ m) :
    ∀ xs st m, ∃ ext, (argList f st m xs).2.1 = ext ++ m := by
  intro xs
  induction xs with
  | nil => intro st m; exact ⟨[], rfl⟩
  | cons x xs ih =>
    intro st m
    simp only [argList]
    obtain ⟨e1, he1⟩ := hf st m x
    cases hr : f st m x with
    | mk st1 r1 =>
      obtain ⟨m1, r⟩ := r1
      rw [hr] at he1
      simp only at he1
      cases r with
      | error e => exact ⟨e1, he1⟩
      | ok y =>
        simp only
        obtain ⟨e2, he2⟩ := ih st1 m1
        cases hr2 : argList f st1 m1 xs with
        | mk st2 r2 =>
          obtain ⟨m2, r'⟩ := r2
          rw [hr2] at he2
          simp only at he2
          cases r' <;> exact ⟨e2 ++ e1, by simp only [he2, he1, List.append_assoc]⟩

theorem argEntries_ext {f : St → Memo → Val → St × Memo × Except MErr Val}
    (hf : ∀ st m x, ∃ ext, (f st m x).2.1 = ext ++ m) :
    ∀ es st m acc, ∃ ext, (argEntries f st m es acc).2.1 = ext ++ m := by
  intro es
  induction es with
  | nil => intro st m acc; exact ⟨[], rfl⟩
  | cons e es ih =>
    intro st m acc
    obtain ⟨k, v⟩ := e
    simp only [argEntries]
    obtain ⟨e1, he1⟩ := hf st m k
    cases hr : f st m k with
    | mk st1 r1 =>
      obtain ⟨m1, r⟩ := r1
      rw [hr] at he1
      simp only at he1
      cases r with
      | error e => exact ⟨e1, he1⟩
      | ok k' =>
        simp only
        obtain ⟨e2, he2⟩ := hf st1 m1 v
        cases hr2 : f st1 m1 v with
        | mk st2 r2 =>
          obtain ⟨m2, r'⟩ := r2
          rw [hr2] at he2
          simp only at he2
          cases r' with
          | error e => exact ⟨e2 ++ e1, by simp only [he2, he1, List.append_assoc]⟩
          | ok v' =>
            simp only
            split
            · exact ⟨e2 ++ e1, by simp only [he2, he1, List.append_assoc]⟩
            · obtain ⟨e3, he3⟩ := ih st2 m2 (setEntry acc k' v')
              exact ⟨e3 ++ (e2 ++ e1), by rw [he3]; simp only [he2, he1, List.append_assoc]⟩

theorem argEval_ext (env : MEnv) (target : Val) :
    ∀ (fuel : Nat) (st : St) (m : Memo) (v : Val), ∃ ext, (argEval env target fuel st m v).2.1 = ext ++ m := by
  intro fuel
  induction fuel with
  | zero => intro st m v; exact ⟨[], rfl⟩
  | succ f ih =>
    intro st m v
    have triv : ∀ (r : Except MErr Val), ∃ ext, ((st, m, r) : St × Memo × Except MErr Val).2.1 = ext ++ m :=
      fun r => ⟨[], rfl⟩
    cases v with
    | ref a =>
      simp only [argEval]
      cases ho : st.heap[a]? with
      | none => exact triv _
      | some o =>
        cases o with
        | inst c steps =>
          simp only
          split
          · split <;> exact triv _
          · exact triv _
        | list c xs =>
          simp only
          split
          · cases hm : List.lookup a m with
            | some b => exact triv _
            | none =>
              simp only
              obtain ⟨e2, he2⟩ := argList_ext (f := fun st m x => argEval env target f st m x) ih xs
                (st.alloc (.list "list" [])) ((a, st.heap.length) :: m)
              cases hr : argList (fun st m x => argEval env target f st m x) (st.alloc (.list "list" []))
                  ((a, st.heap.length) :: m) xs with
              | mk st2 r2 =>
                obtain ⟨m2, r⟩ := r2
                rw [hr] at he2
                simp only at he2
                cases r <;> exact ⟨e2 ++ [(a, st.heap.length)], by simp [he2]⟩
          · exact triv _
        | dict c es =>
          simp only
          split
          · cases hm : List.lookup a m with
            | some b => exact triv _
            | none =>
              simp only
              obtain ⟨e2, he2⟩ := argEntries_ext (f := fun st m x => argEval env target f st m x) ih es
                (st.alloc (.dict "dict" [])) ((a, st.heap.length) :: m) []
              cases hr : argEntries (fun st m x => argEval env target f st m x) (st.alloc (.dict "dict" []))
                  ((a, st.heap.length) :: m) es [] with
              | mk st2 r2 =>
                obtain ⟨m2, r⟩ := r2
                rw [hr] at he2
                simp only at he2
                cases r <;> exact ⟨e2 ++ [(a, st.heap.length)], by simp [he2]⟩
          · exact triv _
        | tuple c xs =>
          simp only
          split
          · obtain ⟨e2, he2⟩ := argList_ext (f := fun st m x => argEval env target f st m x) ih xs st m
            cases hr : argList (fun st m x => argEval env target f st m x) st m xs with
            | mk st2 r2 =>
              obtain ⟨m2, r⟩ := r2
              rw [hr] at he2
              cases r <;> exact ⟨e2, he2⟩
          · exact triv _
        | set c xs =>
          simp only
          split
          · obtain ⟨e2, he2⟩ := argList_ext (f := fun st m x => argEval env target f st m x) ih xs st m
            cases hr : argList (fun st m x => argEval env target f st m x) st m xs with
            | mk st2 r2 =>
              obtain ⟨m2, r⟩ := r2
              rw [hr] at he2
              cases r with
              | error e => exact ⟨e2, he2⟩
              | ok ys =>
                simp only
                split <;> exact ⟨e2, he2⟩
          · exact triv _
    | _ => exact triv _

/-- what `arg_val` returns for an exact list / dict is its memo entry -/
theorem argEval_ref_memo (env : MEnv) (target : Val) (fuel : Nat) (st : St) (m : Memo) (a : Nat)
    (hreb : (∃ xs, st.heap[a]? = some (.list "list" xs)) ∨ (∃ es, st.heap[a]? = some (.dict "dict" es)))
    (st' : St) (m' : Memo) (w : Val)
    (hr : argEval env target fuel st m (.ref a) = (st', m', .ok w)) :
    ∃ b, w = .ref b ∧ (a, b) ∈ m' := by
  cases fuel with
  | zero => simp [argEval] at hr
  | succ f =>
    simp only [argEval] at hr
    rcases hreb with ⟨xs, hx⟩ | ⟨es, hx⟩
    · simp only [hx, beq_self_eq_true, if_true] at hr
      cases hm : List.lookup a m with
      | some b =>
        simp only [hm] at hr
        injection hr with h1 h2; injection h2 with h2 h3; injection h3 with h3
        subst h2; subst h3
        refine ⟨b, rfl, ?_⟩
        clear h1 hx
        induction m with
        | nil => simp [List.lookup] at hm
        | cons p r ih =>
          obtain ⟨k, v⟩ := p
          simp only [List.lookup] at hm
          split at hm
          · rename_i heq
            injection hm with hm; subst hm
            have : a = k := by simpa using heq
            subst this; simp
          · exact List.mem_cons_of_mem _ (ih hm)
      | none =>
        simp only [hm] at hr
        cases hl : argList (fun st m x => argEval env target f st m x) (st.alloc (.list "list" []))
            ((a, st.heap.length) :: m) xs with
        | mk st2 r2 =>
          obtain ⟨m2, r⟩ := r2
          rw [hl] at hr
          cases r with
          | error e => simp at hr
          | ok ys =>
            simp only at hr
            injection hr with h1 h2; injection h2 with h2 h3; injection h3 with h3
            subst h2; subst h3
            refine ⟨_, rfl, ?_⟩
            -- the memo only grows
            have : ∃ ext, m2 = ext ++ (a, st.heap.length) :: m := by
              have := argList_ext (f := fun st m x => argEval env target f st m x)
                (argEval_ext env target f) xs (st.alloc (.list "list" []))
                ((a, st.heap.length) :: m)
              rw [hl] at this; exact this
            obtain ⟨ext, he⟩ := this
            rw [he]; simp
    · simp only [hx, beq_self_eq_true, if_true] at hr
      cases hm : List.lookup a m with
      | some b =>
        simp only [hm] at hr
        injection hr with h1 h2; injection h2 with h2 h3; injection h3 with h3
        subst h2; subst h3
        refine ⟨b, rfl, ?_⟩
        clear h1 hx
        induction m with
        | nil => simp [List.lookup] at hm
        | cons p r ih =>
          obtain ⟨k, v⟩ := p
          simp only [List.lookup] at hm
          split at hm
          · rename_i heq
            injection hm with hm; subst hm
            have : a = k := by simpa using heq
            subst this; simp
          · exact List.mem_cons_of_mem _ (ih hm)
      | none =>
        simp only [hm] at hr
        cases hl : argEntries (fun st m x => argEval env target f st m x) (st.alloc (.dict "dict" []))
            ((a, st.heap.length) :: m) es [] with
        | mk st2 r2 =>
          obtain ⟨m2, r⟩ := r2
          rw [hl] at hr
          cases r with
          | error e => simp at hr
          | ok ys =>
            simp only at hr
            injection hr with h1 h2; injection h2 with h2 h3; injection h3 with h3
            subst h2; subst h3
            refine ⟨_, rfl, ?_⟩
            have : ∃ ext, m2 = ext ++ (a, st.heap.length) :: m := by
              have := argEntries_ext (f := fun st m x => argEval env target f st m x)
                (argEval_ext env target f) es (st.alloc (.dict "dict" []))
                ((a, st.heap.length) :: m) []
              rw [hl] at this; exact this
            obtain ⟨ext, he⟩ := this
            rw [he]; simp

end Glom.C11
