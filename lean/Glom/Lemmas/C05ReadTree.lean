import Glom.Lemmas.C05Read
import Glom.Lemmas.C05TextTree
/-
  C05 — clause 3 on the text of an evaluation tree: the reader of the checker, run over the text
  level by level along the path of the root error.
-/
set_option linter.unusedSimpArgs false
namespace Glom.C05

theorem lastErrLine_append_singleton (fs : Array Frame) (rootError : Nat) : ∀ (X : List Row) (last : Row) (b : Bool),
    (fs[last.frame]?).isSome = true → lastErrLine fs rootError (X ++ [last]) b = rowErrLine rootError last
  | [], last, b, h => by
    obtain ⟨f, hf⟩ := Option.isSome_iff_exists.mp h
    simp [lastErrLine, hf]
  | x :: X, last, b, h => by
    simp only [List.cons_append, lastErrLine]
    split <;> exact lastErrLine_append_singleton fs rootError X last _ h

theorem mem_dropLast_append_cons {α} (A0 : List α) (x : α) (B : List α) (r : α) (h : r ∈ A0) :
    r ∈ (A0 ++ x :: B).dropLast := by
  rw [List.dropLast_append_of_ne_nil (by simp)]
  exact List.mem_append_left _ h

theorem getLast?_drop {α} (l : List α) (k : Nat) (hk : k < l.length) : (l.drop k).getLast? = l.getLast? := by
  have : l = l.take k ++ l.drop k := (List.take_append_drop k l).symm
  have hne : l.drop k ≠ [] := by
    intro h0
    have := congrArg List.length h0
    simp at this
    omega
  conv => rhs; rw [this]
  rw [List.getLast?_append]
  cases hg : (l.drop k).getLast? with
  | none => exact absurd (List.getLast?_eq_none_iff.mp hg) hne
  | some x => simp

/-- reading the texts of earlier branches keeps the target in force at the row's depth -/
theorem foldl_branches_keep (inner : CallInfo) (d : Nat) : ∀ (Ts : List Str) (s : RS), (∀ T, T ∈ Ts → BranchText (d + 1) T) →
    getAt (Ts.foldl (fun s seg => readT inner seg s) s).1 d = getAt s.1 d
  | [], _, _ => rfl
  | T :: rest, s, h => by
    simp only [List.foldl_cons]
    rw [foldl_branches_keep inner d rest _ (fun T' hT' => h T' (List.mem_cons_of_mem _ hT'))]
    exact readT_branch inner T (d + 1) (h T (by simp)) s d (by omega)

/-- pieces none of whose `Spec:` lines shows the spec looked for keep the candidates -/
theorem foldl_found_keep (inner : CallInfo) : ∀ (Ts : List Str) (s : RS),
    (∀ T, T ∈ Ts → ∀ shown, shown ∈ SLT T → showsValue inner.spec inner.slen shown = false) →
    (Ts.foldl (fun s seg => readT inner seg s) s).2 = s.2
  | [], _, _ => rfl
  | T :: rest, s, h => by
    simp only [List.foldl_cons]
    rw [foldl_found_keep inner rest _ (fun T' hT' => h T' (List.mem_cons_of_mem _ hT'))]
    exact readT_found inner T s (h T (by simp))

theorem mem_branchTexts (recur : Nat → Option Nat → Bool → Str) (tid : Nat) (lb : Bool) (br : List Nat) (T : Str)
    (h : T ∈ branchTexts recur tid lb br) : ∃ b, b ∈ br ∧ ∃ l, T = recur b (some tid) l := by
  unfold branchTexts at h
  cases hb : br.reverse with
  | nil => rw [hb] at h; simp at h
  | cons lastB revInit =>
    rw [hb] at h
    have hbs : br = revInit.reverse ++ [lastB] := by
      have := congrArg List.reverse hb
      simpa using this
    simp only [List.mem_append, List.mem_map, List.mem_singleton] at h
    rcases h with ⟨b, hb', rfl⟩ | rfl
    · exact ⟨b, by rw [hbs]; simp [hb'], false, rfl⟩
    · exact ⟨lastB, by rw [hbs]; simp, lb, rfl⟩

theorem branchTexts_snoc (recur : Nat → Option Nat → Bool → Str) (tid : Nat) (lb : Bool) (init : List Nat) (h' : Nat) :
    branchTexts recur tid lb (init ++ [h']) = init.map (fun b => recur b (some tid) false) ++ [recur h' (some tid) lb] := by
  unfold branchTexts
  simp


/-! ### the setting of clause 3 -/

/-- the candidates contain a text that shows the target the innermost failing spec received -/
def Good (inner : CallInfo) (found : List Str) : Prop :=
  ∃ x, x ∈ found ∧ showsValue inner.target inner.tlen x = true

/-- the state in which the text of a start on the path is entered: at depth 0 nothing has been
    shown; deeper, the target in force one level up is the target of the row the branch hangs on -/
def EntryInv (fs : Array Frame) (d : Nat) (prev : Option Nat) (s : RS) : Prop :=
  (d = 0 ∧ prev = none) ∨ (1 ≤ d ∧ ∃ τ, prev = some τ ∧ ∃ x, getAt s.1 (d - 1) = some x ∧ ShowsTid fs τ x)

theorem EntryInv_level (fs : Array Frame) (d : Nat) (prev : Option Nat) (s : RS) (h : EntryInv fs d prev s) :
    LevelInv fs d prev (if d = 0 then s else copyUp d s).1 := by
  rcases h with ⟨rfl, rfl⟩ | ⟨hd, τ, rfl, x, hx, hsh⟩
  · intro τ hτ; simp at hτ
  · intro τ' hτ'
    simp only [Option.some.injEq] at hτ'
    subst hτ'
    rw [if_neg (by omega)]
    exact ⟨x, by simp only [copyUp]; rw [getAt_setAt_same]; exact hx, hsh⟩

/-- the hypotheses of clause 3 on the texts -/
structure C3Hyp (t : Tree) (errText : Nat → Str) (width : Nat) (inner : CallInfo) : Prop where
  hfs : FramesOneLine (replay (events t))
  herr : ErrQuiet errText
  htid : TidOK (replay (events t))
  /-- no call entered after the innermost failing call has a spec that, as rendered (at any depth
      `d'` it can be rendered at: a call is nested less deep than its number), reads as the
      innermost failing spec -/
  hU : ∀ c, c ∈ callsOf (events t) → inner.idx < c.idx → ∀ d', d' < c.idx →
    showsValue inner.spec inner.slen (formatValue c.spec c.slen ((width : Int) - ((d' + 9 : Nat) : Int))) = false

theorem frame_spec_nomatch (t : Tree) (hc : chainOk true t.root = true) (errText : Nat → Str) (inner : CallInfo)
    (width : Nat) (H : C3Hyp t errText width inner) (j d' : Nat) (f : Frame) (hj : inner.idx < j) (hd : d' < j)
    (hf : (replay (events t))[j]? = some f) :
    showsValue inner.spec inner.slen (specShown width f d') = false := by
  rcases replay_frame_cases t hc j f hf with ⟨h0, _, _⟩ | ⟨_, c, hcm, hidx, hs⟩
  · omega
  · unfold specShown
    rw [← hs.1, ← hs.2.2.2]
    exact H.hU c hcm (by omega) d' (by omega)

/-- the text of a branch entered after the innermost failing call has no line that reads as its spec -/
theorem branch_nomatch (t : Tree) (hc : chainOk true t.root = true) (errText : Nat → Str) (inner : CallInfo)
    (width : Nat) (H : C3Hyp t errText width inner) (fuel b d' : Nat) (p : Option Nat) (l : Bool)
    (hb1 : inner.idx < b) (hb2 : b < 1 + t.root.size) (hb0 : 1 ≤ b) (hdb : d' < b)
    (hr : Renderable (replay (events t)) fuel b) :
    ∀ shown, shown ∈ SLT (formatTrace (replay (events t)) errText t.err width fuel b d' p l) →
      showsValue inner.spec inner.slen shown = false := by
  intro shown hsh
  obtain ⟨q, hq, f, hf, rfl⟩ := SLT_mem_shown (replay (events t)) errText t.err width H.hfs H.herr.labelFree fuel b d' p l hr shown hsh
  have hge := shownRows_frame_ge t hc fuel b d' hb0 hb2 q hq
  have hdl := shownRows_depth_le t hc fuel b d' hb0 hb2 q hq
  exact frame_spec_nomatch t hc errText inner width H q.2.frame q.1 f (by omega) (by omega) hf


theorem pathLines_ne_nil' (fs : Array Frame) (width d : Nat) : ∀ (R : List Row) (prev : Option Nat), R ≠ [] →
    (∀ r, r ∈ R → (fs[r.frame]?).isSome = true) → pathLines fs width d R prev ≠ []
  | [], _, h, _ => absurd rfl h
  | r :: rest, prev, _, hf => by
    obtain ⟨f, hff⟩ := Option.isSome_iff_exists.mp (hf r (by simp))
    exact pathLines_ne_nil fs width d r rest prev f hff

/-- **clause 3, level by level**: reading the text of a start on the path of the root error from a
    state in which the target in force one level up is the target of the row the text hangs on,
    the candidates at the end contain the target the innermost failing spec received -/
theorem read_path (t : Tree) (hwf : t.wf = true) (errText : Nat → Str) (width : Nat) (inner : CallInfo)
    (H : C3Hyp t errText width inner) (hinner : inner ∈ callsOf (events t)) :
    ∀ (m fuel h d : Nat) (prev : Option Nat) (s : RS),
      startOK t.err 1 t.root h = true → d < h → (spineAt t.err 1 t.root h).length ≤ m →
      (spineAt t.err 1 t.root h).getLast? = some inner.idx →
      Renderable (replay (events t)) fuel h → EntryInv (replay (events t)) d prev s →
      Good inner (readT inner (formatTrace (replay (events t)) errText t.err width fuel h d prev true) s).2 := by
  intro m
  induction m with
  | zero =>
    intro fuel h d prev s _ _ hl hlast _ _
    have : spineAt t.err 1 t.root h = [] := List.eq_nil_of_length_eq_zero (by omega)
    rw [this] at hlast; simp at hlast
  | succ m ih =>
    intro fuel h d prev s hs hdh hl hlast hr hentry
    cases fuel with
    | zero => simp [Renderable] at hr
    | succ fuel =>
      have hwf' := hwf
      simp only [Tree.wf, Bool.and_eq_true] at hwf'
      obtain ⟨hc, ho⟩ := hwf'
      have hop : onePath t.err t.root = true := by simpa [Tree.root, onePath] using ho
      have hrange := startOK_range t.err t.root 1 h hs
      obtain ⟨_, hrows⟩ := hr
      obtain ⟨A, B, k, h1, h2, h3, h4, h5, h6, h7, h8, hx, hy, h9⟩ := rowsAt_spine t.err t.root 1 h hop hs
      obtain ⟨A0, last, rfl⟩ := exists_dropLast_getLast A h2
      -- the rows of `_unpack_stack`: the path rows (errors pushed down), then the rows below
      have hunp : unpack (replay (events t)) h =
          A0.map (fun r => { r with error := none }) ++ [last] ++ pushDown B := by
        rw [unpack_startOK t hwf h hs, h1, pushDown_run t.err _ B h2 h3 h4, clearErr_append_singleton]
      have hmem_last : last ∈ unpack (replay (events t)) h := by rw [hunp]; simp
      obtain ⟨fl, hfl⟩ := Option.isSome_iff_exists.mp (hrows last hmem_last).1
      have hlast_facts := unpack_row_facts t hc h hrange.1 hrange.2 last hmem_last
      have hR : ∀ r, r ∈ A0.map (fun r => { r with error := none }) →
          r.branches = [] ∧ rowErrLine t.err r = false ∧ ((replay (events t))[r.frame]?).isSome = true := by
        intro r hr
        obtain ⟨a, ha, rfl⟩ := List.mem_map.mp hr
        refine ⟨?_, by simp [rowErrLine], ?_⟩
        · exact rowsAt_nonlast_branches t.root 1 h a (by
            rw [h1, List.append_assoc]; exact mem_dropLast_append_cons A0 last B a ha)
        · exact (hrows _ (by rw [hunp]; exact List.mem_append_left _ (List.mem_append_left _ hr))).1
      have hel : rowErrLine t.err last = false := by
        have := h3 last (by simp)
        simp [rowErrLine, this]
      have hU := allSegs_path (replay (events t)) errText t.err width d true
        (fun b p l => formatTrace (replay (events t)) errText t.err width fuel b (d + 1) p l)
        (A0.map (fun r => { r with error := none })) last (pushDown B) prev fl hR hel hfl
      rw [← hunp, List.append_assoc] at hU
      have hframes : ∀ r, r ∈ A0.map (fun r => { r with error := none }) ++ [last] →
          1 ≤ r.frame ∧ ((replay (events t))[r.frame]?).isSome = true := by
        intro r hr
        have hm : r ∈ unpack (replay (events t)) h := by rw [hunp]; exact List.mem_append_left _ hr
        exact ⟨by have := (unpack_row_facts t hc h hrange.1 hrange.2 r hm).1; omega, (hrows r hm).1⟩
      have hne := pathLines_ne_nil' (replay (events t)) width d
        (A0.map (fun r => { r with error := none }) ++ [last]) prev (by simp) (fun r hr => (hframes r hr).2)
      -- every piece of the text starts with the gutter of its depth
      have hgp : ∀ T, T ∈ allSegs (replay (events t)) errText t.err width d true
          (fun b p l => formatTrace (replay (events t)) errText t.err width fuel b (d + 1) p l)
          (unpack (replay (events t)) h) prev → GPre (d + 3) T := by
        apply allSegs_GPre
        intro r hr b hb p l
        exact GPre_mono (by omega) (formatTrace_GPre _ errText t.err width fuel b (d + 1) p l ((hrows r hr).2 b hb))
      have hlle : lastErrLine (replay (events t)) t.err (unpack (replay (events t)) h) false = true →
          branchTexts (fun b p l => formatTrace (replay (events t)) errText t.err width fuel b (d + 1) p l) fl.tid true
            last.branches ++ allSegs (replay (events t)) errText t.err width d true
            (fun b p l => formatTrace (replay (events t)) errText t.err width fuel b (d + 1) p l) (pushDown B) (some fl.tid) ≠ [] := by
        intro hl0 hnil
        obtain ⟨_, hn2⟩ := List.append_eq_nil_iff.mp hnil
        have hpb : pushDown B = [] := by
          by_cases hpb : pushDown B = []
          · exact hpb
          · exact absurd hn2 (allSegs_ne_nil _ errText t.err width d true _ (pushDown B) (some fl.tid) hpb
              (fun r hr => (hrows r (by rw [hunp]; exact List.mem_append_right _ hr)).1))
        rw [hunp, hpb, List.append_nil, lastErrLine_append_singleton _ _ _ _ _ (hrows last hmem_last).1, hel] at hl0
        exact absurd hl0 (by simp)
      rw [readT_path_text inner (replay (events t)) errText t.err width fuel h d prev H.hfs _ _ s hU hne hlle]
      -- reading the lines of the path rows
      have hlev := EntryInv_level (replay (events t)) d prev s hentry
      obtain ⟨hinv1, hcand⟩ := read_pathLines inner (replay (events t)) width d H.htid
        (A0.map (fun r => { r with error := none })) last prev (if d = 0 then s else copyUp d s) fl hframes hfl hlev
      generalize ((pathLines (replay (events t)) width d (A0.map (fun r => { r with error := none }) ++ [last]) prev).foldl
        (rstep inner) (if d = 0 then s else copyUp d s)) = s1 at hinv1 hcand
      rcases h9 with h9 | ⟨hB, last', h', hl1, hl2, hn1, hn2⟩
      · -- the innermost failing call is the last path row of this text
        have hlf : last.frame = inner.idx := by
          have e1 : ((A0 ++ [last]).getLast?).map (·.frame) = some last.frame := by simp
          rw [e1, h9] at h8
          have e2 : (spineAt t.err 1 t.root h)[(spineAt t.err 1 t.root h).length - 1]? = some inner.idx := by
            rw [← List.getLast?_eq_getElem?]; exact hlast
          rw [e2] at h8
          exact (Option.some.inj h8)
        -- the frame of the innermost failing call
        have hik : inner ∈ callsK none 1 t.root := by rw [← callsOf_events]; exact hinner
        obtain ⟨f', hf', hsame⟩ := call_frameAt t.root none 0 none 1 inner hik
        have hff : f' = fl := by
          have h' : (replay (events t))[last.frame]? = some f' := by
            rw [hlf, (replay_frames t hc).2 inner.idx (callsK_idx_ge t.root none 1 inner hik)]; exact hf'
          rw [hfl] at h'; exact (Option.some.inj h').symm
        subst hff
        have hshows : showsValue inner.spec inner.slen (specShown width f' d) = true := by
          unfold specShown
          rw [hsame.1, hsame.2.2.2]
          exact showsValue_formatValue _ _ _
        obtain ⟨x, hx1, hx2⟩ := hcand hshows
        -- nothing below shows the spec looked for
        rw [foldl_found_keep inner _ s1 ?_]
        · refine ⟨x, by rw [hx1]; simp, ?_⟩
          have := hx2 last.frame f' (by omega) hfl rfl
          rw [hsame.2.1, hsame.2.2.1]
          exact this
        · intro T hT shown hsh
          -- the piece without the `X` mark
          have hT0 : ∃ T0, T0 ∈ branchTexts (fun b p l => formatTrace (replay (events t)) errText t.err width fuel b (d + 1) p l)
              f'.tid true last.branches ++ allSegs (replay (events t)) errText t.err width d true
              (fun b p l => formatTrace (replay (events t)) errText t.err width fuel b (d + 1) p l) (pushDown B) (some f'.tid) ∧
              shown ∈ SLT T0 := by
            split at hT
            · rcases mem_setLast _ _ hT with h' | ⟨T0, h0, rfl⟩
              · exact ⟨T, h', hsh⟩
              · refine ⟨T0, h0, ?_⟩
                have hg := hgp T0 (by rw [hU]; exact List.mem_append_right _ h0)
                unfold SLT at hsh ⊢
                rwa [linesMap_remark _ (fun g g' x hg hg' => afterLabel_gut_irrel _ g g' x hg hg') d 'X' T0
                  (GPre_mono (by omega) hg) (by decide)] at hsh
            · exact ⟨T, hT, hsh⟩
          obtain ⟨T0, hT0m, hsh0⟩ := hT0
          rcases List.mem_append.mp hT0m with hb | hb
          · obtain ⟨b, hbm, l, rfl⟩ := mem_branchTexts _ _ _ _ _ hb
            have hbf := hlast_facts.2.2 b hbm
            exact branch_nomatch t hc errText inner width H fuel b (d + 1) _ l (by omega) hbf.2 (by omega)
              (by have := hlast_facts.1; omega) ((hrows last hmem_last).2 b hbm) shown hsh0
          · obtain ⟨r, hrm, hcase⟩ := allSegs_SLT_mem _ errText t.err width d true _ H.hfs H.herr.labelFree
              (pushDown B) (some f'.tid) T0 shown hb hsh0
            have hru : r ∈ unpack (replay (events t)) h := by rw [hunp]; exact List.mem_append_right _ hrm
            have hrfacts := unpack_row_facts t hc h hrange.1 hrange.2 r hru
            -- rows below the innermost failing call are entered after it
            have hrgt : inner.idx < r.frame := by
              have hfr : r.frame ∈ B.map (·.frame) := by
                rw [← pushDown_frames]; exact List.mem_map_of_mem hrm
              have hsorted := rowsAt_sorted t.root 1 h hrange.1
              rw [h1, List.map_append, List.map_append, List.pairwise_append] at hsorted
              have := hsorted.2.2 last.frame (by simp) r.frame hfr
              omega
            rcases hcase with ⟨f, hf, rfl⟩ | ⟨b, hbm, p, l, hin⟩
            · exact frame_spec_nomatch t hc errText inner width H r.frame d f hrgt (by have := hrfacts.1; omega) hf
            · have hbf := hrfacts.2.2 b hbm
              exact branch_nomatch t hc errText inner width H fuel b (d + 1) p l (by omega) hbf.2 (by omega)
                (by have := hrfacts.1; omega) ((hrows r hru).2 b hbm) shown hin
      · -- the path goes on in the last branch of the last path row
        subst hB
        have hll : last' = last := by simpa using hl1.symm
        subst hll
        obtain ⟨init, hinit⟩ : ∃ init, last'.branches = init ++ [h'] := List.getLast?_eq_some_iff.mp hl2
        have hlle0 : lastErrLine (replay (events t)) t.err (unpack (replay (events t)) h) false = false := by
          rw [hunp]
          simp only [pushDown, List.append_nil]
          rw [lastErrLine_append_singleton _ _ _ _ _ (hrows last' hmem_last).1, hel]
        simp only [hlle0, Bool.false_eq_true, and_false, if_false, pushDown, allSegs, List.append_nil]
        rw [hinit, branchTexts_snoc, List.foldl_append]
        simp only [List.foldl_cons, List.foldl_nil]
        have hh' : h' ∈ last'.branches := by rw [hinit]; simp
        have hkeep := foldl_branches_keep inner d
          (init.map (fun b => formatTrace (replay (events t)) errText t.err width fuel b (d + 1) (some fl.tid) false)) s1 (by
            intro T hT
            obtain ⟨b, hbm, rfl⟩ := List.mem_map.mp hT
            exact branch_text _ errText t.err width H.hfs H.herr fuel b (d + 1) _ _
              ((hrows last' hmem_last).2 b (by rw [hinit]; simp [hbm])) (by omega))
        apply ih fuel h' (d + 1) (some fl.tid) _ hn1
        · have := (hlast_facts.2.2 h' hh').1
          have := hlast_facts.1
          omega
        · rw [hn2, List.length_drop]; omega
        · rw [hn2, getLast?_drop _ _ (by
            rcases Nat.lt_or_ge k (spineAt t.err 1 t.root h).length with hk | hk
            · exact hk
            · exfalso
              have : (spineAt t.err 1 t.root h).drop k = [] := List.drop_of_length_le hk
              have hr1 := startOK_range t.err t.root 1 h' hn1
              rw [this] at hn2
              -- a start on the path has a non-empty path
              obtain ⟨A', B', k', _, _, _, _, h5', h6', _⟩ := rowsAt_spine t.err t.root 1 h' hop hn1
              rw [hn2] at h6'
              simp at h6'
              omega)]
          exact hlast
        · exact (hrows last' hmem_last).2 h' hh'
        · right
          refine ⟨by omega, fl.tid, rfl, ?_⟩
          obtain ⟨x, hx1, hx2⟩ := hinv1 fl.tid rfl
          exact ⟨x, by simp only [Nat.add_sub_cancel]; rw [hkeep]; exact hx1, hx2⟩


/-! ### `TidOK` from the calls of the tree -/

def infosK : Kids → List Info
  | .nil => []
  | .cons _ i ks _ rest => i :: (infosK ks ++ infosK rest)

def Tree.infos (t : Tree) : List Info := infosK t.root

theorem frameAt_info : ∀ (K : Kids) (p : Nat) (prev : Option Nat) (n j : Nat) (f : Frame),
    frameAt p prev n K j = some f → ∃ i, i ∈ infosK K ∧ f.tid = i.tid ∧ f.target = i.target ∧ f.tlen = i.tlen := by
  intro K
  induction K with
  | nil => intro p prev n j f h; simp [frameAt] at h
  | cons ch i ks res rest ihks ihrest =>
    intro p prev n j f h
    rw [frameAt] at h
    split at h
    · refine ⟨i, by simp [infosK], ?_⟩
      simp only [Option.some.injEq] at h
      subst h
      split <;> exact ⟨rfl, rfl, rfl⟩
    · split at h
      · obtain ⟨i', hi', h1⟩ := ihks _ _ _ _ f h
        exact ⟨i', by simp only [infosK]; exact List.mem_cons_of_mem _ (List.mem_append_left _ hi'), h1⟩
      · obtain ⟨i', hi', h1⟩ := ihrest _ _ _ _ f h
        exact ⟨i', by simp only [infosK]; exact List.mem_cons_of_mem _ (List.mem_append_right _ hi'), h1⟩

/-- the identity of a target determines its text in the frame store, when it does among the calls
    of the tree (a decidable condition on a concrete tree) -/
theorem tidOK_of_infos (t : Tree) (hc : chainOk true t.root = true)
    (h : ∀ i, i ∈ t.infos → ∀ i', i' ∈ t.infos → i.tid = i'.tid → i.target = i'.target ∧ i.tlen = i'.tlen) :
    TidOK (replay (events t)) := by
  intro j j' f f' hj hj' hf hf' ht
  rw [(replay_frames t hc).2 j hj] at hf
  rw [(replay_frames t hc).2 j' hj'] at hf'
  obtain ⟨i, hi, h1, h2, h3⟩ := frameAt_info t.root 0 none 1 j f hf
  obtain ⟨i', hi', h1', h2', h3'⟩ := frameAt_info t.root 0 none 1 j' f' hf'
  have := h i hi i' hi' (by rw [← h1, ← h1', ht])
  rw [h2, h2', h3, h3']
  exact this


/-! ### clause 6: a rendered row that has branches is a call that raised -/

/-- the loop of `_unpack_stack` goes on only into frames that have a CUR_ERROR -/
theorem unpackLoop_rows_cur (fs : Array Frame) : ∀ (fuel cur : Nat) (acc : List Row) (r : Row),
    r ∈ unpackLoop fs fuel cur acc → r ∈ acc ∨ r.frame = cur ∨ ((fs[r.frame]?).bind (·.curError)).isSome = true := by
  intro fuel
  induction fuel with
  | zero => intro cur acc r hr; exact Or.inl (by simpa [unpackLoop] using hr)
  | succ fuel ih =>
    intro cur acc r hr
    unfold unpackLoop at hr
    cases hf : fs[cur]? with
    | none => rw [hf] at hr; exact Or.inl hr
    | some f =>
      rw [hf] at hr
      simp only at hr
      cases hlc : f.lastChild with
      | none =>
        rw [hlc] at hr
        simp only [List.mem_append, List.mem_singleton] at hr
        rcases hr with hr | hr
        · exact Or.inl hr
        · subst hr; exact Or.inr (Or.inl rfl)
      | some child =>
        rw [hlc] at hr
        simp only at hr
        generalize (if f.childErrors == [child] then [] else f.childErrors) = br at hr
        have hacc : ∀ r, r ∈ acc ++ [⟨cur, f.curError, br⟩] → r ∈ acc ∨ r.frame = cur := by
          intro r hr
          simp only [List.mem_append, List.mem_singleton] at hr
          rcases hr with hr | hr
          · exact Or.inl hr
          · subst hr; exact Or.inr rfl
        cases hc : br.contains child with
        | true =>
          rw [hc] at hr
          rcases hacc r hr with h | h
          · exact Or.inl h
          · exact Or.inr (Or.inl h)
        | false =>
          rw [hc] at hr
          simp only [Bool.false_eq_true, if_false] at hr
          by_cases hcn : ((fs[child]?).bind (·.curError)).isNone = true
          · rw [if_pos hcn] at hr
            rcases hacc r hr with h | h
            · exact Or.inl h
            · exact Or.inr (Or.inl h)
          · rw [if_neg hcn] at hr
            rcases ih child _ r hr with h | h | h
            · rcases hacc r h with h' | h'
              · exact Or.inl h'
              · exact Or.inr (Or.inl h')
            · refine Or.inr (Or.inr ?_)
              rw [h]
              cases hx : (fs[child]?).bind (·.curError) with
              | none => rw [hx] at hcn; simp at hcn
              | some _ => rfl
            · exact Or.inr (Or.inr h)

/-- the CUR_ERROR of a direct sub-evaluation is the outcome of the chain segment it belongs to -/
theorem frameAt_cur_sibling : ∀ (K : Kids) (p : Nat) (prev : Option Nat) (n b x : Nat), segResAt n K b = some x →
    (frameAt p prev n K b).bind (·.curError) = some x := by
  intro K
  induction K with
  | nil => intro p prev n b x h; simp [segResAt] at h
  | cons ch i ks res rest _ ihrest =>
    intro p prev n b x h
    simp only [segResAt] at h
    split at h
    · rename_i hb
      subst hb
      rw [frameAt_cur_first]; exact h
    · split at h
      · simp at h
      · rename_i h1 h2
        simp only [frameAt, if_neg h1, if_neg h2]
        exact ihrest _ _ _ _ _ h

/-- every failed head is the head of a chain segment that raised -/
theorem failedHeads_cur : ∀ (K : Kids) (h0 : Nat) (prev : Option Nat) (n : Nat) (first : Bool) (b : Nat),
    chainOk first K = true → b ∈ failedHeads h0 prev n K →
    (b = h0 ∧ (K.startsChained && prev.isSome) = true ∧ (segRes K).isSome = true) ∨
    (n ≤ b ∧ (segResAt n K b).isSome = true) := by
  intro K
  induction K with
  | nil => intro h0 prev n first b _ h; simp [failedHeads] at h
  | cons ch i ks res rest _ ihrest =>
    intro h0 prev n first b hck hb
    simp only [chainOk, Bool.and_eq_true, Bool.or_eq_true, Bool.not_eq_true'] at hck
    obtain ⟨⟨⟨_, _⟩, hres⟩, hckr⟩ := hck
    simp only [failedHeads, List.mem_append] at hb
    rcases hb with hb | hb
    · -- this sibling raised: its segment ends here
      by_cases hrs : res.isSome = true
      · rw [if_pos hrs] at hb
        simp only [List.mem_singleton] at hb
        have hrc : rest.startsChained = false := by
          rcases hres with h | h
          · exact h
          · cases res <;> simp at hrs h
        by_cases hc : (ch && prev.isSome) = true
        · left
          rw [if_pos hc] at hb
          exact ⟨hb, by simpa [Kids.startsChained] using hc, by simp [segRes, hrc, hrs]⟩
        · right
          rw [if_neg hc] at hb
          subst hb
          exact ⟨Nat.le_refl _, by simp [segResAt, segRes, hrc, hrs]⟩
      · rw [if_neg hrs] at hb; simp at hb
    · rcases ihrest _ (some n) (n + 1 + ks.size) false b hckr hb with ⟨hh, hcont, hseg⟩ | ⟨hge, hseg⟩
      · have hrc : rest.startsChained = true := by
          simp only [Bool.and_eq_true, Option.isSome_some, and_true] at hcont; exact hcont
        by_cases hc : (ch && prev.isSome) = true
        · left
          rw [if_pos hc] at hh
          exact ⟨hh, by simpa [Kids.startsChained] using hc, by simp [segRes, hrc, hseg]⟩
        · right
          rw [if_neg hc] at hh
          subst hh
          exact ⟨Nat.le_refl _, by simp [segResAt, segRes, hrc, hseg]⟩
      · right
        refine ⟨by omega, ?_⟩
        simp only [segResAt, if_neg (by omega : ¬ b = n), if_neg (by omega : ¬ b < n + 1 + ks.size)]
        exact hseg

/-- every frame in a frame's CHILD_ERRORS has a CUR_ERROR -/
theorem frameAt_childErrors_cur : ∀ (K : Kids) (p : Nat) (prev : Option Nat) (n j : Nat) (first : Bool) (f : Frame),
    chainOk first K = true → frameAt p prev n K j = some f → n ≤ j → ∀ b, b ∈ f.childErrors →
    ((frameAt p prev n K b).bind (·.curError)).isSome = true := by
  intro K
  induction K with
  | nil => intro p prev n j first f _ h; simp [frameAt] at h
  | cons ch i ks res rest ihks ihrest =>
    intro p prev n j first f hck h hnj b hb
    have hck' := hck
    simp only [chainOk, Bool.and_eq_true, Bool.or_eq_true, Bool.not_eq_true'] at hck'
    obtain ⟨⟨⟨_, hckk⟩, _⟩, hckr⟩ := hck'
    have hrange := frameAt_childErrors_range (.cons ch i ks res rest) p prev n j f h hnj b hb
    by_cases hjn : j = n
    · subst hjn
      simp only [frameAt, if_true, Option.some.injEq] at h
      split at h
      · -- handed on by chain_child: the only entry is the next step
        rename_i hrs
        subst h
        simp only at hb
        split at hb
        · rename_i hseg
          simp only [List.mem_singleton] at hb
          subst hb
          simp only [frameAt, if_neg (by omega : ¬ j + 1 + ks.size = j), if_neg (by omega : ¬ j + 1 + ks.size < j + 1 + ks.size)]
          rw [frameAt_cur_first]; exact hseg
        · simp at hb
      · subst h
        simp only at hb
        rcases failedHeads_cur ks j none (j + 1) true b hckk hb with ⟨_, hcont, _⟩ | ⟨hge, hseg⟩
        · simp at hcont
        · have hblt : b < j + 1 + ks.size := by
            rcases failedHeads_range ks j none (j + 1) b hb with h' | h'
            · omega
            · exact h'.2
          simp only [frameAt, if_neg (by omega : ¬ b = j), if_pos hblt]
          obtain ⟨x, hx⟩ := Option.isSome_iff_exists.mp hseg
          rw [frameAt_cur_sibling ks j none (j + 1) b x hx]; rfl
    · by_cases hjk : j < n + 1 + ks.size
      · simp only [frameAt, if_neg hjn, if_pos hjk] at h
        have hb2 := frameAt_childErrors_range ks n none (n + 1) j f h (by omega) b hb
        simp only [frameAt, if_neg (by omega : ¬ b = n), if_pos hb2.2]
        exact ihks n none (n + 1) j true f hckk h (by omega) b hb
      · simp only [frameAt, if_neg hjn, if_neg hjk] at h
        have hb2 := frameAt_childErrors_range rest p (some n) (n + 1 + ks.size) j f h (by omega) b hb
        simp only [frameAt, if_neg (by omega : ¬ b = n), if_neg (by omega : ¬ b < n + 1 + ks.size)]
        exact ihrest p (some n) (n + 1 + ks.size) j false f hckr h (by omega) b hb

/-- a frame whose row shows branches and that has a CUR_ERROR is the frame of a call that raised -/
theorem frameAt_branching_raised : ∀ (K : Kids) (o : Option Nat) (p : Nat) (prev : Option Nat) (n j : Nat) (f : Frame),
    frameAt p prev n K j = some f →
    (match f.lastChild with
      | some c => if f.childErrors == [c] then [] else f.childErrors
      | none => []) ≠ [] →
    f.curError.isSome = true →
    ∃ c, c ∈ callsK o n K ∧ c.idx = j ∧ c.result.isSome = true ∧ SameInfo c f := by
  intro K
  induction K with
  | nil => intro o p prev n j f h; simp [frameAt] at h
  | cons ch i ks res rest ihks ihrest =>
    intro o p prev n j f h hbr hcur
    rw [frameAt] at h
    split at h
    · rename_i hj
      simp only [Option.some.injEq] at h
      split at h
      · -- a completed step shows no branches
        exfalso
        subst h
        simp only at hbr
        split at hbr <;> simp at hbr
      · subst h
        simp only at hcur
        exact ⟨_, by simp only [callsK]; exact List.mem_cons_self, hj.symm, hcur, rfl, rfl, rfl, rfl⟩
    · split at h
      · obtain ⟨c, hc, h1, h2, h3⟩ := ihks (some n) n none (n + 1) j f h hbr hcur
        exact ⟨c, by simp only [callsK]; exact List.mem_cons_of_mem _ (List.mem_append_left _ hc), h1, h2, h3⟩
      · obtain ⟨c, hc, h1, h2, h3⟩ := ihrest o p (some n) (n + 1 + ks.size) j f h hbr hcur
        exact ⟨c, by simp only [callsK]; exact List.mem_cons_of_mem _ (List.mem_append_right _ hc), h1, h2, h3⟩

/-- **every rendered row's frame has a CUR_ERROR**, from a start that has one -/
theorem shownRows_cur (t : Tree) (hc : chainOk true t.root = true) :
    ∀ (fuel h d : Nat), 1 ≤ h → h < 1 + t.root.size →
      (((replay (events t))[h]?).bind (·.curError)).isSome = true →
      ∀ p, p ∈ shownRows (replay (events t)) fuel h d → (((replay (events t))[p.2.frame]?).bind (·.curError)).isSome = true
  | 0, _, _, _, _, _, p, hp => by simp [shownRows] at hp
  | fuel + 1, h, d, h1, h2, hcur, p, hp => by
    obtain ⟨hsz, hf⟩ := replay_frames t hc
    rw [shownRows_succ] at hp
    obtain ⟨r, hr, hp⟩ := List.mem_flatMap.mp hp
    obtain ⟨hr1, hr2, hr3⟩ := unpack_row_facts t hc h h1 h2 r hr
    -- the row's frame has a CUR_ERROR
    have hrcur : (((replay (events t))[r.frame]?).bind (·.curError)).isSome = true := by
      unfold unpack at hr
      have hr' : r ∈ pushDown (unpackLoop (replay (events t)) (replay (events t)).size h []) := (trimTail_prefix _).subset hr
      obtain ⟨r0, hm, hfr, _, _⟩ := pushDown_mem _ r hr'
      rcases unpackLoop_rows_cur _ _ _ _ r0 hm with h' | h' | h'
      · simp at h'
      · rw [hfr, h']; exact hcur
      · rw [hfr]; exact h'
    rcases List.mem_cons.mp hp with hp | hp
    · subst hp; exact hrcur
    · obtain ⟨b, hb, hp⟩ := List.mem_flatMap.mp hp
      have hbf := hr3 b hb
      -- a branch is one of the frame's CHILD_ERRORS
      have hsome := frameAt_isSome t.root 0 none 1 r.frame (by omega) hr2
      obtain ⟨f, hff⟩ := Option.isSome_iff_exists.mp hsome
      have hbo := unpack_branches _ h r hr
      have hbm : b ∈ f.childErrors := by
        rw [hbo] at hb
        simp only [branchesOf, hf r.frame (by omega), hff] at hb
        cases hlc : f.lastChild with
        | none => rw [hlc] at hb; simp at hb
        | some c =>
          rw [hlc] at hb
          simp only at hb
          split at hb
          · simp at hb
          · exact hb
      have hbcur := frameAt_childErrors_cur t.root 0 none 1 r.frame true f hc hff (by omega) b hbm
      exact shownRows_cur t hc fuel b (d + 1) (by omega) hbf.2 (by rw [hf b (by omega)]; exact hbcur) p hp

end Glom.C05
