import Glom.Lemmas.C11i
/-
  Helper lemmas for C11, part 10: **what `arg_val` returns is a copy of the literal with the
  literal's shape and sharing** (`Img` / `Closed`).

  `Img … v w`: `w` is the counterpart of `v` — itself for scalars, objects, subclass instances; the
  value of the path for a T-expression; the memo's entry for an exact list / dict; a tuple / set
  cell whose items are the counterparts of the original's items.
  `Closed … (a, b)`: the rebuilt cell `b` holds, item by item (entry by entry), the counterparts of
  what the original cell `a` holds.
  Since the memo is a partial injection (`MemoInv`), every route to an original list / dict leads
  to the ONE cell the memo gives for it: the rebuilt value has the sharing (and the cycles) of
  the literal.
-/
namespace Glom.C11
open Glom Glom.Mut

inductive All2 {α β : Type} (R : α → β → Prop) : List α → List β → Prop
  | nil : All2 R [] []
  | cons {a b as bs} : R a b → All2 R as bs → All2 R (a :: as) (b :: bs)

theorem All2.imp {α β : Type} {R S : α → β → Prop} (h : ∀ a b, R a b → S a b) :
    ∀ {l1 : List α} {l2 : List β}, All2 R l1 l2 → All2 S l1 l2 := by
  intro l1 l2 hr
  induction hr with
  | nil => exact .nil
  | cons hab _ ih => exact .cons (h _ _ hab) ih

/-- the value lives in `h0`: a scalar, or a reference to one of its cells -/
def inH (h0 : Heap) : Val → Prop
  | .ref a => a < h0.length
  | _ => True

/-- every reference stored in a cell of `h0` points into `h0` (true of the heap of a program) -/
def ClosedHeap (h0 : Heap) : Prop := ∀ (a : Nat) (o : Obj), h0[a]? = some o → ∀ x ∈ cellVals o, inH h0 x

/-- how arg mode treats a value -/
inductive VKind where
  | self                                 -- evaluates to itself
  | tleaf (steps : List Step)            -- a T-expression
  | lst (a : Nat) (xs : List Val)        -- an exact list: through the memo
  | dct (a : Nat) (es : List (Val × Val))  -- an exact dict: through the memo
  | tup (xs : List Val)                  -- an exact non-empty tuple: rebuilt per occurrence
  | setk (c : String) (xs : List Val)    -- an exact set / non-empty frozenset: rebuilt per occurrence

def vkind (env : MEnv) (h : Heap) : Val → VKind
  | .ref a =>
    match h[a]? with
    | some (.inst c steps) => if env.flag c "tleaf" then .tleaf steps else .self
    | some (.list c xs) => if c == "list" then .lst a xs else .self
    | some (.dict c es) => if c == "dict" then .dct a es else .self
    | some (.tuple c xs) => if c == "tuple" && !xs.isEmpty then .tup xs else .self
    | some (.set c xs) => if c == "set" || (c == "frozenset" && !xs.isEmpty) then .setk c xs else .self
    | none => .self
  | _ => .self

theorem vkind_congr (env : MEnv) {h h' : Heap} {v : Val} (hv : ∀ a, v = .ref a → h'[a]? = h[a]?) :
    vkind env h' v = vkind env h v := by
  cases v with
  | ref a => simp only [vkind, hv a rfl]
  | _ => rfl

/-- `argEval` by the kind of the value -/
theorem argEval_unfold (env : MEnv) (target : Val) (f : Nat) (st : St) (m : Memo) (v : Val) :
    argEval env target (f + 1) st m v =
      match vkind env st.heap v with
      | .self => (st, m, .ok v)
      | .tleaf steps =>
        (match fetch env st.heap steps 0 target with
         | .ok (.leaf w) => (st, m, .ok w)
         | .ok (.node _) => (st, m, .error .unmodelled)
         | .error e => (st, m, .error e))
      | .lst a xs =>
        (match m.lookup a with
         | some b => (st, m, .ok (.ref b))
         | none =>
           match argList (fun st m x => argEval env target f st m x) (st.alloc (.list "list" []))
               ((a, st.heap.length) :: m) xs with
           | (st2, m2, .ok ys) => (st2.fill st.heap.length (.list "list" ys), m2, .ok (.ref st.heap.length))
           | (st2, m2, .error e) => (st2, m2, .error e))
      | .dct a es =>
        (match m.lookup a with
         | some b => (st, m, .ok (.ref b))
         | none =>
           match argEntries (fun st m x => argEval env target f st m x) (st.alloc (.dict "dict" []))
               ((a, st.heap.length) :: m) es [] with
           | (st2, m2, .ok es') => (st2.fill st.heap.length (.dict "dict" es'), m2, .ok (.ref st.heap.length))
           | (st2, m2, .error e) => (st2, m2, .error e))
      | .tup xs =>
        (match argList (fun st m x => argEval env target f st m x) st m xs with
         | (st2, m2, .ok ys) => (st2.alloc (.tuple "tuple" ys), m2, .ok (.ref st2.heap.length))
         | (st2, m2, .error e) => (st2, m2, .error e))
      | .setk c xs =>
        (match argList (fun st m x => argEval env target f st m x) st m xs with
         | (st2, m2, .ok ys) =>
           if allHashable st2.heap ys then (st2.alloc (.set c ys), m2, .ok (.ref st2.heap.length))
           else (st2, m2, .error (.raised (exc "TypeError")))
         | (st2, m2, .error e) => (st2, m2, .error e)) := by
  cases v with
  | ref a =>
    simp only [argEval, vkind]
    cases ho : st.heap[a]? with
    | none => rfl
    | some o =>
      cases o with
      | inst c steps => simp only; split <;> rfl
      | list c xs => simp only; split <;> rfl
      | dict c es => simp only; split <;> rfl
      | tuple c xs => simp only; split <;> rfl
      | set c xs => simp only; split <;> rfl
  | _ => rfl

/-- **`w` is the counterpart of `v`** in the rebuilt value (`H`: the heap afterwards, `M`: the memo;
    the index bounds the nesting of tuples / sets) -/
def Img (env : MEnv) (target : Val) (h0 H : Heap) (M : Memo) : Nat → Val → Val → Prop
  | 0, _, _ => False
  | n + 1, v, w =>
    match vkind env h0 v with
    | .self => w = v
    | .tleaf steps => ∃ Hm, Pres h0 Hm ∧ fetch env Hm steps 0 target = .ok (.leaf w)
    | .lst a _ => ∃ b, w = .ref b ∧ (a, b) ∈ M
    | .dct a _ => ∃ b, w = .ref b ∧ (a, b) ∈ M
    | .tup xs => ∃ t ys, w = .ref t ∧ H[t]? = some (.tuple "tuple" ys) ∧ All2 (Img env target h0 H M n) xs ys
    | .setk c xs => ∃ t ys, w = .ref t ∧ H[t]? = some (.set c ys) ∧ All2 (Img env target h0 H M n) xs ys

/-- the entries a rebuilt dict holds for the rebuilt (key, value) pairs `ps` -/
def foldEntries (acc : List (Val × Val)) (ps : List (Val × Val)) : List (Val × Val) :=
  ps.foldl (fun acc q => setEntry acc q.1 q.2) acc

/-- **the rebuilt cell holds the counterparts of what the original holds**, in order -/
def Closed (env : MEnv) (target : Val) (h0 H : Heap) (M : Memo) (p : Nat × Nat) : Prop :=
  ∃ n, match vkind env h0 (.ref p.1) with
    | .lst _ xs => ∃ ys, H[p.2]? = some (.list "list" ys) ∧ All2 (Img env target h0 H M n) xs ys
    | .dct _ es => ∃ ps, H[p.2]? = some (.dict "dict" (foldEntries [] ps)) ∧
        All2 (fun e q => Img env target h0 H M n e.1 q.1 ∧ Img env target h0 H M n e.2 q.2) es ps
    | _ => True

def isTupSet : Obj → Bool
  | .tuple .. => true
  | .set .. => true
  | _ => false

/-- counterparts stay counterparts when tuple / set cells are kept and the memo grows -/
theorem Img_mono (env : MEnv) (target : Val) (h0 : Heap) {H H' : Heap} {M M' : Memo}
    (hT : ∀ (t : Nat) (o : Obj), H[t]? = some o → isTupSet o = true → H'[t]? = some o)
    (hM : ∀ p, p ∈ M → p ∈ M') :
    ∀ (n : Nat) (v w : Val), Img env target h0 H M n v w → Img env target h0 H' M' n v w := by
  intro n
  induction n with
  | zero => intro v w h; exact h.elim
  | succ k ih =>
    intro v w h
    simp only [Img] at h ⊢
    cases hk : vkind env h0 v with
    | self => rw [hk] at h; exact h
    | tleaf steps => rw [hk] at h; exact h
    | lst a xs =>
      rw [hk] at h
      obtain ⟨b, hb, hm⟩ := h
      exact ⟨b, hb, hM _ hm⟩
    | dct a es =>
      rw [hk] at h
      obtain ⟨b, hb, hm⟩ := h
      exact ⟨b, hb, hM _ hm⟩
    | tup xs =>
      rw [hk] at h
      obtain ⟨t, ys, hw, ht, hall⟩ := h
      exact ⟨t, ys, hw, hT t _ ht rfl, hall.imp (fun a b hab => ih a b hab)⟩
    | setk c xs =>
      rw [hk] at h
      obtain ⟨t, ys, hw, ht, hall⟩ := h
      exact ⟨t, ys, hw, hT t _ ht rfl, hall.imp (fun a b hab => ih a b hab)⟩

theorem Closed_mono (env : MEnv) (target : Val) (h0 : Heap) {H H' : Heap} {M M' : Memo} {p : Nat × Nat}
    (hT : ∀ (t : Nat) (o : Obj), H[t]? = some o → isTupSet o = true → H'[t]? = some o)
    (hB : H'[p.2]? = H[p.2]?) (hM : ∀ q, q ∈ M → q ∈ M')
    (h : Closed env target h0 H M p) : Closed env target h0 H' M' p := by
  obtain ⟨n, h⟩ := h
  refine ⟨n, ?_⟩
  cases hk : vkind env h0 (.ref p.1) with
  | lst a xs =>
    rw [hk] at h
    obtain ⟨ys, hc, hall⟩ := h
    exact ⟨ys, by rw [hB]; exact hc, hall.imp (fun a b hab => Img_mono env target h0 hT hM n a b hab)⟩
  | dct a es =>
    rw [hk] at h
    obtain ⟨ps, hc, hall⟩ := h
    exact ⟨ps, by rw [hB]; exact hc, hall.imp (fun a b hab =>
      ⟨Img_mono env target h0 hT hM n _ _ hab.1, Img_mono env target h0 hT hM n _ _ hab.2⟩)⟩
  | self => trivial
  | tleaf s => trivial
  | tup xs => trivial
  | setk c xs => trivial

/-! ### the induction -/

/-- the running state of an `arg_val` evaluation relative to the heap `h0` before it -/
structure Good (h0 : Heap) (st : St) (m : Memo) : Prop where
  pres : Pres h0 st.heap
  len : h0.length ≤ st.heap.length
  inv : MemoInv h0.length st m

theorem pres_hT {H H' : Heap} (hp : Pres H H') :
    ∀ (t : Nat) (o : Obj), H[t]? = some o → isTupSet o = true → H'[t]? = some o := by
  intro t o ht _
  have hlt : t < H.length := (List.getElem?_eq_some_iff.1 ht).1
  rw [hp t hlt]; exact ht

theorem mem_of_ext {m m' e : Memo} (he : m' = e ++ m) : ∀ p, p ∈ m → p ∈ m' := by
  intro p hp; rw [he]; exact List.mem_append_right _ hp

/-- what one step of the evaluation establishes about the states around it -/
structure IsoStep (env : MEnv) (target : Val) (h0 : Heap) (st : St) (m : Memo) (st' : St) (m' : Memo) :
    Prop where
  good : Good h0 st' m'
  ok : ArgOK st st'
  ext : ∃ e, m' = e ++ m
  closed : ∀ p ∈ m', p ∉ m → Closed env target h0 st'.heap m' p

theorem IsoStep.refl {env : MEnv} {target : Val} {h0 : Heap} {st : St} {m : Memo} (hg : Good h0 st m) :
    IsoStep env target h0 st m st m :=
  ⟨hg, ArgOK.refl _, ⟨[], rfl⟩, fun p hp hn => absurd hp hn⟩

theorem IsoStep.trans {env : MEnv} {target : Val} {h0 : Heap} {st st1 st2 : St} {m m1 m2 : Memo}
    (hg : Good h0 st m) (h1 : IsoStep env target h0 st m st1 m1) (h2 : IsoStep env target h0 st1 m1 st2 m2) :
    IsoStep env target h0 st m st2 m2 := by
  obtain ⟨e1, he1⟩ := h1.ext
  obtain ⟨e2, he2⟩ := h2.ext
  refine ⟨h2.good, h1.ok.trans h2.ok, ⟨e2 ++ e1, by rw [he2, he1, List.append_assoc]⟩, ?_⟩
  intro p hp hn
  by_cases hp1 : p ∈ m1
  · have hc := h1.closed p hp1 hn
    have hlt : p.2 < st1.heap.length := (h1.good.inv.fresh p hp1).2
    exact Closed_mono env target h0 (pres_hT h2.ok.pres) (h2.ok.pres p.2 hlt) (mem_of_ext he2) hc
  · exact h2.closed p hp hp1

theorem Img_lift {env : MEnv} {target : Val} {h0 : Heap} {st st' : St} {m m' : Memo}
    (h : IsoStep env target h0 st m st' m') {n : Nat} {v w : Val}
    (hi : Img env target h0 st.heap m n v w) : Img env target h0 st'.heap m' n v w := by
  obtain ⟨e, he⟩ := h.ext
  exact Img_mono env target h0 (pres_hT h.ok.pres) (mem_of_ext he) n v w hi

theorem vkind_h0 (env : MEnv) {h0 : Heap} {st : St} {m : Memo} (hg : Good h0 st m) {v : Val}
    (hv : inH h0 v) : vkind env st.heap v = vkind env h0 v := by
  apply vkind_congr
  intro a ha
  subst ha
  exact hg.pres a hv

theorem lookup_some_mem {m : Memo} {a b : Nat} (h : List.lookup a m = some b) : (a, b) ∈ m := by
  induction m with
  | nil => simp [List.lookup] at h
  | cons p r ih =>
    obtain ⟨k, v⟩ := p
    simp only [List.lookup] at h
    split at h
    · rename_i heq
      injection h with h; subst h
      have : a = k := by simpa using heq
      subst this; simp
    · exact List.mem_cons_of_mem _ (ih h)

theorem vkind_lst {env : MEnv} {h0 : Heap} {v : Val} {a : Nat} {xs : List Val}
    (h : vkind env h0 v = .lst a xs) : v = .ref a ∧ h0[a]? = some (.list "list" xs) := by
  cases v with
  | ref b =>
    simp only [vkind] at h
    cases ho : h0[b]? with
    | none => simp [ho] at h
    | some o =>
      cases o with
      | list c ys =>
        simp only [ho] at h
        split at h
        · rename_i hc
          injection h with h1 h2
          subst h1; subst h2
          have : c = "list" := by simpa using hc
          subst this
          exact ⟨rfl, ho⟩
        · cases h
      | inst c st => simp only [ho] at h; split at h <;> cases h
      | dict c es => simp only [ho] at h; split at h <;> cases h
      | tuple c ys => simp only [ho] at h; split at h <;> cases h
      | set c ys => simp only [ho] at h; split at h <;> cases h
  | _ => simp [vkind] at h

theorem vkind_dct {env : MEnv} {h0 : Heap} {v : Val} {a : Nat} {es : List (Val × Val)}
    (h : vkind env h0 v = .dct a es) : v = .ref a ∧ h0[a]? = some (.dict "dict" es) := by
  cases v with
  | ref b =>
    simp only [vkind] at h
    cases ho : h0[b]? with
    | none => simp [ho] at h
    | some o =>
      cases o with
      | dict c ys =>
        simp only [ho] at h
        split at h
        · rename_i hc
          injection h with h1 h2
          subst h1; subst h2
          have : c = "dict" := by simpa using hc
          subst this
          exact ⟨rfl, ho⟩
        · cases h
      | inst c st => simp only [ho] at h; split at h <;> cases h
      | list c es => simp only [ho] at h; split at h <;> cases h
      | tuple c ys => simp only [ho] at h; split at h <;> cases h
      | set c ys => simp only [ho] at h; split at h <;> cases h
  | _ => simp [vkind] at h

/-- the items of a rebuilt tuple / set are items of a cell of `h0` -/
theorem vkind_items {env : MEnv} {h0 : Heap} {v : Val} {xs : List Val}
    (h : vkind env h0 v = .tup xs ∨ ∃ c, vkind env h0 v = .setk c xs) :
    ∃ (a : Nat) (o : Obj), h0[a]? = some o ∧ cellVals o = xs := by
  cases v with
  | ref b =>
    simp only [vkind] at h
    cases ho : h0[b]? with
    | none => simp [ho] at h
    | some o =>
      refine ⟨b, o, ho, ?_⟩
      cases o with
      | tuple c ys =>
        simp only [ho] at h
        rcases h with h | ⟨c', h⟩
        · split at h
          · injection h with h <;> (subst h; rfl)
          · cases h
        · split at h <;> cases h
      | set c ys =>
        simp only [ho] at h
        rcases h with h | ⟨c', h⟩
        · split at h <;> cases h
        · split at h
          · injection h with _ h <;> (subst h; rfl)
          · cases h
      | inst c st => simp only [ho] at h; rcases h with h | ⟨c', h⟩ <;> (split at h <;> cases h)
      | list c es => simp only [ho] at h; rcases h with h | ⟨c', h⟩ <;> (split at h <;> cases h)
      | dict c ys => simp only [ho] at h; rcases h with h | ⟨c', h⟩ <;> (split at h <;> cases h)
  | _ => simp [vkind] at h

theorem argList_iso {env : MEnv} {target : Val} {h0 : Heap} {n : Nat}
    {f : St → Memo → Val → St × Memo × Except MErr Val}
    (hf : ∀ st m x st' m' w, Good h0 st m → inH h0 x → f st m x = (st', m', .ok w) →
      IsoStep env target h0 st m st' m' ∧ Img env target h0 st'.heap m' n x w) :
    ∀ (xs : List Val) (st : St) (m : Memo) (st' : St) (m' : Memo) (ys : List Val), Good h0 st m →
      (∀ x ∈ xs, inH h0 x) → argList f st m xs = (st', m', .ok ys) →
      IsoStep env target h0 st m st' m' ∧ All2 (Img env target h0 st'.heap m' n) xs ys := by
  intro xs
  induction xs with
  | nil =>
    intro st m st' m' ys hg _ hr
    simp only [argList] at hr
    injection hr with h1 h2; injection h2 with h2 h3; injection h3 with h3
    subst h1; subst h2; subst h3
    exact ⟨IsoStep.refl hg, .nil⟩
  | cons x xs ih =>
    intro st m st' m' ys hg hin hr
    simp only [argList] at hr
    cases hfx : f st m x with
    | mk st1 r1 =>
      obtain ⟨m1, r⟩ := r1
      rw [hfx] at hr
      cases r with
      | error e => simp at hr
      | ok y =>
        simp only at hr
        cases hrest : argList f st1 m1 xs with
        | mk st2 r2 =>
          obtain ⟨m2, r'⟩ := r2
          rw [hrest] at hr
          cases r' with
          | error e => simp at hr
          | ok ys' =>
            simp only at hr
            injection hr with h1 h2; injection h2 with h2 h3; injection h3 with h3
            subst h1; subst h2; subst h3
            obtain ⟨s1, i1⟩ := hf st m x st1 m1 y hg (hin x (by simp)) hfx
            obtain ⟨s2, a2⟩ := ih st1 m1 st2 m2 ys' s1.good (fun z hz => hin z (by simp [hz])) hrest
            exact ⟨IsoStep.trans hg s1 s2, .cons (Img_lift s2 i1) a2⟩

theorem argEntries_iso {env : MEnv} {target : Val} {h0 : Heap} {n : Nat}
    {f : St → Memo → Val → St × Memo × Except MErr Val}
    (hf : ∀ st m x st' m' w, Good h0 st m → inH h0 x → f st m x = (st', m', .ok w) →
      IsoStep env target h0 st m st' m' ∧ Img env target h0 st'.heap m' n x w) :
    ∀ (es : List (Val × Val)) (st : St) (m : Memo) (acc : List (Val × Val)) (st' : St) (m' : Memo)
      (res : List (Val × Val)), Good h0 st m →
      (∀ e ∈ es, inH h0 e.1 ∧ inH h0 e.2) → argEntries f st m es acc = (st', m', .ok res) →
      IsoStep env target h0 st m st' m' ∧ ∃ ps, res = foldEntries acc ps ∧
        All2 (fun e q => Img env target h0 st'.heap m' n e.1 q.1 ∧ Img env target h0 st'.heap m' n e.2 q.2)
          es ps := by
  intro es
  induction es with
  | nil =>
    intro st m acc st' m' res hg _ hr
    simp only [argEntries] at hr
    injection hr with h1 h2; injection h2 with h2 h3; injection h3 with h3
    subst h1; subst h2; subst h3
    exact ⟨IsoStep.refl hg, [], rfl, .nil⟩
  | cons e es ih =>
    intro st m acc st' m' res hg hin hr
    obtain ⟨k, v⟩ := e
    simp only [argEntries] at hr
    cases hfk : f st m k with
    | mk st1 r1 =>
      obtain ⟨m1, r⟩ := r1
      rw [hfk] at hr
      cases r with
      | error e => simp at hr
      | ok k' =>
        simp only at hr
        cases hfv : f st1 m1 v with
        | mk st2 r2 =>
          obtain ⟨m2, r'⟩ := r2
          rw [hfv] at hr
          cases r' with
          | error e => simp at hr
          | ok v' =>
            simp only at hr
            split at hr
            · simp at hr
            · obtain ⟨s1, i1⟩ := hf st m k st1 m1 k' hg (hin (k, v) (by simp)).1 hfk
              obtain ⟨s2, i2⟩ := hf st1 m1 v st2 m2 v' s1.good (hin (k, v) (by simp)).2 hfv
              obtain ⟨s3, ps, hres, a3⟩ := ih st2 m2 (setEntry acc k' v') st' m' res s2.good
                (fun z hz => hin z (by simp [hz])) hr
              refine ⟨IsoStep.trans hg (IsoStep.trans hg s1 s2) s3, (k', v') :: ps, ?_, ?_⟩
              · rw [hres]; rfl
              · exact .cons ⟨Img_lift s3 (Img_lift s2 i1), Img_lift s3 i2⟩ a3

theorem nodup_map_inj {α β : Type} {f : α → β} : ∀ {l : List α}, (l.map f).Nodup → ∀ {a b : α},
    a ∈ l → b ∈ l → f a = f b → a = b := by
  intro l
  induction l with
  | nil => intro _ a b ha; simp at ha
  | cons x r ih =>
    intro hn a b ha hb hab
    simp only [List.map_cons, List.nodup_cons] at hn
    rcases List.mem_cons.1 ha with rfl | ha'
    · rcases List.mem_cons.1 hb with rfl | hb'
      · rfl
      · exact absurd (List.mem_map.2 ⟨b, hb', hab.symm⟩) hn.1
    · rcases List.mem_cons.1 hb with rfl | hb'
      · exact absurd (List.mem_map.2 ⟨a, ha', hab⟩) hn.1
      · exact ih hn.2 ha' hb' hab

/-- closing a list / dict: the step from the state after the children to the state with the cell filled -/
theorem IsoStep.fill {env : MEnv} {target : Val} {h0 : Heap} {st : St} {m : Memo} {st2 : St} {m2 : Memo}
    {a : Nat} {o0 o : Obj} (hnts : isTupSet o0 = false)
    (h2 : IsoStep env target h0 (st.alloc o0) ((a, st.heap.length) :: m) st2 m2)
    (hg1 : Good h0 (st.alloc o0) ((a, st.heap.length) :: m))
    (hcl : Closed env target h0 (st2.fill st.heap.length o).heap m2 (a, st.heap.length)) :
    Good h0 (st2.fill st.heap.length o) m2 ∧
    (∀ p ∈ m2, p ∉ m → Closed env target h0 (st2.fill st.heap.length o).heap m2 p) ∧
    (∀ n v w, Img env target h0 st2.heap m2 n v w → Img env target h0 (st2.fill st.heap.length o).heap m2 n v w) := by
  obtain ⟨e2, he2⟩ := h2.ext
  have hb1 : (st.alloc o0).heap[st.heap.length]? = some o0 := by simp [St.alloc]
  have hblt : st.heap.length < (st.alloc o0).heap.length := by simp [St.alloc]
  have hb2 : st2.heap[st.heap.length]? = some o0 := by rw [h2.ok.pres _ hblt]; exact hb1
  have hT : ∀ (t : Nat) (o' : Obj), st2.heap[t]? = some o' → isTupSet o' = true →
      (st2.fill st.heap.length o).heap[t]? = some o' := by
    intro t o' ht hts
    have hne : st.heap.length ≠ t := by
      intro e; subst e; rw [hb2] at ht; injection ht with ht; subst ht; rw [hnts] at hts; cases hts
    simp only [St.fill, List.getElem?_set_ne hne]; exact ht
  have hmem : (a, st.heap.length) ∈ m2 := by rw [he2]; simp
  refine ⟨⟨?_, ?_, h2.good.inv.fill _ _⟩, ?_, ?_⟩
  · intro c hc
    have hne : st.heap.length ≠ c := by
      have := (hg1.inv.fresh (a, st.heap.length) (by simp)).1
      simp only at this; omega
    simp only [St.fill, List.getElem?_set_ne hne]
    exact h2.good.pres c hc
  · simpa [St.fill] using h2.good.len
  · intro p hp hn
    by_cases hpe : p = (a, st.heap.length)
    · subst hpe; exact hcl
    · have hp1 : p ∉ (a, st.heap.length) :: m := by
        intro hh
        rcases List.mem_cons.1 hh with h | h
        · exact hpe h
        · exact hn h
      have hc := h2.closed p hp hp1
      have hne : st.heap.length ≠ p.2 := by
        intro e
        have := nodup_map_inj h2.good.inv.vals hp hmem (by simp [← e])
        exact hpe this
      exact Closed_mono env target h0 hT (by simp only [St.fill, List.getElem?_set_ne hne]) (fun q hq => hq) hc
  · intro n v w hi
    exact Img_mono env target h0 hT (fun q hq => hq) n v w hi


theorem closedHeap_list {h0 : Heap} (hc : ClosedHeap h0) {a : Nat} {c : String} {xs : List Val}
    (h : h0[a]? = some (.list c xs)) : ∀ x ∈ xs, inH h0 x := fun x hx => hc a _ h x hx

theorem closedHeap_dict {h0 : Heap} (hc : ClosedHeap h0) {a : Nat} {c : String} {es : List (Val × Val)}
    (h : h0[a]? = some (.dict c es)) : ∀ e ∈ es, inH h0 e.1 ∧ inH h0 e.2 := by
  intro e he
  have hall := hc a _ h
  simp only [cellVals] at hall
  exact ⟨hall e.1 (List.mem_flatMap.2 ⟨e, he, by simp⟩), hall e.2 (List.mem_flatMap.2 ⟨e, he, by simp⟩)⟩

/-- **the induction**: every step of `arg_val` returns the counterpart of the value it was given, and
    closes every list / dict it entered into the memo -/
theorem argEval_iso (env : MEnv) (target : Val) (h0 : Heap) (hc : ClosedHeap h0) :
    ∀ (n : Nat) (st : St) (m : Memo) (v : Val) (st' : St) (m' : Memo) (w : Val),
    Good h0 st m → inH h0 v → argEval env target n st m v = (st', m', .ok w) →
    IsoStep env target h0 st m st' m' ∧ Img env target h0 st'.heap m' n v w := by
  intro n
  induction n with
  | zero => intro st m v st' m' w _ _ hr; simp [argEval] at hr
  | succ f ih =>
    intro st m v st' m' w hg hv hr
    rw [argEval_unfold, vkind_h0 env hg hv] at hr
    have himg : ∀ (H : Heap) (M : Memo) (P : Prop),
        (match vkind env h0 v with
          | .self => w = v
          | .tleaf steps => ∃ Hm, Pres h0 Hm ∧ fetch env Hm steps 0 target = .ok (.leaf w)
          | .lst a _ => ∃ b, w = .ref b ∧ (a, b) ∈ M
          | .dct a _ => ∃ b, w = .ref b ∧ (a, b) ∈ M
          | .tup xs => ∃ t ys, w = .ref t ∧ H[t]? = some (.tuple "tuple" ys) ∧ All2 (Img env target h0 H M f) xs ys
          | .setk c xs => ∃ t ys, w = .ref t ∧ H[t]? = some (.set c ys) ∧ All2 (Img env target h0 H M f) xs ys) →
        Img env target h0 H M (f + 1) v w := fun H M _ h => by simpa only [Img] using h
    cases hk : vkind env h0 v with
    | self =>
      rw [hk] at hr
      injection hr with h1 h2; injection h2 with h2 h3; injection h3 with h3
      subst h1; subst h2; subst h3
      exact ⟨IsoStep.refl hg, himg _ _ True (by rw [hk])⟩
    | tleaf steps =>
      rw [hk] at hr
      simp only at hr
      cases hfe : fetch env st.heap steps 0 target with
      | error e => rw [hfe] at hr; simp at hr
      | ok nst =>
        rw [hfe] at hr
        cases nst with
        | node xs => simp at hr
        | leaf w' =>
          simp only at hr
          injection hr with h1 h2; injection h2 with h2 h3; injection h3 with h3
          subst h1; subst h2; subst h3
          exact ⟨IsoStep.refl hg, himg _ _ True (by rw [hk]; exact ⟨st.heap, hg.pres, hfe⟩)⟩
    | lst a xs =>
      rw [hk] at hr
      simp only at hr
      obtain ⟨rfl, ha⟩ := vkind_lst hk
      cases hm : List.lookup a m with
      | some b =>
        rw [hm] at hr
        simp only at hr
        injection hr with h1 h2; injection h2 with h2 h3; injection h3 with h3
        subst h1; subst h2; subst h3
        exact ⟨IsoStep.refl hg, himg _ _ True (by rw [hk]; exact ⟨b, rfl, lookup_some_mem hm⟩)⟩
      | none =>
        rw [hm] at hr
        simp only at hr
        have hg1 : Good h0 (st.alloc (.list "list" [])) ((a, st.heap.length) :: m) :=
          ⟨Pres.trans hg.pres (Pres.append _ _) hg.len, by simp [St.alloc]; exact Nat.le_succ_of_le hg.len,
           hg.inv.enter hm _⟩
        cases hl : argList (fun st m x => argEval env target f st m x) (st.alloc (.list "list" []))
            ((a, st.heap.length) :: m) xs with
        | mk st2 r2 =>
          obtain ⟨m2, r⟩ := r2
          rw [hl] at hr
          cases r with
          | error e => simp at hr
          | ok ys =>
            simp only at hr
            injection hr with h1 h2; injection h2 with h2 h3; injection h3 with h3
            subst h1; subst h2; subst h3
            obtain ⟨s2, a2⟩ := argList_iso (n := f) (fun st m x st' m' w hg' hx hh => ih st m x st' m' w hg' hx hh)
              xs _ _ st2 m2 ys hg1 (closedHeap_list hc ha) hl
            obtain ⟨e2, he2⟩ := s2.ext
            have hblt : st.heap.length < st2.heap.length := by
              have := s2.ok.len; simp [St.alloc] at this; omega
            -- the new entry is closed by the fill
            have hfill := IsoStep.fill (o := .list "list" ys) (o0 := .list "list" []) rfl s2 hg1
            have hcell : (st2.fill st.heap.length (.list "list" ys)).heap[st.heap.length]? =
                some (.list "list" ys) := by simp [St.fill, hblt]
            have hcl : Closed env target h0 (st2.fill st.heap.length (.list "list" ys)).heap m2
                (a, st.heap.length) := by
              refine ⟨f, ?_⟩
              simp only [hk]
              refine ⟨ys, hcell, ?_⟩
              -- lift the children's counterparts across the fill
              have hb1 : (st.alloc (.list "list" [])).heap[st.heap.length]? = some (.list "list" []) := by
                simp [St.alloc]
              have hb2 : st2.heap[st.heap.length]? = some (.list "list" []) := by
                rw [s2.ok.pres _ (by simp [St.alloc])]; exact hb1
              have hT : ∀ (t : Nat) (o' : Obj), st2.heap[t]? = some o' → isTupSet o' = true →
                  (st2.fill st.heap.length (.list "list" ys)).heap[t]? = some o' := by
                intro t o' ht hts
                have hne : st.heap.length ≠ t := by
                  intro e; subst e; rw [hb2] at ht; injection ht with ht; subst ht; cases hts
                simp only [St.fill, List.getElem?_set_ne hne]; exact ht
              exact a2.imp (fun x y hxy => Img_mono env target h0 hT (fun q hq => hq) f x y hxy)
            obtain ⟨hgood, hclosed, _⟩ := hfill hcl
            refine ⟨⟨hgood, ?_, ⟨e2 ++ [(a, st.heap.length)], by rw [he2]; simp⟩, hclosed⟩, ?_⟩
            · exact ((ArgOK.alloc st _).trans s2.ok).fill _ (Nat.le_refl _) _
            · exact himg _ _ True (by rw [hk]; exact ⟨_, rfl, by rw [he2]; simp⟩)
    | dct a es =>
      rw [hk] at hr
      simp only at hr
      obtain ⟨rfl, ha⟩ := vkind_dct hk
      cases hm : List.lookup a m with
      | some b =>
        rw [hm] at hr
        simp only at hr
        injection hr with h1 h2; injection h2 with h2 h3; injection h3 with h3
        subst h1; subst h2; subst h3
        exact ⟨IsoStep.refl hg, himg _ _ True (by rw [hk]; exact ⟨b, rfl, lookup_some_mem hm⟩)⟩
      | none =>
        rw [hm] at hr
        simp only at hr
        have hg1 : Good h0 (st.alloc (.dict "dict" [])) ((a, st.heap.length) :: m) :=
          ⟨Pres.trans hg.pres (Pres.append _ _) hg.len, by simp [St.alloc]; exact Nat.le_succ_of_le hg.len,
           hg.inv.enter hm _⟩
        cases hl : argEntries (fun st m x => argEval env target f st m x) (st.alloc (.dict "dict" []))
            ((a, st.heap.length) :: m) es [] with
        | mk st2 r2 =>
          obtain ⟨m2, r⟩ := r2
          rw [hl] at hr
          cases r with
          | error e => simp at hr
          | ok res =>
            simp only at hr
            injection hr with h1 h2; injection h2 with h2 h3; injection h3 with h3
            subst h1; subst h2; subst h3
            obtain ⟨s2, ps, hres, a2⟩ := argEntries_iso (n := f)
              (fun st m x st' m' w hg' hx hh => ih st m x st' m' w hg' hx hh)
              es _ _ [] st2 m2 res hg1 (closedHeap_dict hc ha) hl
            obtain ⟨e2, he2⟩ := s2.ext
            have hblt : st.heap.length < st2.heap.length := by
              have := s2.ok.len; simp [St.alloc] at this; omega
            have hfill := IsoStep.fill (o := .dict "dict" res) (o0 := .dict "dict" []) rfl s2 hg1
            have hcell : (st2.fill st.heap.length (.dict "dict" res)).heap[st.heap.length]? =
                some (.dict "dict" res) := by simp [St.fill, hblt]
            have hcl : Closed env target h0 (st2.fill st.heap.length (.dict "dict" res)).heap m2
                (a, st.heap.length) := by
              refine ⟨f, ?_⟩
              simp only [hk]
              refine ⟨ps, by rw [hcell, hres], ?_⟩
              have hb1 : (st.alloc (.dict "dict" [])).heap[st.heap.length]? = some (.dict "dict" []) := by
                simp [St.alloc]
              have hb2 : st2.heap[st.heap.length]? = some (.dict "dict" []) := by
                rw [s2.ok.pres _ (by simp [St.alloc])]; exact hb1
              have hT : ∀ (t : Nat) (o' : Obj), st2.heap[t]? = some o' → isTupSet o' = true →
                  (st2.fill st.heap.length (.dict "dict" res)).heap[t]? = some o' := by
                intro t o' ht hts
                have hne : st.heap.length ≠ t := by
                  intro e; subst e; rw [hb2] at ht; injection ht with ht; subst ht; cases hts
                simp only [St.fill, List.getElem?_set_ne hne]; exact ht
              exact a2.imp (fun x y hxy =>
                ⟨Img_mono env target h0 hT (fun q hq => hq) f _ _ hxy.1,
                 Img_mono env target h0 hT (fun q hq => hq) f _ _ hxy.2⟩)
            obtain ⟨hgood, hclosed, _⟩ := hfill hcl
            refine ⟨⟨hgood, ?_, ⟨e2 ++ [(a, st.heap.length)], by rw [he2]; simp⟩, hclosed⟩, ?_⟩
            · exact ((ArgOK.alloc st _).trans s2.ok).fill _ (Nat.le_refl _) _
            · exact himg _ _ True (by rw [hk]; exact ⟨_, rfl, by rw [he2]; simp⟩)
    | tup xs =>
      rw [hk] at hr
      simp only at hr
      obtain ⟨a0, o0, ha0, hxs⟩ := vkind_items (.inl hk)
      have hin : ∀ x ∈ xs, inH h0 x := by rw [← hxs]; exact hc a0 o0 ha0
      cases hl : argList (fun st m x => argEval env target f st m x) st m xs with
      | mk st2 r2 =>
        obtain ⟨m2, r⟩ := r2
        rw [hl] at hr
        cases r with
        | error e => simp at hr
        | ok ys =>
          simp only at hr
          injection hr with h1 h2; injection h2 with h2 h3; injection h3 with h3
          subst h1; subst h2; subst h3
          obtain ⟨s2, a2⟩ := argList_iso (n := f) (fun st m x st' m' w hg' hx hh => ih st m x st' m' w hg' hx hh)
            xs st m st2 m2 ys hg hin hl
          have s3 : IsoStep env target h0 st2 m2 (st2.alloc (.tuple "tuple" ys)) m2 :=
            ⟨⟨Pres.trans s2.good.pres (Pres.append _ _) s2.good.len,
              by simp [St.alloc]; exact Nat.le_succ_of_le s2.good.len, s2.good.inv.alloc _⟩,
             ArgOK.alloc _ _, ⟨[], rfl⟩, fun p hp hn => absurd hp hn⟩
          refine ⟨IsoStep.trans hg s2 s3, himg _ _ True ?_⟩
          rw [hk]
          exact ⟨_, ys, rfl, by simp [St.alloc], a2.imp (fun x y hxy => Img_lift s3 hxy)⟩
    | setk c xs =>
      rw [hk] at hr
      simp only at hr
      obtain ⟨a0, o0, ha0, hxs⟩ := vkind_items (.inr ⟨c, hk⟩)
      have hin : ∀ x ∈ xs, inH h0 x := by rw [← hxs]; exact hc a0 o0 ha0
      cases hl : argList (fun st m x => argEval env target f st m x) st m xs with
      | mk st2 r2 =>
        obtain ⟨m2, r⟩ := r2
        rw [hl] at hr
        cases r with
        | error e => simp at hr
        | ok ys =>
          simp only at hr
          split at hr
          · injection hr with h1 h2; injection h2 with h2 h3; injection h3 with h3
            subst h1; subst h2; subst h3
            obtain ⟨s2, a2⟩ := argList_iso (n := f)
              (fun st m x st' m' w hg' hx hh => ih st m x st' m' w hg' hx hh) xs st m st2 m2 ys hg hin hl
            have s3 : IsoStep env target h0 st2 m2 (st2.alloc (.set c ys)) m2 :=
              ⟨⟨Pres.trans s2.good.pres (Pres.append _ _) s2.good.len,
                by simp [St.alloc]; exact Nat.le_succ_of_le s2.good.len, s2.good.inv.alloc _⟩,
               ArgOK.alloc _ _, ⟨[], rfl⟩, fun p hp hn => absurd hp hn⟩
            refine ⟨IsoStep.trans hg s2 s3, himg _ _ True ?_⟩
            rw [hk]
            exact ⟨_, ys, rfl, by simp [St.alloc], a2.imp (fun x y hxy => Img_lift s3 hxy)⟩
          · simp at hr


end Glom.C11
