import Glom.Spec.C19
/-
  Helper lemmas for C19: under well-formed facts the middleware selects the
  texts the reference names and hands them to the parsers / loaders the
  reference names.
-/
namespace Glom.C19

variable {T S R : Type}

structure WFParts (F : Facts) : Prop where
  loadCatch : catchWF F.targetLoaders F.loadCatch F.loaderRaises = true
  specRead : readCatchWF F.specReadCatch = true
  targetRead : readCatchWF F.targetReadCatch = true
  stdinRead : readCatchWF F.stdinReadCatch = true
  specBranches : F.specBranches = [("python", "python-literal"), ("json", "json"), ("python-full", "exec")]
  reprBranches : F.reprBranches = ["python"]
  firstChars : F.firstChars = literalStart
  specDefault : F.specDefault = "python"
  targetLoaders : F.targetLoaders = [("json", "json"), ("yaml", "yaml-safe"), ("yml", "yaml-safe"),
    ("toml", "toml"), ("python", "python-literal")]
  targetDefault : F.targetDefault = "json"
  indentDefault : F.indentDefault = 2

theorem WF_parts {F : Facts} (h : WF F = true) : WFParts F := by
  simp only [WF, Bool.and_eq_true, beq_iff_eq] at h
  obtain ⟨⟨⟨⟨⟨⟨⟨⟨⟨⟨c1, c2⟩, c3⟩, c4⟩, h1⟩, h2⟩, h3⟩, h4⟩, h5⟩, h6⟩, h7⟩ := h
  exact ⟨c1, c2, c3, c4, h1, h2, h3, h4, h5, h6, h7⟩

/-- the trusted fact about Python the first-character rule relies on:
    `ast.literal_eval(repr(s)) == s` for every str `s` -/
def ReprOk (X : Ext T S R) : Prop := ∀ s, X.parse "python-literal" (X.repr s) = .ok (X.strSpec s)

/-! ### what the externals raise — the trusted facts the error paths rely on -/

/-- a failing read of text raises an OSError (missing file, directory, permissions) or a
    UnicodeError (bytes that are no text), both `Exception` subclasses -/
def isTextReadErr (X : Ext T S R) (c : String) : Bool :=
  (X.mro c).contains "Exception" && (X.mro c).contains "BaseException" &&
  ((X.mro c).contains "OSError" || ((X.mro c).contains "UnicodeError" && (X.mro c).contains "ValueError"))

/-- trusted: how reading a file / standard input fails (checked on every case by the driver) -/
structure ReadErrOk (X : Ext T S R) (w : World) : Prop where
  file : ∀ p, X.readFile p = none → isTextReadErr X (X.readErr p) = true
  stdin : ∀ c, w.stdinErr = some c → isTextReadErr X c = true

/-- trusted: a loader handed a text raises `Exception` subclasses only (never KeyboardInterrupt,
    SystemExit, GeneratorExit) and — needed only for a format whose handler does not name
    `Exception` itself — only classes the probe saw it raise -/
def LoadErrOk (F : Facts) (X : Ext T S R) : Prop :=
  ∀ k t c, X.load k t = .error c →
    (X.mro c).contains "Exception" = true ∧
    (F.loaderRaises.contains (k, c, X.mro c) = true ∨
     ∀ fmt, (fmt, k) ∈ F.targetLoaders → (catchOf F fmt).contains "Exception" = true)

/-- for the code as it is (`except Exception`) only the first half is needed -/
theorem loadErrOk_of_exception {F : Facts} {X : Ext T S R}
    (hF : ∀ fmt k, (fmt, k) ∈ F.targetLoaders → (catchOf F fmt).contains "Exception" = true)
    (hX : ∀ k t c, X.load k t = .error c → (X.mro c).contains "Exception" = true) : LoadErrOk F X :=
  fun k t c h => ⟨hX k t c h, Or.inr (fun fmt hm => hF fmt k hm)⟩

theorem caughtBy_of_mem (X : Ext T S R) (names : List String) (c n : String)
    (h1 : (X.mro c).contains n = true) (h2 : names.contains n = true) : caughtBy X names c = true := by
  unfold caughtBy
  rw [List.any_eq_true]
  exact ⟨n, by simpa using h1, h2⟩

/-- a handler that satisfies `readCatchWF` catches every failure of a text read -/
theorem caught_read (X : Ext T S R) (names : List String) (c : String)
    (hn : readCatchWF names = true) (hc : isTextReadErr X c = true) : caughtBy X names c = true := by
  simp only [readCatchWF, isTextReadErr, Bool.and_eq_true, Bool.or_eq_true] at hn hc
  obtain ⟨⟨hexc, hbase⟩, hcls⟩ := hc
  have top : (names.contains "Exception" = true ∨ names.contains "BaseException" = true) →
      caughtBy X names c = true := by
    rintro (h | h)
    · exact caughtBy_of_mem X names c "Exception" hexc h
    · exact caughtBy_of_mem X names c "BaseException" hbase h
  obtain ⟨ho, hu⟩ := hn
  rcases hcls with h | ⟨h1, h2⟩
  · rcases ho with ho | ho
    · exact caughtBy_of_mem X names c "OSError" h ho
    · exact top ho
  · rcases hu with (hu | hu) | hu
    · exact caughtBy_of_mem X names c "UnicodeError" h1 hu
    · exact caughtBy_of_mem X names c "ValueError" h2 hu
    · exact top hu

/-- the handler of a format's loader catches whatever the loader raises -/
theorem caught_load {F : Facts} (hc : catchWF F.targetLoaders F.loadCatch F.loaderRaises = true)
    (X : Ext T S R) (hl : LoadErrOk F X) (fmt k t c : String) (hm : (fmt, k) ∈ F.targetLoaders)
    (he : X.load k t = .error c) : caughtBy X (catchOf F fmt) c = true := by
  obtain ⟨hexc, hpr⟩ := hl k t c he
  unfold catchWF at hc
  rw [List.all_eq_true] at hc
  have h := hc (fmt, k) hm
  unfold catchOf
  cases hf : F.loadCatch.find? (fun x => x.1 == fmt) with
  | none => simp [hf] at h
  | some p =>
    simp only [hf, Bool.or_eq_true] at h
    simp only
    rcases h with h | h
    · exact caughtBy_of_mem X p.2 c "Exception" hexc h
    · rcases hpr with hpr | hpr
      · rw [List.all_eq_true] at h
        have := h (k, c, X.mro c) (by simpa using hpr)
        simpa [caughtBy] using this
      · have := hpr fmt hm
        unfold catchOf at this
        rw [hf] at this
        exact caughtBy_of_mem X p.2 c "Exception" hexc this

theorem truthy_eq (o : Option String) : truthy o = (nonEmpty o).isSome := by
  cases o with
  | none => rfl
  | some s => by_cases h : s.isEmpty <;> simp [truthy, nonEmpty, Option.filter, h]

theorem nonEmpty_some {o : Option String} {s : String} (h : nonEmpty o = some s) : o = some s ∧ s.isEmpty = false := by
  cases o with
  | none => simp [nonEmpty] at h
  | some t =>
    simp only [nonEmpty, Option.filter] at h
    split at h
    · rename_i ht; cases h; exact ⟨rfl, by simpa using ht⟩
    · cases h

/-- parsing in the default format: the `python` branch, first-character test, `repr`, `literal_eval` -/
theorem parse_default {F : Facts} (w : WFParts F) (X : Ext T S R) (hr : ReprOk X) (st : String) :
    parseSpec F X "python" st = liftExc (refSpecOf X st) := by
  unfold parseSpec refSpecOf
  rw [w.specBranches, w.reprBranches, w.firstChars]
  generalize st.front = ch
  by_cases hc : ch ∈ literalStart
  · simp [hc]
  · simp [hc, hr st]

theorem fmt_default {F : Facts} (w : WFParts F) (a : Argv)
    (hfmt : (a.specFormat == none || a.specFormat == some "python") = true) :
    a.specFormat.getD F.specDefault = "python" := by
  rw [w.specDefault]
  cases h : a.specFormat with
  | none => rfl
  | some f => simp [h] at hfmt; simp [hfmt]

theorem truthy_of_some {o : Option String} {s : String} (h : nonEmpty o = some s) : truthy o = true := by
  rw [truthy_eq, h]; rfl

theorem truthy_of_none {o : Option String} (h : nonEmpty o = none) : truthy o = false := by
  rw [truthy_eq, h]; rfl

/-- the middleware's spec is the reference's spec -/
theorem getSpec_ref {F : Facts} (w : WFParts F) (X : Ext T S R) (hr : ReprOk X) (a : Argv)
    (hfmt : (a.specFormat == none || a.specFormat == some "python") = true) (st : String)
    (hst : refSpecText X a = some st) :
    getSpec F X a = liftExc (refSpecOf X st) := by
  unfold refSpecText at hst
  unfold getSpec
  dsimp only
  rw [fmt_default w a hfmt]
  split at hst
  · -- positional spec only
    rename_i s hp hf
    cases hst
    have h1 := truthy_of_some hp
    have h2 := truthy_of_none hf
    obtain ⟨hp', _⟩ := nonEmpty_some hp
    rename_i hne
    rw [h1, h2]
    simp only [Bool.and_false, Bool.false_eq_true, if_false]
    rw [hp']
    simp only [truthy, hne, Bool.not_false, Bool.not_true, Bool.false_eq_true, if_false, Option.getD_some]
    exact parse_default w X hr st
  · -- spec file only
    rename_i p hp hf
    have h1 := truthy_of_none hp
    have h2 := truthy_of_some hf
    have h3 := truthy_of_some hst
    obtain ⟨hf', _⟩ := nonEmpty_some hf
    obtain ⟨hrd, hne⟩ := nonEmpty_some hst
    rw [h1, h2, hf']
    simp only [Bool.false_and, Bool.false_eq_true, if_false, if_true, Option.getD_some, hrd,
      truthy, hne, Bool.not_false, Bool.not_true]
    exact parse_default w X hr st
  · cases hst

theorem not_dash_of_nonEmpty_none {o : Option String} (h : nonEmpty o = none) : (o == some "-") = false := by
  cases o with
  | none => rfl
  | some t =>
    by_cases htd : t = "-"
    · subst htd; simp [nonEmpty, Option.filter] at h
    · simp [htd]

/-- the middleware's target text is the reference's target text (an empty text is as good as none) -/
theorem readStdin_text (F : Facts) (X : Ext T S R) (wd : World) (tt : String) (h : refStdin wd = .text tt) :
    readStdin F X wd = .ok (some tt) := by
  unfold refStdin at h
  unfold readStdin
  cases he : wd.stdinErr with
  | none => simp [he] at h; simp [h]
  | some c => simp [he] at h

theorem readStdin_unreadable (F : Facts) (X : Ext T S R) (wd : World) (hr : ReadErrOk X wd)
    (hn : readCatchWF F.stdinReadCatch = true) (h : refStdin wd = .unreadable) :
    readStdin F X wd = .error (.usage .stdinUnreadable) := by
  unfold refStdin at h
  unfold readStdin
  cases he : wd.stdinErr with
  | none => simp [he] at h
  | some c => simp [readFail, caught_read X _ c hn (hr.stdin c he)]

theorem getTargetText_text (F : Facts) (X : Ext T S R) (a : Argv) (wd : World) (tt : String)
    (h : refTargetText X a wd = .text tt) :
    ∃ o, getTargetText F X a wd = .ok o ∧ (o = some tt ∨ (tt.isEmpty = true ∧ truthy o = false)) := by
  unfold refTargetText at h
  unfold getTargetText
  dsimp only
  split at h
  · -- positional target only
    rename_i t hp hf
    have h1 := truthy_of_some hp
    have h2 := truthy_of_none hf
    have hfd := not_dash_of_nonEmpty_none hf
    obtain ⟨hp', hne⟩ := nonEmpty_some hp
    rw [h1, h2, hfd, hp']
    by_cases hd : t = "-"
    · subst hd; simp at h; exact ⟨_, by simp [readStdin_text F X wd tt h], Or.inl rfl⟩
    · simp [hd] at h; subst h; exact ⟨_, by simp [hd], Or.inl rfl⟩
  · -- target file only
    rename_i p hp hf
    have h1 := truthy_of_none hp
    have h2 := truthy_of_some hf
    have hpd := not_dash_of_nonEmpty_none hp
    obtain ⟨hf', hne⟩ := nonEmpty_some hf
    rw [h1, h2, hpd, hf']
    by_cases hd : p = "-"
    · subst hd; simp at h; exact ⟨_, by simp [readStdin_text F X wd tt h], Or.inl rfl⟩
    · simp only [beq_iff_eq, hd, if_false] at h
      cases hrd : X.readFile p with
      | none => rw [hrd] at h; cases h
      | some t => rw [hrd] at h; cases h; exact ⟨_, by simp [hd, hrd], Or.inl rfl⟩
  · -- neither: piped stdin
    rename_i hp hf
    have h1 := truthy_of_none hp
    have h2 := truthy_of_none hf
    have hpd := not_dash_of_nonEmpty_none hp
    have hfd := not_dash_of_nonEmpty_none hf
    rw [h1, h2, hpd, hfd]
    cases htty : wd.stdinTty with
    | true => simp [htty] at h
    | false => simp [htty] at h; exact ⟨_, by simp [readStdin_text F X wd tt h], Or.inl rfl⟩
  · cases h

/-- an unreadable target (file or standard input) ends the middleware in a UsageError -/
theorem getTargetText_unreadable {F : Facts} (w : WFParts F) (X : Ext T S R) (a : Argv) (wd : World)
    (hr : ReadErrOk X wd) (h : refTargetText X a wd = .unreadable) :
    ∃ u, getTargetText F X a wd = .error (.usage u) := by
  unfold refTargetText at h
  unfold getTargetText
  dsimp only
  split at h
  · rename_i t hp hf
    have h1 := truthy_of_some hp
    have h2 := truthy_of_none hf
    have hfd := not_dash_of_nonEmpty_none hf
    obtain ⟨hp', hne⟩ := nonEmpty_some hp
    rw [h1, h2, hfd, hp']
    by_cases hd : t = "-"
    · subst hd; simp at h
      exact ⟨.stdinUnreadable, by simp [readStdin_unreadable F X wd hr w.stdinRead h]⟩
    · simp [hd] at h
  · rename_i p hp hf
    have h1 := truthy_of_none hp
    have h2 := truthy_of_some hf
    have hpd := not_dash_of_nonEmpty_none hp
    obtain ⟨hf', hne⟩ := nonEmpty_some hf
    rw [h1, h2, hpd, hf']
    by_cases hd : p = "-"
    · subst hd; simp at h
      exact ⟨.stdinUnreadable, by simp [readStdin_unreadable F X wd hr w.stdinRead h]⟩
    · simp only [beq_iff_eq, hd, if_false] at h
      cases hrd : X.readFile p with
      | none => exact ⟨.targetFileUnreadable, by simp [hd, hrd, readFail, caught_read X _ _ w.targetRead (hr.file p hrd)]⟩
      | some t => rw [hrd] at h; cases h
  · rename_i hp hf
    have h1 := truthy_of_none hp
    have h2 := truthy_of_none hf
    have hpd := not_dash_of_nonEmpty_none hp
    have hfd := not_dash_of_nonEmpty_none hf
    rw [h1, h2, hpd, hfd]
    cases htty : wd.stdinTty with
    | true => simp [htty] at h
    | false =>
      simp [htty] at h
      exact ⟨.stdinUnreadable, by simp [readStdin_unreadable F X wd hr w.stdinRead h]⟩
  · cases h

/-- `mw_handle_target` on a non-empty text loads it with the loader the reference names -/
theorem handleTarget_ref {F : Facts} (w : WFParts F) (X : Ext T S R) (a : Argv) (tt : String)
    (hne : tt.isEmpty = false) (k : String) (hk : refLoaderKind (a.targetFormat.getD "json") = some k) :
    handleTarget F X (some tt) (a.targetFormat.getD F.targetDefault)
      = liftLoad X (catchOf F (a.targetFormat.getD "json")) (X.load k tt) ∧
    (a.targetFormat.getD "json", k) ∈ F.targetLoaders := by
  unfold handleTarget
  rw [w.targetDefault, w.targetLoaders]
  simp only [truthy, hne, Bool.not_false, Bool.not_true, Bool.false_eq_true, if_false, Option.getD_some]
  unfold refLoaderKind at hk
  generalize a.targetFormat.getD "json" = fmt at hk ⊢
  by_cases h1 : fmt = "json"
  · subst h1; simp at hk; subst hk; simp
  · by_cases h2 : fmt = "yaml"
    · subst h2; simp at hk; subst hk; simp
    · by_cases h3 : fmt = "yml"
      · subst h3; simp at hk; subst hk; simp
      · by_cases h4 : fmt = "toml"
        · subst h4; simp at hk; subst hk; simp
        · by_cases h5 : fmt = "python"
          · subst h5; simp at hk; subst hk; simp
          · simp [h1, h2, h3, h4, h5] at hk

theorem handleTarget_empty (F : Facts) (X : Ext T S R) (o : Option String) (fmt : String)
    (h : truthy o = false) : handleTarget F X o fmt = .ok X.emptyTarget := by
  unfold handleTarget; simp [h]

theorem glomCli_render (X : Ext T S R) (t : T) (s : S) (r : R) (indent : Int) (scalar : Bool)
    (h : X.glom t s = .ok r) :
    glomCli X t s indent scalar = (match refRender X r indent scalar with
      | some out => .exit 0 out
      | none => match X.dumps r (if indent == 0 then none else some indent) with
        | .error c => .exc c
        | .ok o => .exit 0 (o ++ "\n")) := by
  unfold glomCli refRender
  rw [h]
  by_cases hs : (scalar && X.isScalar r) = true
  · simp [hs]
  · simp only [hs, Bool.false_eq_true, if_false]
    cases X.dumps r (if indent == 0 then none else some indent) <;> rfl

/-! ### deliveries: every way of handing the same spec and target to the command -/

inductive SpecVia where
  | argv
  | file (path : String)

inductive TargetVia where
  | argv
  | file (path : String)
  | dashArg            -- `glom SPEC -`
  | dashFile           -- `--target-file -`
  | piped              -- nothing given, stdin is not a tty

structure Request where
  specText : String
  targetText : String
  sv : SpecVia
  tv : TargetVia
  targetFormat : Option String
  indent : Option Int
  scalar : Bool

def Request.argv (q : Request) : Argv :=
  let sp := match q.sv with | .argv => q.specText | .file _ => ""
  { posargs := (match q.tv with
      | .argv => [sp, q.targetText]
      | .dashArg => [sp, "-"]
      | _ => (match q.sv with | .argv => [sp] | .file _ => []))
    targetFile := (match q.tv with | .file p => some p | .dashFile => some "-" | _ => none)
    targetFormat := q.targetFormat
    specFile := (match q.sv with | .file p => some p | .argv => none)
    specFormat := none
    indent := q.indent
    scalar := q.scalar }

/-- standard input carries the target when it is the chosen channel, anything otherwise -/
def Request.world (q : Request) (junk : String) (tty : Bool) : World :=
  match q.tv with
  | .dashArg | .dashFile => ⟨q.targetText, tty, none⟩
  | .piped => ⟨q.targetText, false, none⟩
  | _ => ⟨junk, tty, none⟩

/-- the files hold the texts; file names are non-empty and not `-` -/
def Request.FilesOk (q : Request) (X : Ext T S R) : Prop :=
  (match q.sv with | .file p => p.isEmpty = false ∧ X.readFile p = some q.specText | .argv => True) ∧
  (match q.tv with | .file p => p.isEmpty = false ∧ p ≠ "-" ∧ X.readFile p = some q.targetText | _ => True)

theorem request_expect_texts (X : Ext T S R) (q : Request) (junk : String) (tty : Bool)
    (hs : q.specText.isEmpty = false) (ht : q.targetText.isEmpty = false)
    (hdash : q.targetText ≠ "-") (hfiles : q.FilesOk X) :
    refSpecText X q.argv = some q.specText ∧
    refTargetText X q.argv (q.world junk tty) = .text q.targetText := by
  obtain ⟨hf1, hf2⟩ := hfiles
  cases hsv : q.sv <;> cases htv : q.tv <;>
    simp_all [Request.argv, Request.world, refSpecText, refTargetText, refStdin, posTexts, nonEmpty, Option.filter]


end Glom.C19
