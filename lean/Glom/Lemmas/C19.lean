import Glom.Spec.C19
/-
  Helper lemmas for C19: under well-formed facts the middleware selects the
  texts the reference names and hands them to the parsers / loaders the
  reference names.
-/
namespace Glom.C19

variable {T S R : Type}

structure WFParts (F : Facts) : Prop where
  specBranches : F.specBranches = [("python", "python-literal"), ("json", "json"), ("python-full", "exec")]
  reprBranches : F.reprBranches = ["python"]
  firstChars : F.firstChars = literalStart
  specDefault : F.specDefault = "python"
  targetLoaders : F.targetLoaders = [("json", "json"), ("yaml", "yaml-safe"), ("yml", "yaml-safe"),
    ("toml", "toml"), ("python", "python-literal")]
  targetDefault : F.targetDefault = "json"
  indentDefault : F.indentDefault = 2

theorem WF_parts {F : Facts} (h : WF F = true) : WFParts F := by
  simp only [WF, Bool.and_eq_true, beq_iff_eq] at h
  obtain ⟨⟨⟨⟨⟨⟨h1, h2⟩, h3⟩, h4⟩, h5⟩, h6⟩, h7⟩ := h
  exact ⟨h1, h2, h3, h4, h5, h6, h7⟩

/-- the trusted fact about Python the first-character rule relies on:
    `ast.literal_eval(repr(s)) == s` for every str `s` -/
def ReprOk (X : Ext T S R) : Prop := ∀ s, X.parse "python-literal" (X.repr s) = .ok (X.strSpec s)

theorem truthy_eq (o : Option String) : truthy o = (nonEmpty o).isSome := by
  cases o with
  | none => rfl
  | some s => by_cases h : s.isEmpty <;> simp [truthy, nonEmpty, Option.filter, h]

theorem nonEmpty_some {o : Option String} {s : String} (h : nonEmpty o = some s) : o = some s ∧ s.isEmpty = false := by
  cases o with
  | none => simp [nonEmpty] at h
  | some t =>
    simp only [nonEmpty, Option.filter] at h
    split at h
    · rename_i ht; cases h; exact ⟨rfl, by simpa using ht⟩
    · cases h

/-- parsing in the default format: the `python` branch, first-character test, `repr`, `literal_eval` -/
theorem parse_default {F : Facts} (w : WFParts F) (X : Ext T S R) (hr : ReprOk X) (st : String) :
    parseSpec F X "python" st = liftExc (refSpecOf X st) := by
  unfold parseSpec refSpecOf
  rw [w.specBranches, w.reprBranches, w.firstChars]
  generalize st.front = ch
  by_cases hc : ch ∈ literalStart
  · simp [hc]
  · simp [hc, hr st]

theorem fmt_default {F : Facts} (w : WFParts F) (a : Argv)
    (hfmt : (a.specFormat == none || a.specFormat == some "python") = true) :
    a.specFormat.getD F.specDefault = "python" := by
  rw [w.specDefault]
  cases h : a.specFormat with
  | none => rfl
  | some f => simp [h] at hfmt; simp [hfmt]

theorem truthy_of_some {o : Option String} {s : String} (h : nonEmpty o = some s) : truthy o = true := by
  rw [truthy_eq, h]; rfl

theorem truthy_of_none {o : Option String} (h : nonEmpty o = none) : truthy o = false := by
  rw [truthy_eq, h]; rfl

/-- the middleware's spec is the reference's spec -/
theorem getSpec_ref {F : Facts} (w : WFParts F) (X : Ext T S R) (hr : ReprOk X) (a : Argv)
    (hfmt : (a.specFormat == none || a.specFormat == some "python") = true) (st : String)
    (hst : refSpecText X a = some st) :
    getSpec F X a = liftExc (refSpecOf X st) := by
  unfold refSpecText at hst
  unfold getSpec
  dsimp only
  rw [fmt_default w a hfmt]
  split at hst
  · -- positional spec only
    rename_i s hp hf
    cases hst
    have h1 := truthy_of_some hp
    have h2 := truthy_of_none hf
    obtain ⟨hp', _⟩ := nonEmpty_some hp
    rename_i hne
    rw [h1, h2]
    simp only [Bool.and_false, Bool.false_eq_true, if_false]
    rw [hp']
    simp only [truthy, hne, Bool.not_false, Bool.not_true, Bool.false_eq_true, if_false, Option.getD_some]
    exact parse_default w X hr st
  · -- spec file only
    rename_i p hp hf
    have h1 := truthy_of_none hp
    have h2 := truthy_of_some hf
    have h3 := truthy_of_some hst
    obtain ⟨hf', _⟩ := nonEmpty_some hf
    obtain ⟨hrd, hne⟩ := nonEmpty_some hst
    rw [h1, h2, hf']
    simp only [Bool.false_and, Bool.false_eq_true, if_false, if_true, Option.getD_some, hrd,
      truthy, hne, Bool.not_false, Bool.not_true]
    exact parse_default w X hr st
  · cases hst

theorem not_dash_of_nonEmpty_none {o : Option String} (h : nonEmpty o = none) : (o == some "-") = false := by
  cases o with
  | none => rfl
  | some t =>
    by_cases htd : t = "-"
    · subst htd; simp [nonEmpty, Option.filter] at h
    · simp [htd]

/-- the middleware's target text is the reference's target text (an empty text is as good as none) -/
theorem getTargetText_text (X : Ext T S R) (a : Argv) (wd : World) (tt : String)
    (h : refTargetText X a wd = .text tt) :
    ∃ o, getTargetText X a wd = .ok o ∧ (o = some tt ∨ (tt.isEmpty = true ∧ truthy o = false)) := by
  unfold refTargetText at h
  unfold getTargetText
  dsimp only
  split at h
  · -- positional target only
    rename_i t hp hf
    have h1 := truthy_of_some hp
    have h2 := truthy_of_none hf
    have hfd := not_dash_of_nonEmpty_none hf
    obtain ⟨hp', hne⟩ := nonEmpty_some hp
    rw [h1, h2, hfd, hp']
    by_cases hd : t = "-"
    · subst hd; simp at h; subst h; exact ⟨_, by simp, Or.inl rfl⟩
    · simp [hd] at h; subst h; exact ⟨_, by simp [hd], Or.inl rfl⟩
  · -- target file only
    rename_i p hp hf
    have h1 := truthy_of_none hp
    have h2 := truthy_of_some hf
    have hpd := not_dash_of_nonEmpty_none hp
    obtain ⟨hf', hne⟩ := nonEmpty_some hf
    rw [h1, h2, hpd, hf']
    by_cases hd : p = "-"
    · subst hd; simp at h; subst h; exact ⟨_, by simp, Or.inl rfl⟩
    · simp only [beq_iff_eq, hd, if_false] at h
      cases hrd : X.readFile p with
      | none => rw [hrd] at h; cases h
      | some t => rw [hrd] at h; cases h; exact ⟨_, by simp [hd, hrd], Or.inl rfl⟩
  · -- neither: piped stdin
    rename_i hp hf
    have h1 := truthy_of_none hp
    have h2 := truthy_of_none hf
    have hpd := not_dash_of_nonEmpty_none hp
    have hfd := not_dash_of_nonEmpty_none hf
    rw [h1, h2, hpd, hfd]
    cases htty : wd.stdinTty with
    | true => simp [htty] at h
    | false => simp [htty] at h; subst h; exact ⟨_, by simp, Or.inl rfl⟩
  · cases h

theorem getTargetText_unreadable (X : Ext T S R) (a : Argv) (wd : World)
    (h : refTargetText X a wd = .unreadable) :
    getTargetText X a wd = .error (.usage .targetFileUnreadable) := by
  unfold refTargetText at h
  unfold getTargetText
  dsimp only
  split at h
  · split at h <;> cases h
  · rename_i p hp hf
    have h1 := truthy_of_none hp
    have h2 := truthy_of_some hf
    have hpd := not_dash_of_nonEmpty_none hp
    obtain ⟨hf', hne⟩ := nonEmpty_some hf
    rw [h1, h2, hpd, hf']
    by_cases hd : p = "-"
    · subst hd; simp at h
    · simp only [beq_iff_eq, hd, if_false] at h
      cases hrd : X.readFile p with
      | none => simp [hd, hrd]
      | some t => rw [hrd] at h; cases h
  · split at h <;> cases h
  · cases h

/-- `mw_handle_target` on a non-empty text loads it with the loader the reference names -/
theorem handleTarget_ref {F : Facts} (w : WFParts F) (X : Ext T S R) (a : Argv) (tt : String)
    (hne : tt.isEmpty = false) (k : String) (hk : refLoaderKind (a.targetFormat.getD "json") = some k) :
    handleTarget F X (some tt) (a.targetFormat.getD F.targetDefault) = liftLoad (X.load k tt) := by
  unfold handleTarget
  rw [w.targetDefault, w.targetLoaders]
  simp only [truthy, hne, Bool.not_false, Bool.not_true, Bool.false_eq_true, if_false, Option.getD_some]
  unfold refLoaderKind at hk
  generalize a.targetFormat.getD "json" = fmt at hk ⊢
  by_cases h1 : fmt = "json"
  · subst h1; simp at hk; subst hk; simp
  · by_cases h2 : fmt = "yaml"
    · subst h2; simp at hk; subst hk; simp
    · by_cases h3 : fmt = "yml"
      · subst h3; simp at hk; subst hk; simp
      · by_cases h4 : fmt = "toml"
        · subst h4; simp at hk; subst hk; simp
        · by_cases h5 : fmt = "python"
          · subst h5; simp at hk; subst hk; simp
          · simp [h1, h2, h3, h4, h5] at hk

theorem handleTarget_empty (F : Facts) (X : Ext T S R) (o : Option String) (fmt : String)
    (h : truthy o = false) : handleTarget F X o fmt = .ok X.emptyTarget := by
  unfold handleTarget; simp [h]

theorem glomCli_render (X : Ext T S R) (t : T) (s : S) (r : R) (indent : Int) (scalar : Bool)
    (h : X.glom t s = .ok r) :
    glomCli X t s indent scalar = (match refRender X r indent scalar with
      | some out => .exit 0 out
      | none => match X.dumps r (if indent == 0 then none else some indent) with
        | .error c => .exc c
        | .ok o => .exit 0 (o ++ "\n")) := by
  unfold glomCli refRender
  rw [h]
  by_cases hs : (scalar && X.isScalar r) = true
  · simp [hs]
  · simp only [hs, Bool.false_eq_true, if_false]
    cases X.dumps r (if indent == 0 then none else some indent) <;> rfl

/-! ### deliveries: every way of handing the same spec and target to the command -/

inductive SpecVia where
  | argv
  | file (path : String)

inductive TargetVia where
  | argv
  | file (path : String)
  | dashArg            -- `glom SPEC -`
  | dashFile           -- `--target-file -`
  | piped              -- nothing given, stdin is not a tty

structure Request where
  specText : String
  targetText : String
  sv : SpecVia
  tv : TargetVia
  targetFormat : Option String
  indent : Option Int
  scalar : Bool

def Request.argv (q : Request) : Argv :=
  let sp := match q.sv with | .argv => q.specText | .file _ => ""
  { posargs := (match q.tv with
      | .argv => [sp, q.targetText]
      | .dashArg => [sp, "-"]
      | _ => (match q.sv with | .argv => [sp] | .file _ => []))
    targetFile := (match q.tv with | .file p => some p | .dashFile => some "-" | _ => none)
    targetFormat := q.targetFormat
    specFile := (match q.sv with | .file p => some p | .argv => none)
    specFormat := none
    indent := q.indent
    scalar := q.scalar }

/-- standard input carries the target when it is the chosen channel, anything otherwise -/
def Request.world (q : Request) (junk : String) (tty : Bool) : World :=
  match q.tv with
  | .dashArg | .dashFile => ⟨q.targetText, tty⟩
  | .piped => ⟨q.targetText, false⟩
  | _ => ⟨junk, tty⟩

/-- the files hold the texts; file names are non-empty and not `-` -/
def Request.FilesOk (q : Request) (X : Ext T S R) : Prop :=
  (match q.sv with | .file p => p.isEmpty = false ∧ X.readFile p = some q.specText | .argv => True) ∧
  (match q.tv with | .file p => p.isEmpty = false ∧ p ≠ "-" ∧ X.readFile p = some q.targetText | _ => True)

theorem request_expect_texts (X : Ext T S R) (q : Request) (junk : String) (tty : Bool)
    (hs : q.specText.isEmpty = false) (ht : q.targetText.isEmpty = false)
    (hdash : q.targetText ≠ "-") (hfiles : q.FilesOk X) :
    refSpecText X q.argv = some q.specText ∧
    refTargetText X q.argv (q.world junk tty) = .text q.targetText := by
  obtain ⟨hf1, hf2⟩ := hfiles
  cases hsv : q.sv <;> cases htv : q.tv <;>
    simp_all [Request.argv, Request.world, refSpecText, refTargetText, posTexts, nonEmpty, Option.filter]


end Glom.C19
