import Glom.Spec.C19
import Glom.Spec.C19Face
import Glom.Model.C19Env
/-
  Helper lemmas for C19: under well-formed facts the middleware selects the
  texts the reference names and hands them to the parsers / loaders the
  reference names.
-/
set_option linter.unusedSimpArgs false
set_option linter.unusedVariables false

namespace Glom.C19

variable {T S R : Type}

structure WFParts (F : Facts) : Prop where
  loadCatch : catchWF F.targetLoaders F.loadCatch F.loaderRaises = true
  specRead : readCatchWF F.specReadCatch = true
  targetRead : readCatchWF F.targetReadCatch = true
  stdinRead : stdinCatchWF F.stdinReadCatch = true
  specBranches : F.specBranches = [("python", "python-literal"), ("json", "json"), ("python-full", "exec")]
  reprBranches : F.reprBranches = ["python"]
  firstChars : F.firstChars = literalStart
  specDefault : F.specDefault = "python"
  targetLoaders : F.targetLoaders = [("json", "json"), ("yaml", "yaml-safe"), ("yml", "yaml-safe"),
    ("toml", "toml"), ("python", "python-literal")]
  targetDefault : F.targetDefault = "json"
  indentDefault : F.indentDefault = 2

theorem WF_parts {F : Facts} (h : WF F = true) : WFParts F := by
  simp only [WF, Bool.and_eq_true, beq_iff_eq] at h
  obtain ⟨⟨⟨⟨⟨⟨⟨⟨⟨⟨c1, c2⟩, c3⟩, c4⟩, h1⟩, h2⟩, h3⟩, h4⟩, h5⟩, h6⟩, h7⟩ := h
  exact ⟨c1, c2, c3, c4, h1, h2, h3, h4, h5, h6, h7⟩

/-- the trusted fact about Python the first-character rule relies on:
    `ast.literal_eval(repr(s)) == s` for every str `s` -/
def ReprOk (X : Ext T S R) : Prop := ∀ s, X.parse "python-literal" (X.repr s) = .ok (X.strSpec s)

/-! ### what the externals raise — the trusted facts the error paths rely on -/

/-- a failing read of text raises an OSError (missing file, directory, permissions) or a
    UnicodeError (bytes that are no text), both `Exception` subclasses -/
def isTextReadErr (X : Ext T S R) (c : String) : Bool :=
  (X.mro c).contains "Exception" && (X.mro c).contains "BaseException" &&
  ((X.mro c).contains "OSError" || ((X.mro c).contains "UnicodeError" && (X.mro c).contains "ValueError"))

/-- what reading standard input raises: an OSError, a ValueError (UnicodeError of the decoder; a
    closed stream) or an AttributeError (`sys.stdin is None`) — all `Exception` subclasses -/
def isStdinReadErr (X : Ext T S R) (c : String) : Bool :=
  (X.mro c).contains "Exception" && (X.mro c).contains "BaseException" &&
  ((X.mro c).contains "OSError" || (X.mro c).contains "ValueError" || (X.mro c).contains "AttributeError")

/-- trusted: how reading a file / standard input fails (checked on every case by the driver) -/
structure ReadErrOk (X : Ext T S R) (w : World) : Prop where
  file : ∀ p, X.readFile p = none → isTextReadErr X (X.readErr p) = true
  stdin : ∀ c, w.readErr = some c → isStdinReadErr X c = true

/-- trusted: a loader handed a text raises `Exception` subclasses only (never KeyboardInterrupt,
    SystemExit, GeneratorExit) and — needed only for a format whose handler does not name
    `Exception` itself — only classes the probe saw it raise -/
def LoadErrOk (F : Facts) (X : Ext T S R) : Prop :=
  ∀ k t c, X.load k t = .error c →
    (X.mro c).contains "Exception" = true ∧
    (F.loaderRaises.contains (k, c, X.mro c) = true ∨
     ∀ fmt, (fmt, k) ∈ F.targetLoaders → (catchOf F fmt).contains "Exception" = true)

/-- for the code as it is (`except Exception`) only the first half is needed -/
theorem loadErrOk_of_exception {F : Facts} {X : Ext T S R}
    (hF : ∀ fmt k, (fmt, k) ∈ F.targetLoaders → (catchOf F fmt).contains "Exception" = true)
    (hX : ∀ k t c, X.load k t = .error c → (X.mro c).contains "Exception" = true) : LoadErrOk F X :=
  fun k t c h => ⟨hX k t c h, Or.inr (fun fmt hm => hF fmt k hm)⟩

theorem caughtBy_of_mem (X : Ext T S R) (names : List String) (c n : String)
    (h1 : (X.mro c).contains n = true) (h2 : names.contains n = true) : caughtBy X names c = true := by
  unfold caughtBy
  rw [List.any_eq_true]
  exact ⟨n, by simpa using h1, h2⟩

/-- a handler that satisfies `readCatchWF` catches every failure of a text read -/
theorem caught_read (X : Ext T S R) (names : List String) (c : String)
    (hn : readCatchWF names = true) (hc : isTextReadErr X c = true) : caughtBy X names c = true := by
  simp only [readCatchWF, isTextReadErr, Bool.and_eq_true, Bool.or_eq_true] at hn hc
  obtain ⟨⟨hexc, hbase⟩, hcls⟩ := hc
  have top : (names.contains "Exception" = true ∨ names.contains "BaseException" = true) →
      caughtBy X names c = true := by
    rintro (h | h)
    · exact caughtBy_of_mem X names c "Exception" hexc h
    · exact caughtBy_of_mem X names c "BaseException" hbase h
  obtain ⟨ho, hu⟩ := hn
  rcases hcls with h | ⟨h1, h2⟩
  · rcases ho with ho | ho
    · exact caughtBy_of_mem X names c "OSError" h ho
    · exact top ho
  · rcases hu with (hu | hu) | hu
    · exact caughtBy_of_mem X names c "UnicodeError" h1 hu
    · exact caughtBy_of_mem X names c "ValueError" h2 hu
    · exact top hu

/-- a handler that satisfies `stdinCatchWF` catches every failure of reading standard input -/
theorem caught_stdin (X : Ext T S R) (names : List String) (c : String)
    (hn : stdinCatchWF names = true) (hc : isStdinReadErr X c = true) : caughtBy X names c = true := by
  simp only [stdinCatchWF, isStdinReadErr, Bool.and_eq_true, Bool.or_eq_true] at hn hc
  obtain ⟨⟨hexc, hbase⟩, hcls⟩ := hc
  have top : (names.contains "Exception" = true ∨ names.contains "BaseException" = true) →
      caughtBy X names c = true := by
    rintro (h | h)
    · exact caughtBy_of_mem X names c "Exception" hexc h
    · exact caughtBy_of_mem X names c "BaseException" hbase h
  obtain ⟨⟨ho, hv⟩, ha⟩ := hn
  rcases hcls with (h | h) | h
  · rcases ho with ho | ho
    · exact caughtBy_of_mem X names c "OSError" h ho
    · exact top ho
  · rcases hv with hv | hv
    · exact caughtBy_of_mem X names c "ValueError" h hv
    · exact top hv
  · rcases ha with ha | ha
    · exact caughtBy_of_mem X names c "AttributeError" h ha
    · exact top ha

/-- the handler of a format's loader catches whatever the loader raises -/
theorem caught_load {F : Facts} (hc : catchWF F.targetLoaders F.loadCatch F.loaderRaises = true)
    (X : Ext T S R) (hl : LoadErrOk F X) (fmt k t c : String) (hm : (fmt, k) ∈ F.targetLoaders)
    (he : X.load k t = .error c) : caughtBy X (catchOf F fmt) c = true := by
  obtain ⟨hexc, hpr⟩ := hl k t c he
  unfold catchWF at hc
  rw [List.all_eq_true] at hc
  have h := hc (fmt, k) hm
  unfold catchOf
  cases hf : F.loadCatch.find? (fun x => x.1 == fmt) with
  | none => simp [hf] at h
  | some p =>
    simp only [hf, Bool.or_eq_true] at h
    simp only
    rcases h with h | h
    · exact caughtBy_of_mem X p.2 c "Exception" hexc h
    · rcases hpr with hpr | hpr
      · rw [List.all_eq_true] at h
        have := h (k, c, X.mro c) (by simpa using hpr)
        simpa [caughtBy] using this
      · have := hpr fmt hm
        unfold catchOf at this
        rw [hf] at this
        exact caughtBy_of_mem X p.2 c "Exception" hexc this

theorem truthy_eq (o : Option String) : truthy o = (nonEmpty o).isSome := by
  cases o with
  | none => rfl
  | some s => by_cases h : s.isEmpty <;> simp [truthy, nonEmpty, Option.filter, h]

theorem nonEmpty_some {o : Option String} {s : String} (h : nonEmpty o = some s) : o = some s ∧ s.isEmpty = false := by
  cases o with
  | none => simp [nonEmpty] at h
  | some t =>
    simp only [nonEmpty, Option.filter] at h
    split at h
    · rename_i ht; cases h; exact ⟨rfl, by simpa using ht⟩
    · cases h

/-- parsing in the default format: the `python` branch, first-character test, `repr`, `literal_eval` -/
theorem parse_default {F : Facts} (w : WFParts F) (X : Ext T S R) (hr : ReprOk X) (st : String) :
    parseSpec F X "python" st = liftExc (refSpecOf X st) := by
  unfold parseSpec refSpecOf
  rw [w.specBranches, w.reprBranches, w.firstChars]
  generalize st.front = ch
  by_cases hc : ch ∈ literalStart
  · simp [hc]
  · simp [hc, hr st]

theorem fmt_default {F : Facts} (w : WFParts F) (a : Argv)
    (hfmt : (a.specFormat == none || a.specFormat == some "python") = true) :
    a.specFormat.getD F.specDefault = "python" := by
  rw [w.specDefault]
  cases h : a.specFormat with
  | none => rfl
  | some f => simp [h] at hfmt; simp [hfmt]

theorem truthy_of_some {o : Option String} {s : String} (h : nonEmpty o = some s) : truthy o = true := by
  rw [truthy_eq, h]; rfl

theorem truthy_of_none {o : Option String} (h : nonEmpty o = none) : truthy o = false := by
  rw [truthy_eq, h]; rfl

/-- the middleware's spec is the reference's spec -/
theorem getSpec_ref {F : Facts} (w : WFParts F) (X : Ext T S R) (hr : ReprOk X) (a : Argv)
    (hfmt : (a.specFormat == none || a.specFormat == some "python") = true) (st : String)
    (hst : refSpecText X a = some st) :
    getSpec F X a = liftExc (refSpecOf X st) := by
  unfold refSpecText at hst
  unfold getSpec
  dsimp only
  rw [fmt_default w a hfmt]
  split at hst
  · -- positional spec only
    rename_i s hp hf
    cases hst
    have h1 := truthy_of_some hp
    have h2 := truthy_of_none hf
    obtain ⟨hp', _⟩ := nonEmpty_some hp
    rename_i hne
    rw [h1, h2]
    simp only [Bool.and_false, Bool.false_eq_true, if_false]
    rw [hp']
    simp only [truthy, hne, Bool.not_false, Bool.not_true, Bool.false_eq_true, if_false, Option.getD_some]
    exact parse_default w X hr st
  · -- spec file only
    rename_i p hp hf
    have h1 := truthy_of_none hp
    have h2 := truthy_of_some hf
    have h3 := truthy_of_some hst
    obtain ⟨hf', _⟩ := nonEmpty_some hf
    obtain ⟨hrd, hne⟩ := nonEmpty_some hst
    rw [h1, h2, hf']
    simp only [Bool.false_and, Bool.false_eq_true, if_false, if_true, Option.getD_some, hrd,
      truthy, hne, Bool.not_false, Bool.not_true]
    exact parse_default w X hr st
  · cases hst

theorem not_dash_of_nonEmpty_none {o : Option String} (h : nonEmpty o = none) : (o == some "-") = false := by
  cases o with
  | none => rfl
  | some t =>
    by_cases htd : t = "-"
    · subst htd; simp [nonEmpty, Option.filter] at h
    · simp [htd]

/-- the middleware's target text is the reference's target text (an empty text is as good as none) -/
theorem readStdin_text (F : Facts) (X : Ext T S R) (wd : World) (tt : String) (h : refStdin wd = .text tt) :
    readStdin F X wd = .ok (some tt) := by
  unfold refStdin at h
  unfold readStdin
  cases he : wd.readErr with
  | none => simp [he] at h; simp [h]
  | some c => simp [he] at h

theorem readStdin_unreadable (F : Facts) (X : Ext T S R) (wd : World) (hr : ReadErrOk X wd)
    (hn : stdinCatchWF F.stdinReadCatch = true) (h : refStdin wd = .unreadable) :
    readStdin F X wd = .error (.usage .stdinUnreadable) := by
  unfold refStdin at h
  unfold readStdin
  cases he : wd.readErr with
  | none => simp [he] at h
  | some c => simp [readFail, caught_stdin X _ c hn (hr.stdin c he)]

theorem getTargetText_text (F : Facts) (X : Ext T S R) (a : Argv) (wd : World) (tt : String)
    (h : refTargetText X a wd = .text tt) :
    ∃ o, getTargetText F X a wd = .ok o ∧ (o = some tt ∨ (tt.isEmpty = true ∧ truthy o = false)) := by
  unfold refTargetText at h
  unfold getTargetText
  dsimp only
  split at h
  · -- positional target only
    rename_i t hp hf
    have h1 := truthy_of_some hp
    have h2 := truthy_of_none hf
    have hfd := not_dash_of_nonEmpty_none hf
    obtain ⟨hp', hne⟩ := nonEmpty_some hp
    rw [h1, h2, hfd, hp']
    by_cases hd : t = "-"
    · subst hd; simp at h; exact ⟨_, by simp [readStdin_text F X wd tt h], Or.inl rfl⟩
    · simp [hd] at h; subst h; exact ⟨_, by simp [hd], Or.inl rfl⟩
  · -- target file only
    rename_i p hp hf
    have h1 := truthy_of_none hp
    have h2 := truthy_of_some hf
    have hpd := not_dash_of_nonEmpty_none hp
    obtain ⟨hf', hne⟩ := nonEmpty_some hf
    rw [h1, h2, hpd, hf']
    by_cases hd : p = "-"
    · subst hd; simp at h; exact ⟨_, by simp [readStdin_text F X wd tt h], Or.inl rfl⟩
    · simp only [beq_iff_eq, hd, if_false] at h
      cases hrd : X.readFile p with
      | none => rw [hrd] at h; cases h
      | some t => rw [hrd] at h; cases h; exact ⟨_, by simp [hd, hrd], Or.inl rfl⟩
  · -- neither: piped stdin
    rename_i hp hf
    have h1 := truthy_of_none hp
    have h2 := truthy_of_none hf
    have hpd := not_dash_of_nonEmpty_none hp
    have hfd := not_dash_of_nonEmpty_none hf
    rw [h1, h2, hpd, hfd]
    cases htty : wd.isatty with
    | true => simp [htty] at h
    | false => simp [htty] at h; exact ⟨_, by simp [readStdin_text F X wd tt h], Or.inl rfl⟩
  · cases h

/-- an unreadable target (file or standard input) ends the middleware in a UsageError -/
theorem getTargetText_unreadable {F : Facts} (w : WFParts F) (X : Ext T S R) (a : Argv) (wd : World)
    (hr : ReadErrOk X wd) (h : refTargetText X a wd = .unreadable) :
    ∃ u, getTargetText F X a wd = .error (.usage u) := by
  unfold refTargetText at h
  unfold getTargetText
  dsimp only
  split at h
  · rename_i t hp hf
    have h1 := truthy_of_some hp
    have h2 := truthy_of_none hf
    have hfd := not_dash_of_nonEmpty_none hf
    obtain ⟨hp', hne⟩ := nonEmpty_some hp
    rw [h1, h2, hfd, hp']
    by_cases hd : t = "-"
    · subst hd; simp at h
      exact ⟨.stdinUnreadable, by simp [readStdin_unreadable F X wd hr w.stdinRead h]⟩
    · simp [hd] at h
  · rename_i p hp hf
    have h1 := truthy_of_none hp
    have h2 := truthy_of_some hf
    have hpd := not_dash_of_nonEmpty_none hp
    obtain ⟨hf', hne⟩ := nonEmpty_some hf
    rw [h1, h2, hpd, hf']
    by_cases hd : p = "-"
    · subst hd; simp at h
      exact ⟨.stdinUnreadable, by simp [readStdin_unreadable F X wd hr w.stdinRead h]⟩
    · simp only [beq_iff_eq, hd, if_false] at h
      cases hrd : X.readFile p with
      | none => exact ⟨.targetFileUnreadable, by simp [hd, hrd, readFail, caught_read X _ _ w.targetRead (hr.file p hrd)]⟩
      | some t => rw [hrd] at h; cases h
  · rename_i hp hf
    have h1 := truthy_of_none hp
    have h2 := truthy_of_none hf
    have hpd := not_dash_of_nonEmpty_none hp
    have hfd := not_dash_of_nonEmpty_none hf
    rw [h1, h2, hpd, hfd]
    cases htty : wd.isatty with
    | true => simp [htty] at h
    | false =>
      simp [htty] at h
      exact ⟨.stdinUnreadable, by simp [readStdin_unreadable F X wd hr w.stdinRead h]⟩
  · cases h

/-- `mw_handle_target` on a non-empty text loads it with the loader the reference names -/
theorem handleTarget_ref {F : Facts} (w : WFParts F) (X : Ext T S R) (a : Argv) (tt : String)
    (hne : tt.isEmpty = false) (k : String) (hk : refLoaderKind (a.targetFormat.getD "json") = some k) :
    handleTarget F X (some tt) (a.targetFormat.getD F.targetDefault)
      = liftLoad X (catchOf F (a.targetFormat.getD "json")) (X.load k tt) ∧
    (a.targetFormat.getD "json", k) ∈ F.targetLoaders := by
  unfold handleTarget
  rw [w.targetDefault, w.targetLoaders]
  simp only [truthy, hne, Bool.not_false, Bool.not_true, Bool.false_eq_true, if_false, Option.getD_some]
  unfold refLoaderKind at hk
  generalize a.targetFormat.getD "json" = fmt at hk ⊢
  by_cases h1 : fmt = "json"
  · subst h1; simp at hk; subst hk; simp
  · by_cases h2 : fmt = "yaml"
    · subst h2; simp at hk; subst hk; simp
    · by_cases h3 : fmt = "yml"
      · subst h3; simp at hk; subst hk; simp
      · by_cases h4 : fmt = "toml"
        · subst h4; simp at hk; subst hk; simp
        · by_cases h5 : fmt = "python"
          · subst h5; simp at hk; subst hk; simp
          · simp [h1, h2, h3, h4, h5] at hk

theorem handleTarget_empty (F : Facts) (X : Ext T S R) (o : Option String) (fmt : String)
    (h : truthy o = false) : handleTarget F X o fmt = .ok X.emptyTarget := by
  unfold handleTarget; simp [h]

/-- without --debug / --inspect the spec is used as it is -/
theorem wrapSpec_plain (X : Ext T S R) (so : Bool) (s : S) : wrapSpec X so s false false = s := by
  simp [wrapSpec]

theorem glomCli_render (X : Ext T S R) (so : StdinState) (t : T) (s : S) (r : R) (indent : Int) (scalar : Bool)
    (h : X.glom t s = .ok r) (hq : X.printed t s = "") :
    glomCli X so t s indent false false scalar = (match refRender X r indent scalar with
      | some out => .exit 0 out
      | none => match X.dumps r (if indent == 0 then none else some indent) with
        | .error c => .exc c
        | .ok o => .exit 0 (o ++ "\n")) := by
  unfold glomCli refRender
  simp only [wrapSpec_plain, h, hq, String.empty_append]
  by_cases hs : (scalar && X.isScalar r) = true
  · simp [hs]
  · simp only [hs, Bool.false_eq_true, if_false]
    cases X.dumps r (if indent == 0 then none else some indent) <;> rfl

/-- a spec the statement speaks about: the identity, a default-format text, a JSON text -/
def LiteralSpec (X : Ext T S R) (s : S) : Prop :=
  s = X.emptySpec ∨ ∃ st, refSpecOf X st = .ok s ∨ X.parse "json" st = .ok s

/-- trusted: the library call prints nothing for a literal spec (only `Inspect` echoes) -/
def QuietOk (X : Ext T S R) : Prop := ∀ t s, LiteralSpec X s → X.printed t s = ""

/-! ### deliveries: every way of handing the same spec and target to the command -/

/-- the request the property speaks about: default spec format, no --debug / --inspect -/
def Request.Plain (q : Request) : Prop :=
  (q.specFormat == none || q.specFormat == some "python") = true ∧ q.debug = false ∧ q.inspect = false

/-- the files hold the texts; file names are non-empty and not `-` -/
def Request.FilesOk (q : Request) (X : Ext T S R) : Prop :=
  (match q.sv with | .file p => p.isEmpty = false ∧ X.readFile p = some q.specText | .argv => True) ∧
  (match q.tv with | .file p => p.isEmpty = false ∧ p ≠ "-" ∧ X.readFile p = some q.targetText | _ => True)

theorem request_expect_texts (X : Ext T S R) (q : Request) (junk : String) (tty : Bool)
    (hs : q.specText.isEmpty = false) (ht : q.targetText.isEmpty = false)
    (hdash : q.targetText ≠ "-") (hfiles : q.FilesOk X) :
    refSpecText X q.argv = some q.specText ∧
    refTargetText X q.argv (q.world junk tty) = .text q.targetText := by
  obtain ⟨hf1, hf2⟩ := hfiles
  cases hsv : q.sv <;> cases htv : q.tv <;>
    simp_all [Request.argv, Request.world, refSpecText, refTargetText, refStdin, posTexts, nonEmpty, Option.filter, World.readErr, World.isatty]

/-! ### delivery independence -/

/-- what the command does with a spec TEXT and a target TEXT, whatever brought them -/
def Request.direct (F : Facts) (X : Ext T S R) (q : Request) : Outcome :=
  let spec : Except Outcome S :=
    if q.specText.isEmpty then .ok X.emptySpec
    else parseSpec F X (q.specFormat.getD F.specDefault) q.specText
  match spec with
  | .error o => o
  | .ok spec =>
    match handleTarget F X (some q.targetText) (q.targetFormat.getD F.targetDefault) with
    | .error o => o
    | .ok t => glomCli X .open t spec (q.indent.getD F.indentDefault) q.debug q.inspect q.scalar

theorem getSpec_request (F : Facts) (X : Ext T S R) (q : Request) (hfiles : q.FilesOk X) :
    getSpec F X q.argv =
      (if q.specText.isEmpty then .ok X.emptySpec
       else parseSpec F X (q.specFormat.getD F.specDefault) q.specText) := by
  obtain ⟨hf1, _⟩ := hfiles
  unfold getSpec
  cases hsv : q.sv with
  | argv =>
    cases htv : q.tv <;>
      (by_cases he : q.specText.isEmpty = true <;>
        simp [Request.argv, posTexts, truthy, hsv, htv, he])
  | file p =>
    rw [hsv] at hf1
    obtain ⟨hp, hrd⟩ := hf1
    cases htv : q.tv <;>
      (by_cases he : q.specText.isEmpty = true <;>
        simp [Request.argv, posTexts, truthy, hsv, htv, he, hp, hrd])

theorem getTargetText_request (F : Facts) (X : Ext T S R) (q : Request) (junk : String) (tty : Bool)
    (ht : q.targetText.isEmpty = false) (hdash : q.targetText ≠ "-") (hfiles : q.FilesOk X) :
    getTargetText F X q.argv (q.world junk tty) = .ok (some q.targetText) := by
  obtain ⟨_, hf2⟩ := hfiles
  unfold getTargetText
  cases hsv : q.sv <;> cases htv : q.tv <;>
    simp_all [Request.argv, Request.world, posTexts, truthy, readStdin, World.readErr, World.isatty]

/-- every delivery of a request does what `direct` says -/
theorem cliMain_request (F : Facts) (X : Ext T S R) (q : Request) (junk : String) (tty : Bool)
    (ht : q.targetText.isEmpty = false) (hdash : q.targetText ≠ "-") (hfiles : q.FilesOk X) :
    cliMain F X q.argv (q.world junk tty) = q.direct F X := by
  unfold cliMain Request.direct
  rw [getSpec_request F X q hfiles, getTargetText_request F X q junk tty ht hdash hfiles]
  have hw : (q.world junk tty).stdinState = .open := by
    cases htv : q.tv <;> simp [Request.world, htv]
  have ha : q.argv.targetFormat = q.targetFormat ∧ q.argv.indent = q.indent ∧ q.argv.scalar = q.scalar ∧
      q.argv.debug = q.debug ∧ q.argv.inspect = q.inspect := by simp [Request.argv]
  simp only [runWith, hw, ha.1, ha.2.1, ha.2.2.1, ha.2.2.2.1, ha.2.2.2.2]
  generalize (if q.specText.isEmpty = true then (Except.ok X.emptySpec : Except Outcome S)
    else parseSpec F X (q.specFormat.getD F.specDefault) q.specText) = sp
  cases sp with
  | error o => rfl
  | ok spec => cases handleTarget F X (some q.targetText) (q.targetFormat.getD F.targetDefault) <;> rfl

theorem filesOk_of_B (X : Ext T S R) (q : Request) (h : q.filesOkB X = true) : q.FilesOk X := by
  unfold Request.filesOkB at h
  unfold Request.FilesOk
  cases hsv : q.sv <;> cases htv : q.tv <;> simp_all

/-! ### the complete decision table: the facts-parametric model is the documented command -/

theorem parseSpec_total {F : Facts} (w : WFParts F) (X : Ext T S R) (hr : ReprOk X) (fmt st : String) :
    parseSpec F X fmt st = refParse X fmt st := by
  by_cases h1 : fmt = "python"
  · subst h1; rw [parse_default w X hr st]; simp [refParse]
  · by_cases h2 : fmt = "json"
    · subst h2; simp [parseSpec, refParse, w.specBranches, w.reprBranches]
    · by_cases h3 : fmt = "python-full"
      · subst h3; simp [parseSpec, refParse, w.specBranches, w.reprBranches]
      · have e1 : ¬ "python" = fmt := fun h => h1 h.symm
        have e2 : ¬ "json" = fmt := fun h => h2 h.symm
        have e3 : ¬ "python-full" = fmt := fun h => h3 h.symm
        simp [parseSpec, refParse, w.specBranches, h1, h2, h3, e1, e2, e3]

theorem isTextReadErr_eq (X : Ext T S R) (c : String) : isTextReadErr X c = textReadErr X c := rfl

theorem getSpec_total {F : Facts} (w : WFParts F) (X : Ext T S R) (hr : ReprOk X)
    (hrd : ∀ p, X.readFile p = none → isTextReadErr X (X.readErr p) = true) (a : Argv) :
    getSpec F X a = refSpecMain X a := by
  unfold getSpec refSpecMain
  dsimp only
  rw [w.specDefault]
  cases hp : nonEmpty (posTexts a).1 with
  | some st =>
    obtain ⟨hp', hne⟩ := nonEmpty_some hp
    have h1 := truthy_of_some hp
    cases hf : nonEmpty a.specFile with
    | some p => simp [h1, truthy_of_some hf]
    | none =>
      simp only [h1, truthy_of_none hf, Bool.and_false, Bool.false_eq_true, if_false]
      rw [hp']
      simp only [truthy, hne, Bool.not_false, Bool.not_true, Bool.false_eq_true, if_false, Option.getD_some]
      exact parseSpec_total w X hr _ st
  | none =>
    have h1 := truthy_of_none hp
    cases hf : nonEmpty a.specFile with
    | some p =>
      obtain ⟨hf', hne⟩ := nonEmpty_some hf
      simp only [h1, truthy_of_some hf, Bool.false_and, Bool.false_eq_true, if_false, if_true]
      rw [hf']
      simp only [Option.getD_some]
      cases hrdp : X.readFile p with
      | none => simp [readFail, caught_read X _ _ w.specRead (hrd p hrdp)]
      | some st =>
        simp only
        by_cases he : st.isEmpty = true
        · simp [truthy, he]
        · simp only [truthy, he, Bool.not_false, Bool.not_true, Bool.false_eq_true, if_false, Option.getD_some]
          exact parseSpec_total w X hr _ st
    | none =>
      simp [h1, truthy_of_none hf]

theorem handleTarget_total {F : Facts} (w : WFParts F) (X : Ext T S R) (hl : LoadErrOk F X)
    (fmt : Option String) (tt : String) :
    handleTarget F X (some tt) (fmt.getD F.targetDefault) = refLoad X (fmt.getD "json") tt := by
  unfold refLoad
  by_cases he : tt.isEmpty = true
  · simp [handleTarget, truthy, he]
  · have he' : tt.isEmpty = false := by simpa using he
    simp only [he, Bool.false_eq_true, if_false]
    cases hk : refLoaderKind (fmt.getD "json") with
    | some k =>
      obtain ⟨href, hmem⟩ := handleTarget_ref w X ⟨[], none, fmt, none, none, none, false, false, false⟩ tt he' k hk
      simp only at href hmem
      rw [href]
      cases hld : X.load k tt with
      | ok t => simp [liftLoad, hld]
      | error c => simp [liftLoad, hld, caught_load w.loadCatch X hl _ k tt c hmem hld]
    | none =>
      unfold handleTarget
      rw [w.targetDefault, w.targetLoaders]
      simp only [truthy, he', Bool.not_false, Bool.not_true, Bool.false_eq_true, if_false]
      unfold refLoaderKind at hk
      generalize fmt.getD "json" = f at hk ⊢
      by_cases h1 : f = "json"
      · simp [h1] at hk
      · by_cases h2 : f = "yaml"
        · simp [h2] at hk
        · by_cases h3 : f = "yml"
          · simp [h3] at hk
          · by_cases h4 : f = "toml"
            · simp [h4] at hk
            · by_cases h5 : f = "python"
              · simp [h5] at hk
              · have e1 : ¬ "json" = f := fun h => h1 h.symm
                have e2 : ¬ "yaml" = f := fun h => h2 h.symm
                have e3 : ¬ "yml" = f := fun h => h3 h.symm
                have e4 : ¬ "toml" = f := fun h => h4 h.symm
                have e5 : ¬ "python" = f := fun h => h5 h.symm
                simp [h1, h2, h3, h4, h5, e1, e2, e3, e4, e5]

/-- the middleware's target half as one function -/
def modelTarget (F : Facts) (X : Ext T S R) (a : Argv) (w : World) : Except Outcome T :=
  match getTargetText F X a w with
  | .error o => .error o
  | .ok text => handleTarget F X text (a.targetFormat.getD F.targetDefault)

theorem readStdin_total {F : Facts} (wf : WFParts F) (X : Ext T S R) (w : World) (hr : ReadErrOk X w) :
    readStdin F X w = (if w.readErr.isSome then .error (.usage .stdinUnreadable) else .ok (some w.stdin)) := by
  unfold readStdin
  cases he : w.readErr with
  | none => simp
  | some c => simp [readFail, caught_stdin X _ c wf.stdinRead (hr.stdin c he)]

theorem modelTarget_total {F : Facts} (wf : WFParts F) (X : Ext T S R) (hl : LoadErrOk F X)
    (a : Argv) (w : World) (hr : ReadErrOk X w) :
    modelTarget F X a w = refTargetMain X a w := by
  unfold modelTarget refTargetMain getTargetText
  dsimp only
  have hstd := readStdin_total wf X w hr
  have hempty : handleTarget F X (some "") (a.targetFormat.getD F.targetDefault) = .ok X.emptyTarget := by
    simp [handleTarget, truthy]
  cases hp : nonEmpty (posTexts a).2 with
  | some t =>
    obtain ⟨hp', hne⟩ := nonEmpty_some hp
    have h1 := truthy_of_some hp
    cases hf : nonEmpty a.targetFile with
    | some p => simp [h1, truthy_of_some hf]
    | none =>
      have h2 := truthy_of_none hf
      have hfd := not_dash_of_nonEmpty_none hf
      rw [h1, h2, hfd, hp']
      by_cases hd : t = "-"
      · subst hd
        simp only [Bool.and_false, Bool.false_eq_true, if_false, beq_self_eq_true, Bool.true_or, if_true, hstd]
        cases w.readErr <;> simp [handleTarget_total wf X hl]
      · simp [hd, handleTarget_total wf X hl, hne]
  | none =>
    have h1 := truthy_of_none hp
    have hpd := not_dash_of_nonEmpty_none hp
    cases hf : nonEmpty a.targetFile with
    | some p =>
      obtain ⟨hf', hne⟩ := nonEmpty_some hf
      have h2 := truthy_of_some hf
      rw [h1, h2, hpd, hf']
      by_cases hd : p = "-"
      · subst hd
        simp only [Bool.false_and, Bool.false_eq_true, if_false, beq_self_eq_true, Bool.or_true, if_true, hstd]
        cases w.readErr <;> simp [handleTarget_total wf X hl]
      · simp only [Bool.false_and, Bool.false_eq_true, if_false, Option.some.injEq, hd, beq_iff_eq,
          Bool.or_false, if_true, Option.getD_some]
        cases hrdp : X.readFile p with
        | none => simp [hd, readFail, caught_read X _ _ wf.targetRead (hr.file p hrdp)]
        | some t => simp [hd, handleTarget_total wf X hl]
    | none =>
      have h2 := truthy_of_none hf
      have hfd := not_dash_of_nonEmpty_none hf
      rw [h1, h2, hpd, hfd]
      cases htty : w.isatty with
      | true =>
        simp only [Bool.false_and, Bool.false_eq_true, if_false, Bool.or_self, Bool.not_true,
          Bool.and_false, if_true]
        rw [handleTarget_empty F X _ _ h1]
        simp [refLoad]
      | false =>
        simp only [Bool.false_and, Bool.false_eq_true, if_false, Bool.or_self, Bool.not_false,
          Bool.and_self, if_true, hstd]
        cases w.readErr <;> simp [handleTarget_total wf X hl]

theorem glomCli_total {F : Facts} (wf : WFParts F) (X : Ext T S R) (a : Argv) (w : World) (t : T) (s : S) :
    glomCli X w.stdinState t s (a.indent.getD F.indentDefault) a.debug a.inspect a.scalar = refRun X a w t s := by
  unfold glomCli refRun wrapSpec
  rw [wf.indentDefault]
  rfl

theorem cliMain_total {F : Facts} (wf : WFParts F) (X : Ext T S R) (hr : ReprOk X) (hl : LoadErrOk F X)
    (a : Argv) (w : World) (hrd : ReadErrOk X w) : cliMain F X a w = refMain X a w := by
  have hs := getSpec_total wf X hr hrd.file a
  have ht := modelTarget_total wf X hl a w hrd
  unfold cliMain refMain refFinish
  rw [hs]
  cases refSpecMain X a with
  | error o => rfl
  | ok s =>
    simp only
    rw [← ht]
    unfold modelTarget
    cases getTargetText F X a w with
    | error o => rfl
    | ok text =>
      simp only [runWith]
      cases handleTarget F X text (a.targetFormat.getD F.targetDefault) with
      | error o => rfl
      | ok t => exact glomCli_total wf X a w t s

/-! ### face's parser on the canonical command line (for the table as extracted) -/

theorem step_str (E : PEnv) (name key : String) (v : String) (rest : List String) (fm : FlagMap)
    (hs : splitEq name = (name, none)) (hl : genTable.lookup name = some ⟨key, "str", "error"⟩)
    (he : endsFlags name = false) (hk : (key == genTable.flagfile) = false) :
    parseFlags genTable E (name :: v :: rest) fm [] [] = parseFlags genTable E rest (fm ++ [(key, .str v)]) [] [] := by
  rw [parseFlags]
  unfold endsFlags at he
  simp only [he, Bool.false_eq_true, if_false]
  simp [parseSingleFlag, hs, hl, convArg, mergeFlagfile, hk, Except.map]

theorem step_int (E : PEnv) (name key : String) (v : String) (n : Int) (rest : List String) (fm : FlagMap)
    (hs : splitEq name = (name, none)) (hl : genTable.lookup name = some ⟨key, "int", "error"⟩)
    (he : endsFlags name = false) (hk : (key == genTable.flagfile) = false) (hn : E.parseInt v = some n) :
    parseFlags genTable E (name :: v :: rest) fm [] [] = parseFlags genTable E rest (fm ++ [(key, .int n)]) [] [] := by
  rw [parseFlags]
  unfold endsFlags at he
  simp only [he, Bool.false_eq_true, if_false]
  simp [parseSingleFlag, hs, hl, convArg, mergeFlagfile, hk, Except.map, hn]

theorem step_const (E : PEnv) (name key : String) (rest : List String) (fm : FlagMap)
    (hs : splitEq name = (name, none)) (hl : genTable.lookup name = some ⟨key, "const", "error"⟩)
    (he : endsFlags name = false) (hk : (key == genTable.flagfile) = false) :
    parseFlags genTable E (name :: rest) fm [] [] = parseFlags genTable E rest (fm ++ [(key, .on)]) [] [] := by
  rw [parseFlags]
  unfold endsFlags at he
  simp only [he, Bool.false_eq_true, if_false]
  simp [parseSingleFlag, hs, hl, mergeFlagfile, hk, truthy]

theorem parseFlags_pos (E : PEnv) (pos : List String) (fm : FlagMap)
    (h : (match pos with | p :: _ => endsFlags p | [] => true) = true) :
    parseFlags genTable E pos fm [] [] = .ok (fm, pos) := by
  cases pos with
  | nil => rw [parseFlags]
  | cons p ps =>
    rw [parseFlags]
    simp only [endsFlags] at h
    rw [if_pos h]

/-- an optional entry of the flag map -/
def ent (k : String) (o : Option FVal) : FlagMap := (o.map (fun v => (k, v))).toList

def onOpt (b : Bool) : Option FVal := if b then some .on else none

/-- the flag map the canonical command line of `a` produces -/
def fmOf (a : Argv) : FlagMap :=
  ent "target_file" (a.targetFile.map .str) ++ ent "target_format" (a.targetFormat.map .str) ++
  ent "spec_file" (a.specFile.map .str) ++ ent "spec_format" (a.specFormat.map .str) ++
  ent "indent" (a.indent.map .int) ++ ent "scalar" (onOpt a.scalar) ++ ent "debug" (onOpt a.debug) ++
  ent "inspect" (onOpt a.inspect)

theorem ent_filter (k n : String) (o : Option FVal) :
    (ent k o).filter (fun e => e.1 == n) = if k == n then ent k o else [] := by
  cases o with
  | none => simp [ent]
  | some v => by_cases h : k = n <;> simp [ent, h]

theorem ent_length (k : String) (o : Option FVal) : (ent k o).length ≤ 1 := by
  cases o <;> simp [ent]

theorem ent_last (k : String) (o : Option FVal) : ((ent k o).getLast?).map (·.2) = o := by
  cases o <;> simp [ent]

theorem ent_any (k n : String) (o : Option FVal) (h : (k == n) = false) :
    (ent k o).any (fun e => e.1 == n) = false := by
  cases o <;> simp [ent, h]

theorem parseFlags_render (E : PEnv) (hi : ∀ n : Int, E.parseInt (toString n) = some n) (a : Argv)
    (hp : (match a.posargs with | p :: _ => endsFlags p | [] => true) = true) :
    parseFlags genTable E a.render [] [] [] = .ok (fmOf a, a.posargs) := by
  have k1 : ∀ (v : String) rest fm, parseFlags genTable E ("--target-file" :: v :: rest) fm [] [] = _ :=
    fun v rest fm => step_str E "--target-file" "target_file" v rest fm (by decide +kernel) (by decide +kernel) (by decide +kernel) (by decide +kernel)
  have k2 : ∀ (v : String) rest fm, parseFlags genTable E ("--target-format" :: v :: rest) fm [] [] = _ :=
    fun v rest fm => step_str E "--target-format" "target_format" v rest fm (by decide +kernel) (by decide +kernel) (by decide +kernel) (by decide +kernel)
  have k3 : ∀ (v : String) rest fm, parseFlags genTable E ("--spec-file" :: v :: rest) fm [] [] = _ :=
    fun v rest fm => step_str E "--spec-file" "spec_file" v rest fm (by decide +kernel) (by decide +kernel) (by decide +kernel) (by decide +kernel)
  have k4 : ∀ (v : String) rest fm, parseFlags genTable E ("--spec-format" :: v :: rest) fm [] [] = _ :=
    fun v rest fm => step_str E "--spec-format" "spec_format" v rest fm (by decide +kernel) (by decide +kernel) (by decide +kernel) (by decide +kernel)
  have hi' : ∀ n : Int, E.parseInt n.repr = some n := fun n => by simpa using hi n
  have k5 : ∀ (n : Int) rest fm, parseFlags genTable E ("--indent" :: n.repr :: rest) fm [] [] = _ :=
    fun n rest fm => step_int E "--indent" "indent" n.repr n rest fm (by decide +kernel) (by decide +kernel) (by decide +kernel) (by decide +kernel) (hi' n)
  have k6 : ∀ rest fm, parseFlags genTable E ("--scalar" :: rest) fm [] [] = _ :=
    fun rest fm => step_const E "--scalar" "scalar" rest fm (by decide +kernel) (by decide +kernel) (by decide +kernel) (by decide +kernel)
  have k7 : ∀ rest fm, parseFlags genTable E ("--debug" :: rest) fm [] [] = _ :=
    fun rest fm => step_const E "--debug" "debug" rest fm (by decide +kernel) (by decide +kernel) (by decide +kernel) (by decide +kernel)
  have k8 : ∀ rest fm, parseFlags genTable E ("--inspect" :: rest) fm [] [] = _ :=
    fun rest fm => step_const E "--inspect" "inspect" rest fm (by decide +kernel) (by decide +kernel) (by decide +kernel) (by decide +kernel)
  have kp := fun fm => parseFlags_pos E a.posargs fm hp
  unfold Argv.render fmOf optFlag ent onOpt
  cases a.targetFile <;> cases a.targetFormat <;> cases a.specFile <;> cases a.specFormat <;> cases a.indent <;>
    cases a.scalar <;> cases a.debug <;> cases a.inspect <;>
    simp [k1, k2, k3, k4, k5, k6, k7, k8, kp]

theorem flagVal_fmOf (a : Argv) :
    flagVal (fmOf a) "target_file" = a.targetFile.map .str ∧ flagVal (fmOf a) "target_format" = a.targetFormat.map .str ∧
    flagVal (fmOf a) "spec_file" = a.specFile.map .str ∧ flagVal (fmOf a) "spec_format" = a.specFormat.map .str ∧
    flagVal (fmOf a) "indent" = a.indent.map .int ∧ flagVal (fmOf a) "scalar" = onOpt a.scalar ∧
    flagVal (fmOf a) "debug" = onOpt a.debug ∧ flagVal (fmOf a) "inspect" = onOpt a.inspect := by
  unfold flagVal fmOf
  simp only [List.filter_append, ent_filter]
  refine ⟨?_, ?_, ?_, ?_, ?_, ?_, ?_, ?_⟩ <;>
    simp (decide := true) only [if_true, if_false, List.append_nil, List.nil_append, ent_last,
      Bool.false_eq_true, reduceCtorEq]

theorem argvOf_fmOf (a : Argv) : argvOf (fmOf a) a.posargs = a := by
  obtain ⟨h1, h2, h3, h4, h5, h6, h7, h8⟩ := flagVal_fmOf a
  unfold argvOf strVal intVal onVal
  rw [h1, h2, h3, h4, h5, h6, h7, h8]
  obtain ⟨pos, tf, tfm, sf, sfm, ind, sc, db, ins⟩ := a
  cases tf <;> cases tfm <;> cases sf <;> cases sfm <;> cases ind <;> cases sc <;> cases db <;> cases ins <;> rfl

theorem fmOf_no_help (a : Argv) : (fmOf a).any (fun e => e.1 == "help") = false := by
  unfold fmOf
  simp only [List.any_append, Bool.or_eq_false_iff]
  refine ⟨⟨⟨⟨⟨⟨⟨?_, ?_⟩, ?_⟩, ?_⟩, ?_⟩, ?_⟩, ?_⟩, ?_⟩ <;> exact ent_any _ _ _ (by decide)

theorem fmOf_no_dup (a : Argv) (n : String) : ((fmOf a).filter (fun e => e.1 == n)).length ≤ 1 := by
  unfold fmOf
  simp only [List.filter_append, ent_filter, List.length_append]
  have := ent_length
  by_cases h1 : n = "target_file"
  · subst h1; simp (decide := true) [ent_length]
  by_cases h2 : n = "target_format"
  · subst h2; simp (decide := true) [ent_length]
  by_cases h3 : n = "spec_file"
  · subst h3; simp (decide := true) [ent_length]
  by_cases h4 : n = "spec_format"
  · subst h4; simp (decide := true) [ent_length]
  by_cases h5 : n = "indent"
  · subst h5; simp (decide := true) [ent_length]
  by_cases h6 : n = "scalar"
  · subst h6; simp (decide := true) [ent_length]
  by_cases h7 : n = "debug"
  · subst h7; simp (decide := true) [ent_length]
  by_cases h8 : n = "inspect"
  · subst h8; simp (decide := true) [ent_length]
  have e : ∀ k : String, ¬ n = k → (k == n) = false := fun k h => by simpa using fun h' => h h'.symm
  simp [e _ h1, e _ h2, e _ h3, e _ h4, e _ h5, e _ h6, e _ h7, e _ h8]


theorem splitFirst_none {α : Type} [BEq α] [LawfulBEq α] (sep : α) (l : List α) (h : l.contains sep = false) :
    splitFirst sep l = (l, none) := by
  induction l with
  | nil => rfl
  | cons a l ih =>
    simp only [List.contains_cons, Bool.or_eq_false_iff] at h
    have ha : (a == sep) = false := by
      rw [← h.1]; exact Bool.eq_iff_iff.mpr ⟨fun e => by simpa using (eq_of_beq e).symm, fun e => by simpa using (eq_of_beq e).symm⟩
    rw [splitFirst, ha, ih h.2]
    rfl

theorem splitDashDash_none (pos : List String) (h : pos.contains "--" = false) : splitDashDash pos = (pos, none) :=
  splitFirst_none "--" pos h

theorem checkPosargs_ok (pos : List String) (h : posargsOk pos = true) : checkPosargs genTable pos = .ok pos := by
  unfold posargsOk at h
  simp only [Bool.and_eq_true, decide_eq_true_eq, Bool.not_eq_eq_eq_not, Bool.not_true] at h
  obtain ⟨⟨hl, _⟩, hd⟩ := h
  unfold checkPosargs
  rw [splitDashDash_none pos hd]
  have h1 : genTable.postPosargs = false := by decide +kernel
  have h2 : genTable.posMax = some 2 := by decide +kernel
  simp only [h1, h2]
  simp
  omega

/-- `int(str(n)) == n` — the trusted fact about Python the canonical `--indent N` relies on -/
def IntReprOk (E : PEnv) : Prop := ∀ n : Int, E.parseInt (toString n) = some n

/-- the canonical command line of a set of flags parses back to exactly these flags -/
theorem parseArgv_render (E : PEnv) (hi : IntReprOk E) (a : Argv) (hp : posargsOk a.posargs = true)
    (prog : String) : parseArgv genTable E (prog :: a.render) = .ok a := by
  have hp' : (match a.posargs with | p :: _ => endsFlags p | [] => true) = true := by
    unfold posargsOk at hp
    simp only [Bool.and_eq_true] at hp
    exact hp.1.2
  unfold parseArgv
  simp only
  rw [parseFlags_render E hi a hp']
  have hh : genTable.help = "help" := by decide +kernel
  have hdup : duplicated genTable (fmOf a) = false := by
    unfold duplicated
    rw [List.any_eq_false]
    intro f _
    have := fmOf_no_dup a f.name
    have hlt : decide ((List.filter (fun x => x.1 == f.name) (fmOf a)).length > 1) = false := by
      simp; omega
    simp [hlt]
  simp only [hh, fmOf_no_help a, Bool.and_false, hdup, Bool.false_eq_true, if_false, checkPosargs_ok _ hp,
    argvOf_fmOf]


/-! ### exit status -/

/-- an outcome that carries no exit code of its own: status 1, nothing on standard output -/
def Outcome.isFailure : Outcome → Bool
  | .exit _ _ => false
  | _ => true

theorem readFail_failure (X : Ext T S R) (names : List String) (u : Usage) (c : String) :
    (readFail X names u c).isFailure = true := by
  unfold readFail; split <;> rfl

theorem liftExc_err (r : Except String S) (o : Outcome) (h : liftExc r = .error o) : o.isFailure = true := by
  cases r with
  | ok s => simp [liftExc] at h
  | error c => simp [liftExc] at h; subst h; rfl

theorem parseSpec_err (F : Facts) (X : Ext T S R) (fmt t : String) (o : Outcome)
    (h : parseSpec F X fmt t = .error o) : o.isFailure = true := by
  unfold parseSpec at h
  split at h
  · cases h; rfl
  · exact liftExc_err _ _ h

theorem getSpec_err (F : Facts) (X : Ext T S R) (a : Argv) (o : Outcome) (h : getSpec F X a = .error o) :
    o.isFailure = true := by
  unfold getSpec at h
  dsimp only at h
  split at h
  · cases h; rfl
  · split at h
    · rename_i o' heq
      cases h
      split at heq
      · split at heq
        · cases heq
        · cases heq; exact readFail_failure _ _ _ _
      · cases heq
    · split at h
      · cases h
      · exact parseSpec_err _ _ _ _ _ h

theorem readStdin_err (F : Facts) (X : Ext T S R) (w : World) (o : Outcome) (h : readStdin F X w = .error o) :
    o.isFailure = true := by
  unfold readStdin at h
  split at h
  · cases h
  · cases h; exact readFail_failure _ _ _ _

theorem getTargetText_err (F : Facts) (X : Ext T S R) (a : Argv) (w : World) (o : Outcome)
    (h : getTargetText F X a w = .error o) : o.isFailure = true := by
  unfold getTargetText at h
  dsimp only at h
  split at h
  · cases h; rfl
  · split at h
    · exact readStdin_err F X w o h
    · split at h
      · split at h
        · cases h
        · cases h; exact readFail_failure _ _ _ _
      · split at h
        · exact readStdin_err F X w o h
        · cases h

theorem handleTarget_err (F : Facts) (X : Ext T S R) (text : Option String) (fmt : String) (o : Outcome)
    (h : handleTarget F X text fmt = .error o) : o.isFailure = true := by
  unfold handleTarget at h
  split at h
  · cases h
  · split at h
    · cases h; rfl
    · unfold liftLoad at h
      split at h
      · cases h
      · split at h <;> (cases h; rfl)

theorem glomCli_status (X : Ext T S R) (so : StdinState) (t : T) (s : S) (indent : Int) (d i sc : Bool) :
    (glomCli X so t s indent d i sc).status ≤ 1 := by
  unfold glomCli
  dsimp only
  split
  · simp [Outcome.status]
  · split
    · simp [Outcome.status]
    · simp [Outcome.status]
    · split
      · simp [Outcome.status]
      · split <;> simp [Outcome.status]

theorem failure_status (o : Outcome) (h : o.isFailure = true) : o.status = 1 ∧ o.stdout = "" := by
  cases o <;> simp_all [Outcome.isFailure, Outcome.status, Outcome.stdout]

theorem cliMain_status (F : Facts) (X : Ext T S R) (a : Argv) (w : World) : (cliMain F X a w).status ≤ 1 := by
  unfold cliMain
  split
  · rename_i o h; rw [(failure_status o (getSpec_err F X a o h)).1]; exact Nat.le_refl 1
  · split
    · rename_i o h; rw [(failure_status o (getTargetText_err F X a w o h)).1]; exact Nat.le_refl 1
    · unfold runWith
      split
      · rename_i o h; rw [(failure_status o (handleTarget_err F X _ _ o h)).1]; exact Nat.le_refl 1
      · exact glomCli_status _ _ _ _ _ _ _ _

theorem glomCli_exit (X : Ext T S R) (so : StdinState) (t : T) (s : S) (indent : Int) (d i sc : Bool) (c : Nat)
    (out : String) (h : glomCli X so t s indent d i sc = .exit c out) :
    (c = 0 ∧ ∃ r, X.glom t (wrapSpec X (so == .open) s d i) = .ok r ∧
      (out = X.printed t (wrapSpec X (so == .open) s d i) ++ X.str r ∨
       ∃ js, X.dumps r (if indent == 0 then none else some indent) = .ok js ∧
         out = X.printed t (wrapSpec X (so == .open) s d i) ++ (js ++ "\n"))) ∨
    (c = 1 ∧ ∃ cls msg, X.glom t (wrapSpec X (so == .open) s d i) = .glomError cls msg ∧
      out = X.printed t (wrapSpec X (so == .open) s d i) ++ (cls ++ ": " ++ msg ++ "\n")) := by
  unfold glomCli at h
  dsimp only at h
  split at h
  · cases h
  split at h
  · rename_i cls msg hg
    cases h
    exact Or.inr ⟨rfl, cls, msg, hg, rfl⟩
  · cases h
  · rename_i r hg
    split at h
    · cases h; exact Or.inl ⟨rfl, r, hg, Or.inl rfl⟩
    · split at h
      · rename_i js hd
        cases h; exact Or.inl ⟨rfl, r, hg, Or.inr ⟨js, hd, rfl⟩⟩
      · cases h

/-- whenever `main` on parsed flags ends with an exit code of its own, the handler `glom_cli` ran -/
theorem cliMain_exit (F : Facts) (X : Ext T S R) (a : Argv) (w : World) (c : Nat) (out : String)
    (h : cliMain F X a w = .exit c out) :
    ∃ s t, getSpec F X a = .ok s ∧
      glomCli X w.stdinState t s (a.indent.getD F.indentDefault) a.debug a.inspect a.scalar = .exit c out := by
  unfold cliMain at h
  split at h
  · rename_i o hs
    have := getSpec_err F X a o hs
    subst h; cases this
  · rename_i s hs
    split at h
    · rename_i o ht
      have := getTargetText_err F X a w o ht
      subst h; cases this
    · unfold runWith at h
      split at h
      · rename_i o ht
        have := handleTarget_err F X _ _ o ht
        subst h; cases this
      · rename_i t _
        exact ⟨s, t, hs, h⟩

/-! ### where the value of a flag comes from -/

theorem parseSingleFlag_str (tbl : Table) (E : PEnv) (arg : String) (rest : List String) (f : FlagSpec)
    (s : String) (adv : Bool) (h : parseSingleFlag tbl E arg rest = .ok (f, .str s, adv)) :
    tbl.lookup (splitEq arg).1 = some f ∧ ((splitEq arg).2 = some s ∨ ∃ r, rest = s :: r) := by
  unfold parseSingleFlag at h
  dsimp only at h
  split at h
  · cases h
  · rename_i f' hl
    split at h
    · split at h <;> cases h
    · have hconv : ∀ t v, convArg E f' t = .ok (FVal.str v) → v = t := by
        intro t v hc
        unfold convArg at hc
        split at hc
        · split at hc <;> cases hc
        · cases hc; rfl
      simp only [Except.map] at h
      split at h
      · rename_i ht
        split at h
        · cases h
        · rename_i v hc
          cases h
          exact ⟨hl, Or.inl (by rw [ht, hconv _ s hc])⟩
      · split at h
        · cases h
        · rename_i v hc
          cases h
          exact ⟨hl, Or.inr ⟨_, by rw [hconv _ s hc]⟩⟩
      · cases h

theorem parseSingleFlag_lookup (tbl : Table) (E : PEnv) (arg : String) (rest : List String) (f : FlagSpec)
    (v : FVal) (adv : Bool) (h : parseSingleFlag tbl E arg rest = .ok (f, v, adv)) :
    tbl.lookup (splitEq arg).1 = some f := by
  unfold parseSingleFlag at h
  dsimp only at h
  split at h
  · cases h
  · rename_i f' hl
    split at h
    · split at h
      · cases h
      · cases h; exact hl
    · simp only [Except.map] at h
      split at h
      · split at h
        · cases h
        · cases h; exact hl
      · split at h
        · cases h
        · cases h; exact hl
      · cases h

theorem parseFlags_from_args (tbl : Table) (E : PEnv) (all : List String) :
    ∀ (n : Nat) (args : List String) (fm : FlagMap) (ff : FFMap) (seen : List String) (fm' : FlagMap)
      (pos : List String), args.length ≤ n → (∀ x ∈ args, x ∈ all) → usesFlagfile tbl args = false →
      (∀ k v, (k, FVal.str v) ∈ fm → FromArgs all v) →
      parseFlags tbl E args fm ff seen = .ok (fm', pos) →
      (∀ k v, (k, FVal.str v) ∈ fm' → FromArgs all v) ∧ (∀ x ∈ pos, x ∈ all) := by
  intro n
  induction n with
  | zero =>
    intro args fm ff seen fm' pos hl hsub _ hfm h
    have : args = [] := List.length_eq_zero_iff.mp (Nat.le_zero.mp hl)
    subst this
    rw [parseFlags] at h
    cases h
    exact ⟨hfm, fun x hx => by cases hx⟩
  | succ n ih =>
    intro args fm ff seen fm' pos hl hsub hnf hfm h
    cases args with
    | nil =>
      rw [parseFlags] at h
      cases h
      exact ⟨hfm, fun x hx => by cases hx⟩
    | cons arg rest =>
      rw [parseFlags] at h
      split at h
      · cases h
        exact ⟨hfm, hsub⟩
      · split at h
        · cases h
        · rename_i f v adv hps
          have hlook := parseSingleFlag_lookup tbl E arg rest f v adv hps
          have hnff : (f.name == tbl.flagfile) = false := by
            unfold usesFlagfile at hnf
            simp only [List.any_cons, Bool.or_eq_false_iff] at hnf
            have := hnf.1
            rw [hlook] at this
            exact this
          have hmerge : mergeFlagfile tbl E f v (fm ++ [(f.name, v)]) ff seen = .ok (fm ++ [(f.name, v)], ff, seen) := by
            unfold mergeFlagfile
            simp [hnff]
          rw [hmerge] at h
          simp only at h
          have hrest_sub : ∀ x ∈ rest, x ∈ all := fun x hx => hsub x (List.mem_cons_of_mem _ hx)
          have hrest_nf : usesFlagfile tbl rest = false := by
            unfold usesFlagfile at hnf ⊢
            simp only [List.any_cons, Bool.or_eq_false_iff] at hnf
            exact hnf.2
          have hfm2 : ∀ k s, (k, FVal.str s) ∈ fm ++ [(f.name, v)] → FromArgs all s := by
            intro k s hm
            rw [List.mem_append] at hm
            rcases hm with hm | hm
            · exact hfm k s hm
            · simp only [List.mem_singleton, Prod.mk.injEq] at hm
              obtain ⟨_, hv⟩ := hm
              subst hv
              obtain ⟨_, hsrc⟩ := parseSingleFlag_str tbl E arg rest f s adv hps
              rcases hsrc with hsrc | ⟨r, hr⟩
              · exact Or.inr ⟨arg, hsub arg List.mem_cons_self, hsrc⟩
              · exact Or.inl (hrest_sub s (by rw [hr]; exact List.mem_cons_self))
          have hlen : rest.length ≤ n := by simp only [List.length_cons] at hl; omega
          split at h
          · split at h
            · rename_i r' _
              refine ih _ _ _ _ _ _ ?_ ?_ ?_ hfm2 h
              · simp only [List.length_cons] at hlen; omega
              · exact fun x hx => hrest_sub x (List.mem_cons_of_mem _ hx)
              · unfold usesFlagfile at hrest_nf ⊢
                simp only [List.any_cons, Bool.or_eq_false_iff] at hrest_nf
                exact hrest_nf.2
            · cases h
              exact ⟨hfm2, fun x hx => by cases hx⟩
          · exact ih _ _ _ _ _ _ hlen hrest_sub hrest_nf hfm2 h

theorem fromArgs_of_mentions_false (args : List String) (v : String) (h : mentions args v = false) :
    ¬ FromArgs args v := by
  unfold mentions at h
  simp only [Bool.or_eq_false_iff, List.any_eq_false, beq_iff_eq] at h
  rintro (hm | ⟨x, hx, hs⟩)
  · have := h.1; simp at this; exact this hm
  · exact h.2 x hx hs

theorem flagVal_mem (fm : FlagMap) (name : String) (v : FVal) (h : flagVal fm name = some v) : (name, v) ∈ fm := by
  unfold flagVal at h
  cases hl : (fm.filter (fun e => e.1 == name)).getLast? with
  | none => simp [hl] at h
  | some e =>
    simp only [hl, Option.map_some, Option.some.injEq] at h
    have hm := List.mem_of_getLast? hl
    rw [List.mem_filter] at hm
    obtain ⟨hm1, hm2⟩ := hm
    have : e = (name, v) := by
      cases e with
      | mk a b => simp only at h hm2; simp only [beq_iff_eq] at hm2; subst h; subst hm2; rfl
    rw [← this]; exact hm1

/-- the spec format a command line parses to stands on that command line (no flagfile in play) -/
theorem parseArgv_specFormat_from_args (tbl : Table) (E : PEnv) (prog : String) (args : List String)
    (a : Argv) (v : String) (h : parseArgv tbl E (prog :: args) = .ok a) (hv : a.specFormat = some v)
    (hnf : usesFlagfile tbl args = false) : FromArgs args v := by
  unfold parseArgv at h
  simp only at h
  split at h
  · cases h
  · rename_i fm pos hpf
    split at h
    · cases h
    · split at h
      · cases h
      · rename_i pos' _
        cases h
        simp only [argvOf] at hv
        unfold strVal at hv
        split at hv
        · rename_i s hfv
          cases hv
          have hmem := flagVal_mem fm "spec_format" (.str v) hfv
          exact (parseFlags_from_args tbl E args args.length args [] [] [] fm pos (Nat.le_refl _)
            (fun x hx => hx) hnf (fun k v hm => by cases hm) hpf).1 _ _ hmem
        · cases hv

/-! ### the reference of the statement (`expect`) against the complete decision table (`refMain`) -/

theorem expectSpec_refSpecMain (X : Ext T S R) (a : Argv) (r : Except String S)
    (h : expectSpec X a = some r) : refSpecMain X a = liftExc r ∧ ∀ s, r = .ok s → LiteralSpec X s := by
  unfold expectSpec refSpecSrc at h
  unfold refSpecMain
  have lit : ∀ st, refLiteralSpec X (a.specFormat.getD "python") st = some r →
      refParse X (a.specFormat.getD "python") st = liftExc r ∧ ∀ s, r = .ok s → LiteralSpec X s := by
    intro st hl
    unfold refLiteralSpec at hl
    unfold refParse
    split at hl
    · rename_i hf; cases hl
      exact ⟨by simp [hf], fun s hs => Or.inr ⟨st, Or.inl hs⟩⟩
    · rename_i hf
      split at hl
      · rename_i hj; cases hl
        exact ⟨by simp [hf, hj], fun s hs => Or.inr ⟨st, Or.inr hs⟩⟩
      · cases hl
  cases hp : nonEmpty (posTexts a).1 with
  | some st =>
    cases hf : nonEmpty a.specFile with
    | some p => simp [hp, hf] at h
    | none => simp only [hp, hf] at h ⊢; exact lit st h
  | none =>
    cases hf : nonEmpty a.specFile with
    | some p =>
      simp only [hp, hf] at h ⊢
      cases hrd : X.readFile p with
      | none => simp [hrd] at h
      | some t =>
        simp only [hrd] at h ⊢
        by_cases he : t.isEmpty = true
        · simp only [he, if_true, Option.some.injEq] at h ⊢
          subst h
          exact ⟨rfl, fun s hs => Or.inl (by cases hs; rfl)⟩
        · simp only [he, Bool.false_eq_true, if_false] at h ⊢
          exact lit t h
    | none =>
      simp only [hp, hf, Option.some.injEq] at h ⊢
      subst h
      exact ⟨rfl, fun s hs => Or.inl (by cases hs; rfl)⟩

/-- the run, without --debug / --inspect, on a quiet library call: what `expectRun` says -/
theorem check_refRun (X : Ext T S R) (a : Argv) (w : World) (t : T) (s : S)
    (hd : a.debug = false) (hi : a.inspect = false) (hq : X.printed t s = "") :
    checkExpect (expectRun X a t s) false (observe (refRun X a w t s)) = true := by
  unfold expectRun refRun checkExpect observe
  simp only [hd, hi, Bool.or_self, Bool.false_and, Bool.false_eq_true, if_false, hq, String.empty_append,
    Bool.not_false, Bool.true_and, Bool.true_or]
  cases hg : X.glom t s with
  | glomError cls msg => simp [String.toList_append, List.isPrefixOf_iff_prefix]
  | other c => simp
  | ok r =>
    simp only
    unfold refRender refDumpsErr
    by_cases hs : (a.scalar && X.isScalar r) = true
    · simp [hs]
    · simp only [hs, Bool.false_eq_true, if_false]
      cases X.dumps r (if a.indent.getD 2 == 0 then none else some (a.indent.getD 2)) <;> simp

theorem check_refText (X : Ext T S R) (hquiet : QuietOk X) (a : Argv) (w : World) (s : S) (hs : LiteralSpec X s)
    (hd : a.debug = false) (hi : a.inspect = false) (tt : String) :
    checkExpect (expectText X a s tt) false
      (observe (refFinish X a w s (refLoad X (a.targetFormat.getD "json") tt))) = true := by
  unfold expectText refLoad refFinish
  by_cases he : tt.isEmpty = true
  · simp only [he, if_true]
    exact check_refRun X a w _ s hd hi (hquiet _ s hs)
  · simp only [he, Bool.false_eq_true, if_false]
    cases refLoaderKind (a.targetFormat.getD "json") with
    | none => simp [checkExpect, observe]
    | some k =>
      simp only
      cases X.load k tt with
      | error c => simp [checkExpect, observe]
      | ok t => exact check_refRun X a w t s hd hi (hquiet t s hs)

/-- **the complete decision table satisfies the statement's reference**, for all flags and worlds -/
theorem check_refMain (X : Ext T S R) (hquiet : QuietOk X) (a : Argv) (w : World) :
    checkExpect (expect X a w) false (observe (refMain X a w)) = true := by
  unfold expect
  by_cases hdi : (a.debug || a.inspect) = true
  · simp [hdi, checkExpect, observe]
  · simp only [hdi, Bool.false_eq_true, if_false]
    have hd : a.debug = false := by cases h : a.debug <;> simp_all
    have hi : a.inspect = false := by cases h : a.inspect <;> simp_all
    cases hsp : expectSpec X a with
    | none => simp [checkExpect, observe]
    | some r =>
      obtain ⟨hmain, hlit⟩ := expectSpec_refSpecMain X a r hsp
      unfold refMain
      rw [hmain]
      cases r with
      | error c => simp [liftExc, checkExpect, observe, isExit0]
      | ok s =>
        have hs := hlit s rfl
        simp only [liftExc]
        unfold expectTarget refTargetText refTargetMain refStdin
        have hfin : ∀ o, refFinish X a w s (.error o) = o := fun _ => rfl
        have key := fun tt => check_refText X hquiet a w s hs hd hi tt
        have hempty : refLoad X (a.targetFormat.getD "json") "" = (.ok X.emptyTarget : Except Outcome T) := by
          simp [refLoad]
        cases hp : nonEmpty (posTexts a).2 with
        | some t =>
          cases hf : nonEmpty a.targetFile with
          | some p => simp [checkExpect, observe]
          | none =>
            simp only
            by_cases hdash : t = "-"
            · subst hdash
              simp only [beq_self_eq_true, if_true]
              cases w.readErr with
              | some c => simp [checkExpect, observe, hfin]
              | none => simpa using key w.stdin
            · simp only [beq_iff_eq, hdash, if_false]
              simpa using key t
        | none =>
          cases hf : nonEmpty a.targetFile with
          | some p =>
            simp only
            by_cases hdash : p = "-"
            · subst hdash
              simp only [beq_self_eq_true, if_true]
              cases w.readErr with
              | some c => simp [checkExpect, observe, hfin]
              | none => simpa using key w.stdin
            · simp only [beq_iff_eq, hdash, if_false]
              cases X.readFile p with
              | none => simp [checkExpect, observe, hfin]
              | some t => simpa using key t
          | none =>
            simp only
            cases w.isatty with
            | true =>
              simp only [if_true, hempty]
              exact check_refRun X a w _ s hd hi (hquiet _ s hs)
            | false =>
              simp only [Bool.false_eq_true, if_false]
              cases w.readErr with
              | some c => simp [checkExpect, observe, hfin]
              | none => simpa using key w.stdin

theorem channelsAgree_of_all_eq (outs : List Outcome) (d : Outcome) (h : ∀ o ∈ outs, o = d) :
    channelsAgree outs = true := by
  cases outs with
  | nil => rfl
  | cons o rest =>
    simp only [channelsAgree, List.all_eq_true]
    intro o' ho'
    rw [h o (List.mem_cons_self), h o' (List.mem_cons_of_mem _ ho')]
    exact beq_self_eq_true _

theorem all_zip_map {α β : Type} (l : List α) (f : α → β) (p : α × β → Bool)
    (h : ∀ a ∈ l, p (a, f a) = true) : (l.zip (l.map f)).all p = true := by
  induction l with
  | nil => rfl
  | cons a l ih =>
    simp only [List.map_cons, List.zip_cons_cons, List.all_cons, Bool.and_eq_true]
    exact ⟨h a List.mem_cons_self, ih (fun b hb => h b (List.mem_cons_of_mem _ hb))⟩

end Glom.C19
