import Glom.Spec.C20Scope
import Glom.Lemmas.C20
/-
  C20 — lemmas for the scopes of concurrent calls: the maps of a call are where its chain says,
  hold what the call alone holds, and no other call's chain reaches them (`SInv`); every
  operation of every thread preserves this.
-/
namespace Glom.C20.Sc
open Glom.C20

/-- the addresses `as` hold the maps `ms` -/
inductive Holds (h : SHeap) : List Nat → List Vars → Prop where
  | nil : Holds h [] []
  | cons {a : Nat} {m : Vars} {as : List Nat} {ms : List Vars} :
      h[a]? = some ⟨m⟩ → Holds h as ms → Holds h (a :: as) (m :: ms)

theorem Holds.frame {h h' : SHeap} {as : List Nat} {ms : List Vars} (hh : Holds h as ms)
    (hf : ∀ a ∈ as, h'[a]? = h[a]?) : Holds h' as ms := by
  induction hh with
  | nil => exact .nil
  | cons h1 _ ih =>
    exact .cons (by rw [hf _ (List.mem_cons_self ..)]; exact h1) (ih (fun a ha => hf a (List.mem_cons_of_mem _ ha)))

theorem Holds.length {h : SHeap} {as : List Nat} {ms : List Vars} (hh : Holds h as ms) : as.length = ms.length := by
  induction hh with
  | nil => rfl
  | cons _ _ ih => simp [ih]

/-- the ChainMap lookup through a call's maps and the default scope -/
theorem lookup_holds {h : SHeap} {dflt : Vars} (h0 : h[0]? = some ⟨dflt⟩) {as : List Nat} {ms : List Vars}
    (hh : Holds h as ms) (k : String) : lookupChain h (as ++ [0]) k = lookupMaps (ms ++ [dflt]) k := by
  induction hh with
  | nil =>
    simp only [List.nil_append, lookupChain, lookupMaps, h0, Option.bind_some]
    cases dlookup k dflt <;> rfl
  | cons h1 _ ih =>
    simp only [List.cons_append, lookupChain, lookupMaps, h1, Option.bind_some]
    split <;> simp_all

theorem writeFrame_length (h : SHeap) (a : Nat) (k v : String) : (writeFrame h a k v).length = h.length := by
  unfold writeFrame; split <;> simp

theorem writeFrame_other (h : SHeap) (a b : Nat) (k v : String) (hb : b ≠ a) : (writeFrame h a k v)[b]? = h[b]? := by
  unfold writeFrame
  split
  · rw [List.getElem?_set_ne (Ne.symm hb)]
  · rfl

theorem writeFrame_same (h : SHeap) (a : Nat) (k v : String) (m : Vars) (ha : h[a]? = some ⟨m⟩) :
    (writeFrame h a k v)[a]? = some ⟨dstore k v m⟩ := by
  unfold writeFrame
  rw [ha]
  simp only
  have : a < h.length := (List.getElem?_eq_some_iff.mp ha).1
  rw [List.getElem?_set_self this]

/-- writing into the map at position `depth` of the chain -/
theorem holds_set {h : SHeap} : ∀ {as : List Nat} {ms : List Vars} (depth : Nat) (a : Nat) (k v : String),
    Holds h as ms → as.Nodup → as[depth]? = some a → Holds (writeFrame h a k v) as (setAt ms depth k v) := by
  intro as ms depth a k v hh
  induction hh generalizing depth with
  | nil => intro _ hd; simp at hd
  | @cons b m as' ms' h1 ht ih =>
    intro hnd hd
    have hnd' := List.nodup_cons.mp hnd
    cases depth with
    | zero =>
      simp only [List.getElem?_cons_zero, Option.some.injEq] at hd
      subst hd
      simp only [setAt, List.getElem?_cons_zero, List.set_cons_zero]
      refine .cons (writeFrame_same h b k v m h1) (ht.frame ?_)
      intro c hc
      exact writeFrame_other h b c k v (fun hcb => hnd'.1 (hcb ▸ hc))
    | succ d =>
      simp only [List.getElem?_cons_succ] at hd
      have hab : b ≠ a := fun hba => hnd'.1 (hba ▸ List.mem_of_getElem? hd)
      have := ih d hnd'.2 hd
      have hlen : d < ms'.length := by
        rw [← ht.length]; exact (List.getElem?_eq_some_iff.mp hd).1
      simp only [setAt, List.getElem?_cons_succ] at this ⊢
      rw [List.getElem?_eq_getElem hlen] at this ⊢
      simp only [List.set_cons_succ] at this ⊢
      exact .cons (by rw [writeFrame_other h a b k v hab]; exact h1) this

/-- the chains `ass` of the waiting calls hold the maps `mss` -/
inductive HoldsAll (h : SHeap) : List (List Nat) → List (List Vars) → Prop where
  | nil : HoldsAll h [] []
  | cons {as : List Nat} {ms : List Vars} {ass : List (List Nat)} {mss : List (List Vars)} :
      Holds h as ms → HoldsAll h ass mss → HoldsAll h (as :: ass) (ms :: mss)

theorem HoldsAll.frame {h h' : SHeap} {ass : List (List Nat)} {mss : List (List Vars)} (hh : HoldsAll h ass mss)
    (hf : ∀ a ∈ ass.flatten, h'[a]? = h[a]?) : HoldsAll h' ass mss := by
  induction hh with
  | nil => exact .nil
  | cons h1 _ ih =>
    simp only [List.flatten_cons, List.mem_append] at hf
    exact .cons (h1.frame (fun a ha => hf a (Or.inl ha))) (ih (fun a ha => hf a (Or.inr ha)))

/-- what is known about one thread: which of its operations it has done, that it has read what the
    call alone reads, and that its own maps (`chain` without the default scope, and the chains of
    the calls that wait for a nested call) hold what the call alone holds -/
structure TInv (dflt : Vars) (h : SHeap) (ops0 : List Op) (t : Thread) : Prop where
  ex : ∃ done as ass, ops0 = done ++ t.ops ∧ t.chain = as ++ [0] ∧ t.saved = ass.map (· ++ [0]) ∧
    t.reads = (locRun dflt done {}).reads ∧ Holds h as (locRun dflt done {}).maps ∧
    HoldsAll h ass (locRun dflt done {}).saved ∧
    (∀ a ∈ as ++ ass.flatten, 0 < a ∧ a < h.length) ∧ (as ++ ass.flatten).Nodup

/-- the maps a thread owns: those of its running call and those of its waiting calls -/
def own (t : Thread) : List Nat := t.chain.dropLast ++ (t.saved.map List.dropLast).flatten

structure SInv (dflt : Vars) (progs : List (List Op)) (s : Sys) : Prop where
  h0 : s.heap[0]? = some ⟨dflt⟩
  len : s.threads.length = progs.length
  thr : ∀ (i : Nat) (t : Thread) (ops0 : List Op), s.threads[i]? = some t → progs[i]? = some ops0 → TInv dflt s.heap ops0 t
  disj : ∀ (i j : Nat) (ti tj : Thread), i ≠ j → s.threads[i]? = some ti → s.threads[j]? = some tj →
    ∀ a ∈ own ti, a ∉ own tj

theorem locRun_snoc (dflt : Vars) (ops : List Op) (op : Op) (l : Loc) :
    locRun dflt (ops ++ [op]) l = locStep dflt (locRun dflt ops l) op := by
  induction ops generalizing l with
  | nil => rfl
  | cons o r ih => exact ih _

theorem sinv_init (dflt : Vars) (progs : List (List Op)) : SInv dflt progs (Sys.init dflt progs) := by
  refine ⟨rfl, by simp [Sys.init], ?_, ?_⟩
  · intro i t ops0 ht h0
    simp only [Sys.init, List.getElem?_map] at ht
    rw [h0] at ht
    simp only [Option.map_some, Option.some.injEq] at ht
    subst ht
    exact ⟨[], [], [], rfl, rfl, rfl, rfl, .nil, .nil, by simp, by simp⟩
  · intro i j ti tj _ hi _ a ha
    simp only [Sys.init, List.getElem?_map] at hi
    cases hp : progs[i]? with
    | none => simp [hp] at hi
    | some x => simp [hp] at hi; subst hi; simp [own] at ha

theorem map_dropLast_snoc (ass : List (List Nat)) : (ass.map (· ++ [0])).map List.dropLast = ass := by
  induction ass with
  | nil => rfl
  | cons a r ih => simp [ih]

theorem own_of_chain {t : Thread} {as : List Nat} {ass : List (List Nat)} (h : t.chain = as ++ [0])
    (hs : t.saved = ass.map (· ++ [0])) : own t = as ++ ass.flatten := by
  simp only [own, h, hs, map_dropLast_snoc]
  simp

/-- one operation of a thread: what it does to the heap stays inside its own maps and new ones; its
    invariant goes on with one more operation done -/
theorem thread_step {dflt : Vars} {h : SHeap} {ops0 : List Op} {t : Thread} (h0 : h[0]? = some ⟨dflt⟩)
    (ht : TInv dflt h ops0 t) :
    TInv dflt (t.step h).2 ops0 (t.step h).1 ∧ (t.step h).2[0]? = some ⟨dflt⟩ ∧ h.length ≤ (t.step h).2.length ∧
    (∀ b, b < h.length → b ∉ own t → (t.step h).2[b]? = h[b]?) ∧
    (∀ a ∈ own (t.step h).1, a ∈ own t ∨ h.length ≤ a) := by
  obtain ⟨done, as, ass, hsplit, hchain, hsaved, hreads, hholds, hall, hbnd, hnd⟩ := ht.ex
  have hown : own t = as ++ ass.flatten := own_of_chain hchain hsaved
  have hlen0 : 0 < h.length := (List.getElem?_eq_some_iff.mp h0).1
  obtain ⟨hnd1, hnd2, hnd3⟩ := List.nodup_append.mp hnd
  have hbnd1 : ∀ a ∈ as, 0 < a ∧ a < h.length := fun a ha => hbnd a (List.mem_append_left _ ha)
  have hbnd2 : ∀ a ∈ ass.flatten, 0 < a ∧ a < h.length := fun a ha => hbnd a (List.mem_append_right _ ha)
  -- an operation that leaves heap, chain and waiting chains as they are
  have hsame : ∀ (t' : Thread) (op : Op), t'.chain = t.chain → t'.saved = t.saved → ops0 = (done ++ [op]) ++ t'.ops →
      t'.reads = (locStep dflt (locRun dflt done {}) op).reads →
      (locStep dflt (locRun dflt done {}) op).maps = (locRun dflt done {}).maps →
      (locStep dflt (locRun dflt done {}) op).saved = (locRun dflt done {}).saved →
      TInv dflt h ops0 t' ∧ h[0]? = some ⟨dflt⟩ ∧ h.length ≤ h.length ∧
      (∀ b, b < h.length → b ∉ own t → h[b]? = h[b]?) ∧ (∀ a ∈ own t', a ∈ own t ∨ h.length ≤ a) := by
    intro t' op hc hs hsp hr hm hsv
    refine ⟨⟨done ++ [op], as, ass, hsp, by rw [hc, hchain], by rw [hs, hsaved], ?_, ?_, ?_, hbnd, hnd⟩, h0, Nat.le_refl _,
      fun _ _ _ => rfl, ?_⟩
    · rw [locRun_snoc]; exact hr
    · rw [locRun_snoc, hm]; exact hholds
    · rw [locRun_snoc, hsv]; exact hall
    · intro a ha
      left
      have : own t' = own t := by simp [own, hc, hs]
      rw [← this]; exact ha
  cases hops : t.ops with
  | nil =>
    have : t.step h = (t, h) := by simp [Thread.step, hops]
    rw [this]
    exact ⟨ht, h0, Nat.le_refl _, fun _ _ _ => rfl, fun a ha => Or.inl ha⟩
  | cons op r =>
    have hsplit' : ops0 = (done ++ [op]) ++ r := by rw [hsplit, hops]; simp
    have hrun := locRun_snoc dflt done op {}
    cases op with
    | start init =>
      have : t.step h = ({ t with ops := r, chain := [h.length, 0], saved := t.chain :: t.saved }, h ++ [⟨init⟩]) := by
        simp [Thread.step, hops]
      rw [this]
      have happ : ∀ b, b < h.length → (h ++ [⟨init⟩])[b]? = h[b]? := fun b hb => List.getElem?_append_left hb
      refine ⟨⟨done ++ [.start init], [h.length], as :: ass, hsplit', rfl, by simp [hchain, hsaved], ?_, ?_, ?_, ?_, ?_⟩,
        ?_, by simp, ?_, ?_⟩
      · rw [hrun]; exact hreads
      · rw [hrun]; simp only [locStep]; exact .cons (by simp) .nil
      · rw [hrun]; simp only [locStep]
        exact .cons (hholds.frame (fun a ha => happ a (hbnd1 a ha).2)) (hall.frame (fun a ha => happ a (hbnd2 a ha).2))
      · intro a ha
        simp only [List.flatten_cons, List.singleton_append, List.mem_cons] at ha
        rcases ha with ha | ha
        · subst ha; simp; exact hlen0
        · have := hbnd a ha; simp; omega
      · simp only [List.flatten_cons, List.singleton_append]
        refine List.nodup_cons.mpr ⟨?_, hnd⟩
        intro hm; have := hbnd _ hm; omega
      · rw [happ 0 hlen0]; exact h0
      · intro b hb _; exact happ b hb
      · intro a ha
        have : own { t with ops := r, chain := [h.length, 0], saved := t.chain :: t.saved } = h.length :: (as ++ ass.flatten) := by
          rw [own_of_chain (t := { t with ops := r, chain := [h.length, 0], saved := t.chain :: t.saved })
            (as := [h.length]) (ass := as :: ass) rfl (by simp [hchain, hsaved])]; simp
        rw [this] at ha
        rw [hown]
        simp only [List.mem_cons] at ha
        rcases ha with ha | ha
        · right; omega
        · left; exact ha
    | finish =>
      cases hass : ass with
      | nil =>
        have hs : t.saved = [] := by rw [hsaved, hass]; rfl
        have : t.step h = ({ t with ops := r, chain := [0] }, h) := by simp [Thread.step, hops, hs]
        rw [this]
        rw [hass] at hall
        generalize hsv : (locRun dflt done {}).saved = sv at hall
        cases hall
        refine ⟨⟨done ++ [.finish], [], [], hsplit', rfl, by simp [hs], ?_, ?_, ?_, by simp, by simp⟩, h0, Nat.le_refl _,
          fun _ _ _ => rfl, ?_⟩
        · rw [hrun]; simp only [locStep, hsv]; exact hreads
        · rw [hrun]; simp only [locStep, hsv]; exact .nil
        · rw [hrun]; simp only [locStep, hsv]; exact .nil
        · intro a ha; simp [own, hs] at ha
      | cons c rest =>
        have hs : t.saved = (c ++ [0]) :: rest.map (· ++ [0]) := by rw [hsaved, hass]; rfl
        have : t.step h = ({ t with ops := r, chain := c ++ [0], saved := rest.map (· ++ [0]) }, h) := by
          simp [Thread.step, hops, hs]
        rw [this]
        rw [hass] at hall hbnd hnd hbnd2
        generalize hsv : (locRun dflt done {}).saved = sv at hall
        cases hall with
        | @cons _ m _ mrest hc hrest =>
          have hsub : ∀ a ∈ c ++ rest.flatten, a ∈ as ++ (c :: rest).flatten := by
            intro a ha; simp only [List.flatten_cons]; exact List.mem_append_right _ ha
          refine ⟨⟨done ++ [.finish], c, rest, hsplit', rfl, rfl, ?_, ?_, ?_, fun a ha => hbnd a (hsub a ha), ?_⟩, h0,
            Nat.le_refl _, fun _ _ _ => rfl, ?_⟩
          · rw [hrun]; simp only [locStep, hsv]; exact hreads
          · rw [hrun]; simp only [locStep, hsv]; exact hc
          · rw [hrun]; simp only [locStep, hsv]; exact hrest
          · simp only [List.flatten_cons] at hnd
            exact (List.nodup_append.mp hnd).2.1
          · intro a ha
            left
            have : own { t with ops := r, chain := c ++ [0], saved := rest.map (· ++ [0]) } = c ++ rest.flatten :=
              own_of_chain rfl rfl
            rw [this] at ha
            rw [hown, hass]
            exact hsub a ha
    | child init =>
      cases has : as with
      | nil =>
        have hc : t.chain = [0] := by rw [hchain, has]; rfl
        have : t.step h = ({ t with ops := r, chain := h.length :: t.chain }, h ++ [⟨init⟩]) := by
          simp [Thread.step, hops, hc]
        rw [this]
        have happ : ∀ b, b < h.length → (h ++ [⟨init⟩])[b]? = h[b]? := fun b hb => List.getElem?_append_left hb
        have hm : (locRun dflt done {}).maps = [] := by
          have := hholds.length; rw [has] at this; exact List.eq_nil_of_length_eq_zero this.symm
        refine ⟨⟨done ++ [.child init], [h.length], ass, hsplit', by simp [hc], hsaved, ?_, ?_, ?_, ?_, ?_⟩, ?_, by simp, ?_, ?_⟩
        · rw [hrun]; simp only [locStep, hm]; exact hreads
        · rw [hrun]; simp only [locStep, hm]; exact .cons (by simp) .nil
        · rw [hrun]; simp only [locStep, hm]; exact hall.frame (fun a ha => happ a (hbnd2 a ha).2)
        · intro a ha
          simp only [List.singleton_append, List.mem_cons] at ha
          rcases ha with ha | ha
          · subst ha; simp; exact hlen0
          · have := hbnd2 a ha; simp; omega
        · simp only [List.singleton_append]
          refine List.nodup_cons.mpr ⟨?_, hnd2⟩
          intro hm'; have := hbnd2 _ hm'; omega
        · rw [happ 0 hlen0]; exact h0
        · intro b hb _; exact happ b hb
        · intro a ha
          have : own { t with ops := r, chain := h.length :: t.chain } = h.length :: ass.flatten := by
            rw [own_of_chain (t := { t with ops := r, chain := h.length :: t.chain }) (as := [h.length]) (ass := ass)
              (by simp [hc]) hsaved]; simp
          rw [this] at ha
          rw [hown, has]
          simp only [List.mem_cons] at ha
          rcases ha with ha | ha
          · right; omega
          · left; simpa using ha
      | cons p as' =>
        have hc : t.chain = p :: (as' ++ [0]) := by rw [hchain, has]; rfl
        have : t.step h = ({ t with ops := r, chain := h.length :: t.chain },
            writeFrame (h ++ [⟨init⟩]) p "LAST_CHILD_SCOPE" "<scope>") := by
          simp only [Thread.step, hops, hc]
          cases as' <;> rfl
        rw [this]
        rw [has] at hholds hbnd hnd hbnd1 hnd1 hnd3
        generalize hmaps : (locRun dflt done {}).maps = ms at hholds
        cases hholds with
        | @cons _ m _ ms' h1 htail =>
          have hp := hbnd1 p (List.mem_cons_self ..)
          have hnd' := List.nodup_cons.mp hnd1
          have hp1 : (h ++ [⟨init⟩])[p]? = some ⟨m⟩ := by rw [List.getElem?_append_left hp.2]; exact h1
          have hw : ∀ b, b < h.length → b ≠ p → (writeFrame (h ++ [⟨init⟩]) p "LAST_CHILD_SCOPE" "<scope>")[b]? = h[b]? := by
            intro b hb hbp
            rw [writeFrame_other _ p b _ _ hbp, List.getElem?_append_left hb]
          refine ⟨⟨done ++ [.child init], h.length :: p :: as', ass, hsplit', by simp [hc], hsaved, ?_, ?_, ?_, ?_, ?_⟩,
            ?_, ?_, ?_, ?_⟩
          · rw [hrun]; simp only [locStep, hmaps]; exact hreads
          · rw [hrun]; simp only [locStep, hmaps]
            refine .cons ?_ (.cons (writeFrame_same _ p _ _ m hp1) (htail.frame ?_))
            · rw [writeFrame_other _ p _ _ _ (by omega)]; simp
            · intro c hc'
              exact hw c (hbnd1 c (List.mem_cons_of_mem _ hc')).2 (fun hcp => hnd'.1 (hcp ▸ hc'))
          · rw [hrun]; simp only [locStep, hmaps]
            exact hall.frame (fun a ha => hw a (hbnd2 a ha).2 (fun hap => hnd3 p (List.mem_cons_self ..) a ha hap.symm))
          · intro a ha
            simp only [writeFrame_length, List.length_append, List.length_cons, List.length_nil]
            simp only [List.cons_append, List.mem_cons] at ha
            rcases ha with ha | ha
            · subst ha; omega
            · have := hbnd a (by simpa using ha); omega
          · simp only [List.cons_append]
            refine List.nodup_cons.mpr ⟨?_, by simpa using hnd⟩
            intro hm
            have := hbnd _ (by simpa using hm); omega
          · rw [hw 0 hlen0 (by omega)]; exact h0
          · simp [writeFrame_length]
          · intro b hb hbo
            rw [hown, has] at hbo
            exact hw b hb (fun hbp => hbo (hbp ▸ List.mem_append_left _ (List.mem_cons_self ..)))
          · intro a ha
            have hdl : own { t with ops := r, chain := h.length :: t.chain } = h.length :: (p :: as' ++ ass.flatten) := by
              rw [own_of_chain (t := { t with ops := r, chain := h.length :: t.chain }) (as := h.length :: p :: as') (ass := ass)
                (by simp [hc]) hsaved]; simp
            rw [hdl] at ha
            rw [hown, has]
            simp only [List.mem_cons] at ha
            rcases ha with ha | ha
            · right; omega
            · left; exact ha
    | set depth k v =>
      by_cases hd : depth + 1 < t.chain.length
      · have hdl : depth < as.length := by rw [hchain] at hd; simp at hd; omega
        have hcd : t.chain[depth]? = some as[depth] := by
          rw [hchain, List.getElem?_append_left hdl]; exact List.getElem?_eq_getElem hdl
        have : t.step h = ({ t with ops := r }, writeFrame h as[depth] k v) := by
          simp [Thread.step, hops, hd, hcd]
        rw [this]
        have hmem : as[depth] ∈ as := List.getElem_mem hdl
        have hpos := hbnd1 _ hmem
        refine ⟨⟨done ++ [.set depth k v], as, ass, hsplit', hchain, hsaved, ?_, ?_, ?_, ?_, hnd⟩, ?_,
          by simp [writeFrame_length], ?_, ?_⟩
        · rw [hrun]; exact hreads
        · rw [hrun]; simp only [locStep]
          exact holds_set depth _ k v hholds hnd1 (List.getElem?_eq_getElem hdl)
        · rw [hrun]; simp only [locStep]
          exact hall.frame (fun a ha => writeFrame_other _ _ a _ _ (fun hx => hnd3 _ hmem a ha hx.symm))
        · intro a ha; rw [writeFrame_length]; exact hbnd a ha
        · rw [writeFrame_other _ _ 0 _ _ (by omega)]; exact h0
        · intro b _ hbo
          rw [hown] at hbo
          exact writeFrame_other _ _ b _ _ (fun hb => hbo (hb ▸ List.mem_append_left _ hmem))
        · intro a ha; exact Or.inl ha
      · have : t.step h = ({ t with ops := r }, h) := by simp [Thread.step, hops, hd]
        rw [this]
        have hdl : ¬ depth < as.length := by rw [hchain] at hd; simp at hd; omega
        have hmaps : setAt (locRun dflt done {}).maps depth k v = (locRun dflt done {}).maps := by
          have : (locRun dflt done {}).maps[depth]? = none := by
            rw [List.getElem?_eq_none_iff, ← hholds.length]; omega
          simp [setAt, this]
        exact hsame _ _ rfl rfl hsplit' (by simp only [locStep]; exact hreads) (by simp only [locStep, hmaps]) rfl
    | get k =>
      have : t.step h = ({ t with ops := r, reads := t.reads ++ [lookupChain h t.chain k] }, h) := by
        simp [Thread.step, hops]
      rw [this]
      exact hsame _ _ rfl rfl hsplit' (by simp only [locStep]; rw [hreads, hchain, lookup_holds h0 hholds k]) rfl rfl
    | pop =>
      cases has : as with
      | nil =>
        have hc : t.chain = [0] := by rw [hchain, has]; rfl
        have : t.step h = ({ t with ops := r }, h) := by simp [Thread.step, hops, hc]
        rw [this]
        have hm : (locRun dflt done {}).maps = [] := by
          have := hholds.length; rw [has] at this; exact List.eq_nil_of_length_eq_zero this.symm
        exact hsame _ _ rfl rfl hsplit' (by simp only [locStep, hm]; exact hreads) (by simp only [locStep, hm]) (by simp only [locStep, hm])
      | cons p as' =>
        cases has' : as' with
        | nil =>
          have hc : t.chain = [p, 0] := by rw [hchain, has, has']; rfl
          have : t.step h = ({ t with ops := r }, h) := by simp [Thread.step, hops, hc]
          rw [this]
          have hm : ∃ m, (locRun dflt done {}).maps = [m] := by
            have := hholds.length; rw [has, has'] at this
            match hx : (locRun dflt done {}).maps, this with
            | [m], _ => exact ⟨m, rfl⟩
          obtain ⟨m, hm⟩ := hm
          exact hsame _ _ rfl rfl hsplit' (by simp only [locStep, hm]; exact hreads) (by simp only [locStep, hm]) (by simp only [locStep, hm])
        | cons q as'' =>
          have hc : t.chain = p :: q :: (as'' ++ [0]) := by rw [hchain, has, has']; rfl
          have : t.step h = ({ t with ops := r, chain := q :: (as'' ++ [0]) }, h) := by
            simp only [Thread.step, hops, hc]
            cases as'' <;> rfl
          rw [this]
          rw [has, has'] at hholds hbnd hnd
          generalize hmaps : (locRun dflt done {}).maps = ms at hholds
          cases hholds with
          | @cons _ m _ ms' h1 htail =>
            cases htail with
            | @cons _ m2 _ ms'' h2 htail2 =>
              have hsub : ∀ a ∈ (q :: as'') ++ ass.flatten, a ∈ (p :: q :: as'') ++ ass.flatten := by
                intro a ha; simp only [List.cons_append, List.mem_cons] at ha ⊢; right; exact ha
              refine ⟨⟨done ++ [.pop], q :: as'', ass, hsplit', rfl, hsaved, ?_, ?_, ?_, fun a ha => hbnd a (hsub a ha), ?_⟩, h0,
                Nat.le_refl _, fun _ _ _ => rfl, ?_⟩
              · rw [hrun]; simp only [locStep, hmaps]; exact hreads
              · rw [hrun]; simp only [locStep, hmaps]; exact .cons h2 htail2
              · rw [hrun]; simp only [locStep, hmaps]; exact hall
              · simp only [List.cons_append] at hnd ⊢
                exact (List.nodup_cons.mp hnd).2
              · intro a ha
                left
                rw [hown, has, has']
                have : own { t with ops := r, chain := q :: (as'' ++ [0]) } = (q :: as'') ++ ass.flatten :=
                  own_of_chain (as := q :: as'') (ass := ass) rfl hsaved
                rw [this] at ha
                exact hsub a ha

/-- what another thread does leaves the invariant of a thread alone: its maps are not touched -/
theorem TInv.frame {dflt : Vars} {h h' : SHeap} {ops0 : List Op} {t : Thread} (ht : TInv dflt h ops0 t)
    (hf : ∀ a ∈ own t, h'[a]? = h[a]?) (hl : h.length ≤ h'.length) : TInv dflt h' ops0 t := by
  obtain ⟨done, as, ass, h1, h2, hs, h3, h4, ha4, h5, h6⟩ := ht.ex
  rw [own_of_chain h2 hs] at hf
  exact ⟨done, as, ass, h1, h2, hs, h3, h4.frame (fun a ha => hf a (List.mem_append_left _ ha)),
    ha4.frame (fun a ha => hf a (List.mem_append_right _ ha)),
    fun a ha => ⟨(h5 a ha).1, by have := (h5 a ha).2; omega⟩, h6⟩

theorem TInv.own_lt {dflt : Vars} {h : SHeap} {ops0 : List Op} {t : Thread} (ht : TInv dflt h ops0 t) :
    ∀ a ∈ own t, a < h.length := by
  obtain ⟨done, as, ass, _, h2, hs, _, _, _, h5, _⟩ := ht.ex
  rw [own_of_chain h2 hs]
  exact fun a ha => (h5 a ha).2

theorem sinv_step {dflt : Vars} {progs : List (List Op)} {s : Sys} (inv : SInv dflt progs s) (i : Nat) :
    SInv dflt progs (s.step i) := by
  unfold Sys.step
  cases hti : s.threads[i]? with
  | none => exact inv
  | some t =>
    simp only
    have hil : i < s.threads.length := (List.getElem?_eq_some_iff.mp hti).1
    have hip : i < progs.length := by rw [← inv.len]; exact hil
    have hp : progs[i]? = some progs[i] := List.getElem?_eq_getElem hip
    obtain ⟨s1, s2, s3, s4, s5⟩ := thread_step inv.h0 (inv.thr i t _ hti hp)
    refine ⟨s2, by simp [inv.len], ?_, ?_⟩
    · intro j tj ops0 htj hpj
      by_cases hji : j = i
      · subst hji
        rw [List.getElem?_set_self hil] at htj
        injection htj with htj
        subst htj
        rw [hp] at hpj; injection hpj with hpj; subst hpj
        exact s1
      · rw [List.getElem?_set_ne (Ne.symm hji)] at htj
        have hold := inv.thr j tj ops0 htj hpj
        apply hold.frame _ s3
        intro a ha
        exact s4 a (hold.own_lt a ha) (fun hai => inv.disj i j t tj (Ne.symm hji) hti htj a hai ha)
    · intro j k tj tk hjk htj htk a ha hak
      by_cases hji : j = i
      · subst hji
        rw [List.getElem?_set_self hil] at htj
        injection htj with htj
        subst htj
        have hki : k ≠ j := Ne.symm hjk
        rw [List.getElem?_set_ne (Ne.symm hki)] at htk
        have hkl : k < progs.length := by rw [← inv.len]; exact (List.getElem?_eq_some_iff.mp htk).1
        have hkold := inv.thr k tk _ htk (List.getElem?_eq_getElem hkl)
        rcases s5 a ha with h1 | h1
        · exact inv.disj j k t tk hjk hti htk a h1 hak
        · have := hkold.own_lt a hak; omega
      · rw [List.getElem?_set_ne (Ne.symm hji)] at htj
        by_cases hki : k = i
        · subst hki
          rw [List.getElem?_set_self hil] at htk
          injection htk with htk
          subst htk
          have hjl : j < progs.length := by rw [← inv.len]; exact (List.getElem?_eq_some_iff.mp htj).1
          have hjold := inv.thr j tj _ htj (List.getElem?_eq_getElem hjl)
          rcases s5 a hak with h1 | h1
          · exact inv.disj j k tj t hjk htj hti a ha h1
          · have := hjold.own_lt a ha; omega
        · rw [List.getElem?_set_ne (Ne.symm hki)] at htk
          exact inv.disj j k tj tk hjk htj htk a ha hak

theorem sinv_run {dflt : Vars} {progs : List (List Op)} (sched : List Nat) (s : Sys) (inv : SInv dflt progs s) :
    SInv dflt progs (s.run sched) := by
  induction sched generalizing s with
  | nil => exact inv
  | cons i r ih => exact ih _ (sinv_step inv i)

/-- a thread that has no operations left has done all of them -/
theorem tinv_done {dflt : Vars} {h : SHeap} {ops0 : List Op} {t : Thread} (ht : TInv dflt h ops0 t) (hd : t.ops = []) :
    t.reads = (locRun dflt ops0 {}).reads := by
  obtain ⟨done, as, ass, h1, _, _, h3, _⟩ := ht.ex
  rw [hd, List.append_nil] at h1
  rw [h1]; exact h3

end Glom.C20.Sc
