import Glom.Lemmas.C11f
/-
  Helper lemmas for C11, part 7: refinement for a literal in `val` position — `arg_val` (which
  touches no pre-existing cell), then the assignment of the evaluated value, which is the model
  already proved correct (`assign_spec`), run from the state `arg_val` left (`assignAux_from`).
-/
namespace Glom.C11
open Glom Glom.Mut

theorem logExt_nil {base : Nat} {l : List Ev} (h : LogExt base [] l) : ∀ ev ∈ l, evNew base ev := by
  obtain ⟨evs, he, hn⟩ := h
  simp only [List.nil_append] at he
  subst he
  exact hn

/-- transfer of a refinement statement from the heap `arg_val` left to the heap before the call -/
theorem Refines.lift {h : Heap} {st1 : St} {target : Val} {out : St × Except MErr Val} {ref : RefRes}
    (hok : ArgOK { heap := h } st1) (hr : Refines st1.heap target out ref) :
    Refines h target (St.shift st1 out.1, out.2) ref := by
  have hnew := logExt_nil hok.log
  cases ref with
  | unsupported => exact hr.elim
  | fail a =>
    obtain ⟨he, hp, hl⟩ := hr
    exact ⟨he, Pres.trans hok.pres hp hok.len, Nat.le_trans hok.len hl⟩
  | ok h' hid n =>
    obtain ⟨h1, h2, h3, h4, evs, tail, hlog, hevs, htail⟩ := hr
    refine ⟨h1, h2, ?_, ?_, st1.log ++ evs, tail, ?_, ?_, htail⟩
    · simp only [St.shift, h3, hok.calls]; simp
    · simp only [St.shift, h4, hok.hidden]; simp
    · simp only [St.shift, hlog, List.append_assoc]
    · intro ev hev
      rcases List.mem_append.1 hev with hm | hm
      · exact hnew ev hm
      · exact evNew_mono hok.len (hevs ev hm)

/-- **Main refinement for a literal value** (any scalar, object, nested container with sharing,
    cycles, T leaves): the model does what the property prescribes — `arg_val`'s rebuilt value is
    assigned like any other value, and nothing that existed before the call other than the
    destination changes; on any failure (a T leaf that cannot be evaluated, an unhashable rebuilt
    key, the assignment itself) every pre-existing cell is preserved. -/
theorem assignLit_spec {env : MEnv} (hwf : WF env = true) (hc : classesOK env = true)
    (sroot : Bool) (sref : Val) (missing : Missing) (fuel : Nat) (h : Heap) (target : Val)
    (orig : List Step) (v : Val) (hs : C01.wfSteps orig = true)
    (hm : missingOK env orig missing = true)
    (hfu : (argEval env target fuel { heap := h } [] v).2.2 ≠ .error .unmodelled) :
    Refines h target (assignLit env sroot sref missing fuel h target orig v)
      (refAssignU env fuel h target (if sroot then sref else target) orig (.lit v) missing) := by
  unfold assignLit assignLitFrom refAssignU
  cases hl : orig.getLast? with
  | none => exact ⟨⟨_, rfl⟩, Pres.refl _, Nat.le_refl _⟩
  | some last =>
    obtain ⟨op, arg⟩ := last
    simp only
    split
    · exact ⟨⟨_, rfl⟩, Pres.refl _, Nat.le_refl _⟩
    · have hok := argEval_ok env target fuel { heap := h } [] v
      cases hr : argEval env target fuel { heap := h } [] v with
      | mk st1 r1 =>
        obtain ⟨m1, r⟩ := r1
        rw [hr] at hok hfu
        cases r with
        | error e =>
          have hne : e ≠ .unmodelled := fun he => hfu (by rw [he])
          cases e <;> first
            | exact absurd rfl hne
            | exact ⟨⟨_, rfl⟩, hok.pres, hok.len⟩
        | ok v' =>
          simp only
          rw [assignAux_from]
          have hsp := assign_spec hwf hc sroot sref missing st1.heap target orig (.val v') hs rfl rfl hm
          have hlift := Refines.lift hok hsp
          exact hlift

theorem coveredLit_parts {env : MEnv} {fuel : Nat} {h : Heap} {target : Val} {orig : List Step} {v : Val}
    {missing : Missing} (hy : coveredLit env fuel h target orig v missing = true) :
    WF env = true ∧ classesOK env = true ∧ C01.wfSteps orig = true ∧ missingOK env orig missing = true ∧
      (argEval env target fuel { heap := h } [] v).2.2 ≠ .error .unmodelled := by
  simp only [coveredLit, Bool.and_eq_true, bne_iff_ne, ne_eq] at hy
  obtain ⟨hy, _⟩ := hy
  exact ⟨hy.1.1.1.1, hy.1.1.1.2, hy.1.1.2, hy.1.2, hy.2⟩


end Glom.C11
