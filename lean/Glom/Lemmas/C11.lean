import Glom.Spec.C11
import Glom.Lemmas.C01
/-
  Helper lemmas for C11 / C12.
  Part A: the mutating primitives — which exceptions they raise, and the frame
  lemma (exactly one cell, the destination's, is replaced; the heap keeps its length).
-/
namespace Glom.Mut
open Glom

/-- `h'` has the cells of `h` except possibly the one `dest` refers to -/
def FrameAt (h h' : Heap) (dest : Val) : Prop :=
  h'.length = h.length ∧ ∀ b, dest ≠ .ref b → h'[b]? = h[b]?

theorem FrameAt.refl (h : Heap) (d : Val) : FrameAt h h d := ⟨rfl, fun _ _ => rfl⟩

theorem frameAt_set (h : Heap) (a : Nat) (o : Obj) : FrameAt h (h.set a o) (.ref a) := by
  refine ⟨by simp, fun b hb => ?_⟩
  have : a ≠ b := fun e => hb (by rw [e])
  simp [List.getElem?_set_ne this]

theorem pySetitem_frame {env h dest key v w} (hh : pySetitem env h dest key v = .ok w) :
    FrameAt h w.heap dest := by
  unfold pySetitem at hh
  repeat' split at hh
  all_goals first
    | contradiction
    | (injection hh with hh; subst hh; first | exact FrameAt.refl _ _ | exact frameAt_set _ _ _)

theorem pySetattr_frame {env h dest name v w} (hh : pySetattr env h dest name v = .ok w) :
    FrameAt h w.heap dest := by
  unfold pySetattr at hh
  repeat' split at hh
  all_goals first
    | contradiction
    | (injection hh with hh; subst hh; first | exact FrameAt.refl _ _ | exact frameAt_set _ _ _)

theorem pySetSeqItem_frame {env h dest idx v w} (hh : pySetSeqItem env h dest idx v = .ok w) :
    FrameAt h w.heap dest := by
  unfold pySetSeqItem at hh
  split at hh
  · exact pySetitem_frame hh
  · contradiction

theorem pyDelitem_frame {env h dest key w} (hh : pyDelitem env h dest key = .ok w) :
    FrameAt h w.heap dest := by
  unfold pyDelitem at hh
  repeat' split at hh
  all_goals first
    | contradiction
    | (injection hh with hh; subst hh; first | exact FrameAt.refl _ _ | exact frameAt_set _ _ _)

theorem pyDelattr_frame {env h dest name w} (hh : pyDelattr env h dest name = .ok w) :
    FrameAt h w.heap dest := by
  unfold pyDelattr at hh
  repeat' split at hh
  all_goals first
    | contradiction
    | (injection hh with hh; subst hh; first | exact FrameAt.refl _ _ | exact frameAt_set _ _ _)

theorem pyDelSeqItem_frame {env h dest idx w} (hh : pyDelSeqItem env h dest idx = .ok w) :
    FrameAt h w.heap dest := by
  unfold pyDelSeqItem at hh
  split at hh
  · exact pyDelitem_frame hh
  · contradiction

/-! ### exception classes of the assignment primitives -/

theorem pySetitem_exc {env h dest key v e} (hh : pySetitem env h dest key v = .error e) :
    e = exc "RuntimeError" ∨ e = exc "TypeError" ∨ e = exc "IndexError" := by
  unfold pySetitem at hh
  repeat' split at hh
  all_goals first
    | contradiction
    | (injection hh with hh; subst hh; simp)

theorem pySetattr_exc {env h dest name v e} (hh : pySetattr env h dest name v = .error e) :
    e = exc "RuntimeError" ∨ e = exc "AttributeError" ∨ e = exc "TypeError" := by
  unfold pySetattr at hh
  repeat' split at hh
  all_goals first
    | contradiction
    | (injection hh with hh; subst hh; simp)

theorem pySetSeqItem_exc {env h dest idx v e} (hh : pySetSeqItem env h dest idx v = .error e) :
    e = exc "RuntimeError" ∨ e = exc "TypeError" ∨ e = exc "IndexError" ∨ e = exc "ValueError" := by
  unfold pySetSeqItem at hh
  split at hh
  · rcases pySetitem_exc hh with h1 | h1 | h1 <;> simp [h1]
  · rename_i e' he
    injection hh with hh; subst hh
    rcases C01.pyInt_exc he with h1 | h1 <;> simp [h1]

end Glom.Mut

namespace Glom.C11
open Glom Glom.Mut

theorem applyAssignHandler_exc {env h hn dest arg v e}
    (hh : applyAssignHandler env h hn dest arg v = .error e) : e.cls ∈ assignHandlerExcs := by
  unfold applyAssignHandler at hh
  split at hh
  · rcases pySetitem_exc hh with h1 | h1 | h1 <;> simp [h1, assignHandlerExcs, exc]
  · split at hh
    · rcases pySetSeqItem_exc hh with h1 | h1 | h1 | h1 <;> simp [h1, assignHandlerExcs, exc]
    · split at hh
      · rcases pySetattr_exc hh with h1 | h1 | h1 <;> simp [h1, assignHandlerExcs, exc]
      · injection hh with hh; subst hh; simp [assignHandlerExcs, exc]

theorem applyAssignHandler_frame {env h hn dest arg v w}
    (hh : applyAssignHandler env h hn dest arg v = .ok w) : FrameAt h w.heap dest := by
  unfold applyAssignHandler at hh
  split at hh
  · exact pySetitem_frame hh
  · split at hh
    · exact pySetSeqItem_frame hh
    · split at hh
      · exact pySetattr_frame hh
      · contradiction

theorem refAssignOp_frame {env h op dest arg v w}
    (hh : refAssignOp env h op dest arg v = some (.ok w)) : FrameAt h w.heap dest := by
  unfold refAssignOp at hh
  split at hh
  · injection hh with hh; exact pySetitem_frame hh
  · split at hh
    · injection hh with hh; exact pySetattr_frame hh
    · split at hh
      · cases hn : nearestHandler env.t.ct env.assignReg (dest.clsName h) with
        | none => simp [hn] at hh
        | some n => simp [hn] at hh; exact applyAssignHandler_frame hh
      · contradiction

end Glom.C11

namespace Glom.C11
open Glom Glom.Mut

/-! ### Part B: `_assign_op` (table-driven) is the assignment the step denotes -/

theorem WF_parts {env : MEnv} (h : WF env = true) :
    C01.WF env.t = true ∧
    C01.dispatchOf env.t "x" = some ("star", []) ∧
    C01.dispatchOf env.t "X" = some ("starstar", []) ∧
    branchOf env.assignBr "[" = some ("setitem", [], "") ∧
    branchOf env.assignBr "." = some ("setattr", [], "") ∧
    (∃ caught, branchOf env.assignBr "P" = some ("handler", caught, "PathAssignError") ∧
      ∀ n ∈ assignHandlerExcs, C01.caughtBy env.t caught ⟨n⟩ = true) := by
  simp only [WF, Bool.and_eq_true, beq_iff_eq] at h
  obtain ⟨⟨⟨⟨⟨⟨h1, h2⟩, h3⟩, h4⟩, h5⟩, h6⟩, _⟩ := h
  refine ⟨h1, h2, h3, h4, h5, ?_⟩
  split at h6
  · rename_i caught heq
    exact ⟨caught, heq, by simpa [List.all_eq_true] using h6⟩
  · contradiction

/-- how a failing primitive leaves `_assign_op`: only the plain-segment branch wraps -/
def assignErr (op : String) (arg : Val) (e : PyExc) : MErr :=
  if op == "P" then .passign e arg else .raised e

theorem assignOp_eq {env : MEnv} (hwf : WF env = true) {op : String} (hop : finalOk op = true)
    (arg v : Val) (st : St) (dest : Val) :
    assignOp env op arg v st dest =
      match refAssignOp env st.heap op dest arg v with
      | some (.ok w) => (st.wrote w, .ok ())
      | some (.error e) => (st, .error (assignErr op arg e))
      | none => (st, .error .unregistered) := by
  obtain ⟨_, _, _, hb1, hb2, caught, hb3, hc⟩ := WF_parts hwf
  simp only [finalOk, Bool.or_eq_true, beq_iff_eq] at hop
  rcases hop with (rfl | rfl) | rfl
  · simp only [assignOp, hb1, refAssignOp, assignErr]
    cases pySetitem env st.heap dest arg v <;> simp [C01.caughtBy]
  · simp only [assignOp, hb2, refAssignOp, assignErr]
    cases pySetattr env st.heap dest arg v <;> simp [C01.caughtBy]
  · simp only [assignOp, hb3, refAssignOp, assignErr]
    cases hn : nearestHandler env.t.ct env.assignReg (dest.clsName st.heap) with
    | none => simp
    | some n =>
      cases hr : applyAssignHandler env st.heap n dest arg v with
      | ok w => simp [hr]
      | error e =>
        have := hc e.cls (applyAssignHandler_exc hr)
        simp [hr, this]

end Glom.C11
