import Glom.Spec.C11
import Glom.Lemmas.C01
/-
  Helper lemmas for C11 / C12.
  Part A: the mutating primitives — which exceptions they raise, and the frame
  lemma (exactly one cell, the destination's, is replaced; the heap keeps its length).
-/
namespace Glom.Mut
open Glom

/-- `h'` has the cells of `h` except possibly the one `dest` refers to -/
def FrameAt (h h' : Heap) (dest : Val) : Prop :=
  h'.length = h.length ∧ ∀ b, dest ≠ .ref b → h'[b]? = h[b]?

theorem FrameAt.refl (h : Heap) (d : Val) : FrameAt h h d := ⟨rfl, fun _ _ => rfl⟩

theorem frameAt_set (h : Heap) (a : Nat) (o : Obj) : FrameAt h (h.set a o) (.ref a) := by
  refine ⟨by simp, fun b hb => ?_⟩
  have : a ≠ b := fun e => hb (by rw [e])
  simp [List.getElem?_set_ne this]

theorem pySetitem_frame {env h dest key v w} (hh : pySetitem env h dest key v = .ok w) :
    FrameAt h w.heap dest := by
  unfold pySetitem at hh
  repeat' split at hh
  all_goals first
    | contradiction
    | (injection hh with hh; subst hh; first | exact FrameAt.refl _ _ | exact frameAt_set _ _ _)

theorem pySetattr_frame {env h dest name v w} (hh : pySetattr env h dest name v = .ok w) :
    FrameAt h w.heap dest := by
  unfold pySetattr at hh
  repeat' split at hh
  all_goals first
    | contradiction
    | (injection hh with hh; subst hh; first | exact FrameAt.refl _ _ | exact frameAt_set _ _ _)

theorem pySetSeqItem_frame {env h dest idx v w} (hh : pySetSeqItem env h dest idx v = .ok w) :
    FrameAt h w.heap dest := by
  unfold pySetSeqItem at hh
  split at hh
  · exact pySetitem_frame hh
  · contradiction

theorem pyDelitem_frame {env h dest key w} (hh : pyDelitem env h dest key = .ok w) :
    FrameAt h w.heap dest := by
  unfold pyDelitem at hh
  repeat' split at hh
  all_goals first
    | contradiction
    | (injection hh with hh; subst hh; first | exact FrameAt.refl _ _ | exact frameAt_set _ _ _)

theorem pyDelattr_frame {env h dest name w} (hh : pyDelattr env h dest name = .ok w) :
    FrameAt h w.heap dest := by
  unfold pyDelattr at hh
  repeat' split at hh
  all_goals first
    | contradiction
    | (injection hh with hh; subst hh; first | exact FrameAt.refl _ _ | exact frameAt_set _ _ _)

theorem pyDelSeqItem_frame {env h dest idx w} (hh : pyDelSeqItem env h dest idx = .ok w) :
    FrameAt h w.heap dest := by
  unfold pyDelSeqItem at hh
  split at hh
  · exact pyDelitem_frame hh
  · contradiction

/-! ### exception classes of the assignment primitives -/

theorem pySetitem_exc {env h dest key v e} (hh : pySetitem env h dest key v = .error e) :
    e = exc "RuntimeError" ∨ e = exc "TypeError" ∨ e = exc "IndexError" := by
  unfold pySetitem at hh
  repeat' split at hh
  all_goals first
    | contradiction
    | (injection hh with hh; subst hh; simp)

theorem pySetattr_exc {env h dest name v e} (hh : pySetattr env h dest name v = .error e) :
    e = exc "RuntimeError" ∨ e = exc "AttributeError" ∨ e = exc "TypeError" := by
  unfold pySetattr at hh
  repeat' split at hh
  all_goals first
    | contradiction
    | (injection hh with hh; subst hh; simp)

theorem pySetSeqItem_exc {env h dest idx v e} (hh : pySetSeqItem env h dest idx v = .error e) :
    e = exc "RuntimeError" ∨ e = exc "TypeError" ∨ e = exc "IndexError" ∨ e = exc "ValueError" := by
  unfold pySetSeqItem at hh
  split at hh
  · rcases pySetitem_exc hh with h1 | h1 | h1 <;> simp [h1]
  · rename_i e' he
    injection hh with hh; subst hh
    rcases C01.pyInt_exc he with h1 | h1 <;> simp [h1]

end Glom.Mut

namespace Glom.C11
open Glom Glom.Mut

theorem applyAssignHandler_frame {env h hn dest arg v w}
    (hh : applyAssignHandler env h hn dest arg v = .ok w) : FrameAt h w.heap dest := by
  unfold applyAssignHandler at hh
  split at hh
  · exact pySetitem_frame hh
  · split at hh
    · exact pySetSeqItem_frame hh
    · split at hh
      · exact pySetattr_frame hh
      · contradiction

theorem refAssignOp_frame {env h op dest arg v w}
    (hh : refAssignOp env h op dest arg v = some (.ok w)) : FrameAt h w.heap dest := by
  unfold refAssignOp at hh
  split at hh
  · injection hh with hh; exact pySetitem_frame hh
  · split at hh
    · injection hh with hh; exact pySetattr_frame hh
    · split at hh
      · cases hn : nearestHandler env.t.ct env.assignReg (dest.clsName h) with
        | none => simp [hn] at hh
        | some n => simp [hn] at hh; exact applyAssignHandler_frame hh
      · contradiction

end Glom.C11

namespace Glom.C11
open Glom Glom.Mut

/-! ### which cell a primitive replaces (for the event log) -/

/-- the cell a successful primitive replaced, if any, is the destination's -/
def CellAt (w : Wr) (dest : Val) : Prop := w.cell = none ∨ ∃ a, dest = .ref a ∧ w.cell = some a

theorem pySetitem_cell {env h dest key v w} (hh : pySetitem env h dest key v = .ok w) : CellAt w dest := by
  unfold pySetitem at hh
  repeat' split at hh
  all_goals first
    | contradiction
    | (injection hh with hh; subst hh; first | exact .inl rfl | exact .inr ⟨_, rfl, rfl⟩)

theorem pySetattr_cell {env h dest name v w} (hh : pySetattr env h dest name v = .ok w) : CellAt w dest := by
  unfold pySetattr at hh
  repeat' split at hh
  all_goals first
    | contradiction
    | (injection hh with hh; subst hh; first | exact .inl rfl | exact .inr ⟨_, rfl, rfl⟩)

theorem pySetSeqItem_cell {env h dest idx v w} (hh : pySetSeqItem env h dest idx v = .ok w) : CellAt w dest := by
  unfold pySetSeqItem at hh
  split at hh
  · exact pySetitem_cell hh
  · contradiction

theorem refAssignOp_cell {env h op dest arg v w}
    (hh : refAssignOp env h op dest arg v = some (.ok w)) : CellAt w dest := by
  unfold refAssignOp at hh
  split at hh
  · injection hh with hh; exact pySetitem_cell hh
  · split at hh
    · injection hh with hh; exact pySetattr_cell hh
    · split at hh
      · cases hn : nearestHandler env.t.ct env.assignReg (dest.clsName h) with
        | none => simp [hn] at hh
        | some n =>
          simp [hn] at hh
          unfold applyAssignHandler at hh
          split at hh
          · exact pySetitem_cell hh
          · split at hh
            · exact pySetSeqItem_cell hh
            · split at hh
              · exact pySetattr_cell hh
              · contradiction
      · contradiction

/-- the event touches only a cell at or above `base` (a cell created during this call) -/
def evNew (base : Nat) : Ev → Prop
  | .alloc a => base ≤ a
  | .write a => base ≤ a

/-- `l'` extends `l` by events on cells at or above `base` -/
def LogExt (base : Nat) (l l' : List Ev) : Prop := ∃ evs, l' = l ++ evs ∧ ∀ ev ∈ evs, evNew base ev

theorem LogExt.refl (base : Nat) (l : List Ev) : LogExt base l l := ⟨[], by simp, by simp⟩

theorem evNew_mono {b1 b2 : Nat} (hb : b1 ≤ b2) {ev : Ev} (h : evNew b2 ev) : evNew b1 ev := by
  cases ev <;> simp only [evNew] at h ⊢ <;> omega

theorem LogExt.trans {b1 b2 : Nat} {l1 l2 l3 : List Ev} (h1 : LogExt b1 l1 l2) (h2 : LogExt b2 l2 l3)
    (hb : b1 ≤ b2) : LogExt b1 l1 l3 := by
  obtain ⟨e1, rfl, he1⟩ := h1
  obtain ⟨e2, rfl, he2⟩ := h2
  refine ⟨e1 ++ e2, by simp, ?_⟩
  intro ev hev
  rcases List.mem_append.1 hev with h | h
  · exact he1 ev h
  · exact evNew_mono hb (he2 ev h)

theorem LogExt.snoc {base : Nat} {l l' : List Ev} (h : LogExt base l l') {ev : Ev} (hev : evNew base ev) :
    LogExt base l (l' ++ [ev]) := by
  obtain ⟨e1, rfl, he1⟩ := h
  refine ⟨e1 ++ [ev], by simp, ?_⟩
  intro x hx
  rcases List.mem_append.1 hx with h | h
  · exact he1 x h
  · simp at h; subst h; exact hev

/-- the log after recording a successful primitive on the cell at `a` -/
theorem wrote_log {st : St} {w : Wr} {a : Nat} (hc : CellAt w (.ref a)) :
    (st.wrote w).log = st.log ∨ (st.wrote w).log = st.log ++ [.write a] := by
  rcases hc with h | ⟨b, hb, h⟩
  · left; simp [St.wrote, h]
  · right; injection hb with hb; subst hb; simp [St.wrote, h]

theorem wrote_logExt {base : Nat} {st : St} {w : Wr} {a : Nat} {l : List Ev} (hc : CellAt w (.ref a))
    (ha : base ≤ a) (h : LogExt base l st.log) : LogExt base l (st.wrote w).log := by
  rcases wrote_log (st := st) hc with h1 | h1
  · rw [h1]; exact h
  · rw [h1]; exact h.snoc (by simpa [evNew] using ha)

/-! ### Part B: `_assign_op` (table-driven) is the assignment the step denotes -/

theorem assignKind_parts {env : MEnv} {op kind : String} (h : assignKind env op kind = true) :
    ∃ caught raises, branchOf env.assignBr op = some (kind, caught, raises) := by
  unfold assignKind at h
  cases hb : branchOf env.assignBr op with
  | none => simp [hb] at h
  | some r =>
    obtain ⟨k, c, ra⟩ := r
    simp [hb] at h
    exact ⟨c, ra, by rw [h]⟩

theorem WF_parts {env : MEnv} (h : WF env = true) :
    C01.WF env.t = true ∧
    C01.dispatchOf env.t "x" = some ("star", []) ∧
    C01.dispatchOf env.t "X" = some ("starstar", []) ∧
    assignKind env "[" "setitem" = true ∧
    assignKind env "." "setattr" = true ∧
    assignKind env "P" "handler" = true := by
  simp only [WF, Bool.and_eq_true, beq_iff_eq] at h
  obtain ⟨⟨⟨⟨⟨⟨⟨_, h1⟩, h2⟩, h3⟩, h4⟩, h5⟩, h6⟩, _⟩ := h
  exact ⟨h1, h2, h3, h4, h5, h6⟩

/-- how a failing primitive leaves `_assign_op`: a PathAssignError when the branch's `except`
    clause (extracted from the source) names the exception's class, the exception itself otherwise -/
def assignErr (env : MEnv) (op : String) (arg : Val) (e : PyExc) : MErr :=
  match branchOf env.assignBr op with
  | some (_, caught, _) => if C01.caughtBy env.t caught e then .passign e arg else .raised e
  | none => .badSpec

theorem assignOp_eq {env : MEnv} (hwf : WF env = true) {op : String} (hop : finalOk op = true)
    (arg v : Val) (st : St) (dest : Val) :
    assignOp env op arg v st dest =
      match refAssignOp env st.heap op dest arg v with
      | some (.ok w) => (st.wrote w, .ok ())
      | some (.error e) => (st, .error (assignErr env op arg e))
      | none => (st, .error .unregistered) := by
  obtain ⟨_, _, _, hk1, hk2, hk3⟩ := WF_parts hwf
  obtain ⟨c1, r1, hb1⟩ := assignKind_parts hk1
  obtain ⟨c2, r2, hb2⟩ := assignKind_parts hk2
  obtain ⟨c3, r3, hb3⟩ := assignKind_parts hk3
  simp only [finalOk, Bool.or_eq_true, beq_iff_eq] at hop
  rcases hop with (rfl | rfl) | rfl
  · simp only [assignOp, hb1, refAssignOp, assignErr]
    cases pySetitem env st.heap dest arg v with
    | ok w => simp
    | error e => by_cases hc : C01.caughtBy env.t c1 e = true <;> simp [hc]
  · simp only [assignOp, hb2, refAssignOp, assignErr]
    cases pySetattr env st.heap dest arg v with
    | ok w => simp
    | error e => by_cases hc : C01.caughtBy env.t c2 e = true <;> simp [hc]
  · simp only [assignOp, hb3, refAssignOp, assignErr]
    cases hn : nearestHandler env.t.ct env.assignReg (dest.clsName st.heap) with
    | none => simp
    | some n =>
      cases hr : applyAssignHandler env st.heap n dest arg v with
      | ok w => simp [hr]
      | error e => by_cases hc : C01.caughtBy env.t c3 e = true <;> simp [hr, hc]

end Glom.C11

namespace Glom.Mut
open Glom

/-! ### Part C: `_t_eval` over steps (with `*`) addresses exactly `matchesOf` -/

theorem mro_has_object {env : MEnv} (hc : classesOK env = true) (c : String) :
    "object" ∈ env.t.ct.mro c := by
  simp only [classesOK, Bool.and_eq_true, List.all_eq_true] at hc
  unfold ClassTable.mro
  split
  · rename_i m hf
    have := hc.2 _ (List.mem_of_find?_eq_some hf)
    simpa using this
  · simp

theorem getHandler_some {env : MEnv} (hc : classesOK env = true) (h : Heap) (cur : Val) :
    ∃ hn, C01.getHandler env.t h cur = some hn := by
  have hobj := mro_has_object hc (cur.clsName h)
  simp only [classesOK, Bool.and_eq_true] at hc
  obtain ⟨hreg, _⟩ := hc
  unfold C01.getHandler
  cases hr : List.findSome? (fun c =>
      match List.find? (fun x => x.fst == c) env.t.getReg with
      | some (_, hn) => if (hn == "False") = true then none else some hn
      | none => none) (env.t.ct.mro (cur.clsName h)) with
  | some hn => exact ⟨hn, rfl⟩
  | none =>
    exfalso
    rw [List.findSome?_eq_none_iff] at hr
    have h1 := hr "object" hobj
    cases hf : List.find? (fun x => x.fst == "object") env.t.getReg with
    | none => rw [hf] at hreg; contradiction
    | some q =>
      obtain ⟨qc, qh⟩ := q
      rw [hf] at h1 hreg
      simp only [bne_iff_ne, ne_eq] at hreg
      simp [hreg] at h1

end Glom.Mut

namespace Glom.Mut
open Glom

/-- one access step of `fetch` is the step's reference access; failures are PathAccessErrors -/
theorem fetch_access {env : MEnv} (hwf : C01.WF env.t = true) (hc : classesOK env = true) (h : Heap)
    (op : String) (arg : Val) (rest : List Step) (k : Nat) (cur : Val)
    (hw : C01.wfSteps [(op, arg)] = true) :
    ∃ r, C01.refAccess env.t h op cur arg = some r ∧
      fetch env h ((op, arg) :: rest) k cur =
        match r with
        | .ok v => fetch env h rest (k + 1) v
        | .error e => .error (.pae k e) := by
  obtain ⟨h1, h2, h3, _⟩ := C01.WF_parts hwf
  obtain ⟨c1, hd1, hc1⟩ := C01.catches_dispatch h1
  obtain ⟨c2, hd2, hc2⟩ := C01.catches_dispatch h2
  obtain ⟨c3, hd3, hc3⟩ := C01.catches_dispatch h3
  simp only [C01.wfSteps, Bool.and_true, Bool.and_eq_true, Bool.or_eq_true, beq_iff_eq] at hw
  obtain ⟨hops, hargstr⟩ := hw
  rcases hops with (rfl | rfl) | rfl
  · simp at hargstr
    split at hargstr
    · rename_i n
      refine ⟨pyGetattr h cur (.str n), by simp [C01.refAccess], ?_⟩
      simp only [fetch, hd1, C01.accessOp]
      cases hg : pyGetattr h cur (.str n) with
      | ok v => simp
      | error e =>
        have := C01.pyGetattr_str_exc hg
        subst this
        simp [hc1 "AttributeError" (by simp), exc]
    · contradiction
  · refine ⟨pyGetitem h cur arg, by simp [C01.refAccess], ?_⟩
    simp only [fetch, hd2, C01.accessOp]
    cases hg : pyGetitem h cur arg with
    | ok v => simp
    | error e => rcases C01.pyGetitem_exc hg with rfl | rfl | rfl <;> simp [exc, hc2]
  · obtain ⟨hn, hh⟩ := getHandler_some hc h cur
    refine ⟨C01.applyHandler h hn cur arg, by simp [C01.refAccess, hh], ?_⟩
    simp only [fetch, hd3, C01.accessOp, hh]
    cases hg : C01.applyHandler h hn cur arg with
    | ok v => simp
    | error e =>
      have := C01.applyHandler_exc hg
      simp [hc3 e.cls this]

end Glom.Mut

namespace Glom.Mut
open Glom

/-! ### nested result lists: leaves and uniform depth -/

/- (`Nest.leaves` / `leavesL` / `Nest.uniform` / `uniformL` are defined with the model: the checker uses them) -/

theorem leavesL_append (a b : List Nest) : leavesL (a ++ b) = leavesL a ++ leavesL b := by
  induction a with
  | nil => simp [leavesL]
  | cons x xs ih => simp [leavesL, ih]

theorem uniformL_append (n : Nat) (a b : List Nest) :
    uniformL n (a ++ b) = (uniformL n a && uniformL n b) := by
  induction a with
  | nil => simp [uniformL]
  | cons x xs ih => simp [uniformL, ih, Bool.and_assoc]

theorem flatten1_spec (n : Nat) : ∀ xs, uniformL (n + 1) xs = true →
    ∃ ys, flatten1 xs = .ok ys ∧ uniformL n ys = true ∧ leavesL ys = leavesL xs := by
  intro xs
  induction xs with
  | nil => intro _; exact ⟨[], rfl, by simp [uniformL], rfl⟩
  | cons x xs ih =>
    intro hu
    simp only [uniformL, Bool.and_eq_true] at hu
    obtain ⟨ys, hy, hyu, hyl⟩ := ih hu.2
    cases x with
    | leaf v => simp [Nest.uniform] at hu
    | node zs =>
      have hz : uniformL n zs = true := by simpa [Nest.uniform] using hu.1
      refine ⟨zs ++ ys, by simp [flatten1, hy], by simp [uniformL_append, hz, hyu], ?_⟩
      simp [leavesL_append, leavesL, Nest.leaves, hyl]

theorem flattenN_spec : ∀ (n : Nat) (xs : List Nest), uniformL n xs = true →
    ∃ ys, flattenN n xs = .ok ys ∧ uniformL 0 ys = true ∧ leavesL ys = leavesL xs := by
  intro n
  induction n with
  | zero => intro xs hu; exact ⟨xs, rfl, hu, rfl⟩
  | succ n ih =>
    intro xs hu
    obtain ⟨ys, hy, hyu, hyl⟩ := flatten1_spec n xs hu
    obtain ⟨zs, hz, hzu, hzl⟩ := ih ys hyu
    exact ⟨zs, by simp [flattenN, hy, hz], hzu, by rw [hzl, hyl]⟩

/-- apply `f` to the values in order, stopping at the first error -/
def seqM (f : St → Val → St × Except MErr Unit) : St → List Val → St × Except MErr Unit
  | st, [] => (st, .ok ())
  | st, v :: r =>
    match f st v with
    | (st', .ok _) => seqM f st' r
    | (st', .error e) => (st', .error e)

theorem forEach_spec (f : St → Val → St × Except MErr Unit) : ∀ (ys : List Nest) (st : St),
    uniformL 0 ys = true → forEach f st ys = seqM f st (leavesL ys) := by
  intro ys
  induction ys with
  | nil => intro st _; rfl
  | cons y ys ih =>
    intro st hu
    simp only [uniformL, Bool.and_eq_true] at hu
    cases y with
    | node zs => simp [Nest.uniform] at hu
    | leaf v =>
      simp only [forEach, leavesL, Nest.leaves, List.singleton_append, seqM]
      cases hf : f st v with
      | mk st' r =>
        cases r with
        | ok u => simp [ih st' hu.2]
        | error e => simp

/-- `_apply_for_each` on a result of the right depth calls `func` once per addressed object, in order -/
theorem applyForEach_spec (layers : Nat) (nest : Nest) (f : St → Val → St × Except MErr Unit) (st : St)
    (hu : nest.uniform layers = true) :
    applyForEach layers nest f st = seqM f st nest.leaves := by
  cases layers with
  | zero =>
    cases nest with
    | leaf v =>
      simp only [applyForEach, beq_self_eq_true, if_true, Nest.leaves, seqM]
      cases hf : f st v with
      | mk st' r => cases r <;> simp
    | node xs => simp [Nest.uniform] at hu
  | succ n =>
    cases nest with
    | leaf v => simp [Nest.uniform] at hu
    | node xs =>
      have hx : uniformL n xs = true := by simpa [Nest.uniform] using hu
      obtain ⟨ys, hy, hyu, hyl⟩ := flattenN_spec n xs hx
      simp only [applyForEach, Nat.add_sub_cancel, hy, Nest.leaves]
      rw [forEach_spec f ys st hyu, hyl]
      simp

end Glom.Mut

namespace Glom.Mut
open Glom

/-! ### below a wildcard: the frontier semantics, totalised -/

/-- one access step on one object: the value, or nothing (dropped below a wildcard) -/
def acc1 (env : MEnv) (h : Heap) (op : String) (arg : Val) (c : Val) : Option Val :=
  match C01.refAccess env.t h op c arg with
  | some (.ok v) => some v
  | _ => none

def advT (env : MEnv) (h : Heap) : List Step → List Val → List Val
  | [], fr => fr
  | (op, arg) :: rest, fr =>
    if op == "x" then advT env h rest (fr.flatMap (children env h))
    else advT env h rest (fr.filterMap (acc1 env h op arg))

theorem advT_nil (env : MEnv) (h : Heap) : ∀ rest, advT env h rest [] = [] := by
  intro rest
  induction rest with
  | nil => rfl
  | cons s r ih => obtain ⟨op, arg⟩ := s; simp only [advT]; split <;> simpa using ih

theorem advT_append (env : MEnv) (h : Heap) : ∀ rest a b,
    advT env h rest (a ++ b) = advT env h rest a ++ advT env h rest b := by
  intro rest
  induction rest with
  | nil => intro a b; rfl
  | cons s r ih =>
    obtain ⟨op, arg⟩ := s
    intro a b
    simp only [advT]
    split
    · rw [List.flatMap_append, ih]
    · rw [List.filterMap_append, ih]

theorem advT_flatMap (env : MEnv) (h : Heap) (rest : List Step) : ∀ fr,
    advT env h rest fr = fr.flatMap (fun c => advT env h rest [c]) := by
  intro fr
  induction fr with
  | nil => simp [advT_nil]
  | cons c cs ih =>
    rw [show c :: cs = [c] ++ cs from rfl, advT_append, ih]
    simp

theorem wfSteps_op {op : String} {arg : Val} (hw : C01.wfSteps [(op, arg)] = true) :
    (op = "." ∨ op = "[" ∨ op = "P") ∧ op ≠ "x" ∧ op ≠ "X" := by
  simp only [C01.wfSteps, Bool.and_true, Bool.and_eq_true, Bool.or_eq_true, beq_iff_eq] at hw
  rcases hw.1 with (rfl | rfl) | rfl <;> simp

theorem stepAll_eq {env : MEnv} (hc : classesOK env = true) (h : Heap) {op : String} {arg : Val}
    (hw : C01.wfSteps [(op, arg)] = true) : ∀ fr,
    stepAll env h op arg fr = some (fr.filterMap (acc1 env h op arg)) := by
  intro fr
  induction fr with
  | nil => rfl
  | cons c cs ih =>
    have hsome : ∃ r, C01.refAccess env.t h op c arg = some r := by
      rcases (wfSteps_op hw).1 with rfl | rfl | rfl
      · exact ⟨pyGetattr h c arg, by simp [C01.refAccess]⟩
      · exact ⟨pyGetitem h c arg, by simp [C01.refAccess]⟩
      · obtain ⟨hn, hh⟩ := getHandler_some hc h c
        exact ⟨C01.applyHandler h hn c arg, by simp [C01.refAccess, hh]⟩
    obtain ⟨r, hr⟩ := hsome
    simp only [stepAll, hr, List.filterMap_cons, acc1, ih]
    cases r <;> simp

theorem advance_eq {env : MEnv} (hc : classesOK env = true) (h : Heap) : ∀ rest fr,
    wfStar rest = true → advance env h rest fr = .ok (advT env h rest fr) := by
  intro rest
  induction rest with
  | nil => intro fr _; rfl
  | cons s r ih =>
    obtain ⟨op, arg⟩ := s
    intro fr hw
    simp only [wfStar, Bool.and_eq_true, Bool.or_eq_true, beq_iff_eq] at hw
    simp only [advance, advT]
    by_cases hx : op = "x"
    · subst hx; simp [ih _ hw.2]
    · have hws : C01.wfSteps [(op, arg)] = true := by
        rcases hw.1 with h1 | h1
        · exact absurd h1 hx
        · exact h1
      have hop := (wfSteps_op hws).1
      have : (op == "." || op == "[" || op == "P") = true := by
        rcases hop with rfl | rfl | rfl <;> simp
      simp [hx, this, stepAll_eq hc h hws, ih _ hw.2]

theorem stars_cons_x (arg : Val) (rest : List Step) : stars (("x", arg) :: rest) = stars rest + 1 := by
  simp [stars]

theorem stars_cons_acc {op : String} {arg : Val} (rest : List Step) (h1 : op ≠ "x") (h2 : op ≠ "X") :
    stars ((op, arg) :: rest) = stars rest := by
  simp [stars, h1, h2]

/-- the outcome of `fetch` for one child below a wildcard -/
def BelowOK (env : MEnv) (h : Heap) (rest : List Step) (r : Except MErr Nest) (c : Val) : Prop :=
  (∃ nest, r = .ok nest ∧ nest.uniform (stars rest) = true ∧ nest.leaves = advT env h rest [c]) ∨
  (∃ k e, r = .error (.pae k e) ∧ advT env h rest [c] = [])

theorem collect_spec (env : MEnv) (h : Heap) (rest : List Step) (g : Val → Except MErr Nest) :
    ∀ cs : List Val, (∀ c ∈ cs, BelowOK env h rest (g c) c) →
    ∃ ns, collect (cs.map g) = .ok ns ∧ uniformL (stars rest) ns = true ∧
      leavesL ns = cs.flatMap (fun c => advT env h rest [c]) := by
  intro cs
  induction cs with
  | nil => intro _; exact ⟨[], rfl, by simp [uniformL], by simp [leavesL]⟩
  | cons c cs ih =>
    intro hall
    obtain ⟨ns, hns, hu, hl⟩ := ih (fun c' hc' => hall c' (List.mem_cons_of_mem _ hc'))
    rcases hall c (by simp) with ⟨nest, hg, hnu, hnl⟩ | ⟨k, e, hg, hnil⟩
    · exact ⟨nest :: ns, by simp [collect, hg, hns], by simp [uniformL, hnu, hu],
        by simp [leavesL, hnl, hl]⟩
    · exact ⟨ns, by simp [collect, hg, hns], hu, by simp [hl, hnil]⟩

theorem fetch_star_eq {env : MEnv} (hx : C01.dispatchOf env.t "x" = some ("star", [])) (h : Heap)
    (arg : Val) (rest : List Step) (k : Nat) (cur : Val) (hs : isScope env h cur = false) :
    fetch env h (("x", arg) :: rest) k cur =
      match collect ((children env h cur).map (fun c => fetch env h rest 0 c)) with
      | .ok ns => .ok (.node ns)
      | .error e => .error e := by
  simp only [fetch, hx, hs]
  cases collect ((children env h cur).map (fun c => fetch env h rest 0 c)) <;> simp

/-- **below a wildcard**: each child either contributes the (nested) results of the rest of the
    path, or is dropped with a PathAccessError — never anything else -/
theorem fetch_below {env : MEnv} (hwf1 : C01.WF env.t = true)
    (hx : C01.dispatchOf env.t "x" = some ("star", [])) (hc : classesOK env = true) (h : Heap)
    (hsc : ∀ c, isScope env h c = false) : ∀ (rest : List Step), wfStar rest = true →
    ∀ (k : Nat) (c : Val), BelowOK env h rest (fetch env h rest k c) c := by
  intro rest
  induction rest with
  | nil => intro _ k c; exact .inl ⟨.leaf c, rfl, by simp [stars, Nest.uniform], by simp [Nest.leaves, advT]⟩
  | cons s r ih =>
    obtain ⟨op, arg⟩ := s
    intro hw k c
    simp only [wfStar, Bool.and_eq_true, Bool.or_eq_true, beq_iff_eq] at hw
    by_cases hxo : op = "x"
    · subst hxo
      obtain ⟨ns, hns, hu, hl⟩ := collect_spec env h r (fun c' => fetch env h r 0 c') (children env h c)
        (fun c' _ => ih hw.2 0 c')
      refine .inl ⟨.node ns, ?_, ?_, ?_⟩
      · rw [fetch_star_eq hx h arg r k c (hsc c), hns]
      · rw [stars_cons_x]; simpa [Nest.uniform] using hu
      · simp only [Nest.leaves, hl, advT, beq_self_eq_true, if_true, List.flatMap_cons,
          List.flatMap_nil, List.append_nil]
        exact (advT_flatMap env h r _).symm
    · have hws : C01.wfSteps [(op, arg)] = true := by
        rcases hw.1 with h1 | h1
        · exact absurd h1 hxo
        · exact h1
      obtain ⟨r', hr, hf⟩ := fetch_access hwf1 hc h op arg r k c hws
      have hst := stars_cons_acc (arg := arg) r hxo (wfSteps_op hws).2.2
      have hadv : advT env h ((op, arg) :: r) [c] = advT env h r ([c].filterMap (acc1 env h op arg)) := by
        simp [advT, hxo]
      cases r' with
      | ok v =>
        have h1 : [c].filterMap (acc1 env h op arg) = [v] := by simp [acc1, hr]
        simp only [BelowOK, hf, hst, hadv, h1]
        exact ih hw.2 (k + 1) v
      | error e =>
        have h1 : [c].filterMap (acc1 env h op arg) = [] := by simp [acc1, hr]
        exact .inr ⟨k, e, hf, by rw [hadv, h1, advT_nil]⟩

end Glom.Mut

namespace Glom.Mut
open Glom

theorem hasStar_cons {s : Step} {rest : List Step} (h : hasStar (s :: rest) = false) :
    s.1 ≠ "x" ∧ s.1 ≠ "X" ∧ hasStar rest = false := by
  simp only [hasStar, List.any_cons, Bool.or_eq_false_iff, beq_eq_false_iff_ne, ne_eq] at h
  exact ⟨h.1.1, h.1.2, by simpa [hasStar] using h.2⟩

/-- **`_t_eval` addresses exactly the objects of the reference walk**: on success a nested result
    of depth `stars steps` whose leaves are `matchesOf` in order; a failure before the first
    wildcard is a PathAccessError with the index of the failing segment. -/
theorem fetch_spec' {env : MEnv} (hwf1 : C01.WF env.t = true)
    (hx : C01.dispatchOf env.t "x" = some ("star", [])) (hc : classesOK env = true) (h : Heap) :
    ∀ (steps : List Step), wfStar steps = true →
    (hasStar steps = false ∨ ∀ c, isScope env h c = false) →
    ∀ (k : Nat) (cur : Val),
    match matchesOf env h steps k cur with
    | .ok ds => ∃ nest, fetch env h steps k cur = .ok nest ∧ nest.uniform (stars steps) = true ∧
        nest.leaves = ds
    | .fail k' e _ => fetch env h steps k cur = .error (.pae k' e)
    | .unreg => False
    | .unsupported => False := by
  intro steps
  induction steps with
  | nil => intro _ _ k cur; exact ⟨.leaf cur, rfl, by simp [stars, Nest.uniform], by simp [Nest.leaves]⟩
  | cons s r ih =>
    obtain ⟨op, arg⟩ := s
    intro hw hns k cur
    simp only [wfStar, Bool.and_eq_true, Bool.or_eq_true, beq_iff_eq] at hw
    by_cases hxo : op = "x"
    · subst hxo
      have hsc : ∀ c, isScope env h c = false := by
        rcases hns with h1 | h1
        · simp [hasStar] at h1
        · exact h1
      obtain ⟨ns, hns', hu, hl⟩ := collect_spec env h r (fun c' => fetch env h r 0 c') (children env h cur)
        (fun c' _ => fetch_below hwf1 hx hc h hsc r hw.2 0 c')
      simp only [matchesOf, beq_self_eq_true, if_true, hsc cur, Bool.false_eq_true, if_false,
        advance_eq hc h r _ hw.2]
      refine ⟨.node ns, ?_, ?_, ?_⟩
      · rw [fetch_star_eq hx h arg r k cur (hsc cur), hns']
      · rw [stars_cons_x]; simpa [Nest.uniform] using hu
      · simp only [Nest.leaves, hl]; exact (advT_flatMap env h r _).symm
    · have hws : C01.wfSteps [(op, arg)] = true := by
        rcases hw.1 with h1 | h1
        · exact absurd h1 hxo
        · exact h1
      obtain ⟨r', hr, hf⟩ := fetch_access hwf1 hc h op arg r k cur hws
      have hop := (wfSteps_op hws).1
      have hopb : (op == "." || op == "[" || op == "P") = true := by
        rcases hop with rfl | rfl | rfl <;> simp
      have hns2 : hasStar r = false ∨ ∀ c, isScope env h c = false := by
        rcases hns with h1 | h1
        · exact .inl (hasStar_cons h1).2.2
        · exact .inr h1
      simp only [matchesOf, hxo, beq_iff_eq, if_false, hopb, if_true, hr]
      cases r' with
      | ok v =>
        simp only [hf, stars_cons_acc (arg := arg) r hxo (wfSteps_op hws).2.2]
        exact ih hw.2 hns2 (k + 1) v
      | error e => simpa using hf

theorem fetch_spec {env : MEnv} (hwf : C11.WF env = true) (hc : classesOK env = true) (h : Heap) :
    ∀ (steps : List Step), wfStar steps = true →
    (hasStar steps = false ∨ ∀ c, isScope env h c = false) →
    ∀ (k : Nat) (cur : Val),
    match matchesOf env h steps k cur with
    | .ok ds => ∃ nest, fetch env h steps k cur = .ok nest ∧ nest.uniform (stars steps) = true ∧
        nest.leaves = ds
    | .fail k' e _ => fetch env h steps k cur = .error (.pae k' e)
    | .unreg => False
    | .unsupported => False := by
  obtain ⟨hwf1, hx, _, _, _, _⟩ := C11.WF_parts hwf
  exact fetch_spec' hwf1 hx hc h

end Glom.Mut

namespace Glom.C11
open Glom Glom.Mut

/-! ### Part D: the `missing` recursion builds exactly `buildTail` -/

def emptyObj : Obj → Bool
  | .dict _ [] | .list _ [] | .tuple _ [] | .inst _ [] => true
  | _ => false

theorem freshObj_empty {kind o} (h : freshObj kind = some o) : emptyObj o = true := by
  unfold freshObj at h
  repeat' split at h
  all_goals first
    | contradiction
    | (injection h with h; subst h; rfl)

/-- the state after a factory call that returned `o` -/
def allocSt (st : St) (o : Obj) : St :=
  { st with calls := st.calls + 1, heap := st.heap ++ [o],
            log := st.log ++ [.alloc st.heap.length], made := st.made ++ [st.heap.length] }

theorem callFactory_eq (kind : String) (st : St) :
    callFactory kind st =
      match freshObj kind with
      | some o => (allocSt st o, .ok (.ref st.heap.length))
      | none =>
        match freshScalar kind with
        | some c => ({ st with calls := st.calls + 1 }, .ok c)
        | none => ({ st with calls := st.calls + 1 }, .error (.raised (exc "RuntimeError"))) := by
  unfold callFactory freshObj allocSt
  repeat' split
  all_goals first | rfl | simp_all

theorem pyIndex_nil {α} (i : Int) : pyIndex ([] : List α) i = none := by
  unfold pyIndex
  simp only [List.length_nil, Int.natCast_zero, Int.add_zero]
  split <;> simp_all

theorem pyGetattr_empty {h : Heap} {a : Nat} {o : Obj} (ha : h[a]? = some o) (ho : emptyObj o = true)
    (name : Val) : ∃ e, pyGetattr h (.ref a) name = .error e := by
  unfold pyGetattr
  cases name <;> simp only [ha] <;> try exact ⟨_, rfl⟩
  cases o with
  | inst c as => cases as with
    | nil => exact ⟨_, rfl⟩
    | cons => simp [emptyObj] at ho
  | _ => exact ⟨_, rfl⟩

theorem pyGetitem_empty {h : Heap} {a : Nat} {o : Obj} (ha : h[a]? = some o) (ho : emptyObj o = true)
    (key : Val) : ∃ e, pyGetitem h (.ref a) key = .error e := by
  unfold pyGetitem
  simp only [ha]
  cases o with
  | dict c es =>
    cases es with
    | nil => simp only [dictLookup, List.find?_nil, Option.map_none]; split <;> exact ⟨_, rfl⟩
    | cons => simp [emptyObj] at ho
  | list c xs =>
    cases xs with
    | nil => simp only [pyIndex_nil]; split <;> exact ⟨_, rfl⟩
    | cons => simp [emptyObj] at ho
  | tuple c xs =>
    cases xs with
    | nil => simp only [pyIndex_nil]; split <;> exact ⟨_, rfl⟩
    | cons => simp [emptyObj] at ho
  | inst c as => exact ⟨_, rfl⟩
  | set c xs => exact ⟨_, rfl⟩

theorem applyHandler_empty {h : Heap} {a : Nat} {o : Obj} (ha : h[a]? = some o)
    (ho : emptyObj o = true) (hn : String) (arg : Val) :
    ∃ e, C01.applyHandler h hn (.ref a) arg = .error e := by
  unfold C01.applyHandler
  split
  · exact pyGetitem_empty ha ho arg
  · split
    · unfold pySeqGet
      split
      · exact pyGetitem_empty ha ho _
      · exact ⟨_, rfl⟩
    · split
      · exact pyGetattr_empty ha ho arg
      · exact ⟨_, rfl⟩

/-- every access step on a freshly created (empty) object fails -/
theorem refAccess_empty {env : MEnv} {h : Heap} {a : Nat} {o : Obj} (ha : h[a]? = some o)
    (ho : emptyObj o = true) (op : String) (arg : Val) (r : Except PyExc Val)
    (hr : C01.refAccess env.t h op (.ref a) arg = some r) : ∃ e, r = .error e := by
  unfold C01.refAccess at hr
  split at hr
  · injection hr with hr; subst hr; exact pyGetattr_empty ha ho arg
  · split at hr
    · injection hr with hr; subst hr; exact pyGetitem_empty ha ho arg
    · split at hr
      · cases hg : C01.getHandler env.t h (.ref a) with
        | none => simp [hg] at hr
        | some hn => simp [hg] at hr; subst hr; exact applyHandler_empty ha ho hn arg
      · contradiction

theorem children_empty {env : MEnv} {h : Heap} {a : Nat} {o : Obj} (ha : h[a]? = some o)
    (ho : emptyObj o = true) : children env h (.ref a) = [] := by
  unfold children
  simp only [ha]
  cases o with
  | dict c es => cases es <;> simp_all [emptyObj]
  | list c xs => cases xs <;> simp_all [emptyObj]
  | tuple c xs => cases xs <;> simp_all [emptyObj]
  | inst c as => cases as <;> simp_all [emptyObj]
  | set c xs => simp [emptyObj] at ho

/-- the scalars a non-container factory returns -/
def emptyScalar : Val → Bool
  | .int i => i == 0
  | .str s => s == ""
  | .none => true
  | _ => false

theorem freshScalar_empty {kind c} (h : freshScalar kind = some c) : emptyScalar c = true := by
  unfold freshScalar at h
  repeat' split at h
  all_goals first
    | contradiction
    | (injection h with h; subst h; rfl)

theorem emptyScalar_not_ref {c : Val} (h : emptyScalar c = true) : ∀ a, c ≠ .ref a := by
  intro a e; subst e; simp [emptyScalar] at h

theorem pyGetattr_scalar {h : Heap} {c : Val} (hc : ∀ a, c ≠ .ref a) (name : Val) :
    ∃ e, pyGetattr h c name = .error e := by
  unfold pyGetattr
  cases name <;> cases c <;> first | exact ⟨_, rfl⟩ | exact absurd rfl (hc _)

theorem strIndex_empty (i : Int) : strIndex "" i = none := by
  have : ("" : String).toList = [] := rfl
  simp [strIndex, this, pyIndex_nil]

theorem pyGetitem_scalar {h : Heap} {c : Val} (hc : emptyScalar c = true) (key : Val) :
    ∃ e, pyGetitem h c key = .error e := by
  unfold pyGetitem
  cases c with
  | str s =>
    have : s = "" := by simpa [emptyScalar] using hc
    subst this
    simp only [strIndex_empty]
    split <;> exact ⟨_, rfl⟩
  | ref a => simp [emptyScalar] at hc
  | _ => exact ⟨_, rfl⟩

theorem applyHandler_scalar {h : Heap} {c : Val} (hc : emptyScalar c = true) (hn : String) (arg : Val) :
    ∃ e, C01.applyHandler h hn c arg = .error e := by
  unfold C01.applyHandler
  split
  · exact pyGetitem_scalar hc arg
  · split
    · unfold pySeqGet
      split
      · exact pyGetitem_scalar hc _
      · exact ⟨_, rfl⟩
    · split
      · exact pyGetattr_scalar (emptyScalar_not_ref hc) arg
      · exact ⟨_, rfl⟩

/-- every access step on `0`, `''`, `None` fails -/
theorem refAccess_scalar {env : MEnv} {h : Heap} {c : Val} (hc : emptyScalar c = true) (op : String)
    (arg : Val) (r : Except PyExc Val) (hr : C01.refAccess env.t h op c arg = some r) :
    ∃ e, r = .error e := by
  unfold C01.refAccess at hr
  split at hr
  · injection hr with hr; subst hr; exact pyGetattr_scalar (emptyScalar_not_ref hc) arg
  · split at hr
    · injection hr with hr; subst hr; exact pyGetitem_scalar hc arg
    · split at hr
      · cases hg : C01.getHandler env.t h c with
        | none => simp [hg] at hr
        | some hn => simp [hg] at hr; subst hr; exact applyHandler_scalar hc hn arg
      · contradiction

theorem children_scalar {env : MEnv} {h : Heap} {c : Val} (hc : ∀ a, c ≠ .ref a) : children env h c = [] := by
  cases c <;> first | rfl | exact absurd rfl (hc _)

theorem isScope_scalar {env : MEnv} {h : Heap} {c : Val} (hc : ∀ a, c ≠ .ref a) : isScope env h c = false := by
  cases c <;> first | rfl | exact absurd rfl (hc _)

/-- nothing can be assigned into a value that is not an object -/
theorem refAssignOp_scalar {env : MEnv} {h : Heap} {op : String} {c arg v : Val} (hc : ∀ a, c ≠ .ref a)
    (w : Wr) : refAssignOp env h op c arg v ≠ some (.ok w) := by
  have h1 : ∀ k, pySetitem env h c k v ≠ .ok w := by
    intro k; unfold pySetitem; cases c <;> first | exact absurd rfl (hc _) | simp
  have h2 : ∀ k, pySetattr env h c k v ≠ .ok w := by
    intro k; unfold pySetattr; cases k <;> cases c <;> first | exact absurd rfl (hc _) | simp
  have h3 : ∀ k, pySetSeqItem env h c k v ≠ .ok w := by
    intro k; unfold pySetSeqItem; split
    · exact h1 _
    · simp
  unfold refAssignOp
  split
  · intro e; injection e with e; exact h1 _ e
  · split
    · intro e; injection e with e; exact h2 _ e
    · split
      · cases hn : nearestHandler env.t.ct env.assignReg (c.clsName h) with
        | none => simp
        | some n =>
          simp only [Option.map_some]
          intro e; injection e with e
          unfold applyAssignHandler at e
          split at e
          · exact h1 _ e
          · split at e
            · exact h3 _ e
            · split at e
              · exact h2 _ e
              · cases e
      · simp

theorem flattenN_nil (n : Nat) : flattenN n [] = .ok [] := by
  induction n with
  | zero => rfl
  | succ n ih => simp [flattenN, flatten1, ih]

theorem rebuilds_congr {h h' : Heap} {v : Val} (hv : ∀ a, v = .ref a → h'[a]? = h[a]?) :
    rebuilds h' v = rebuilds h v := by
  cases v with
  | ref a => simp only [rebuilds, hv a rfl]
  | _ => rfl

end Glom.C11

namespace Glom.C11
open Glom Glom.Mut

/-- `h'` still has every cell of `h` -/
def Pres (h h' : Heap) : Prop := ∀ b, b < h.length → h'[b]? = h[b]?

theorem Pres.refl (h : Heap) : Pres h h := fun _ _ => rfl

theorem Pres.trans {a b c : Heap} (h1 : Pres a b) (h2 : Pres b c) (hl : a.length ≤ b.length) : Pres a c :=
  fun x hx => by rw [h2 x (by omega), h1 x hx]

theorem Pres.append (h : Heap) (ext : List Obj) : Pres h (h ++ ext) :=
  fun b hb => by simp [List.getElem?_append_left hb]

theorem frameAt_pres {h0 h h' : Heap} {a : Nat} (hf : FrameAt h h' (.ref a)) (ha : h0.length ≤ a)
    (hp : Pres h0 h) : Pres h0 h' :=
  fun b hb => by
    rw [hf.2 b (by intro e; injection e with e; omega), hp b hb]

theorem noScope_flag {env : MEnv} (hns : noScope env = true) (c : String) : env.flag c "scope" = false := by
  unfold MEnv.flag
  split
  · rename_i fs hf
    have := List.mem_of_find?_eq_some hf
    simp only [noScope, List.all_eq_true] at hns
    simpa using hns _ this
  · rfl

theorem noScope_isScope {env : MEnv} (hns : noScope env = true) (h : Heap) (c : Val) :
    isScope env h c = false := by
  unfold isScope
  split
  · split
    · exact noScope_flag hns _
    · rfl
  · rfl

theorem fresh_isScope {env : MEnv} (hfs : freshNotScope env = true) {kind : String} {o : Obj}
    (hfo : freshObj kind = some o) {h : Heap} {a : Nat} (ha : h[a]? = some o) :
    isScope env h (.ref a) = false := by
  simp only [freshNotScope, List.all_cons, List.all_nil, Bool.and_true, Bool.and_eq_true,
    Bool.not_eq_true'] at hfs
  simp only [isScope, ha]
  unfold freshObj at hfo
  repeat' split at hfo
  all_goals first
    | contradiction
    | (injection hfo with hfo; subst hfo; simp [Obj.cls, hfs])

/-- the model's `missing` branch: factory call, then the recursive Assign on the fresh object -/
def tailRun (env : MEnv) (sref : Val) (kind : String) (fuel : Nat) (st : St) (rem : List Step) (v : Val) :
    St × Except MErr Val :=
  match callFactory kind st with
  | (st1, .error e) => (st1, .error e)
  | (st1, .ok fresh) => assignAux env false sref (.factory kind) fuel st1 fresh rem (.val v)

/-- the re-spelling table `. ↦ [`, `P ↦ [` is the reading side's first-step magic -/
theorem respellFirst_eq_sMagic (steps : List Step) :
    respellFirst [(".", "["), ("P", "[")] steps = sMagic steps := by
  cases steps with
  | nil => rfl
  | cons s r =>
    obtain ⟨op, arg⟩ := s
    simp only [respellFirst, sMagic, List.find?_cons, List.find?_nil]
    by_cases h1 : op = "."
    · subst h1; simp
    · by_cases h2 : op = "P"
      · subst h2; simp
      · have e1 : ("." == op) = false := by simpa using fun e => h1 e.symm
        have e2 : ("P" == op) = false := by simpa using fun e => h2 e.symm
        simp [e1, e2, h1, h2]

theorem initPath_eq_readSteps (sroot : Bool) (steps : List Step) :
    initPath [(".", "["), ("P", "[")] sroot steps = readSteps sroot steps := by
  cases sroot with
  | false => rfl
  | true => simp only [initPath, readSteps, if_true, respellFirst_eq_sMagic]

end Glom.C11
