import Glom.Lemmas.C11c
/-
  Helper lemmas for C11, part 4: put-get — reading back what was assigned.
-/
namespace Glom.C11
open Glom Glom.Mut

theorem pyKeyEq_refl (k : Val) : pyKeyEq k k = true := by
  cases k <;> simp [pyKeyEq]

theorem dictLookup_setEntry (k v : Val) : ∀ es : List (Val × Val),
    dictLookup (setEntry es k v) k = some v := by
  intro es
  induction es with
  | nil => simp [setEntry, dictLookup, pyKeyEq_refl]
  | cons e r ih =>
    obtain ⟨k', v'⟩ := e
    simp only [setEntry]
    by_cases hk : pyKeyEq k' k = true
    · simp [hk, dictLookup]
    · simp only [hk, Bool.false_eq_true, if_false]
      simp only [dictLookup, List.find?_cons, hk] at ih ⊢
      exact ih

theorem find_setAttr (n : String) (v : Val) : ∀ as : List (String × Val),
    ∃ n', (setAttr as n v).find? (·.1 == n) = some (n', v) := by
  intro as
  induction as with
  | nil => exact ⟨n, by simp [setAttr]⟩
  | cons e r ih =>
    obtain ⟨n', v'⟩ := e
    simp only [setAttr]
    by_cases hk : (n' == n) = true
    · exact ⟨n', by simp [hk]⟩
    · obtain ⟨m, hm⟩ := ih
      exact ⟨m, by simp [hk, hm]⟩

theorem pyIndex_of_pyIdx {α} (xs : List α) (i : Int) (j : Nat) (h : pyIdx xs.length i = some j) :
    pyIndex xs i = xs[j]? := by
  unfold pyIdx at h
  unfold pyIndex
  simp only at h ⊢
  generalize (if i < 0 then i + (xs.length : Int) else i) = m at h ⊢
  split at h
  · contradiction
  · rename_i hneg
    split at h
    · injection h with h; subst h; simp [hneg]
    · contradiction

theorem getElem?_set_self' {h : Heap} {a : Nat} {o o' : Obj} (ha : h[a]? = some o) :
    (h.set a o')[a]? = some o' := by
  have hal : a < h.length := (List.getElem?_eq_some_iff.1 ha).1
  simp [hal]

theorem pySetitem_get {env : MEnv} {h : Heap} {d key v : Val} {w : Wr}
    (hk : ∀ a, key ≠ .ref a)
    (hs : pySetitem env h d key v = .ok w) : pyGetitem w.heap d key = .ok v := by
  unfold pySetitem at hs
  split at hs
  · rename_i a
    split at hs
    · rename_i c es ha
      split at hs
      · contradiction
      · split at hs
        · contradiction
        · rename_i hh
          injection hs with hs; subst hs
          have hh' : key.hashable (h.set a (.dict c (setEntry es key v))) = true := by
            rw [hashable_scalar (h := h) hk]; simpa using hh
          simp only [pyGetitem, getElem?_set_self' ha, hh', if_true, dictLookup_setEntry]
    · rename_i c xs ha
      split at hs
      · contradiction
      · split at hs
        · contradiction
        · rename_i i hi
          split at hs
          · contradiction
          · rename_i j hj
            injection hs with hs; subst hs
            have hjl : j < xs.length := by
              unfold pyIdx at hj
              simp only at hj
              repeat' split at hj
              all_goals first | contradiction | (injection hj with hj; omega)
            have hj' : pyIdx (xs.set j v).length i = some j := by simpa using hj
            simp only [pyGetitem, getElem?_set_self' ha, hi, pyIndex_of_pyIdx _ _ _ hj']
            simp [hjl]
    · contradiction
  · contradiction

theorem pySetattr_get {env : MEnv} {h : Heap} {d name v : Val} {w : Wr}
    (hsc : isScope env h d = false) (hnh : w.hidden = false)
    (hs : pySetattr env h d name v = .ok w) : pyGetattr w.heap d name = .ok v := by
  unfold pySetattr at hs
  split at hs
  · rename_i n
    split at hs
    · rename_i a
      split at hs
      · rename_i c as ha
        split at hs
        · contradiction
        · split at hs
          · contradiction
          · injection hs with hs; subst hs
            obtain ⟨n', hn'⟩ := find_setAttr n v as
            simp only [pyGetattr, getElem?_set_self' ha, hn']
      · rename_i o hno ha
        split at hs
        · rename_i hflag
          simp [isScope, ha, hflag] at hsc
        · split at hs
          · injection hs with hs; subst hs; simp at hnh
          · contradiction
      · contradiction
    · contradiction
  · contradiction

theorem pySetSeqItem_get {env : MEnv} {h : Heap} {d idx v : Val} {w : Wr}
    (hs : pySetSeqItem env h d idx v = .ok w) : pySeqGet w.heap d idx = .ok v := by
  unfold pySetSeqItem at hs
  unfold pySeqGet
  rw [pyInt_congr h w.heap]
  split at hs
  · rename_i i hi
    simp only [hi]
    exact pySetitem_get (by intro a; simp) hs
  · contradiction

end Glom.C11

namespace Glom.C11
open Glom Glom.Mut

/-- with paired registries the `get` handler of an object is the partner of its `assign` handler -/
theorem paired_handler {env : MEnv} (hp : pairedRegs env = true) (h : Heap) (d : Val) (hn : String)
    (ha : nearestHandler env.t.ct env.assignReg (d.clsName h) = some hn) :
    ∃ g, C01.getHandler env.t h d = some g ∧
      ((hn = "setitem" ∧ g = "getitem") ∨ (hn = "_set_sequence_item" ∧ g = "_get_sequence_item") ∨
       (hn = "setattr" ∧ g = "getattr")) := by
  simp only [pairedRegs, Bool.and_eq_true, List.all_eq_true] at hp
  obtain ⟨⟨⟨hsub1, hsub2⟩, hnf⟩, hpair⟩ := hp
  unfold nearestHandler at ha
  unfold C01.getHandler
  generalize env.t.ct.mro (d.clsName h) = mro at ha ⊢
  induction mro with
  | nil => simp at ha
  | cons c cs ih =>
    simp only [List.find?_cons] at ha
    by_cases hc : (env.assignReg.any (·.1 == c)) = true
    · simp only [hc] at ha
      cases hf : env.assignReg.find? (·.1 == c) with
      | none => simp [hf] at ha
      | some p =>
        obtain ⟨pc, ph⟩ := p
        simp only [hf] at ha
        have hpm := List.mem_of_find?_eq_some hf
        have hpc : pc = c := by simpa using List.find?_some hf
        subst hpc
        split at ha
        · contradiction
        · rename_i hnF
          injection ha with ha; subst ha
          have hpp := hpair _ hpm
          simp only at hpp
          cases hg : env.t.getReg.find? (·.1 == pc) with
          | none => simp [hg] at hpp
          | some q =>
            obtain ⟨qc, g⟩ := q
            simp only [hg] at hpp
            have hgm := List.mem_of_find?_eq_some hg
            have hgnf : g ≠ "False" := by simpa using hnf _ hgm
            refine ⟨g, ?_, ?_⟩
            · simp [List.findSome?_cons, hg, hgnf]
            · simp only [Bool.or_eq_true, beq_iff_eq, Bool.and_eq_true] at hpp
              rcases hpp with ((hF | h1) | h2) | h3
              · exact absurd hF (by simpa using hnF)
              · exact .inl h1
              · exact .inr (.inl h2)
              · exact .inr (.inr h3)
    · simp only [hc, Bool.false_eq_true] at ha
      have hgn : env.t.getReg.find? (·.1 == c) = none := by
        rw [List.find?_eq_none]
        intro q hq hqc
        have := hsub2 q hq
        simp only [List.any_eq_true] at this hc
        obtain ⟨p, hp1, hp2⟩ := this
        apply hc
        refine ⟨p, hp1, ?_⟩
        simp only [beq_iff_eq] at hp2 hqc ⊢
        rw [hp2, hqc]
      obtain ⟨g, hg, hpr⟩ := ih ha
      refine ⟨g, ?_, hpr⟩
      simp only [List.findSome?_cons, hgn]
      exact hg

theorem clsName_set {h : Heap} {a : Nat} {o o' : Obj} (ha : h[a]? = some o) (hc : o'.cls = o.cls)
    (x : Val) : Val.clsName (h.set a o') x = Val.clsName h x := by
  cases x with
  | ref b =>
    simp only [Val.clsName]
    by_cases hb : a = b
    · subst hb; rw [getElem?_set_self' ha, ha]; simp [hc]
    · rw [List.getElem?_set_ne hb]
  | _ => rfl

theorem pySetitem_cls {env : MEnv} {h : Heap} {d key v : Val} {w : Wr}
    (hs : pySetitem env h d key v = .ok w) (x : Val) : Val.clsName w.heap x = Val.clsName h x := by
  unfold pySetitem at hs
  repeat' split at hs
  all_goals first
    | contradiction
    | (injection hs with hs; subst hs; first | rfl | (apply clsName_set (by assumption); rfl))

theorem pySetattr_cls {env : MEnv} {h : Heap} {d name v : Val} {w : Wr}
    (hs : pySetattr env h d name v = .ok w) (x : Val) : Val.clsName w.heap x = Val.clsName h x := by
  unfold pySetattr at hs
  repeat' split at hs
  all_goals first
    | contradiction
    | (injection hs with hs; subst hs; first | rfl | (apply clsName_set (by assumption); rfl))

theorem pySetSeqItem_cls {env : MEnv} {h : Heap} {d idx v : Val} {w : Wr}
    (hs : pySetSeqItem env h d idx v = .ok w) (x : Val) : Val.clsName w.heap x = Val.clsName h x := by
  unfold pySetSeqItem at hs
  split at hs
  · exact pySetitem_cls hs x
  · contradiction

/-- **round trip of one step**: after the assignment a step denotes, the access the same step
    denotes reads the assigned value back (unless Python stored it where the cell cannot show it:
    a hidden attribute of a container subclass, an attribute of the scope's ChainMap object — an
    *item* binding `S[name] = v` in the scope frame does read back) -/
theorem refAssign_roundtrip {env : MEnv} (hp : pairedRegs env = true) {h : Heap} {op : String}
    {d arg v : Val} {w : Wr} (hw : C01.wfSteps [(op, arg)] = true) (hk : ∀ a, arg ≠ .ref a)
    (hsc' : isScope env h d = false ∨ op = "[") (hnh : w.hidden = false)
    (hs : refAssignOp env h op d arg v = some (.ok w)) :
    C01.refAccess env.t w.heap op d arg = some (.ok v) := by
  rcases (wfSteps_op hw).1 with rfl | rfl | rfl
  · have hsc : isScope env h d = false := by
      rcases hsc' with h1 | h1
      · exact h1
      · exact absurd h1 (by decide)
    simp only [refAssignOp] at hs
    simp at hs
    simp only [C01.refAccess, beq_self_eq_true, if_true]
    rw [pySetattr_get hsc hnh hs]
  · simp only [refAssignOp, beq_self_eq_true, if_true, Option.some.injEq] at hs
    simp only [C01.refAccess]
    simp
    exact pySetitem_get hk hs
  · have hsc : isScope env h d = false := by
      rcases hsc' with h1 | h1
      · exact h1
      · exact absurd h1 (by decide)
    simp only [refAssignOp] at hs
    simp at hs
    obtain ⟨hn, hnh', hs⟩ := hs
    obtain ⟨g, hg, hpair⟩ := paired_handler hp h d hn hnh'
    simp only [C01.refAccess]
    simp
    have hcls : ∀ x, Val.clsName w.heap x = Val.clsName h x := by
      intro x
      unfold applyAssignHandler at hs
      split at hs
      · exact pySetitem_cls hs x
      · split at hs
        · exact pySetSeqItem_cls hs x
        · split at hs
          · exact pySetattr_cls hs x
          · contradiction
    have hg' : C01.getHandler env.t w.heap d = some g := by
      simp only [C01.getHandler, hcls] at hg ⊢
      exact hg
    refine ⟨g, hg', ?_⟩
    rcases hpair with ⟨rfl, rfl⟩ | ⟨rfl, rfl⟩ | ⟨rfl, rfl⟩
    · simp only [applyAssignHandler, beq_self_eq_true, if_true] at hs
      simp only [C01.applyHandler, beq_self_eq_true, if_true]
      exact pySetitem_get hk hs
    · simp [applyAssignHandler] at hs
      simp [C01.applyHandler]
      exact pySetSeqItem_get hs
    · simp [applyAssignHandler] at hs
      simp [C01.applyHandler]
      exact pySetattr_get hsc hnh hs

end Glom.C11

namespace Glom.C11
open Glom Glom.Mut

/-- a wildcard-free walk depends only on the cells of the objects it visits -/
theorem matchesOf_congr_visits {env : MEnv} {h h' : Heap} :
    ∀ (steps : List Step), hasStar steps = false → argsScalar steps = true →
    ∀ (k : Nat) (cur : Val), (∀ c ∈ visits env h steps cur, ∀ a, c = .ref a → h'[a]? = h[a]?) →
    matchesOf env h' steps k cur = matchesOf env h steps k cur := by
  intro steps
  induction steps with
  | nil => intro _ _ k cur _; rfl
  | cons s r ih =>
    obtain ⟨op, arg⟩ := s
    intro hst has k cur hv
    obtain ⟨hnx, _, hst'⟩ := hasStar_cons hst
    obtain ⟨hk, has'⟩ := argsScalar_cons has
    simp only at hnx hk
    have hcur : ∀ a, cur = .ref a → h'[a]? = h[a]? := hv cur (by simp [visits])
    simp only [matchesOf, hnx, beq_iff_eq, if_false, refAccess_congr hcur hk]
    split
    · cases hr : C01.refAccess env.t h op cur arg with
      | none => rfl
      | some r' =>
        cases r' with
        | error e => rfl
        | ok v =>
          simp only
          apply ih hst' has' (k + 1) v
          intro c hc
          exact hv c (by simp [visits, hr, hc])
    · rfl

/-- a successful wildcard-free prefix, continued -/
theorem matchesOf_append_ok {env : MEnv} {h : Heap} (q : List Step) :
    ∀ (p : List Step), hasStar p = false → ∀ (k : Nat) (cur d : Val),
    matchesOf env h p k cur = .ok [d] →
    matchesOf env h (p ++ q) k cur = matchesOf env h q (k + p.length) d := by
  intro p
  induction p with
  | nil => intro _ k cur d hm; simp only [matchesOf] at hm; injection hm with hm; injection hm with hm; subst hm; simp
  | cons s r ih =>
    obtain ⟨op, arg⟩ := s
    intro hst k cur d hm
    obtain ⟨hnx, _, hst'⟩ := hasStar_cons hst
    simp only at hnx
    simp only [matchesOf, hnx, beq_iff_eq, if_false, List.cons_append] at hm ⊢
    split at hm
    · rename_i hop
      simp only [hop, if_true]
      cases hr : C01.refAccess env.t h op cur arg with
      | none => simp [hr] at hm
      | some r' =>
        cases r' with
        | error e => simp [hr] at hm
        | ok v =>
          simp only [hr] at hm ⊢
          rw [ih hst' (k + 1) v d hm]
          simp only [List.length_cons]
          congr 1
          omega
    · contradiction

end Glom.C11
