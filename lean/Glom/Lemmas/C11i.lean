import Glom.Lemmas.C11h
/-
  Helper lemmas for C11, part 9: the algebra of one step — assigning twice (last wins).
-/
namespace Glom.C11
open Glom Glom.Mut

theorem setEntry_setEntry (k v1 v2 : Val) : ∀ es : List (Val × Val),
    setEntry (setEntry es k v1) k v2 = setEntry es k v2 := by
  intro es
  induction es with
  | nil => simp [setEntry, pyKeyEq_refl]
  | cons e r ih =>
    obtain ⟨k', v'⟩ := e
    simp only [setEntry]
    by_cases hk : pyKeyEq k' k = true
    · simp [hk, setEntry]
    · simp only [hk, Bool.false_eq_true, if_false, setEntry, ih]

theorem setAttr_setAttr (n : String) (v1 v2 : Val) : ∀ as : List (String × Val),
    setAttr (setAttr as n v1) n v2 = setAttr as n v2 := by
  intro as
  induction as with
  | nil => simp [setAttr]
  | cons e r ih =>
    obtain ⟨n', v'⟩ := e
    simp only [setAttr]
    by_cases hk : (n' == n) = true
    · simp [hk, setAttr]
    · simp only [hk, Bool.false_eq_true, if_false, setAttr, ih]

/-- what two successive results of a primitive have in common -/
def SameEffect (w w' : Wr) : Prop := w'.heap = w.heap ∧ w'.hidden = w.hidden

theorem pySetitem_twice {env : MEnv} {h : Heap} {d key v1 : Val} (v2 : Val) {w1 : Wr}
    (hk : ∀ a, key ≠ .ref a) (h1 : pySetitem env h d key v1 = .ok w1) :
    ∃ w2 w2', pySetitem env h d key v2 = .ok w2 ∧ pySetitem env w1.heap d key v2 = .ok w2' ∧
      SameEffect w2 w2' := by
  cases d with
  | ref a =>
    simp only [pySetitem] at h1 ⊢
    cases ho : h[a]? with
    | none => simp [ho] at h1
    | some o =>
      have hal : a < h.length := (List.getElem?_eq_some_iff.1 ho).1
      cases o with
      | dict c es =>
        simp only [ho] at h1 ⊢
        by_cases hf : env.flag c "raise_setitem" = true
        · simp [hf] at h1
        · simp only [hf, Bool.false_eq_true, if_false] at h1 ⊢
          by_cases hh : (!key.hashable h) = true
          · simp [hh] at h1
          · simp only [hh, Bool.false_eq_true, if_false] at h1 ⊢
            injection h1 with h1
            subst h1
            refine ⟨_, { heap := h.set a (.dict c (setEntry es key v2)), cell := some a }, rfl, ?_, rfl, rfl⟩
            simp only [List.getElem?_set_self hal, hf, Bool.false_eq_true, if_false,
              hashable_scalar (h := h) hk, hh, List.set_set, setEntry_setEntry]
      | list c xs =>
        simp only [ho] at h1 ⊢
        by_cases hf : env.flag c "raise_setitem" = true
        · simp [hf] at h1
        · simp only [hf, Bool.false_eq_true, if_false] at h1 ⊢
          cases hi : asIndex key with
          | none => simp [hi] at h1
          | some i =>
            simp only [hi] at h1 ⊢
            cases hj : pyIdx xs.length i with
            | none => simp [hj] at h1
            | some j =>
              simp only [hj] at h1 ⊢
              injection h1 with h1
              subst h1
              refine ⟨_, { heap := h.set a (.list c (xs.set j v2)), cell := some a }, rfl, ?_, rfl, rfl⟩
              simp only [List.getElem?_set_self hal, hf, Bool.false_eq_true, if_false, hi,
                List.length_set, hj, List.set_set]
      | tuple c xs => simp [ho] at h1
      | set c xs => simp [ho] at h1
      | inst c as => simp [ho] at h1
  | _ => simp [pySetitem] at h1

theorem pySetattr_twice {env : MEnv} {h : Heap} {d name v1 : Val} (v2 : Val) {w1 : Wr}
    (h1 : pySetattr env h d name v1 = .ok w1) :
    ∃ w2 w2', pySetattr env h d name v2 = .ok w2 ∧ pySetattr env w1.heap d name v2 = .ok w2' ∧
      SameEffect w2 w2' := by
  cases name with
  | str n =>
    cases d with
    | ref a =>
      simp only [pySetattr] at h1 ⊢
      cases ho : h[a]? with
      | none => simp [ho] at h1
      | some o =>
        have hal : a < h.length := (List.getElem?_eq_some_iff.1 ho).1
        cases o with
        | inst c as =>
          simp only [ho] at h1 ⊢
          by_cases hf : env.flag c "raise_setattr" = true
          · simp [hf] at h1
          · simp only [hf, Bool.false_eq_true, if_false] at h1 ⊢
            by_cases hr : env.flag c ("ro:" ++ n) = true
            · simp [hr] at h1
            · simp only [hr, Bool.false_eq_true, if_false] at h1 ⊢
              injection h1 with h1
              subst h1
              refine ⟨_, { heap := h.set a (.inst c (setAttr as n v2)), cell := some a }, rfl, ?_, rfl, rfl⟩
              simp only [List.getElem?_set_self hal, hf, hr, Bool.false_eq_true, if_false, List.set_set,
                setAttr_setAttr]
        | dict c es =>
          simp only [ho, Obj.cls] at h1 ⊢
          by_cases hs : env.flag c "scope" = true
          · simp only [hs, if_true] at h1 ⊢
            injection h1 with h1; subst h1
            exact ⟨_, _, rfl, by simp [ho, Obj.cls, hs], rfl, rfl⟩
          · simp only [hs, Bool.false_eq_true, if_false] at h1 ⊢
            by_cases hd : env.flag c "has_dict" = true
            · simp only [hd, if_true] at h1 ⊢
              injection h1 with h1; subst h1
              exact ⟨_, _, rfl, by simp [ho, Obj.cls, hs, hd], rfl, rfl⟩
            · simp [hd] at h1
        | list c xs =>
          simp only [ho, Obj.cls] at h1 ⊢
          by_cases hs : env.flag c "scope" = true
          · simp only [hs, if_true] at h1 ⊢
            injection h1 with h1; subst h1
            exact ⟨_, _, rfl, by simp [ho, Obj.cls, hs], rfl, rfl⟩
          · simp only [hs, Bool.false_eq_true, if_false] at h1 ⊢
            by_cases hd : env.flag c "has_dict" = true
            · simp only [hd, if_true] at h1 ⊢
              injection h1 with h1; subst h1
              exact ⟨_, _, rfl, by simp [ho, Obj.cls, hs, hd], rfl, rfl⟩
            · simp [hd] at h1
        | tuple c xs =>
          simp only [ho, Obj.cls] at h1 ⊢
          by_cases hs : env.flag c "scope" = true
          · simp only [hs, if_true] at h1 ⊢
            injection h1 with h1; subst h1
            exact ⟨_, _, rfl, by simp [ho, Obj.cls, hs], rfl, rfl⟩
          · simp only [hs, Bool.false_eq_true, if_false] at h1 ⊢
            by_cases hd : env.flag c "has_dict" = true
            · simp only [hd, if_true] at h1 ⊢
              injection h1 with h1; subst h1
              exact ⟨_, _, rfl, by simp [ho, Obj.cls, hs, hd], rfl, rfl⟩
            · simp [hd] at h1
        | set c xs =>
          simp only [ho, Obj.cls] at h1 ⊢
          by_cases hs : env.flag c "scope" = true
          · simp only [hs, if_true] at h1 ⊢
            injection h1 with h1; subst h1
            exact ⟨_, _, rfl, by simp [ho, Obj.cls, hs], rfl, rfl⟩
          · simp only [hs, Bool.false_eq_true, if_false] at h1 ⊢
            by_cases hd : env.flag c "has_dict" = true
            · simp only [hd, if_true] at h1 ⊢
              injection h1 with h1; subst h1
              exact ⟨_, _, rfl, by simp [ho, Obj.cls, hs, hd], rfl, rfl⟩
            · simp [hd] at h1
    | _ => simp [pySetattr] at h1
  | _ => simp [pySetattr] at h1

theorem pySetSeqItem_twice {env : MEnv} {h : Heap} {d idx v1 : Val} (v2 : Val) {w1 : Wr}
    (h1 : pySetSeqItem env h d idx v1 = .ok w1) :
    ∃ w2 w2', pySetSeqItem env h d idx v2 = .ok w2 ∧ pySetSeqItem env w1.heap d idx v2 = .ok w2' ∧
      SameEffect w2 w2' := by
  simp only [pySetSeqItem, pyInt_congr h w1.heap] at h1 ⊢
  cases hi : pyInt h idx with
  | error e => simp [hi] at h1
  | ok i =>
    simp only [hi] at h1 ⊢
    exact pySetitem_twice v2 (by intro a; simp) h1

/-- **assigning twice at one step: the last value wins** — the second assignment succeeds whenever
    the first did and leaves the heap of a single assignment of the second value -/
theorem refAssignOp_twice {env : MEnv} {h : Heap} {op : String} {d arg v1 : Val} (v2 : Val) {w1 : Wr}
    (hk : ∀ a, arg ≠ .ref a) (h1 : refAssignOp env h op d arg v1 = some (.ok w1)) :
    ∃ w2 w2', refAssignOp env h op d arg v2 = some (.ok w2) ∧
      refAssignOp env w1.heap op d arg v2 = some (.ok w2') ∧ SameEffect w2 w2' := by
  unfold refAssignOp at h1 ⊢
  split at h1
  · rename_i hop
    injection h1 with h1
    obtain ⟨w2, w2', e1, e2, e3⟩ := pySetitem_twice v2 hk h1
    exact ⟨w2, w2', by simp [hop, e1], by simp [hop, e2], e3⟩
  · split at h1
    · rename_i hop1 hop
      injection h1 with h1
      obtain ⟨w2, w2', e1, e2, e3⟩ := pySetattr_twice v2 h1
      exact ⟨w2, w2', by simp [hop1, hop, e1], by simp [hop1, hop, e2], e3⟩
    · split at h1
      · rename_i hop1 hop2 hop
        cases hn : nearestHandler env.t.ct env.assignReg (d.clsName h) with
        | none => simp [hn] at h1
        | some n =>
          simp only [hn, Option.map_some] at h1
          injection h1 with h1
          have hcls : ∀ x, Val.clsName w1.heap x = Val.clsName h x := by
            intro x
            unfold applyAssignHandler at h1
            split at h1
            · exact pySetitem_cls h1 x
            · split at h1
              · exact pySetSeqItem_cls h1 x
              · split at h1
                · exact pySetattr_cls h1 x
                · contradiction
          simp only [hop1, hop2, hop, if_false, if_true, hcls, hn, Option.map_some, Bool.false_eq_true]
          unfold applyAssignHandler at h1 ⊢
          by_cases c1 : (n == "setitem") = true
          · simp only [c1, if_true] at h1 ⊢
            obtain ⟨w2, w2', e1, e2, e3⟩ := pySetitem_twice v2 hk h1
            exact ⟨w2, w2', by rw [e1], by rw [e2], e3⟩
          · simp only [c1, Bool.false_eq_true, if_false] at h1 ⊢
            by_cases c2 : (n == "_set_sequence_item") = true
            · simp only [c2, if_true] at h1 ⊢
              obtain ⟨w2, w2', e1, e2, e3⟩ := pySetSeqItem_twice v2 h1
              exact ⟨w2, w2', by rw [e1], by rw [e2], e3⟩
            · simp only [c2, Bool.false_eq_true, if_false] at h1 ⊢
              by_cases c3 : (n == "setattr") = true
              · simp only [c3, if_true] at h1 ⊢
                obtain ⟨w2, w2', e1, e2, e3⟩ := pySetattr_twice v2 h1
                exact ⟨w2, w2', by rw [e1], by rw [e2], e3⟩
              · simp [c3] at h1
      · contradiction

end Glom.C11
