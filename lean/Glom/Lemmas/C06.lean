import Glom.Spec.C06
namespace Glom.C06

variable {P H O R : Type}

theorem assocGet_mem {K V : Type} [BEq K] [LawfulBEq K] {l : List (K × V)} {k : K} {v : V}
    (h : assocGet l k = some v) : (k, v) ∈ l := by
  unfold assocGet at h
  cases hf : l.find? (·.1 == k) with
  | none => simp [hf] at h
  | some e =>
    simp [hf] at h
    have hm := List.mem_of_find?_eq_some hf
    have hk := List.find?_some hf
    simp at hk
    obtain ⟨a, b⟩ := e
    simp at hk h
    subst hk; subst h
    exact hm

theorem get_set_same (c : PathCache P) (b : Bool) (l) : (c.set b l).get b = l := by
  cases b <;> simp [PathCache.get, PathCache.set]

theorem get_set_other (c : PathCache P) (b b' : Bool) (l) (h : b' ≠ b) : (c.set b l).get b' = c.get b' := by
  cases b <;> cases b' <;> simp_all [PathCache.get, PathCache.set]

theorem fromText_spec (parse : Bool → String → P) (maxCache : Nat) (star : Bool) (c : PathCache P)
    (text : String) (hinv : PathInv parse c) :
    (fromText parse maxCache star c text).1 = parse star text ∧
    PathInv parse (fromText parse maxCache star c text).2 := by
  unfold fromText
  simp only
  cases hg : assocGet (c.get star) text with
  | some p =>
    simp only
    exact ⟨hinv star text p (assocGet_mem hg), hinv⟩
  | none =>
    simp only
    split
    · exact ⟨rfl, hinv⟩
    · refine ⟨rfl, ?_⟩
      intro b k v hm
      by_cases hb : b = star
      · subst hb
        rw [get_set_same] at hm
        simp only [List.mem_cons, Prod.mk.injEq] at hm
        rcases hm with ⟨rfl, rfl⟩ | hm
        · rfl
        · exact hinv b k v hm
      · rw [get_set_other _ _ _ _ hb] at hm
        exact hinv b k v hm

theorem fromText_size (parse : Bool → String → P) (maxCache : Nat) (star : Bool) (c : PathCache P)
    (text : String) (hs : SizeOK maxCache c) : SizeOK maxCache (fromText parse maxCache star c text).2 := by
  unfold fromText
  simp only
  cases assocGet (c.get star) text with
  | some p => exact hs
  | none =>
    simp only
    split
    · exact hs
    · rename_i hlen
      intro b
      by_cases hb : b = star
      · subst hb; rw [get_set_same]; simp; omega
      · rw [get_set_other _ _ _ _ hb]; exact hs b

theorem getHandler_spec (compute : String × String → Option H) (hc : HCache H) (key : String × String)
    (hinv : HInv compute hc) :
    (getHandler compute hc key).1 = compute key ∧ HInv compute (getHandler compute hc key).2 := by
  unfold getHandler
  cases hg : assocGet hc key with
  | some h =>
    simp only
    exact ⟨(hinv key h (assocGet_mem hg)).symm, hinv⟩
  | none =>
    simp only
    cases hcmp : compute key with
    | none => exact ⟨rfl, hinv⟩
    | some h =>
      refine ⟨rfl, ?_⟩
      intro k h' hm
      simp only [List.mem_cons, Prod.mk.injEq] at hm
      rcases hm with ⟨rfl, rfl⟩ | hm
      · exact hcmp
      · exact hinv k h' hm

/-- a call run against the caches answers exactly like the cache-free run, and keeps the invariant -/
theorem runCached_spec (parse : Bool → String → P) (compute : R → String × String → Option H) (maxCache : Nat)
    (strat : Strategy P H O) :
    ∀ (fuel : Nat) (w : World P H R) (answers : List (Answer P H)), WorldInv parse compute w →
      (runCached parse compute maxCache strat fuel w answers).1 =
        runPure parse compute strat w.pathStar w.reg fuel answers ∧
      WorldInv parse compute (runCached parse compute maxCache strat fuel w answers).2 ∧
      (runCached parse compute maxCache strat fuel w answers).2.pathStar = w.pathStar ∧
      (runCached parse compute maxCache strat fuel w answers).2.reg = w.reg := by
  intro fuel
  induction fuel with
  | zero => intro w answers hinv; exact ⟨rfl, hinv, rfl, rfl⟩
  | succ fuel ih =>
    intro w answers hinv
    simp only [runCached, runPure]
    cases hs : strat answers with
    | inr o => exact ⟨rfl, hinv, rfl, rfl⟩
    | inl q =>
      cases q with
      | path text =>
        have hf := fromText_spec parse maxCache w.pathStar w.pc text hinv.1
        simp only
        rcases hft : fromText parse maxCache w.pathStar w.pc text with ⟨p, pc'⟩
        rw [hft] at hf
        simp only at hf ⊢
        obtain ⟨hp, hinv'⟩ := hf
        subst hp
        exact ih { w with pc := pc' } _ ⟨hinv', hinv.2⟩
      | handler ty op =>
        have hg := getHandler_spec (compute w.reg) w.hc (ty, op) hinv.2
        simp only
        rcases hgt : getHandler (compute w.reg) w.hc (ty, op) with ⟨h, hc'⟩
        rw [hgt] at hg
        simp only at hg ⊢
        obtain ⟨hh, hinv'⟩ := hg
        subst hh
        exact ih { w with hc := hc' } _ ⟨hinv.1, hinv'⟩

theorem stepWorld_inv (parse : Bool → String → P) (compute : R → String × String → Option H) (maxCache : Nat)
    (w : World P H R) (op : HOp P H O R) (hinv : WorldInv parse compute w) :
    WorldInv parse compute (stepWorld parse compute maxCache w op).2 := by
  cases op with
  | call strat fuel => exact (runCached_spec parse compute maxCache strat fuel w [] hinv).2.1
  | setStar b => exact hinv
  | register f => exact ⟨hinv.1, by intro k h hm; cases hm⟩

end Glom.C06
