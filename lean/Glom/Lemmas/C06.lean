import Glom.Spec.C06
namespace Glom.C06

variable {P H O R : Type}

theorem assocGet_mem {K V : Type} [BEq K] [LawfulBEq K] {l : List (K × V)} {k : K} {v : V}
    (h : assocGet l k = some v) : (k, v) ∈ l := by
  unfold assocGet at h
  cases hf : l.find? (·.1 == k) with
  | none => simp [hf] at h
  | some e =>
    simp [hf] at h
    have hm := List.mem_of_find?_eq_some hf
    have hk := List.find?_some hf
    simp at hk
    obtain ⟨a, b⟩ := e
    simp at hk h
    subst hk; subst h
    exact hm

theorem get_set_same (c : PathCache P) (b : Bool) (l) : (c.set b l).get b = l := by
  cases b <;> simp [PathCache.get, PathCache.set]

theorem get_set_other (c : PathCache P) (b b' : Bool) (l) (h : b' ≠ b) : (c.set b l).get b' = c.get b' := by
  cases b <;> cases b' <;> simp_all [PathCache.get, PathCache.set]

theorem fromText_spec (parse : Bool → String → P) (maxCache : Nat) (star : Bool) (c : PathCache P)
    (text : String) (hinv : PathInv parse c) :
    (fromText parse maxCache star c text).1 = parse star text ∧
    PathInv parse (fromText parse maxCache star c text).2 := by
  unfold fromText
  simp only
  cases hg : assocGet (c.get star) text with
  | some p =>
    simp only
    exact ⟨hinv star text p (assocGet_mem hg), hinv⟩
  | none =>
    simp only
    split
    · exact ⟨rfl, hinv⟩
    · refine ⟨rfl, ?_⟩
      intro b k v hm
      by_cases hb : b = star
      · subst hb
        rw [get_set_same] at hm
        simp only [List.mem_cons, Prod.mk.injEq] at hm
        rcases hm with ⟨rfl, rfl⟩ | hm
        · rfl
        · exact hinv b k v hm
      · rw [get_set_other _ _ _ _ hb] at hm
        exact hinv b k v hm

theorem fromText_size (parse : Bool → String → P) (maxCache : Nat) (star : Bool) (c : PathCache P)
    (text : String) (hs : SizeOK maxCache c) : SizeOK maxCache (fromText parse maxCache star c text).2 := by
  unfold fromText
  simp only
  cases assocGet (c.get star) text with
  | some p => exact hs
  | none =>
    simp only
    split
    · exact hs
    · rename_i hlen
      intro b
      by_cases hb : b = star
      · subst hb; rw [get_set_same]; simp; omega
      · rw [get_set_other _ _ _ _ hb]; exact hs b

theorem getHandler_spec (compute : String × String → Option H) (hc : HCache H) (key : String × String)
    (hinv : HInv compute hc) :
    (getHandler compute hc key).1 = compute key ∧ HInv compute (getHandler compute hc key).2 := by
  unfold getHandler
  cases hg : assocGet hc key with
  | some h =>
    simp only
    exact ⟨(hinv key h (assocGet_mem hg)).symm, hinv⟩
  | none =>
    simp only
    cases hcmp : compute key with
    | none => exact ⟨rfl, hinv⟩
    | some h =>
      refine ⟨rfl, ?_⟩
      intro k h' hm
      simp only [List.mem_cons, Prod.mk.injEq] at hm
      rcases hm with ⟨rfl, rfl⟩ | hm
      · exact hcmp
      · exact hinv k h' hm

theorem setAt_same {α : Type} (f : Nat → α) (i : Nat) (x : α) : setAt f i x i = x := by
  simp [setAt]

theorem setAt_other {α : Type} (f : Nat → α) (i j : Nat) (x : α) (h : j ≠ i) : setAt f i x j = f j := by
  simp [setAt, h]

/-- a call run against the caches answers exactly like the cache-free run, and keeps the invariant -/
theorem runCached_spec (parse : Bool → String → P) (compute : R → String × String → Option H) (maxCache : Nat)
    (strat : Strategy P H O) :
    ∀ (fuel : Nat) (w : World P H R) (answers : List (Answer P H)), WorldInv parse compute w →
      (runCached parse compute maxCache strat fuel w answers).1 =
        runPure parse compute strat w.pathStar w.reg fuel answers ∧
      WorldInv parse compute (runCached parse compute maxCache strat fuel w answers).2 ∧
      (runCached parse compute maxCache strat fuel w answers).2.pathStar = w.pathStar ∧
      (runCached parse compute maxCache strat fuel w answers).2.reg = w.reg := by
  intro fuel
  induction fuel with
  | zero => intro w answers hinv; exact ⟨rfl, hinv, rfl, rfl⟩
  | succ fuel ih =>
    intro w answers hinv
    simp only [runCached, runPure]
    cases hs : strat answers with
    | inr o => exact ⟨rfl, hinv, rfl, rfl⟩
    | inl q =>
      cases q with
      | path text =>
        have hf := fromText_spec parse maxCache w.pathStar w.pc text hinv.1
        simp only
        rcases hft : fromText parse maxCache w.pathStar w.pc text with ⟨p, pc'⟩
        rw [hft] at hf
        simp only at hf ⊢
        obtain ⟨hp, hinv'⟩ := hf
        subst hp
        exact ih { w with pc := pc' } _ ⟨hinv', hinv.2⟩
      | handler rg ty op =>
        have hg := getHandler_spec (compute (w.reg rg)) (w.hc rg) (ty, op) (hinv.2 rg)
        simp only
        rcases hgt : getHandler (compute (w.reg rg)) (w.hc rg) (ty, op) with ⟨h, hc'⟩
        rw [hgt] at hg
        simp only at hg ⊢
        obtain ⟨hh, hinv'⟩ := hg
        subst hh
        refine ih { w with hc := setAt w.hc rg hc' } _ ⟨hinv.1, ?_⟩
        intro rg'
        by_cases hr : rg' = rg
        · subst hr; simp only [setAt_same]; exact hinv'
        · simp only [setAt_other _ _ _ _ hr]; exact hinv.2 rg'

theorem stepWorld_inv (parse : Bool → String → P) (compute : R → String × String → Option H) (maxCache : Nat)
    (w : World P H R) (op : HOp P H O R) (hinv : WorldInv parse compute w) :
    WorldInv parse compute (stepWorld parse compute maxCache w op).2 := by
  cases op with
  | call strat fuel => exact (runCached_spec parse compute maxCache strat fuel w [] hinv).2.1
  | setStar b => exact hinv
  | register rg f =>
    refine ⟨hinv.1, ?_⟩
    intro rg'
    simp only [stepWorld]
    by_cases hr : rg' = rg
    · subst hr; simp only [setAt_same]; intro k h hm; cases hm
    · simp only [setAt_other _ _ _ _ hr]; exact hinv.2 rg'

/-! ### the concrete registry -/

theorem assocGet_append {K V : Type} [BEq K] (a b : List (K × V)) (k : K) :
    assocGet (a ++ b) k = (assocGet a k).or (assocGet b k) := by
  unfold assocGet
  rw [List.find?_append]
  cases a.find? (·.1 == k) <;> simp

theorem assocGet_newEntries_other (entries : List ((String × String) × Tag)) (ty : String)
    (kw : List (String × Tag)) (c op : String) (h : c ≠ ty) :
    assocGet (newEntries entries ty kw) (c, op) = none := by
  unfold assocGet newEntries
  rw [List.find?_map]
  have : List.find? ((fun x : (String × String) × Tag => x.1 == (c, op)) ∘
      fun op => ((ty, op), pickTag entries ty kw op)) (regOps kw) = none := by
    rw [List.find?_eq_none]
    intro x _
    simp only [Function.comp, beq_iff_eq, Prod.mk.injEq]
    intro hh
    exact h hh.1.symm
  rw [this]; rfl

theorem assocGet_newEntries_same (entries : List ((String × String) × Tag)) (ty : String)
    (kw : List (String × Tag)) (op : String) (hop : op ∈ regOps kw) :
    assocGet (newEntries entries ty kw) (ty, op) = some (pickTag entries ty kw op) := by
  unfold assocGet newEntries
  rw [List.find?_map]
  generalize regOps kw = ops at hop
  induction ops with
  | nil => cases hop
  | cons o os ih =>
    by_cases ho : o = op
    · subst ho; simp [List.find?, Function.comp]
    · have hmem : op ∈ os := by
        rcases List.mem_cons.mp hop with h | h
        · exact absurd h.symm ho
        · exact h
      have hne : ((ty, o) == (ty, op)) = false := by simp [ho]
      simp only [List.find?, Function.comp, hne]
      exact ih hmem

theorem mem_regOps_of_kw (kw : List (String × Tag)) (op : String) (h : Tag) (hk : assocGet kw op = some h) :
    op ∈ regOps kw := by
  unfold regOps
  rw [List.mem_eraseDups]
  apply List.mem_append_left
  have hm := assocGet_mem hk
  exact List.mem_map.mpr ⟨(op, h), hm, rfl⟩

/-- after `register(X, op=h)`, a type whose nearest registered base (for `op`) is `X` resolves to `h` -/
theorem firstRegistered_register (entries : List ((String × String) × Tag)) (X : String)
    (kw : List (String × Tag)) (op : String) (h : Tag) (hk : assocGet kw op = some h) :
    ∀ (mro : List String), X ∈ mro →
      (∀ c, c ∈ mro.takeWhile (· != X) → assocGet entries (c, op) = none) →
      firstRegistered (newEntries entries X kw ++ entries) op mro = some h := by
  intro mro
  induction mro with
  | nil => intro hx; cases hx
  | cons c cs ih =>
    intro hx hbefore
    by_cases hc : c = X
    · subst hc
      simp only [firstRegistered, assocGet_append]
      rw [assocGet_newEntries_same _ _ _ _ (mem_regOps_of_kw kw op h hk)]
      simp [pickTag, hk]
    · have hne : (c != X) = true := by simp [hc]
      have hnone : assocGet entries (c, op) = none := by
        apply hbefore c
        simp [List.takeWhile, hne]
      simp only [firstRegistered, assocGet_append, assocGet_newEntries_other _ _ _ _ _ hc, hnone, Option.or]
      apply ih
      · rcases List.mem_cons.mp hx with h1 | h1
        · exact absurd h1.symm hc
        · exact h1
      · intro c' hc'
        apply hbefore c'
        simp only [List.takeWhile, hne]
        exact List.mem_cons_of_mem _ hc'

/-! ### wildcard traversal -/

/-- a strategy given by a state machine over the answers (`out (answers.foldl step s0)`), run
    without caches, directly on the state -/
def runSt {S : Type} (parse : Bool → String → P) (compute : R → String × String → Option H)
    (out : S → Sum Query O) (step : S → Answer P H → S) (star : Bool) (reg : Nat → R) : Nat → S → Option O
  | 0, _ => none
  | fuel + 1, s =>
    match out s with
    | .inr o => some o
    | .inl (.path text) => runSt parse compute out step star reg fuel (step s (.path (parse star text)))
    | .inl (.handler rg ty op) =>
      runSt parse compute out step star reg fuel (step s (.handler (compute (reg rg) (ty, op))))

theorem runPure_fold {S : Type} (parse : Bool → String → P) (compute : R → String × String → Option H)
    (out : S → Sum Query O) (step : S → Answer P H → S) (s0 : S) (star : Bool) (reg : Nat → R) :
    ∀ (fuel : Nat) (answers : List (Answer P H)),
      runPure parse compute (fun a => out (a.foldl step s0)) star reg fuel answers =
        runSt parse compute out step star reg fuel (answers.foldl step s0) := by
  intro fuel
  induction fuel with
  | zero => intro answers; rfl
  | succ fuel ih =>
    intro answers
    simp only [runPure, runSt]
    cases hq : out (answers.foldl step s0) with
    | inr o => rfl
    | inl q =>
      cases q with
      | path text => simp only; rw [ih]; simp [List.foldl_append]
      | handler rg ty op => simp only; rw [ih]; simp [List.foldl_append]

/-- from the first lookup of an item, the traversal finds for every remaining item what
    `childUse` says, in order -/
theorem runSt_star (parse : Bool → String → P) (compute : R → String × String → Option H) (star : Bool)
    (reg : Nat → R) (rg : Nat) :
    ∀ (tys : List String) (acc : List (StarUse H)) (fuel : Nat), 3 * tys.length + 1 ≤ fuel →
      runSt parse compute (starOut rg) (starStep (P := P)) star reg fuel ⟨tys, .keys, acc⟩ =
        some (acc.reverse ++ tys.map (childUse (compute (reg rg)))) := by
  intro tys
  induction tys with
  | nil =>
    intro acc fuel hf
    obtain ⟨f, rfl⟩ : ∃ f, fuel = f + 1 := ⟨fuel - 1, by omega⟩
    simp [runSt, starOut]
  | cons ty rest ih =>
    intro acc fuel hf
    obtain ⟨f, rfl⟩ : ∃ f, fuel = f + 3 := ⟨fuel - 3, by simp only [List.length_cons] at hf; omega⟩
    simp only [List.length_cons] at hf
    simp only [List.map_cons, childUse]
    cases hk : compute (reg rg) (ty, "keys") with
    | some k =>
      rw [runSt]; simp only [starOut, starStep, hk]
      cases hg : compute (reg rg) (ty, "get") with
      | some g =>
        rw [runSt]; simp only [starOut, starStep, hg]
        rw [ih _ (f + 1) (by omega)]; simp
      | none =>
        rw [runSt]; simp only [starOut, starStep, hg]
        cases hi : compute (reg rg) (ty, "iterate") with
        | some i =>
          rw [runSt]; simp only [starOut, starStep, hi]
          rw [ih _ f (by omega)]; simp
        | none =>
          rw [runSt]; simp only [starOut, starStep, hi]
          rw [ih _ f (by omega)]; simp
    | none =>
      rw [runSt]; simp only [starOut, starStep, hk]
      cases hi : compute (reg rg) (ty, "iterate") with
      | some i =>
        rw [runSt]; simp only [starOut, starStep, hi]
        rw [ih _ (f + 1) (by omega)]; simp
      | none =>
        rw [runSt]; simp only [starOut, starStep, hi]
        rw [ih _ (f + 1) (by omega)]; simp

/-- a wildcard call without caches: per visited item, the handlers of the uncached lookups -/
theorem runPure_star (parse : Bool → String → P) (compute : R → String × String → Option H) (star : Bool)
    (reg : Nat → R) (rg : Nat) (tys : List String) (fuel : Nat) (hf : starFuel tys ≤ fuel) :
    runPure parse compute (starStrategy rg tys) star reg fuel [] =
      some (tys.map (childUse (compute (reg rg)))) := by
  unfold starStrategy
  rw [runPure_fold parse compute (starOut rg) (starStep (P := P)) ⟨tys, .keys, []⟩ star reg fuel []]
  simp only [List.foldl_nil]
  rw [runSt_star parse compute star reg rg tys [] fuel hf]
  simp

theorem refHistory_append_call (parse : Bool → String → P) (compute : R → String × String → Option H)
    (strat : Strategy P H O) (fuel : Nat) :
    ∀ (before : List (HOp P H O R)) (star : Bool) (reg : Nat → R),
      refHistory parse compute star reg (before ++ [.call strat fuel]) =
        refHistory parse compute star reg before ++
          [runPure parse compute strat (starAfter star before) (regsAfter reg before) fuel []] := by
  intro before
  induction before with
  | nil => intro star reg; simp [refHistory, starAfter, regsAfter]
  | cons op rest ih =>
    intro star reg
    cases op with
    | call s f => simp only [List.cons_append, refHistory, starAfter, regsAfter, ih]
    | setStar b => simp only [List.cons_append, refHistory, starAfter, regsAfter, ih]
    | register rg f => simp only [List.cons_append, refHistory, starAfter, regsAfter, ih]

/-! ### `Vars` on the heap -/

theorem hSet_length {V : Type} (h : VHeap V) (a : Nat) (d : VDict V) : (hSet h a d).length = h.length := by
  induction h generalizing a with
  | nil => rfl
  | cons x r ih => cases a <;> simp [hSet, ih]

theorem hSet_getD_same {V : Type} (h : VHeap V) (a : Nat) (d : VDict V) (ha : a < h.length) :
    (hSet h a d).getD a [] = d := by
  induction h generalizing a with
  | nil => cases ha
  | cons x r ih =>
    cases a with
    | zero => simp [hSet]
    | succ n =>
      simp only [hSet, List.getD_cons_succ]
      exact ih n (by simpa using ha)

theorem hSet_getD_other {V : Type} (h : VHeap V) (a b : Nat) (d : VDict V) (hb : b ≠ a) :
    (hSet h a d).getD b [] = h.getD b [] := by
  induction h generalizing a b with
  | nil => rfl
  | cons x r ih =>
    cases a with
    | zero =>
      cases b with
      | zero => exact absurd rfl hb
      | succ m => simp [hSet]
    | succ n =>
      cases b with
      | zero => simp [hSet]
      | succ m =>
        simp only [hSet, List.getD_cons_succ]
        exact ih n m (by omega)

/-- the reads / writes of an evaluation touch the object at `a` only, and read what a value-level
    dict would give -/
theorem runVOps_spec {V : Type} (ops : List (VOp V)) :
    ∀ (h : VHeap V) (a : Nat), a < h.length →
      (runVOps h a ops).2 = runVOpsPure (h.getD a []) ops ∧
      (runVOps h a ops).1.length = h.length ∧
      ∀ b, b ≠ a → (runVOps h a ops).1.getD b [] = h.getD b [] := by
  induction ops with
  | nil => intro h a _; exact ⟨rfl, rfl, fun _ _ => rfl⟩
  | cons op rest ih =>
    intro h a ha
    cases op with
    | write n v =>
      simp only [runVOps, runVOpsPure]
      have ha' : a < (hSet h a (dSet (h.getD a []) n v)).length := by rw [hSet_length]; exact ha
      obtain ⟨h1, h2, h3⟩ := ih (hSet h a (dSet (h.getD a []) n v)) a ha'
      refine ⟨?_, ?_, ?_⟩
      · rw [h1, hSet_getD_same _ _ _ ha]
      · rw [h2, hSet_length]
      · intro b hb; rw [h3 b hb, hSet_getD_other _ _ _ _ hb]
    | read n =>
      simp only [runVOps, runVOpsPure]
      obtain ⟨h1, h2, h3⟩ := ih h a ha
      exact ⟨by rw [h1], h2, h3⟩

end Glom.C06
