import Glom.Spec.C06
import Glom.Spec.C06Heap
namespace Glom.C06

variable {P H O R : Type}

theorem assocGet_mem {K V : Type} [BEq K] [LawfulBEq K] {l : List (K × V)} {k : K} {v : V}
    (h : assocGet l k = some v) : (k, v) ∈ l := by
  unfold assocGet at h
  cases hf : l.find? (·.1 == k) with
  | none => simp [hf] at h
  | some e =>
    simp [hf] at h
    have hm := List.mem_of_find?_eq_some hf
    have hk := List.find?_some hf
    simp at hk
    obtain ⟨a, b⟩ := e
    simp at hk h
    subst hk; subst h
    exact hm

theorem get_set_same (c : PathCache P) (b : Bool) (l) : (c.set b l).get b = l := by
  cases b <;> simp [PathCache.get, PathCache.set]

theorem get_set_other (c : PathCache P) (b b' : Bool) (l) (h : b' ≠ b) : (c.set b l).get b' = c.get b' := by
  cases b <;> cases b' <;> simp_all [PathCache.get, PathCache.set]

theorem fromText_spec (parse : Bool → String → P) (maxCache : Nat) (star : Bool) (c : PathCache P)
    (text : String) (hinv : PathInv parse c) :
    (fromText parse maxCache star c text).1 = parse star text ∧
    PathInv parse (fromText parse maxCache star c text).2 := by
  unfold fromText
  simp only
  cases hg : assocGet (c.get star) text with
  | some p =>
    simp only
    exact ⟨hinv star text p (assocGet_mem hg), hinv⟩
  | none =>
    simp only
    split
    · exact ⟨rfl, hinv⟩
    · refine ⟨rfl, ?_⟩
      intro b k v hm
      by_cases hb : b = star
      · subst hb
        rw [get_set_same] at hm
        simp only [List.mem_cons, Prod.mk.injEq] at hm
        rcases hm with ⟨rfl, rfl⟩ | hm
        · rfl
        · exact hinv b k v hm
      · rw [get_set_other _ _ _ _ hb] at hm
        exact hinv b k v hm

theorem fromText_size (parse : Bool → String → P) (maxCache : Nat) (star : Bool) (c : PathCache P)
    (text : String) (hs : SizeOK maxCache c) : SizeOK maxCache (fromText parse maxCache star c text).2 := by
  unfold fromText
  simp only
  cases assocGet (c.get star) text with
  | some p => exact hs
  | none =>
    simp only
    split
    · exact hs
    · rename_i hlen
      intro b
      by_cases hb : b = star
      · subst hb; rw [get_set_same]; simp; omega
      · rw [get_set_other _ _ _ _ hb]; exact hs b

theorem getHandler_spec (compute : String × String → Option H) (hc : HCache H) (key : String × String)
    (hinv : HInv compute hc) :
    (getHandler compute hc key).1 = compute key ∧ HInv compute (getHandler compute hc key).2 := by
  unfold getHandler
  cases hg : assocGet hc key with
  | some h =>
    simp only
    exact ⟨(hinv key h (assocGet_mem hg)).symm, hinv⟩
  | none =>
    simp only
    cases hcmp : compute key with
    | none => exact ⟨rfl, hinv⟩
    | some h =>
      refine ⟨rfl, ?_⟩
      intro k h' hm
      simp only [List.mem_cons, Prod.mk.injEq] at hm
      rcases hm with ⟨rfl, rfl⟩ | hm
      · exact hcmp
      · exact hinv k h' hm

theorem setAt_same {α : Type} (f : Nat → α) (i : Nat) (x : α) : setAt f i x i = x := by
  simp [setAt]

theorem setAt_other {α : Type} (f : Nat → α) (i j : Nat) (x : α) (h : j ≠ i) : setAt f i x j = f j := by
  simp [setAt, h]

/-- a call run against the caches answers exactly like the cache-free run, and keeps the invariant -/
theorem runCached_spec (parse : Bool → String → P) (compute : R → String × String → Option H) (maxCache : Nat)
    (strat : Strategy P H O) :
    ∀ (fuel : Nat) (w : World P H R) (answers : List (Answer P H)), WorldInv parse compute w →
      (runCached parse compute maxCache strat fuel w answers).1 =
        runPure parse compute strat w.pathStar w.reg fuel answers ∧
      WorldInv parse compute (runCached parse compute maxCache strat fuel w answers).2 ∧
      (runCached parse compute maxCache strat fuel w answers).2.pathStar = w.pathStar ∧
      (runCached parse compute maxCache strat fuel w answers).2.reg = w.reg := by
  intro fuel
  induction fuel with
  | zero => intro w answers hinv; exact ⟨rfl, hinv, rfl, rfl⟩
  | succ fuel ih =>
    intro w answers hinv
    simp only [runCached, runPure]
    cases hs : strat answers with
    | inr o => exact ⟨rfl, hinv, rfl, rfl⟩
    | inl q =>
      cases q with
      | path text =>
        have hf := fromText_spec parse maxCache w.pathStar w.pc text hinv.1
        simp only
        rcases hft : fromText parse maxCache w.pathStar w.pc text with ⟨p, pc'⟩
        rw [hft] at hf
        simp only at hf ⊢
        obtain ⟨hp, hinv'⟩ := hf
        subst hp
        exact ih { w with pc := pc' } _ ⟨hinv', hinv.2⟩
      | handler rg ty op =>
        have hg := getHandler_spec (compute (w.reg rg)) (w.hc rg) (ty, op) (hinv.2 rg)
        simp only
        rcases hgt : getHandler (compute (w.reg rg)) (w.hc rg) (ty, op) with ⟨h, hc'⟩
        rw [hgt] at hg
        simp only at hg ⊢
        obtain ⟨hh, hinv'⟩ := hg
        subst hh
        refine ih { w with hc := setAt w.hc rg hc' } _ ⟨hinv.1, ?_⟩
        intro rg'
        by_cases hr : rg' = rg
        · subst hr; simp only [setAt_same]; exact hinv'
        · simp only [setAt_other _ _ _ _ hr]; exact hinv.2 rg'

theorem stepWorld_inv (parse : Bool → String → P) (compute : R → String × String → Option H) (maxCache : Nat)
    (w : World P H R) (op : HOp P H O R) (hinv : WorldInv parse compute w) :
    WorldInv parse compute (stepWorld parse compute maxCache w op).2 := by
  cases op with
  | call strat fuel => exact (runCached_spec parse compute maxCache strat fuel w [] hinv).2.1
  | setStar b => exact hinv
  | register rg f =>
    refine ⟨hinv.1, ?_⟩
    intro rg'
    simp only [stepWorld]
    by_cases hr : rg' = rg
    · subst hr; simp only [setAt_same]; intro k h hm; cases hm
    · simp only [setAt_other _ _ _ _ hr]; exact hinv.2 rg'

/-! ### the concrete registry -/

theorem assocGet_append {K V : Type} [BEq K] (a b : List (K × V)) (k : K) :
    assocGet (a ++ b) k = (assocGet a k).or (assocGet b k) := by
  unfold assocGet
  rw [List.find?_append]
  cases a.find? (·.1 == k) <;> simp

theorem assocGet_newEntries_other (entries : List ((String × String) × Tag)) (ty : String)
    (kw : List (String × Tag)) (c op : String) (h : c ≠ ty) :
    assocGet (newEntries entries ty kw) (c, op) = none := by
  unfold assocGet newEntries
  rw [List.find?_map]
  have : List.find? ((fun x : (String × String) × Tag => x.1 == (c, op)) ∘
      fun op => ((ty, op), pickTag entries ty kw op)) (regOps kw) = none := by
    rw [List.find?_eq_none]
    intro x _
    simp only [Function.comp, beq_iff_eq, Prod.mk.injEq]
    intro hh
    exact h hh.1.symm
  rw [this]; rfl

theorem assocGet_newEntries_same (entries : List ((String × String) × Tag)) (ty : String)
    (kw : List (String × Tag)) (op : String) (hop : op ∈ regOps kw) :
    assocGet (newEntries entries ty kw) (ty, op) = some (pickTag entries ty kw op) := by
  unfold assocGet newEntries
  rw [List.find?_map]
  generalize regOps kw = ops at hop
  induction ops with
  | nil => cases hop
  | cons o os ih =>
    by_cases ho : o = op
    · subst ho; simp [List.find?, Function.comp]
    · have hmem : op ∈ os := by
        rcases List.mem_cons.mp hop with h | h
        · exact absurd h.symm ho
        · exact h
      have hne : ((ty, o) == (ty, op)) = false := by simp [ho]
      simp only [List.find?, Function.comp, hne]
      exact ih hmem

theorem mem_regOps_of_kw (kw : List (String × Tag)) (op : String) (h : Tag) (hk : assocGet kw op = some h) :
    op ∈ regOps kw := by
  unfold regOps
  rw [List.mem_eraseDups]
  apply List.mem_append_left
  have hm := assocGet_mem hk
  exact List.mem_map.mpr ⟨(op, h), hm, rfl⟩

/-- after `register(X, op=h)` (not `exact`, or `X` is the looked-up type itself), a type whose nearest
    registered candidate (for `op`) is `X` resolves to `h` -/
theorem firstRegistered_register (entries : List ((String × String) × Tag)) (fuzzy : List (String × String))
    (X : String) (kw : List (String × Tag)) (op : String) (h : Tag) (hk : assocGet kw op = some h)
    (sub : String) (exact : Bool) (hex : exact = false ∨ X = sub) :
    ∀ (cands : List String), X ∈ cands →
      (∀ c, c ∈ cands.takeWhile (· != X) → assocGet entries (c, op) = none) →
      firstRegistered (handlerVia (newEntries entries X kw ++ entries)
        (if exact then fuzzy else (regOps kw).map (fun op => (X, op)) ++ fuzzy) sub op) cands = some h := by
  intro cands
  induction cands with
  | nil => intro hx; cases hx
  | cons c cs ih =>
    intro hx hbefore
    by_cases hc : c = X
    · subst hc
      have hcond : (c == sub || (if exact then fuzzy else (regOps kw).map (fun op => (c, op)) ++ fuzzy).contains (c, op)) = true := by
        rcases hex with he | he
        · subst he
          simp only [Bool.false_eq_true, if_false, Bool.or_eq_true]
          right
          rw [List.contains_iff_mem]
          apply List.mem_append_left
          exact List.mem_map.mpr ⟨op, mem_regOps_of_kw kw op h hk, rfl⟩
        · subst he; simp
      simp only [firstRegistered, handlerVia, hcond, if_true, assocGet_append]
      rw [assocGet_newEntries_same _ _ _ _ (mem_regOps_of_kw kw op h hk)]
      simp [pickTag, hk]
    · have hne : (c != X) = true := by simp [hc]
      have hnone : assocGet entries (c, op) = none := by
        apply hbefore c
        simp [List.takeWhile, hne]
      have hv : handlerVia (newEntries entries X kw ++ entries)
          (if exact then fuzzy else (regOps kw).map (fun op => (X, op)) ++ fuzzy) sub op c = none := by
        have hn2 : assocGet (newEntries entries X kw ++ entries) (c, op) = none := by
          rw [assocGet_append, assocGet_newEntries_other _ _ _ _ _ hc, hnone]; rfl
        unfold handlerVia
        rw [hn2]
        simp
      simp only [firstRegistered, hv]
      apply ih
      · rcases List.mem_cons.mp hx with h1 | h1
        · exact absurd h1.symm hc
        · exact h1
      · intro c' hc'
        apply hbefore c'
        simp only [List.takeWhile, hne]
        exact List.mem_cons_of_mem _ hc'

theorem firstRegistered_congr (f g : String → Option Tag) (l : List String) (hfg : ∀ c, c ∈ l → f c = g c) :
    firstRegistered f l = firstRegistered g l := by
  induction l with
  | nil => rfl
  | cons c cs ih =>
    simp only [firstRegistered]
    rw [hfg c (List.mem_cons_self)]
    cases g c with
    | some h => rfl
    | none => exact ih (fun c' hc' => hfg c' (List.mem_cons_of_mem _ hc'))

theorem takeWhile_append_of_mem {α : Type} (p : α → Bool) (l r : List α) (x : α) (hx : x ∈ l) (hp : p x = false) :
    (l ++ r).takeWhile p = l.takeWhile p := by
  induction l with
  | nil => cases hx
  | cons a as ih =>
    simp only [List.cons_append, List.takeWhile]
    cases hpa : p a with
    | false => rfl
    | true =>
      simp only
      congr 1
      apply ih
      rcases List.mem_cons.mp hx with h1 | h1
      · subst h1; rw [hp] at hpa; cases hpa
      · exact h1

/-- an `exact=True` registration of a type that is not in the tree is invisible to every other type -/
theorem handlerVia_register_exact_other (entries : List ((String × String) × Tag)) (fuzzy : List (String × String))
    (X sub op : String) (kw : List (String × Tag)) (hne : sub ≠ X) (hnf : fuzzy.contains (X, op) = false) (c : String) :
    handlerVia (newEntries entries X kw ++ entries) fuzzy sub op c = handlerVia entries fuzzy sub op c := by
  unfold handlerVia
  by_cases hc : c = X
  · subst hc
    have h1 : (c == sub) = false := by
      simp only [beq_eq_false_iff_ne, ne_eq]; exact fun hh => hne hh.symm
    have hnf' : (c, op) ∉ fuzzy := by
      intro hm; rw [← List.contains_iff_mem] at hm; rw [hnf] at hm; cases hm
    simp [h1, hnf']
  · rw [assocGet_append, assocGet_newEntries_other _ _ _ _ _ hc]; rfl

/-! ### wildcard traversal -/

/-- a strategy given by a state machine over the answers (`out (answers.foldl step s0)`), run
    without caches, directly on the state -/
def runSt {S : Type} (parse : Bool → String → P) (compute : R → String × String → Option H)
    (out : S → Sum Query O) (step : S → Answer P H → S) (star : Bool) (reg : Nat → R) : Nat → S → Option O
  | 0, _ => none
  | fuel + 1, s =>
    match out s with
    | .inr o => some o
    | .inl (.path text) => runSt parse compute out step star reg fuel (step s (.path (parse star text)))
    | .inl (.handler rg ty op) =>
      runSt parse compute out step star reg fuel (step s (.handler (compute (reg rg) (ty, op))))

theorem runPure_fold {S : Type} (parse : Bool → String → P) (compute : R → String × String → Option H)
    (out : S → Sum Query O) (step : S → Answer P H → S) (s0 : S) (star : Bool) (reg : Nat → R) :
    ∀ (fuel : Nat) (answers : List (Answer P H)),
      runPure parse compute (fun a => out (a.foldl step s0)) star reg fuel answers =
        runSt parse compute out step star reg fuel (answers.foldl step s0) := by
  intro fuel
  induction fuel with
  | zero => intro answers; rfl
  | succ fuel ih =>
    intro answers
    simp only [runPure, runSt]
    cases hq : out (answers.foldl step s0) with
    | inr o => rfl
    | inl q =>
      cases q with
      | path text => simp only; rw [ih]; simp [List.foldl_append]
      | handler rg ty op => simp only; rw [ih]; simp [List.foldl_append]

/-- from the first lookup of an item, the traversal finds for every remaining item what
    `childUse` says, in order -/
theorem runSt_star (parse : Bool → String → P) (compute : R → String × String → Option H) (star : Bool)
    (reg : Nat → R) (rg : Nat) :
    ∀ (tys : List String) (acc : List (StarUse H)) (fuel : Nat), 3 * tys.length + 1 ≤ fuel →
      runSt parse compute (starOut rg) (starStep (P := P)) star reg fuel ⟨tys, .keys, acc⟩ =
        some (acc.reverse ++ tys.map (childUse (compute (reg rg)))) := by
  intro tys
  induction tys with
  | nil =>
    intro acc fuel hf
    obtain ⟨f, rfl⟩ : ∃ f, fuel = f + 1 := ⟨fuel - 1, by omega⟩
    simp [runSt, starOut]
  | cons ty rest ih =>
    intro acc fuel hf
    obtain ⟨f, rfl⟩ : ∃ f, fuel = f + 3 := ⟨fuel - 3, by simp only [List.length_cons] at hf; omega⟩
    simp only [List.length_cons] at hf
    simp only [List.map_cons, childUse]
    cases hk : compute (reg rg) (ty, "keys") with
    | some k =>
      rw [runSt]; simp only [starOut, starStep, hk]
      cases hg : compute (reg rg) (ty, "get") with
      | some g =>
        rw [runSt]; simp only [starOut, starStep, hg]
        rw [ih _ (f + 1) (by omega)]; simp
      | none =>
        rw [runSt]; simp only [starOut, starStep, hg]
        cases hi : compute (reg rg) (ty, "iterate") with
        | some i =>
          rw [runSt]; simp only [starOut, starStep, hi]
          rw [ih _ f (by omega)]; simp
        | none =>
          rw [runSt]; simp only [starOut, starStep, hi]
          rw [ih _ f (by omega)]; simp
    | none =>
      rw [runSt]; simp only [starOut, starStep, hk]
      cases hi : compute (reg rg) (ty, "iterate") with
      | some i =>
        rw [runSt]; simp only [starOut, starStep, hi]
        rw [ih _ (f + 1) (by omega)]; simp
      | none =>
        rw [runSt]; simp only [starOut, starStep, hi]
        rw [ih _ (f + 1) (by omega)]; simp

/-- a wildcard call without caches: per visited item, the handlers of the uncached lookups -/
theorem runPure_star (parse : Bool → String → P) (compute : R → String × String → Option H) (star : Bool)
    (reg : Nat → R) (rg : Nat) (tys : List String) (fuel : Nat) (hf : starFuel tys ≤ fuel) :
    runPure parse compute (starStrategy rg tys) star reg fuel [] =
      some (tys.map (childUse (compute (reg rg)))) := by
  unfold starStrategy
  rw [runPure_fold parse compute (starOut rg) (starStep (P := P)) ⟨tys, .keys, []⟩ star reg fuel []]
  simp only [List.foldl_nil]
  rw [runSt_star parse compute star reg rg tys [] fuel hf]
  simp

theorem refHistory_append_call (parse : Bool → String → P) (compute : R → String × String → Option H)
    (strat : Strategy P H O) (fuel : Nat) :
    ∀ (before : List (HOp P H O R)) (star : Bool) (reg : Nat → R),
      refHistory parse compute star reg (before ++ [.call strat fuel]) =
        refHistory parse compute star reg before ++
          [runPure parse compute strat (starAfter star before) (regsAfter reg before) fuel []] := by
  intro before
  induction before with
  | nil => intro star reg; simp [refHistory, starAfter, regsAfter]
  | cons op rest ih =>
    intro star reg
    cases op with
    | call s f => simp only [List.cons_append, refHistory, starAfter, regsAfter, ih]
    | setStar b => simp only [List.cons_append, refHistory, starAfter, regsAfter, ih]
    | register rg f => simp only [List.cons_append, refHistory, starAfter, regsAfter, ih]

/-! ### `Vars` on the heap -/

theorem hSet_length {V : Type} (h : VHeap V) (a : Nat) (d : VDict V) : (hSet h a d).length = h.length := by
  induction h generalizing a with
  | nil => rfl
  | cons x r ih => cases a <;> simp [hSet, ih]

theorem hSet_getD_same {V : Type} (h : VHeap V) (a : Nat) (d : VDict V) (ha : a < h.length) :
    (hSet h a d).getD a [] = d := by
  induction h generalizing a with
  | nil => cases ha
  | cons x r ih =>
    cases a with
    | zero => simp [hSet]
    | succ n =>
      simp only [hSet, List.getD_cons_succ]
      exact ih n (by simpa using ha)

theorem hSet_getD_other {V : Type} (h : VHeap V) (a b : Nat) (d : VDict V) (hb : b ≠ a) :
    (hSet h a d).getD b [] = h.getD b [] := by
  induction h generalizing a b with
  | nil => rfl
  | cons x r ih =>
    cases a with
    | zero =>
      cases b with
      | zero => exact absurd rfl hb
      | succ m => simp [hSet]
    | succ n =>
      cases b with
      | zero => simp [hSet]
      | succ m =>
        simp only [hSet, List.getD_cons_succ]
        exact ih n m (by omega)

/-- the reads / writes of an evaluation touch the object at `a` only, and read what a value-level
    dict would give -/
theorem runVOps_spec {V : Type} (ops : List (VOp V)) :
    ∀ (h : VHeap V) (a : Nat), a < h.length →
      (runVOps h a ops).2 = runVOpsPure (h.getD a []) ops ∧
      (runVOps h a ops).1.length = h.length ∧
      ∀ b, b ≠ a → (runVOps h a ops).1.getD b [] = h.getD b [] := by
  induction ops with
  | nil => intro h a _; exact ⟨rfl, rfl, fun _ _ => rfl⟩
  | cons op rest ih =>
    intro h a ha
    cases op with
    | write n v =>
      simp only [runVOps, runVOpsPure]
      have ha' : a < (hSet h a (dSet (h.getD a []) n v)).length := by rw [hSet_length]; exact ha
      obtain ⟨h1, h2, h3⟩ := ih (hSet h a (dSet (h.getD a []) n v)) a ha'
      refine ⟨?_, ?_, ?_⟩
      · rw [h1, hSet_getD_same _ _ _ ha]
      · rw [h2, hSet_length]
      · intro b hb; rw [h3 b hb, hSet_getD_other _ _ _ _ hb]
    | read n =>
      simp only [runVOps, runVOpsPure]
      obtain ⟨h1, h2, h3⟩ := ih h a ha
      exact ⟨by rw [h1], h2, h3⟩

/-! ## the heap model of `Model/C06Heap.lean` -/

/-! ### the heap only grows -/

theorem Ext.refl (h : Heap) : Ext h h := ⟨[], by simp⟩

theorem Ext.trans {a b c : Heap} (h1 : Ext a b) (h2 : Ext b c) : Ext a c := by
  obtain ⟨e1, rfl⟩ := h1
  obtain ⟨e2, rfl⟩ := h2
  exact ⟨e1 ++ e2, by simp⟩

theorem Ext.push (h : Heap) (o : Obj) : Ext h (h ++ [o]) := ⟨[o], rfl⟩

theorem Ext.length_le {a b : Heap} (h : Ext a b) : a.length ≤ b.length := by
  obtain ⟨e, rfl⟩ := h; simp

theorem Ext.take {a b : Heap} (h : Ext a b) : b.take a.length = a := by
  obtain ⟨e, rfl⟩ := h; simp

theorem Ext.get {a b : Heap} (h : Ext a b) (i : Nat) (hi : i < a.length) : b[i]? = a[i]? := by
  obtain ⟨e, rfl⟩ := h
  exact List.getElem?_append_left hi

theorem FreshFrom.mono {n m : Nat} {v : Val} (h : FreshFrom m v) (hnm : n ≤ m) : FreshFrom n v :=
  fun a ha => Nat.le_trans hnm (h a ha)

theorem freshFrom_ref (n : Nat) : FreshFrom n (.ref n) := by
  intro a ha; cases ha; exact Nat.le_refl _

theorem ofScalarPV_not_ref {p : PV} {v : Val} (h : ofScalarPV p = some v) : ∀ a, v ≠ .ref a := by
  intro a hv
  subst hv
  cases p <;> simp [ofScalarPV] at h

theorem liftPV_not_ref {r : Except PyExc PV} {v : Val} (h : liftPV r = .ok v) : ∀ a, v ≠ .ref a := by
  unfold liftPV at h
  split at h
  · split at h
    · rename_i hv
      cases h
      exact ofScalarPV_not_ref hv
    · cases h
  · cases h

/-- a Python-level operation that never writes an existing cell and whose value, when it is an
    object, is a new one -/
def GoodRes (h : Heap) (r : Res) : Prop := Ext h r.2 ∧ ∀ v, r.1 = .ok v → FreshFrom h.length v

theorem good_alloc (h : Heap) (o : Obj) : GoodRes h (alloc h o) :=
  ⟨Ext.push h o, by intro v hv; cases hv; exact freshFrom_ref _⟩

theorem good_err (h : Heap) (e : PyExc) : GoodRes h (errR h e) :=
  ⟨Ext.refl h, by intro v hv; cases hv⟩

theorem good_lift (h : Heap) (r : Except PyExc PV) : GoodRes h (liftPV r, h) :=
  ⟨Ext.refl h, by intro v hv a ha; exact absurd ha (liftPV_not_ref hv a)⟩

theorem good_seqRep (h : Heap) (mk : List Val → Obj) (xs : List Val) (n : PV) : GoodRes h (seqRep h mk xs n) := by
  unfold seqRep
  split
  · split
    · exact good_err _ _
    · exact good_alloc _ _
  · exact good_err _ _

theorem good_binSh (b : BinOp) (h : Heap) (x y : Sh) : GoodRes h (binSh b h x y) := by
  unfold binSh
  repeat' split
  all_goals first
    | exact good_err _ _
    | exact good_alloc _ _
    | exact good_seqRep _ _ _ _

theorem good_aBin (b : BinOp) (h : Heap) (x y : Val) : GoodRes h (aBin b h x y) := by
  unfold aBin
  split
  · exact good_lift _ _
  · exact good_binSh _ _ _ _

theorem good_aUn (u : UnOp) (h : Heap) (x : Val) : GoodRes h (aUn u h x) := by
  unfold aUn
  split
  · exact good_lift _ _
  · split <;> exact good_err _ _

theorem seqItem_heap (h : Heap) (xs : List Val) (key : Val) : (seqItem h xs key).2 = h := by
  unfold seqItem
  repeat' split
  all_goals rfl

/-- `cur[arg]` only reads the heap -/
theorem aGetitem_heap (h : Heap) (cur key : Val) : (aGetitem h cur key).2 = h := by
  unfold aGetitem
  repeat' split
  all_goals first | rfl | exact seqItem_heap _ _ _

theorem guard6_heap (r : Res) : (guard6 r).2 = r.2 := by
  unfold guard6
  repeat' split
  all_goals rfl

theorem guard6_ok {r : Res} {v : Val} (h : (guard6 r).1 = .ok v) : r.1 = .ok v := by
  unfold guard6 at h
  split at h
  · rename_i hv; simp at h; rw [hv, h]
  · split at h <;> simp at h

theorem raise6_heap (h : Heap) (e : PyExc) : (raise6 h e).2 = h := by
  unfold raise6; split <;> rfl

theorem applyOp_ext (op : TOp) (h : Heap) (cur arg : Val) : Ext h (applyOp op h cur arg).2 := by
  cases op with
  | item => simp only [applyOp, guard6_heap, aGetitem_heap]; exact Ext.refl h
  | bin b => simp only [applyOp, guard6_heap]; exact (good_aBin b h cur arg).1
  | un u => simp only [applyOp, guard6_heap]; exact (good_aUn u h cur).1

/-- the value of an arithmetic step is a scalar or a new object -/
theorem applyOp_fresh (op : TOp) (h : Heap) (cur arg v : Val) (hop : op ≠ .item)
    (hv : (applyOp op h cur arg).1 = .ok v) : FreshFrom h.length v := by
  cases op with
  | item => exact absurd rfl hop
  | bin b => exact (good_aBin b h cur arg).2 v (guard6_ok hv)
  | un u => exact (good_aUn u h cur).2 v (guard6_ok hv)

theorem mkSeq_ext (k : SeqKind) (h : Heap) (vs : List Val) : Ext h (mkSeq k h vs).2 := by
  unfold mkSeq
  repeat' split
  all_goals first | exact Ext.push _ _ | (rw [raise6_heap]; exact Ext.refl h)

theorem mkSeq_fresh (k : SeqKind) (h : Heap) (vs : List Val) (v : Val) (hv : (mkSeq k h vs).1 = .ok v) :
    FreshFrom h.length v := by
  unfold mkSeq at hv
  repeat' split at hv
  all_goals first
    | (simp at hv; subst hv; exact freshFrom_ref _)
    | (unfold raise6 at hv; split at hv <;> simp at hv)

theorem mkDict6_ext (h : Heap) (kvs : List (Val × Val)) : Ext h (mkDict6 h kvs).2 := by
  unfold mkDict6
  split
  · rw [raise6_heap]; exact Ext.refl h
  · exact Ext.push _ _

theorem mkDict6_fresh (h : Heap) (kvs : List (Val × Val)) (v : Val) (hv : (mkDict6 h kvs).1 = .ok v) :
    FreshFrom h.length v := by
  unfold mkDict6 at hv
  split at hv
  · unfold raise6 at hv; split at hv <;> simp at hv
  · simp at hv; subst hv; exact freshFrom_ref _

theorem mapRun_ext (f : Val → Heap → Out) (hf : ∀ x h, Ext h (f x h).2) :
    ∀ (xs : List Val) (h : Heap), Ext h (mapRun f xs h).2 := by
  intro xs
  induction xs with
  | nil => intro h; exact Ext.refl h
  | cons x r ih =>
    intro h
    simp only [mapRun]
    have h1 := hf x h
    split
    · rename_i e h1' heq; rw [heq] at h1; exact h1
    · rename_i v h1' heq
      rw [heq] at h1
      have h2 := ih h1'
      split
      · rename_i vs h2' heq2; rw [heq2] at h2; exact h1.trans h2
      · rename_i e h2' heq2; rw [heq2] at h2; exact h1.trans h2

/-! ### the frame theorem, by mutual structural recursion over the syntax -/

mutual
theorem evalArg_ext : ∀ (sp : Sp) (tgt : Val) (h : Heap), Ext h (evalArg sp tgt h).2
  | .lit v, tgt, h => by simp only [evalArg]; exact Ext.refl h
  | .t steps, tgt, h => by simp only [evalArg]; exact tLoop_ext steps tgt tgt h
  | .seq k xs, tgt, h => by
    simp only [evalArg]
    have h1 := evalArgs_ext xs tgt h
    split
    · rename_i vs h1' heq; rw [heq] at h1; exact h1.trans (mkSeq_ext _ _ _)
    · rename_i e h1' heq; rw [heq] at h1; exact h1
  | .dict es, tgt, h => by
    simp only [evalArg]
    have h1 := evalArgPairs_ext es tgt h
    split
    · rename_i vs h1' heq; rw [heq] at h1; exact h1.trans (mkDict6_ext _ _)
    · rename_i e h1' heq; rw [heq] at h1; exact h1
  | .coalesce subs hd d, tgt, h => by
    simp only [evalArg]
    have h1 := coalesceRun_ext subs tgt h
    split
    · rename_i r h1' heq; rw [heq] at h1; exact h1
    · rename_i h1' heq
      rw [heq] at h1
      split
      · exact h1.trans (evalArg_ext d tgt h1')
      · exact h1
theorem evalAuto_ext : ∀ (sp : Sp) (tgt : Val) (h : Heap), Ext h (evalAuto sp tgt h).2
  | .lit v, tgt, h => by simp only [evalAuto]; exact Ext.refl h
  | .t steps, tgt, h => by simp only [evalAuto]; exact tLoop_ext steps tgt tgt h
  | .seq k xs, tgt, h => by
    simp only [evalAuto]
    cases k with
    | list => exact listRun_ext xs tgt h
    | tuple => exact chainRun_ext xs tgt h
    | set => exact Ext.refl h
    | fset => exact Ext.refl h
  | .dict es, tgt, h => by
    simp only [evalAuto]
    have h1 := evalAutoPairs_ext es tgt h
    split
    · rename_i vs h1' heq; rw [heq] at h1; exact h1.trans (mkDict6_ext _ _)
    · rename_i e h1' heq; rw [heq] at h1; exact h1
  | .coalesce subs hd d, tgt, h => by
    simp only [evalAuto]
    have h1 := coalesceRun_ext subs tgt h
    split
    · rename_i r h1' heq; rw [heq] at h1; exact h1
    · rename_i h1' heq
      rw [heq] at h1
      split
      · exact h1.trans (evalArg_ext d tgt h1')
      · exact h1
theorem evalArgs_ext : ∀ (xs : Sps) (tgt : Val) (h : Heap), Ext h (evalArgs xs tgt h).2
  | .nil, tgt, h => by simp only [evalArgs]; exact Ext.refl h
  | .cons x r, tgt, h => by
    simp only [evalArgs]
    have h1 := evalArg_ext x tgt h
    split
    · rename_i e h1' heq; rw [heq] at h1; exact h1
    · rename_i v h1' heq
      rw [heq] at h1
      have h2 := evalArgs_ext r tgt h1'
      split
      · rename_i vs h2' heq2; rw [heq2] at h2; exact h1.trans h2
      · rename_i e h2' heq2; rw [heq2] at h2; exact h1.trans h2
theorem evalArgPairs_ext : ∀ (es : Pairs) (tgt : Val) (h : Heap), Ext h (evalArgPairs es tgt h).2
  | .nil, tgt, h => by simp only [evalArgPairs]; exact Ext.refl h
  | .cons k v r, tgt, h => by
    simp only [evalArgPairs]
    have h1 := evalArg_ext k tgt h
    split
    · rename_i e h1' heq; rw [heq] at h1; exact h1
    · rename_i kv h1' heq
      rw [heq] at h1
      have h2 := evalArg_ext v tgt h1'
      split
      · rename_i e h2' heq2; rw [heq2] at h2; exact h1.trans h2
      · rename_i vv h2' heq2
        rw [heq2] at h2
        have h3 := evalArgPairs_ext r tgt h2'
        split
        · rename_i kvs h3' heq3; rw [heq3] at h3; exact (h1.trans h2).trans h3
        · rename_i e h3' heq3; rw [heq3] at h3; exact (h1.trans h2).trans h3
theorem evalAutoPairs_ext : ∀ (es : Pairs) (tgt : Val) (h : Heap), Ext h (evalAutoPairs es tgt h).2
  | .nil, tgt, h => by simp only [evalAutoPairs]; exact Ext.refl h
  | .cons k v r, tgt, h => by
    simp only [evalAutoPairs]
    have h1 := evalAuto_ext v tgt h
    split
    · rename_i e h1' heq; rw [heq] at h1; exact h1
    · rename_i vv h1' heq
      rw [heq] at h1
      have h2 := fieldRun_ext k tgt h1'
      split
      · rename_i e h2' heq2; rw [heq2] at h2; exact h1.trans h2
      · rename_i kv h2' heq2
        rw [heq2] at h2
        have h3 := evalAutoPairs_ext r tgt h2'
        split
        · rename_i kvs h3' heq3; rw [heq3] at h3; exact (h1.trans h2).trans h3
        · rename_i e h3' heq3; rw [heq3] at h3; exact (h1.trans h2).trans h3
theorem fieldRun_ext : ∀ (sp : Sp) (tgt : Val) (h : Heap), Ext h (fieldRun sp tgt h).2
  | .lit v, tgt, h => by simp only [fieldRun]; exact Ext.refl h
  | .t steps, tgt, h => by simp only [fieldRun]; exact tLoop_ext steps tgt tgt h
  | .seq _ _, tgt, h => by simp only [fieldRun]; exact Ext.refl h
  | .dict _, tgt, h => by simp only [fieldRun]; exact Ext.refl h
  | .coalesce _ _ _, tgt, h => by simp only [fieldRun]; exact Ext.refl h
theorem listRun_ext : ∀ (xs : Sps) (tgt : Val) (h : Heap), Ext h (listRun xs tgt h).2
  | .nil, tgt, h => by simp only [listRun]; exact Ext.refl h
  | .cons sub r, tgt, h => by
    simp only [listRun]
    cases r with
    | cons _ _ => exact Ext.refl h
    | nil =>
      simp only
      split
      · exact Ext.refl h
      · rename_i items _
        have h1 := mapRun_ext (evalAuto sub) (fun x h => evalAuto_ext sub x h) items h
        split
        · rename_i vs h1' heq; rw [heq] at h1; exact h1.trans (Ext.push _ _)
        · rename_i e h1' heq; rw [heq] at h1; exact h1
theorem chainRun_ext : ∀ (xs : Sps) (tgt : Val) (h : Heap), Ext h (chainRun xs tgt h).2
  | .nil, tgt, h => by simp only [chainRun]; exact Ext.refl h
  | .cons x r, tgt, h => by
    simp only [chainRun]
    have h1 := evalAuto_ext x tgt h
    split
    · rename_i e h1' heq; rw [heq] at h1; exact h1
    · rename_i v h1' heq; rw [heq] at h1; exact h1.trans (chainRun_ext r v h1')
theorem coalesceRun_ext : ∀ (xs : Sps) (tgt : Val) (h : Heap), Ext h (coalesceRun xs tgt h).2
  | .nil, tgt, h => by simp only [coalesceRun]; exact Ext.refl h
  | .cons x r, tgt, h => by
    simp only [coalesceRun]
    have h1 := evalAuto_ext x tgt h
    split
    · rename_i v h1' heq; rw [heq] at h1; exact h1
    · rename_i c h1' heq; rw [heq] at h1; exact h1.trans (coalesceRun_ext r tgt h1')
    · rename_i e h1' _ heq; rw [heq] at h1; exact h1
theorem tLoop_ext : ∀ (steps : Steps) (tgt cur : Val) (h : Heap), Ext h (tLoop steps tgt cur h).2
  | .nil, tgt, cur, h => by simp only [tLoop]; exact Ext.refl h
  | .cons op a r, tgt, cur, h => by
    simp only [tLoop]
    have h1 := evalArg_ext a tgt h
    split
    · rename_i e h1' heq; rw [heq] at h1; exact h1
    · rename_i av h1' heq
      rw [heq] at h1
      have h2 := applyOp_ext op h1' cur av
      split
      · rename_i v h2' heq2; rw [heq2] at h2; exact (h1.trans h2).trans (tLoop_ext r tgt v h2')
      · rename_i e h2' heq2; rw [heq2] at h2; exact h1.trans h2
end


/-! ### results that Python / glom builds anew are not old objects -/

theorem tLoop_fresh : ∀ (steps : Steps) (tgt cur : Val) (h : Heap) (v : Val) (h' : Heap),
    tLoop steps tgt cur h = (.ok v, h') → steps.endsArith = true → FreshFrom h.length v
  | .nil, tgt, cur, h, v, h', _, hn => by simp [Steps.endsArith] at hn
  | .cons op a r, tgt, cur, h, v, h', he, hn => by
    simp only [tLoop] at he
    have h1 := evalArg_ext a tgt h
    split at he
    · cases he
    · rename_i av h1' heq
      rw [heq] at h1
      have h2 := applyOp_ext op h1' cur av
      split at he
      · rename_i v1 h2' heq2
        rw [heq2] at h2
        cases r with
        | nil =>
          simp only [tLoop] at he
          cases he
          have hop : op ≠ .item := by
            intro hh; subst hh; simp [Steps.endsArith] at hn
          have := applyOp_fresh op h1' cur av v hop (by rw [heq2])
          exact this.mono h1.length_le
        | cons op2 a2 r2 =>
          have hn' : (Steps.cons op2 a2 r2).endsArith = true := by
            simpa [Steps.endsArith] using hn
          have := tLoop_fresh (.cons op2 a2 r2) tgt v1 h2' v h' he hn'
          exact this.mono (h1.trans h2).length_le
      · cases he

mutual
theorem evalArg_fresh : ∀ (sp : Sp) (tgt : Val) (h : Heap) (v : Val) (h' : Heap),
    evalArg sp tgt h = (.ok v, h') → sp.newArg = true → FreshFrom h.length v
  | .lit w, tgt, h, v, h', he, hn => by
    simp only [evalArg] at he
    cases he
    intro a ha
    subst ha
    simp [Sp.newArg] at hn
  | .t steps, tgt, h, v, h', he, hn => by
    simp only [evalArg] at he
    simp only [Sp.newArg] at hn
    exact tLoop_fresh steps tgt tgt h v h' he hn
  | .seq k xs, tgt, h, v, h', he, _ => by
    simp only [evalArg] at he
    have h1 := evalArgs_ext xs tgt h
    split at he
    · rename_i vs h1' heq
      rw [heq] at h1
      exact (mkSeq_fresh k h1' vs v (by rw [he])).mono h1.length_le
    · cases he
  | .dict es, tgt, h, v, h', he, _ => by
    simp only [evalArg] at he
    have h1 := evalArgPairs_ext es tgt h
    split at he
    · rename_i kvs h1' heq
      rw [heq] at h1
      exact (mkDict6_fresh h1' kvs v (by rw [he])).mono h1.length_le
    · cases he
  | .coalesce subs hd d, tgt, h, v, h', he, hn => by
    simp only [evalArg] at he
    simp only [Sp.newArg, Bool.and_eq_true, Bool.or_eq_true, Bool.not_eq_true'] at hn
    have h1 := coalesceRun_ext subs tgt h
    split at he
    · rename_i r h1' heq
      cases he
      exact coalesceRun_fresh subs tgt h v h' heq hn.1
    · rename_i h1' heq
      rw [heq] at h1
      split at he
      · rename_i hhd
        rcases hn.2 with hf | hd'
        · rw [hhd] at hf; cases hf
        · exact (evalArg_fresh d tgt h1' v h' he hd').mono h1.length_le
      · cases he
theorem evalAuto_fresh : ∀ (sp : Sp) (tgt : Val) (h : Heap) (v : Val) (h' : Heap),
    evalAuto sp tgt h = (.ok v, h') → sp.mustBeNew = true → FreshFrom h.length v
  | .lit w, tgt, h, v, h', he, hn => by simp [Sp.mustBeNew] at hn
  | .t steps, tgt, h, v, h', he, hn => by
    simp only [evalAuto] at he
    simp only [Sp.mustBeNew] at hn
    exact tLoop_fresh steps tgt tgt h v h' he hn
  | .seq k xs, tgt, h, v, h', he, hn => by
    simp only [evalAuto] at he
    cases k with
    | list =>
      simp only at he
      cases xs with
      | nil => simp only [listRun] at he; cases he
      | cons sub r =>
        simp only [listRun] at he
        cases r with
        | cons _ _ => cases he
        | nil =>
          simp only at he
          split at he
          · cases he
          · rename_i items _
            have h1 := mapRun_ext (evalAuto sub) (fun x h => evalAuto_ext sub x h) items h
            split at he
            · rename_i vs h1' heq
              rw [heq] at h1
              cases he
              exact (freshFrom_ref _).mono h1.length_le
            · cases he
    | tuple =>
      simp only at he
      simp only [Sp.mustBeNew] at hn
      exact chainRun_fresh xs tgt h v h' he hn
    | set => simp [Sp.mustBeNew] at hn
    | fset => simp [Sp.mustBeNew] at hn
  | .dict es, tgt, h, v, h', he, _ => by
    simp only [evalAuto] at he
    have h1 := evalAutoPairs_ext es tgt h
    split at he
    · rename_i kvs h1' heq
      rw [heq] at h1
      exact (mkDict6_fresh h1' kvs v (by rw [he])).mono h1.length_le
    · cases he
  | .coalesce subs hd d, tgt, h, v, h', he, hn => by
    simp only [evalAuto] at he
    simp only [Sp.mustBeNew, Bool.and_eq_true, Bool.or_eq_true, Bool.not_eq_true'] at hn
    have h1 := coalesceRun_ext subs tgt h
    split at he
    · rename_i r h1' heq
      cases he
      exact coalesceRun_fresh subs tgt h v h' heq hn.1
    · rename_i h1' heq
      rw [heq] at h1
      split at he
      · rename_i hhd
        rcases hn.2 with hf | hd'
        · rw [hhd] at hf; cases hf
        · exact (evalArg_fresh d tgt h1' v h' he hd').mono h1.length_le
      · cases he
theorem chainRun_fresh : ∀ (xs : Sps) (tgt : Val) (h : Heap) (v : Val) (h' : Heap),
    chainRun xs tgt h = (.ok v, h') → xs.lastNew = true → FreshFrom h.length v
  | .nil, tgt, h, v, h', he, hn => by simp [Sps.lastNew] at hn
  | .cons x r, tgt, h, v, h', he, hn => by
    simp only [chainRun] at he
    have h1 := evalAuto_ext x tgt h
    split at he
    · cases he
    · rename_i v1 h1' heq
      rw [heq] at h1
      cases r with
      | nil =>
        simp only [chainRun] at he
        cases he
        simp only [Sps.lastNew] at hn
        exact evalAuto_fresh x tgt h v h' heq hn
      | cons y r2 =>
        simp only [Sps.lastNew] at hn
        exact (chainRun_fresh (.cons y r2) v1 h1' v h' he hn).mono h1.length_le
theorem coalesceRun_fresh : ∀ (xs : Sps) (tgt : Val) (h : Heap) (v : Val) (h' : Heap),
    coalesceRun xs tgt h = (some (.ok v), h') → xs.allNew = true → FreshFrom h.length v
  | .nil, tgt, h, v, h', he, hn => by simp [coalesceRun] at he
  | .cons x r, tgt, h, v, h', he, hn => by
    simp only [coalesceRun] at he
    simp only [Sps.allNew, Bool.and_eq_true] at hn
    have h1 := evalAuto_ext x tgt h
    split at he
    · rename_i v1 h1' heq
      cases he
      exact evalAuto_fresh x tgt h v h' heq hn.1
    · rename_i c h1' heq
      rw [heq] at h1
      exact (coalesceRun_fresh r tgt h1' v h' he hn.2).mono h1.length_le
    · cases he
end


/-! ### what an observer sees is preserved by a growing heap -/

theorem optMapM_mono {α β : Type} (f g : α → Option β) (hfg : ∀ x y, f x = some y → g x = some y) :
    ∀ (xs : List α) (ys : List β), optMapM f xs = some ys → optMapM g xs = some ys := by
  intro xs
  induction xs with
  | nil => intro ys h; exact h
  | cons x r ih =>
    intro ys h
    simp only [optMapM] at h ⊢
    cases hx : f x with
    | none => rw [hx] at h; simp at h
    | some y =>
      cases hr : optMapM f r with
      | none => rw [hx, hr] at h; simp at h
      | some ys' =>
        rw [hx, hr] at h
        rw [hfg x y hx, ih ys' hr]
        exact h

theorem view6_ext {h h' : Heap} (hext : Ext h h') :
    ∀ (fuel : Nat) (v : Val) (p : PV), view6 h fuel v = some p → view6 h' fuel v = some p := by
  intro fuel
  induction fuel with
  | zero =>
    intro v p hv
    unfold view6 at hv ⊢
    cases hs : scalarPV v with
    | some q => rw [hs] at hv; exact hv
    | none =>
      rw [hs] at hv
      cases v <;> first | (simp [scalarPV] at hs; done) | (simp at hv; done)
  | succ fuel ih =>
    intro v p hv
    unfold view6 at hv ⊢
    cases hs : scalarPV v with
    | some q => rw [hs] at hv; exact hv
    | none =>
      rw [hs] at hv
      cases v with
      | ref a =>
        simp only at hv ⊢
        cases ha : h[a]? with
        | none => rw [ha] at hv; simp at hv
        | some o =>
          have hlt : a < h.length := by
            rcases Nat.lt_or_ge a h.length with hl | hl
            · exact hl
            · rw [List.getElem?_eq_none hl] at ha; cases ha
          have ha' : h'[a]? = some o := by rw [hext.get a hlt, ha]
          rw [ha] at hv
          rw [ha']
          have mono := optMapM_mono (view6 h fuel) (view6 h' fuel) ih
          cases o with
          | list c xs =>
            simp only [Option.map_eq_some_iff] at hv ⊢
            obtain ⟨ys, h1, h2⟩ := hv
            exact ⟨ys, mono _ _ h1, h2⟩
          | tuple c xs =>
            simp only [Option.map_eq_some_iff] at hv ⊢
            obtain ⟨ys, h1, h2⟩ := hv
            exact ⟨ys, mono _ _ h1, h2⟩
          | set c xs =>
            simp only [Option.map_eq_some_iff] at hv ⊢
            obtain ⟨ys, h1, h2⟩ := hv
            exact ⟨ys, mono _ _ h1, h2⟩
          | dict c es =>
            simp only at hv ⊢
            cases hk : optMapM (view6 h fuel) (es.map (·.1)) with
            | none => rw [hk] at hv; simp at hv
            | some ks =>
              cases hvv : optMapM (view6 h fuel) (es.map (·.2)) with
              | none => rw [hk, hvv] at hv; simp at hv
              | some vs =>
                rw [hk, hvv] at hv
                rw [mono _ _ hk, mono _ _ hvv]
                exact hv
          | inst c attrs =>
            simp only [Option.map_eq_some_iff] at hv ⊢
            obtain ⟨ys, h1, h2⟩ := hv
            exact ⟨ys, mono _ _ h1, h2⟩
      | _ => simp [scalarPV] at hs

theorem runCalls_ext : ∀ (calls : List (Sp × Val)) (h : Heap), Ext h (runCalls calls h) := by
  intro calls
  induction calls with
  | nil => intro h; exact Ext.refl h
  | cons c r ih =>
    intro h
    simp only [runCalls]
    exact (evalAuto_ext c.1 c.2 h).trans (ih _)

end Glom.C06
