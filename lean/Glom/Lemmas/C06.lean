import Glom.Spec.C06
import Glom.Spec.C06Heap
namespace Glom.C06

variable {P H O R : Type}

theorem assocGet_mem {K V : Type} [BEq K] [LawfulBEq K] {l : List (K × V)} {k : K} {v : V}
    (h : assocGet l k = some v) : (k, v) ∈ l := by
  unfold assocGet at h
  cases hf : l.find? (·.1 == k) with
  | none => simp [hf] at h
  | some e =>
    simp [hf] at h
    have hm := List.mem_of_find?_eq_some hf
    have hk := List.find?_some hf
    simp at hk
    obtain ⟨a, b⟩ := e
    simp at hk h
    subst hk; subst h
    exact hm

theorem get_set_same (c : PathCache P) (b : Bool) (l) : (c.set b l).get b = l := by
  cases b <;> simp [PathCache.get, PathCache.set]

theorem get_set_other (c : PathCache P) (b b' : Bool) (l) (h : b' ≠ b) : (c.set b l).get b' = c.get b' := by
  cases b <;> cases b' <;> simp_all [PathCache.get, PathCache.set]

theorem fromText_spec (parse : Bool → String → P) (maxCache : Nat) (star : Bool) (c : PathCache P)
    (text : String) (hinv : PathInv parse c) :
    (fromText parse maxCache star c text).1 = parse star text ∧
    PathInv parse (fromText parse maxCache star c text).2 := by
  unfold fromText
  simp only
  cases hg : assocGet (c.get star) text with
  | some p =>
    simp only
    exact ⟨hinv star text p (assocGet_mem hg), hinv⟩
  | none =>
    simp only
    split
    · exact ⟨rfl, hinv⟩
    · refine ⟨rfl, ?_⟩
      intro b k v hm
      by_cases hb : b = star
      · subst hb
        rw [get_set_same] at hm
        simp only [List.mem_cons, Prod.mk.injEq] at hm
        rcases hm with ⟨rfl, rfl⟩ | hm
        · rfl
        · exact hinv b k v hm
      · rw [get_set_other _ _ _ _ hb] at hm
        exact hinv b k v hm

theorem fromText_size (parse : Bool → String → P) (maxCache : Nat) (star : Bool) (c : PathCache P)
    (text : String) (hs : SizeOK maxCache c) : SizeOK maxCache (fromText parse maxCache star c text).2 := by
  unfold fromText
  simp only
  cases assocGet (c.get star) text with
  | some p => exact hs
  | none =>
    simp only
    split
    · exact hs
    · rename_i hlen
      intro b
      by_cases hb : b = star
      · subst hb; rw [get_set_same]; simp; omega
      · rw [get_set_other _ _ _ _ hb]; exact hs b

theorem getHandler_spec (compute : String × String → Option H) (hc : HCache H) (key : String × String)
    (rx : Bool) (hinv : HInv compute hc) :
    (getHandler compute hc key rx).1 = compute key ∧ HInv compute (getHandler compute hc key rx).2 := by
  unfold getHandler
  cases hg : assocGet hc key with
  | some r =>
    simp only
    exact ⟨(hinv key r (assocGet_mem hg)).symm, hinv⟩
  | none =>
    simp only
    cases hcmp : compute key with
    | none =>
      simp only
      split
      · exact ⟨rfl, hinv⟩
      · refine ⟨rfl, ?_⟩
        intro k r hm
        simp only [List.mem_cons, Prod.mk.injEq] at hm
        rcases hm with ⟨rfl, rfl⟩ | hm
        · exact hcmp
        · exact hinv k r hm
    | some h =>
      refine ⟨rfl, ?_⟩
      intro k r hm
      simp only [List.mem_cons, Prod.mk.injEq] at hm
      rcases hm with ⟨rfl, rfl⟩ | hm
      · exact hcmp
      · exact hinv k r hm

theorem setAt_same {α : Type} (f : Nat → α) (i : Nat) (x : α) : setAt f i x i = x := by
  simp [setAt]

theorem setAt_other {α : Type} (f : Nat → α) (i j : Nat) (x : α) (h : j ≠ i) : setAt f i x j = f j := by
  simp [setAt, h]

/-- a call run against the caches answers exactly like the cache-free run, and keeps the invariant -/
theorem runCached_spec (parse : Bool → String → P) (compute : R → String × String → Option H) (maxCache : Nat)
    (strat : Strategy P H O) :
    ∀ (fuel : Nat) (w : World P H R) (answers : List (Answer P H)), WorldInv parse compute w →
      (runCached parse compute maxCache strat fuel w answers).1 =
        runPure parse compute strat w.pathStar w.reg fuel answers ∧
      WorldInv parse compute (runCached parse compute maxCache strat fuel w answers).2 ∧
      (runCached parse compute maxCache strat fuel w answers).2.pathStar = w.pathStar ∧
      (runCached parse compute maxCache strat fuel w answers).2.reg = w.reg := by
  intro fuel
  induction fuel with
  | zero => intro w answers hinv; exact ⟨rfl, hinv, rfl, rfl⟩
  | succ fuel ih =>
    intro w answers hinv
    simp only [runCached, runPure]
    cases hs : strat answers with
    | inr o => exact ⟨rfl, hinv, rfl, rfl⟩
    | inl q =>
      cases q with
      | path text =>
        have hf := fromText_spec parse maxCache w.pathStar w.pc text hinv.1
        simp only
        rcases hft : fromText parse maxCache w.pathStar w.pc text with ⟨p, pc'⟩
        rw [hft] at hf
        simp only at hf ⊢
        obtain ⟨hp, hinv'⟩ := hf
        subst hp
        exact ih { w with pc := pc' } _ ⟨hinv', hinv.2⟩
      | handler rg ty op rx =>
        have hg := getHandler_spec (compute (w.reg rg)) (w.hc rg) (ty, op) rx (hinv.2 rg)
        simp only
        rcases hgt : getHandler (compute (w.reg rg)) (w.hc rg) (ty, op) rx with ⟨h, hc'⟩
        rw [hgt] at hg
        simp only at hg ⊢
        obtain ⟨hh, hinv'⟩ := hg
        subst hh
        refine ih { w with hc := setAt w.hc rg hc' } _ ⟨hinv.1, ?_⟩
        intro rg'
        by_cases hr : rg' = rg
        · subst hr; simp only [setAt_same]; exact hinv'
        · simp only [setAt_other _ _ _ _ hr]; exact hinv.2 rg'

theorem stepWorld_inv (parse : Bool → String → P) (compute : R → String × String → Option H) (maxCache : Nat)
    (w : World P H R) (op : HOp P H O R) (hinv : WorldInv parse compute w) :
    WorldInv parse compute (stepWorld parse compute maxCache w op).2 := by
  cases op with
  | call strat fuel => exact (runCached_spec parse compute maxCache strat fuel w [] hinv).2.1
  | setStar b => exact hinv
  | register rg f =>
    refine ⟨hinv.1, ?_⟩
    intro rg'
    simp only [stepWorld]
    by_cases hr : rg' = rg
    · subst hr; simp only [setAt_same]; intro k h hm; cases hm
    · simp only [setAt_other _ _ _ _ hr]; exact hinv.2 rg'

/-! ### the concrete registry -/

theorem assocGet_append {K V : Type} [BEq K] (a b : List (K × V)) (k : K) :
    assocGet (a ++ b) k = (assocGet a k).or (assocGet b k) := by
  unfold assocGet
  rw [List.find?_append]
  cases a.find? (·.1 == k) <;> simp

theorem assocGet_newEntries_other (entries : List ((String × String) × Tag)) (ty : String)
    (kw : List (String × Tag)) (c op : String) (h : c ≠ ty) :
    assocGet (newEntries entries ty kw) (c, op) = none := by
  unfold assocGet newEntries
  rw [List.find?_map]
  have : List.find? ((fun x : (String × String) × Tag => x.1 == (c, op)) ∘
      fun op => ((ty, op), pickTag entries ty kw op)) (regOps kw) = none := by
    rw [List.find?_eq_none]
    intro x _
    simp only [Function.comp, beq_iff_eq, Prod.mk.injEq]
    intro hh
    exact h hh.1.symm
  rw [this]; rfl

theorem assocGet_newEntries_same (entries : List ((String × String) × Tag)) (ty : String)
    (kw : List (String × Tag)) (op : String) (hop : op ∈ regOps kw) :
    assocGet (newEntries entries ty kw) (ty, op) = some (pickTag entries ty kw op) := by
  unfold assocGet newEntries
  rw [List.find?_map]
  generalize regOps kw = ops at hop
  induction ops with
  | nil => cases hop
  | cons o os ih =>
    by_cases ho : o = op
    · subst ho; simp [List.find?, Function.comp]
    · have hmem : op ∈ os := by
        rcases List.mem_cons.mp hop with h | h
        · exact absurd h.symm ho
        · exact h
      have hne : ((ty, o) == (ty, op)) = false := by simp [ho]
      simp only [List.find?, Function.comp, hne]
      exact ih hmem

theorem mem_regOps_of_kw (kw : List (String × Tag)) (op : String) (h : Tag) (hk : assocGet kw op = some h) :
    op ∈ regOps kw := by
  unfold regOps
  rw [List.mem_eraseDups]
  apply List.mem_append_left
  have hm := assocGet_mem hk
  exact List.mem_map.mpr ⟨(op, h), hm, rfl⟩

/-- after `register(X, op=h)` (not `exact`, or `X` is the looked-up type itself), a type whose nearest
    registered candidate (for `op`) is `X` resolves to `h` -/
theorem firstRegistered_register (entries : List ((String × String) × Tag)) (fuzzy : List (String × String))
    (X : String) (kw : List (String × Tag)) (op : String) (h : Tag) (hk : assocGet kw op = some h)
    (sub : String) (exact : Bool) (hex : exact = false ∨ X = sub) :
    ∀ (cands : List String), X ∈ cands →
      (∀ c, c ∈ cands.takeWhile (· != X) → assocGet entries (c, op) = none) →
      firstRegistered (handlerVia (newEntries entries X kw ++ entries)
        (if exact then fuzzy else (regOps kw).map (fun op => (X, op)) ++ fuzzy) sub op) cands = some h := by
  intro cands
  induction cands with
  | nil => intro hx; cases hx
  | cons c cs ih =>
    intro hx hbefore
    by_cases hc : c = X
    · subst hc
      have hcond : (c == sub || (if exact then fuzzy else (regOps kw).map (fun op => (c, op)) ++ fuzzy).contains (c, op)) = true := by
        rcases hex with he | he
        · subst he
          simp only [Bool.false_eq_true, if_false, Bool.or_eq_true]
          right
          rw [List.contains_iff_mem]
          apply List.mem_append_left
          exact List.mem_map.mpr ⟨op, mem_regOps_of_kw kw op h hk, rfl⟩
        · subst he; simp
      simp only [firstRegistered, handlerVia, hcond, if_true, assocGet_append]
      rw [assocGet_newEntries_same _ _ _ _ (mem_regOps_of_kw kw op h hk)]
      simp [pickTag, hk]
    · have hne : (c != X) = true := by simp [hc]
      have hnone : assocGet entries (c, op) = none := by
        apply hbefore c
        simp [List.takeWhile, hne]
      have hv : handlerVia (newEntries entries X kw ++ entries)
          (if exact then fuzzy else (regOps kw).map (fun op => (X, op)) ++ fuzzy) sub op c = none := by
        have hn2 : assocGet (newEntries entries X kw ++ entries) (c, op) = none := by
          rw [assocGet_append, assocGet_newEntries_other _ _ _ _ _ hc, hnone]; rfl
        unfold handlerVia
        rw [hn2]
        simp
      simp only [firstRegistered, hv]
      apply ih
      · rcases List.mem_cons.mp hx with h1 | h1
        · exact absurd h1.symm hc
        · exact h1
      · intro c' hc'
        apply hbefore c'
        simp only [List.takeWhile, hne]
        exact List.mem_cons_of_mem _ hc'

theorem firstRegistered_congr (f g : String → Option Tag) (l : List String) (hfg : ∀ c, c ∈ l → f c = g c) :
    firstRegistered f l = firstRegistered g l := by
  induction l with
  | nil => rfl
  | cons c cs ih =>
    simp only [firstRegistered]
    rw [hfg c (List.mem_cons_self)]
    cases g c with
    | some h => rfl
    | none => exact ih (fun c' hc' => hfg c' (List.mem_cons_of_mem _ hc'))

theorem takeWhile_append_of_mem {α : Type} (p : α → Bool) (l r : List α) (x : α) (hx : x ∈ l) (hp : p x = false) :
    (l ++ r).takeWhile p = l.takeWhile p := by
  induction l with
  | nil => cases hx
  | cons a as ih =>
    simp only [List.cons_append, List.takeWhile]
    cases hpa : p a with
    | false => rfl
    | true =>
      simp only
      congr 1
      apply ih
      rcases List.mem_cons.mp hx with h1 | h1
      · subst h1; rw [hp] at hpa; cases hpa
      · exact h1

/-- an `exact=True` registration of a type that is not in the tree is invisible to every other type -/
theorem handlerVia_register_exact_other (entries : List ((String × String) × Tag)) (fuzzy : List (String × String))
    (X sub op : String) (kw : List (String × Tag)) (hne : sub ≠ X) (hnf : fuzzy.contains (X, op) = false) (c : String) :
    handlerVia (newEntries entries X kw ++ entries) fuzzy sub op c = handlerVia entries fuzzy sub op c := by
  unfold handlerVia
  by_cases hc : c = X
  · subst hc
    have h1 : (c == sub) = false := by
      simp only [beq_eq_false_iff_ne, ne_eq]; exact fun hh => hne hh.symm
    have hnf' : (c, op) ∉ fuzzy := by
      intro hm; rw [← List.contains_iff_mem] at hm; rw [hnf] at hm; cases hm
    simp [h1, hnf']
  · rw [assocGet_append, assocGet_newEntries_other _ _ _ _ _ hc]; rfl

/-! ### wildcard traversal -/

theorem ansOf_true {P H : Type} (r : Option H) : (ansOf true r : Answer P H) = .handler r := by
  cases r <;> rfl


/-- a strategy given by a state machine over the answers (`out (answers.foldl step s0)`), run
    without caches, directly on the state -/
def runSt {S : Type} (parse : Bool → String → P) (compute : R → String × String → Option H)
    (out : S → Sum Query O) (step : S → Answer P H → S) (star : Bool) (reg : Nat → R) : Nat → S → Option O
  | 0, _ => none
  | fuel + 1, s =>
    match out s with
    | .inr o => some o
    | .inl (.path text) => runSt parse compute out step star reg fuel (step s (.path (parse star text)))
    | .inl (.handler rg ty op rx) =>
      runSt parse compute out step star reg fuel (step s (ansOf rx (compute (reg rg) (ty, op))))

theorem runPure_fold {S : Type} (parse : Bool → String → P) (compute : R → String × String → Option H)
    (out : S → Sum Query O) (step : S → Answer P H → S) (s0 : S) (star : Bool) (reg : Nat → R) :
    ∀ (fuel : Nat) (answers : List (Answer P H)),
      runPure parse compute (fun a => out (a.foldl step s0)) star reg fuel answers =
        runSt parse compute out step star reg fuel (answers.foldl step s0) := by
  intro fuel
  induction fuel with
  | zero => intro answers; rfl
  | succ fuel ih =>
    intro answers
    simp only [runPure, runSt]
    cases hq : out (answers.foldl step s0) with
    | inr o => rfl
    | inl q =>
      cases q with
      | path text => simp only; rw [ih]; simp [List.foldl_append]
      | handler rg ty op rx => simp only; rw [ih]; simp [List.foldl_append]

/-- from the first lookup of an item, the traversal finds for every remaining item what
    `childUse` says, in order -/
theorem runSt_star (parse : Bool → String → P) (compute : R → String × String → Option H) (star : Bool)
    (reg : Nat → R) (rg : Nat) :
    ∀ (tys : List String) (acc : List (StarUse H)) (fuel : Nat), 3 * tys.length + 1 ≤ fuel →
      runSt parse compute (starOut rg) (starStep (P := P)) star reg fuel ⟨tys, .keys, acc⟩ =
        some (acc.reverse ++ tys.map (childUse (compute (reg rg)))) := by
  intro tys
  induction tys with
  | nil =>
    intro acc fuel hf
    obtain ⟨f, rfl⟩ : ∃ f, fuel = f + 1 := ⟨fuel - 1, by omega⟩
    simp [runSt, starOut]
  | cons ty rest ih =>
    intro acc fuel hf
    obtain ⟨f, rfl⟩ : ∃ f, fuel = f + 3 := ⟨fuel - 3, by simp only [List.length_cons] at hf; omega⟩
    simp only [List.length_cons] at hf
    simp only [List.map_cons, childUse]
    cases hk : compute (reg rg) (ty, "keys") with
    | some k =>
      rw [runSt]; simp only [starOut, starStep, ansOf_true, hk]
      cases hg : compute (reg rg) (ty, "get") with
      | some g =>
        rw [runSt]; simp only [starOut, starStep, ansOf_true, hg]
        rw [ih _ (f + 1) (by omega)]; simp
      | none =>
        rw [runSt]; simp only [starOut, starStep, ansOf_true, hg]
        cases hi : compute (reg rg) (ty, "iterate") with
        | some i =>
          rw [runSt]; simp only [starOut, starStep, ansOf_true, hi]
          rw [ih _ f (by omega)]; simp
        | none =>
          rw [runSt]; simp only [starOut, starStep, ansOf_true, hi]
          rw [ih _ f (by omega)]; simp
    | none =>
      rw [runSt]; simp only [starOut, starStep, ansOf_true, hk]
      cases hi : compute (reg rg) (ty, "iterate") with
      | some i =>
        rw [runSt]; simp only [starOut, starStep, ansOf_true, hi]
        rw [ih _ (f + 1) (by omega)]; simp
      | none =>
        rw [runSt]; simp only [starOut, starStep, ansOf_true, hi]
        rw [ih _ (f + 1) (by omega)]; simp

/-- a wildcard call without caches: per visited item, the handlers of the uncached lookups -/
theorem runPure_star (parse : Bool → String → P) (compute : R → String × String → Option H) (star : Bool)
    (reg : Nat → R) (rg : Nat) (tys : List String) (fuel : Nat) (hf : starFuel tys ≤ fuel) :
    runPure parse compute (starStrategy rg tys) star reg fuel [] =
      some (tys.map (childUse (compute (reg rg)))) := by
  unfold starStrategy
  rw [runPure_fold parse compute (starOut rg) (starStep (P := P)) ⟨tys, .keys, []⟩ star reg fuel []]
  simp only [List.foldl_nil]
  rw [runSt_star parse compute star reg rg tys [] fuel hf]
  simp

theorem refHistory_append_call (parse : Bool → String → P) (compute : R → String × String → Option H)
    (strat : Strategy P H O) (fuel : Nat) :
    ∀ (before : List (HOp P H O R)) (star : Bool) (reg : Nat → R),
      refHistory parse compute star reg (before ++ [.call strat fuel]) =
        refHistory parse compute star reg before ++
          [runPure parse compute strat (starAfter star before) (regsAfter reg before) fuel []] := by
  intro before
  induction before with
  | nil => intro star reg; simp [refHistory, starAfter, regsAfter]
  | cons op rest ih =>
    intro star reg
    cases op with
    | call s f => simp only [List.cons_append, refHistory, starAfter, regsAfter, ih]
    | setStar b => simp only [List.cons_append, refHistory, starAfter, regsAfter, ih]
    | register rg f => simp only [List.cons_append, refHistory, starAfter, regsAfter, ih]

/-! ### `Vars` on the heap -/

theorem hSet_length {V : Type} (h : VHeap V) (a : Nat) (d : VDict V) : (hSet h a d).length = h.length := by
  induction h generalizing a with
  | nil => rfl
  | cons x r ih => cases a <;> simp [hSet, ih]

theorem hSet_getD_same {V : Type} (h : VHeap V) (a : Nat) (d : VDict V) (ha : a < h.length) :
    (hSet h a d).getD a [] = d := by
  induction h generalizing a with
  | nil => cases ha
  | cons x r ih =>
    cases a with
    | zero => simp [hSet]
    | succ n =>
      simp only [hSet, List.getD_cons_succ]
      exact ih n (by simpa using ha)

theorem hSet_getD_other {V : Type} (h : VHeap V) (a b : Nat) (d : VDict V) (hb : b ≠ a) :
    (hSet h a d).getD b [] = h.getD b [] := by
  induction h generalizing a b with
  | nil => rfl
  | cons x r ih =>
    cases a with
    | zero =>
      cases b with
      | zero => exact absurd rfl hb
      | succ m => simp [hSet]
    | succ n =>
      cases b with
      | zero => simp [hSet]
      | succ m =>
        simp only [hSet, List.getD_cons_succ]
        exact ih n m (by omega)

/-- the reads / writes of an evaluation touch the object at `a` only, and read what a value-level
    dict would give -/
theorem runVOps_spec {V : Type} (ops : List (VOp V)) :
    ∀ (h : VHeap V) (a : Nat), a < h.length →
      (runVOps h a ops).2 = runVOpsPure (h.getD a []) ops ∧
      (runVOps h a ops).1.length = h.length ∧
      ∀ b, b ≠ a → (runVOps h a ops).1.getD b [] = h.getD b [] := by
  induction ops with
  | nil => intro h a _; exact ⟨rfl, rfl, fun _ _ => rfl⟩
  | cons op rest ih =>
    intro h a ha
    cases op with
    | write n v =>
      simp only [runVOps, runVOpsPure]
      have ha' : a < (hSet h a (dSet (h.getD a []) n v)).length := by rw [hSet_length]; exact ha
      obtain ⟨h1, h2, h3⟩ := ih (hSet h a (dSet (h.getD a []) n v)) a ha'
      refine ⟨?_, ?_, ?_⟩
      · rw [h1, hSet_getD_same _ _ _ ha]
      · rw [h2, hSet_length]
      · intro b hb; rw [h3 b hb, hSet_getD_other _ _ _ _ hb]
    | read n =>
      simp only [runVOps, runVOpsPure]
      obtain ⟨h1, h2, h3⟩ := ih h a ha
      exact ⟨by rw [h1], h2, h3⟩

/-! ## the heap model of `Model/C06Heap.lean` -/

/-! ### no object that existed is written -/

theorem Ext.refl (h : Heap) : Ext h h := ⟨Nat.le_refl _, fun _ _ => rfl⟩

theorem Ext.trans {a b c : Heap} (h1 : Ext a b) (h2 : Ext b c) : Ext a c :=
  ⟨Nat.le_trans h1.1 h2.1, fun i hi => by rw [h2.2 i (Nat.lt_of_lt_of_le hi h1.1), h1.2 i hi]⟩

theorem Ext.push (h : Heap) (o : Obj) : Ext h (h ++ [o]) :=
  ⟨by simp, fun i hi => List.getElem?_append_left hi⟩

theorem Ext.length_le {a b : Heap} (h : Ext a b) : a.length ≤ b.length := h.1

theorem Ext.get {a b : Heap} (h : Ext a b) (i : Nat) (hi : i < a.length) : b[i]? = a[i]? := h.2 i hi

theorem Ext.take {a b : Heap} (h : Ext a b) : b.take a.length = a := by
  apply List.ext_getElem?
  intro i
  rcases Nat.lt_or_ge i a.length with hi | hi
  · rw [List.getElem?_take_of_lt hi]; exact h.2 i hi
  · rw [List.getElem?_eq_none (by simp; omega), List.getElem?_eq_none hi]

/-- the heap afterwards is the heap before followed by (the current state of) the objects created since -/
theorem Ext.exists_append {a b : Heap} (h : Ext a b) : ∃ g, b = a ++ g :=
  ⟨b.drop a.length, by
    conv => lhs; rw [← List.take_append_drop a.length b]
    rw [h.take]⟩

/-- a write to an object created since leaves every object that existed as it was -/
theorem Ext.set {a b : Heap} (h : Ext a b) (r : Nat) (o : Obj) (hr : a.length ≤ r) : Ext a (b.set r o) :=
  ⟨by simp; exact h.1, fun i hi => by
    rw [List.getElem?_set_ne (by omega)]; exact h.2 i hi⟩

theorem dictStore_ext {a b : Heap} (h : Ext a b) (r : Nat) (k v : Val) (hr : a.length ≤ r) :
    Ext a (dictStore b r k v) := by
  unfold dictStore; split
  · exact h.set r _ hr
  · exact h

theorem dictUpdate_ext {a b : Heap} (h : Ext a b) (r : Nat) (kvs : List (Val × Val)) (hr : a.length ≤ r) :
    Ext a (dictUpdate b r kvs) := by
  unfold dictUpdate; split
  · exact h.set r _ hr
  · exact h

theorem listAppend_ext {a b : Heap} (h : Ext a b) (r : Nat) (v : Val) (hr : a.length ≤ r) :
    Ext a (listAppend b r v) := by
  unfold listAppend; split
  · exact h.set r _ hr
  · exact h

theorem listExtend_ext {a b : Heap} (h : Ext a b) (r : Nat) (vs : List Val) (hr : a.length ≤ r) :
    Ext a (listExtend b r vs) := by
  unfold listExtend; split
  · exact h.set r _ hr
  · exact h


theorem FreshFrom.mono {n m : Nat} {v : Val} (h : FreshFrom m v) (hnm : n ≤ m) : FreshFrom n v :=
  fun a ha => Nat.le_trans hnm (h a ha)

theorem freshFrom_ref (n : Nat) : FreshFrom n (.ref n) := by
  intro a ha; cases ha; exact Nat.le_refl _

theorem ofScalarPV_not_ref {p : PV} {v : Val} (h : ofScalarPV p = some v) : ∀ a, v ≠ .ref a := by
  intro a hv
  subst hv
  cases p <;> simp [ofScalarPV] at h

theorem liftPV_not_ref {r : Except PyExc PV} {v : Val} (h : liftPV r = .ok v) : ∀ a, v ≠ .ref a := by
  unfold liftPV at h
  split at h
  · split at h
    · rename_i hv
      cases h
      exact ofScalarPV_not_ref hv
    · cases h
  · cases h

/-- a Python-level operation that never writes an existing cell and whose value, when it is an
    object, is a new one -/
def GoodRes (h : Heap) (r : Res) : Prop := Ext h r.2 ∧ ∀ v, r.1 = .ok v → FreshFrom h.length v

theorem good_alloc (h : Heap) (o : Obj) : GoodRes h (alloc h o) :=
  ⟨Ext.push h o, by intro v hv; cases hv; exact freshFrom_ref _⟩

theorem good_err (h : Heap) (e : PyExc) : GoodRes h (errR h e) :=
  ⟨Ext.refl h, by intro v hv; cases hv⟩

theorem good_lift (h : Heap) (r : Except PyExc PV) : GoodRes h (liftPV r, h) :=
  ⟨Ext.refl h, by intro v hv a ha; exact absurd ha (liftPV_not_ref hv a)⟩

theorem good_seqRep (h : Heap) (mk : List Val → Obj) (xs : List Val) (n : PV) : GoodRes h (seqRep h mk xs n) := by
  unfold seqRep
  split
  · split
    · exact good_err _ _
    · exact good_alloc _ _
  · exact good_err _ _

theorem good_binSh (b : BinOp) (h : Heap) (x y : Sh) : GoodRes h (binSh b h x y) := by
  unfold binSh
  repeat' split
  all_goals first
    | exact good_err _ _
    | exact good_alloc _ _
    | exact good_seqRep _ _ _ _

theorem good_aBin (b : BinOp) (h : Heap) (x y : Val) : GoodRes h (aBin b h x y) := by
  unfold aBin
  split
  · exact good_lift _ _
  · exact good_binSh _ _ _ _

theorem good_aUn (u : UnOp) (h : Heap) (x : Val) : GoodRes h (aUn u h x) := by
  unfold aUn
  split
  · exact good_lift _ _
  · split <;> exact good_err _ _

theorem seqItem_heap (h : Heap) (xs : List Val) (key : Val) : (seqItem h xs key).2 = h := by
  unfold seqItem
  repeat' split
  all_goals rfl

/-- `cur[arg]` only reads the heap -/
theorem aGetitem_heap (h : Heap) (cur key : Val) : (aGetitem h cur key).2 = h := by
  unfold aGetitem
  repeat' split
  all_goals first | rfl | exact seqItem_heap _ _ _


theorem guard6_heap (r : Res) : (guard6 r).2 = r.2 := by
  unfold guard6
  repeat' split
  all_goals rfl

theorem guard6_ok {r : Res} {v : Val} (h : (guard6 r).1 = .ok v) : r.1 = .ok v := by
  unfold guard6 at h
  split at h
  · rename_i hv; simp at h; rw [hv, h]
  · split at h <;> simp at h


theorem raise6_heap (h : Heap) (e : PyExc) : (raise6 h e).2 = h := rfl

theorem raw6_heap (r : Res) : (raw6 r).2 = r.2 := by
  unfold raw6; split <;> rfl

theorem raw6_ok {r : Res} {v : Val} (h : (raw6 r).1 = .ok v) : r.1 = .ok v := by
  unfold raw6 at h
  split at h
  · rename_i hv; simp at h; rw [hv, h]
  · simp [raise6] at h


theorem applyOp_ext (op : TOp) (h : Heap) (cur arg : Val) : Ext h (applyOp op h cur arg).2 := by
  cases op with
  | item => simp only [applyOp, guard6_heap, aGetitem_heap]; exact Ext.refl h
  | bin b => simp only [applyOp, guard6_heap]; exact (good_aBin b h cur arg).1
  | un u => simp only [applyOp, guard6_heap]; exact (good_aUn u h cur).1

/-- the value of an arithmetic step is a scalar or a new object -/
theorem applyOp_fresh (op : TOp) (h : Heap) (cur arg v : Val) (hop : op ≠ .item)
    (hv : (applyOp op h cur arg).1 = .ok v) : FreshFrom h.length v := by
  cases op with
  | item => exact absurd rfl hop
  | bin b => exact (good_aBin b h cur arg).2 v (guard6_ok hv)
  | un u => exact (good_aUn u h cur).2 v (guard6_ok hv)

theorem mkSeq_ext (k : SeqKind) (h : Heap) (vs : List Val) : Ext h (mkSeq k h vs).2 := by
  unfold mkSeq
  repeat' split
  all_goals first | exact Ext.push _ _ | (rw [raise6_heap]; exact Ext.refl h)


theorem mkSeq_fresh (k : SeqKind) (h : Heap) (vs : List Val) (v : Val) (hv : (mkSeq k h vs).1 = .ok v) :
    FreshFrom h.length v := by
  unfold mkSeq at hv
  repeat' split at hv
  all_goals first
    | (simp at hv; subst hv; exact freshFrom_ref _)
    | (simp [raise6] at hv)

theorem mapInto_ext (f : Val → Heap → Out) (hf : ∀ x h, Ext h (f x h).2) (r : Nat) :
    ∀ (xs : List Val) (h0 h : Heap), Ext h0 h → h0.length ≤ r → Ext h0 (mapInto f r xs h).2 := by
  intro xs
  induction xs with
  | nil => intro h0 h he _; exact he
  | cons x rest ih =>
    intro h0 h he hr
    simp only [mapInto]
    have h1 := hf x h
    split
    · rename_i e h1' heq; rw [heq] at h1; exact he.trans h1
    · rename_i v h1' heq
      rw [heq] at h1
      exact ih h0 _ (listAppend_ext (he.trans h1) r v hr) hr

/-- a catalogue callable that is not the mutating one writes nothing that existed -/
theorem callFn6_ext (name : String) (h : Heap) (args : List Val) (hp : pureFn name = true) :
    Ext h (callFn6 name h args).2 := by
  unfold callFn6
  repeat' split
  all_goals first
    | exact Ext.refl h
    | exact Ext.push _ _
    | (rw [raw6_heap]; first | exact Ext.refl h | (rw [aGetitem_heap]; exact Ext.refl h))
    | (rename_i hn; simp [pureFn] at hp; simp_all)

theorem callFn6_fresh (name : String) (h : Heap) (args : List Val) (v : Val) (hn : fnNew name = true)
    (hv : (callFn6 name h args).1 = .ok v) : FreshFrom h.length v := by
  unfold callFn6 at hv
  repeat' split at hv
  all_goals first
    | (simp [raise6] at hv; done)
    | (simp at hv; subst hv; exact freshFrom_ref _)
    | (have := raw6_ok hv
       unfold lenOf at this
       repeat' split at this
       all_goals first | (simp at this; done) | (simp at this; subst this; intro a ha; cases ha))
    | (simp [fnNew] at hn; simp_all; done)



/-! ### the frame theorem, by mutual structural recursion over the syntax -/

mutual
theorem evalArg_ext : ∀ (sp : Sp), sp.pureCalls = true → ∀ (tgt : Val) (h : Heap), Ext h (evalArg sp tgt h).2
  | .lit v, _, tgt, h => by simp only [evalArg]; exact Ext.refl h
  | .t steps, hp, tgt, h => by
    simp only [evalArg]; exact tLoop_ext steps (by simpa [Sp.pureCalls] using hp) tgt tgt h
  | .seq k xs, hp, tgt, h => by
    simp only [evalArg]
    have hp' : xs.pureCalls = true := by simpa [Sp.pureCalls] using hp
    cases k with
    | list =>
      simp only
      have h1 := evalArgs_ext xs hp' tgt (h ++ [.list "list" []])
      split
      · rename_i vs h1' heq; rw [heq] at h1
        exact listExtend_ext ((Ext.push h _).trans h1) h.length vs (Nat.le_refl _)
      · rename_i e h1' heq; rw [heq] at h1; exact (Ext.push h _).trans h1
    | tuple =>
      simp only
      have h1 := evalArgs_ext xs hp' tgt h
      split
      · rename_i vs h1' heq; rw [heq] at h1; exact h1.trans (mkSeq_ext _ _ _)
      · rename_i e h1' heq; rw [heq] at h1; exact h1
    | set =>
      simp only
      have h1 := evalArgs_ext xs hp' tgt h
      split
      · rename_i vs h1' heq; rw [heq] at h1; exact h1.trans (mkSeq_ext _ _ _)
      · rename_i e h1' heq; rw [heq] at h1; exact h1
    | fset =>
      simp only
      have h1 := evalArgs_ext xs hp' tgt h
      split
      · rename_i vs h1' heq; rw [heq] at h1; exact h1.trans (mkSeq_ext _ _ _)
      · rename_i e h1' heq; rw [heq] at h1; exact h1
  | .dict es, hp, tgt, h => by
    simp only [evalArg]
    have h1 := evalArgPairs_ext es (by simpa [Sp.pureCalls] using hp) tgt (h ++ [.dict "dict" []])
    split
    · rename_i kvs h1' heq; rw [heq] at h1
      exact dictUpdate_ext ((Ext.push h _).trans h1) h.length kvs (Nat.le_refl _)
    · rename_i e h1' heq; rw [heq] at h1; exact (Ext.push h _).trans h1
  | .coalesce subs hd d, hp, tgt, h => by
    simp only [evalArg]
    have hp' : subs.pureCalls = true ∧ d.pureCalls = true := by simpa [Sp.pureCalls] using hp
    have h1 := coalesceRun_ext subs hp'.1 tgt h
    split
    · rename_i r h1' heq; rw [heq] at h1; exact h1
    · rename_i h1' heq
      rw [heq] at h1
      split
      · exact h1.trans (evalArg_ext d hp'.2 tgt h1')
      · exact h1
  | .call fn args, hp, tgt, h => by
    simp only [evalArg]
    have hp' : pureFn fn = true ∧ args.pureCalls = true := by simpa [Sp.pureCalls] using hp
    have h1 := evalArgs_ext args hp'.2 tgt h
    split
    · rename_i vs h1' heq; rw [heq] at h1; exact h1.trans (callFn6_ext fn h1' vs hp'.1)
    · rename_i e h1' heq; rw [heq] at h1; exact h1
theorem evalAuto_ext : ∀ (sp : Sp), sp.pureCalls = true → ∀ (tgt : Val) (h : Heap), Ext h (evalAuto sp tgt h).2
  | .lit v, hp, tgt, h => by
    simp only [evalAuto]
    cases v with
    | fn name => exact callFn6_ext name h [tgt] (by simpa [Sp.pureCalls] using hp)
    | _ => exact Ext.refl h
  | .t steps, hp, tgt, h => by
    simp only [evalAuto]; exact tLoop_ext steps (by simpa [Sp.pureCalls] using hp) tgt tgt h
  | .seq k xs, hp, tgt, h => by
    simp only [evalAuto]
    have hp' : xs.pureCalls = true := by simpa [Sp.pureCalls] using hp
    cases k with
    | list => exact listRun_ext xs hp' tgt h
    | tuple => exact chainRun_ext xs hp' tgt h
    | set => exact Ext.refl h
    | fset => exact Ext.refl h
  | .dict es, hp, tgt, h => by
    simp only [evalAuto]
    have h1 := autoPairs_ext es (by simpa [Sp.pureCalls] using hp) tgt h.length h (h ++ [.dict "dict" []])
      (Ext.push h _) (Nat.le_refl _)
    split
    · rename_i h1' heq; rw [heq] at h1; exact h1
    · rename_i e h1' heq; rw [heq] at h1; exact h1
  | .coalesce subs hd d, hp, tgt, h => by
    simp only [evalAuto]
    have hp' : subs.pureCalls = true ∧ d.pureCalls = true := by simpa [Sp.pureCalls] using hp
    have h1 := coalesceRun_ext subs hp'.1 tgt h
    split
    · rename_i r h1' heq; rw [heq] at h1; exact h1
    · rename_i h1' heq
      rw [heq] at h1
      split
      · exact h1.trans (evalArg_ext d hp'.2 tgt h1')
      · exact h1
  | .call fn args, hp, tgt, h => by
    simp only [evalAuto]
    have hp' : pureFn fn = true ∧ args.pureCalls = true := by simpa [Sp.pureCalls] using hp
    have h1 := evalArgs_ext args hp'.2 tgt h
    split
    · rename_i vs h1' heq; rw [heq] at h1; exact h1.trans (callFn6_ext fn h1' vs hp'.1)
    · rename_i e h1' heq; rw [heq] at h1; exact h1
theorem evalArgs_ext : ∀ (xs : Sps), xs.pureCalls = true → ∀ (tgt : Val) (h : Heap), Ext h (evalArgs xs tgt h).2
  | .nil, _, tgt, h => by simp only [evalArgs]; exact Ext.refl h
  | .cons x r, hp, tgt, h => by
    simp only [evalArgs]
    have hp' : x.pureCalls = true ∧ r.pureCalls = true := by simpa [Sps.pureCalls] using hp
    have h1 := evalArg_ext x hp'.1 tgt h
    split
    · rename_i e h1' heq; rw [heq] at h1; exact h1
    · rename_i v h1' heq
      rw [heq] at h1
      have h2 := evalArgs_ext r hp'.2 tgt h1'
      split
      · rename_i vs h2' heq2; rw [heq2] at h2; exact h1.trans h2
      · rename_i e h2' heq2; rw [heq2] at h2; exact h1.trans h2
theorem evalArgPairs_ext : ∀ (es : Pairs), es.pureCalls = true → ∀ (tgt : Val) (h : Heap),
    Ext h (evalArgPairs es tgt h).2
  | .nil, _, tgt, h => by simp only [evalArgPairs]; exact Ext.refl h
  | .cons k v r, hp, tgt, h => by
    simp only [evalArgPairs]
    have hp' : (k.pureCalls = true ∧ v.pureCalls = true) ∧ r.pureCalls = true := by simpa [Pairs.pureCalls] using hp
    have h1 := evalArg_ext k hp'.1.1 tgt h
    split
    · rename_i e h1' heq; rw [heq] at h1; exact h1
    · rename_i kv h1' heq
      rw [heq] at h1
      have h2 := evalArg_ext v hp'.1.2 tgt h1'
      split
      · rename_i e h2' heq2; rw [heq2] at h2; exact h1.trans h2
      · rename_i vv h2' heq2
        rw [heq2] at h2
        split
        · exact h1.trans h2
        · have h3 := evalArgPairs_ext r hp'.2 tgt h2'
          split
          · rename_i kvs h3' heq3; rw [heq3] at h3; exact (h1.trans h2).trans h3
          · rename_i e h3' heq3; rw [heq3] at h3; exact (h1.trans h2).trans h3
theorem autoPairs_ext : ∀ (es : Pairs), es.pureCalls = true → ∀ (tgt : Val) (r : Nat) (h0 h : Heap),
    Ext h0 h → h0.length ≤ r → Ext h0 (autoPairs es tgt r h).2
  | .nil, _, tgt, r, h0, h, he, _ => by simp only [autoPairs]; exact he
  | .cons k v rest, hp, tgt, r, h0, h, he, hr => by
    simp only [autoPairs]
    have hp' : (k.pureCalls = true ∧ v.pureCalls = true) ∧ rest.pureCalls = true := by simpa [Pairs.pureCalls] using hp
    have h1 := evalAuto_ext v hp'.1.2 tgt h
    split
    · rename_i e h1' heq; rw [heq] at h1; exact he.trans h1
    · rename_i vv h1' heq
      rw [heq] at h1
      have h2 := fieldRun_ext k hp'.1.1 tgt h1'
      split
      · rename_i e h2' heq2; rw [heq2] at h2; exact (he.trans h1).trans h2
      · rename_i kv h2' heq2
        rw [heq2] at h2
        split
        · exact (he.trans h1).trans h2
        · exact autoPairs_ext rest hp'.2 tgt r h0 _ (dictStore_ext ((he.trans h1).trans h2) r kv vv hr) hr
theorem fieldRun_ext : ∀ (sp : Sp), sp.pureCalls = true → ∀ (tgt : Val) (h : Heap), Ext h (fieldRun sp tgt h).2
  | .lit v, _, tgt, h => by simp only [fieldRun]; exact Ext.refl h
  | .t steps, hp, tgt, h => by
    simp only [fieldRun]; exact tLoop_ext steps (by simpa [Sp.pureCalls] using hp) tgt tgt h
  | .seq _ _, _, tgt, h => by simp only [fieldRun]; exact Ext.refl h
  | .dict _, _, tgt, h => by simp only [fieldRun]; exact Ext.refl h
  | .coalesce _ _ _, _, tgt, h => by simp only [fieldRun]; exact Ext.refl h
  | .call _ _, _, tgt, h => by simp only [fieldRun]; exact Ext.refl h
theorem listRun_ext : ∀ (xs : Sps), xs.pureCalls = true → ∀ (tgt : Val) (h : Heap), Ext h (listRun xs tgt h).2
  | .nil, _, tgt, h => by simp only [listRun]; exact Ext.refl h
  | .cons sub r, hp, tgt, h => by
    simp only [listRun]
    have hp' : sub.pureCalls = true ∧ r.pureCalls = true := by simpa [Sps.pureCalls] using hp
    cases r with
    | cons _ _ => exact Ext.refl h
    | nil =>
      simp only
      split
      · exact Ext.refl h
      · rename_i items _
        have h1 := mapInto_ext (evalAuto sub) (fun x h => evalAuto_ext sub hp'.1 x h) h.length items h
          (h ++ [.list "list" []]) (Ext.push h _) (Nat.le_refl _)
        split
        · rename_i h1' heq; rw [heq] at h1; exact h1
        · rename_i e h1' heq; rw [heq] at h1; exact h1
theorem chainRun_ext : ∀ (xs : Sps), xs.pureCalls = true → ∀ (tgt : Val) (h : Heap), Ext h (chainRun xs tgt h).2
  | .nil, _, tgt, h => by simp only [chainRun]; exact Ext.refl h
  | .cons x r, hp, tgt, h => by
    simp only [chainRun]
    have hp' : x.pureCalls = true ∧ r.pureCalls = true := by simpa [Sps.pureCalls] using hp
    have h1 := evalAuto_ext x hp'.1 tgt h
    split
    · rename_i e h1' heq; rw [heq] at h1; exact h1
    · rename_i v h1' heq; rw [heq] at h1; exact h1.trans (chainRun_ext r hp'.2 v h1')
theorem coalesceRun_ext : ∀ (xs : Sps), xs.pureCalls = true → ∀ (tgt : Val) (h : Heap),
    Ext h (coalesceRun xs tgt h).2
  | .nil, _, tgt, h => by simp only [coalesceRun]; exact Ext.refl h
  | .cons x r, hp, tgt, h => by
    simp only [coalesceRun]
    have hp' : x.pureCalls = true ∧ r.pureCalls = true := by simpa [Sps.pureCalls] using hp
    have h1 := evalAuto_ext x hp'.1 tgt h
    split
    · rename_i v h1' heq; rw [heq] at h1; exact h1
    · rename_i c h1' heq; rw [heq] at h1; exact h1.trans (coalesceRun_ext r hp'.2 tgt h1')
    · rename_i e h1' _ heq; rw [heq] at h1; exact h1
theorem tLoop_ext : ∀ (steps : Steps), steps.pureCalls = true → ∀ (tgt cur : Val) (h : Heap),
    Ext h (tLoop steps tgt cur h).2
  | .nil, _, tgt, cur, h => by simp only [tLoop]; exact Ext.refl h
  | .cons op a r, hp, tgt, cur, h => by
    simp only [tLoop]
    have hp' : a.pureCalls = true ∧ r.pureCalls = true := by simpa [Steps.pureCalls] using hp
    have h1 := evalArg_ext a hp'.1 tgt h
    split
    · rename_i e h1' heq; rw [heq] at h1; exact h1
    · rename_i av h1' heq
      rw [heq] at h1
      have h2 := applyOp_ext op h1' cur av
      split
      · rename_i v h2' heq2; rw [heq2] at h2; exact (h1.trans h2).trans (tLoop_ext r hp'.2 tgt v h2')
      · rename_i e h2' heq2; rw [heq2] at h2; exact h1.trans h2
end


/-! ### results that Python / glom builds anew are not old objects -/

theorem tLoop_fresh : ∀ (steps : Steps), steps.pureCalls = true → ∀ (tgt cur : Val) (h : Heap) (v : Val) (h' : Heap),
    tLoop steps tgt cur h = (.ok v, h') → steps.endsArith = true → FreshFrom h.length v
  | .nil, _, tgt, cur, h, v, h', _, hn => by simp [Steps.endsArith] at hn
  | .cons op a r, hp, tgt, cur, h, v, h', he, hn => by
    simp only [tLoop] at he
    have hp' : a.pureCalls = true ∧ r.pureCalls = true := by simpa [Steps.pureCalls] using hp
    have h1 := evalArg_ext a hp'.1 tgt h
    split at he
    · cases he
    · rename_i av h1' heq
      rw [heq] at h1
      have h2 := applyOp_ext op h1' cur av
      split at he
      · rename_i v1 h2' heq2
        rw [heq2] at h2
        cases r with
        | nil =>
          simp only [tLoop] at he
          cases he
          have hop : op ≠ .item := by
            intro hh; subst hh; simp [Steps.endsArith] at hn
          have := applyOp_fresh op h1' cur av v hop (by rw [heq2])
          exact this.mono h1.length_le
        | cons op2 a2 r2 =>
          have hn' : (Steps.cons op2 a2 r2).endsArith = true := by
            simpa [Steps.endsArith] using hn
          have := tLoop_fresh (.cons op2 a2 r2) hp'.2 tgt v1 h2' v h' he hn'
          exact this.mono (h1.trans h2).length_le
      · cases he

mutual
theorem evalArg_fresh : ∀ (sp : Sp), sp.pureCalls = true → ∀ (tgt : Val) (h : Heap) (v : Val) (h' : Heap),
    evalArg sp tgt h = (.ok v, h') → sp.newArg = true → FreshFrom h.length v
  | .lit w, _, tgt, h, v, h', he, hn => by
    simp only [evalArg] at he
    cases he
    intro a ha
    subst ha
    simp [Sp.newArg] at hn
  | .t steps, hp, tgt, h, v, h', he, hn => by
    simp only [evalArg] at he
    simp only [Sp.newArg] at hn
    exact tLoop_fresh steps (by simpa [Sp.pureCalls] using hp) tgt tgt h v h' he hn
  | .seq k xs, hp, tgt, h, v, h', he, _ => by
    simp only [evalArg] at he
    have hp' : xs.pureCalls = true := by simpa [Sp.pureCalls] using hp
    cases k with
    | list =>
      simp only at he
      split at he
      · cases he; exact freshFrom_ref _
      · cases he
    | tuple =>
      simp only at he
      have h1 := evalArgs_ext xs hp' tgt h
      split at he
      · rename_i vs h1' heq
        rw [heq] at h1
        exact (mkSeq_fresh _ h1' vs v (by rw [he])).mono h1.length_le
      · cases he
    | set =>
      simp only at he
      have h1 := evalArgs_ext xs hp' tgt h
      split at he
      · rename_i vs h1' heq
        rw [heq] at h1
        exact (mkSeq_fresh _ h1' vs v (by rw [he])).mono h1.length_le
      · cases he
    | fset =>
      simp only at he
      have h1 := evalArgs_ext xs hp' tgt h
      split at he
      · rename_i vs h1' heq
        rw [heq] at h1
        exact (mkSeq_fresh _ h1' vs v (by rw [he])).mono h1.length_le
      · cases he
  | .dict es, _, tgt, h, v, h', he, _ => by
    simp only [evalArg] at he
    split at he
    · cases he; exact freshFrom_ref _
    · cases he
  | .coalesce subs hd d, hp, tgt, h, v, h', he, hn => by
    simp only [evalArg] at he
    simp only [Sp.newArg, Bool.and_eq_true, Bool.or_eq_true, Bool.not_eq_true'] at hn
    have hp' : subs.pureCalls = true ∧ d.pureCalls = true := by simpa [Sp.pureCalls] using hp
    have h1 := coalesceRun_ext subs hp'.1 tgt h
    split at he
    · rename_i r h1' heq
      cases he
      exact coalesceRun_fresh subs hp'.1 tgt h v h' heq hn.1
    · rename_i h1' heq
      rw [heq] at h1
      split at he
      · rename_i hhd
        rcases hn.2 with hf | hd'
        · rw [hhd] at hf; cases hf
        · exact (evalArg_fresh d hp'.2 tgt h1' v h' he hd').mono h1.length_le
      · cases he
  | .call fn args, hp, tgt, h, v, h', he, hn => by
    simp only [evalArg] at he
    simp only [Sp.newArg] at hn
    have hp' : pureFn fn = true ∧ args.pureCalls = true := by simpa [Sp.pureCalls] using hp
    have h1 := evalArgs_ext args hp'.2 tgt h
    split at he
    · rename_i vs h1' heq
      rw [heq] at h1
      exact (callFn6_fresh fn h1' vs v hn (by rw [he])).mono h1.length_le
    · cases he
theorem evalAuto_fresh : ∀ (sp : Sp), sp.pureCalls = true → ∀ (tgt : Val) (h : Heap) (v : Val) (h' : Heap),
    evalAuto sp tgt h = (.ok v, h') → sp.mustBeNew = true → FreshFrom h.length v
  | .lit w, _, tgt, h, v, h', he, hn => by
    simp only [evalAuto] at he
    cases w with
    | fn name =>
      simp only [Sp.mustBeNew] at hn
      simp only at he
      exact callFn6_fresh name h [tgt] v hn (by rw [he])
    | _ => simp [Sp.mustBeNew] at hn
  | .t steps, hp, tgt, h, v, h', he, hn => by
    simp only [evalAuto] at he
    simp only [Sp.mustBeNew] at hn
    exact tLoop_fresh steps (by simpa [Sp.pureCalls] using hp) tgt tgt h v h' he hn
  | .seq k xs, hp, tgt, h, v, h', he, hn => by
    simp only [evalAuto] at he
    have hp' : xs.pureCalls = true := by simpa [Sp.pureCalls] using hp
    cases k with
    | list =>
      simp only at he
      cases xs with
      | nil => simp only [listRun] at he; cases he
      | cons sub r =>
        simp only [listRun] at he
        cases r with
        | cons _ _ => cases he
        | nil =>
          simp only at he
          split at he
          · cases he
          · split at he
            · cases he; exact freshFrom_ref _
            · cases he
    | tuple =>
      simp only at he
      simp only [Sp.mustBeNew] at hn
      exact chainRun_fresh xs hp' tgt h v h' he hn
    | set => simp [Sp.mustBeNew] at hn
    | fset => simp [Sp.mustBeNew] at hn
  | .dict es, _, tgt, h, v, h', he, _ => by
    simp only [evalAuto] at he
    split at he
    · cases he; exact freshFrom_ref _
    · cases he
  | .coalesce subs hd d, hp, tgt, h, v, h', he, hn => by
    simp only [evalAuto] at he
    simp only [Sp.mustBeNew, Bool.and_eq_true, Bool.or_eq_true, Bool.not_eq_true'] at hn
    have hp' : subs.pureCalls = true ∧ d.pureCalls = true := by simpa [Sp.pureCalls] using hp
    have h1 := coalesceRun_ext subs hp'.1 tgt h
    split at he
    · rename_i r h1' heq
      cases he
      exact coalesceRun_fresh subs hp'.1 tgt h v h' heq hn.1
    · rename_i h1' heq
      rw [heq] at h1
      split at he
      · rename_i hhd
        rcases hn.2 with hf | hd'
        · rw [hhd] at hf; cases hf
        · exact (evalArg_fresh d hp'.2 tgt h1' v h' he hd').mono h1.length_le
      · cases he
  | .call fn args, hp, tgt, h, v, h', he, hn => by
    simp only [evalAuto] at he
    simp only [Sp.mustBeNew] at hn
    have hp' : pureFn fn = true ∧ args.pureCalls = true := by simpa [Sp.pureCalls] using hp
    have h1 := evalArgs_ext args hp'.2 tgt h
    split at he
    · rename_i vs h1' heq
      rw [heq] at h1
      exact (callFn6_fresh fn h1' vs v hn (by rw [he])).mono h1.length_le
    · cases he
theorem chainRun_fresh : ∀ (xs : Sps), xs.pureCalls = true → ∀ (tgt : Val) (h : Heap) (v : Val) (h' : Heap),
    chainRun xs tgt h = (.ok v, h') → xs.lastNew = true → FreshFrom h.length v
  | .nil, _, tgt, h, v, h', he, hn => by simp [Sps.lastNew] at hn
  | .cons x r, hp, tgt, h, v, h', he, hn => by
    simp only [chainRun] at he
    have hp' : x.pureCalls = true ∧ r.pureCalls = true := by simpa [Sps.pureCalls] using hp
    have h1 := evalAuto_ext x hp'.1 tgt h
    split at he
    · cases he
    · rename_i v1 h1' heq
      rw [heq] at h1
      cases r with
      | nil =>
        simp only [chainRun] at he
        cases he
        simp only [Sps.lastNew] at hn
        exact evalAuto_fresh x hp'.1 tgt h v h' heq hn
      | cons y r2 =>
        simp only [Sps.lastNew] at hn
        exact (chainRun_fresh (.cons y r2) hp'.2 v1 h1' v h' he hn).mono h1.length_le
theorem coalesceRun_fresh : ∀ (xs : Sps), xs.pureCalls = true → ∀ (tgt : Val) (h : Heap) (v : Val) (h' : Heap),
    coalesceRun xs tgt h = (some (.ok v), h') → xs.allNew = true → FreshFrom h.length v
  | .nil, _, tgt, h, v, h', he, hn => by simp [coalesceRun] at he
  | .cons x r, hp, tgt, h, v, h', he, hn => by
    simp only [coalesceRun] at he
    simp only [Sps.allNew, Bool.and_eq_true] at hn
    have hp' : x.pureCalls = true ∧ r.pureCalls = true := by simpa [Sps.pureCalls] using hp
    have h1 := evalAuto_ext x hp'.1 tgt h
    split at he
    · rename_i v1 h1' heq
      cases he
      exact evalAuto_fresh x hp'.1 tgt h v h' heq hn.1
    · rename_i c h1' heq
      rw [heq] at h1
      exact (coalesceRun_fresh r hp'.2 tgt h1' v h' he hn.2).mono h1.length_le
    · cases he
end


/-! ### what an observer sees is preserved by a growing heap -/

theorem optMapM_mono {α β : Type} (f g : α → Option β) (hfg : ∀ x y, f x = some y → g x = some y) :
    ∀ (xs : List α) (ys : List β), optMapM f xs = some ys → optMapM g xs = some ys := by
  intro xs
  induction xs with
  | nil => intro ys h; exact h
  | cons x r ih =>
    intro ys h
    simp only [optMapM] at h ⊢
    cases hx : f x with
    | none => rw [hx] at h; simp at h
    | some y =>
      cases hr : optMapM f r with
      | none => rw [hx, hr] at h; simp at h
      | some ys' =>
        rw [hx, hr] at h
        rw [hfg x y hx, ih ys' hr]
        exact h

theorem view6_ext {h h' : Heap} (hext : Ext h h') :
    ∀ (fuel : Nat) (v : Val) (p : PV), view6 h fuel v = some p → view6 h' fuel v = some p := by
  intro fuel
  induction fuel with
  | zero =>
    intro v p hv
    unfold view6 at hv ⊢
    cases hs : scalarPV v with
    | some q => rw [hs] at hv; exact hv
    | none =>
      rw [hs] at hv
      cases v <;> first | (simp [scalarPV] at hs; done) | (simp at hv; done)
  | succ fuel ih =>
    intro v p hv
    unfold view6 at hv ⊢
    cases hs : scalarPV v with
    | some q => rw [hs] at hv; exact hv
    | none =>
      rw [hs] at hv
      cases v with
      | ref a =>
        simp only at hv ⊢
        cases ha : h[a]? with
        | none => rw [ha] at hv; simp at hv
        | some o =>
          have hlt : a < h.length := by
            rcases Nat.lt_or_ge a h.length with hl | hl
            · exact hl
            · rw [List.getElem?_eq_none hl] at ha; cases ha
          have ha' : h'[a]? = some o := by rw [hext.get a hlt, ha]
          rw [ha] at hv
          rw [ha']
          have mono := optMapM_mono (view6 h fuel) (view6 h' fuel) ih
          cases o with
          | list c xs =>
            simp only [Option.map_eq_some_iff] at hv ⊢
            obtain ⟨ys, h1, h2⟩ := hv
            exact ⟨ys, mono _ _ h1, h2⟩
          | tuple c xs =>
            simp only [Option.map_eq_some_iff] at hv ⊢
            obtain ⟨ys, h1, h2⟩ := hv
            exact ⟨ys, mono _ _ h1, h2⟩
          | set c xs =>
            simp only [Option.map_eq_some_iff] at hv ⊢
            obtain ⟨ys, h1, h2⟩ := hv
            exact ⟨ys, mono _ _ h1, h2⟩
          | dict c es =>
            simp only at hv ⊢
            cases hk : optMapM (view6 h fuel) (es.map (·.1)) with
            | none => rw [hk] at hv; simp at hv
            | some ks =>
              cases hvv : optMapM (view6 h fuel) (es.map (·.2)) with
              | none => rw [hk, hvv] at hv; simp at hv
              | some vs =>
                rw [hk, hvv] at hv
                rw [mono _ _ hk, mono _ _ hvv]
                exact hv
          | inst c attrs =>
            simp only [Option.map_eq_some_iff] at hv ⊢
            obtain ⟨ys, h1, h2⟩ := hv
            exact ⟨ys, mono _ _ h1, h2⟩
      | _ => simp [scalarPV] at hs

theorem runCalls_ext : ∀ (calls : List (Sp × Val)) (h : Heap), calls.all (fun c => c.1.pureCalls) = true →
    Ext h (runCalls calls h) := by
  intro calls
  induction calls with
  | nil => intro h _; exact Ext.refl h
  | cons c r ih =>
    intro h hp
    simp only [List.all_cons, Bool.and_eq_true] at hp
    simp only [runCalls]
    exact (evalAuto_ext c.1 hp.1 c.2 h).trans (ih _ hp.2)

/-! ## evaluations commute with relocation of the objects they create: the outcome does not depend on
    what else the heap holds -/

/-- the objects created after address `n0` moved by `k` places (an evaluation started in a heap
    that holds `k` more objects allocates its new objects `k` places further) -/
def relocAddr (n0 k a : Nat) : Nat := if a < n0 then a else a + k

def reloc (n0 k : Nat) : Val → Val
  | .ref a => .ref (relocAddr n0 k a)
  | v => v

def relocObj (n0 k : Nat) : Obj → Obj
  | .list c xs => .list c (xs.map (reloc n0 k))
  | .tuple c xs => .tuple c (xs.map (reloc n0 k))
  | .set c xs => .set c (xs.map (reloc n0 k))
  | .dict c es => .dict c (es.map (fun e => (reloc n0 k e.1, reloc n0 k e.2)))
  | .inst c as => .inst c (as.map (fun e => (e.1, reloc n0 k e.2)))

/-- the two heaps hold the same objects up to relocation -/
def Rel (n0 k : Nat) (h1 h2 : Heap) : Prop :=
  n0 ≤ h1.length ∧ h2.length = h1.length + k ∧
  ∀ a, a < h1.length → h2[relocAddr n0 k a]? = (h1[a]?).map (relocObj n0 k)

variable {n0 k : Nat}

theorem relocAddr_inj {a b : Nat} (h : relocAddr n0 k a = relocAddr n0 k b) : a = b := by
  unfold relocAddr at h
  split at h <;> split at h <;> omega

theorem relocAddr_ge {a : Nat} (h : n0 ≤ a) : relocAddr n0 k a = a + k := by
  unfold relocAddr; split <;> omega

theorem reloc_inj {x y : Val} (h : reloc n0 k x = reloc n0 k y) : x = y := by
  cases x <;> cases y <;> simp [reloc] at h ⊢ <;> first | exact h | exact relocAddr_inj h

theorem scalarPV_reloc (v : Val) : scalarPV (reloc n0 k v) = scalarPV v := by
  cases v <;> rfl

theorem reloc_scalar {v : Val} {p : PV} (h : scalarPV v = some p) : reloc n0 k v = v := by
  cases v <;> simp [scalarPV] at h <;> rfl

theorem reloc_not_ref {v : Val} (h : ∀ a, v ≠ .ref a) : reloc n0 k v = v := by
  cases v <;> first | rfl | exact absurd rfl (h _)

theorem pyKeyEq_reloc (x y : Val) : pyKeyEq (reloc n0 k x) (reloc n0 k y) = pyKeyEq x y := by
  cases x <;> cases y <;> simp [reloc, pyKeyEq]
  rename_i a b
  by_cases hab : a = b
  · subst hab; simp
  · have : relocAddr n0 k a ≠ relocAddr n0 k b := fun hh => hab (relocAddr_inj hh)
    have h1 : (relocAddr n0 k a == relocAddr n0 k b) = false := beq_eq_false_iff_ne.mpr this
    have h2 : (a == b) = false := beq_eq_false_iff_ne.mpr hab
    rw [h1, h2]

theorem Rel.get {h1 h2 : Heap} (hr : Rel n0 k h1 h2) (a : Nat) :
    h2[relocAddr n0 k a]? = (h1[a]?).map (relocObj n0 k) := by
  rcases Nat.lt_or_ge a h1.length with hl | hl
  · exact hr.2.2 a hl
  · have h1n : h1[a]? = none := List.getElem?_eq_none hl
    have : h2.length ≤ relocAddr n0 k a := by
      rw [relocAddr_ge (Nat.le_trans hr.1 hl), hr.2.1]; omega
    rw [List.getElem?_eq_none this, h1n]; rfl

theorem Rel.push {h1 h2 : Heap} (hr : Rel n0 k h1 h2) (o : Obj) :
    Rel n0 k (h1 ++ [o]) (h2 ++ [relocObj n0 k o]) := by
  refine ⟨by simp; have := hr.1; omega, by simp [hr.2.1]; omega, ?_⟩
  intro a ha
  simp only [List.length_append, List.length_cons, List.length_nil] at ha
  rcases Nat.lt_or_ge a h1.length with hl | hl
  · have hl2 : relocAddr n0 k a < h2.length := by
      unfold relocAddr; split
      · have := hr.1; have := hr.2.1; omega
      · have := hr.2.1; omega
    rw [List.getElem?_append_left hl2, List.getElem?_append_left hl]
    exact hr.2.2 a hl
  · have ha' : a = h1.length := by omega
    subst ha'
    rw [relocAddr_ge hr.1]
    have : h1.length + k = h2.length := hr.2.1.symm
    rw [this]
    simp

theorem Rel.new_addr {h1 h2 : Heap} (hr : Rel n0 k h1 h2) :
    reloc n0 k (.ref h1.length) = .ref h2.length := by
  simp only [reloc, relocAddr_ge hr.1, hr.2.1]

/-! ### shapes -/

def relocSh (n0 k : Nat) : Sh → Sh
  | .scalar p => .scalar p
  | .list xs => .list (xs.map (reloc n0 k))
  | .bytes xs => .bytes (xs.map (reloc n0 k))
  | .tuple xs => .tuple (xs.map (reloc n0 k))
  | .set f xs => .set f (xs.map (reloc n0 k))
  | .dict es => .dict (es.map (fun e => (reloc n0 k e.1, reloc n0 k e.2)))
  | .other => .other

theorem shapeOfObj_reloc (o : Obj) : shapeOfObj (relocObj n0 k o) = relocSh n0 k (shapeOfObj o) := by
  cases o <;> simp only [relocObj, shapeOfObj]
  all_goals first
    | rfl
    | (split <;> first | rfl | (split <;> rfl))

theorem shapeOf_reloc {h1 h2 : Heap} (hr : Rel n0 k h1 h2) (v : Val) :
    shapeOf h2 (reloc n0 k v) = relocSh n0 k (shapeOf h1 v) := by
  unfold shapeOf
  rw [scalarPV_reloc]
  cases hs : scalarPV v with
  | some p => rfl
  | none =>
    cases v with
    | ref a =>
      simp only [reloc]
      rw [hr.get a]
      cases h1[a]? with
      | none => rfl
      | some o => simp only [Option.map]; exact shapeOfObj_reloc o
    | _ => simp [scalarPV] at hs


/-! ### lists, sets and dicts of relocated values -/

theorem memK_reloc (xs : List Val) (x : Val) :
    memK (xs.map (reloc n0 k)) (reloc n0 k x) = memK xs x := by
  unfold memK
  rw [List.any_map]
  congr 1
  funext y
  exact pyKeyEq_reloc y x

theorem dedupK_reloc : ∀ (xs acc : List Val),
    dedupK (acc.map (reloc n0 k)) (xs.map (reloc n0 k)) = (dedupK acc xs).map (reloc n0 k) := by
  intro xs
  induction xs with
  | nil => intro acc; rfl
  | cons x r ih =>
    intro acc
    simp only [List.map_cons, dedupK, memK_reloc]
    split
    · exact ih acc
    · have := ih (acc ++ [x])
      simpa using this

theorem filter_memK_reloc (xs ys : List Val) :
    (xs.map (reloc n0 k)).filter (memK (ys.map (reloc n0 k))) = (xs.filter (memK ys)).map (reloc n0 k) := by
  rw [List.filter_map]
  congr 1
  apply List.filter_congr
  intro x _
  exact memK_reloc ys x

theorem filter_not_memK_reloc (xs ys : List Val) :
    (xs.map (reloc n0 k)).filter (fun x => !memK (ys.map (reloc n0 k)) x) =
      (xs.filter (fun x => !memK ys x)).map (reloc n0 k) := by
  rw [List.filter_map]
  congr 1
  apply List.filter_congr
  intro x _
  simp only [Function.comp, memK_reloc]

theorem setOp_reloc (b : BinOp) (xs ys : List Val) :
    setOp b (xs.map (reloc n0 k)) (ys.map (reloc n0 k)) = (setOp b xs ys).map (fun zs => zs.map (reloc n0 k)) := by
  cases b <;> simp only [setOp, Option.map, setUnion, setInter, setDiff, setSym, dedupK_reloc, filter_memK_reloc,
    filter_not_memK_reloc, List.map_append]

abbrev relocPair (n0 k : Nat) (e : Val × Val) : Val × Val := (reloc n0 k e.1, reloc n0 k e.2)

theorem dictPut_reloc : ∀ (es : List (Val × Val)) (key v : Val),
    dictPut (es.map (relocPair n0 k)) (reloc n0 k key) (reloc n0 k v) = (dictPut es key v).map (relocPair n0 k) := by
  intro es
  induction es with
  | nil => intro key v; rfl
  | cons e r ih =>
    intro key v
    obtain ⟨k', v'⟩ := e
    simp only [List.map_cons, dictPut, pyKeyEq_reloc]
    split
    · rfl
    · rw [ih key v]; rfl

theorem dictMerge_reloc : ∀ (c a : List (Val × Val)),
    dictMerge (a.map (relocPair n0 k)) (c.map (relocPair n0 k)) = (dictMerge a c).map (relocPair n0 k) := by
  intro c
  unfold dictMerge
  induction c with
  | nil => intro a; rfl
  | cons e r ih =>
    intro a
    simp only [List.map_cons, List.foldl_cons]
    have h1 : dictPut (a.map (relocPair n0 k)) (relocPair n0 k e).1 (relocPair n0 k e).2 =
        (dictPut a e.1 e.2).map (relocPair n0 k) := dictPut_reloc a e.1 e.2
    rw [h1]
    exact ih _

theorem dictLookup_reloc (es : List (Val × Val)) (key : Val) :
    dictLookup (es.map (relocPair n0 k)) (reloc n0 k key) = (dictLookup es key).map (reloc n0 k) := by
  unfold dictLookup
  rw [List.find?_map]
  have : ((fun e : Val × Val => pyKeyEq e.1 (reloc n0 k key)) ∘ relocPair n0 k) = fun e => pyKeyEq e.1 key := by
    funext e; simp only [Function.comp, pyKeyEq_reloc]
  rw [this]
  cases es.find? (fun e => pyKeyEq e.1 key) <;> rfl

theorem pyIndex_reloc (xs : List Val) (i : Int) :
    pyIndex (xs.map (reloc n0 k)) i = (pyIndex xs i).map (reloc n0 k) := by
  unfold pyIndex
  simp only [List.length_map, List.getElem?_map]
  repeat' split
  all_goals simp

theorem repeatList_reloc (xs : List Val) (n : Int) :
    C02.repeatList (xs.map (reloc n0 k)) n = (C02.repeatList xs n).map (reloc n0 k) := by
  unfold C02.repeatList
  rw [List.map_flatten, List.map_replicate]

theorem keyCheck_reloc {h1 h2 : Heap} (hr : Rel n0 k h1 h2) (key : Val) :
    keyCheck h2 (reloc n0 k key) = keyCheck h1 key := by
  cases key with
  | ref a =>
    simp only [reloc, keyCheck]
    rw [hr.get a]
    cases h1[a]? with
    | none => rfl
    | some o => cases o <;> rfl
  | _ => rfl

theorem keysCheck_reloc {h1 h2 : Heap} (hr : Rel n0 k h1 h2) :
    ∀ (ks : List Val), keysCheck h2 (ks.map (reloc n0 k)) = keysCheck h1 ks := by
  intro ks
  induction ks with
  | nil => rfl
  | cons x r ih => simp only [List.map_cons, keysCheck, keyCheck_reloc hr, ih]

/-! ### Python-level operations commute with relocation -/

/-- the second run does what the first did, relocated -/
def SimRes (n0 k : Nat) (r1 r2 : Res) : Prop :=
  r2.1 = r1.1.map (reloc n0 k) ∧ Rel n0 k r1.2 r2.2

theorem sim_alloc {h1 h2 : Heap} (hr : Rel n0 k h1 h2) (o1 o2 : Obj) (ho : o2 = relocObj n0 k o1) :
    SimRes n0 k (alloc h1 o1) (alloc h2 o2) := by
  subst ho
  refine ⟨?_, hr.push o1⟩
  simp only [alloc, Except.map]
  rw [hr.new_addr]

theorem sim_err {h1 h2 : Heap} (hr : Rel n0 k h1 h2) (e : PyExc) : SimRes n0 k (errR h1 e) (errR h2 e) :=
  ⟨rfl, hr⟩

theorem sim_ok {h1 h2 : Heap} (hr : Rel n0 k h1 h2) (v : Val) :
    SimRes n0 k (okR h1 v) (okR h2 (reloc n0 k v)) := ⟨rfl, hr⟩

theorem sim_lift {h1 h2 : Heap} (hr : Rel n0 k h1 h2) (r : Except PyExc PV) :
    SimRes n0 k (liftPV r, h1) (liftPV r, h2) := by
  refine ⟨?_, hr⟩
  cases hl : liftPV r with
  | error e => rfl
  | ok v => simp only [Except.map]; rw [reloc_not_ref (liftPV_not_ref hl)]

theorem sim_seqRep {h1 h2 : Heap} (hr : Rel n0 k h1 h2) (mk : List Val → Obj)
    (hmk : ∀ l, mk (l.map (reloc n0 k)) = relocObj n0 k (mk l)) (xs : List Val) (n : PV) :
    SimRes n0 k (seqRep h1 mk xs n) (seqRep h2 mk (xs.map (reloc n0 k)) n) := by
  unfold seqRep
  simp only [List.length_map]
  split
  · split
    · exact sim_err hr _
    · exact sim_alloc hr _ _ (by rw [repeatList_reloc, hmk])
  · exact sim_err hr _


theorem binSh_sim {h1 h2 : Heap} (hr : Rel n0 k h1 h2) (b : BinOp) (x y : Sh) :
    SimRes n0 k (binSh b h1 x y) (binSh b h2 (relocSh n0 k x) (relocSh n0 k y)) := by
  cases x with
  | set f xs =>
    cases y with
    | set g ys =>
      simp only [binSh, relocSh, setOp_reloc]
      cases setOp b xs ys with
      | none => exact sim_err hr _
      | some zs => exact sim_alloc hr _ _ rfl
    | _ => simp only [binSh, relocSh]; exact sim_err hr _
  | other => cases y <;> simp only [binSh, relocSh] <;> exact sim_err hr _
  | list xs =>
    cases y <;> cases b <;> simp only [binSh, relocSh] <;>
      first
        | exact sim_err hr _
        | exact sim_alloc hr _ _ (by simp [relocObj])
        | exact sim_seqRep hr _ (fun l => rfl) _ _
  | bytes xs =>
    cases y <;> cases b <;> simp only [binSh, relocSh] <;>
      first
        | exact sim_err hr _
        | exact sim_alloc hr _ _ (by simp [relocObj])
        | exact sim_seqRep hr _ (fun l => rfl) _ _
  | tuple xs =>
    cases y <;> cases b <;> simp only [binSh, relocSh] <;>
      first
        | exact sim_err hr _
        | exact sim_alloc hr _ _ (by simp [relocObj])
        | exact sim_seqRep hr _ (fun l => rfl) _ _
  | dict a =>
    cases y <;> cases b <;> simp only [binSh, relocSh] <;>
      first
        | exact sim_err hr _
        | exact sim_alloc hr _ _ (by simp only [relocObj]; rw [← dictMerge_reloc])
  | scalar p =>
    cases y <;> cases b <;> simp only [binSh, relocSh] <;>
      first
        | exact sim_err hr _
        | exact sim_seqRep hr _ (fun l => rfl) _ _
        | (split <;> exact sim_err hr _)

theorem aBin_sim {h1 h2 : Heap} (hr : Rel n0 k h1 h2) (b : BinOp) (x y : Val) :
    SimRes n0 k (aBin b h1 x y) (aBin b h2 (reloc n0 k x) (reloc n0 k y)) := by
  unfold aBin
  rw [scalarPV_reloc, scalarPV_reloc, shapeOf_reloc hr, shapeOf_reloc hr]
  split
  · exact sim_lift hr _
  · exact binSh_sim hr b _ _

theorem aUn_sim {h1 h2 : Heap} (hr : Rel n0 k h1 h2) (u : UnOp) (x : Val) :
    SimRes n0 k (aUn u h1 x) (aUn u h2 (reloc n0 k x)) := by
  unfold aUn
  rw [scalarPV_reloc, shapeOf_reloc hr]
  split
  · exact sim_lift hr _
  · cases shapeOf h1 x <;> simp only [relocSh] <;> exact sim_err hr _

theorem seqItem_sim {h1 h2 : Heap} (hr : Rel n0 k h1 h2) (xs : List Val) (key : Val) :
    SimRes n0 k (seqItem h1 xs key) (seqItem h2 (xs.map (reloc n0 k)) (reloc n0 k key)) := by
  cases key <;> simp only [seqItem, reloc, pyIndex_reloc] <;>
    first
      | exact sim_err hr _
      | (cases pyIndex xs _ <;> first | exact sim_err hr _ | exact sim_ok hr _)

theorem aGetitem_sim {h1 h2 : Heap} (hr : Rel n0 k h1 h2) (cur key : Val) :
    SimRes n0 k (aGetitem h1 cur key) (aGetitem h2 (reloc n0 k cur) (reloc n0 k key)) := by
  unfold aGetitem
  rw [shapeOf_reloc hr]
  cases shapeOf h1 cur with
  | dict es =>
    simp only [relocSh, keyCheck_reloc hr]
    cases keyCheck h1 key with
    | some e => exact sim_err hr _
    | none =>
      simp only
      rw [dictLookup_reloc (n0 := n0) (k := k) es key]
      cases dictLookup es key <;> first | exact sim_err hr _ | exact sim_ok hr _
  | list xs => exact seqItem_sim hr xs key
  | tuple xs => exact seqItem_sim hr xs key
  | bytes xs => exact seqItem_sim hr xs key
  | set f xs => exact sim_err hr _
  | scalar p => cases p <;> exact sim_err hr _
  | other => exact sim_err hr _



theorem Rel.set {h1 h2 : Heap} (hr : Rel n0 k h1 h2) (a : Nat) (o : Obj) (ha : a < h1.length) :
    Rel n0 k (h1.set a o) (h2.set (relocAddr n0 k a) (relocObj n0 k o)) := by
  have hlt : ∀ b, b < h1.length → relocAddr n0 k b < h2.length := by
    intro b hb
    unfold relocAddr; split
    · have := hr.2.1; omega
    · have := hr.2.1; omega
  refine ⟨by simp; exact hr.1, by simp; exact hr.2.1, ?_⟩
  intro b hb
  simp only [List.length_set] at hb
  by_cases hba : b = a
  · subst hba
    rw [List.getElem?_set_self (hlt b hb), List.getElem?_set_self hb]; rfl
  · have hne : relocAddr n0 k a ≠ relocAddr n0 k b := fun hh => hba (relocAddr_inj hh).symm
    rw [List.getElem?_set_ne hne, List.getElem?_set_ne (fun hh => hba hh.symm)]
    exact hr.2.2 b hb

theorem lt_of_getElem?_some {h : Heap} {a : Nat} {o : Obj} (hs : h[a]? = some o) : a < h.length := by
  rcases Nat.lt_or_ge a h.length with hl | hl
  · exact hl
  · rw [List.getElem?_eq_none hl] at hs; cases hs

theorem dictStore_sim {h1 h2 : Heap} (hr : Rel n0 k h1 h2) (r : Nat) (key v : Val) :
    Rel n0 k (dictStore h1 r key v) (dictStore h2 (relocAddr n0 k r) (reloc n0 k key) (reloc n0 k v)) := by
  unfold dictStore
  rw [hr.get r]
  cases hs : h1[r]? with
  | none => exact hr
  | some o =>
    cases o with
    | dict c es =>
      simp only [Option.map, relocObj]
      have := hr.set r (.dict c (dictPut es key v)) (lt_of_getElem?_some hs)
      simp only [relocObj] at this
      rw [← dictPut_reloc] at this
      exact this
    | _ => exact hr

theorem dictUpdate_sim {h1 h2 : Heap} (hr : Rel n0 k h1 h2) (r : Nat) (kvs : List (Val × Val)) :
    Rel n0 k (dictUpdate h1 r kvs) (dictUpdate h2 (relocAddr n0 k r) (kvs.map (relocPair n0 k))) := by
  unfold dictUpdate
  rw [hr.get r]
  cases hs : h1[r]? with
  | none => exact hr
  | some o =>
    cases o with
    | dict c es =>
      simp only [Option.map, relocObj]
      have := hr.set r (.dict c (dictMerge es kvs)) (lt_of_getElem?_some hs)
      simp only [relocObj] at this
      rw [← dictMerge_reloc] at this
      exact this
    | _ => exact hr

theorem listAppend_sim {h1 h2 : Heap} (hr : Rel n0 k h1 h2) (r : Nat) (v : Val) :
    Rel n0 k (listAppend h1 r v) (listAppend h2 (relocAddr n0 k r) (reloc n0 k v)) := by
  unfold listAppend
  rw [hr.get r]
  cases hs : h1[r]? with
  | none => exact hr
  | some o =>
    cases o with
    | list c xs =>
      simp only [Option.map, relocObj]
      have := hr.set r (.list c (xs ++ [v])) (lt_of_getElem?_some hs)
      simpa [relocObj] using this
    | _ => exact hr

theorem listExtend_sim {h1 h2 : Heap} (hr : Rel n0 k h1 h2) (r : Nat) (vs : List Val) :
    Rel n0 k (listExtend h1 r vs) (listExtend h2 (relocAddr n0 k r) (vs.map (reloc n0 k))) := by
  unfold listExtend
  rw [hr.get r]
  cases hs : h1[r]? with
  | none => exact hr
  | some o =>
    cases o with
    | list c xs =>
      simp only [Option.map, relocObj]
      have := hr.set r (.list c (xs ++ vs)) (lt_of_getElem?_some hs)
      simpa [relocObj] using this
    | _ => exact hr

theorem Rel.new_addr' {h1 h2 : Heap} (hr : Rel n0 k h1 h2) : relocAddr n0 k h1.length = h2.length := by
  rw [relocAddr_ge hr.1, hr.2.1]


/-! ### evaluations commute with relocation -/


def SimOut (n0 k : Nat) (o1 o2 : Out) : Prop :=
  o2.1 = o1.1.map (reloc n0 k) ∧ Rel n0 k o1.2 o2.2

def SimOuts (n0 k : Nat) (o1 o2 : Except Err6 (List Val) × Heap) : Prop :=
  o2.1 = o1.1.map (List.map (reloc n0 k)) ∧ Rel n0 k o1.2 o2.2

def SimPairs (n0 k : Nat) (o1 o2 : Except Err6 (List (Val × Val)) × Heap) : Prop :=
  o2.1 = o1.1.map (List.map (relocPair n0 k)) ∧ Rel n0 k o1.2 o2.2

theorem SimOut.cases {o1 o2 : Out} (h : SimOut n0 k o1 o2) :
    (∃ e a b, o1 = (.error e, a) ∧ o2 = (.error e, b) ∧ Rel n0 k a b) ∨
    (∃ v a b, o1 = (.ok v, a) ∧ o2 = (.ok (reloc n0 k v), b) ∧ Rel n0 k a b) := by
  obtain ⟨r1, a⟩ := o1
  obtain ⟨r2, b⟩ := o2
  obtain ⟨hv, hr⟩ := h
  simp only at hv hr
  subst hv
  cases r1 with
  | error e => exact Or.inl ⟨e, a, b, rfl, rfl, hr⟩
  | ok v => exact Or.inr ⟨v, a, b, rfl, rfl, hr⟩

theorem SimOuts.cases {o1 o2 : Except Err6 (List Val) × Heap} (h : SimOuts n0 k o1 o2) :
    (∃ e a b, o1 = (.error e, a) ∧ o2 = (.error e, b) ∧ Rel n0 k a b) ∨
    (∃ v a b, o1 = (.ok v, a) ∧ o2 = (.ok (v.map (reloc n0 k)), b) ∧ Rel n0 k a b) := by
  obtain ⟨r1, a⟩ := o1
  obtain ⟨r2, b⟩ := o2
  obtain ⟨hv, hr⟩ := h
  simp only at hv hr
  subst hv
  cases r1 with
  | error e => exact Or.inl ⟨e, a, b, rfl, rfl, hr⟩
  | ok v => exact Or.inr ⟨v, a, b, rfl, rfl, hr⟩

theorem SimPairs.cases {o1 o2 : Except Err6 (List (Val × Val)) × Heap} (h : SimPairs n0 k o1 o2) :
    (∃ e a b, o1 = (.error e, a) ∧ o2 = (.error e, b) ∧ Rel n0 k a b) ∨
    (∃ v a b, o1 = (.ok v, a) ∧ o2 = (.ok (v.map (relocPair n0 k)), b) ∧ Rel n0 k a b) := by
  obtain ⟨r1, a⟩ := o1
  obtain ⟨r2, b⟩ := o2
  obtain ⟨hv, hr⟩ := h
  simp only at hv hr
  subst hv
  cases r1 with
  | error e => exact Or.inl ⟨e, a, b, rfl, rfl, hr⟩
  | ok v => exact Or.inr ⟨v, a, b, rfl, rfl, hr⟩

theorem simOut_err {h1 h2 : Heap} (hr : Rel n0 k h1 h2) (e : Err6) : SimOut n0 k (.error e, h1) (.error e, h2) :=
  ⟨rfl, hr⟩

theorem simOut_ok {h1 h2 : Heap} (hr : Rel n0 k h1 h2) (v : Val) :
    SimOut n0 k (.ok v, h1) (.ok (reloc n0 k v), h2) := ⟨rfl, hr⟩

theorem guard6_sim {r1 r2 : Res} (h : SimRes n0 k r1 r2) : SimOut n0 k (guard6 r1) (guard6 r2) := by
  obtain ⟨v1, a⟩ := r1
  obtain ⟨v2, b⟩ := r2
  obtain ⟨hv, hr⟩ := h
  simp only at hv hr
  subst hv
  cases v1 with
  | ok v => exact ⟨rfl, hr⟩
  | error e =>
    simp only [guard6, Except.map]
    split <;> exact ⟨rfl, hr⟩

theorem raise6_sim {h1 h2 : Heap} (hr : Rel n0 k h1 h2) (e : PyExc) : SimOut n0 k (raise6 h1 e) (raise6 h2 e) :=
  ⟨rfl, hr⟩

theorem raw6_sim {r1 r2 : Res} (h : SimRes n0 k r1 r2) : SimOut n0 k (raw6 r1) (raw6 r2) := by
  obtain ⟨v1, a⟩ := r1
  obtain ⟨v2, b⟩ := r2
  obtain ⟨hv, hr⟩ := h
  simp only at hv hr
  subst hv
  cases v1 with
  | ok v => exact ⟨rfl, hr⟩
  | error e => exact ⟨rfl, hr⟩

theorem applyOp_sim {h1 h2 : Heap} (hr : Rel n0 k h1 h2) (op : TOp) (cur arg : Val) :
    SimOut n0 k (applyOp op h1 cur arg) (applyOp op h2 (reloc n0 k cur) (reloc n0 k arg)) := by
  cases op with
  | item => exact guard6_sim (aGetitem_sim hr cur arg)
  | bin b => exact guard6_sim (aBin_sim hr b cur arg)
  | un u => exact guard6_sim (aUn_sim hr u cur)

theorem new_ref_sim {h1 h2 : Heap} (hr : Rel n0 k h1 h2) (o : Obj) :
    SimOut n0 k (.ok (.ref h1.length), h1 ++ [o]) (.ok (.ref h2.length), h2 ++ [relocObj n0 k o]) := by
  refine ⟨?_, hr.push o⟩
  simp only [Except.map]
  rw [hr.new_addr]

theorem mkSeq_sim {h1 h2 : Heap} (hr : Rel n0 k h1 h2) (kind : SeqKind) (vs : List Val) :
    SimOut n0 k (mkSeq kind h1 vs) (mkSeq kind h2 (vs.map (reloc n0 k))) := by
  cases kind <;> simp only [mkSeq, keysCheck_reloc hr]
  · exact new_ref_sim hr _
  · exact new_ref_sim hr _
  · cases keysCheck h1 vs with
    | some e => exact raise6_sim hr e
    | none =>
      have := dedupK_reloc (n0 := n0) (k := k) vs []
      simp only [List.map_nil] at this
      simp only [this]
      exact new_ref_sim hr _
  · cases keysCheck h1 vs with
    | some e => exact raise6_sim hr e
    | none =>
      have := dedupK_reloc (n0 := n0) (k := k) vs []
      simp only [List.map_nil] at this
      simp only [this]
      exact new_ref_sim hr _

theorem iterItems_reloc {h1 h2 : Heap} (hr : Rel n0 k h1 h2) (v : Val) :
    iterItems h2 (reloc n0 k v) = (iterItems h1 v).map (List.map (reloc n0 k)) := by
  unfold iterItems
  rw [shapeOf_reloc hr]
  cases shapeOf h1 v <;> simp only [relocSh, Except.map, List.map_map] <;> rfl


/-- the outcome of a loop that returns no value: the error that ended it, if any -/
def SimUnit (n0 k : Nat) (o1 o2 : Option Err6 × Heap) : Prop := o2.1 = o1.1 ∧ Rel n0 k o1.2 o2.2

theorem mapInto_sim (f : Val → Heap → Out)
    (hf : ∀ x h1 h2, Rel n0 k h1 h2 → SimOut n0 k (f x h1) (f (reloc n0 k x) h2)) (r : Nat) :
    ∀ (xs : List Val) (h1 h2 : Heap), Rel n0 k h1 h2 →
      SimUnit n0 k (mapInto f r xs h1) (mapInto f (relocAddr n0 k r) (xs.map (reloc n0 k)) h2) := by
  intro xs
  induction xs with
  | nil => intro h1 h2 hr; exact ⟨rfl, hr⟩
  | cons x rest ih =>
    intro h1 h2 hr
    simp only [List.map_cons, mapInto]
    rcases (hf x h1 h2 hr).cases with ⟨e, a, b, e1, e2, hr'⟩ | ⟨v, a, b, e1, e2, hr'⟩
    · rw [e1, e2]; exact ⟨rfl, hr'⟩
    · rw [e1, e2]
      exact ih _ _ (listAppend_sim hr' r v)

theorem lenOf_reloc {h1 h2 : Heap} (hr : Rel n0 k h1 h2) (x : Val) :
    lenOf h2 (reloc n0 k x) = lenOf h1 x := by
  unfold lenOf
  rw [shapeOf_reloc hr]
  cases shapeOf h1 x <;> simp only [relocSh, List.length_map]

theorem copyItems_reloc {h1 h2 : Heap} (hr : Rel n0 k h1 h2) (x : Val) :
    copyItems h2 (reloc n0 k x) = (copyItems h1 x).map (List.map (reloc n0 k)) := by
  unfold copyItems
  rw [shapeOf_reloc hr]
  cases shapeOf h1 x with
  | scalar p => cases p <;> rfl
  | dict es => simp only [relocSh, Except.map, List.map_map]; rfl
  | _ => rfl

theorem callFn6_sim {h1 h2 : Heap} (hr : Rel n0 k h1 h2) (name : String) (args : List Val) :
    SimOut n0 k (callFn6 name h1 args) (callFn6 name h2 (args.map (reloc n0 k))) := by
  unfold callFn6
  split
  · -- len
    cases args with
    | nil => exact simOut_err hr _
    | cons x r =>
      cases r with
      | nil =>
        simp only [List.map_cons, List.map_nil, lenOf_reloc hr]
        cases hl : lenOf h1 x with
        | error e => exact raise6_sim hr e
        | ok v =>
          refine ⟨?_, hr⟩
          have : ∀ a, v ≠ .ref a := by
            intro a hv; subst hv
            unfold lenOf at hl
            repeat' split at hl
            all_goals simp at hl
          simp only [raw6, Except.map, reloc_not_ref this]
      | cons _ _ => exact simOut_err hr _
  · split
    · -- ident
      cases args with
      | nil => exact simOut_err hr _
      | cons x r => cases r with
        | nil => exact simOut_ok hr x
        | cons _ _ => exact simOut_err hr _
    · split
      · -- first
        cases args with
        | nil => exact simOut_err hr _
        | cons x r => cases r with
          | nil => exact raw6_sim (aGetitem_sim hr x (.int 0))
          | cons _ _ => exact simOut_err hr _
      · split
        · -- wrap
          cases args with
          | nil => exact simOut_err hr _
          | cons x r => cases r with
            | nil => exact new_ref_sim hr (.list "list" [x])
            | cons _ _ => exact simOut_err hr _
        · split
          · -- pair
            cases args with
            | nil => exact simOut_err hr _
            | cons x r => cases r with
              | nil => exact simOut_err hr _
              | cons y r2 => cases r2 with
                | nil => exact new_ref_sim hr (.list "list" [x, y])
                | cons _ _ => exact simOut_err hr _
          · split
            · -- list
              cases args with
              | nil => exact simOut_err hr _
              | cons x r => cases r with
                | nil =>
                  simp only [List.map_cons, List.map_nil, copyItems_reloc hr]
                  cases copyItems h1 x with
                  | error e => exact raise6_sim hr e
                  | ok xs => exact new_ref_sim hr (.list "list" xs)
                | cons _ _ => exact simOut_err hr _
            · split
              · -- tuple
                cases args with
                | nil => exact simOut_err hr _
                | cons x r => cases r with
                  | nil =>
                    simp only [List.map_cons, List.map_nil, copyItems_reloc hr]
                    cases copyItems h1 x with
                    | error e => exact raise6_sim hr e
                    | ok xs => exact new_ref_sim hr (.tuple "tuple" xs)
                  | cons _ _ => exact simOut_err hr _
              · split
                · -- append9: it writes its argument — in both runs the same object
                  cases args with
                  | nil => exact simOut_err hr _
                  | cons x r => cases r with
                    | cons _ _ => cases x <;> exact simOut_err hr _
                    | nil =>
                      cases x with
                      | ref a =>
                        simp only [List.map_cons, List.map_nil, reloc]
                        rw [hr.get a]
                        cases hs : h1[a]? with
                        | none => exact simOut_err hr _
                        | some o =>
                          cases o with
                          | list c xs =>
                            simp only [Option.map, relocObj]
                            refine ⟨rfl, ?_⟩
                            have := hr.set a (.list c (xs ++ [.int 9])) (lt_of_getElem?_some hs)
                            simpa [relocObj, reloc] using this
                          | _ => exact simOut_err hr _
                      | _ => exact simOut_err hr _
                · exact simOut_err hr _


theorem lit_closed_reloc {v : Val} (h : (Sp.lit v).closed n0 = true) : reloc n0 k v = v := by
  cases v with
  | ref a =>
    simp only [Sp.closed, decide_eq_true_eq] at h
    simp only [reloc, relocAddr, h, if_true]
  | _ => rfl

mutual
theorem evalArg_sim : ∀ (sp : Sp), sp.closed n0 = true → ∀ (tgt : Val) (h1 h2 : Heap), Rel n0 k h1 h2 →
    SimOut n0 k (evalArg sp tgt h1) (evalArg sp (reloc n0 k tgt) h2)
  | .lit v, hc, tgt, h1, h2, hr => by
    simp only [evalArg]
    have := simOut_ok hr v
    rwa [lit_closed_reloc hc] at this
  | .t steps, hc, tgt, h1, h2, hr => by
    simp only [evalArg]
    exact tLoop_sim steps (by simpa [Sp.closed] using hc) tgt tgt h1 h2 hr
  | .seq kind xs, hc, tgt, h1, h2, hr => by
    simp only [evalArg]
    have hc' : xs.closed n0 = true := by simpa [Sp.closed] using hc
    cases kind with
    | list =>
      simp only
      rcases (evalArgs_sim xs hc' tgt _ _ (hr.push (.list "list" []))).cases with
        ⟨e, a, b, e1, e2, hr'⟩ | ⟨vs, a, b, e1, e2, hr'⟩
      · simp only [relocObj, List.map_nil] at e2; rw [e1, e2]; exact simOut_err hr' e
      · simp only [relocObj, List.map_nil] at e2
        rw [e1, e2]
        refine ⟨?_, ?_⟩
        · simp only [Except.map]; rw [hr.new_addr]
        · have := listExtend_sim hr' h1.length vs
          rwa [hr.new_addr'] at this
    | tuple =>
      simp only
      rcases (evalArgs_sim xs hc' tgt h1 h2 hr).cases with ⟨e, a, b, e1, e2, hr'⟩ | ⟨vs, a, b, e1, e2, hr'⟩
      · rw [e1, e2]; exact simOut_err hr' e
      · rw [e1, e2]; exact mkSeq_sim hr' _ vs
    | set =>
      simp only
      rcases (evalArgs_sim xs hc' tgt h1 h2 hr).cases with ⟨e, a, b, e1, e2, hr'⟩ | ⟨vs, a, b, e1, e2, hr'⟩
      · rw [e1, e2]; exact simOut_err hr' e
      · rw [e1, e2]; exact mkSeq_sim hr' _ vs
    | fset =>
      simp only
      rcases (evalArgs_sim xs hc' tgt h1 h2 hr).cases with ⟨e, a, b, e1, e2, hr'⟩ | ⟨vs, a, b, e1, e2, hr'⟩
      · rw [e1, e2]; exact simOut_err hr' e
      · rw [e1, e2]; exact mkSeq_sim hr' _ vs
  | .dict es, hc, tgt, h1, h2, hr => by
    simp only [evalArg]
    rcases (evalArgPairs_sim es (by simpa [Sp.closed] using hc) tgt _ _ (hr.push (.dict "dict" []))).cases with
      ⟨e, a, b, e1, e2, hr'⟩ | ⟨kvs, a, b, e1, e2, hr'⟩
    · simp only [relocObj, List.map_nil] at e2; rw [e1, e2]; exact simOut_err hr' e
    · simp only [relocObj, List.map_nil] at e2
      rw [e1, e2]
      refine ⟨?_, ?_⟩
      · simp only [Except.map]; rw [hr.new_addr]
      · have := dictUpdate_sim hr' h1.length kvs
        rwa [hr.new_addr'] at this
  | .coalesce subs hd d, hc, tgt, h1, h2, hr => by
    simp only [evalArg]
    have hc' : subs.closed n0 = true ∧ d.closed n0 = true := by simpa [Sp.closed] using hc
    obtain ⟨hv, hr'⟩ := coalesceRun_sim subs hc'.1 tgt h1 h2 hr
    rcases ho1 : coalesceRun subs tgt h1 with ⟨r1, a⟩
    rcases ho2 : coalesceRun subs (reloc n0 k tgt) h2 with ⟨r2, b⟩
    rw [ho1, ho2] at hv hr'
    simp only at hv hr'
    subst hv
    cases r1 with
    | some r => exact ⟨rfl, hr'⟩
    | none =>
      simp only [Option.map]
      split
      · exact evalArg_sim d hc'.2 tgt a b hr'
      · exact simOut_err hr' _
  | .call fn args, hc, tgt, h1, h2, hr => by
    simp only [evalArg]
    rcases (evalArgs_sim args (by simpa [Sp.closed] using hc) tgt h1 h2 hr).cases with
      ⟨e, a, b, e1, e2, hr'⟩ | ⟨vs, a, b, e1, e2, hr'⟩
    · rw [e1, e2]; exact simOut_err hr' e
    · rw [e1, e2]; exact callFn6_sim hr' fn vs
theorem evalAuto_sim : ∀ (sp : Sp), sp.closed n0 = true → ∀ (tgt : Val) (h1 h2 : Heap), Rel n0 k h1 h2 →
    SimOut n0 k (evalAuto sp tgt h1) (evalAuto sp (reloc n0 k tgt) h2)
  | .lit v, hc, tgt, h1, h2, hr => by
    simp only [evalAuto]
    cases v with
    | fn name => exact callFn6_sim hr name [tgt]
    | _ => exact simOut_err hr _
  | .t steps, hc, tgt, h1, h2, hr => by
    simp only [evalAuto]
    exact tLoop_sim steps (by simpa [Sp.closed] using hc) tgt tgt h1 h2 hr
  | .seq kind xs, hc, tgt, h1, h2, hr => by
    simp only [evalAuto]
    have hc' : xs.closed n0 = true := by simpa [Sp.closed] using hc
    cases kind with
    | list => exact listRun_sim xs hc' tgt h1 h2 hr
    | tuple => exact chainRun_sim xs hc' tgt h1 h2 hr
    | set => exact simOut_err hr _
    | fset => exact simOut_err hr _
  | .dict es, hc, tgt, h1, h2, hr => by
    simp only [evalAuto]
    have hs := autoPairs_sim es (by simpa [Sp.closed] using hc) tgt h1.length _ _ (hr.push (.dict "dict" []))
    simp only [relocObj, List.map_nil, hr.new_addr'] at hs
    obtain ⟨hv, hr'⟩ := hs
    rcases ho1 : autoPairs es tgt h1.length (h1 ++ [.dict "dict" []]) with ⟨r1, a⟩
    rcases ho2 : autoPairs es (reloc n0 k tgt) h2.length (h2 ++ [.dict "dict" []]) with ⟨r2, b⟩
    rw [ho1, ho2] at hv hr'
    try rw [ho1, ho2]
    simp only at hv hr'
    subst hv
    cases r2 with
    | none =>
      refine ⟨?_, hr'⟩
      simp only [Except.map]; rw [hr.new_addr]
    | some e => exact ⟨rfl, hr'⟩
  | .coalesce subs hd d, hc, tgt, h1, h2, hr => by
    simp only [evalAuto]
    have hc' : subs.closed n0 = true ∧ d.closed n0 = true := by simpa [Sp.closed] using hc
    obtain ⟨hv, hr'⟩ := coalesceRun_sim subs hc'.1 tgt h1 h2 hr
    rcases ho1 : coalesceRun subs tgt h1 with ⟨r1, a⟩
    rcases ho2 : coalesceRun subs (reloc n0 k tgt) h2 with ⟨r2, b⟩
    rw [ho1, ho2] at hv hr'
    simp only at hv hr'
    subst hv
    cases r1 with
    | some r => exact ⟨rfl, hr'⟩
    | none =>
      simp only [Option.map]
      split
      · exact evalArg_sim d hc'.2 tgt a b hr'
      · exact simOut_err hr' _
  | .call fn args, hc, tgt, h1, h2, hr => by
    simp only [evalAuto]
    rcases (evalArgs_sim args (by simpa [Sp.closed] using hc) tgt h1 h2 hr).cases with
      ⟨e, a, b, e1, e2, hr'⟩ | ⟨vs, a, b, e1, e2, hr'⟩
    · rw [e1, e2]; exact simOut_err hr' e
    · rw [e1, e2]; exact callFn6_sim hr' fn vs
theorem evalArgs_sim : ∀ (xs : Sps), xs.closed n0 = true → ∀ (tgt : Val) (h1 h2 : Heap), Rel n0 k h1 h2 →
    SimOuts n0 k (evalArgs xs tgt h1) (evalArgs xs (reloc n0 k tgt) h2)
  | .nil, _, tgt, h1, h2, hr => by simp only [evalArgs]; exact ⟨rfl, hr⟩
  | .cons x r, hc, tgt, h1, h2, hr => by
    simp only [evalArgs]
    have hc' : x.closed n0 = true ∧ r.closed n0 = true := by simpa [Sps.closed] using hc
    rcases (evalArg_sim x hc'.1 tgt h1 h2 hr).cases with ⟨e, a, b, e1, e2, hr'⟩ | ⟨v, a, b, e1, e2, hr'⟩
    · rw [e1, e2]; exact ⟨rfl, hr'⟩
    · rw [e1, e2]
      simp only
      rcases (evalArgs_sim r hc'.2 tgt a b hr').cases with ⟨e, a2, b2, f1, f2, hr2⟩ | ⟨vs, a2, b2, f1, f2, hr2⟩
      · rw [f1, f2]; exact ⟨rfl, hr2⟩
      · rw [f1, f2]; exact ⟨rfl, hr2⟩
theorem evalArgPairs_sim : ∀ (es : Pairs), es.closed n0 = true → ∀ (tgt : Val) (h1 h2 : Heap), Rel n0 k h1 h2 →
    SimPairs n0 k (evalArgPairs es tgt h1) (evalArgPairs es (reloc n0 k tgt) h2)
  | .nil, _, tgt, h1, h2, hr => by simp only [evalArgPairs]; exact ⟨rfl, hr⟩
  | .cons kk v r, hc, tgt, h1, h2, hr => by
    simp only [evalArgPairs]
    have hc' : (kk.closed n0 = true ∧ v.closed n0 = true) ∧ r.closed n0 = true := by simpa [Pairs.closed] using hc
    rcases (evalArg_sim kk hc'.1.1 tgt h1 h2 hr).cases with ⟨e, a, b, e1, e2, hr'⟩ | ⟨kv, a, b, e1, e2, hr'⟩
    · rw [e1, e2]; exact ⟨rfl, hr'⟩
    · rw [e1, e2]
      simp only
      rcases (evalArg_sim v hc'.1.2 tgt a b hr').cases with ⟨e, a2, b2, f1, f2, hr2⟩ | ⟨vv, a2, b2, f1, f2, hr2⟩
      · rw [f1, f2]; exact ⟨rfl, hr2⟩
      · rw [f1, f2]
        simp only [keyCheck_reloc hr2]
        cases keyCheck a2 kv with
        | some e => exact ⟨rfl, hr2⟩
        | none =>
          simp only
          rcases (evalArgPairs_sim r hc'.2 tgt a2 b2 hr2).cases with
            ⟨e, a3, b3, g1, g2, hr3⟩ | ⟨kvs, a3, b3, g1, g2, hr3⟩
          · rw [g1, g2]; exact ⟨rfl, hr3⟩
          · rw [g1, g2]; exact ⟨rfl, hr3⟩
theorem autoPairs_sim : ∀ (es : Pairs), es.closed n0 = true → ∀ (tgt : Val) (r : Nat) (h1 h2 : Heap), Rel n0 k h1 h2 →
    SimUnit n0 k (autoPairs es tgt r h1) (autoPairs es (reloc n0 k tgt) (relocAddr n0 k r) h2)
  | .nil, _, tgt, r, h1, h2, hr => by simp only [autoPairs]; exact ⟨rfl, hr⟩
  | .cons kk v rest, hc, tgt, r, h1, h2, hr => by
    simp only [autoPairs]
    have hc' : (kk.closed n0 = true ∧ v.closed n0 = true) ∧ rest.closed n0 = true := by simpa [Pairs.closed] using hc
    rcases (evalAuto_sim v hc'.1.2 tgt h1 h2 hr).cases with ⟨e, a, b, e1, e2, hr'⟩ | ⟨vv, a, b, e1, e2, hr'⟩
    · rw [e1, e2]; exact ⟨rfl, hr'⟩
    · rw [e1, e2]
      simp only
      rcases (fieldRun_sim kk hc'.1.1 tgt a b hr').cases with ⟨e, a2, b2, f1, f2, hr2⟩ | ⟨kv, a2, b2, f1, f2, hr2⟩
      · rw [f1, f2]; exact ⟨rfl, hr2⟩
      · rw [f1, f2]
        simp only [keyCheck_reloc hr2]
        cases keyCheck a2 kv with
        | some e => exact ⟨rfl, hr2⟩
        | none => exact autoPairs_sim rest hc'.2 tgt r _ _ (dictStore_sim hr2 r kv vv)
theorem fieldRun_sim : ∀ (sp : Sp), sp.closed n0 = true → ∀ (tgt : Val) (h1 h2 : Heap), Rel n0 k h1 h2 →
    SimOut n0 k (fieldRun sp tgt h1) (fieldRun sp (reloc n0 k tgt) h2)
  | .lit v, hc, tgt, h1, h2, hr => by
    simp only [fieldRun]
    have := simOut_ok hr v
    rwa [lit_closed_reloc hc] at this
  | .t steps, hc, tgt, h1, h2, hr => by
    simp only [fieldRun]
    exact tLoop_sim steps (by simpa [Sp.closed] using hc) tgt tgt h1 h2 hr
  | .seq _ _, _, tgt, h1, h2, hr => by simp only [fieldRun]; exact simOut_err hr _
  | .dict _, _, tgt, h1, h2, hr => by simp only [fieldRun]; exact simOut_err hr _
  | .coalesce _ _ _, _, tgt, h1, h2, hr => by simp only [fieldRun]; exact simOut_err hr _
  | .call _ _, _, tgt, h1, h2, hr => by simp only [fieldRun]; exact simOut_err hr _
theorem listRun_sim : ∀ (xs : Sps), xs.closed n0 = true → ∀ (tgt : Val) (h1 h2 : Heap), Rel n0 k h1 h2 →
    SimOut n0 k (listRun xs tgt h1) (listRun xs (reloc n0 k tgt) h2)
  | .nil, _, tgt, h1, h2, hr => by simp only [listRun]; exact simOut_err hr _
  | .cons sub r, hc, tgt, h1, h2, hr => by
    simp only [listRun]
    have hc' : sub.closed n0 = true ∧ r.closed n0 = true := by simpa [Sps.closed] using hc
    cases r with
    | cons _ _ => exact simOut_err hr _
    | nil =>
      simp only [iterItems_reloc hr]
      cases iterItems h1 tgt with
      | error e => exact simOut_err hr e
      | ok items =>
        simp only [Except.map]
        have hs := mapInto_sim (evalAuto sub) (fun x a b hab => evalAuto_sim sub hc'.1 x a b hab) h1.length items
          _ _ (hr.push (.list "list" []))
        simp only [relocObj, List.map_nil, hr.new_addr'] at hs
        obtain ⟨hv, hr'⟩ := hs
        rcases ho1 : mapInto (evalAuto sub) h1.length items (h1 ++ [.list "list" []]) with ⟨r1, a⟩
        rcases ho2 : mapInto (evalAuto sub) h2.length (items.map (reloc n0 k)) (h2 ++ [.list "list" []]) with ⟨r2, b⟩
        rw [ho1, ho2] at hv hr'
        try rw [ho1, ho2]
        simp only at hv hr'
        subst hv
        cases r2 with
        | none =>
          refine ⟨?_, hr'⟩
          simp only [Except.map]; rw [hr.new_addr]
        | some e => exact ⟨rfl, hr'⟩
theorem chainRun_sim : ∀ (xs : Sps), xs.closed n0 = true → ∀ (tgt : Val) (h1 h2 : Heap), Rel n0 k h1 h2 →
    SimOut n0 k (chainRun xs tgt h1) (chainRun xs (reloc n0 k tgt) h2)
  | .nil, _, tgt, h1, h2, hr => by simp only [chainRun]; exact simOut_ok hr tgt
  | .cons x r, hc, tgt, h1, h2, hr => by
    simp only [chainRun]
    have hc' : x.closed n0 = true ∧ r.closed n0 = true := by simpa [Sps.closed] using hc
    rcases (evalAuto_sim x hc'.1 tgt h1 h2 hr).cases with ⟨e, a, b, e1, e2, hr'⟩ | ⟨v, a, b, e1, e2, hr'⟩
    · rw [e1, e2]; exact simOut_err hr' e
    · rw [e1, e2]; exact chainRun_sim r hc'.2 v a b hr'
theorem coalesceRun_sim : ∀ (xs : Sps), xs.closed n0 = true → ∀ (tgt : Val) (h1 h2 : Heap), Rel n0 k h1 h2 →
    (coalesceRun xs (reloc n0 k tgt) h2).1 = (coalesceRun xs tgt h1).1.map (fun r => r.map (reloc n0 k)) ∧
    Rel n0 k (coalesceRun xs tgt h1).2 (coalesceRun xs (reloc n0 k tgt) h2).2
  | .nil, _, tgt, h1, h2, hr => by simp only [coalesceRun]; exact ⟨rfl, hr⟩
  | .cons x r, hc, tgt, h1, h2, hr => by
    simp only [coalesceRun]
    have hc' : x.closed n0 = true ∧ r.closed n0 = true := by simpa [Sps.closed] using hc
    rcases (evalAuto_sim x hc'.1 tgt h1 h2 hr).cases with ⟨e, a, b, e1, e2, hr'⟩ | ⟨v, a, b, e1, e2, hr'⟩
    · rw [e1, e2]
      cases e with
      | glom c => exact coalesceRun_sim r hc'.2 tgt a b hr'
      | raised c => exact ⟨rfl, hr'⟩
      | unsupported => exact ⟨rfl, hr'⟩
    · rw [e1, e2]; exact ⟨rfl, hr'⟩
theorem tLoop_sim : ∀ (steps : Steps), steps.closed n0 = true → ∀ (tgt cur : Val) (h1 h2 : Heap), Rel n0 k h1 h2 →
    SimOut n0 k (tLoop steps tgt cur h1) (tLoop steps (reloc n0 k tgt) (reloc n0 k cur) h2)
  | .nil, _, tgt, cur, h1, h2, hr => by simp only [tLoop]; exact simOut_ok hr cur
  | .cons op a r, hc, tgt, cur, h1, h2, hr => by
    simp only [tLoop]
    have hc' : a.closed n0 = true ∧ r.closed n0 = true := by simpa [Steps.closed] using hc
    rcases (evalArg_sim a hc'.1 tgt h1 h2 hr).cases with ⟨e, x, y, e1, e2, hr'⟩ | ⟨av, x, y, e1, e2, hr'⟩
    · rw [e1, e2]; exact simOut_err hr' e
    · rw [e1, e2]
      simp only
      rcases (applyOp_sim hr' op cur av).cases with ⟨e, x2, y2, f1, f2, hr2⟩ | ⟨v, x2, y2, f1, f2, hr2⟩
      · rw [f1, f2]; exact simOut_err hr2 e
      · rw [f1, f2]; exact tLoop_sim r hc'.2 tgt v x2 y2 hr2
end


/-! ### a heap without dangling references, and what an observer sees -/

theorem reloc_closed {v : Val} (h : Val.closed6 n0 v = true) : reloc n0 k v = v := by
  cases v with
  | ref a =>
    simp only [Val.closed6, decide_eq_true_eq] at h
    simp only [reloc, relocAddr, h, if_true]
  | _ => rfl

theorem map_reloc_closed {xs : List Val} (h : xs.all (Val.closed6 n0) = true) : xs.map (reloc n0 k) = xs := by
  induction xs with
  | nil => rfl
  | cons x r ih =>
    simp only [List.all_cons, Bool.and_eq_true] at h
    simp only [List.map_cons, reloc_closed h.1, ih h.2]

theorem relocObj_closed {o : Obj} (h : Obj.closed6 n0 o = true) : relocObj n0 k o = o := by
  cases o with
  | list c xs => simp only [relocObj, map_reloc_closed (by simpa [Obj.closed6] using h)]
  | tuple c xs => simp only [relocObj, map_reloc_closed (by simpa [Obj.closed6] using h)]
  | set c xs => simp only [relocObj, map_reloc_closed (by simpa [Obj.closed6] using h)]
  | dict c es =>
    simp only [relocObj, Obj.closed6] at h ⊢
    congr 1
    induction es with
    | nil => rfl
    | cons e r ih =>
      simp only [List.all_cons, Bool.and_eq_true] at h
      simp only [List.map_cons, reloc_closed h.1.1, reloc_closed h.1.2, ih h.2]
  | inst c as =>
    simp only [relocObj, Obj.closed6] at h ⊢
    congr 1
    induction as with
    | nil => rfl
    | cons e r ih =>
      simp only [List.all_cons, Bool.and_eq_true] at h
      simp only [List.map_cons, reloc_closed h.1, ih h.2]

/-- a closed heap and the same heap with more objects after it hold the same objects -/
theorem rel_init (h g : Heap) (hc : heapClosed h = true) : Rel h.length g.length h (h ++ g) := by
  refine ⟨Nat.le_refl _, by simp, ?_⟩
  intro a ha
  have hra : relocAddr h.length g.length a = a := by simp [relocAddr, ha]
  rw [hra, List.getElem?_append_left ha]
  have hget : h[a]? = some h[a] := List.getElem?_eq_getElem ha
  rw [hget]
  simp only [Option.map]
  have : Obj.closed6 h.length h[a] = true := by
    unfold heapClosed at hc
    rw [List.all_eq_true] at hc
    exact hc _ (List.getElem_mem ha)
  rw [relocObj_closed this]

theorem optMapM_map_congr {α β γ : Type} (f : β → Option γ) (f' : α → Option γ) (g : α → β)
    (hfg : ∀ x, f (g x) = f' x) : ∀ (xs : List α), optMapM f (xs.map g) = optMapM f' xs := by
  intro xs
  induction xs with
  | nil => rfl
  | cons x r ih => simp only [List.map_cons, optMapM, hfg, ih]

theorem view6_reloc {h1 h2 : Heap} (hr : Rel n0 k h1 h2) :
    ∀ (fuel : Nat) (v : Val), view6 h2 fuel (reloc n0 k v) = view6 h1 fuel v := by
  intro fuel
  induction fuel with
  | zero =>
    intro v
    unfold view6
    rw [scalarPV_reloc]
    cases v <;> rfl
  | succ fuel ih =>
    intro v
    unfold view6
    rw [scalarPV_reloc]
    cases hs : scalarPV v with
    | some p => rfl
    | none =>
      cases v with
      | ref a =>
        simp only [reloc]
        rw [hr.get a]
        have hm := optMapM_map_congr (view6 h2 fuel) (view6 h1 fuel) (reloc n0 k) ih
        cases h1[a]? with
        | none => rfl
        | some o =>
          cases o with
          | list c xs => simp only [Option.map, relocObj, hm]
          | tuple c xs => simp only [Option.map, relocObj, hm]
          | set c xs => simp only [Option.map, relocObj, hm]
          | dict c es =>
            simp only [Option.map, relocObj]
            have h1' : (es.map (fun e => (reloc n0 k e.1, reloc n0 k e.2))).map (·.1) = (es.map (·.1)).map (reloc n0 k) := by
              simp only [List.map_map]; rfl
            have h2' : (es.map (fun e => (reloc n0 k e.1, reloc n0 k e.2))).map (·.2) = (es.map (·.2)).map (reloc n0 k) := by
              simp only [List.map_map]; rfl
            rw [h1', h2', hm, hm]
          | inst c as =>
            simp only [Option.map, relocObj]
            have h1' : (as.map (fun e => (e.1, reloc n0 k e.2))).map (·.1) = as.map (·.1) := by
              simp only [List.map_map]; rfl
            have h2' : (as.map (fun e => (e.1, reloc n0 k e.2))).map (·.2) = (as.map (·.2)).map (reloc n0 k) := by
              simp only [List.map_map]; rfl
            rw [h1', h2', hm]
      | _ => simp [scalarPV] at hs

/-- **evaluating in a heap that holds more objects gives the same outcome**, as far as an observer
    can tell (the tree the value denotes, or the error) -/
theorem outView_more (sp : Sp) (tgt : Val) (h g : Heap) (fuel : Nat)
    (hh : heapClosed h = true) (ht : Val.closed6 h.length tgt = true) (hs : sp.closed h.length = true) :
    outView fuel (evalAuto sp tgt (h ++ g)) = outView fuel (evalAuto sp tgt h) := by
  have hsim := evalAuto_sim sp hs tgt h (h ++ g) (rel_init h g hh)
  rw [reloc_closed ht] at hsim
  rcases hsim.cases with ⟨e, a, b, e1, e2, hr'⟩ | ⟨v, a, b, e1, e2, hr'⟩
  · rw [e1, e2]; rfl
  · rw [e1, e2]
    simp only [outView, Except.map]
    rw [view6_reloc hr']

end Glom.C06
