import Glom.Lemmas.C17
/-
  C17 — helper lemmas, Part F: what a run leaves in the caller's source.

  The demand-driven chain touches the source through `Src.next` at the current
  position only.  So two sources that read the same from two positions on
  (`SrcAgree`) drive every chain through the same states, answers and numbers of
  pulls.  Instances: a source at position `p` and the fresh source `src.drop p`
  (a second pipeline over a used source sees exactly the suffix); a source from
  which somebody else took the items `[p, q)` and the source without them (a
  suspended iterator that is resumed later).
-/
namespace Glom.C17

/-- `a` read from position `pa` on is `b` read from position `pb` on -/
def SrcAgree (a b : Src) (pa pb : Nat) : Prop :=
  ∀ i, (a.next (pa + i)).1 = (b.next (pb + i)).1 ∧
    ∃ j, (a.next (pa + i)).2 = pa + j ∧ (b.next (pb + i)).2 = pb + j

theorem srcAgree_drop (src : Src) (p : Nat) : SrcAgree (src.drop p) src 0 p := by
  intro i
  cases src with
  | fin xs tail =>
    simp only [Src.drop, Src.next, Nat.zero_add, List.getElem?_drop]
    cases xs[p + i]? with
    | some v => exact ⟨rfl, i + 1, by simp, by simp [Nat.add_assoc]⟩
    | none => exact ⟨rfl, i, by simp, by simp⟩
  | inf f => exact ⟨by simp [Src.drop, Src.next], i + 1, by simp [Src.drop, Src.next], by simp [Src.next, Nat.add_assoc]⟩

/-- the source from which the items at `[p, q)` were taken by somebody else -/
def Src.without (s : Src) (p q : Nat) : Src :=
  match s with
  | .fin xs tail => .fin (xs.take p ++ xs.drop q) tail
  | .inf f => .inf (fun n => if n < p then f n else f (q - p + n))

theorem srcAgree_without (src : Src) (p q : Nat) (hpq : p ≤ q)
    (hlen : match src with | .fin xs _ => p ≤ xs.length | .inf _ => True) :
    SrcAgree (src.without p q) src p q := by
  intro i
  cases src with
  | fin xs tail =>
    simp only at hlen
    have hget : (xs.take p ++ xs.drop q)[p + i]? = xs[q + i]? := by
      rw [List.getElem?_append_right (by simp; omega)]
      simp only [List.length_take, List.getElem?_drop]
      congr 1
      omega
    simp only [Src.without, Src.next, hget]
    cases xs[q + i]? with
    | some v => exact ⟨rfl, i + 1, by simp [Nat.add_assoc], by simp [Nat.add_assoc]⟩
    | none => exact ⟨rfl, i, by simp, by simp⟩
  | inf f =>
    refine ⟨?_, i + 1, by simp [Src.without, Src.next, Nat.add_assoc], by simp [Src.next, Nat.add_assoc]⟩
    simp only [Src.without, Src.next]
    rw [if_neg (by omega)]
    congr 2
    omega

/-- one `next()` on the same chain over two agreeing sources: same answer, same states,
    same number of pulls -/
theorem pullFrom_agree {a b : Src} {pa pb : Nat} (h : SrcAgree a b pa pb) :
    ∀ (fuel : Nat) (sts : List StageSt) (i : Nat),
      (pullFrom a fuel sts (pa + i)).1 = (pullFrom b fuel sts (pb + i)).1 ∧
      (pullFrom a fuel sts (pa + i)).2.1 = (pullFrom b fuel sts (pb + i)).2.1 ∧
      ∃ j, (pullFrom a fuel sts (pa + i)).2.2 = pa + j ∧ (pullFrom b fuel sts (pb + i)).2.2 = pb + j := by
  intro fuel
  induction fuel with
  | zero =>
    intro sts i
    cases sts with
    | nil => rw [pullFrom_nil, pullFrom_nil]; exact ⟨(h i).1, rfl, (h i).2⟩
    | cons st rest => rw [pullFrom_zero, pullFrom_zero]; exact ⟨rfl, rfl, i, rfl, rfl⟩
  | succ fuel ih =>
    intro sts i
    cases sts with
    | nil => rw [pullFrom_nil, pullFrom_nil]; exact ⟨(h i).1, rfl, (h i).2⟩
    | cons st rest =>
      rw [pullFrom_succ, pullFrom_succ]
      rcases st.poll with ⟨act, st'⟩
      cases act with
      | emit v => exact ⟨rfl, rfl, i, rfl, rfl⟩
      | done => exact ⟨rfl, rfl, i, rfl, rfl⟩
      | fail e => exact ⟨rfl, rfl, i, rfl, rfl⟩
      | pull =>
        simp only
        obtain ⟨h1, h2, j, h3, h4⟩ := ih rest i
        rcases ha : pullFrom a fuel rest (pa + i) with ⟨ra, sa, qa⟩
        rcases hb : pullFrom b fuel rest (pb + i) with ⟨rb, sb, qb⟩
        rw [ha, hb] at h1 h2
        rw [ha] at h3
        rw [hb] at h4
        simp only at h1 h2 h3 h4
        subst h1 h2 h3 h4
        cases ra with
        | item u => exact ih _ j
        | eof => exact ih _ j
        | err e => exact ⟨rfl, rfl, j, rfl, rfl⟩
        | oof => exact ⟨rfl, rfl, j, rfl, rfl⟩

/-- two `glomit` results that differ by the offset of the positions only -/
def BuiltRel (pa pb : Nat) : Built → Built → Prop
  | .ok s p, .ok s' p' => s = s' ∧ ∃ j, p = pa + j ∧ p' = pb + j
  | .err e p, .err e' p' => e = e' ∧ ∃ j, p = pa + j ∧ p' = pb + j
  | .oof, .oof => True
  | _, _ => False

theorem prime_agree {a b : Src} {pa pb : Nat} (h : SrcAgree a b pa pb) (fuel : Nat) :
    ∀ (n : Nat) (st : StageSt) (below : List StageSt) (i : Nat),
      BuiltRel pa pb (prime a fuel n st below (pa + i)) (prime b fuel n st below (pb + i)) := by
  intro n
  induction n with
  | zero => intro st below i; exact ⟨rfl, i, rfl, rfl⟩
  | succ n ih =>
    intro st below i
    simp only [prime]
    rcases st.poll with ⟨act, st'⟩
    cases act with
    | emit v => trivial
    | done => trivial
    | fail e => trivial
    | pull =>
      simp only
      obtain ⟨h1, h2, j, h3, h4⟩ := pullFrom_agree h fuel below i
      rcases ha : pullFrom a fuel below (pa + i) with ⟨ra, sa, qa⟩
      rcases hb : pullFrom b fuel below (pb + i) with ⟨rb, sb, qb⟩
      rw [ha, hb] at h1 h2
      rw [ha] at h3
      rw [hb] at h4
      simp only at h1 h2 h3 h4
      subst h1 h2 h3 h4
      cases ra with
      | item u => exact ih _ _ j
      | eof => exact ⟨rfl, j, rfl, rfl⟩
      | err e => exact ⟨rfl, j, rfl, rfl⟩
      | oof => trivial

theorem construct_agree {a b : Src} {pa pb : Nat} (h : SrcAgree a b pa pb) (fuel : Nat) :
    ∀ (ks : List Kind) (acc : List StageSt) (i : Nat),
      BuiltRel pa pb (construct a fuel ks acc (pa + i)) (construct b fuel ks acc (pb + i)) := by
  intro ks
  induction ks with
  | nil => intro acc i; exact ⟨rfl, i, rfl, rfl⟩
  | cons k ks ih =>
    intro acc i
    simp only [construct]
    have hp := prime_agree h fuel k.primeCount (StageSt.init k) acc i
    generalize prime a fuel k.primeCount (StageSt.init k) acc (pa + i) = A at hp ⊢
    generalize prime b fuel k.primeCount (StageSt.init k) acc (pb + i) = B at hp ⊢
    cases A <;> cases B <;> simp only [BuiltRel] at hp
    case ok.ok sa qa sb qb =>
      obtain ⟨rfl, j, rfl, rfl⟩ := hp
      exact ih _ j
    case err.err ea qa eb qb => exact hp
    case oof.oof => trivial

theorem takeK_agree {a b : Src} {pa pb : Nat} (h : SrcAgree a b pa pb) (fuel : Nat) :
    ∀ (k : Nat) (sts : List StageSt) (i : Nat) (acc : List V),
      (takeK a fuel k sts (pa + i) acc).1.items = (takeK b fuel k sts (pb + i) acc).1.items ∧
      (takeK a fuel k sts (pa + i) acc).1.fin = (takeK b fuel k sts (pb + i) acc).1.fin ∧
      (takeK a fuel k sts (pa + i) acc).2 = (takeK b fuel k sts (pb + i) acc).2 ∧
      ∃ j, (takeK a fuel k sts (pa + i) acc).1.pulls = pa + j ∧ (takeK b fuel k sts (pb + i) acc).1.pulls = pb + j := by
  intro k
  induction k with
  | zero => intro sts i acc; exact ⟨rfl, rfl, rfl, i, rfl, rfl⟩
  | succ k ih =>
    intro sts i acc
    simp only [takeK]
    obtain ⟨h1, h2, j, h3, h4⟩ := pullFrom_agree h fuel sts i
    rcases ha : pullFrom a fuel sts (pa + i) with ⟨ra, sa, qa⟩
    rcases hb : pullFrom b fuel sts (pb + i) with ⟨rb, sb, qb⟩
    rw [ha, hb] at h1 h2
    rw [ha] at h3
    rw [hb] at h4
    simp only at h1 h2 h3 h4
    subst h1 h2 h3 h4
    cases ra with
    | item u => exact ih _ j _
    | eof => exact ⟨rfl, rfl, rfl, j, rfl, rfl⟩
    | err e => exact ⟨rfl, rfl, rfl, j, rfl, rfl⟩
    | oof => exact ⟨rfl, rfl, rfl, j, rfl, rfl⟩

theorem drain_agree {a b : Src} {pa pb : Nat} (h : SrcAgree a b pa pb) (fuel : Nat) :
    ∀ (n : Nat) (sts : List StageSt) (i : Nat) (acc : List V),
      (drain a fuel n sts (pa + i) acc).items = (drain b fuel n sts (pb + i) acc).items ∧
      (drain a fuel n sts (pa + i) acc).fin = (drain b fuel n sts (pb + i) acc).fin ∧
      ∃ j, (drain a fuel n sts (pa + i) acc).pulls = pa + j ∧ (drain b fuel n sts (pb + i) acc).pulls = pb + j := by
  intro n
  induction n with
  | zero => intro sts i acc; exact ⟨rfl, rfl, i, rfl, rfl⟩
  | succ n ih =>
    intro sts i acc
    simp only [drain]
    obtain ⟨h1, h2, j, h3, h4⟩ := pullFrom_agree h fuel sts i
    rcases ha : pullFrom a fuel sts (pa + i) with ⟨ra, sa, qa⟩
    rcases hb : pullFrom b fuel sts (pb + i) with ⟨rb, sb, qb⟩
    rw [ha, hb] at h1 h2
    rw [ha] at h3
    rw [hb] at h4
    simp only at h1 h2 h3 h4
    subst h1 h2 h3 h4
    cases ra with
    | item u => exact ih _ j _
    | eof => exact ⟨rfl, rfl, j, rfl, rfl⟩
    | err e => exact ⟨rfl, rfl, j, rfl, rfl⟩
    | oof => exact ⟨rfl, rfl, j, rfl, rfl⟩

theorem firstOf_agree {a b : Src} {pa pb : Nat} (h : SrcAgree a b pa pb) (fuel : Nat) (key : Fn) :
    ∀ (n : Nat) (sts : List StageSt) (i : Nat),
      firstObsOf (firstOf a fuel key n sts (pa + i)).1 = firstObsOf (firstOf b fuel key n sts (pb + i)).1 ∧
      ∃ j, (firstOf a fuel key n sts (pa + i)).2 = pa + j ∧ (firstOf b fuel key n sts (pb + i)).2 = pb + j := by
  intro n
  induction n with
  | zero => intro sts i; exact ⟨rfl, i, rfl, rfl⟩
  | succ n ih =>
    intro sts i
    simp only [firstOf]
    obtain ⟨h1, h2, j, h3, h4⟩ := pullFrom_agree h fuel sts i
    rcases ha : pullFrom a fuel sts (pa + i) with ⟨ra, sa, qa⟩
    rcases hb : pullFrom b fuel sts (pb + i) with ⟨rb, sb, qb⟩
    rw [ha, hb] at h1 h2
    rw [ha] at h3
    rw [hb] at h4
    simp only at h1 h2 h3 h4
    subst h1 h2 h3 h4
    cases ra with
    | item u =>
      simp only
      cases key u with
      | error e => exact ⟨rfl, j, rfl, rfl⟩
      | ok y =>
        simp only
        split
        · exact ⟨rfl, j, rfl, rfl⟩
        · exact ih _ j
    | eof => exact ⟨rfl, j, rfl, rfl⟩
    | err e => exact ⟨rfl, j, rfl, rfl⟩
    | oof => exact ⟨rfl, j, rfl, rfl⟩

/-! ### a pipeline started at position `p` = the pipeline on the suffix -/

theorem runTakeFrom_zero (kinds : List Kind) (src : Src) (fuel k : Nat) :
    runTakeFrom kinds src fuel k 0 = runTake kinds src fuel k := rfl

theorem runTakeFrom_drop (kinds : List Kind) (src : Src) (fuel k p : Nat) :
    runTakeFrom kinds src fuel k p = (runTake kinds (src.drop p) fuel k).shift p := by
  have hc := construct_agree (srcAgree_drop src p) fuel kinds [] 0
  simp only [Nat.add_zero] at hc
  unfold runTakeFrom runTake
  generalize construct (src.drop p) fuel kinds [] 0 = A at hc ⊢
  generalize construct src fuel kinds [] p = B at hc ⊢
  cases A <;> cases B <;> simp only [BuiltRel] at hc
  case ok.ok sa qa sb qb =>
    obtain ⟨rfl, j, rfl, rfl⟩ := hc
    obtain ⟨h1, h2, _, j', h4, h5⟩ := takeK_agree (srcAgree_drop src p) fuel k sa j []
    simp only [RunOut.shift]
    rw [h1, h2, h4]
    generalize (takeK src fuel k sa (p + j) []).fst = o at h5 ⊢
    cases o
    simp only at h5
    subst h5
    simp
  case err.err ea qa eb qb =>
    obtain ⟨rfl, j, rfl, rfl⟩ := hc
    simp [RunOut.shift]
  case oof.oof => simp [RunOut.shift]

theorem runAllFrom_drop (kinds : List Kind) (src : Src) (fuel p : Nat) :
    runAllFrom kinds src fuel p = (runAll kinds (src.drop p) fuel).shift p := by
  have hc := construct_agree (srcAgree_drop src p) fuel kinds [] 0
  simp only [Nat.add_zero] at hc
  unfold runAllFrom runAll
  generalize construct (src.drop p) fuel kinds [] 0 = A at hc ⊢
  generalize construct src fuel kinds [] p = B at hc ⊢
  cases A <;> cases B <;> simp only [BuiltRel] at hc
  case ok.ok sa qa sb qb =>
    obtain ⟨rfl, j, rfl, rfl⟩ := hc
    obtain ⟨h1, h2, j', h4, h5⟩ := drain_agree (srcAgree_drop src p) fuel fuel sa j []
    simp only [RunOut.shift]
    rw [h1, h2, h4]
    generalize drain src fuel fuel sa (p + j) [] = o at h5 ⊢
    cases o
    simp only at h5
    subst h5
    simp
  case err.err ea qa eb qb =>
    obtain ⟨rfl, j, rfl, rfl⟩ := hc
    simp [RunOut.shift]
  case oof.oof => simp [RunOut.shift]

theorem runFirstFrom_drop (kinds : List Kind) (src : Src) (fuel : Nat) (key : Fn) (p : Nat) :
    firstObsOf (runFirstFrom kinds src fuel key p).1 = firstObsOf (runFirst kinds (src.drop p) fuel key).1 ∧
    (runFirstFrom kinds src fuel key p).2 = p + (runFirst kinds (src.drop p) fuel key).2 := by
  have hc := construct_agree (srcAgree_drop src p) fuel kinds [] 0
  simp only [Nat.add_zero] at hc
  unfold runFirstFrom runFirst
  generalize construct (src.drop p) fuel kinds [] 0 = A at hc ⊢
  generalize construct src fuel kinds [] p = B at hc ⊢
  cases A <;> cases B <;> simp only [BuiltRel] at hc
  case ok.ok sa qa sb qb =>
    obtain ⟨rfl, j, rfl, rfl⟩ := hc
    obtain ⟨h1, j', h4, h5⟩ := firstOf_agree (srcAgree_drop src p) fuel key fuel sa j
    simp only
    rw [← h1, h4, h5]
    exact ⟨rfl, by simp⟩
  case err.err ea qa eb qb =>
    obtain ⟨rfl, j, rfl, rfl⟩ := hc
    simp
  case oof.oof => simp

theorem after_drop (src : Src) (p r : Nat) : src.after p r = (src.drop p).after 0 r := by
  cases src with
  | fin xs tail => cases tail <;> simp [Src.after, Src.drop]
  | inf f => simp [Src.after, Src.drop]

/-- (definitional) the model's own observation of the source passes the source check -/
theorem checkSource_after (src : Src) (pulls r : Nat) : checkSource src pulls r (src.after pulls r) = true := by
  have hc : (src.after pulls r).closed = false := by
    cases src with
    | fin xs tail => cases tail <;> rfl
    | inf f => rfl
  simp [checkSource, hc]

/-! ### checker form: a pipeline started at position `p` against the composition over `xs.drop p` -/

theorem checkTake_from (kinds : List Kind) (xs : List V) (tail : Option Err) (fuel k p : Nat)
    (h : (runTakeFrom kinds (.fin xs tail) fuel k p).fin ≠ .oof) :
    checkTake kinds (.fin (xs.drop p) tail) k
      ⟨(runTakeFrom kinds (.fin xs tail) fuel k p).items, (runTakeFrom kinds (.fin xs tail) fuel k p).fin,
       (runTakeFrom kinds (.fin xs tail) fuel k p).pulls - p⟩ = true := by
  rw [runTakeFrom_drop] at h ⊢
  simp only [RunOut.shift, Nat.add_sub_cancel_left] at h ⊢
  exact checkTake_of_spec kinds (xs.drop p) tail k _ h (runTake_spec _ fuel kinds k h)

theorem checkAll_from (kinds : List Kind) (xs : List V) (tail : Option Err) (fuel p : Nat)
    (h : (runAllFrom kinds (.fin xs tail) fuel p).fin ≠ .oof) :
    checkAll kinds (.fin (xs.drop p) tail)
      ⟨(runAllFrom kinds (.fin xs tail) fuel p).items, (runAllFrom kinds (.fin xs tail) fuel p).fin,
       (runAllFrom kinds (.fin xs tail) fuel p).pulls - p⟩ = true := by
  rw [runAllFrom_drop] at h ⊢
  simp only [RunOut.shift, Nat.add_sub_cancel_left] at h ⊢
  exact checkAll_of_spec kinds (xs.drop p) tail _ (runAll_spec _ fuel kinds h)

theorem checkFirst_from (kinds : List Kind) (xs : List V) (tail : Option Err) (fuel : Nat) (key : Fn) (p : Nat)
    (h : match (runFirstFrom kinds (.fin xs tail) fuel key p).1 with | .oof => False | _ => True) :
    checkFirst kinds (.fin (xs.drop p) tail) key (firstObsOf (runFirstFrom kinds (.fin xs tail) fuel key p).1)
      ((runFirstFrom kinds (.fin xs tail) fuel key p).2 - p) = true := by
  obtain ⟨h1, h2⟩ := runFirstFrom_drop kinds (.fin xs tail) fuel key p
  change firstObsOf _ = firstObsOf (runFirst kinds (.fin (xs.drop p) tail) fuel key).1 at h1
  change _ = p + (runFirst kinds (.fin (xs.drop p) tail) fuel key).2 at h2
  have h' : match (runFirst kinds (.fin (xs.drop p) tail) fuel key).1 with | .oof => False | _ => True := by
    generalize (runFirst kinds (.fin (xs.drop p) tail) fuel key).1 = b at h1
    generalize (runFirstFrom kinds (.fin xs tail) fuel key p).1 = a at h h1
    cases a <;> cases b <;> first | trivial | exact h | (simp [firstObsOf] at h1)
  rw [h1, h2, Nat.add_sub_cancel_left]
  exact checkFirst_of_spec kinds (xs.drop p) tail key _ _ (runFirst_spec _ fuel kinds key h')

/-! ### the step checker on the model's steps, when every step starts a fresh iterator -/

def Mode.isFresh : Mode → Bool
  | .take _ => false
  | _ => true

def StepOut.isOof : StepOut → Bool
  | .run o => (match o.fin with | .oof => true | _ => false)
  | .first o _ => (match o with | .oof => true | _ => false)

theorem checkSteps_fresh (fuel : Nat) (xs : List V) (tail : Option Err) (pipes : List (List Kind)) :
    ∀ (steps : List Step) (pos : Nat) (live : List (Option (List StageSt))) (mem : List Resumed),
      (∀ st ∈ steps, st.mode.isFresh = true) →
      (∀ o ∈ modelSteps fuel (.fin xs tail) pipes steps pos live, o.isOof = false) →
      checkSteps xs tail pipes (steps.take (modelSteps fuel (.fin xs tail) pipes steps pos live).length)
        ((modelSteps fuel (.fin xs tail) pipes steps pos live).map StepOut.obs) pos mem = true := by
  intro steps
  induction steps with
  | nil => intro pos live mem _ _; simp [modelSteps, checkSteps]
  | cons st rest ih =>
    intro pos live mem hfresh hoof
    have hrest : ∀ s ∈ rest, s.mode.isFresh = true := fun s hs => hfresh s (List.mem_cons_of_mem _ hs)
    have hst := hfresh st (List.mem_cons_self ..)
    rcases st with ⟨pi, mode⟩
    cases mode with
    | take k => simp [Mode.isFresh] at hst
    | all =>
      simp only [modelSteps] at hoof ⊢
      generalize hk : pipes.getD pi [] = kinds at hoof ⊢
      have hk' : pipes[pi]?.getD [] = kinds := by simpa using hk
      have hle : pos ≤ (runAllFrom kinds (.fin xs tail) fuel pos).pulls := by
        rw [runAllFrom_drop]; exact Nat.le_add_right _ _
      have hno : (runAllFrom kinds (.fin xs tail) fuel pos).fin ≠ .oof := by
        intro hc
        exact absurd (hoof _ (List.mem_cons_self ..)) (by simp [StepOut.isOof, hc])
      have hhere := checkAll_from kinds xs tail fuel pos hno
      generalize hout : runAllFrom kinds (.fin xs tail) fuel pos = out at hoof hle hno hhere ⊢
      rcases out with ⟨items, fin, pulls⟩
      simp only at hle hno hhere
      cases fin with
      | oof => exact absurd rfl hno
      | raised e =>
        simp [StepOut.ends, checkSteps, StepOut.obs, StepObs.pulls, StepObs.raised, hk', hhere, Nat.not_lt.mpr hle]
      | gotK =>
        have hoof' : ∀ o ∈ modelSteps fuel (.fin xs tail) pipes rest pulls live, o.isOof = false := by
          intro o ho
          apply hoof
          simp [StepOut.ends, StepOut.pulls, ho]
        have := ih pulls live mem hrest hoof'
        simp [StepOut.ends, StepOut.pulls, checkSteps, StepOut.obs, StepObs.pulls, StepObs.raised, hk', hhere,
          Nat.not_lt.mpr hle, this]
      | exhausted =>
        have hoof' : ∀ o ∈ modelSteps fuel (.fin xs tail) pipes rest pulls live, o.isOof = false := by
          intro o ho
          apply hoof
          simp [StepOut.ends, StepOut.pulls, ho]
        have := ih pulls live mem hrest hoof'
        simp [StepOut.ends, StepOut.pulls, checkSteps, StepOut.obs, StepObs.pulls, StepObs.raised, hk', hhere,
          Nat.not_lt.mpr hle, this]
    | first key =>
      simp only [modelSteps] at hoof ⊢
      generalize hk : pipes.getD pi [] = kinds at hoof ⊢
      have hk' : pipes[pi]?.getD [] = kinds := by simpa using hk
      have hle : pos ≤ (runFirstFrom kinds (.fin xs tail) fuel key pos).2 := by
        rw [(runFirstFrom_drop _ _ _ _ _).2]; exact Nat.le_add_right _ _
      have hno : match (runFirstFrom kinds (.fin xs tail) fuel key pos).1 with | .oof => False | _ => True := by
        have := hoof _ (List.mem_cons_self ..)
        revert this
        cases (runFirstFrom kinds (.fin xs tail) fuel key pos).1 <;> simp [StepOut.isOof]
      have hhere := checkFirst_from kinds xs tail fuel key pos hno
      generalize hout : runFirstFrom kinds (.fin xs tail) fuel key pos = out at hoof hle hno hhere ⊢
      rcases out with ⟨fo, pulls⟩
      simp only at hle hno hhere
      cases fo with
      | oof => exact absurd hno id
      | raised e =>
        simp [StepOut.ends, checkSteps, StepOut.obs, StepObs.pulls, StepObs.raised, firstObsOf, hk', Nat.not_lt.mpr hle]
        simpa [firstObsOf] using hhere
      | found v =>
        have hoof' : ∀ o ∈ modelSteps fuel (.fin xs tail) pipes rest pulls live, o.isOof = false := by
          intro o ho
          apply hoof
          simp [StepOut.ends, StepOut.pulls, ho]
        have := ih pulls live mem hrest hoof'
        simp [StepOut.ends, StepOut.pulls, checkSteps, StepOut.obs, StepObs.pulls, StepObs.raised, firstObsOf,
          hk', Nat.not_lt.mpr hle, this]
        simpa [firstObsOf] using hhere
      | default =>
        have hoof' : ∀ o ∈ modelSteps fuel (.fin xs tail) pipes rest pulls live, o.isOof = false := by
          intro o ho
          apply hoof
          simp [StepOut.ends, StepOut.pulls, ho]
        have := ih pulls live mem hrest hoof'
        simp [StepOut.ends, StepOut.pulls, checkSteps, StepOut.obs, StepObs.pulls, StepObs.raised, firstObsOf,
          hk', Nat.not_lt.mpr hle, this]
        simpa [firstObsOf] using hhere

end Glom.C17
