import Glom.Spec.C14
/-
  Helper lemmas for C14 (core Lean only).
-/
namespace Glom.C14
open Glom

/-! ### `_extend_children` = `children` on well-formed heaps -/

theorem heapWF_get {cs : Classes} {h : Heap} (hw : heapWF cs h = true) {a : Nat} {o : Obj}
    (ho : h[a]? = some o) : cellOK cs h o = true := by
  unfold heapWF at hw
  exact List.all_eq_true.1 hw o (List.mem_of_getElem? ho)

theorem clsName_ref {h : Heap} {a : Nat} {o : Obj} (ho : h[a]? = some o) :
    (Val.ref a).clsName h = o.cls := by
  simp [Val.clsName, ho]

/-- scalars and dangling references have no children, for the model and for the reference -/
theorem extendChildren_scalar (cs : Classes) (h : Heap) (hc : classesWF cs = true) (v : Val)
    (hv : ∀ a, v = .ref a → h[a]? = none) : extendChildren cs h v = [] := by
  have hmem : v.clsName h ∈ scalarClasses := by
    cases v with
    | ref a => simp [Val.clsName, hv a rfl, scalarClasses]
    | _ => simp [Val.clsName, scalarClasses]
  have := List.all_eq_true.1 hc _ hmem
  simp only [Bool.and_eq_true, Option.isNone_iff_eq_none, Bool.not_eq_true'] at this
  unfold extendChildren
  simp [this.1, this.2]

theorem children_scalar (cs : Classes) (h : Heap) (v : Val)
    (hv : ∀ a, v = .ref a → h[a]? = none) : children cs h v = [] := by
  cases v with
  | ref a => simp [children, hv a rfl]
  | _ => rfl

theorem filterMap_map_pairs {α β γ : Type} (l : List (α × β)) (f : α → γ) (g : γ → Option β)
    (p : α × β → Option β) (hp : ∀ e ∈ l, g (f e.1) = p e) :
    (l.map (fun e => f e.1)).filterMap g = l.filterMap p := by
  induction l with
  | nil => rfl
  | cons e l ih =>
    have h1 := hp e (by simp)
    have h2 := ih (fun e' he' => hp e' (by simp [he']))
    simp only [List.map_cons, List.filterMap_cons, h1, h2]

/-- **`*` on a well-formed heap**: `_extend_children` appends exactly the children -/
theorem extendChildren_eq_children (cs : Classes) (h : Heap) (hw : heapWF cs h = true)
    (hc : classesWF cs = true) (v : Val) :
    extendChildren cs h v = children cs h v := by
  cases v with
  | ref a =>
    cases ho : h[a]? with
    | none =>
      rw [extendChildren_scalar cs h hc _ (fun a' e => by injection e with e; subst e; exact ho),
        children_scalar cs h _ (fun a' e => by injection e with e; subst e; exact ho)]
    | some o =>
      have hwo := heapWF_get hw ho
      have hcn := clsName_ref ho
      cases o with
      | dict c es =>
        simp only [cellOK, Bool.and_eq_true, List.all_eq_true, beq_iff_eq] at hwo
        obtain ⟨hd, hes⟩ := hwo
        unfold extendChildren
        simp only [hcn, Obj.cls, keysH, hd, if_true, getH, keysOf, ho, children]
        have hk : (KeysH.dictKeys == KeysH.objKeys) = false := by decide
        simp only [hk, Bool.false_and, Bool.false_eq_true, if_false]
        apply filterMap_map_pairs (f := fun k => k)
        intro e he
        obtain ⟨hh, hl⟩ := hes e he
        unfold applyGet
        simp only [hcn, Obj.cls]
        by_cases hb : (isA cs c "RDict" && isBad e.1) = true
        · simp [hb]
        · simp only [hb, Bool.false_eq_true, if_false, pyGetitem, ho, hh, if_true, hl]
      | list c xs =>
        simp only [cellOK, Bool.and_eq_true, Bool.not_eq_true'] at hwo
        have hit : iterH cs c = true := by simp [iterH, hwo.1]
        have hg : seqGuard.any (isA cs c) = true := by simp [seqGuard, hwo.1]
        unfold extendChildren
        simp only [hcn, Obj.cls, hit, if_true, keysH, hwo.2, Bool.false_eq_true, if_false]
        by_cases hd : (clsInfo cs c).hasDict = true
        · simp only [hd, if_true, hg, Bool.and_true, beq_self_eq_true, iterItems, ho, children]
        · simp only [hd, Bool.false_eq_true, if_false, iterItems, ho, children]
      | tuple c xs =>
        simp only [cellOK, Bool.and_eq_true, Bool.not_eq_true'] at hwo
        have hit : iterH cs c = true := by simp [iterH, hwo.1.1]
        have hg : seqGuard.any (isA cs c) = true := by simp [seqGuard, hwo.1.1]
        unfold extendChildren
        simp only [hcn, Obj.cls, hit, if_true, keysH, hwo.1.2, Bool.false_eq_true, if_false]
        by_cases hd : (clsInfo cs c).hasDict = true
        · simp only [hd, if_true, hg, Bool.and_true, beq_self_eq_true, iterItems, ho, children]
        · simp only [hd, Bool.false_eq_true, if_false, iterItems, ho, children]
      | set c xs =>
        simp only [cellOK, Bool.and_eq_true, Bool.not_eq_true', Bool.or_eq_true] at hwo
        obtain ⟨⟨⟨⟨hiter, hset⟩, hnd⟩, hnl⟩, hnt⟩ := hwo
        have hit : iterH cs c = true := by simp [iterH, hiter]
        have hg : seqGuard.any (isA cs c) = true := by
          rcases hset with h1 | h1 <;> simp [seqGuard, h1]
        unfold extendChildren
        simp only [hcn, Obj.cls, hit, if_true, keysH, hnd, Bool.false_eq_true, if_false]
        by_cases hd : (clsInfo cs c).hasDict = true
        · simp only [hd, if_true, hg, Bool.and_true, beq_self_eq_true, iterItems, ho, children]
        · simp only [hd, Bool.false_eq_true, if_false, iterItems, ho, children]
      | inst c as =>
        simp only [cellOK, Bool.and_eq_true, Bool.not_eq_true', List.all_eq_true, beq_iff_eq] at hwo
        obtain ⟨⟨⟨⟨⟨⟨hhd, hnd⟩, hnl⟩, hnt⟩, hns⟩, hnf⟩, has⟩ := hwo
        have hng : seqGuard.any (isA cs c) = false := by
          simp [seqGuard, hnl, hnt, hns, hnf]
        unfold extendChildren
        simp only [hcn, Obj.cls, keysH, hnd, Bool.false_eq_true, if_false, hhd, if_true, getH, hnl, hnt,
          Bool.or_self, keysOf, ho, children, hng, Bool.and_false]
        apply filterMap_map_pairs (f := fun n => Val.str n)
        intro p hp
        have hf := has p hp
        unfold applyGet
        simp only [hcn, Obj.cls]
        by_cases hb : (isA cs c "RObj" && isBad (Val.str p.1)) = true
        · simp [hb]
        · simp only [hb, Bool.false_eq_true, if_false, pyGetattr, ho]
          cases hfind : as.find? (fun x => x.1 == p.1) with
          | none => rw [hfind] at hf; simp at hf
          | some q =>
            rw [hfind] at hf
            simp only [Option.map_some, Option.some.injEq] at hf
            obtain ⟨qn, qv⟩ := q
            simp only at hf
            subst hf
            rfl
  | _ =>
    rw [extendChildren_scalar cs h hc _ (fun a e => by cases e),
      children_scalar cs h _ (fun a e => by cases e)]

/-! ### the `'X'` loop is the breadth-first traversal -/

theorem take_succ_of_lt {α : Type} (l : List α) (i : Nat) (hi : i < l.length) :
    l.take (i + 1) = l.take i ++ [l[i]] := by
  induction l generalizing i with
  | nil => simp at hi
  | cons x xs ih =>
    cases i with
    | zero => rfl
    | succ n =>
      have hn : n < xs.length := by simpa using hi
      show x :: xs.take (n + 1) = x :: (xs.take n ++ [xs[n]])
      rw [ih n hn]

theorem drop_eq_cons_of_lt {α : Type} (l : List α) (i : Nat) (hi : i < l.length) :
    l.drop i = l[i] :: l.drop (i + 1) := by
  induction l generalizing i with
  | nil => simp at hi
  | cons x xs ih =>
    cases i with
    | zero => rfl
    | succ n =>
      have hn : n < xs.length := by simpa using hi
      show xs.drop n = xs[n] :: xs.drop (n + 1)
      exact ih n hn

theorem bfs_nil (cs : Classes) (h : Heap) (seen : List Nat) : bfs cs h [] seen = [] := by
  rw [bfs]

theorem bfs_ref_seen (cs : Classes) (h : Heap) (a : Nat) (q : List Val) (seen : List Nat)
    (hs : seen.contains a = true) : bfs cs h (.ref a :: q) seen = .ref a :: bfs cs h q seen := by
  rw [bfs]; simp only [hs, ↓reduceDIte]

theorem bfs_ref_new (cs : Classes) (h : Heap) (a : Nat) (q : List Val) (seen : List Nat)
    (hs : seen.contains a = false) (ha : a < h.length) :
    bfs cs h (.ref a :: q) seen = .ref a :: bfs cs h (q ++ children cs h (.ref a)) (a :: seen) := by
  rw [bfs]; simp only [hs, Bool.false_eq_true, ↓reduceDIte, ha]

theorem bfs_ref_dangling (cs : Classes) (h : Heap) (a : Nat) (q : List Val) (seen : List Nat)
    (hs : seen.contains a = false) (ha : ¬ a < h.length) :
    bfs cs h (.ref a :: q) seen = .ref a :: bfs cs h q seen := by
  rw [bfs]; simp only [hs, Bool.false_eq_true, ↓reduceDIte, ha]

theorem bfs_scalar (cs : Classes) (h : Heap) (v : Val) (q : List Val) (seen : List Nat)
    (hv : ∀ a, v ≠ .ref a) : bfs cs h (v :: q) seen = v :: bfs cs h q seen := by
  cases v with
  | ref a => exact absurd rfl (hv a)
  | _ => rw [bfs]; intro a e; cases e

/-- the index loop over the growing list computes the queue traversal: what is already walked,
    followed by the traversal of the rest -/
theorem ssLoop_eq_bfs (cs : Classes) (h : Heap)
    (hag : ∀ v, extendChildren cs h v = children cs h v)
    (nxt : List Val) (i : Nat) (sofar ex : List Nat) :
    (ssLoop cs h nxt i sofar ex).1 = nxt.take i ++ bfs cs h (nxt.drop i) sofar := by
  fun_induction ssLoop cs h nxt i sofar ex with
  | case1 nxt i sofar ex hi a hitem hs ih =>
    rw [ih, take_succ_of_lt nxt i hi, drop_eq_cons_of_lt nxt i hi, hitem, bfs_ref_seen cs h a _ _ hs]
    simp
  | case2 nxt i sofar ex hi a hitem hs ha ih =>
    have hs' : sofar.contains a = false := by simpa using hs
    rw [ih, drop_eq_cons_of_lt nxt i hi, hitem, bfs_ref_new cs h a _ _ hs' ha, hag]
    have h1 : (nxt ++ children cs h (Val.ref a)).take (i + 1) = nxt.take i ++ [Val.ref a] := by
      rw [List.take_append_of_le_length (by omega), take_succ_of_lt nxt i hi, hitem]
    have h2 : (nxt ++ children cs h (Val.ref a)).drop (i + 1) =
        nxt.drop (i + 1) ++ children cs h (Val.ref a) := by
      rw [List.drop_append_of_le_length (by omega)]
    rw [h1, h2]; simp
  | case3 nxt i sofar ex hi a hitem hs ha ih =>
    have hs' : sofar.contains a = false := by simpa using hs
    rw [ih, take_succ_of_lt nxt i hi, drop_eq_cons_of_lt nxt i hi, hitem,
      bfs_ref_dangling cs h a _ _ hs' ha]
    simp
  | case4 nxt i sofar ex hi hnr ih =>
    have hv : ∀ a, nxt[i] ≠ Val.ref a := fun a e => hnr a e
    rw [ih, take_succ_of_lt nxt i hi, drop_eq_cons_of_lt nxt i hi, bfs_scalar cs h _ _ _ hv,
      List.append_assoc]
    rfl
  | case5 nxt i sofar ex hi =>
    have : nxt.length ≤ i := by omega
    rw [List.take_of_length_le this, List.drop_eq_nil_of_le this, bfs_nil]; simp

/-! ### each container is expanded once; what the final list consists of -/

theorem ssLoop_nodup (cs : Classes) (h : Heap) (nxt : List Val) (i : Nat) (sofar ex : List Nat) :
    (∀ x ∈ ex, sofar.contains x = true) → ex.Nodup → (ssLoop cs h nxt i sofar ex).2.Nodup := by
  fun_induction ssLoop cs h nxt i sofar ex with
  | case1 nxt i sofar ex hi a hitem hs ih => exact ih
  | case2 nxt i sofar ex hi a hitem hs ha ih =>
    intro hsub hnd
    apply ih
    · intro x hx
      rcases List.mem_append.1 hx with hx | hx
      · have := hsub x hx; simp only [List.contains_cons, this, Bool.or_true]
      · simp only [List.mem_singleton] at hx; subst hx; simp
    · refine List.nodup_append.2 ⟨hnd, by simp, ?_⟩
      intro x hx y hy
      simp only [List.mem_singleton] at hy
      subst hy
      intro e; subst e
      exact hs (hsub x hx)
  | case3 nxt i sofar ex hi a hitem hs ha ih => exact ih
  | case4 nxt i sofar ex hi hnr ih => exact ih
  | case5 nxt i sofar ex hi => intro _ hnd; exact hnd

/-- the final `nxt` is the initial one followed by the children of every container expanded by
    the loop, in expansion order; every expansion is of a heap address not expanded before -/
theorem ssLoop_structure (cs : Classes) (h : Heap) (nxt : List Val) (i : Nat) (sofar ex : List Nat) :
    ∃ news : List Nat, (ssLoop cs h nxt i sofar ex).2 = ex ++ news ∧
      (ssLoop cs h nxt i sofar ex).1 = nxt ++ news.flatMap (fun a => extendChildren cs h (.ref a)) ∧
      ∀ a ∈ news, a < h.length ∧ sofar.contains a = false := by
  fun_induction ssLoop cs h nxt i sofar ex with
  | case1 nxt i sofar ex hi a hitem hs ih => exact ih
  | case2 nxt i sofar ex hi a hitem hs ha ih =>
    obtain ⟨news, h1, h2, h3⟩ := ih
    refine ⟨a :: news, by rw [h1]; simp, by rw [h2]; simp, ?_⟩
    intro b hb
    simp only [List.mem_cons] at hb
    rcases hb with hb | hb
    · subst hb; exact ⟨ha, by simpa using hs⟩
    · obtain ⟨g1, g2⟩ := h3 b hb
      refine ⟨g1, ?_⟩
      simp only [List.contains_cons, Bool.or_eq_false_iff] at g2
      exact g2.2
  | case3 nxt i sofar ex hi a hitem hs ha ih => exact ih
  | case4 nxt i sofar ex hi hnr ih => exact ih
  | case5 nxt i sofar ex hi => exact ⟨[], by simp, by simp, by simp⟩

/-! ### evaluation of paths with wildcards -/

/-- the ops `_t_eval` knows among access steps and wildcards -/
def wfOps : List (String × Val) → Bool
  | [] => true
  | (op, _) :: r => (op == "." || op == "[" || op == "P" || op == "x" || op == "X") && wfOps r

theorem accessStep_eq (cs : Classes) (h : Heap) (op : String) (cur arg : Val) :
    accessStep cs h op cur arg =
      match refAccess cs h op cur arg with
      | some (.ok v) => .ok v
      | some (.error e) => .error (.pae e)
      | none => .error (.other "BadSpec") := by
  unfold accessStep refAccess
  by_cases h1 : (op == ".") = true
  · simp only [h1, if_true]; rfl
  · by_cases h2 : (op == "[") = true
    · simp only [h1, h2, if_true, Bool.false_eq_true, if_false]; rfl
    · by_cases h3 : (op == "P") = true
      · simp only [h1, h2, h3, if_true, Bool.false_eq_true, if_false]; rfl
      · simp only [h1, h2, h3, Bool.false_eq_true, if_false]

def isPaeOrOk : Except EErr Res → Bool
  | .ok _ => true
  | .error (.pae _) => true
  | .error (.other _) => false

theorem collect_of_pae (l : List (Except EErr Res)) (hl : ∀ r ∈ l, isPaeOrOk r = true) :
    collect l = .ok (keepOk l) := by
  induction l with
  | nil => rfl
  | cons r l ih =>
    have h1 := hl r (by simp)
    have h2 := ih (fun r' hr' => hl r' (by simp [hr']))
    cases r with
    | ok v => simp [collect, keepOk, h2, Except.map]
    | error e =>
      cases e with
      | pae x => simp [collect, keepOk, h2]
      | other c => simp [isPaeOrOk] at h1

/-- **refinement**: on steps made of access steps and wildcards the model's `_t_eval` computes the
    reference evaluation — and never fails with anything but a PathAccessError -/
theorem evalSteps_eq_refEval (cs : Classes) (h : Heap)
    (hag : ∀ v, extendChildren cs h v = children cs h v) (steps : List (String × Val)) :
    wfOps steps = true → ∀ cur, evalSteps cs h steps cur = refEval cs h steps cur ∧
      isPaeOrOk (evalSteps cs h steps cur) = true := by
  induction steps with
  | nil => intro _ cur; simp [evalSteps, refEval, isPaeOrOk]
  | cons s rest ih =>
    obtain ⟨op, arg⟩ := s
    intro hw cur
    simp only [wfOps, Bool.and_eq_true] at hw
    obtain ⟨hop, hrest⟩ := hw
    have ihr := ih hrest
    by_cases hx : (op == "x") = true
    · simp only [evalSteps, refEval, hx, if_true]
      have hl : ∀ r ∈ (starItems cs h cur).map (evalSteps cs h rest), isPaeOrOk r = true := by
        intro r hr
        obtain ⟨c, _, hc⟩ := List.mem_map.1 hr
        rw [← hc]; exact (ihr c).2
      rw [collect_of_pae _ hl]
      have hm : (starItems cs h cur).map (evalSteps cs h rest) =
          (children cs h cur).map (refEval cs h rest) := by
        unfold starItems
        rw [hag]
        exact List.map_congr_left (fun c _ => (ihr c).1)
      rw [hm]
      simp [Except.map, isPaeOrOk]
    · by_cases hX : (op == "X") = true
      · simp only [evalSteps, refEval, hx, hX, if_true, Bool.false_eq_true, if_false]
        have hl : ∀ r ∈ (starstarItems cs h cur).1.map (evalSteps cs h rest), isPaeOrOk r = true := by
          intro r hr
          obtain ⟨c, _, hc⟩ := List.mem_map.1 hr
          rw [← hc]; exact (ihr c).2
        rw [collect_of_pae _ hl]
        have hd : (starstarItems cs h cur).1 = descend cs h cur := by
          unfold starstarItems descend
          simp only
          rw [ssLoop_eq_bfs cs h hag, hag]
          simp only [List.take_zero, List.drop_zero, List.nil_append]
          cases cur <;> rfl
        have hm : (starstarItems cs h cur).1.map (evalSteps cs h rest) =
            (descend cs h cur).map (refEval cs h rest) := by
          rw [hd]
          exact List.map_congr_left (fun c _ => (ihr c).1)
        rw [hm]
        simp [Except.map, isPaeOrOk]
      · simp only [evalSteps, refEval, hx, hX, Bool.false_eq_true, if_false]
        rw [accessStep_eq]
        have hacc : (refAccess cs h op cur arg).isSome = true := by
          unfold refAccess
          simp only [Bool.or_eq_true] at hop
          rcases hop with (((h1 | h1) | h1) | h1) | h1
          · simp [h1]
          · by_cases h0 : (op == ".") = true <;> simp [h0, h1]
          · by_cases h0 : (op == ".") = true <;> by_cases h2 : (op == "[") = true <;> simp [h0, h2, h1]
          · exact absurd h1 hx
          · exact absurd h1 hX
        cases hr : refAccess cs h op cur arg with
        | none => rw [hr] at hacc; simp at hacc
        | some r =>
          cases r with
          | ok v => simp only; exact ihr v
          | error e => simp [isPaeOrOk]

/-! ### nesting and broadcast -/

theorem keepOk_mem {l : List (Except EErr Res)} {r : Res} (h : r ∈ keepOk l) : .ok r ∈ l := by
  induction l with
  | nil => simp [keepOk] at h
  | cons x l ih =>
    cases x with
    | ok v =>
      simp only [keepOk, List.mem_cons] at h
      rcases h with h | h
      · subst h; simp
      · simp [ih h]
    | error e => simp only [keepOk] at h; simp [ih h]

theorem stars_cons (op : String) (arg : Val) (rest : List (String × Val)) :
    stars ((op, arg) :: rest) = (if op == "x" || op == "X" then 1 else 0) + stars rest := by
  unfold stars
  by_cases h : (op == "x" || op == "X") = true
  · simp [List.filter_cons, h]; omega
  · simp [List.filter_cons, h]

/-- every wildcard adds exactly one level of list nesting -/
theorem refEval_nested (cs : Classes) (h : Heap) (steps : List (String × Val)) :
    ∀ cur r, refEval cs h steps cur = .ok r → nested (stars steps) r = true := by
  induction steps with
  | nil =>
    intro cur r hr
    simp only [refEval, Except.ok.injEq] at hr
    subst hr; rfl
  | cons s rest ih =>
    obtain ⟨op, arg⟩ := s
    intro cur r hr
    rw [stars_cons]
    by_cases hx : (op == "x") = true
    · simp only [refEval, hx, if_true, Except.ok.injEq] at hr
      subst hr
      simp only [hx, Bool.true_or, if_true, Nat.add_comm 1, nested, List.all_eq_true]
      intro r' hr'
      obtain ⟨c, _, hc⟩ := List.mem_map.1 (keepOk_mem hr')
      exact ih c r' hc
    · by_cases hX : (op == "X") = true
      · simp only [refEval, hx, hX, if_true, Bool.false_eq_true, if_false, Except.ok.injEq] at hr
        subst hr
        simp only [hX, Bool.or_true, if_true, Nat.add_comm 1, nested, List.all_eq_true]
        intro r' hr'
        obtain ⟨c, _, hc⟩ := List.mem_map.1 (keepOk_mem hr')
        exact ih c r' hc
      · simp only [refEval, hx, hX, Bool.false_eq_true, if_false] at hr
        simp only [hx, hX, Bool.or_self, Bool.false_eq_true, if_false, Nat.zero_add]
        cases ha : refAccess cs h op cur arg with
        | none => rw [ha] at hr; simp at hr
        | some a =>
          cases a with
          | ok v => rw [ha] at hr; exact ih v r hr
          | error e => rw [ha] at hr; simp at hr

theorem sumLists_nested (k : Nat) : ∀ xs : List Res, xs.all (nested (k + 1)) = true →
    ∃ ys, sumLists xs = some ys ∧ ys.all (nested k) = true ∧
      ys.flatMap (leaves k) = xs.flatMap (leaves (k + 1)) := by
  intro xs
  induction xs with
  | nil => intro _; exact ⟨[], rfl, rfl, rfl⟩
  | cons x xs ih =>
    intro hx
    simp only [List.all_cons, Bool.and_eq_true] at hx
    obtain ⟨ys, h1, h2, h3⟩ := ih hx.2
    cases x with
    | val v => simp [nested] at hx
    | list zs =>
      have hz : zs.all (nested k) = true := by simpa [nested] using hx.1
      refine ⟨zs ++ ys, by simp [sumLists, h1], by simp [List.all_append, hz, h2], ?_⟩
      simp [List.flatMap_append, h3, leaves]

theorem flattenN_nested : ∀ (n : Nat) (xs : List Res), xs.all (nested n) = true →
    ∃ ys, flattenN n xs = some ys ∧ ys.all (nested 0) = true ∧
      ys.flatMap (leaves 0) = xs.flatMap (leaves n) := by
  intro n
  induction n with
  | zero => intro xs hx; exact ⟨xs, rfl, hx, rfl⟩
  | succ n ih =>
    intro xs hx
    obtain ⟨ys, h1, h2, h3⟩ := sumLists_nested n xs hx
    obtain ⟨zs, g1, g2, g3⟩ := ih ys h2
    exact ⟨zs, by simp [flattenN, h1, g1], g2, by rw [g3, h3]⟩

theorem forEach_vals (f : Heap → Val → Except MErr Heap) : ∀ (ys : List Res) (h : Heap),
    ys.all (nested 0) = true → forEach f h ys = mutateAll f h (ys.flatMap (leaves 0)) := by
  intro ys
  induction ys with
  | nil => intro h _; rfl
  | cons y ys ih =>
    intro h hy
    simp only [List.all_cons, Bool.and_eq_true] at hy
    cases y with
    | list zs => simp [nested] at hy
    | val d =>
      simp only [forEach, List.flatMap_cons, leaves, List.singleton_append, mutateAll]
      cases f h d with
      | ok h' => exact ih h' hy.2
      | error e => rfl

/-- **broadcast**: `_apply_for_each` applies the operation to exactly the entries of the nested
    result, in order, on one heap -/
theorem applyForEach_eq (f : Heap → Val → Except MErr Heap) (k : Nat) (h : Heap) (r : Res)
    (hn : nested k r = true) : applyForEach k f h r = mutateAll f h (leaves k r) := by
  cases k with
  | zero =>
    cases r with
    | list xs => simp [nested] at hn
    | val d =>
      simp only [applyForEach, beq_self_eq_true, if_true, leaves, mutateAll]
      cases f h d <;> rfl
  | succ n =>
    cases r with
    | val d => simp [nested] at hn
    | list xs =>
      have hx : xs.all (nested n) = true := by simpa [nested] using hn
      obtain ⟨ys, h1, h2, h3⟩ := flattenN_nested n xs hx
      simp only [applyForEach, Nat.add_one_ne_zero, beq_iff_eq, if_false, Nat.add_sub_cancel, h1, leaves]
      rw [forEach_vals f ys h h2, h3]

mutual
theorem Res.beq_refl : ∀ r : Res, Res.beq r r = true
  | .val v => by simp [Res.beq]
  | .list xs => by simp only [Res.beq]; exact Res.beqList_refl xs
theorem Res.beqList_refl : ∀ xs : List Res, Res.beqList xs xs = true
  | [] => by simp [Res.beqList]
  | x :: xs => by simp [Res.beqList, Res.beq_refl x, Res.beqList_refl xs]
end

end Glom.C14
