import Glom.Spec.C14Mode
/-
  Helper lemmas for C14 (core Lean only).
-/
namespace Glom.C14
open Glom

/-! ### `_extend_children` = `children` on well-formed heaps -/

theorem heapWF_get {cs : Classes} {h : Heap} (hw : heapWF cs h = true) {a : Nat} {o : Obj}
    (ho : h[a]? = some o) : cellOK cs h o = true := by
  unfold heapWF at hw
  exact List.all_eq_true.1 hw o (List.mem_of_getElem? ho)

theorem clsName_ref {h : Heap} {a : Nat} {o : Obj} (ho : h[a]? = some o) :
    (Val.ref a).clsName h = o.cls := by
  simp [Val.clsName, ho]

/-- scalars and dangling references have no children, for the model and for the reference -/
theorem extendChildren_scalar (cs : Classes) (h : Heap) (hc : classesWF cs = true) (v : Val)
    (hv : ∀ a, v = .ref a → h[a]? = none) : extendChildren cs h v = [] := by
  have hmem : v.clsName h ∈ scalarClasses := by
    cases v with
    | ref a => simp [Val.clsName, hv a rfl, scalarClasses]
    | _ => simp [Val.clsName, scalarClasses]
  have := List.all_eq_true.1 hc _ hmem
  simp only [Bool.and_eq_true, Option.isNone_iff_eq_none, Bool.not_eq_true'] at this
  unfold extendChildren
  simp [this.1, this.2]

theorem children_scalar (cs : Classes) (h : Heap) (v : Val)
    (hv : ∀ a, v = .ref a → h[a]? = none) : children cs h v = [] := by
  cases v with
  | ref a => simp [children, hv a rfl]
  | _ => rfl

theorem regOK_cases {r : String} (h : regOK r = true) : r = "" ∨ r = "rev" ∨ r = "off" := by
  simp only [regOK, Bool.or_eq_true, beq_iff_eq] at h
  rcases h with (h | h) | h
  · exact Or.inl h
  · exact Or.inr (Or.inl h)
  · exact Or.inr (Or.inr h)

theorem filterMap_map_pairs {α β γ : Type} (l : List (α × β)) (f : α → γ) (g : γ → Option β)
    (p : α × β → Option β) (hp : ∀ e ∈ l, g (f e.1) = p e) :
    (l.map (fun e => f e.1)).filterMap g = l.filterMap p := by
  induction l with
  | nil => rfl
  | cons e l ih =>
    have h1 := hp e (by simp)
    have h2 := ih (fun e' he' => hp e' (by simp [he']))
    simp only [List.map_cons, List.filterMap_cons, h1, h2]

/-- **`*` on a well-formed heap**: `_extend_children` appends exactly the children -/
theorem extendChildren_eq_children (cs : Classes) (h : Heap) (hw : heapWF cs h = true)
    (hc : classesWF cs = true) (v : Val) :
    extendChildren cs h v = children cs h v := by
  cases v with
  | ref a =>
    cases ho : h[a]? with
    | none =>
      rw [extendChildren_scalar cs h hc _ (fun a' e => by injection e with e; subst e; exact ho),
        children_scalar cs h _ (fun a' e => by injection e with e; subst e; exact ho)]
    | some o =>
      have hwo := heapWF_get hw ho
      have hcn := clsName_ref ho
      cases o with
      | dict c es =>
        simp only [cellOK, Bool.and_eq_true, List.all_eq_true, beq_iff_eq] at hwo
        obtain ⟨⟨hd, hreg⟩, hes⟩ := hwo
        have hne : (("" : String) != "") = false := by decide
        by_cases hdict : isA cs c "dict" = true
        · unfold extendChildren
          simp only [hcn, Obj.cls, keysH, hdict, if_true, getH, hreg, keysOf, ho, children]
          have hk : (KeysH.dictKeys == KeysH.objKeys) = false := by decide
          simp only [hk, Bool.false_and, Bool.false_eq_true, if_false, hne]
          apply filterMap_map_pairs (f := fun k => k)
          intro e he
          obtain ⟨hh, hl⟩ := hes e he
          unfold applyGet
          simp only [hcn, Obj.cls]
          by_cases hb : (isA cs c "RDict" && isBad e.1) = true
          · simp [hb]
          · simp only [hb, Bool.false_eq_true, if_false, pyGetitem, ho, hh, if_true, hl]
        · -- a mapping type that is not registered as one: iterated, it yields its keys
          simp only [hdict, Bool.false_eq_true, Bool.false_or, Bool.and_eq_true, Bool.not_eq_true'] at hd
          obtain ⟨⟨⟨⟨⟨hit, hnd⟩, _⟩, _⟩, _⟩, _⟩ := hd
          unfold extendChildren
          simp [hcn, Obj.cls, keysH, hdict, hnd, iterH, hreg, hit, iterItems, ho, children]
      | list c xs =>
        simp only [cellOK, Bool.and_eq_true, Bool.not_eq_true'] at hwo
        obtain ⟨⟨hl, hnd⟩, hreg⟩ := hwo
        have hg : seqGuard.any (isA cs c) = true := by simp [seqGuard, hl]
        unfold extendChildren
        simp only [hcn, Obj.cls, keysH, hnd, Bool.false_eq_true, if_false, iterItems, ho, children]
        rcases regOK_cases hreg with hr | hr | hr <;>
          by_cases hd : (clsInfo cs c).hasDict = true <;>
          simp [iterH, hr, hl, hg, hd]
      | tuple c xs =>
        simp only [cellOK, Bool.and_eq_true, Bool.not_eq_true'] at hwo
        obtain ⟨⟨⟨ht, hnd⟩, hnl⟩, hreg⟩ := hwo
        have hg : seqGuard.any (isA cs c) = true := by simp [seqGuard, ht]
        unfold extendChildren
        simp only [hcn, Obj.cls, keysH, hnd, Bool.false_eq_true, if_false, iterItems, ho, children]
        rcases regOK_cases hreg with hr | hr | hr <;>
          by_cases hd : (clsInfo cs c).hasDict = true <;>
          simp [iterH, hr, ht, hg, hd]
      | set c xs =>
        simp only [cellOK, Bool.and_eq_true, Bool.not_eq_true', Bool.or_eq_true, beq_iff_eq] at hwo
        obtain ⟨⟨⟨⟨⟨hiter, hreg⟩, hset⟩, hnd⟩, hnl⟩, hnt⟩ := hwo
        have hit : iterH cs c = true := by simp [iterH, hiter, hreg]
        have hg : seqGuard.any (isA cs c) = true := by
          rcases hset with h1 | h1 <;> simp [seqGuard, h1]
        unfold extendChildren
        simp only [hcn, Obj.cls, hit, if_true, keysH, hnd, Bool.false_eq_true, if_false]
        by_cases hd : (clsInfo cs c).hasDict = true
        · simp only [hd, if_true, hg, Bool.and_true, beq_self_eq_true, iterItems, ho, children]
        · simp only [hd, Bool.false_eq_true, if_false, iterItems, ho, children]
      | inst c as =>
        simp only [cellOK, Bool.and_eq_true, Bool.not_eq_true', List.all_eq_true, beq_iff_eq, Bool.or_eq_true] at hwo
        obtain ⟨⟨⟨⟨⟨⟨⟨⟨hhd, hreg⟩, hnd⟩, hnl⟩, hnt⟩, hns⟩, hnf⟩, has⟩, _hdn⟩ := hwo
        have hne : (((clsInfo cs c).reg) != "") = false := by rw [hreg]; decide
        have hng : seqGuard.any (isA cs c) = false := by
          simp [seqGuard, hnl, hnt, hns, hnf]
        by_cases hdd : (clsInfo cs c).hasDict = true
        · unfold extendChildren
          simp only [hcn, Obj.cls, keysH, hnd, Bool.false_eq_true, if_false, hdd, if_true, getH, hne, hnl, hnt,
            Bool.or_self, keysOf, ho, children, hng, Bool.and_false]
          apply filterMap_map_pairs (f := fun n => Val.str n)
          intro p hp
          have hf := has p hp
          unfold applyGet
          simp only [hcn, Obj.cls]
          by_cases hb : (isA cs c "RObj" && isBad (Val.str p.1)) = true
          · simp [hb]
          · simp only [hb, Bool.false_eq_true, if_false, pyGetattr, ho]
            cases hfind : as.find? (fun x => x.1 == p.1) with
            | none => rw [hfind] at hf; simp at hf
            | some q =>
              rw [hfind] at hf
              simp only [Option.map_some, Option.some.injEq] at hf
              obtain ⟨qn, qv⟩ := q
              simp only at hf
              subst hf
              rfl
        · -- `__slots__` only: no `__dict__`, not iterable — no children
          have hni : (clsInfo cs c).iterable = false := by
            rcases hhd with h1 | h1
            · exact absurd h1 hdd
            · simpa using h1
          unfold extendChildren
          simp [hcn, Obj.cls, keysH, hnd, hdd, iterH, hreg, hnl, hnt, hni, children, ho]
  | _ =>
    rw [extendChildren_scalar cs h hc _ (fun a e => by cases e),
      children_scalar cs h _ (fun a e => by cases e)]

/-- the model of `_extend_children` is the registry-parametric one at the default handlers -/
theorem extendChildren_eq_H (cs : Classes) (h : Heap) (item : Val) :
    extendChildren cs h item = extendChildrenH (defaultHandlers cs h) item := by
  unfold extendChildren extendChildrenH defaultHandlers
  simp only
  cases hk : keysH cs (item.clsName h) with
  | none => by_cases hi : iterH cs (item.clsName h) = true <;> simp [hi]
  | some k =>
    cases k <;> by_cases hi : iterH cs (item.clsName h) = true <;>
      by_cases hg : seqGuard.any (isA cs (item.clsName h)) = true <;> simp [hi, hg]

/-! ### the `'X'` loop is the breadth-first traversal -/

theorem take_succ_of_lt {α : Type} (l : List α) (i : Nat) (hi : i < l.length) :
    l.take (i + 1) = l.take i ++ [l[i]] := by
  induction l generalizing i with
  | nil => simp at hi
  | cons x xs ih =>
    cases i with
    | zero => rfl
    | succ n =>
      have hn : n < xs.length := by simpa using hi
      show x :: xs.take (n + 1) = x :: (xs.take n ++ [xs[n]])
      rw [ih n hn]

theorem drop_eq_cons_of_lt {α : Type} (l : List α) (i : Nat) (hi : i < l.length) :
    l.drop i = l[i] :: l.drop (i + 1) := by
  induction l generalizing i with
  | nil => simp at hi
  | cons x xs ih =>
    cases i with
    | zero => rfl
    | succ n =>
      have hn : n < xs.length := by simpa using hi
      show xs.drop n = xs[n] :: xs.drop (n + 1)
      exact ih n hn

theorem bfsG_nil (n : Nat) (kids : Val → List Val) (seen : List Nat) : bfsG n kids [] seen = [] := by
  rw [bfsG]

theorem bfsG_ref_seen (n : Nat) (kids : Val → List Val) (a : Nat) (q : List Val) (seen : List Nat)
    (hs : seen.contains a = true) : bfsG n kids (.ref a :: q) seen = .ref a :: bfsG n kids q seen := by
  rw [bfsG]; simp only [hs, ↓reduceDIte]

theorem bfsG_ref_new (n : Nat) (kids : Val → List Val) (a : Nat) (q : List Val) (seen : List Nat)
    (hs : seen.contains a = false) (ha : a < n) :
    bfsG n kids (.ref a :: q) seen = .ref a :: bfsG n kids (q ++ kids (.ref a)) (a :: seen) := by
  rw [bfsG]; simp only [hs, Bool.false_eq_true, ↓reduceDIte, ha]

theorem bfsG_ref_dangling (n : Nat) (kids : Val → List Val) (a : Nat) (q : List Val) (seen : List Nat)
    (hs : seen.contains a = false) (ha : ¬ a < n) :
    bfsG n kids (.ref a :: q) seen = .ref a :: bfsG n kids q seen := by
  rw [bfsG]; simp only [hs, Bool.false_eq_true, ↓reduceDIte, ha]

theorem bfsG_scalar (n : Nat) (kids : Val → List Val) (v : Val) (q : List Val) (seen : List Nat)
    (hv : ∀ a, v ≠ .ref a) : bfsG n kids (v :: q) seen = v :: bfsG n kids q seen := by
  cases v with
  | ref a => exact absurd rfl (hv a)
  | _ => rw [bfsG]; intro a e; cases e

/-- **the index loop over the growing list computes the queue traversal**, for any enumeration of
    children: what is already walked, followed by the traversal of the rest -/
theorem ssLoopG_eq_bfsG (n : Nat) (expand kids : Val → List Val)
    (hag : ∀ v, expand v = kids v)
    (nxt : List Val) (i : Nat) (sofar ex : List Nat) :
    (ssLoopG n expand nxt i sofar ex).1 = nxt.take i ++ bfsG n kids (nxt.drop i) sofar := by
  fun_induction ssLoopG n expand nxt i sofar ex with
  | case1 nxt i sofar ex hi a hitem hs ih =>
    rw [ih, take_succ_of_lt nxt i hi, drop_eq_cons_of_lt nxt i hi, hitem, bfsG_ref_seen n kids a _ _ hs]
    simp
  | case2 nxt i sofar ex hi a hitem hs ha ih =>
    have hs' : sofar.contains a = false := by simpa using hs
    rw [ih, drop_eq_cons_of_lt nxt i hi, hitem, bfsG_ref_new n kids a _ _ hs' ha, hag]
    have h1 : (nxt ++ kids (Val.ref a)).take (i + 1) = nxt.take i ++ [Val.ref a] := by
      rw [List.take_append_of_le_length (by omega), take_succ_of_lt nxt i hi, hitem]
    have h2 : (nxt ++ kids (Val.ref a)).drop (i + 1) =
        nxt.drop (i + 1) ++ kids (Val.ref a) := by
      rw [List.drop_append_of_le_length (by omega)]
    rw [h1, h2]; simp
  | case3 nxt i sofar ex hi a hitem hs ha ih =>
    have hs' : sofar.contains a = false := by simpa using hs
    rw [ih, take_succ_of_lt nxt i hi, drop_eq_cons_of_lt nxt i hi, hitem,
      bfsG_ref_dangling n kids a _ _ hs' ha]
    simp
  | case4 nxt i sofar ex hi hnr ih =>
    have hv : ∀ a, nxt[i] ≠ Val.ref a := fun a e => hnr a e
    rw [ih, take_succ_of_lt nxt i hi, drop_eq_cons_of_lt nxt i hi, bfsG_scalar n kids _ _ _ hv,
      List.append_assoc]
    rfl
  | case5 nxt i sofar ex hi =>
    have : nxt.length ≤ i := by omega
    rw [List.take_of_length_le this, List.drop_eq_nil_of_le this, bfsG_nil]; simp

theorem ssLoop_eq_bfs (cs : Classes) (h : Heap)
    (hag : ∀ v, extendChildren cs h v = children cs h v)
    (nxt : List Val) (i : Nat) (sofar ex : List Nat) :
    (ssLoop cs h nxt i sofar ex).1 = nxt.take i ++ bfs cs h (nxt.drop i) sofar :=
  ssLoopG_eq_bfsG h.length _ _ hag nxt i sofar ex

/-! ### each container is expanded once; what the final list consists of -/

theorem ssLoopG_nodup (n : Nat) (expand : Val → List Val) (nxt : List Val) (i : Nat) (sofar ex : List Nat) :
    (∀ x ∈ ex, sofar.contains x = true) → ex.Nodup → (ssLoopG n expand nxt i sofar ex).2.Nodup := by
  fun_induction ssLoopG n expand nxt i sofar ex with
  | case1 nxt i sofar ex hi a hitem hs ih => exact ih
  | case2 nxt i sofar ex hi a hitem hs ha ih =>
    intro hsub hnd
    apply ih
    · intro x hx
      rcases List.mem_append.1 hx with hx | hx
      · have := hsub x hx; simp only [List.contains_cons, this, Bool.or_true]
      · simp only [List.mem_singleton] at hx; subst hx; simp
    · refine List.nodup_append.2 ⟨hnd, by simp, ?_⟩
      intro x hx y hy
      simp only [List.mem_singleton] at hy
      subst hy
      intro e; subst e
      exact hs (hsub x hx)
  | case3 nxt i sofar ex hi a hitem hs ha ih => exact ih
  | case4 nxt i sofar ex hi hnr ih => exact ih
  | case5 nxt i sofar ex hi => intro _ hnd; exact hnd

theorem ssLoop_nodup (cs : Classes) (h : Heap) (nxt : List Val) (i : Nat) (sofar ex : List Nat) :
    (∀ x ∈ ex, sofar.contains x = true) → ex.Nodup → (ssLoop cs h nxt i sofar ex).2.Nodup :=
  ssLoopG_nodup h.length _ nxt i sofar ex

/-- the final `nxt` is the initial one followed by the children of every container expanded by
    the loop, in expansion order; every expansion is of an address not expanded before -/
theorem ssLoopG_structure (n : Nat) (expand : Val → List Val) (nxt : List Val) (i : Nat)
    (sofar ex : List Nat) :
    ∃ news : List Nat, (ssLoopG n expand nxt i sofar ex).2 = ex ++ news ∧
      (ssLoopG n expand nxt i sofar ex).1 = nxt ++ news.flatMap (fun a => expand (.ref a)) ∧
      ∀ a ∈ news, a < n ∧ sofar.contains a = false := by
  fun_induction ssLoopG n expand nxt i sofar ex with
  | case1 nxt i sofar ex hi a hitem hs ih => exact ih
  | case2 nxt i sofar ex hi a hitem hs ha ih =>
    obtain ⟨news, h1, h2, h3⟩ := ih
    refine ⟨a :: news, by rw [h1]; simp, by rw [h2]; simp, ?_⟩
    intro b hb
    simp only [List.mem_cons] at hb
    rcases hb with hb | hb
    · subst hb; exact ⟨ha, by simpa using hs⟩
    · obtain ⟨g1, g2⟩ := h3 b hb
      refine ⟨g1, ?_⟩
      simp only [List.contains_cons, Bool.or_eq_false_iff] at g2
      exact g2.2
  | case3 nxt i sofar ex hi a hitem hs ha ih => exact ih
  | case4 nxt i sofar ex hi hnr ih => exact ih
  | case5 nxt i sofar ex hi => exact ⟨[], by simp, by simp, by simp⟩

/-- at most one expansion per address, whatever is enumerated -/
theorem ssLoopG_bound (n : Nat) (expand : Val → List Val) (nxt : List Val) (seed : List Nat)
    (hs1 : seed.Nodup) :
    (ssLoopG n expand nxt 0 seed seed).2.Nodup ∧
    (ssLoopG n expand nxt 0 seed seed).2.length ≤ n + seed.length := by
  have hnd := ssLoopG_nodup n expand nxt 0 seed seed (by intro x hx; simp [hx]) hs1
  refine ⟨hnd, ?_⟩
  obtain ⟨news, h1, _, h3⟩ := ssLoopG_structure n expand nxt 0 seed seed
  rw [h1] at hnd ⊢
  have hn : news.Nodup := (List.nodup_append.1 hnd).2.1
  have hsub : news ⊆ List.range n := fun a ha => List.mem_range.2 (h3 a ha).1
  have := hn.length_le_of_subset hsub
  simp only [List.length_append, List.length_range] at this ⊢
  omega

theorem ssLoop_structure (cs : Classes) (h : Heap) (nxt : List Val) (i : Nat) (sofar ex : List Nat) :
    ∃ news : List Nat, (ssLoop cs h nxt i sofar ex).2 = ex ++ news ∧
      (ssLoop cs h nxt i sofar ex).1 = nxt ++ news.flatMap (fun a => extendChildren cs h (.ref a)) ∧
      ∀ a ∈ news, a < h.length ∧ sofar.contains a = false :=
  ssLoopG_structure h.length _ nxt i sofar ex

/-! ### evaluation of paths with wildcards -/

/-- the ops `_t_eval` knows among access steps and wildcards -/
def wfOps : List (String × Val) → Bool
  | [] => true
  | (op, _) :: r => (op == "." || op == "[" || op == "P" || op == "+" || op == "x" || op == "X") && wfOps r

theorem accessStep_eq (cs : Classes) (h : Heap) (op : String) (cur arg : Val) :
    accessStep cs h op cur arg =
      match refAccess cs h op cur arg with
      | some (.ok v) => .ok v
      | some (.error e) => .error (.pae e)
      | none => .error (.other "BadSpec") := by
  unfold accessStep refAccess
  by_cases h1 : (op == ".") = true
  · simp only [h1, if_true]; rfl
  · by_cases h2 : (op == "[") = true
    · simp only [h1, h2, if_true, Bool.false_eq_true, if_false]; rfl
    · by_cases h3 : (op == "P") = true
      · simp only [h1, h2, h3, if_true, Bool.false_eq_true, if_false]; rfl
      · by_cases h4 : (op == "+") = true
        · simp only [h1, h2, h3, h4, if_true, Bool.false_eq_true, if_false]; rfl
        · simp only [h1, h2, h3, h4, Bool.false_eq_true, if_false]

def isPaeOrOk : Except EErr Res → Bool
  | .ok _ => true
  | .error (.pae _) => true
  | .error (.other _) => false

theorem collect_of_pae (l : List (Except EErr Res)) (hl : ∀ r ∈ l, isPaeOrOk r = true) :
    collect l = .ok (keepOk l) := by
  induction l with
  | nil => rfl
  | cons r l ih =>
    have h1 := hl r (by simp)
    have h2 := ih (fun r' hr' => hl r' (by simp [hr']))
    cases r with
    | ok v => simp [collect, keepOk, h2, Except.map]
    | error e =>
      cases e with
      | pae x => simp [collect, keepOk, h2]
      | other c => simp [isPaeOrOk] at h1

/-- **refinement**: on steps made of access steps and wildcards the model's `_t_eval` computes the
    reference evaluation — and never fails with anything but a PathAccessError -/
theorem evalSteps_eq_refEval (cs : Classes) (h : Heap)
    (hag : ∀ v, extendChildren cs h v = children cs h v) (steps : List (String × Val)) :
    wfOps steps = true → ∀ cur, evalSteps cs h steps cur = refEval cs h steps cur ∧
      isPaeOrOk (evalSteps cs h steps cur) = true := by
  induction steps with
  | nil => intro _ cur; simp [evalSteps, refEval, isPaeOrOk]
  | cons s rest ih =>
    obtain ⟨op, arg⟩ := s
    intro hw cur
    simp only [wfOps, Bool.and_eq_true] at hw
    obtain ⟨hop, hrest⟩ := hw
    have ihr := ih hrest
    by_cases hx : (op == "x") = true
    · simp only [evalSteps, refEval, hx, if_true]
      have hl : ∀ r ∈ (starItems cs h cur).map (evalSteps cs h rest), isPaeOrOk r = true := by
        intro r hr
        obtain ⟨c, _, hc⟩ := List.mem_map.1 hr
        rw [← hc]; exact (ihr c).2
      rw [collect_of_pae _ hl]
      have hm : (starItems cs h cur).map (evalSteps cs h rest) =
          (children cs h cur).map (refEval cs h rest) := by
        unfold starItems
        rw [hag]
        exact List.map_congr_left (fun c _ => (ihr c).1)
      rw [hm]
      simp [Except.map, isPaeOrOk]
    · by_cases hX : (op == "X") = true
      · simp only [evalSteps, refEval, hx, hX, if_true, Bool.false_eq_true, if_false]
        have hl : ∀ r ∈ (starstarItems cs h cur).1.map (evalSteps cs h rest), isPaeOrOk r = true := by
          intro r hr
          obtain ⟨c, _, hc⟩ := List.mem_map.1 hr
          rw [← hc]; exact (ihr c).2
        rw [collect_of_pae _ hl]
        have hd : (starstarItems cs h cur).1 = descend cs h cur := by
          unfold starstarItems descend
          simp only
          rw [ssLoop_eq_bfs cs h hag, hag]
          simp only [List.take_zero, List.drop_zero, List.nil_append]
          cases cur <;> rfl
        have hm : (starstarItems cs h cur).1.map (evalSteps cs h rest) =
            (descend cs h cur).map (refEval cs h rest) := by
          rw [hd]
          exact List.map_congr_left (fun c _ => (ihr c).1)
        rw [hm]
        simp [Except.map, isPaeOrOk]
      · simp only [evalSteps, refEval, hx, hX, Bool.false_eq_true, if_false]
        rw [accessStep_eq]
        have hacc : (refAccess cs h op cur arg).isSome = true := by
          unfold refAccess
          simp only [Bool.or_eq_true] at hop
          rcases hop with ((((h1 | h1) | h1) | h1) | h1) | h1
          · simp [h1]
          · by_cases h0 : (op == ".") = true <;> simp [h0, h1]
          · by_cases h0 : (op == ".") = true <;> by_cases h2 : (op == "[") = true <;> simp [h0, h2, h1]
          · by_cases h0 : (op == ".") = true <;> by_cases h2 : (op == "[") = true <;>
              by_cases h3 : (op == "P") = true <;> simp [h0, h2, h3, h1]
          · exact absurd h1 hx
          · exact absurd h1 hX
        cases hr : refAccess cs h op cur arg with
        | none => rw [hr] at hacc; simp at hacc
        | some r =>
          cases r with
          | ok v => simp only; exact ihr v
          | error e => simp [isPaeOrOk]

/-! ### nesting and broadcast -/

theorem keepOk_mem {l : List (Except EErr Res)} {r : Res} (h : r ∈ keepOk l) : .ok r ∈ l := by
  induction l with
  | nil => simp [keepOk] at h
  | cons x l ih =>
    cases x with
    | ok v =>
      simp only [keepOk, List.mem_cons] at h
      rcases h with h | h
      · subst h; simp
      · simp [ih h]
    | error e => simp only [keepOk] at h; simp [ih h]

theorem stars_cons (op : String) (arg : Val) (rest : List (String × Val)) :
    stars ((op, arg) :: rest) = (if op == "x" || op == "X" then 1 else 0) + stars rest := by
  unfold stars
  by_cases h : (op == "x" || op == "X") = true
  · simp [List.filter_cons, h]; omega
  · simp [List.filter_cons, h]

/-- every wildcard adds exactly one level of list nesting -/
theorem refEval_nested (cs : Classes) (h : Heap) (steps : List (String × Val)) :
    ∀ cur r, refEval cs h steps cur = .ok r → nested (stars steps) r = true := by
  induction steps with
  | nil =>
    intro cur r hr
    simp only [refEval, Except.ok.injEq] at hr
    subst hr; rfl
  | cons s rest ih =>
    obtain ⟨op, arg⟩ := s
    intro cur r hr
    rw [stars_cons]
    by_cases hx : (op == "x") = true
    · simp only [refEval, hx, if_true, Except.ok.injEq] at hr
      subst hr
      simp only [hx, Bool.true_or, if_true, Nat.add_comm 1, nested, List.all_eq_true]
      intro r' hr'
      obtain ⟨c, _, hc⟩ := List.mem_map.1 (keepOk_mem hr')
      exact ih c r' hc
    · by_cases hX : (op == "X") = true
      · simp only [refEval, hx, hX, if_true, Bool.false_eq_true, if_false, Except.ok.injEq] at hr
        subst hr
        simp only [hX, Bool.or_true, if_true, Nat.add_comm 1, nested, List.all_eq_true]
        intro r' hr'
        obtain ⟨c, _, hc⟩ := List.mem_map.1 (keepOk_mem hr')
        exact ih c r' hc
      · simp only [refEval, hx, hX, Bool.false_eq_true, if_false] at hr
        simp only [hx, hX, Bool.or_self, Bool.false_eq_true, if_false, Nat.zero_add]
        cases ha : refAccess cs h op cur arg with
        | none => rw [ha] at hr; simp at hr
        | some a =>
          cases a with
          | ok v => rw [ha] at hr; exact ih v r hr
          | error e => rw [ha] at hr; simp at hr

theorem sumLists_nested (k : Nat) : ∀ xs : List Res, xs.all (nested (k + 1)) = true →
    ∃ ys, sumLists xs = some ys ∧ ys.all (nested k) = true ∧
      ys.flatMap (leaves k) = xs.flatMap (leaves (k + 1)) := by
  intro xs
  induction xs with
  | nil => intro _; exact ⟨[], rfl, rfl, rfl⟩
  | cons x xs ih =>
    intro hx
    simp only [List.all_cons, Bool.and_eq_true] at hx
    obtain ⟨ys, h1, h2, h3⟩ := ih hx.2
    cases x with
    | val v => simp [nested] at hx
    | list zs =>
      have hz : zs.all (nested k) = true := by simpa [nested] using hx.1
      refine ⟨zs ++ ys, by simp [sumLists, h1], by simp [List.all_append, hz, h2], ?_⟩
      simp [List.flatMap_append, h3, leaves]

theorem flattenN_nested : ∀ (n : Nat) (xs : List Res), xs.all (nested n) = true →
    ∃ ys, flattenN n xs = some ys ∧ ys.all (nested 0) = true ∧
      ys.flatMap (leaves 0) = xs.flatMap (leaves n) := by
  intro n
  induction n with
  | zero => intro xs hx; exact ⟨xs, rfl, hx, rfl⟩
  | succ n ih =>
    intro xs hx
    obtain ⟨ys, h1, h2, h3⟩ := sumLists_nested n xs hx
    obtain ⟨zs, g1, g2, g3⟩ := ih ys h2
    exact ⟨zs, by simp [flattenN, h1, g1], g2, by rw [g3, h3]⟩

theorem forEach_vals (f : Heap → Val → Except MErr Heap) : ∀ (ys : List Res) (h : Heap),
    ys.all (nested 0) = true → forEach f h ys = mutateAll f h (ys.flatMap (leaves 0)) := by
  intro ys
  induction ys with
  | nil => intro h _; rfl
  | cons y ys ih =>
    intro h hy
    simp only [List.all_cons, Bool.and_eq_true] at hy
    cases y with
    | list zs => simp [nested] at hy
    | val d =>
      simp only [forEach, List.flatMap_cons, leaves, List.singleton_append, mutateAll]
      cases f h d with
      | ok h' => exact ih h' hy.2
      | error e => rfl

/-- **broadcast**: `_apply_for_each` applies the operation to exactly the entries of the nested
    result, in order, on one heap -/
theorem applyForEach_eq (f : Heap → Val → Except MErr Heap) (k : Nat) (h : Heap) (r : Res)
    (hn : nested k r = true) : applyForEach k f h r = mutateAll f h (leaves k r) := by
  cases k with
  | zero =>
    cases r with
    | list xs => simp [nested] at hn
    | val d =>
      simp only [applyForEach, beq_self_eq_true, if_true, leaves, mutateAll]
      cases f h d <;> rfl
  | succ n =>
    cases r with
    | val d => simp [nested] at hn
    | list xs =>
      have hx : xs.all (nested n) = true := by simpa [nested] using hn
      obtain ⟨ys, h1, h2, h3⟩ := flattenN_nested n xs hx
      simp only [applyForEach, Nat.add_one_ne_zero, beq_iff_eq, if_false, Nat.add_sub_cancel, h1, leaves]
      rw [forEach_vals f ys h h2, h3]

mutual
theorem Res.beq_refl : ∀ r : Res, Res.beq r r = true
  | .val v => by simp [Res.beq]
  | .list xs => by simp only [Res.beq]; exact Res.beqList_refl xs
theorem Res.beqList_refl : ∀ xs : List Res, Res.beqList xs xs = true
  | [] => by simp [Res.beqList]
  | x :: xs => by simp [Res.beqList, Res.beq_refl x, Res.beqList_refl xs]
end

/-! ## evaluation with state (method calls after wildcards, identity of the result's lists) -/

theorem pyKeyEq_eucl (f e k : Val) (h1 : pyKeyEq f e = true) (h2 : pyKeyEq f k = true) :
    pyKeyEq e k = true := by
  cases f <;> cases e <;> simp [pyKeyEq] at h1 <;> cases k <;> simp [pyKeyEq] at h2 ⊢ <;>
    first
    | (subst h1; subst h2; rfl)
    | (subst h1; exact h2)
    | (subst h2; exact h1)
    | (rename_i a b c; cases a <;> cases b <;> cases c <;> simp_all)
    | (rename_i a b c; cases a <;> cases b <;> simp_all)
    | (rename_i a b c; cases a <;> simp_all <;> omega)
    | simp_all
    | omega

def sameKind : Obj → Obj → Bool
  | .list _ _, .list _ _ => true
  | .tuple _ _, .tuple _ _ => true
  | .dict _ _, .dict _ _ => true
  | .set _ _, .set _ _ => true
  | .inst _ _, .inst _ _ => true
  | _, _ => false

theorem hashable_set {h : Heap} {a : Nat} {o o' : Obj} (ho : h[a]? = some o)
    (hk : sameKind o o' = true) (v : Val) : v.hashable (h.set a o') = v.hashable h := by
  cases v with
  | ref b =>
    simp only [Val.hashable, List.getElem?_set]
    by_cases hab : a = b
    · subst hab
      have hl : a < h.length := by
        rcases Nat.lt_or_ge a h.length with h1 | h1
        · exact h1
        · rw [List.getElem?_eq_none h1] at ho; cases ho
      simp only [if_true, hl, ho]
      cases o <;> cases o' <;> simp_all [sameKind]
    · simp [hab]
  | _ => rfl

theorem cellOK_congr {cs : Classes} {h h' : Heap} (hh : ∀ v : Val, v.hashable h' = v.hashable h) (o : Obj) :
    cellOK cs h' o = cellOK cs h o := by
  cases o <;> simp [cellOK, hh]

theorem heapWF_set {cs : Classes} {h : Heap} {a : Nat} {o o' : Obj} (hw : heapWF cs h = true)
    (ho : h[a]? = some o) (hk : sameKind o o' = true) (hok : cellOK cs h o' = true) :
    heapWF cs (h.set a o') = true := by
  unfold heapWF at *
  rw [List.all_eq_true] at *
  intro x hx
  rw [cellOK_congr (hashable_set ho hk)]
  rcases List.mem_or_eq_of_mem_set hx with h1 | h1
  · exact hw x h1
  · rw [h1]; exact hok


/-- removing a key from a well-formed dict cell leaves a well-formed dict cell -/
theorem cellOK_dict_filter {cs : Classes} {h : Heap} {c : String} {es : List (Val × Val)} (k : Val)
    (hok : cellOK cs h (.dict c es) = true) :
    cellOK cs h (.dict c (es.filter (fun e => !(pyKeyEq e.1 k)))) = true := by
  simp only [cellOK, Bool.and_eq_true, List.all_eq_true, beq_iff_eq] at hok ⊢
  refine ⟨hok.1, ?_⟩
  intro e he
  rw [List.mem_filter] at he
  obtain ⟨hmem, hne⟩ := he
  obtain ⟨hh, hl⟩ := hok.2 e hmem
  refine ⟨hh, ?_⟩
  unfold dictLookup at hl ⊢
  rw [List.find?_filter]
  have : (fun a : Val × Val => decide ((!pyKeyEq a.1 k) = true ∧ pyKeyEq a.1 e.1 = true)) =
      (fun a => pyKeyEq a.1 e.1) := by
    funext a
    by_cases h1 : pyKeyEq a.1 e.1 = true
    · by_cases h2 : pyKeyEq a.1 k = true
      · have := pyKeyEq_eucl a.1 e.1 k h1 h2
        simp [this] at hne
      · simp [h1, h2]
    · simp [h1]
  rw [this]; exact hl

theorem any_setAssoc (n m : String) (v : Val) : ∀ r : List (String × Val),
    (setAssoc n v r).any (fun p => p.1 == m) = (r.any (fun p => p.1 == m) || (n == m)) := by
  intro r
  induction r with
  | nil => simp [setAssoc]
  | cons q r ih =>
    obtain ⟨k', v'⟩ := q
    by_cases hk : (k' == n) = true
    · have : k' = n := by simpa using hk
      subst this
      simp only [setAssoc, hk, if_true, List.any_cons]
      cases (k' == m) <;> cases (r.any fun p => p.1 == m) <;> rfl
    · simp only [setAssoc, hk, Bool.false_eq_true, if_false, List.any_cons, ih]
      cases (k' == m) <;> cases (r.any fun p => p.1 == m) <;> cases (n == m) <;> rfl

theorem distinct_setAssoc (n : String) (v : Val) : ∀ r : List (String × Val),
    distinctNames r = true → distinctNames (setAssoc n v r) = true := by
  intro r
  induction r with
  | nil => intro _; simp [setAssoc, distinctNames]
  | cons q r ih =>
    obtain ⟨k', v'⟩ := q
    intro hd
    simp only [distinctNames, Bool.and_eq_true, Bool.not_eq_true'] at hd
    by_cases hk : (k' == n) = true
    · simp only [setAssoc, hk, if_true, distinctNames, Bool.and_eq_true, Bool.not_eq_true']
      exact hd
    · simp only [setAssoc, hk, Bool.false_eq_true, if_false, distinctNames, Bool.and_eq_true,
        Bool.not_eq_true', any_setAssoc]
      refine ⟨?_, ih hd.2⟩
      have : (n == k') = false := by
        cases hnk : (n == k')
        · rfl
        · have e : n = k' := by simpa using hnk
          subst e; simp at hk
      simp [hd.1, this]

theorem distinct_find : ∀ (as : List (String × Val)), distinctNames as = true → ∀ p ∈ as,
    as.find? (fun q => q.1 == p.1) = some p := by
  intro as
  induction as with
  | nil => intro _ p hp; cases hp
  | cons q r ih =>
    intro hd p hp
    simp only [distinctNames, Bool.and_eq_true, Bool.not_eq_true'] at hd
    rcases List.mem_cons.1 hp with h1 | h1
    · subst h1; simp
    · have hne : (q.1 == p.1) = false := by
        cases hq : (q.1 == p.1)
        · rfl
        · have e : q.1 = p.1 := by simpa using hq
          have : r.any (fun x => x.1 == q.1) = true := by
            rw [List.any_eq_true]; exact ⟨p, h1, by simp [e]⟩
          rw [this] at hd; cases hd.1
      simp only [List.find?_cons, hne]
      exact ih hd.2 p h1

/-- setting an attribute of a well-formed instance cell leaves a well-formed instance cell -/
theorem cellOK_inst_setAssoc {cs : Classes} {h : Heap} {c : String} {as : List (String × Val)}
    (n : String) (v : Val) (hok : cellOK cs h (.inst c as) = true) :
    cellOK cs h (.inst c (setAssoc n v as)) = true := by
  simp only [cellOK, Bool.and_eq_true, List.all_eq_true, beq_iff_eq] at hok ⊢
  obtain ⟨⟨hcls, _⟩, hd⟩ := hok
  have hd' := distinct_setAssoc n v as hd
  refine ⟨⟨hcls, ?_⟩, hd'⟩
  intro p hp
  rw [distinct_find _ hd' p hp]; rfl


theorem itNext_ok {h : Heap} {attrs attrs' : List (String × Val)} {v : Val}
    (hit : itNext h attrs = some (.ok (attrs', v))) : ∃ w, attrs' = setAssoc "pos" w attrs := by
  unfold itNext at hit
  split at hit
  · split at hit
    · cases hit
    · split at hit
      · split at hit
        · injection hit with e; injection e with e; injection e with e3 e4
          exact ⟨_, e3.symm⟩
        · cases hit
      · split at hit
        · injection hit with e; injection e with e; injection e with e3 e4
          exact ⟨_, e3.symm⟩
        · cases hit
      · cases hit
  · cases hit

theorem failMethod_not_ret (cs : Classes) (h h' : Heap) (recv : Val) (args : List Val) (v : Val) :
    failMethod cs h recv args ≠ .ret h' v := by
  unfold failMethod
  intro hc
  cases recv with
  | ref a =>
    simp only at hc
    cases ho : h[a]? with
    | none => rw [ho] at hc; cases hc
    | some o =>
      rw [ho] at hc
      simp only at hc
      split at hc
      · split at hc <;> cases hc
      · cases o <;> simp only at hc <;> first | cases hc | (split at hc <;> cases hc)
  | _ => simp at hc

/-- **a modelled method call leaves a well-formed heap well-formed** -/
theorem callMethod_wf {cs : Classes} {h h' : Heap} {recv : Val} {name : String} {args : List Val} {v : Val}
    (hw : heapWF cs h = true) (hc : callMethod cs h recv name args = .ret h' v) : heapWF cs h' = true := by
  unfold callMethod at hc
  split at hc
  · cases hc
  · split at hc
    · exact absurd hc (failMethod_not_ret cs h h' recv args v)
    · cases recv with
    | ref a =>
      simp only at hc
      cases ho : h[a]? with
      | none => rw [ho] at hc; cases hc
      | some o =>
        rw [ho] at hc
        have hcell := heapWF_get hw ho
        cases o with
        | list c xs =>
          simp only at hc
          split at hc
          · split at hc
            · injection hc with e1 e2; subst e1
              exact heapWF_set hw ho rfl hcell
            · cases hc
          · split at hc
            · split at hc
              · injection hc with e1 e2; subst e1
                exact heapWF_set hw ho rfl hcell
              · cases hc
            · cases hc
        | dict c es =>
          simp only at hc
          split at hc
          · rename_i hpop
            split at hc
            · rename_i es' v' hdp
              injection hc with e1 e2; subst e1
              refine heapWF_set hw ho rfl ?_
              -- what `dictPop` leaves is the cell itself or the cell without the key
              unfold dictPop at hdp
              split at hdp
              · split at hdp
                · cases hdp
                · split at hdp
                  · injection hdp with e; injection e with e3 e4; subst e3
                    exact cellOK_dict_filter _ hcell
                  · cases hdp
              · split at hdp
                · cases hdp
                · split at hdp
                  · injection hdp with e; injection e with e3 e4; subst e3
                    exact cellOK_dict_filter _ hcell
                  · injection hdp with e; injection e with e3 e4; subst e3
                    exact hcell
              · cases hdp
            · cases hc
          · cases hc
        | tuple c xs => cases hc
        | set c xs => simp only at hc; split at hc <;> cases hc
        | inst c attrs =>
          simp only at hc
          split at hc
          · cases hc
          · split at hc
            · split at hc
              · split at hc
                · rename_i attrs' v' hit
                  injection hc with e1 e2; subst e1
                  refine heapWF_set hw ho rfl ?_
                  obtain ⟨w, hw'⟩ := itNext_ok hit
                  subst hw'
                  exact cellOK_inst_setAssoc _ _ hcell
                · cases hc
                · cases hc
              · cases hc
            · cases hc
    | _ => simp at hc

theorem callStep_wf {cs : Classes} {s : St} {cur : Val} {name : String} {args : List Val}
    (hw : heapWF cs s.heap = true) : heapWF cs (callStep cs s cur name args).1.heap = true := by
  unfold callStep
  cases hc : callMethod cs s.heap cur name args with
  | noAttr => exact hw
  | unmodelled => exact hw
  | raised c =>
    simp only [St.log]
    cases cur <;> simp only <;> try exact hw
    split <;> exact hw
  | ret h' v => exact callMethod_wf hw hc


/-! ### the loop over the entries = the walk over the matched positions -/

theorem foldl_stepPos_err (f : Val → St → St × Except EErr LRes) (l : List Val) (s : St)
    (out : List LRes) (e : EErr) :
    l.foldl (stepPos f) { st := s, out := out, err := some e } = { st := s, out := out, err := some e } := by
  induction l with
  | nil => rfl
  | cons c l ih => simp only [List.foldl_cons, stepPos]; exact ih

/-- what a finished walk amounts to -/
def accResult (acc : Acc) : St × Except EErr (List LRes) :=
  (acc.st, match acc.err with | none => .ok acc.out | some e => .error e)

theorem collectS_eq_fold (f : Val → St → St × Except EErr LRes) : ∀ (l : List Val) (s : St) (pre : List LRes),
    accResult (l.foldl (stepPos f) { st := s, out := pre, err := none }) =
      (match collectS f l s with
       | (s', .ok rs) => (s', .ok (pre ++ rs))
       | (s', .error e) => (s', .error e)) := by
  intro l
  induction l with
  | nil => intro s pre; simp [collectS, accResult]
  | cons c l ih =>
    intro s pre
    simp only [List.foldl_cons, collectS]
    rcases hf : f c s with ⟨s1, r⟩
    cases r with
    | ok r =>
      simp only [stepPos, hf]
      rw [ih s1 (pre ++ [r])]
      rcases collectS f l s1 with ⟨s2, rs⟩
      cases rs <;> simp
    | error e =>
      cases e with
      | pae x => simp only [stepPos, hf]; exact ih s1 pre
      | other c' => simp only [stepPos, hf]; rw [foldl_stepPos_err]; simp [accResult]

/-- the wildcard branch (new list, loop with `try`, `break`) is the walk over the positions -/
theorem wildS_eq_refWild (f : Val → St → St × Except EErr LRes) (nxt : List Val) (s : St) :
    wildS f nxt s = refWild f nxt s := by
  unfold wildS refWild refPositions
  have := collectS_eq_fold f nxt { s with next := s.next + 1 } []
  simp only [accResult, List.nil_append] at this
  generalize List.foldl (stepPos f) _ nxt = acc at this ⊢
  generalize collectS f nxt { s with next := s.next + 1 } = col at this ⊢
  obtain ⟨s2, rs⟩ := col
  obtain ⟨st, out, err⟩ := acc
  cases err <;> cases rs <;> simp_all

theorem collectS_congr (Inv : St → Prop) (f g : Val → St → St × Except EErr LRes)
    (hfg : ∀ c s, Inv s → f c s = g c s ∧ Inv (f c s).1) :
    ∀ (l : List Val) (s : St), Inv s → collectS f l s = collectS g l s ∧ Inv (collectS f l s).1 := by
  intro l
  induction l with
  | nil => intro s hs; exact ⟨rfl, hs⟩
  | cons c l ih =>
    intro s hs
    obtain ⟨h1, h2⟩ := hfg c s hs
    simp only [collectS]
    rw [← h1]
    rcases hf : f c s with ⟨s1, r⟩
    rw [hf] at h2
    obtain ⟨h3, h4⟩ := ih s1 h2
    cases r with
    | ok r =>
      simp only
      rw [← h3]
      rcases hcl : collectS f l s1 with ⟨s2, rs⟩
      rw [hcl] at h4
      cases rs <;> exact ⟨rfl, h4⟩
    | error e =>
      cases e with
      | pae x => exact ⟨h3, h4⟩
      | other c' => exact ⟨rfl, h2⟩

theorem wildS_congr (Inv : St → Prop) (f g : Val → St → St × Except EErr LRes)
    (hfg : ∀ c s, Inv s → f c s = g c s ∧ Inv (f c s).1)
    (hnext : ∀ s : St, Inv s → Inv { s with next := s.next + 1 })
    (l : List Val) (s : St) (hs : Inv s) : wildS f l s = wildS g l s ∧ Inv (wildS f l s).1 := by
  unfold wildS
  obtain ⟨h1, h2⟩ := collectS_congr Inv f g hfg l _ (hnext s hs)
  rw [← h1]
  rcases hcl : collectS f l { s with next := s.next + 1 } with ⟨s2, rs⟩
  rw [hcl] at h2
  cases rs <;> exact ⟨rfl, h2⟩

/-- **refinement, with effects**: on every well-formed heap the model's `_t_eval` computes the
    reference evaluation (once per matched position, on the evolving state), and leaves a well-formed
    heap -/
theorem evalS_eq_refEvalS (cs : Classes) (hc : classesWF cs = true) (steps : List Step) :
    ∀ (cur : Val) (s : St), heapWF cs s.heap = true →
      evalS cs steps cur s = refEvalS cs steps cur s ∧ heapWF cs (evalS cs steps cur s).1.heap = true := by
  induction steps with
  | nil => intro cur s hs; exact ⟨rfl, hs⟩
  | cons st rest ih =>
    intro cur s hs
    cases st with
    | star =>
      simp only [evalS, refEvalS]
      rw [← wildS_eq_refWild]
      have hst : starItems cs s.heap cur = children cs s.heap cur :=
        extendChildren_eq_children cs s.heap hs hc cur
      rw [← hst]
      exact wildS_congr (fun s => heapWF cs s.heap = true) _ _ (fun c s hs => ih c s hs) (fun _ h => h) _ s hs
    | starstar =>
      simp only [evalS, refEvalS]
      rw [← wildS_eq_refWild]
      have hd : (starstarItems cs s.heap cur).1 = descend cs s.heap cur := by
        unfold starstarItems descend
        simp only
        rw [ssLoop_eq_bfs cs s.heap (extendChildren_eq_children cs s.heap hs hc),
          extendChildren_eq_children cs s.heap hs hc]
        simp only [List.take_zero, List.drop_zero, List.nil_append]
        cases cur <;> rfl
      rw [← hd]
      exact wildS_congr (fun s => heapWF cs s.heap = true) _ _ (fun c s hs => ih c s hs) (fun _ h => h) _ s hs
    | acc op arg =>
      simp only [evalS, refEvalS]
      rw [accessStep_eq]
      cases refAccess cs s.heap op cur arg with
      | none => exact ⟨rfl, hs⟩
      | some r =>
        cases r with
        | ok v => exact ih v s hs
        | error e => exact ⟨rfl, hs⟩
    | call name args =>
      simp only [evalS, refEvalS]
      have hw := callStep_wf (cs := cs) (cur := cur) (name := name) (args := args) hs
      rcases hcs : callStep cs s cur name args with ⟨s', r⟩
      rw [hcs] at hw
      cases r with
      | ok v => exact ih v s' hw
      | error e => exact ⟨rfl, hw⟩


/-! ### every list cell of a result is a new object -/

/-- `f` only creates lists numbered from the counter it is given, each once, and returns the counter
    behind the last one -/
def FreshFn (f : Val → St → St × Except EErr LRes) : Prop :=
  ∀ c s, s.next ≤ (f c s).1.next ∧
    ∀ r, (f c s).2 = .ok r → r.labels.Nodup ∧ ∀ l ∈ r.labels, s.next ≤ l ∧ l < (f c s).1.next

theorem collectS_fresh (f : Val → St → St × Except EErr LRes) (hf : FreshFn f) :
    ∀ (l : List Val) (s : St), s.next ≤ (collectS f l s).1.next ∧
      ∀ rs, (collectS f l s).2 = .ok rs → (LRes.labelsList rs).Nodup ∧
        ∀ x ∈ LRes.labelsList rs, s.next ≤ x ∧ x < (collectS f l s).1.next := by
  intro l
  induction l with
  | nil =>
    intro s
    refine ⟨Nat.le_refl _, ?_⟩
    intro rs hrs
    simp only [collectS, Except.ok.injEq] at hrs
    subst hrs
    simp [LRes.labelsList]
  | cons c l ih =>
    intro s
    obtain ⟨h1, h2⟩ := hf c s
    simp only [collectS]
    rcases hfc : f c s with ⟨s1, r⟩
    rw [hfc] at h1 h2
    simp only at h1 h2
    obtain ⟨h3, h4⟩ := ih s1
    cases r with
    | ok r =>
      simp only
      rcases hcl : collectS f l s1 with ⟨s2, rs⟩
      rw [hcl] at h3 h4
      simp only at h3 h4
      cases rs with
      | error e => exact ⟨by simp only; omega, by intro rs hrs; cases hrs⟩
      | ok rs =>
        refine ⟨by simp only; omega, ?_⟩
        intro rs' hrs'
        simp only [Except.ok.injEq] at hrs'
        subst hrs'
        obtain ⟨g1, g2⟩ := h2 r rfl
        obtain ⟨g3, g4⟩ := h4 rs rfl
        simp only [LRes.labelsList]
        refine ⟨List.nodup_append.2 ⟨g1, g3, ?_⟩, ?_⟩
        · intro a ha b hb e
          subst e
          have := (g2 a ha).2
          have := (g4 a hb).1
          omega
        · intro x hx
          rcases List.mem_append.1 hx with hx | hx
          · have := g2 x hx; exact ⟨this.1, by omega⟩
          · have := g4 x hx; exact ⟨by omega, this.2⟩
    | error e =>
      cases e with
      | pae x =>
        simp only
        refine ⟨by omega, ?_⟩
        intro rs hrs
        obtain ⟨g3, g4⟩ := h4 rs hrs
        exact ⟨g3, fun x hx => ⟨by have := (g4 x hx).1; omega, (g4 x hx).2⟩⟩
      | other c' => exact ⟨h1, by intro rs hrs; cases hrs⟩

theorem wildS_fresh (f : Val → St → St × Except EErr LRes) (hf : FreshFn f) (l : List Val) (s : St) :
    s.next ≤ (wildS f l s).1.next ∧
      ∀ r, (wildS f l s).2 = .ok r → r.labels.Nodup ∧ ∀ x ∈ r.labels, s.next ≤ x ∧ x < (wildS f l s).1.next := by
  unfold wildS
  obtain ⟨h1, h2⟩ := collectS_fresh f hf l { s with next := s.next + 1 }
  rcases hcl : collectS f l { s with next := s.next + 1 } with ⟨s2, rs⟩
  rw [hcl] at h1 h2
  simp only at h1 h2
  cases rs with
  | error e => exact ⟨by simp only; omega, by intro r hr; cases hr⟩
  | ok rs =>
    refine ⟨by simp only; omega, ?_⟩
    intro r hr
    simp only [Except.ok.injEq] at hr
    subst hr
    obtain ⟨g1, g2⟩ := h2 rs rfl
    simp only [LRes.labels]
    refine ⟨List.nodup_cons.2 ⟨?_, g1⟩, ?_⟩
    · intro hm; have := (g2 _ hm).1; omega
    · intro x hx
      rcases List.mem_cons.1 hx with hx | hx
      · subst hx; exact ⟨Nat.le_refl _, by omega⟩
      · have := g2 x hx; exact ⟨by omega, this.2⟩

theorem callStep_next (cs : Classes) (s : St) (cur : Val) (name : String) (args : List Val) :
    (callStep cs s cur name args).1.next = s.next := by
  unfold callStep
  cases callMethod cs s.heap cur name args <;> simp only [St.log] <;> cases cur <;> simp only <;>
    first | rfl | (split <;> rfl)

theorem evalS_fresh (cs : Classes) (steps : List Step) : FreshFn (evalS cs steps) := by
  induction steps with
  | nil =>
    intro cur s
    refine ⟨Nat.le_refl _, ?_⟩
    intro r hr
    simp only [evalS, Except.ok.injEq] at hr
    subst hr
    simp [LRes.labels]
  | cons st rest ih =>
    intro cur s
    cases st with
    | star => simp only [evalS]; exact wildS_fresh _ ih _ s
    | starstar => simp only [evalS]; exact wildS_fresh _ ih _ s
    | acc op arg =>
      simp only [evalS]
      cases accessStep cs s.heap op cur arg with
      | ok v => exact ih v s
      | error e => exact ⟨Nat.le_refl _, by intro r hr; cases hr⟩
    | call name args =>
      simp only [evalS]
      have hn := callStep_next cs s cur name args
      rcases hcs : callStep cs s cur name args with ⟨s', r⟩
      rw [hcs] at hn
      simp only at hn
      cases r with
      | ok v =>
        have := ih v s'
        rw [hn] at this
        exact this
      | error e => exact ⟨by simp only; omega, by intro r hr; cases hr⟩


/-! ### paths without calls: the state is untouched and the result is `evalSteps`' -/

theorem LRes.eraseList_eq_map (xs : List LRes) : LRes.eraseList xs = xs.map LRes.erase := by
  induction xs with
  | nil => rfl
  | cons x xs ih => simp [LRes.eraseList, ih]

/-- `f` leaves heap and call log alone on the heap `h` and computes `g` up to the identities -/
def PureFn (h : Heap) (f : Val → St → St × Except EErr LRes) (g : Val → Except EErr Res) : Prop :=
  ∀ c s, s.heap = h → (f c s).1.heap = h ∧ (f c s).1.calls = s.calls ∧ eraseE (f c s).2 = g c

theorem collectS_pure (h : Heap) (f : Val → St → St × Except EErr LRes) (g : Val → Except EErr Res)
    (hf : PureFn h f g) : ∀ (l : List Val) (s : St), s.heap = h →
      (collectS f l s).1.heap = h ∧ (collectS f l s).1.calls = s.calls ∧
      (match (collectS f l s).2 with
       | .ok rs => .ok (LRes.eraseList rs)
       | .error e => .error e) = collect (l.map g) := by
  intro l
  induction l with
  | nil => intro s hs; exact ⟨hs, rfl, rfl⟩
  | cons c l ih =>
    intro s hs
    obtain ⟨h1, h2, h3⟩ := hf c s hs
    simp only [collectS, List.map_cons]
    rw [← h3]
    rcases hfc : f c s with ⟨s1, r⟩
    rw [hfc] at h1 h2
    simp only at h1 h2
    obtain ⟨g1, g2, g3⟩ := ih s1 h1
    cases r with
    | ok r =>
      simp only [eraseE, collect]
      rw [← g3]
      rcases hcl : collectS f l s1 with ⟨s2, rs⟩
      rw [hcl] at g1 g2
      simp only at g1 g2
      cases rs with
      | ok rs => exact ⟨g1, by rw [g2, h2], by simp [Except.map, LRes.eraseList]⟩
      | error e => exact ⟨g1, by rw [g2, h2], by simp [Except.map]⟩
    | error e =>
      cases e with
      | pae x => simp only [eraseE, collect]; exact ⟨g1, by rw [g2, h2], g3⟩
      | other c' => simp only [eraseE, collect]; exact ⟨h1, h2, trivial⟩

theorem wildS_pure (h : Heap) (f : Val → St → St × Except EErr LRes) (g : Val → Except EErr Res)
    (hf : PureFn h f g) (l : List Val) (s : St) (hs : s.heap = h) :
    (wildS f l s).1.heap = h ∧ (wildS f l s).1.calls = s.calls ∧
      eraseE (wildS f l s).2 = (collect (l.map g)).map Res.list := by
  unfold wildS
  obtain ⟨g1, g2, g3⟩ := collectS_pure h f g hf l { s with next := s.next + 1 } hs
  rw [← g3]
  rcases hcl : collectS f l { s with next := s.next + 1 } with ⟨s2, rs⟩
  rw [hcl] at g1 g2
  simp only at g1 g2
  cases rs with
  | ok rs => exact ⟨g1, g2, by simp [eraseE, Except.map, LRes.erase]⟩
  | error e => exact ⟨g1, g2, by simp [eraseE, Except.map]⟩

/-- **conservative extension**: on a path without calls the evaluation with state leaves the target
    and the call log alone and yields the value `evalSteps` yields -/
theorem evalS_pure (cs : Classes) (steps : List (String × Val)) :
    ∀ (cur : Val) (s : St), (evalS cs (steps.map Step.ofPair) cur s).1.heap = s.heap ∧
      (evalS cs (steps.map Step.ofPair) cur s).1.calls = s.calls ∧
      eraseE (evalS cs (steps.map Step.ofPair) cur s).2 = evalSteps cs s.heap steps cur := by
  induction steps with
  | nil => intro cur s; exact ⟨rfl, rfl, rfl⟩
  | cons st rest ih =>
    obtain ⟨op, arg⟩ := st
    intro cur s
    have hp : PureFn s.heap (evalS cs (rest.map Step.ofPair)) (evalSteps cs s.heap rest) := by
      intro c s' hs'
      have := ih c s'
      rw [hs'] at this
      exact this
    by_cases hx : (op == "x") = true
    · simp only [List.map_cons, Step.ofPair, hx, if_true, evalS, evalSteps]
      exact wildS_pure s.heap _ _ hp _ s rfl
    · by_cases hX : (op == "X") = true
      · simp only [List.map_cons, Step.ofPair, hx, hX, if_true, Bool.false_eq_true, if_false, evalS, evalSteps]
        exact wildS_pure s.heap _ _ hp _ s rfl
      · simp only [List.map_cons, Step.ofPair, hx, hX, Bool.false_eq_true, if_false, evalS, evalSteps]
        cases accessStep cs s.heap op cur arg with
        | ok v => exact ih v s
        | error e => exact ⟨rfl, rfl, rfl⟩


/-! ### one object at `n` positions: `n` evaluations -/

theorem set_same {h : Heap} {q : Nat} {o : Obj} (ho : h[q]? = some o) : h.set q o = h := by
  apply List.ext_getElem?
  intro i
  rw [List.getElem?_set]
  by_cases hqi : q = i
  · subst hqi
    have hl : q < h.length := by
      rcases Nat.lt_or_ge q h.length with h1 | h1
      · exact h1
      · rw [List.getElem?_eq_none h1] at ho; cases ho
    simp only [if_true, hl, ho]
  · simp [hqi]

theorem get_set_self {h : Heap} {q : Nat} {o o' : Obj} (ho : h[q]? = some o) :
    (h.set q o')[q]? = some o' := by
  have hl : q < h.length := by
    rcases Nat.lt_or_ge q h.length with h1 | h1
    · exact h1
    · rw [List.getElem?_eq_none h1] at ho; cases ho
  rw [List.getElem?_set]; simp [hl]

theorem logN_succ (c : String) (q : Nat) (name : String) (n : Nat) :
    logN c q name (n + 1) = (if logged c then [(q, name)] else []) ++ logN c q name n := by
  unfold logN
  cases logged c <;> simp [List.replicate_succ]

theorem append_step (cs : Classes) (s : St) (q : Nat) (c : String) (xs : List Val) (v : Val)
    (hq : s.heap[q]? = some (.list c xs)) :
    evalS cs [.call "append" [v]] (.ref q) s =
      ({ heap := s.heap.set q (.list c (xs ++ [v])), next := s.next,
         calls := s.calls ++ (if logged c then [(q, "append")] else []) }, .ok (.val .none)) := by
  have hcn : (Val.ref q).clsName s.heap = c := by simp [Val.clsName, hq, Obj.cls]
  simp only [evalS, callStep, callMethod, hq, St.log, hcn]
  cases logged c <;> simp

theorem collectS_append_replicate (cs : Classes) (q : Nat) (c : String) (v : Val) :
    ∀ (n : Nat) (s : St) (xs : List Val), s.heap[q]? = some (.list c xs) →
      collectS (evalS cs [.call "append" [v]]) (List.replicate n (.ref q)) s =
        ({ heap := s.heap.set q (.list c (xs ++ List.replicate n v)), next := s.next,
           calls := s.calls ++ logN c q "append" n }, .ok (List.replicate n (.val .none))) := by
  intro n
  induction n with
  | zero =>
    intro s xs hq
    simp only [List.replicate_zero, collectS, List.append_nil, logN]
    rw [set_same hq]
    cases logged c <;> simp
  | succ n ih =>
    intro s xs hq
    simp only [List.replicate_succ, collectS, append_step cs s q c xs v hq]
    rw [ih _ (xs ++ [v]) (get_set_self hq)]
    simp only [List.set_set, List.append_assoc, List.singleton_append, logN_succ]

theorem pop_step (cs : Classes) (s : St) (q : Nat) (c : String) (ys : List Val) (z : Val)
    (hq : s.heap[q]? = some (.list c (ys ++ [z]))) :
    evalS cs [.call "pop" []] (.ref q) s =
      ({ heap := s.heap.set q (.list c ys), next := s.next,
         calls := s.calls ++ (if logged c then [(q, "pop")] else []) }, .ok (.val z)) := by
  have hcn : (Val.ref q).clsName s.heap = c := by simp [Val.clsName, hq, Obj.cls]
  simp only [evalS, callStep, callMethod, hq, St.log, hcn, listPop]
  cases logged c <;> simp

theorem collectS_pop_replicate (cs : Classes) (q : Nat) (c : String) :
    ∀ (rs : List Val) (s : St) (ys : List Val), s.heap[q]? = some (.list c (ys ++ rs.reverse)) →
      collectS (evalS cs [.call "pop" []]) (List.replicate rs.length (.ref q)) s =
        ({ heap := s.heap.set q (.list c ys), next := s.next,
           calls := s.calls ++ logN c q "pop" rs.length }, .ok (rs.map LRes.val)) := by
  intro rs
  induction rs with
  | nil =>
    intro s ys hq
    simp only [List.reverse_nil, List.append_nil] at hq
    simp only [List.length_nil, List.replicate_zero, collectS, List.map_nil, logN]
    rw [set_same hq]
    cases logged c <;> simp
  | cons z rs ih =>
    intro s ys hq
    have hq' : s.heap[q]? = some (.list c ((ys ++ rs.reverse) ++ [z])) := by
      simpa [List.reverse_cons, List.append_assoc] using hq
    simp only [List.length_cons, List.replicate_succ, collectS, pop_step cs s q c _ z hq']
    rw [ih _ ys (get_set_self hq')]
    simp only [List.set_set, List.map_cons, logN_succ, List.append_assoc]

theorem nodupB_of_nodup : ∀ l : List Nat, l.Nodup → nodupB l = true := by
  intro l
  induction l with
  | nil => intro _; rfl
  | cons x xs ih =>
    intro h
    obtain ⟨h1, h2⟩ := List.nodup_cons.1 h
    simp only [nodupB, Bool.and_eq_true, Bool.not_eq_true']
    refine ⟨?_, ih h2⟩
    cases hc : xs.contains x
    · rfl
    · exact absurd (by simpa using hc) h1

theorem nodup_of_nodupB : ∀ l : List Nat, nodupB l = true → l.Nodup := by
  intro l
  induction l with
  | nil => intro _; exact List.nodup_nil
  | cons x xs ih =>
    intro h
    simp only [nodupB, Bool.and_eq_true, Bool.not_eq_true'] at h
    refine List.nodup_cons.2 ⟨?_, ih h.2⟩
    intro hm
    have : xs.contains x = true := by simpa using hm
    rw [this] at h; cases h.1

/-! ## what surrounds the wildcard evaluation: Coalesce / default, `__stars__`, the mode switch -/

/-- a path fails iff the part in front of its first wildcard cannot be walked -/
theorem refEval_ok_iff_reachable (cs : Classes) (h : Heap) (steps : List (String × Val)) :
    ∀ cur, isOkE (refEval cs h steps cur) = reachable cs h cur steps := by
  induction steps with
  | nil => intro cur; simp [reachable, preWild, refEval, isOkE]
  | cons s rest ih =>
    obtain ⟨op, arg⟩ := s
    intro cur
    by_cases hx : (op == "x") = true
    · simp [reachable, preWild, refEval, isOkE, isWildOp, hx]
    · by_cases hX : (op == "X") = true
      · simp [reachable, preWild, refEval, isOkE, isWildOp, hx, hX]
      · have hnw : isWildOp (op, arg) = false := by simp [isWildOp, hx, hX]
        have hp : preWild ((op, arg) :: rest) = (op, arg) :: preWild rest := by
          simp [preWild, hnw]
        simp only [reachable, hp, refEval, hx, hX, Bool.false_eq_true, if_false]
        cases refAccess cs h op cur arg with
        | none => rfl
        | some r =>
          cases r with
          | ok v => simp only; have := ih v; simp only [reachable] at this; exact this
          | error e => rfl

theorem findIdx?_cons' {α : Type} (p : α → Bool) (a : α) (l : List α) :
    (a :: l).findIdx? p = if p a then some 0 else (l.findIdx? p).map (· + 1) := by
  simp [List.findIdx?_cons]

/-- **Coalesce over wildcard paths**: the loop of `Coalesce.glomit` returns the value of the first
    alternative whose part in front of the first wildcard can be walked, else the default -/
theorem coalesce_eq (cs : Classes) (h : Heap) (hw : heapWF cs h = true) (hc : classesWF cs = true)
    (target : Val) (d : Bool) : ∀ (alts : List (List (String × Val))) (i : Nat),
    (∀ a ∈ alts, wfOps a = true) →
    coalesce cs h target d alts i =
      (match alts.findIdx? (reachable cs h target) with
       | some j =>
         (match refEval cs h (alts.getD j []) target with
          | .ok r => .ok (i + j) r
          | .error _ => .coalesceError)
       | none => if d then .dflt else .coalesceError) := by
  intro alts
  induction alts with
  | nil => intro i _; simp [coalesce]
  | cons a rest ih =>
    intro i hwf
    have hwa := hwf a (by simp)
    obtain ⟨he, hne⟩ := evalSteps_eq_refEval cs h (extendChildren_eq_children cs h hw hc) a hwa target
    have hr := refEval_ok_iff_reachable cs h a target
    simp only [coalesce, he, findIdx?_cons']
    cases hre : refEval cs h a target with
    | ok r =>
      rw [hre] at hr
      simp only [isOkE] at hr
      simp [← hr, hre]
    | error e =>
      rw [hre] at hr
      simp only [isOkE] at hr
      rw [he, hre] at hne
      have hg : isGlomErr e = true := by
        cases e with
        | pae x => rfl
        | other c => simp [isPaeOrOk] at hne
      simp only [← hr, hg, if_true, Bool.false_eq_true, if_false]
      rw [ih (i + 1) (fun a' ha' => hwf a' (by simp [ha']))]
      cases hf : List.findIdx? (reachable cs h target) rest with
      | none => simp
      | some j =>
        simp only [Option.map_some, List.getD_cons_succ]
        cases refEval cs h (rest.getD j []) target with
        | ok r => simp only [CoOut.ok.injEq, and_true]; omega
        | error e' => rfl

theorem stars_append (a b : List (String × Val)) : stars (a ++ b) = stars a + stars b := by
  simp [stars, List.filter_append]

theorem stars_stepsList : ∀ ps : List PathPart,
    stars (PathPart.stepsList ps) = (ps.map (fun p => stars p.steps)).sum := by
  intro ps
  induction ps with
  | nil => rfl
  | cons p ps ih => simp [PathPart.stepsList, stars_append, ih]

/-- flattening one level more than there is fails as soon as there is an entry -/
theorem flattenN_too_deep : ∀ (k : Nat) (xs : List Res), xs.all (nested k) = true →
    xs.flatMap (leaves k) ≠ [] → flattenN (k + 1) xs = none := by
  intro k
  induction k with
  | zero =>
    intro xs hx hne
    cases xs with
    | nil => simp at hne
    | cons x xs =>
      cases x with
      | val v => simp [flattenN, sumLists]
      | list ys => simp [nested] at hx
  | succ k ih =>
    intro xs hx hne
    obtain ⟨ys, h1, h2, h3⟩ := sumLists_nested k xs hx
    have := ih ys h2 (by rw [h3]; exact hne)
    simp only [flattenN, h1, Option.bind_some] at this ⊢
    exact this

/-! ### the mode switch -/

theorem stepsOfParts_segs (segs : List (List Char)) :
    Glom.C01.stepsOfParts (segs.map (fun seg => Glom.C01.Part.seg (Val.str (String.ofList seg)))) =
      segs.map (fun seg => ("P", Val.str (String.ofList seg))) := by
  induction segs with
  | nil => rfl
  | cons s r ih => simp [Glom.C01.stepsOfParts, ih]

theorem stars_all_P : ∀ steps : List (String × Val), steps.all (fun s => s.1 == "P") = true → stars steps = 0 := by
  intro steps
  induction steps with
  | nil => intro _; rfl
  | cons s r ih =>
    intro h
    simp only [List.all_cons, Bool.and_eq_true, beq_iff_eq] at h
    obtain ⟨op, arg⟩ := s
    simp only at h
    rw [stars_cons, ih h.2, h.1]
    decide

theorem wfOps_all_P : ∀ steps : List (String × Val), steps.all (fun s => s.1 == "P") = true → wfOps steps = true := by
  intro steps
  induction steps with
  | nil => intro _; rfl
  | cons s r ih =>
    intro h
    simp only [List.all_cons, Bool.and_eq_true, beq_iff_eq] at h
    obtain ⟨op, arg⟩ := s
    simp only at h
    simp only [wfOps, ih h.2, h.1, Bool.and_true]
    decide

/-! ### unfoldings (definitional) -/

/-- the shape of that evaluation at a `*` step, spelled out -/
theorem refEval_star_step (cs : Classes) (h : Heap) (arg : Val) (rest : List (String × Val)) (cur : Val) :
    refEval cs h (("x", arg) :: rest) cur =
      .ok (.list (keepOk ((children cs h cur).map (refEval cs h rest)))) := by
  simp [refEval]

theorem refEval_starstar_step (cs : Classes) (h : Heap) (arg : Val) (rest : List (String × Val)) (cur : Val) :
    refEval cs h (("X", arg) :: rest) cur =
      .ok (.list (keepOk ((descend cs h cur).map (refEval cs h rest)))) := by
  simp [refEval]

/-- without the flag `_del_one` is the plain deletion -/
theorem delOp_false (cs : Classes) (op : String) (h : Heap) (d key : Val) :
    delOp cs op false h d key = delRaw cs op h d key := by
  unfold delOp
  cases delRaw cs op h d key with
  | ok h' => rfl
  | error e => cases e <;> rfl


theorem part_stars (seg : List Char) (ps : List Glom.C01.Part) :
    stars (Glom.C01.stepsOfParts
      ((if seg = ['*'] then Glom.C01.Part.t [("x", Val.none)]
        else if seg = ['*', '*'] then Glom.C01.Part.t [("X", Val.none)]
        else Glom.C01.Part.seg (Val.str (String.ofList seg))) :: ps)) =
      (if (decide (seg = ['*']) || decide (seg = ['*', '*'])) = true then 1 else 0) +
        stars (Glom.C01.stepsOfParts ps) := by
  by_cases h1 : seg = ['*']
  · rw [if_pos h1]
    have : (decide (seg = ['*']) || decide (seg = ['*', '*'])) = true := by simp [h1]
    rw [if_pos this]
    simp only [Glom.C01.stepsOfParts, List.cons_append, List.nil_append, stars_cons]
    simp
  · rw [if_neg h1]
    by_cases h2 : seg = ['*', '*']
    · rw [if_pos h2]
      have : (decide (seg = ['*']) || decide (seg = ['*', '*'])) = true := by simp [h2]
      rw [if_pos this]
      simp only [Glom.C01.stepsOfParts, List.cons_append, List.nil_append, stars_cons]
      simp
    · rw [if_neg h2]
      have : (decide (seg = ['*']) || decide (seg = ['*', '*'])) = false := by simp [h1, h2]
      rw [this]
      simp only [Glom.C01.stepsOfParts, stars_cons]
      simp

theorem stars_stepsOfText_on (text : String) :
    stars (stepsOfText true text) =
      ((Glom.C01.splitDot text.toList).filter (fun seg => seg = ['*'] || seg = ['*', '*'])).length := by
  unfold stepsOfText partsOfTextMode Glom.C01.partsOfText
  simp only [if_true]
  generalize Glom.C01.splitDot text.toList = segs
  induction segs with
  | nil => rfl
  | cons seg r ih =>
    rw [List.map_cons, part_stars, ih, List.filter_cons]
    by_cases hw : (decide (seg = ['*']) || decide (seg = ['*', '*'])) = true
    · rw [if_pos hw, if_pos hw, List.length_cons]; omega
    · rw [if_neg hw, if_neg hw]; omega

end Glom.C14
