import Glom.Spec.C14
/-
  Helper lemmas for C14 (core Lean only).
-/
namespace Glom.C14
open Glom

/-! ### `_extend_children` = `children` on well-formed heaps -/

theorem heapWF_get {cs : Classes} {h : Heap} (hw : heapWF cs h = true) {a : Nat} {o : Obj}
    (ho : h[a]? = some o) : cellOK cs h o = true := by
  unfold heapWF at hw
  exact List.all_eq_true.1 hw o (List.mem_of_getElem? ho)

theorem clsName_ref {h : Heap} {a : Nat} {o : Obj} (ho : h[a]? = some o) :
    (Val.ref a).clsName h = o.cls := by
  simp [Val.clsName, ho]

/-- scalars and dangling references have no children, for the model and for the reference -/
theorem extendChildren_scalar (cs : Classes) (h : Heap) (hc : classesWF cs = true) (v : Val)
    (hv : ∀ a, v = .ref a → h[a]? = none) : extendChildren cs h v = [] := by
  have hmem : v.clsName h ∈ scalarClasses := by
    cases v with
    | ref a => simp [Val.clsName, hv a rfl, scalarClasses]
    | _ => simp [Val.clsName, scalarClasses]
  have := List.all_eq_true.1 hc _ hmem
  simp only [Bool.and_eq_true, Option.isNone_iff_eq_none, Bool.not_eq_true'] at this
  unfold extendChildren
  simp [this.1, this.2]

theorem children_scalar (cs : Classes) (h : Heap) (v : Val)
    (hv : ∀ a, v = .ref a → h[a]? = none) : children cs h v = [] := by
  cases v with
  | ref a => simp [children, hv a rfl]
  | _ => rfl

theorem filterMap_map_pairs {α β γ : Type} (l : List (α × β)) (f : α → γ) (g : γ → Option β)
    (p : α × β → Option β) (hp : ∀ e ∈ l, g (f e.1) = p e) :
    (l.map (fun e => f e.1)).filterMap g = l.filterMap p := by
  induction l with
  | nil => rfl
  | cons e l ih =>
    have h1 := hp e (by simp)
    have h2 := ih (fun e' he' => hp e' (by simp [he']))
    simp only [List.map_cons, List.filterMap_cons, h1, h2]

/-- **`*` on a well-formed heap**: unless the value is an instance of a list / tuple / set
    subclass that has a `__dict__`, `_extend_children` appends exactly the children -/
theorem extendChildren_eq_children (cs : Classes) (h : Heap) (hw : heapWF cs h = true)
    (hc : classesWF cs = true) (v : Val) (hq : seqWithDict cs h v = false) :
    extendChildren cs h v = children cs h v := by
  cases v with
  | ref a =>
    cases ho : h[a]? with
    | none =>
      rw [extendChildren_scalar cs h hc _ (fun a' e => by injection e with e; subst e; exact ho),
        children_scalar cs h _ (fun a' e => by injection e with e; subst e; exact ho)]
    | some o =>
      have hwo := heapWF_get hw ho
      have hcn := clsName_ref ho
      cases o with
      | dict c es =>
        simp only [cellOK, Bool.and_eq_true, List.all_eq_true, beq_iff_eq] at hwo
        obtain ⟨hd, hes⟩ := hwo
        unfold extendChildren
        simp only [hcn, Obj.cls, keysH, hd, if_true, getH, keysOf, ho, children]
        apply filterMap_map_pairs (f := fun k => k)
        intro e he
        obtain ⟨hh, hl⟩ := hes e he
        unfold applyGet
        simp only [hcn, Obj.cls]
        by_cases hb : (isA cs c "RDict" && isBad e.1) = true
        · simp [hb]
        · simp only [hb, Bool.false_eq_true, if_false, pyGetitem, ho, hh, if_true, hl]
      | list c xs =>
        simp only [cellOK, Bool.and_eq_true, Bool.not_eq_true'] at hwo
        have hnd : (clsInfo cs c).hasDict = false := by
          simpa [seqWithDict, ho] using hq
        unfold extendChildren
        simp only [hcn, Obj.cls, keysH, hwo.2, Bool.false_eq_true, if_false, hnd, iterH, hwo.1,
          Bool.true_or, Bool.or_true, if_true, iterItems, ho, children]
      | tuple c xs =>
        simp only [cellOK, Bool.and_eq_true, Bool.not_eq_true'] at hwo
        have hnd : (clsInfo cs c).hasDict = false := by
          simpa [seqWithDict, ho] using hq
        unfold extendChildren
        simp only [hcn, Obj.cls, keysH, hwo.1.2, Bool.false_eq_true, if_false, hnd, iterH, hwo.1.1,
          Bool.true_or, Bool.or_true, if_true, iterItems, ho, children]
      | set c xs =>
        simp only [cellOK, Bool.and_eq_true, Bool.not_eq_true'] at hwo
        have hnd : (clsInfo cs c).hasDict = false := by
          simpa [seqWithDict, ho] using hq
        unfold extendChildren
        simp only [hcn, Obj.cls, keysH, hwo.1.1.2, Bool.false_eq_true, if_false, hnd, iterH, hwo.1.1.1,
          Bool.or_true, if_true, iterItems, ho, children]
      | inst c as =>
        simp only [cellOK, Bool.and_eq_true, Bool.not_eq_true', List.all_eq_true, beq_iff_eq] at hwo
        obtain ⟨⟨⟨⟨hhd, hnd⟩, hnl⟩, hnt⟩, has⟩ := hwo
        unfold extendChildren
        simp only [hcn, Obj.cls, keysH, hnd, Bool.false_eq_true, if_false, hhd, if_true, getH, hnl, hnt,
          Bool.or_self, keysOf, ho, children]
        apply filterMap_map_pairs (f := fun n => Val.str n)
        intro p hp
        have hf := has p hp
        unfold applyGet
        simp only [hcn, Obj.cls]
        by_cases hb : (isA cs c "RObj" && isBad (Val.str p.1)) = true
        · simp [hb]
        · simp only [hb, Bool.false_eq_true, if_false, pyGetattr, ho]
          cases hfind : as.find? (fun x => x.1 == p.1) with
          | none => rw [hfind] at hf; simp at hf
          | some q =>
            rw [hfind] at hf
            simp only [Option.map_some, Option.some.injEq] at hf
            obtain ⟨qn, qv⟩ := q
            simp only at hf
            subst hf
            rfl
  | _ =>
    rw [extendChildren_scalar cs h hc _ (fun a e => by cases e),
      children_scalar cs h _ (fun a e => by cases e)]

end Glom.C14
