import Glom.Spec.C05
/-
  C05 — the rendered text: lemmas about lines (`splitLines` / `joinLines`), labels (`afterLabel`),
  the gutter marks (`remark`), `_format_trace_value` (`formatValue`) and the row loop (`fmtRows`)
  of `format_target_spec_trace`, for every frame store.
-/
set_option linter.unusedSimpArgs false
namespace Glom.C05

/-! ### lines -/

/-- no line break in the string -/
def NoNL (s : Str) : Prop := ∀ c, c ∈ s → c ≠ '\n'

theorem NoNL_append {a b : Str} (ha : NoNL a) (hb : NoNL b) : NoNL (a ++ b) := by
  intro c hc
  rcases List.mem_append.mp hc with h | h
  · exact ha c h
  · exact hb c h

theorem NoNL_of_prefix {a b : Str} (h : NoNL (a ++ b)) : NoNL a :=
  fun c hc => h c (List.mem_append_left _ hc)

theorem NoNL_take {s : Str} (h : NoNL s) (n : Nat) : NoNL (s.take n) :=
  fun c hc => h c (List.mem_of_mem_take hc)

theorem splitLines_ne_nil : ∀ s : Str, splitLines s ≠ []
  | [] => by simp [splitLines]
  | c :: cs => by
    simp only [splitLines]
    split
    · simp
    · split <;> simp

theorem splitLines_noNL : ∀ s : Str, NoNL s → splitLines s = [s]
  | [], _ => rfl
  | c :: cs, h => by
    have hc : c ≠ '\n' := h c (by simp)
    have ih := splitLines_noNL cs (fun x hx => h x (by simp [hx]))
    simp only [splitLines, beq_iff_eq, hc, if_false, ih]

/-- a line break ends the last line of what precedes it -/
theorem splitLines_append_nl : ∀ (a b : Str), splitLines (a ++ '\n' :: b) = splitLines a ++ splitLines b
  | [], b => by simp [splitLines]
  | c :: a, b => by
    have ih := splitLines_append_nl a b
    by_cases hc : c = '\n'
    · subst hc
      simp only [List.cons_append, splitLines, beq_self_eq_true, if_true, ih, List.cons_append]
    · simp only [List.cons_append, splitLines, beq_iff_eq, hc, if_false, ih]
      cases hs : splitLines a with
      | nil => exact absurd hs (splitLines_ne_nil a)
      | cons l ls => simp

/-- text that starts with `g` (no line break in it): `g` is the start of the first line -/
theorem splitLines_prefix : ∀ (g rest hd : Str) (tl : List Str), NoNL g → splitLines rest = hd :: tl →
    splitLines (g ++ rest) = (g ++ hd) :: tl
  | [], rest, hd, tl, _, h => by simpa using h
  | c :: g, rest, hd, tl, hg, h => by
    have hc : c ≠ '\n' := hg c (by simp)
    have ih := splitLines_prefix g rest hd tl (fun x hx => hg x (by simp [hx])) h
    simp only [List.cons_append, splitLines, beq_iff_eq, hc, if_false, ih]

theorem joinLines_cons_cons (x y : Str) (r : List Str) : joinLines (x :: y :: r) = x ++ '\n' :: joinLines (y :: r) := rfl

theorem splitLines_joinLines : ∀ (segs : List Str), segs ≠ [] →
    splitLines (joinLines segs) = segs.flatMap splitLines
  | [], h => absurd rfl h
  | [x], _ => by simp [joinLines]
  | x :: y :: r, _ => by
    rw [joinLines_cons_cons, splitLines_append_nl, splitLines_joinLines (y :: r) (by simp)]
    simp

/-! ### prefixes -/

theorem isPrefix_append_self : ∀ (a b : Str), isPrefix a (a ++ b) = true
  | [], _ => by simp [isPrefix]
  | c :: a, b => by simp [isPrefix, isPrefix_append_self a b]

theorem isPrefix_take : ∀ (s : Str) (n : Nat), isPrefix (s.take n) s = true
  | [], n => by simp [isPrefix]
  | c :: s, 0 => by simp [isPrefix]
  | c :: s, n + 1 => by simp [isPrefix, isPrefix_take s n]

theorem isPrefix_iff : ∀ (a s : Str), isPrefix a s = true ↔ ∃ r, s = a ++ r
  | [], s => by simp [isPrefix]
  | c :: a, [] => by simp [isPrefix]
  | c :: a, d :: s => by
    simp only [isPrefix, Bool.and_eq_true, beq_iff_eq, isPrefix_iff a s, List.cons_append, List.cons.injEq]
    constructor
    · rintro ⟨rfl, r, rfl⟩; exact ⟨r, rfl, rfl⟩
    · rintro ⟨r, rfl, rfl⟩; exact ⟨rfl, r, rfl⟩

theorem isSuffix_append_self (a b : Str) : isSuffix b (a ++ b) = true := by
  unfold isSuffix
  rw [List.reverse_append]
  exact isPrefix_append_self _ _

theorem isInfix_of_isPrefix : ∀ (y s : Str), isPrefix y s = true → isInfix y s = true
  | [], [], _ => by simp [isInfix]
  | _ :: _, [], h => by simp [isPrefix] at h
  | y, c :: s, h => by simp [isInfix, h]

theorem isInfix_of_append : ∀ (pre y post : Str), isInfix y (pre ++ y ++ post) = true
  | [], y, post => by
    apply isInfix_of_isPrefix
    simpa using isPrefix_append_self y post
  | c :: pre, y, post => by
    simp only [List.cons_append, isInfix, Bool.or_eq_true]
    right
    have := isInfix_of_append pre y post
    simpa using this

/-! ### labels -/

theorem dropWhile_append_of_all {α} (p : α → Bool) : ∀ (g x : List α), (∀ c, c ∈ g → p c = true) →
    (g ++ x).dropWhile p = x.dropWhile p
  | [], _, _ => rfl
  | c :: g, x, h => by
    have hc := h c (by simp)
    simp only [List.cons_append, List.dropWhile_cons, hc, if_true]
    exact dropWhile_append_of_all p g x (fun y hy => h y (by simp [hy]))

/-- all characters are gutter characters -/
def Gut (g : Str) : Prop := ∀ c, c ∈ g → isGutterChar c = true

theorem Gut_NoNL {g : Str} (h : Gut g) : NoNL g := by
  intro c hc hn
  subst hn
  have := h _ hc
  simp [isGutterChar] at this

theorem Gut_append {a b : Str} (ha : Gut a) (hb : Gut b) : Gut (a ++ b) := by
  intro c hc
  rcases List.mem_append.mp hc with h | h
  · exact ha c h
  · exact hb c h

/-- the label of a line does not depend on its gutter -/
theorem afterLabel_gutter (label g x : Str) (hg : Gut g) : afterLabel label (g ++ x) = afterLabel label x := by
  unfold afterLabel
  rw [dropWhile_append_of_all _ g x hg]

theorem afterLabel_spec_self (v : Str) : afterLabel "Spec".toList ("Spec".toList ++ ": ".toList ++ v) = some v := by
  unfold afterLabel
  have h1 : ("Spec".toList ++ ": ".toList ++ v).dropWhile isGutterChar = "Spec".toList ++ ": ".toList ++ v := by
    simp [List.dropWhile, isGutterChar]
  simp only [h1, isPrefix_append_self, if_true]
  simp

theorem afterLabel_target_self (v : Str) : afterLabel "Target".toList ("Target".toList ++ ": ".toList ++ v) = some v := by
  unfold afterLabel
  have h1 : ("Target".toList ++ ": ".toList ++ v).dropWhile isGutterChar = "Target".toList ++ ": ".toList ++ v := by
    simp [List.dropWhile, isGutterChar]
  simp only [h1, isPrefix_append_self, if_true]
  simp

theorem afterLabel_spec_target (v : Str) : afterLabel "Spec".toList ("Target".toList ++ ": ".toList ++ v) = none := by
  unfold afterLabel
  have h1 : ("Target".toList ++ ": ".toList ++ v).dropWhile isGutterChar = "Target".toList ++ ": ".toList ++ v := by
    simp [List.dropWhile, isGutterChar]
  simp only [h1]
  simp [isPrefix]

theorem afterLabel_target_spec (v : Str) : afterLabel "Target".toList ("Spec".toList ++ ": ".toList ++ v) = none := by
  unfold afterLabel
  have h1 : ("Spec".toList ++ ": ".toList ++ v).dropWhile isGutterChar = "Spec".toList ++ ": ".toList ++ v := by
    simp [List.dropWhile, isGutterChar]
  simp only [h1]
  simp [isPrefix]


/-! ### `_format_trace_value` -/

theorem natStr_NoNL (n : Nat) : NoNL (natStr n) := by
  intro c hc hn
  subst hn
  have h1 : natStr n = Nat.toDigits 10 n := by
    show (Nat.repr n).toList = _
    unfold Nat.repr
    simp
  rw [h1] at hc
  have h2 : '\n' ∈ Nat.toDigits 10 n := hc
  have := Nat.isDigit_of_mem_toDigits (by decide) (by decide) h2
  simp [Char.isDigit] at this

def suffixOf (vlen : Option Nat) : Str :=
  match vlen with
  | some n => "... (len=".toList ++ natStr n ++ ")".toList
  | none => "...".toList

theorem suffixOf_NoNL (vlen : Option Nat) : NoNL (suffixOf vlen) := by
  cases vlen with
  | none =>
    show NoNL "...".toList
    intro c hc hn; subst hn; simp at hc
  | some n =>
    show NoNL ("... (len=".toList ++ natStr n ++ ")".toList)
    apply NoNL_append
    · apply NoNL_append
      · intro c hc hn; subst hn; simp at hc
      · exact natStr_NoNL n
    · intro c hc hn; subst hn; simp at hc

theorem formatValue_eq (s : Str) (vlen : Option Nat) (maxlen : Int) :
    formatValue s vlen maxlen =
      if (s.length : Int) > maxlen then pySliceTo s (maxlen - (suffixOf vlen).length) ++ suffixOf vlen else s := by
  unfold formatValue suffixOf
  cases vlen <;> rfl

theorem pySliceTo_eq_take (s : Str) (k : Int) : ∃ n, pySliceTo s k = s.take n := by
  unfold pySliceTo
  split
  · exact ⟨_, rfl⟩
  · exact ⟨_, rfl⟩

theorem formatValue_NoNL (s : Str) (vlen : Option Nat) (maxlen : Int) (h : NoNL s) :
    NoNL (formatValue s vlen maxlen) := by
  rw [formatValue_eq]
  split
  · obtain ⟨n, hn⟩ := pySliceTo_eq_take s (maxlen - (suffixOf vlen).length)
    rw [hn]
    exact NoNL_append (NoNL_take h n) (suffixOf_NoNL vlen)
  · exact h

/-- **a trace value shows the value**: the line is the value's text, or a prefix of it followed by
    the `...` / `... (len=n)` mark — whatever the available width -/
theorem showsValue_formatValue (s : Str) (vlen : Option Nat) (maxlen : Int) :
    showsValue s vlen (formatValue s vlen maxlen) = true := by
  rw [formatValue_eq]
  split
  · obtain ⟨n, hn⟩ := pySliceTo_eq_take s (maxlen - (suffixOf vlen).length)
    rw [hn]
    have hsv : ∀ shown, showsValue s vlen shown =
        (shown == s || (isSuffix (suffixOf vlen) shown && isPrefix (shown.take (shown.length - (suffixOf vlen).length)) s)) := by
      intro shown; cases vlen <;> rfl
    rw [hsv]
    simp only [Bool.or_eq_true, Bool.and_eq_true]
    right
    refine ⟨isSuffix_append_self _ _, ?_⟩
    have : (List.take n s ++ suffixOf vlen).take ((List.take n s ++ suffixOf vlen).length - (suffixOf vlen).length) = List.take n s := by
      rw [List.length_append, Nat.add_sub_cancel, List.take_left']
      rfl
    rw [this]
    exact isPrefix_take s n
  · simp [showsValue]

/-! ### gutters -/

theorem indentOf_length (d : Nat) : (indentOf d).length = d + 1 := by simp [indentOf]

theorem Gut_indentOf (d : Nat) : Gut (indentOf d) := by
  intro c hc
  simp only [indentOf, List.mem_cons, List.mem_replicate] at hc
  rcases hc with h | ⟨_, h⟩ <;> subst h <;> decide

theorem Gut_tickOf (d : Nat) : Gut (tickOf d) := by
  intro c hc
  unfold tickOf at hc
  split at hc <;> simp at hc <;> rcases hc with h | h <;> subst h <;> decide

theorem tickOf_length (d : Nat) : (tickOf d).length = 2 := by
  unfold tickOf; split <;> rfl

theorem Gut_plus : Gut "+ ".toList := by
  intro c hc
  simp at hc
  rcases hc with h | h <;> subst h <;> decide

/-- a trace line is its gutter followed by `label: value` -/
theorem traceLine_eq (depth width : Nat) (lbl t v : Str) (vlen : Option Nat) :
    traceLine depth width lbl t v vlen =
      (indentOf depth ++ t) ++ (lbl ++ ": ".toList ++
        formatValue v vlen ((width : Int) - ((indentOf depth ++ t ++ lbl ++ ": ".toList).length : Nat))) := by
  simp [traceLine]

theorem remark_prefix (d : Nat) (g x : Str) (m : Char) (hg : d + 2 ≤ g.length) :
    remark d (g ++ x) m = remark d g m ++ x := by
  unfold remark
  rw [List.take_append_of_le_length (by omega), List.drop_append_of_le_length (by omega)]
  simp

theorem remark_length (d : Nat) (g : Str) (m : Char) (hg : d + 2 ≤ g.length) :
    (remark d g m).length = g.length := by
  unfold remark
  simp only [List.length_append, List.length_take, List.length_cons, List.length_drop]
  omega

theorem Gut_remark (d : Nat) (g : Str) (m : Char) (hg : Gut g) (hm : isGutterChar m = true) : Gut (remark d g m) := by
  intro c hc
  unfold remark at hc
  rcases List.mem_append.mp hc with h | h
  · exact hg c (List.mem_of_mem_take h)
  · rcases List.mem_cons.mp h with h | h
    · subst h; exact hm
    · exact hg c (List.mem_of_mem_drop h)


/-! ### the row loop of `format_target_spec_trace` -/

/-- the segments one row contributes: its `Target:` line unless the target is the previous row's,
    its `Spec:` line (`+ Spec:` and the texts of the branches when it has branches), the line of
    its error unless that is the root error -/
def rowSegs (errText : Nat → Str) (rootError : Nat) (width depth : Nat) (lastBranch : Bool)
    (recur : Nat → Option Nat → Bool → Str) (f : Frame) (r : Row) (prev : Option Nat) : List Str :=
  (if prev != some f.tid then [traceLine depth width "Target".toList (tickOf depth) f.target f.tlen] else []) ++
  (match r.branches.reverse with
   | [] => [traceLine depth width "Spec".toList (tickOf depth) f.spec f.slen]
   | lastB :: revInit =>
     [traceLine depth width "Spec".toList "+ ".toList f.spec f.slen] ++
       revInit.reverse.map (fun b => recur b (some f.tid) false) ++ [recur lastB (some f.tid) lastBranch]) ++
  (match r.error with
   | some e => if e != rootError then [indentOf depth ++ tickOf depth ++ errText e] else []
   | none => [])

/-- does the row end with the line of its error? -/
def rowErrLine (rootError : Nat) (r : Row) : Bool :=
  match r.error with
  | some e => e != rootError
  | none => false

def allSegs (fs : Array Frame) (errText : Nat → Str) (rootError : Nat) (width depth : Nat) (lastBranch : Bool)
    (recur : Nat → Option Nat → Bool → Str) : List Row → Option Nat → List Str
  | [], _ => []
  | r :: rest, prev =>
    match fs[r.frame]? with
    | none => allSegs fs errText rootError width depth lastBranch recur rest prev
    | some f => rowSegs errText rootError width depth lastBranch recur f r prev ++
        allSegs fs errText rootError width depth lastBranch recur rest (some f.tid)

/-- `last_line_error` after the loop -/
def lastErrLine (fs : Array Frame) (rootError : Nat) : List Row → Bool → Bool
  | [], lle => lle
  | r :: rest, _ =>
    match fs[r.frame]? with
    | none => lastErrLine fs rootError rest false
    | some _ => lastErrLine fs rootError rest (rowErrLine rootError r)

theorem fmtRows_eq (fs : Array Frame) (errText : Nat → Str) (rootError : Nat) (width depth : Nat) (lastBranch : Bool)
    (recur : Nat → Option Nat → Bool → Str) : ∀ (rows : List Row) (prev : Option Nat) (segs : List Str) (lle : Bool),
    fmtRows fs errText rootError width depth lastBranch recur rows prev segs lle =
      (segs ++ allSegs fs errText rootError width depth lastBranch recur rows prev, lastErrLine fs rootError rows lle)
  | [], prev, segs, lle => by simp [fmtRows, allSegs, lastErrLine]
  | r :: rest, prev, segs, lle => by
    cases hf : fs[r.frame]? with
    | none =>
      simp only [fmtRows, allSegs, lastErrLine, hf]
      exact fmtRows_eq fs errText rootError width depth lastBranch recur rest prev segs false
    | some f =>
      simp only [fmtRows, allSegs, lastErrLine, hf, rowSegs, rowErrLine]
      cases hb : r.branches.reverse with
      | nil =>
        cases he : r.error with
        | none =>
          simp only []
          rw [fmtRows_eq fs errText rootError width depth lastBranch recur rest]
          by_cases hp : prev = some f.tid <;> simp [hp]
        | some e =>
          simp only []
          by_cases hne : (e != rootError) = true
          · rw [if_pos hne, if_pos hne, fmtRows_eq fs errText rootError width depth lastBranch recur rest]
            by_cases hp : prev = some f.tid <;> simp [hp, hne]
          · rw [if_neg hne, if_neg hne, fmtRows_eq fs errText rootError width depth lastBranch recur rest]
            by_cases hp : prev = some f.tid <;> simp [hp, hne]
      | cons lastB revInit =>
        cases he : r.error with
        | none =>
          simp only []
          rw [fmtRows_eq fs errText rootError width depth lastBranch recur rest]
          by_cases hp : prev = some f.tid <;> simp [hp]
        | some e =>
          simp only []
          by_cases hne : (e != rootError) = true
          · rw [if_pos hne, if_pos hne, fmtRows_eq fs errText rootError width depth lastBranch recur rest]
            by_cases hp : prev = some f.tid <;> simp [hp, hne]
          · rw [if_neg hne, if_neg hne, fmtRows_eq fs errText rootError width depth lastBranch recur rest]
            by_cases hp : prev = some f.tid <;> simp [hp, hne]


/-! ### `format_target_spec_trace` -/

theorem formatTrace_succ (fs : Array Frame) (errText : Nat → Str) (rootError width fuel start depth : Nat)
    (prev : Option Nat) (lb : Bool) :
    formatTrace fs errText rootError width (fuel + 1) start depth prev lb =
      (let recur := fun b p l => formatTrace fs errText rootError width fuel b (depth + 1) p l
       let segs := allSegs fs errText rootError width depth lb recur (unpack fs start) prev
       if depth == 0 then joinLines segs
       else
         let segs1 := setHead segs (fun s => remark depth s '\\')
         joinLines (if !lb || lastErrLine fs rootError (unpack fs start) false
                    then setLast segs1 (fun s => remark depth s 'X') else segs1)) := by
  simp only [formatTrace, fmtRows_eq, List.nil_append]

/-- the text starts with `k` gutter characters -/
def GPre (k : Nat) (T : Str) : Prop := ∃ g x, T = g ++ x ∧ Gut g ∧ g.length = k

theorem GPre_mono {k k' : Nat} {T : Str} (hk : k' ≤ k) (h : GPre k T) : GPre k' T := by
  obtain ⟨g, x, rfl, hg, hl⟩ := h
  refine ⟨g.take k', g.drop k' ++ x, ?_, fun c hc => hg c (List.mem_of_mem_take hc), ?_⟩
  · rw [← List.append_assoc, List.take_append_drop]
  · rw [List.length_take]; omega

theorem GPre_traceLine (d w : Nat) (lbl t v : Str) (vlen : Option Nat) (ht : Gut t) (hl : t.length = 2) :
    GPre (d + 3) (traceLine d w lbl t v vlen) := by
  rw [traceLine_eq]
  exact ⟨indentOf d ++ t, _, rfl, Gut_append (Gut_indentOf d) ht, by simp [indentOf_length, hl]⟩

theorem GPre_err (d : Nat) (e : Str) : GPre (d + 3) (indentOf d ++ tickOf d ++ e) :=
  ⟨indentOf d ++ tickOf d, e, rfl, Gut_append (Gut_indentOf d) (Gut_tickOf d), by simp [indentOf_length, tickOf_length]⟩

theorem GPre_remark {k : Nat} {T : Str} (p : Nat) (m : Char) (h : GPre k T) (hp : p + 2 ≤ k)
    (hm : isGutterChar m = true) : GPre k (remark p T m) := by
  obtain ⟨g, x, rfl, hg, hl⟩ := h
  rw [remark_prefix p g x m (by omega)]
  exact ⟨remark p g m, x, rfl, Gut_remark p g m hg hm, by rw [remark_length p g m (by omega)]; exact hl⟩

theorem GPre_joinLines {k : Nat} (s : Str) (rest : List Str) (h : GPre k s) : GPre k (joinLines (s :: rest)) := by
  cases rest with
  | nil => simpa [joinLines] using h
  | cons y r =>
    obtain ⟨g, x, rfl, hg, hl⟩ := h
    rw [joinLines_cons_cons]
    exact ⟨g, x ++ '\n' :: joinLines (y :: r), by simp, hg, hl⟩

theorem setHead_cons {g : Str → Str} (x : Str) (r : List Str) : setHead (x :: r) g = g x :: r := rfl

theorem setLast_append {g : Str → Str} (init : List Str) (x : Str) : setLast (init ++ [x]) g = init ++ [g x] := by
  unfold setLast
  simp

theorem exists_dropLast_getLast {α} : ∀ (l : List α), l ≠ [] → ∃ init x, l = init ++ [x]
  | [], h => absurd rfl h
  | [x], _ => ⟨[], x, rfl⟩
  | x :: y :: r, _ => by
    obtain ⟨init, z, h⟩ := exists_dropLast_getLast (y :: r) (by simp)
    exact ⟨x :: init, z, by rw [h]; rfl⟩

/-- the pieces of a text all start with the gutter of their depth -/
theorem allSegs_GPre (fs : Array Frame) (errText : Nat → Str) (rootError width depth : Nat) (lb : Bool)
    (recur : Nat → Option Nat → Bool → Str) : ∀ (rows : List Row) (prev : Option Nat),
    (∀ r, r ∈ rows → ∀ b, b ∈ r.branches → ∀ p l, GPre (depth + 3) (recur b p l)) →
    ∀ s, s ∈ allSegs fs errText rootError width depth lb recur rows prev → GPre (depth + 3) s
  | [], _, _, s, hs => by simp [allSegs] at hs
  | r :: rest, prev, hrec, s, hs => by
    have ih := allSegs_GPre fs errText rootError width depth lb recur rest
    simp only [allSegs] at hs
    cases hf : fs[r.frame]? with
    | none =>
      rw [hf] at hs
      exact ih prev (fun r' hr' => hrec r' (List.mem_cons_of_mem _ hr')) s hs
    | some f =>
      rw [hf] at hs
      rcases List.mem_append.mp hs with h | h
      · simp only [rowSegs, List.mem_append] at h
        rcases h with (h | h) | h
        · split at h
          · simp only [List.mem_singleton] at h; subst h
            exact GPre_traceLine _ _ _ _ _ _ (Gut_tickOf depth) (tickOf_length depth)
          · simp at h
        · cases hb : r.branches.reverse with
          | nil =>
            rw [hb] at h
            simp only [List.mem_singleton] at h; subst h
            exact GPre_traceLine _ _ _ _ _ _ (Gut_tickOf depth) (tickOf_length depth)
          | cons lastB revInit =>
            rw [hb] at h
            have hmemb : ∀ b, b ∈ revInit.reverse ∨ b = lastB → b ∈ r.branches := by
              intro b hb'
              have : b ∈ r.branches.reverse := by
                rw [hb]
                rcases hb' with h' | h'
                · exact List.mem_cons_of_mem _ (by simpa using h')
                · subst h'; simp
              simpa using this
            simp only [List.mem_append, List.mem_singleton, List.mem_map] at h
            rcases h with (h | ⟨b, hb', h⟩) | h
            · subst h; exact GPre_traceLine _ _ _ _ _ _ Gut_plus rfl
            · subst h; exact hrec r (by simp) b (hmemb b (Or.inl hb')) _ _
            · subst h; exact hrec r (by simp) lastB (hmemb lastB (Or.inr rfl)) _ _
        · cases he : r.error with
          | none => rw [he] at h; exact absurd h (by simp)
          | some e =>
            rw [he] at h
            by_cases hne : (e != rootError) = true
            · simp only [hne, if_true, List.mem_singleton] at h; subst h; exact GPre_err depth _
            · simp [hne] at h
      · exact ih (some f.tid) (fun r' hr' => hrec r' (List.mem_cons_of_mem _ hr')) s h


/-! ### what can be rendered -/

/-- the frame `h` and, recursively, the branches of its rows are rendered with enough fuel, and
    every row has a frame -/
def Renderable (fs : Array Frame) : Nat → Nat → Prop
  | 0, _ => False
  | fuel + 1, h => unpack fs h ≠ [] ∧
      ∀ r, r ∈ unpack fs h → (fs[r.frame]?).isSome = true ∧ ∀ b, b ∈ r.branches → Renderable fs fuel b

theorem mem_setHead {g : Str → Str} : ∀ (L : List Str) (s : Str), s ∈ setHead L g → s ∈ L ∨ ∃ s0, s0 ∈ L ∧ s = g s0
  | [], s, h => by simp [setHead] at h
  | x :: r, s, h => by
    rw [setHead_cons] at h
    rcases List.mem_cons.mp h with h | h
    · exact Or.inr ⟨x, by simp, h⟩
    · exact Or.inl (List.mem_cons_of_mem _ h)

theorem setHead_ne_nil {g : Str → Str} : ∀ (L : List Str), L ≠ [] → setHead L g ≠ []
  | [], h => absurd rfl h
  | x :: r, _ => by simp [setHead]

theorem mem_setLast {g : Str → Str} (L : List Str) (s : Str) (h : s ∈ setLast L g) :
    s ∈ L ∨ ∃ s0, s0 ∈ L ∧ s = g s0 := by
  by_cases hL : L = []
  · subst hL; simp [setLast] at h
  · obtain ⟨init, x, rfl⟩ := exists_dropLast_getLast L hL
    rw [setLast_append] at h
    rcases List.mem_append.mp h with h | h
    · exact Or.inl (List.mem_append_left _ h)
    · simp only [List.mem_singleton] at h
      exact Or.inr ⟨x, by simp, h⟩

theorem setLast_ne_nil {g : Str → Str} (L : List Str) (hL : L ≠ []) : setLast L g ≠ [] := by
  obtain ⟨init, x, rfl⟩ := exists_dropLast_getLast L hL
  rw [setLast_append]; simp

theorem GPre_joinLines_all {k : Nat} : ∀ (L : List Str), L ≠ [] → (∀ s, s ∈ L → GPre k s) → GPre k (joinLines L)
  | [], h, _ => absurd rfl h
  | x :: r, _, hall => GPre_joinLines x r (hall x (by simp))

theorem rowSegs_ne_nil (errText : Nat → Str) (rootError width depth : Nat) (lb : Bool)
    (recur : Nat → Option Nat → Bool → Str) (f : Frame) (r : Row) (prev : Option Nat) :
    rowSegs errText rootError width depth lb recur f r prev ≠ [] := by
  unfold rowSegs
  cases hb : r.branches.reverse <;> simp

theorem allSegs_ne_nil (fs : Array Frame) (errText : Nat → Str) (rootError width depth : Nat) (lb : Bool)
    (recur : Nat → Option Nat → Bool → Str) (rows : List Row) (prev : Option Nat) (hne : rows ≠ [])
    (hf : ∀ r, r ∈ rows → (fs[r.frame]?).isSome = true) :
    allSegs fs errText rootError width depth lb recur rows prev ≠ [] := by
  cases rows with
  | nil => exact absurd rfl hne
  | cons r rest =>
    have h1 := hf r (by simp)
    cases hfr : fs[r.frame]? with
    | none => rw [hfr] at h1; simp at h1
    | some f =>
      simp only [allSegs, hfr]
      intro h
      exact rowSegs_ne_nil errText rootError width depth lb recur f r prev (List.append_eq_nil_iff.mp h).1

/-- **every rendered text starts with the gutter of its depth** -/
theorem formatTrace_GPre (fs : Array Frame) (errText : Nat → Str) (rootError width : Nat) :
    ∀ (fuel h d : Nat) (prev : Option Nat) (lb : Bool), Renderable fs fuel h →
      GPre (d + 3) (formatTrace fs errText rootError width fuel h d prev lb)
  | 0, _, _, _, _, hr => by simp [Renderable] at hr
  | fuel + 1, h, d, prev, lb, hr => by
    obtain ⟨hne, hrows⟩ := hr
    rw [formatTrace_succ]
    have hall : ∀ s, s ∈ allSegs fs errText rootError width d lb
        (fun b p l => formatTrace fs errText rootError width fuel b (d + 1) p l) (unpack fs h) prev → GPre (d + 3) s := by
      apply allSegs_GPre
      intro r hr b hb p l
      exact GPre_mono (by omega) (formatTrace_GPre fs errText rootError width fuel b (d + 1) p l ((hrows r hr).2 b hb))
    have hsne := allSegs_ne_nil fs errText rootError width d lb
      (fun b p l => formatTrace fs errText rootError width fuel b (d + 1) p l) (unpack fs h) prev hne
      (fun r hr => (hrows r hr).1)
    simp only []
    split
    · exact GPre_joinLines_all _ hsne hall
    · have h1 : ∀ s, s ∈ setHead (allSegs fs errText rootError width d lb
          (fun b p l => formatTrace fs errText rootError width fuel b (d + 1) p l) (unpack fs h) prev)
          (fun s => remark d s '\\') → GPre (d + 3) s := by
        intro s hs
        rcases mem_setHead _ _ hs with h' | ⟨s0, h0, rfl⟩
        · exact hall s h'
        · exact GPre_remark d '\\' (hall s0 h0) (by omega) (by decide)
      split
      · apply GPre_joinLines_all _ (setLast_ne_nil _ (setHead_ne_nil _ hsne))
        intro s hs
        rcases mem_setLast _ _ hs with h' | ⟨s0, h0, rfl⟩
        · exact h1 s h'
        · exact GPre_remark d 'X' (h1 s0 h0) (by omega) (by decide)
      · exact GPre_joinLines_all _ (setHead_ne_nil _ hsne) h1


/-! ### the `Spec:` lines of a text -/

/-- per-line observation of a text -/
def linesMap {β} (φ : Str → Option β) (T : Str) : List β := (splitLines T).filterMap φ

theorem linesMap_joinLines {β} (φ : Str → Option β) (hφ : φ [] = none) (segs : List Str) :
    linesMap φ (joinLines segs) = segs.flatMap (linesMap φ) := by
  by_cases h : segs = []
  · subst h; simp [linesMap, joinLines, splitLines, hφ]
  · unfold linesMap
    rw [splitLines_joinLines segs h, List.filterMap_flatMap]

/-- a mark in the gutter of the first line does not change an observation that does not look at
    the gutter -/
theorem linesMap_remark {β} (φ : Str → Option β) (hφ : ∀ g g' x, Gut g → Gut g' → φ (g ++ x) = φ (g' ++ x))
    (p : Nat) (m : Char) (T : Str) (h : GPre (p + 2) T) (hm : isGutterChar m = true) :
    linesMap φ (remark p T m) = linesMap φ T := by
  obtain ⟨g, x, rfl, hg, hl⟩ := h
  rw [remark_prefix p g x m (by omega)]
  have hg' := Gut_remark p g m hg hm
  unfold linesMap
  cases hs : splitLines x with
  | nil => exact absurd hs (splitLines_ne_nil x)
  | cons hd tl =>
    rw [splitLines_prefix _ x hd tl (Gut_NoNL hg') hs, splitLines_prefix g x hd tl (Gut_NoNL hg) hs]
    simp only [List.filterMap_cons, hφ _ g hd hg' hg]

theorem flatMap_setHead {β} (F : Str → List β) (g : Str → Str) : ∀ (L : List Str),
    (∀ s, s ∈ L → F (g s) = F s) → (setHead L g).flatMap F = L.flatMap F
  | [], _ => rfl
  | x :: r, h => by simp [setHead, h x (by simp)]

theorem flatMap_setLast {β} (F : Str → List β) (g : Str → Str) (L : List Str)
    (h : ∀ s, s ∈ L → F (g s) = F s) : (setLast L g).flatMap F = L.flatMap F := by
  by_cases hL : L = []
  · subst hL; simp [setLast]
  · obtain ⟨init, x, rfl⟩ := exists_dropLast_getLast L hL
    rw [setLast_append]
    simp [h x (by simp)]

/-- the observation of a rendered text is the observations of its pieces, in order (the `\` and
    `X` marks do not matter) -/
theorem linesMap_formatTrace {β} (φ : Str → Option β) (hφ0 : φ [] = none)
    (hφ : ∀ g g' x, Gut g → Gut g' → φ (g ++ x) = φ (g' ++ x))
    (fs : Array Frame) (errText : Nat → Str) (rootError width fuel h d : Nat) (prev : Option Nat) (lb : Bool)
    (hr : Renderable fs (fuel + 1) h) :
    linesMap φ (formatTrace fs errText rootError width (fuel + 1) h d prev lb) =
      (allSegs fs errText rootError width d lb
        (fun b p l => formatTrace fs errText rootError width fuel b (d + 1) p l) (unpack fs h) prev).flatMap (linesMap φ) := by
  obtain ⟨hne, hrows⟩ := hr
  rw [formatTrace_succ]
  have hall : ∀ s, s ∈ allSegs fs errText rootError width d lb
      (fun b p l => formatTrace fs errText rootError width fuel b (d + 1) p l) (unpack fs h) prev → GPre (d + 3) s := by
    apply allSegs_GPre
    intro r hr b hb p l
    exact GPre_mono (by omega) (formatTrace_GPre fs errText rootError width fuel b (d + 1) p l ((hrows r hr).2 b hb))
  simp only []
  split
  · exact linesMap_joinLines φ hφ0 _
  · have h1 : ∀ s, s ∈ setHead (allSegs fs errText rootError width d lb
        (fun b p l => formatTrace fs errText rootError width fuel b (d + 1) p l) (unpack fs h) prev)
        (fun s => remark d s '\\') → GPre (d + 3) s := by
      intro s hs
      rcases mem_setHead _ _ hs with h' | ⟨s0, h0, rfl⟩
      · exact hall s h'
      · exact GPre_remark d '\\' (hall s0 h0) (by omega) (by decide)
    have e1 := flatMap_setHead (linesMap φ) (fun s => remark d s '\\') _
      (fun s hs => linesMap_remark φ hφ d '\\' s (GPre_mono (by omega) (hall s hs)) (by decide))
    split
    · rw [linesMap_joinLines φ hφ0, flatMap_setLast (linesMap φ) (fun s => remark d s 'X') _
        (fun s hs => linesMap_remark φ hφ d 'X' s (GPre_mono (by omega) (h1 s hs)) (by decide)), e1]
    · rw [linesMap_joinLines φ hφ0, e1]

/-- the texts of the `Spec:` lines of a text -/
def SLT (T : Str) : List Str := linesMap (afterLabel "Spec".toList) T

theorem afterLabel_nil (label : Str) (h : label ≠ []) : afterLabel label [] = none := by
  unfold afterLabel
  cases label with
  | nil => exact absurd rfl h
  | cons c r => simp [isPrefix]

theorem afterLabel_gut_irrel (label g g' x : Str) (hg : Gut g) (hg' : Gut g') :
    afterLabel label (g ++ x) = afterLabel label (g' ++ x) := by
  rw [afterLabel_gutter label g x hg, afterLabel_gutter label g' x hg']

/-- what a `Spec:` line at depth `d` shows of a frame -/
def specShown (width : Nat) (f : Frame) (d : Nat) : Str :=
  formatValue f.spec f.slen ((width : Int) - ((d + 9 : Nat) : Int))

theorem SLT_specLine (d w : Nat) (t : Str) (f : Frame) (ht : Gut t) (hl : t.length = 2) (hs : NoNL f.spec) :
    SLT (traceLine d w "Spec".toList t f.spec f.slen) = [specShown w f d] := by
  have hlen : (indentOf d ++ t ++ "Spec".toList ++ ": ".toList).length = d + 9 := by
    simp [indentOf_length, hl]
  rw [traceLine_eq, hlen]
  have hn : NoNL ((indentOf d ++ t) ++ ("Spec".toList ++ ": ".toList ++ formatValue f.spec f.slen ((w : Int) - ((d + 9 : Nat) : Int)))) := by
    apply NoNL_append (Gut_NoNL (Gut_append (Gut_indentOf d) ht))
    apply NoNL_append
    · intro c hc hn; subst hn; simp at hc
    · exact formatValue_NoNL _ _ _ hs
  unfold SLT linesMap
  rw [splitLines_noNL _ hn]
  simp only [List.filterMap_cons, List.filterMap_nil]
  rw [afterLabel_gutter _ _ _ (Gut_append (Gut_indentOf d) ht), afterLabel_spec_self]
  rfl


/-! ### every rendered row has its `Spec:` line, in order -/

/-- the rows a text renders, with the depth they are rendered at, in the order of their lines -/
def shownRows (fs : Array Frame) : Nat → Nat → Nat → List (Nat × Row)
  | 0, _, _ => []
  | fuel + 1, h, d =>
    (unpack fs h).flatMap (fun r => (d, r) :: r.branches.flatMap (fun b => shownRows fs fuel b (d + 1)))

def specOfShown (fs : Array Frame) (width : Nat) (p : Nat × Row) : Option Str :=
  (fs[p.2.frame]?).map (fun f => specShown width f p.1)

theorem flatMap_sublist {α β} (X Y : α → List β) : ∀ (l : List α), (∀ a, a ∈ l → List.Sublist (X a) (Y a)) →
    List.Sublist (l.flatMap X) (l.flatMap Y)
  | [], _ => by simp
  | a :: l, h => by
    simp only [List.flatMap_cons]
    exact List.Sublist.append (h a (by simp)) (flatMap_sublist X Y l (fun b hb => h b (by simp [hb])))

theorem branches_of_reverse {r : Row} {lastB : Nat} {revInit : List Nat} (hb : r.branches.reverse = lastB :: revInit) :
    r.branches = revInit.reverse ++ [lastB] := by
  have := congrArg List.reverse hb
  simpa using this

theorem allSegs_sublist (fs : Array Frame) (errText : Nat → Str) (rootError width depth : Nat) (lb : Bool)
    (recur : Nat → Option Nat → Bool → Str) (X : Nat → List Str) : ∀ (rows : List Row) (prev : Option Nat),
    (∀ r, r ∈ rows → (fs[r.frame]?).isSome = true ∧ (∀ f, fs[r.frame]? = some f → NoNL f.spec) ∧
      ∀ b, b ∈ r.branches → ∀ p l, List.Sublist (X b) (SLT (recur b p l))) →
    List.Sublist
      (rows.flatMap (fun r => (specOfShown fs width (depth, r)).toList ++ r.branches.flatMap X))
      ((allSegs fs errText rootError width depth lb recur rows prev).flatMap SLT)
  | [], _, _ => by simp [allSegs]
  | r :: rest, prev, hrows => by
    have ih := allSegs_sublist fs errText rootError width depth lb recur X rest
    obtain ⟨hsome, hnl, hbr⟩ := hrows r (by simp)
    have hrest : ∀ r', r' ∈ rest → (fs[r'.frame]?).isSome = true ∧ (∀ f, fs[r'.frame]? = some f → NoNL f.spec) ∧
        ∀ b, b ∈ r'.branches → ∀ p l, List.Sublist (X b) (SLT (recur b p l)) :=
      fun r' hr' => hrows r' (List.mem_cons_of_mem _ hr')
    simp only [List.flatMap_cons, allSegs]
    cases hf : fs[r.frame]? with
    | none =>
      rw [hf] at hsome; simp at hsome
    | some f =>
      simp only [specOfShown, hf, Option.map_some, Option.toList_some, List.flatMap_append]
      apply List.Sublist.append _ (ih (some f.tid) hrest)
      simp only [rowSegs, List.flatMap_append]
      -- Target part ++ (Spec part) ++ error part
      refine List.Sublist.trans ?_ (List.sublist_append_left _ _)
      refine List.Sublist.trans ?_ (List.sublist_append_right _ _)
      cases hb : r.branches.reverse with
      | nil =>
        have hbn : r.branches = [] := by simpa using hb
        simp only [hbn, List.flatMap_nil, List.append_nil, List.flatMap_cons]
        rw [SLT_specLine depth width _ f (Gut_tickOf depth) (tickOf_length depth) (hnl f hf)]
        exact List.Sublist.refl _
      | cons lastB revInit =>
        have hbs := branches_of_reverse hb
        simp only [hbs, List.flatMap_append, List.flatMap_cons, List.flatMap_nil, List.append_nil]
        rw [SLT_specLine depth width _ f Gut_plus rfl (hnl f hf)]
        apply List.Sublist.append (List.Sublist.refl _)
        apply List.Sublist.append
        · rw [List.flatMap_map]
          apply flatMap_sublist
          intro b hb'
          exact hbr b (by rw [hbs]; simp [hb']) _ _
        · exact hbr lastB (by rw [hbs]; simp) _ _


theorem shownRows_succ (fs : Array Frame) (fuel h d : Nat) :
    shownRows fs (fuel + 1) h d =
      (unpack fs h).flatMap (fun r => (d, r) :: r.branches.flatMap (fun b => shownRows fs fuel b (d + 1))) := rfl

/-- **the `Spec:` lines of the rendered rows occur among the `Spec:` lines of the text, in the order
    of the rows** (spec texts without line breaks; nothing is assumed about the error texts) -/
theorem SLT_sublist (fs : Array Frame) (errText : Nat → Str) (rootError width : Nat) :
    ∀ (fuel h d : Nat) (prev : Option Nat) (lb : Bool), Renderable fs fuel h →
      (∀ p, p ∈ shownRows fs fuel h d → ∀ f, fs[p.2.frame]? = some f → NoNL f.spec) →
      List.Sublist ((shownRows fs fuel h d).filterMap (specOfShown fs width))
        (SLT (formatTrace fs errText rootError width fuel h d prev lb))
  | 0, _, _, _, _, hr, _ => by simp [Renderable] at hr
  | fuel + 1, h, d, prev, lb, hr, hnl => by
    have hr' := hr
    obtain ⟨hne, hrows⟩ := hr
    unfold SLT
    rw [linesMap_formatTrace _ (afterLabel_nil _ (by decide)) (fun g g' x hg hg' => afterLabel_gut_irrel _ g g' x hg hg')
      fs errText rootError width fuel h d prev lb hr']
    rw [shownRows_succ, List.filterMap_flatMap]
    have key := allSegs_sublist fs errText rootError width d lb
      (fun b p l => formatTrace fs errText rootError width fuel b (d + 1) p l)
      (fun b => (shownRows fs fuel b (d + 1)).filterMap (specOfShown fs width)) (unpack fs h) prev ?_
    · have heq : (unpack fs h).flatMap (fun a => List.filterMap (specOfShown fs width)
            ((d, a) :: a.branches.flatMap (fun b => shownRows fs fuel b (d + 1)))) =
          (unpack fs h).flatMap (fun r => (specOfShown fs width (d, r)).toList ++
            r.branches.flatMap (fun b => (shownRows fs fuel b (d + 1)).filterMap (specOfShown fs width))) := by
        congr 1
        funext r
        simp only [List.filterMap_cons, List.filterMap_flatMap]
        cases specOfShown fs width (d, r) <;> simp
      rw [heq]
      exact key
    · intro r hrm
      refine ⟨(hrows r hrm).1, ?_, ?_⟩
      · intro f hf
        apply hnl (d, r) _ f hf
        rw [shownRows_succ]
        exact List.mem_flatMap.mpr ⟨r, hrm, by simp⟩
      · intro b hb p l
        apply SLT_sublist fs errText rootError width fuel b (d + 1) p l ((hrows r hrm).2 b hb)
        intro q hq f hf
        apply hnl q _ f hf
        rw [shownRows_succ]
        exact List.mem_flatMap.mpr ⟨r, hrm, List.mem_cons_of_mem _ (List.mem_flatMap.mpr ⟨b, hb, hq⟩)⟩

/-! ### error texts -/

/-- `y` occurs in `T` after at least `k` characters -/
def InfAt (k : Nat) (y T : Str) : Prop := ∃ pre post, T = pre ++ y ++ post ∧ k ≤ pre.length

theorem InfAt_mono {k k' : Nat} {y T : Str} (hk : k' ≤ k) (h : InfAt k y T) : InfAt k' y T := by
  obtain ⟨pre, post, rfl, hl⟩ := h
  exact ⟨pre, post, rfl, by omega⟩

theorem InfAt_isInfix {k : Nat} {y T : Str} (h : InfAt k y T) : isInfix y T = true := by
  obtain ⟨pre, post, rfl, _⟩ := h
  exact isInfix_of_append pre y post

theorem InfAt_remark {k : Nat} {y T : Str} (p : Nat) (m : Char) (h : InfAt k y T) (hp : p + 2 ≤ k) :
    InfAt k y (remark p T m) := by
  obtain ⟨pre, post, rfl, hl⟩ := h
  rw [List.append_assoc, remark_prefix p pre (y ++ post) m (by omega)]
  exact ⟨remark p pre m, post, by simp, by rw [remark_length p pre m (by omega)]; exact hl⟩

theorem InfAt_joinLines {k : Nat} {y : Str} : ∀ (L : List Str) (s : Str), s ∈ L → InfAt k y s → InfAt k y (joinLines L)
  | [], _, h, _ => by simp at h
  | [x], s, h, hs => by
    simp only [List.mem_singleton] at h; subst h
    simpa [joinLines] using hs
  | x :: x2 :: r, s, h, hs => by
    rw [joinLines_cons_cons]
    rcases List.mem_cons.mp h with h | h
    · subst h
      obtain ⟨pre, post, rfl, hl⟩ := hs
      exact ⟨pre, post ++ '\n' :: joinLines (x2 :: r), by simp, hl⟩
    · obtain ⟨pre, post, hj, hl⟩ := InfAt_joinLines (x2 :: r) s h hs
      rw [hj]
      exact ⟨x ++ '\n' :: pre, post, by simp, by simp; omega⟩

theorem mem_setHead_of_mem {g : Str → Str} : ∀ (L : List Str) (s : Str), s ∈ L → s ∈ setHead L g ∨ g s ∈ setHead L g
  | [], s, h => by simp at h
  | x :: r, s, h => by
    rw [setHead_cons]
    rcases List.mem_cons.mp h with h | h
    · subst h; exact Or.inr (by simp)
    · exact Or.inl (List.mem_cons_of_mem _ h)

theorem mem_setLast_of_mem {g : Str → Str} (L : List Str) (s : Str) (h : s ∈ L) : s ∈ setLast L g ∨ g s ∈ setLast L g := by
  obtain ⟨init, x, rfl⟩ := exists_dropLast_getLast L (List.ne_nil_of_mem h)
  rw [setLast_append]
  rcases List.mem_append.mp h with h | h
  · exact Or.inl (List.mem_append_left _ h)
  · simp only [List.mem_singleton] at h; subst h
    exact Or.inr (by simp)

/-- a piece of the text that contains `y` (beyond the gutter) keeps it through the `\` / `X` marks -/
theorem InfAt_formatTrace_of_seg (fs : Array Frame) (errText : Nat → Str) (rootError width fuel h d : Nat)
    (prev : Option Nat) (lb : Bool) (y s : Str)
    (hs : s ∈ allSegs fs errText rootError width d lb
      (fun b p l => formatTrace fs errText rootError width fuel b (d + 1) p l) (unpack fs h) prev)
    (hy : InfAt (d + 3) y s) :
    InfAt (d + 3) y (formatTrace fs errText rootError width (fuel + 1) h d prev lb) := by
  rw [formatTrace_succ]
  simp only []
  split
  · exact InfAt_joinLines _ s hs hy
  · have h1 : ∃ s1, s1 ∈ setHead (allSegs fs errText rootError width d lb
        (fun b p l => formatTrace fs errText rootError width fuel b (d + 1) p l) (unpack fs h) prev)
        (fun s => remark d s '\\') ∧ InfAt (d + 3) y s1 := by
      rcases mem_setHead_of_mem (g := fun s => remark d s '\\') _ s hs with h' | h'
      · exact ⟨s, h', hy⟩
      · exact ⟨_, h', InfAt_remark d '\\' hy (by omega)⟩
    obtain ⟨s1, hs1, hy1⟩ := h1
    split
    · rcases mem_setLast_of_mem (g := fun s => remark d s 'X') _ s1 hs1 with h' | h'
      · exact InfAt_joinLines _ s1 h' hy1
      · exact InfAt_joinLines _ _ h' (InfAt_remark d 'X' hy1 (by omega))
    · exact InfAt_joinLines _ s1 hs1 hy1


theorem mem_allSegs_of_row (fs : Array Frame) (errText : Nat → Str) (rootError width depth : Nat) (lb : Bool)
    (recur : Nat → Option Nat → Bool → Str) : ∀ (rows : List Row) (prev : Option Nat) (r : Row) (f : Frame),
    r ∈ rows → fs[r.frame]? = some f →
    ∃ prev', ∀ s, s ∈ rowSegs errText rootError width depth lb recur f r prev' →
      s ∈ allSegs fs errText rootError width depth lb recur rows prev
  | [], _, _, _, h, _ => by simp at h
  | r0 :: rest, prev, r, f, h, hf => by
    rcases List.mem_cons.mp h with h | h
    · subst h
      refine ⟨prev, fun s hs => ?_⟩
      simp only [allSegs, hf]
      exact List.mem_append_left _ hs
    · cases hf0 : fs[r0.frame]? with
      | none =>
        obtain ⟨prev', hp⟩ := mem_allSegs_of_row fs errText rootError width depth lb recur rest prev r f h hf
        exact ⟨prev', fun s hs => by simp only [allSegs, hf0]; exact hp s hs⟩
      | some f0 =>
        obtain ⟨prev', hp⟩ := mem_allSegs_of_row fs errText rootError width depth lb recur rest (some f0.tid) r f h hf
        exact ⟨prev', fun s hs => by simp only [allSegs, hf0]; exact List.mem_append_right _ (hp s hs)⟩

theorem branch_mem_rowSegs (errText : Nat → Str) (rootError width depth : Nat) (lb : Bool)
    (recur : Nat → Option Nat → Bool → Str) (f : Frame) (r : Row) (prev : Option Nat) (b : Nat) (hb : b ∈ r.branches) :
    ∃ l, recur b (some f.tid) l ∈ rowSegs errText rootError width depth lb recur f r prev := by
  unfold rowSegs
  cases hrev : r.branches.reverse with
  | nil =>
    have : r.branches = [] := by simpa using hrev
    rw [this] at hb; simp at hb
  | cons lastB revInit =>
    have hbs := branches_of_reverse hrev
    rw [hbs] at hb
    rcases List.mem_append.mp hb with h | h
    · exact ⟨false, by simp only [List.mem_append, List.mem_map]; exact Or.inl (Or.inr (Or.inl (Or.inr ⟨b, h, rfl⟩)))⟩
    · simp only [List.mem_singleton] at h; subst h
      exact ⟨lb, by simp⟩

theorem err_mem_rowSegs (errText : Nat → Str) (rootError width depth : Nat) (lb : Bool)
    (recur : Nat → Option Nat → Bool → Str) (f : Frame) (r : Row) (prev : Option Nat) (x : Nat)
    (he : r.error = some x) (hx : x ≠ rootError) :
    indentOf depth ++ tickOf depth ++ errText x ∈ rowSegs errText rootError width depth lb recur f r prev := by
  unfold rowSegs
  rw [he]
  have : (x != rootError) = true := by simpa using hx
  simp [this]

/-- **the error of every rendered row other than the root error is in the text** -/
theorem err_shown (fs : Array Frame) (errText : Nat → Str) (rootError width : Nat) :
    ∀ (fuel h d : Nat) (prev : Option Nat) (lb : Bool) (p : Nat × Row) (x : Nat), Renderable fs fuel h →
      p ∈ shownRows fs fuel h d → p.2.error = some x → x ≠ rootError →
      InfAt (d + 3) (errText x) (formatTrace fs errText rootError width fuel h d prev lb)
  | 0, _, _, _, _, _, _, hr, _, _, _ => by simp [Renderable] at hr
  | fuel + 1, h, d, prev, lb, p, x, hr, hp, he, hx => by
    obtain ⟨hne, hrows⟩ := hr
    rw [shownRows_succ] at hp
    obtain ⟨r, hrm, hp⟩ := List.mem_flatMap.mp hp
    obtain ⟨hsome, hbr⟩ := hrows r hrm
    obtain ⟨f, hf⟩ := Option.isSome_iff_exists.mp hsome
    obtain ⟨prev', hsub⟩ := mem_allSegs_of_row fs errText rootError width d lb
      (fun b p l => formatTrace fs errText rootError width fuel b (d + 1) p l) (unpack fs h) prev r f hrm hf
    rcases List.mem_cons.mp hp with hp | hp
    · subst hp
      apply InfAt_formatTrace_of_seg fs errText rootError width fuel h d prev lb _ _
        (hsub _ (err_mem_rowSegs errText rootError width d lb _ f r prev' x he hx))
      exact ⟨indentOf d ++ tickOf d, [], by simp, by simp [indentOf_length, tickOf_length]⟩
    · obtain ⟨b, hb, hp⟩ := List.mem_flatMap.mp hp
      obtain ⟨l, hl⟩ := branch_mem_rowSegs errText rootError width d lb
        (fun b p l => formatTrace fs errText rootError width fuel b (d + 1) p l) f r prev' b hb
      apply InfAt_formatTrace_of_seg fs errText rootError width fuel h d prev lb _ _ (hsub _ hl)
      exact InfAt_mono (by omega) (err_shown fs errText rootError width fuel b (d + 1) (some f.tid) l p x (hbr b hb) hp he hx)


/-! ### `subseqBy` (the greedy matcher of the checker) finds every embedding -/

theorem subseqBy_nil {α β} (m : α → β → Bool) (bs : List β) : subseqBy m [] bs = true := by
  cases bs <;> rfl

/-- one more line before the text, one spec less to find: both keep a match -/
theorem subseqBy_weaken {α β} (m : α → β → Bool) : ∀ (bs : List β) (as : List α),
    (subseqBy m as bs = true → ∀ b, subseqBy m as (b :: bs) = true) ∧
    (∀ a, subseqBy m (a :: as) bs = true → subseqBy m as bs = true)
  | [], as => by
    constructor
    · intro h b
      cases as with
      | nil => rfl
      | cons a as => simp [subseqBy] at h
    · intro a h; simp [subseqBy] at h
  | b0 :: bs, as => by
    have ih := subseqBy_weaken m bs
    constructor
    · intro h b
      cases as with
      | nil => rfl
      | cons a as =>
        simp only [subseqBy]
        split
        · -- `a` matches the new line: the rest has to be found in `b0 :: bs`
          exact (ih as).2 a |> fun _ => by
            simp only [subseqBy] at h
            split at h
            · exact ((ih as).1 h b0)
            · exact (subseqBy_weaken m (b0 :: bs) as).2 a (by simp only [subseqBy]; rename_i hn; rw [if_neg hn]; exact h)
        · exact h
    · intro a h
      simp only [subseqBy] at h
      split at h
      · exact (ih as).1 h b0
      · cases as with
        | nil => rfl
        | cons a2 as2 =>
          have h1 := (ih (a2 :: as2)).2 a h
          exact (ih (a2 :: as2)).1 h1 b0
termination_by bs as => (bs.length, as.length)


theorem subseqBy_cons_right {α β} (m : α → β → Bool) (as : List α) (b : β) (bs : List β)
    (h : subseqBy m as bs = true) : subseqBy m as (b :: bs) = true := (subseqBy_weaken m bs as).1 h b

theorem subseqBy_tail_left {α β} (m : α → β → Bool) (a : α) (as : List α) (bs : List β)
    (h : subseqBy m (a :: as) bs = true) : subseqBy m as bs = true := (subseqBy_weaken m bs as).2 a h

theorem subseqBy_append_left {α β} (m : α → β → Bool) (as : List α) : ∀ (X Y : List β),
    subseqBy m as Y = true → subseqBy m as (X ++ Y) = true
  | [], _, h => h
  | x :: X, Y, h => subseqBy_cons_right m as x (X ++ Y) (subseqBy_append_left m as X Y h)

/-- a match in `X` followed by a match in `Y` -/
theorem subseqBy_append {α β} (m : α → β → Bool) : ∀ (X : List β) (as as' : List α) (Y : List β),
    subseqBy m as X = true → subseqBy m as' Y = true → subseqBy m (as ++ as') (X ++ Y) = true
  | [], as, as', Y, h1, h2 => by
    cases as with
    | nil => simpa using h2
    | cons a as => simp [subseqBy] at h1
  | x :: X, as, as', Y, h1, h2 => by
    cases as with
    | nil => simpa using subseqBy_append_left m as' (x :: X) Y h2
    | cons a as =>
      simp only [List.cons_append, subseqBy] at h1 ⊢
      split
      · rename_i hm
        rw [if_pos hm] at h1
        exact subseqBy_append m X as as' Y h1 h2
      · rename_i hm
        rw [if_neg hm] at h1
        exact subseqBy_append m X (a :: as) as' Y h1 h2

theorem subseqBy_append_right {α β} (m : α → β → Bool) (as : List α) (X Y : List β)
    (h : subseqBy m as X = true) : subseqBy m as (X ++ Y) = true := by
  have := subseqBy_append m X as [] Y h (subseqBy_nil m Y)
  simpa using this

theorem subseqBy_of_sublist {α β} (m : α → β → Bool) (as : List α) {X Y : List β} (hs : List.Sublist X Y)
    (h : subseqBy m as X = true) : subseqBy m as Y = true := by
  induction hs generalizing as with
  | slnil => exact h
  | cons b _ ih => exact subseqBy_cons_right m as b _ (ih as h)
  | cons_cons b _ ih =>
    cases as with
    | nil => exact subseqBy_nil m _
    | cons a as =>
      simp only [subseqBy] at h ⊢
      split
      · rename_i hm; rw [if_pos hm] at h; exact ih as h
      · rename_i hm; rw [if_neg hm] at h; exact ih (a :: as) h

theorem subseqBy_map {α γ β} (m : γ → β → Bool) (g : α → γ) : ∀ (as : List α) (bs : List β),
    subseqBy m (as.map g) bs = subseqBy (fun a b => m (g a) b) as bs
  | [], bs => by cases bs <;> rfl
  | _ :: _, [] => rfl
  | a :: as, b :: bs => by
    simp only [List.map_cons, subseqBy]
    rw [subseqBy_map m g as bs]
    have := subseqBy_map m g (a :: as) bs
    simp only [List.map_cons] at this
    rw [this]

theorem subseqBy_congr {α β} (m m' : α → β → Bool) : ∀ (as : List α) (bs : List β),
    (∀ a, a ∈ as → ∀ b, m a b = m' a b) → subseqBy m as bs = subseqBy m' as bs
  | [], bs, _ => by cases bs <;> rfl
  | _ :: _, [], _ => rfl
  | a :: as, b :: bs, h => by
    simp only [subseqBy]
    rw [h a (by simp) b, subseqBy_congr m m' as bs (fun x hx => h x (by simp [hx])),
      subseqBy_congr m m' (a :: as) bs h]


/-! ### the lines of a branch are not read as top-level `Spec:` lines -/

/-- a line that starts like a line nested at depth ≥ 1: a blank, a bar, and a bar or a mark -/
def Deep (l : Str) : Prop := ∃ c l3, l = ' ' :: '|' :: c :: l3 ∧ (c = '|' ∨ c = '\\' ∨ c = 'X' ∨ c = '+')

theorem Deep_gutter {l : Str} (h : Deep l) : 1 ≤ (gutter l).1 := by
  obtain ⟨c, l3, rfl, hc⟩ := h
  rcases hc with rfl | rfl | rfl | rfl
  · simp only [gutter, List.takeWhile_cons, beq_self_eq_true, if_true, List.length_cons]
    split <;> simp <;> omega
  · simp [gutter, List.takeWhile]
  · simp [gutter, List.takeWhile]
  · simp [gutter, List.takeWhile]

theorem Deep_remark {l : Str} (p : Nat) (m : Char) (h : Deep l) (hp : 1 ≤ p) (hm : m = '\\' ∨ m = 'X') :
    Deep (remark p l m) := by
  obtain ⟨c, l3, rfl, hc⟩ := h
  unfold remark
  obtain ⟨q, rfl⟩ : ∃ q, p = q + 1 := ⟨p - 1, by omega⟩
  cases q with
  | zero =>
    refine ⟨m, l3, by simp, ?_⟩
    rcases hm with rfl | rfl <;> simp
  | succ q =>
    exact ⟨c, (l3.take q ++ m :: l3.drop (q + 1)), by simp, hc⟩

theorem Deep_indent (d : Nat) (hd : 1 ≤ d) (t x : Str) (ht : t = tickOf d ∨ t = "+ ".toList) :
    Deep (indentOf d ++ t ++ x) := by
  obtain ⟨d', rfl⟩ : ∃ d', d = d' + 1 := ⟨d - 1, by omega⟩
  cases d' with
  | zero =>
    rcases ht with rfl | rfl
    · exact ⟨'|', ' ' :: x, by simp [indentOf, tickOf], Or.inl rfl⟩
    · exact ⟨'+', ' ' :: x, by simp [indentOf], Or.inr (Or.inr (Or.inr rfl))⟩
  | succ d'' =>
    exact ⟨'|', List.replicate d'' '|' ++ t ++ x, by simp [indentOf, List.replicate_succ], Or.inl rfl⟩

/-- a line of a branch: nested, or without a `Spec:` label -/
def DoF (l : Str) : Prop := Deep l ∨ afterLabel "Spec".toList l = none

def AllDoF (T : Str) : Prop := ∀ l, l ∈ splitLines T → DoF l

theorem AllDoF_joinLines (segs : List Str) (hne : segs ≠ []) (h : ∀ s, s ∈ segs → AllDoF s) : AllDoF (joinLines segs) := by
  intro l hl
  rw [splitLines_joinLines segs hne] at hl
  obtain ⟨s, hs, hls⟩ := List.mem_flatMap.mp hl
  exact h s hs l hls

theorem AllDoF_remark (d : Nat) (m : Char) (s : Str) (hd : 1 ≤ d) (hg : GPre (d + 3) s) (h : AllDoF s)
    (hm : m = '\\' ∨ m = 'X') : AllDoF (remark d s m) := by
  obtain ⟨g, x, rfl, hgut, hlen⟩ := hg
  have hmg : isGutterChar m = true := by rcases hm with rfl | rfl <;> decide
  rw [remark_prefix d g x m (by omega)]
  cases hs : splitLines x with
  | nil => exact absurd hs (splitLines_ne_nil x)
  | cons hd' tl =>
    have hg' := Gut_remark d g m hgut hmg
    have hold := splitLines_prefix g x hd' tl (Gut_NoNL hgut) hs
    intro l hl
    unfold AllDoF at h
    rw [hold] at h
    rw [splitLines_prefix _ x hd' tl (Gut_NoNL hg') hs] at hl
    rcases List.mem_cons.mp hl with hl | hl
    · subst hl
      rcases h (g ++ hd') (by simp) with h1 | h1
      · left
        have := Deep_remark d m h1 hd hm
        rwa [remark_prefix d g hd' m (by omega)] at this
      · right
        rw [afterLabel_gutter _ _ _ hg']
        rwa [afterLabel_gutter _ _ _ hgut] at h1
    · exact h l (List.mem_cons_of_mem _ hl)

theorem AllDoF_traceLine (d w : Nat) (lbl t v : Str) (vlen : Option Nat) (hd : 1 ≤ d)
    (ht : t = tickOf d ∨ t = "+ ".toList) (hl : NoNL lbl) (hv : NoNL v) : AllDoF (traceLine d w lbl t v vlen) := by
  have htg : Gut t := by rcases ht with rfl | rfl; exact Gut_tickOf d; exact Gut_plus
  have hnl : NoNL (traceLine d w lbl t v vlen) := by
    rw [traceLine_eq]
    apply NoNL_append (Gut_NoNL (Gut_append (Gut_indentOf d) htg))
    apply NoNL_append (NoNL_append hl (by intro c hc hn; subst hn; simp at hc))
    exact formatValue_NoNL _ _ _ hv
  intro l hl'
  rw [splitLines_noNL _ hnl] at hl'
  simp only [List.mem_singleton] at hl'
  subst hl'
  left
  rw [traceLine_eq]
  exact Deep_indent d hd t _ ht

theorem AllDoF_err (d : Nat) (hd : 1 ≤ d) (e : Str) (he : ∀ l, l ∈ splitLines e → afterLabel "Spec".toList l = none) :
    AllDoF (indentOf d ++ tickOf d ++ e) := by
  cases hs : splitLines e with
  | nil => exact absurd hs (splitLines_ne_nil e)
  | cons hd' tl =>
    intro l hl
    rw [splitLines_prefix _ e hd' tl (Gut_NoNL (Gut_append (Gut_indentOf d) (Gut_tickOf d))) hs] at hl
    rcases List.mem_cons.mp hl with hl | hl
    · subst hl
      left
      exact Deep_indent d hd (tickOf d) hd' (Or.inl rfl)
    · right
      exact he l (by rw [hs]; exact List.mem_cons_of_mem _ hl)


/-- the texts of all frames are single lines -/
def FramesOneLine (fs : Array Frame) : Prop := ∀ (j : Nat) (f : Frame), fs[j]? = some f → NoNL f.spec ∧ NoNL f.target

/-- no line of an error text is read as a `Spec:` line -/
def ErrLabelFree (errText : Nat → Str) : Prop :=
  ∀ e l, l ∈ splitLines (errText e) → afterLabel "Spec".toList l = none

theorem NoNL_lit (s : String) (h : s.toList.all (fun c => c != '\n') = true) : NoNL s.toList := by
  intro c hc hn
  subst hn
  have := List.all_eq_true.mp h _ hc
  simp at this

theorem allSegs_AllDoF (fs : Array Frame) (errText : Nat → Str) (rootError width depth : Nat) (lb : Bool)
    (recur : Nat → Option Nat → Bool → Str) (hd : 1 ≤ depth) (hfs : FramesOneLine fs) (herr : ErrLabelFree errText) :
    ∀ (rows : List Row) (prev : Option Nat),
    (∀ r, r ∈ rows → ∀ b, b ∈ r.branches → ∀ p l, AllDoF (recur b p l)) →
    ∀ s, s ∈ allSegs fs errText rootError width depth lb recur rows prev → AllDoF s
  | [], _, _, s, hs => by simp [allSegs] at hs
  | r :: rest, prev, hrec, s, hs => by
    have ih := allSegs_AllDoF fs errText rootError width depth lb recur hd hfs herr rest
    simp only [allSegs] at hs
    cases hf : fs[r.frame]? with
    | none =>
      rw [hf] at hs
      exact ih prev (fun r' hr' => hrec r' (List.mem_cons_of_mem _ hr')) s hs
    | some f =>
      rw [hf] at hs
      obtain ⟨hns, hnt⟩ := hfs _ f hf
      rcases List.mem_append.mp hs with h | h
      · simp only [rowSegs, List.mem_append] at h
        rcases h with (h | h) | h
        · split at h
          · simp only [List.mem_singleton] at h; subst h
            exact AllDoF_traceLine _ _ _ _ _ _ hd (Or.inl rfl) (NoNL_lit "Target" (by decide)) hnt
          · simp at h
        · cases hb : r.branches.reverse with
          | nil =>
            rw [hb] at h
            simp only [List.mem_singleton] at h; subst h
            exact AllDoF_traceLine _ _ _ _ _ _ hd (Or.inl rfl) (NoNL_lit "Spec" (by decide)) hns
          | cons lastB revInit =>
            rw [hb] at h
            have hbs := branches_of_reverse hb
            simp only [List.mem_append, List.mem_singleton, List.mem_map] at h
            rcases h with (h | ⟨b, hb', h⟩) | h
            · subst h; exact AllDoF_traceLine _ _ _ _ _ _ hd (Or.inr rfl) (NoNL_lit "Spec" (by decide)) hns
            · subst h; exact hrec r (by simp) b (by rw [hbs]; simp [hb']) _ _
            · subst h; exact hrec r (by simp) lastB (by rw [hbs]; simp) _ _
        · cases he : r.error with
          | none => rw [he] at h; exact absurd h (by simp)
          | some e =>
            rw [he] at h
            by_cases hne : (e != rootError) = true
            · simp only [hne, if_true, List.mem_singleton] at h; subst h
              exact AllDoF_err depth hd _ (herr e)
            · simp [hne] at h
      · exact ih (some f.tid) (fun r' hr' => hrec r' (List.mem_cons_of_mem _ hr')) s h

/-- **every line of the text of a branch is nested, or has no `Spec:` label** -/
theorem nested_lines (fs : Array Frame) (errText : Nat → Str) (rootError width : Nat)
    (hfs : FramesOneLine fs) (herr : ErrLabelFree errText) :
    ∀ (fuel h d : Nat) (prev : Option Nat) (lb : Bool), Renderable fs fuel h → 1 ≤ d →
      AllDoF (formatTrace fs errText rootError width fuel h d prev lb)
  | 0, _, _, _, _, hr, _ => by simp [Renderable] at hr
  | fuel + 1, h, d, prev, lb, hr, hd => by
    obtain ⟨hne, hrows⟩ := hr
    rw [formatTrace_succ]
    have hrec : ∀ r, r ∈ unpack fs h → ∀ b, b ∈ r.branches → ∀ p l,
        AllDoF (formatTrace fs errText rootError width fuel b (d + 1) p l) :=
      fun r hr b hb p l => nested_lines fs errText rootError width hfs herr fuel b (d + 1) p l ((hrows r hr).2 b hb) (by omega)
    have hall := allSegs_AllDoF fs errText rootError width d lb
      (fun b p l => formatTrace fs errText rootError width fuel b (d + 1) p l) hd hfs herr (unpack fs h) prev hrec
    have hgp : ∀ s, s ∈ allSegs fs errText rootError width d lb
        (fun b p l => formatTrace fs errText rootError width fuel b (d + 1) p l) (unpack fs h) prev → GPre (d + 3) s := by
      apply allSegs_GPre
      intro r hr b hb p l
      exact GPre_mono (by omega) (formatTrace_GPre fs errText rootError width fuel b (d + 1) p l ((hrows r hr).2 b hb))
    have hsne := allSegs_ne_nil fs errText rootError width d lb
      (fun b p l => formatTrace fs errText rootError width fuel b (d + 1) p l) (unpack fs h) prev hne
      (fun r hr => (hrows r hr).1)
    simp only []
    have hd0 : (d == 0) = false := by simp; omega
    rw [hd0]
    simp only [Bool.false_eq_true, if_false]
    have h1 : ∀ s, s ∈ setHead (allSegs fs errText rootError width d lb
        (fun b p l => formatTrace fs errText rootError width fuel b (d + 1) p l) (unpack fs h) prev)
        (fun s => remark d s '\\') → AllDoF s ∧ GPre (d + 3) s := by
      intro s hs
      rcases mem_setHead _ _ hs with h' | ⟨s0, h0, rfl⟩
      · exact ⟨hall s h', hgp s h'⟩
      · exact ⟨AllDoF_remark d '\\' s0 hd (hgp s0 h0) (hall s0 h0) (Or.inl rfl),
          GPre_remark d '\\' (hgp s0 h0) (by omega) (by decide)⟩
    split
    · apply AllDoF_joinLines _ (setLast_ne_nil _ (setHead_ne_nil _ hsne))
      intro s hs
      rcases mem_setLast _ _ hs with h' | ⟨s0, h0, rfl⟩
      · exact (h1 s h').1
      · exact AllDoF_remark d 'X' s0 hd (h1 s0 h0).2 (h1 s0 h0).1 (Or.inr rfl)
    · exact AllDoF_joinLines _ (setHead_ne_nil _ hsne) (fun s hs => (h1 s hs).1)


/-! ### the top-level `Spec:` lines are those of the rows -/

/-- the `Spec:` text of a line of nesting depth 0 -/
def topSpec (l : Str) : Option Str := if (gutter l).1 == 0 then afterLabel "Spec".toList l else none

theorem filterMap_filter_top (lines : List Str) :
    (lines.filter (fun l => (gutter l).1 == 0)).filterMap (afterLabel "Spec".toList) = lines.filterMap topSpec := by
  induction lines with
  | nil => rfl
  | cons l r ih =>
    simp only [List.filter_cons, List.filterMap_cons, topSpec]
    split
    · simp only [List.filterMap_cons, ih]
    · simp only [ih]

theorem topSpec_of_DoF {l : Str} (h : DoF l) : topSpec l = none := by
  unfold topSpec
  rcases h with h | h
  · have := Deep_gutter h
    rw [if_neg (by simp; omega)]
  · rw [h]; simp

theorem linesMap_top_AllDoF (T : Str) (h : AllDoF T) : linesMap topSpec T = [] := by
  unfold linesMap
  apply List.filterMap_eq_nil_iff.mpr
  intro l hl
  exact topSpec_of_DoF (h l hl)

theorem linesMap_top_target (w : Nat) (v : Str) (vlen : Option Nat) (hv : NoNL v) :
    linesMap topSpec (traceLine 0 w "Target".toList (tickOf 0) v vlen) = [] := by
  have hnl : NoNL (traceLine 0 w "Target".toList (tickOf 0) v vlen) := by
    rw [traceLine_eq]
    apply NoNL_append (Gut_NoNL (Gut_append (Gut_indentOf 0) (Gut_tickOf 0)))
    apply NoNL_append (NoNL_append (NoNL_lit "Target" (by decide)) (by intro c hc hn; subst hn; simp at hc))
    exact formatValue_NoNL _ _ _ hv
  unfold linesMap
  rw [splitLines_noNL _ hnl]
  simp only [List.filterMap_cons, List.filterMap_nil, topSpec]
  rw [traceLine_eq, afterLabel_gutter _ _ _ (Gut_append (Gut_indentOf 0) (Gut_tickOf 0)), afterLabel_spec_target]
  simp

theorem linesMap_top_spec (w : Nat) (t : Str) (f : Frame) (ht : t = tickOf 0 ∨ t = "+ ".toList) (hs : NoNL f.spec) :
    linesMap topSpec (traceLine 0 w "Spec".toList t f.spec f.slen) = [specShown w f 0] := by
  have htg : Gut t := by rcases ht with rfl | rfl; exact Gut_tickOf 0; exact Gut_plus
  have htl : t.length = 2 := by rcases ht with rfl | rfl <;> rfl
  have hlen : (indentOf 0 ++ t ++ "Spec".toList ++ ": ".toList).length = 0 + 9 := by
    simp [indentOf_length, htl]
  have hnl : NoNL (traceLine 0 w "Spec".toList t f.spec f.slen) := by
    rw [traceLine_eq]
    apply NoNL_append (Gut_NoNL (Gut_append (Gut_indentOf 0) htg))
    apply NoNL_append (NoNL_append (NoNL_lit "Spec" (by decide)) (by intro c hc hn; subst hn; simp at hc))
    exact formatValue_NoNL _ _ _ hs
  unfold linesMap
  rw [splitLines_noNL _ hnl]
  simp only [List.filterMap_cons, List.filterMap_nil, topSpec]
  have hg : (gutter (traceLine 0 w "Spec".toList t f.spec f.slen)).1 = 0 := by
    rw [traceLine_eq]
    rcases ht with rfl | rfl <;> simp [indentOf, tickOf, gutter, List.takeWhile]
  rw [hg]
  simp only [beq_self_eq_true, if_true]
  rw [traceLine_eq, hlen, afterLabel_gutter _ _ _ (Gut_append (Gut_indentOf 0) htg), afterLabel_spec_self]
  rfl

theorem linesMap_top_err (e : Str) (he : ∀ l, l ∈ splitLines e → afterLabel "Spec".toList l = none) :
    linesMap topSpec (indentOf 0 ++ tickOf 0 ++ e) = [] := by
  unfold linesMap
  apply List.filterMap_eq_nil_iff.mpr
  intro l hl
  cases hs : splitLines e with
  | nil => exact absurd hs (splitLines_ne_nil e)
  | cons hd' tl =>
    rw [splitLines_prefix _ e hd' tl (Gut_NoNL (Gut_append (Gut_indentOf 0) (Gut_tickOf 0))) hs] at hl
    unfold topSpec
    rcases List.mem_cons.mp hl with hl | hl
    · subst hl
      rw [afterLabel_gutter _ _ _ (Gut_append (Gut_indentOf 0) (Gut_tickOf 0)), he hd' (by rw [hs]; simp)]
      simp
    · rw [he l (by rw [hs]; exact List.mem_cons_of_mem _ hl)]
      simp

theorem topSpec_nil : topSpec [] = none := by
  simp [topSpec, gutter, afterLabel_nil]

theorem allSegs_top (fs : Array Frame) (errText : Nat → Str) (rootError width : Nat) (lb : Bool)
    (recur : Nat → Option Nat → Bool → Str) (hfs : FramesOneLine fs) (herr : ErrLabelFree errText) :
    ∀ (rows : List Row) (prev : Option Nat),
    (∀ r, r ∈ rows → ∀ b, b ∈ r.branches → ∀ p l, AllDoF (recur b p l)) →
    (allSegs fs errText rootError width 0 lb recur rows prev).flatMap (linesMap topSpec) =
      rows.filterMap (fun r => (fs[r.frame]?).map (fun f => specShown width f 0))
  | [], _, _ => by simp [allSegs]
  | r :: rest, prev, hrec => by
    have ih := allSegs_top fs errText rootError width lb recur hfs herr rest
    have hrest : ∀ r', r' ∈ rest → ∀ b, b ∈ r'.branches → ∀ p l, AllDoF (recur b p l) :=
      fun r' hr' => hrec r' (List.mem_cons_of_mem _ hr')
    simp only [allSegs, List.filterMap_cons]
    cases hf : fs[r.frame]? with
    | none => simp only [Option.map_none]; exact ih prev hrest
    | some f =>
      obtain ⟨hns, hnt⟩ := hfs _ f hf
      simp only [Option.map_some, List.flatMap_append, ih (some f.tid) hrest]
      have hrow : (rowSegs errText rootError width 0 lb recur f r prev).flatMap (linesMap topSpec) = [specShown width f 0] := by
        simp only [rowSegs, List.flatMap_append]
        have h1 : (if (prev != some f.tid) = true then [traceLine 0 width "Target".toList (tickOf 0) f.target f.tlen] else []).flatMap
            (linesMap topSpec) = [] := by
          split
          · simp only [List.flatMap_cons, List.flatMap_nil, List.append_nil]
            exact linesMap_top_target width f.target f.tlen hnt
          · rfl
        have h3 : (match r.error with
            | some e => if (e != rootError) = true then [indentOf 0 ++ tickOf 0 ++ errText e] else []
            | none => []).flatMap (linesMap topSpec) = [] := by
          cases r.error with
          | none => rfl
          | some e =>
            simp only []
            split
            · simp only [List.flatMap_cons, List.flatMap_nil, List.append_nil]
              exact linesMap_top_err (errText e) (herr e)
            · rfl
        rw [h1, h3]
        cases hb : r.branches.reverse with
        | nil =>
          simp only [List.flatMap_cons, List.flatMap_nil, List.append_nil, List.nil_append]
          exact linesMap_top_spec width _ f (Or.inl rfl) hns
        | cons lastB revInit =>
          have hbs := branches_of_reverse hb
          have e0 : linesMap topSpec (traceLine 0 width "Spec".toList "+ ".toList f.spec f.slen) = [specShown width f 0] :=
            linesMap_top_spec width _ f (Or.inr rfl) hns
          simp only [List.flatMap_append, List.flatMap_cons, List.flatMap_nil, List.append_nil, List.nil_append,
            List.flatMap_map]
          rw [e0]
          have e1 : revInit.reverse.flatMap (fun b => linesMap topSpec (recur b (some f.tid) false)) = [] := by
            apply List.flatMap_eq_nil_iff.mpr
            intro b hb'
            exact linesMap_top_AllDoF _ (hrec r (by simp) b (by rw [hbs]; simp [hb']) _ _)
          rw [e1, linesMap_top_AllDoF _ (hrec r (by simp) lastB (by rw [hbs]; simp) _ _)]
          simp
      rw [hrow]
      simp

/-- **the `Spec:` lines of nesting depth 0 are the `Spec:` lines of the rows, in order** -/
theorem top_specs (fs : Array Frame) (errText : Nat → Str) (rootError width fuel h : Nat) (prev : Option Nat) (lb : Bool)
    (hfs : FramesOneLine fs) (herr : ErrLabelFree errText) (hr : Renderable fs (fuel + 1) h) :
    linesMap topSpec (formatTrace fs errText rootError width (fuel + 1) h 0 prev lb) =
      (unpack fs h).filterMap (fun r => (fs[r.frame]?).map (fun f => specShown width f 0)) := by
  obtain ⟨_, hrows⟩ := hr
  rw [formatTrace_succ]
  simp only [beq_self_eq_true, if_true]
  rw [linesMap_joinLines topSpec topSpec_nil]
  apply allSegs_top fs errText rootError width lb _ hfs herr
  intro r hr b hb p l
  exact nested_lines fs errText rootError width hfs herr fuel b (0 + 1) p l ((hrows r hr).2 b hb) (by omega)

end Glom.C05
