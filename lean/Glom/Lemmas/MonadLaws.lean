import Glom.Model.Interp
/-
  `M` is a lawful monad (state that survives exceptions), plus the interaction of `attempt`
  with `bind` / `pure`.  Used for equational reasoning about the interpreter.
-/
namespace Glom.Interp

theorem M.ext {α} {m n : M α} (h : ∀ st, m st = n st) : m = n := funext h

@[simp] theorem M.pure_bind' {α β} (a : α) (f : α → M β) : (Pure.pure a : M α) >>= f = f a := by
  apply M.ext; intro st; rfl

@[simp] theorem M.bind_pure' {α} (m : M α) : m >>= (fun a => (Pure.pure a : M α)) = m := by
  apply M.ext; intro st
  show M.bind m _ st = m st
  unfold M.bind
  rcases hm : m st with ⟨st', r⟩
  cases r <;> rfl

@[simp] theorem M.bind_assoc' {α β γ} (m : M α) (f : α → M β) (g : β → M γ) :
    (m >>= f) >>= g = m >>= fun a => f a >>= g := by
  apply M.ext; intro st
  show M.bind (M.bind m f) g st = M.bind m (fun a => M.bind (f a) g) st
  unfold M.bind
  rcases hm : m st with ⟨st', r⟩
  cases r <;> rfl

@[simp] theorem M.throw_bind {α β} (e : Err) (f : α → M β) : (M.throw e : M α) >>= f = M.throw e := by
  apply M.ext; intro st; rfl

@[simp] theorem M.fail_bind {α β} (c : String) (f : α → M β) : (M.fail c : M α) >>= f = M.fail c := by
  apply M.ext; intro st; rfl

/-- map the scope component of an evaluator's result -/
def mapSc {σ τ : Type} (f : σ → τ) (m : M (V × σ)) : M (V × τ) := do
  let r ← m
  pure (r.1, f r.2)

@[simp] theorem mapSc_bind {σ τ β : Type} (f : σ → τ) (m : M (V × σ)) (k : V × τ → M β) :
    mapSc f m >>= k = m >>= fun r => k (r.1, f r.2) := by
  simp [mapSc]

theorem attempt_mapSc {σ τ : Type} (f : σ → τ) (m : M (V × σ)) :
    M.attempt (mapSc f m) = (do
      let r ← M.attempt m
      pure (match r with
        | .ok x => .ok (x.1, f x.2)
        | .error e => .error e)) := by
  apply M.ext; intro st
  show M.attempt (M.bind m _) st = M.bind (M.attempt m) _ st
  unfold M.attempt M.bind
  simp only
  rcases hm : m st with ⟨st', r⟩
  cases r <;> simp [hm] <;> rfl

@[simp] theorem attempt_mapSc_bind {σ τ β : Type} (f : σ → τ) (m : M (V × σ)) (k : Except Err (V × τ) → M β) :
    M.attempt (mapSc f m) >>= k = M.attempt m >>= fun r => k (match r with
        | .ok x => .ok (x.1, f x.2)
        | .error e => .error e) := by
  rw [attempt_mapSc]; simp

end Glom.Interp
