import Glom.Spec.C13
/-
  Helper lemmas for C13 (core Lean only).
    A. insertion-ordered dicts            B. forests as dicts
    C. the tree invariant and `_register_fuzzy_type`
    D. which types a tree contains after `_register_fuzzy_type`
    E. `_get_closest_type`                F. a registered root type (`object`)
    G. `register` / `register_op` seen per op      H. registry invariants along histories
-/
namespace Glom.C13

/-! ### A. insertion-ordered dicts -/

section od
variable {α β : Type} [BEq α] [LawfulBEq α]

theorem odGet_odSet_same (k : α) (v : β) (m : List (α × β)) : odGet k (odSet k v m) = some v := by
  induction m with
  | nil => simp [odSet, odGet]
  | cons p r ih =>
    obtain ⟨k', v'⟩ := p
    by_cases h : k' = k
    · subst h; simp [odSet, odGet]
    · simp [odSet, odGet, h, ih]

theorem odGet_odSet_ne {k k' : α} (v : β) (m : List (α × β)) (h : k' ≠ k) :
    odGet k' (odSet k v m) = odGet k' m := by
  induction m with
  | nil => simp [odSet, odGet]; intro h'; exact absurd h'.symm h
  | cons p r ih =>
    obtain ⟨k'', v''⟩ := p
    by_cases h2 : k'' = k
    · subst h2
      have : ¬ k'' = k' := fun e => h e.symm
      simp [odSet, odGet, this]
    · by_cases h3 : k'' = k'
      · subst h3; simp [odSet, odGet, h2]
      · simp [odSet, odGet, h2, h3, ih]

theorem odGet_odSet (k k' : α) (v : β) (m : List (α × β)) :
    odGet k' (odSet k v m) = if k' == k then some v else odGet k' m := by
  by_cases h : k' = k
  · subst h; simp [odGet_odSet_same]
  · rw [odGet_odSet_ne v m h]; simp [h]

theorem odGet_some_mem {k : α} {v : β} {m : List (α × β)} (h : odGet k m = some v) : (k, v) ∈ m := by
  induction m with
  | nil => simp [odGet] at h
  | cons p r ih =>
    obtain ⟨k', v'⟩ := p
    by_cases hk : k' = k
    · subst hk; simp [odGet] at h; subst h; simp
    · simp [odGet, hk] at h; simp [ih h]

theorem odSet_keys (k : α) (v : β) (m : List (α × β)) (x : α) :
    x ∈ (odSet k v m).map (·.1) ↔ x = k ∨ x ∈ m.map (·.1) := by
  induction m with
  | nil => simp [odSet]
  | cons p r ih =>
    obtain ⟨k', v'⟩ := p
    by_cases hk : k' = k
    · subst hk; simp [odSet]
    · simp only [odSet, beq_iff_eq, hk, if_false, List.map_cons, List.mem_cons, ih]
      constructor
      · rintro (h | h | h) <;> simp [h]
      · rintro (h | h | h) <;> simp [h]

theorem odGet_isSome_iff (k : α) (m : List (α × β)) : (odGet k m).isSome ↔ k ∈ m.map (·.1) := by
  induction m with
  | nil => simp [odGet]
  | cons p r ih =>
    obtain ⟨k', v'⟩ := p
    by_cases hk : k' = k
    · subst hk; simp [odGet]
    · simp [odGet, hk, ih]; intro h; exact absurd h.symm hk

end od

/-! ### B. forests as dicts -/

namespace Forest

theorem get?_set_same (f : Forest) (k : Ty) (v : Forest) : (f.set k v).get? k = some v := by
  induction f with
  | nil => simp [set, get?]
  | cons c kids rest _ ih =>
    by_cases h : c = k
    · subst h; simp [set, get?]
    · simp [set, get?, h, ih]

theorem get?_set_ne (f : Forest) {k k' : Ty} (v : Forest) (h : k' ≠ k) :
    (f.set k v).get? k' = f.get? k' := by
  induction f with
  | nil => simp [set, get?]; intro e; exact absurd e.symm h
  | cons c kids rest _ ih =>
    by_cases h2 : c = k
    · subst h2
      have : ¬ c = k' := fun e => h e.symm
      simp [set, get?, this]
    · by_cases h3 : c = k'
      · subst h3; simp [set, get?, h2]
      · simp [set, get?, h2, h3, ih]

theorem get?_erase_ne (f : Forest) {k k' : Ty} (h : k' ≠ k) : (f.erase k).get? k' = f.get? k' := by
  induction f with
  | nil => simp [erase, get?]
  | cons c kids rest _ ih =>
    by_cases h2 : c = k
    · subst h2
      have : ¬ c = k' := fun e => h e.symm
      simp [erase, get?, this]
    · by_cases h3 : c = k'
      · subst h3; simp [erase, get?, h2]
      · simp [erase, get?, h2, h3, ih]

theorem mem_roots_set (f : Forest) (k : Ty) (v : Forest) (x : Ty) :
    x ∈ roots (f.set k v) ↔ x = k ∨ x ∈ roots f := by
  induction f with
  | nil => simp [set, roots]
  | cons c kids rest _ ih =>
    by_cases h : c = k
    · subst h; simp [set, roots]
    · simp only [set, beq_iff_eq, h, if_false, roots, List.mem_cons, ih]
      constructor
      · rintro (h | h | h) <;> simp [h]
      · rintro (h | h | h) <;> simp [h]

theorem mem_roots_erase {f : Forest} {k x : Ty} (h : x ∈ roots (f.erase k)) : x ∈ roots f := by
  induction f with
  | nil => simp [erase, roots] at h
  | cons c kids rest _ ih =>
    by_cases hc : c = k
    · subst hc; simp [erase, roots] at h; simp [roots, h]
    · simp only [erase, beq_iff_eq, hc, if_false, roots, List.mem_cons] at h
      rcases h with h | h
      · simp [roots, h]
      · simp [roots, ih h]

theorem get?_isSome_iff (f : Forest) (k : Ty) : (f.get? k).isSome ↔ k ∈ roots f := by
  induction f with
  | nil => simp [get?, roots]
  | cons c kids rest _ ih =>
    by_cases hc : c = k
    · subst hc; simp [get?, roots]
    · simp [get?, roots, hc, ih]; intro h; exact absurd h.symm hc

/-- soundness of `set` on the node set -/
theorem mem_nodes_set {f : Forest} {k : Ty} {v : Forest} {x : Ty} (h : x ∈ nodes (f.set k v)) :
    x = k ∨ x ∈ nodes v ∨ x ∈ nodes f := by
  induction f with
  | nil => simp [set, nodes] at h; rcases h with h | h <;> simp [h]
  | cons c kids rest _ ih =>
    by_cases hc : c = k
    · subst hc
      simp only [set, beq_self_eq_true, if_true, nodes, List.mem_cons, List.mem_append] at h
      rcases h with h | h | h
      · simp [h]
      · simp [h]
      · simp [nodes, h]
    · simp only [set, beq_iff_eq, hc, if_false, nodes, List.mem_cons, List.mem_append] at h
      rcases h with h | h | h
      · simp [nodes, h]
      · simp [nodes, h]
      · rcases ih h with h | h | h <;> simp [nodes, h]

theorem mem_nodes_set_key (f : Forest) (k : Ty) (v : Forest) : k ∈ nodes (f.set k v) := by
  induction f with
  | nil => simp [set, nodes]
  | cons c kids rest _ ih =>
    by_cases hc : c = k
    · subst hc; simp [set, nodes]
    · simp [set, nodes, hc, ih]

theorem mem_nodes_set_val (f : Forest) (k : Ty) (v : Forest) {x : Ty} (h : x ∈ nodes v) :
    x ∈ nodes (f.set k v) := by
  induction f with
  | nil => simp [set, nodes, h]
  | cons c kids rest _ ih =>
    by_cases hc : c = k
    · subst hc; simp [set, nodes, h]
    · simp [set, nodes, hc, ih]

/-- what `set` can lose: only nodes of the value it replaces -/
theorem mem_nodes_set_of_mem {f : Forest} (k : Ty) (v : Forest) {x : Ty} (h : x ∈ nodes f) :
    x ∈ nodes (f.set k v) ∨ (∃ old, f.get? k = some old ∧ x ∈ nodes old) := by
  induction f with
  | nil => simp [nodes] at h
  | cons c kids rest _ ih =>
    by_cases hc : c = k
    · subst hc
      simp only [nodes, List.mem_cons, List.mem_append] at h
      rcases h with h | h | h
      · left; simp [set, nodes, h]
      · right; exact ⟨kids, by simp [get?], h⟩
      · left; simp [set, nodes, h]
    · simp only [nodes, List.mem_cons, List.mem_append] at h
      rcases h with h | h | h
      · left; simp [set, nodes, hc, h]
      · left; simp [set, nodes, hc, h]
      · rcases ih h with h | ⟨old, ho, hx⟩
        · left; simp [set, nodes, hc, h]
        · right; exact ⟨old, by simp [get?, hc, ho], hx⟩

theorem mem_nodes_erase {f : Forest} {k x : Ty} (h : x ∈ nodes (f.erase k)) : x ∈ nodes f := by
  induction f with
  | nil => simp [erase, nodes] at h
  | cons c kids rest _ ih =>
    by_cases hc : c = k
    · subst hc; simp [erase] at h; simp [nodes, h]
    · simp only [erase, beq_iff_eq, hc, if_false, nodes, List.mem_cons, List.mem_append] at h
      rcases h with h | h | h
      · simp [nodes, h]
      · simp [nodes, h]
      · simp [nodes, ih h]

theorem mem_nodes_erase_of_mem {f : Forest} (k : Ty) {x : Ty} (h : x ∈ nodes f) :
    x ∈ nodes (f.erase k) ∨ x = k ∨ (∃ old, f.get? k = some old ∧ x ∈ nodes old) := by
  induction f with
  | nil => simp [nodes] at h
  | cons c kids rest _ ih =>
    by_cases hc : c = k
    · subst hc
      simp only [nodes, List.mem_cons, List.mem_append] at h
      rcases h with h | h | h
      · right; left; exact h
      · right; right; exact ⟨kids, by simp [get?], h⟩
      · left; simp [erase, h]
    · simp only [nodes, List.mem_cons, List.mem_append] at h
      rcases h with h | h | h
      · left; simp [erase, nodes, hc, h]
      · left; simp [erase, nodes, hc, h]
      · rcases ih h with h | h | ⟨old, ho, hx⟩
        · left; simp [erase, nodes, hc, h]
        · right; left; exact h
        · right; right; exact ⟨old, by simp [get?, hc, ho], hx⟩

theorem mem_nodes_of_get? {f : Forest} {k : Ty} {sub : Forest} (h : f.get? k = some sub) {x : Ty}
    (hx : x ∈ nodes sub) : x ∈ nodes f := by
  induction f with
  | nil => simp [get?] at h
  | cons c kids rest _ ih =>
    by_cases hc : c = k
    · subst hc; simp [get?] at h; subst h; simp [nodes, hx]
    · simp [get?, hc] at h; simp [nodes, ih h]

theorem roots_subset_nodes {f : Forest} {x : Ty} (h : x ∈ roots f) : x ∈ nodes f := by
  induction f with
  | nil => simp [roots] at h
  | cons c kids rest _ ih =>
    simp only [roots, List.mem_cons] at h
    rcases h with h | h
    · simp [nodes, h]
    · simp [nodes, ih h]

end Forest

/-! ### C. the tree invariant -/

/-- "a key in the mapping is a valid parent type of all its children" (docstring of
    `_register_fuzzy_type`) -/
def TreeInv (H : Hier) : Forest → Prop
  | .nil => True
  | .cons c kids rest => (∀ x ∈ kids.roots, H.sub x c = true) ∧ TreeInv H kids ∧ TreeInv H rest

theorem TreeInv.set {H : Hier} {f v : Forest} {k : Ty} (hf : TreeInv H f) (hv : TreeInv H v)
    (hr : ∀ x ∈ v.roots, H.sub x k = true) : TreeInv H (f.set k v) := by
  induction f with
  | nil => exact ⟨hr, hv, trivial⟩
  | cons c kids rest _ ih =>
    obtain ⟨h1, h2, h3⟩ := hf
    by_cases hc : c = k
    · subst hc; simp only [Forest.set, beq_self_eq_true, if_true]; exact ⟨hr, hv, h3⟩
    · simp only [Forest.set, beq_iff_eq, hc, if_false]; exact ⟨h1, h2, ih h3⟩

theorem TreeInv.erase {H : Hier} {f : Forest} (k : Ty) (hf : TreeInv H f) : TreeInv H (f.erase k) := by
  induction f with
  | nil => trivial
  | cons c kids rest _ ih =>
    obtain ⟨h1, h2, h3⟩ := hf
    by_cases hc : c = k
    · subst hc; simp only [Forest.erase, beq_self_eq_true, if_true]; exact h3
    · simp only [Forest.erase, beq_iff_eq, hc, if_false]; exact ⟨h1, h2, ih h3⟩

theorem TreeInv.get? {H : Hier} {f s : Forest} {k : Ty} (hf : TreeInv H f) (h : f.get? k = some s) :
    TreeInv H s ∧ ∀ x ∈ s.roots, H.sub x k = true := by
  induction f with
  | nil => simp [Forest.get?] at h
  | cons c kids rest _ ih =>
    obtain ⟨h1, h2, h3⟩ := hf
    by_cases hc : c = k
    · subst hc; simp [Forest.get?] at h; subst h; exact ⟨h2, h1⟩
    · simp [Forest.get?, hc] at h; exact ih h3 h

theorem TreeInv.getD {H : Hier} {f : Forest} (k : Ty) (hf : TreeInv H f) :
    TreeInv H ((f.get? k).getD .nil) ∧ ∀ x ∈ ((f.get? k).getD .nil).roots, H.sub x k = true := by
  cases h : f.get? k with
  | none => simp [TreeInv, Forest.roots]
  | some s => simpa using hf.get? h

theorem regFinish_inv {H : Hier} (new : Ty) (r : Forest × Bool) (h : TreeInv H r.1) :
    TreeInv H (regFinish new r) ∧ ∀ x ∈ (regFinish new r).roots, x = new ∨ x ∈ r.1.roots := by
  unfold regFinish
  by_cases hb : r.2 = true
  · simp only [hb, if_true]; exact ⟨h, fun x hx => Or.inr hx⟩
  · simp only [hb]
    by_cases hg : (r.1.get? new).isSome = true
    · simp only [hg, if_true]; exact ⟨h, fun x hx => Or.inr hx⟩
    · simp only [hg]
      refine ⟨h.set trivial (by simp [Forest.roots]), fun x hx => ?_⟩
      exact (Forest.mem_roots_set _ _ _ _).1 hx

/-- the loop of `_register_fuzzy_type` keeps the invariant, and adds at most `new` as a root -/
theorem regLoop_inv (H : Hier) (new : Ty) (snap : Forest) :
    ∀ (cur : Forest) (reg : Bool), TreeInv H snap → TreeInv H cur →
      TreeInv H (regLoop H new snap cur reg).1 ∧
      (∀ x ∈ (regLoop H new snap cur reg).1.roots, x = new ∨ x ∈ cur.roots ∨ x ∈ snap.roots) := by
  induction snap with
  | nil => intro cur reg _ hc; exact ⟨hc, fun x hx => Or.inr (Or.inl hx)⟩
  | cons c kids rest ihk ihr =>
    intro cur reg hs hc
    obtain ⟨hs1, hs2, hs3⟩ := hs
    unfold regLoop
    by_cases h1 : H.sub c new = true
    · simp only [h1, if_true]
      have hsub := hc.getD c
      have he : TreeInv H (cur.erase c) := hc.erase c
      -- the dict after `_type_tree[new_type][cur_type] = sub_tree` (or the KeyError fallback)
      have key : ∀ cur2, cur2 = (match (cur.erase c).get? new with
            | some newKids => (cur.erase c).set new (newKids.set c ((cur.get? c).getD .nil))
            | none => (cur.erase c).set new (.cons c ((cur.get? c).getD .nil) .nil)) →
          TreeInv H cur2 ∧ ∀ x ∈ cur2.roots, x = new ∨ x ∈ cur.roots := by
        intro cur2 h2
        cases hg : (cur.erase c).get? new with
        | some newKids =>
          rw [hg] at h2; subst h2
          obtain ⟨hn1, hn2⟩ := he.get? hg
          refine ⟨he.set (hn1.set hsub.1 hsub.2) ?_, ?_⟩
          · intro x hx
            rcases (Forest.mem_roots_set _ _ _ _).1 hx with hx | hx
            · subst hx; exact h1
            · exact hn2 x hx
          · intro x hx
            rcases (Forest.mem_roots_set _ _ _ _).1 hx with hx | hx
            · exact Or.inl hx
            · exact Or.inr (Forest.mem_roots_erase hx)
        | none =>
          rw [hg] at h2; subst h2
          refine ⟨he.set ⟨hsub.2, hsub.1, trivial⟩ ?_, ?_⟩
          · intro x hx; simp [Forest.roots] at hx; subst hx; exact h1
          · intro x hx
            rcases (Forest.mem_roots_set _ _ _ _).1 hx with hx | hx
            · exact Or.inl hx
            · exact Or.inr (Forest.mem_roots_erase hx)
      obtain ⟨k1, k2⟩ := key _ rfl
      obtain ⟨r1, r2⟩ := ihr _ true hs3 k1
      refine ⟨r1, fun x hx => ?_⟩
      rcases r2 x hx with hx | hx | hx
      · exact Or.inl hx
      · rcases k2 x hx with hx | hx
        · exact Or.inl hx
        · exact Or.inr (Or.inl hx)
      · exact Or.inr (Or.inr (by simp [Forest.roots, hx]))
    · simp only [h1]
      by_cases h2 : H.sub new c = true
      · simp only [h2, if_true]
        obtain ⟨q1, q2⟩ := ihk kids false hs2 hs2
        -- the recursive call's result
        have kinv : TreeInv H (regFinish new (regLoop H new kids kids false)) ∧
            ∀ x ∈ (regFinish new (regLoop H new kids kids false)).roots, H.sub x c = true := by
          have hroot : ∀ x, x = new ∨ x ∈ kids.roots → H.sub x c = true := by
            intro x hx
            rcases hx with hx | hx
            · subst hx; exact h2
            · exact hs1 x hx
          have q2' : ∀ x ∈ (regLoop H new kids kids false).1.roots, x = new ∨ x ∈ kids.roots := by
            intro x hx
            rcases q2 x hx with h | h | h
            · exact Or.inl h
            · exact Or.inr h
            · exact Or.inr h
          obtain ⟨f1, f2⟩ := regFinish_inv (H := H) new _ q1
          exact ⟨f1, fun x hx => hroot x ((f2 x hx).elim Or.inl (q2' x))⟩
        obtain ⟨k1, k2⟩ := kinv
        have hc2 : TreeInv H (cur.set c _) := hc.set k1 k2
        obtain ⟨r1, r2⟩ := ihr _ true hs3 hc2
        refine ⟨r1, fun x hx => ?_⟩
        rcases r2 x hx with hx | hx | hx
        · exact Or.inl hx
        · rcases (Forest.mem_roots_set _ _ _ _).1 hx with hx | hx
          · exact Or.inr (Or.inr (by simp [Forest.roots, hx]))
          · exact Or.inr (Or.inl hx)
        · exact Or.inr (Or.inr (by simp [Forest.roots, hx]))
      · simp only [h2]
        obtain ⟨r1, r2⟩ := ihr cur reg hs3 hc
        refine ⟨r1, fun x hx => ?_⟩
        rcases r2 x hx with hx | hx | hx
        · exact Or.inl hx
        · exact Or.inr (Or.inl hx)
        · exact Or.inr (Or.inr (by simp [Forest.roots, hx]))

theorem regFuzzy_inv {H : Hier} (new : Ty) {f : Forest} (hf : TreeInv H f) :
    TreeInv H (regFuzzy H new f) ∧ ∀ x ∈ (regFuzzy H new f).roots, x = new ∨ x ∈ f.roots := by
  obtain ⟨q1, q2⟩ := regLoop_inv H new f f false hf hf
  obtain ⟨f1, f2⟩ := regFinish_inv (H := H) new _ q1
  refine ⟨f1, fun x hx => ?_⟩
  rcases f2 x hx with h | h
  · exact Or.inl h
  · rcases q2 x h with h | h | h
    · exact Or.inl h
    · exact Or.inr h
    · exact Or.inr h

/-! ### D. what `_register_fuzzy_type` computes, level by level

The loop runs over a snapshot while mutating the dict.  Under the invariants of a registry
(sibling keys distinct and pairwise unrelated) it runs in one of three modes; in each mode the
result is given explicitly. -/

namespace Forest

def app : Forest → Forest → Forest
  | nil, g => g
  | cons c k r, g => cons c k (app r g)

/-- keep the items whose key satisfies `p` -/
def filterR (p : Ty → Bool) : Forest → Forest
  | nil => nil
  | cons c k r => if p c then cons c k (filterR p r) else filterR p r

def mapKids (f : Ty → Forest → Forest) : Forest → Forest
  | nil => nil
  | cons c k r => cons c (f c k) (mapKids f r)

theorem app_nil (f : Forest) : app f nil = f := by
  induction f with
  | nil => rfl
  | cons c k r _ ih => simp [app, ih]

theorem app_assoc (a b c : Forest) : app (app a b) c = app a (app b c) := by
  induction a with
  | nil => rfl
  | cons x k r _ ih => simp [app, ih]

theorem roots_app (a b : Forest) : roots (app a b) = roots a ++ roots b := by
  induction a with
  | nil => rfl
  | cons x k r _ ih => simp [app, roots, ih]

theorem nodes_app (a b : Forest) : nodes (app a b) = nodes a ++ nodes b := by
  induction a with
  | nil => rfl
  | cons x k r _ ih => simp [app, nodes, ih, List.append_assoc]

theorem get?_app_left {a : Forest} (b : Forest) {k : Ty} (h : k ∈ roots a) :
    (app a b).get? k = a.get? k := by
  induction a with
  | nil => simp [roots] at h
  | cons x kx r _ ih =>
    by_cases hx : x = k
    · subst hx; simp [app, get?]
    · simp [roots] at h
      rcases h with h | h
      · exact absurd h.symm hx
      · simp [app, get?, hx, ih h]

theorem get?_app_right {a : Forest} (b : Forest) {k : Ty} (h : k ∉ roots a) :
    (app a b).get? k = b.get? k := by
  induction a with
  | nil => rfl
  | cons x kx r _ ih =>
    simp [roots] at h
    have hx : ¬ x = k := fun e => h.1 e.symm
    simp [app, get?, hx, ih h.2]

theorem get?_none_of_not_mem {f : Forest} {k : Ty} (h : k ∉ roots f) : f.get? k = none := by
  cases hg : f.get? k with
  | none => rfl
  | some v => exact absurd ((get?_isSome_iff f k).1 (by simp [hg])) h

theorem erase_app_right {a : Forest} (b : Forest) {k : Ty} (h : k ∉ roots a) :
    (app a b).erase k = app a (b.erase k) := by
  induction a with
  | nil => rfl
  | cons x kx r _ ih =>
    simp [roots] at h
    have hx : ¬ x = k := fun e => h.1 e.symm
    simp [app, erase, hx, ih h.2]

theorem set_app_right {a : Forest} (b : Forest) {k : Ty} (v : Forest) (h : k ∉ roots a) :
    (app a b).set k v = app a (b.set k v) := by
  induction a with
  | nil => rfl
  | cons x kx r _ ih =>
    simp [roots] at h
    have hx : ¬ x = k := fun e => h.1 e.symm
    simp [app, set, hx, ih h.2]

theorem set_of_not_mem {f : Forest} {k : Ty} (v : Forest) (h : k ∉ roots f) :
    f.set k v = app f (cons k v nil) := by
  induction f with
  | nil => rfl
  | cons x kx r _ ih =>
    simp [roots] at h
    have hx : ¬ x = k := fun e => h.1 e.symm
    simp [app, set, hx, ih h.2]

theorem erase_of_not_mem {f : Forest} {k : Ty} (h : k ∉ roots f) : f.erase k = f := by
  induction f with
  | nil => rfl
  | cons x kx r _ ih =>
    simp [roots] at h
    have hx : ¬ x = k := fun e => h.1 e.symm
    simp [erase, hx, ih h.2]

theorem roots_filterR (p : Ty → Bool) (f : Forest) : roots (filterR p f) = (roots f).filter p := by
  induction f with
  | nil => rfl
  | cons c k r _ ih =>
    by_cases h : p c = true
    · simp [filterR, roots, h, ih]
    · simp [filterR, roots, h, ih]

theorem roots_mapKids (g : Ty → Forest → Forest) (f : Forest) : roots (mapKids g f) = roots f := by
  induction f with
  | nil => rfl
  | cons c k r _ ih => simp [mapKids, roots, ih]

end Forest

/-- one iteration of the loop (the recursive call of the `elif` branch is `regFuzzy`) -/
theorem regLoop_cons (H : Hier) (new c : Ty) (kids rest cur : Forest) (reg : Bool) :
    regLoop H new (.cons c kids rest) cur reg =
      if H.sub c new then
        regLoop H new rest
          (match (cur.erase c).get? new with
            | some newKids => (cur.erase c).set new (newKids.set c ((cur.get? c).getD .nil))
            | none => (cur.erase c).set new (.cons c ((cur.get? c).getD .nil) .nil)) true
      else if H.sub new c then regLoop H new rest (cur.set c (regFuzzy H new kids)) true
      else regLoop H new rest cur reg := by
  rw [regLoop]; rfl

/-- no item related to `new`: the loop does nothing -/
theorem regLoop_skip (H : Hier) (new : Ty) (snap : Forest) :
    ∀ cur reg, (∀ c ∈ snap.roots, H.sub c new = false ∧ H.sub new c = false) →
      regLoop H new snap cur reg = (cur, reg) := by
  induction snap with
  | nil => intro cur reg _; rfl
  | cons c kids rest _ ihr =>
    intro cur reg h
    have hc := h c (by simp [Forest.roots])
    rw [regLoop_cons]; simp only [hc.1, hc.2]
    exact ihr cur reg (fun x hx => h x (by simp [Forest.roots, hx]))

/-- the same with an unrelated prefix in front of the snapshot -/
theorem regLoop_skip_prefix (H : Hier) (new : Ty) (pre snap : Forest) :
    ∀ cur reg, (∀ c ∈ pre.roots, H.sub c new = false ∧ H.sub new c = false) →
      regLoop H new (pre.app snap) cur reg = regLoop H new snap cur reg := by
  induction pre with
  | nil => intro cur reg _; rfl
  | cons c kids rest _ ihr =>
    intro cur reg h
    have hc := h c (by simp [Forest.roots])
    simp only [Forest.app]
    rw [regLoop_cons]; simp only [hc.1, hc.2]
    exact ihr cur reg (fun x hx => h x (by simp [Forest.roots, hx]))

/-- **mode P** — no item is a subtype of `new`: only the recursive `elif` branch fires, each
    matching item has its subtree replaced by the recursive result, in place -/
theorem regLoop_modeP (H : Hier) (new : Ty) (snap : Forest) :
    ∀ (pre : Forest) (reg : Bool), (∀ c ∈ snap.roots, H.sub c new = false) → (pre.roots ++ snap.roots).Nodup →
      regLoop H new snap (pre.app snap) reg =
        (pre.app (snap.mapKids (fun c kids => if H.sub new c then regFuzzy H new kids else kids)),
         reg || snap.roots.any (fun c => H.sub new c)) := by
  induction snap with
  | nil => intro pre reg _ _; simp [regLoop, Forest.mapKids, Forest.roots]
  | cons c kids rest _ ihr =>
    intro pre reg h hnd
    have hc := h c (by simp [Forest.roots])
    have hcpre : c ∉ pre.roots := by
      intro hm
      have := (List.nodup_append.1 hnd).2.2 c hm c (by simp [Forest.roots])
      exact this rfl
    have hnd' : ((pre.app (.cons c (if H.sub new c then regFuzzy H new kids else kids) .nil)).roots
        ++ rest.roots).Nodup := by
      simpa [Forest.roots_app, Forest.roots, List.append_assoc] using hnd
    have hrest : ∀ x ∈ rest.roots, H.sub x new = false := fun x hx => h x (by simp [Forest.roots, hx])
    rw [regLoop_cons]; simp only [hc]
    by_cases h2 : H.sub new c = true
    · simp only [h2, if_true]
      rw [Forest.set_app_right _ _ hcpre]
      simp only [Forest.set, beq_self_eq_true, if_true]
      have := ihr (pre.app (.cons c (regFuzzy H new kids) .nil)) true hrest (by simpa [h2] using hnd')
      rw [Forest.app_assoc] at this
      simp only [Forest.app] at this
      rw [this]
      simp [Forest.mapKids, Forest.roots, h2, Forest.app_assoc, Forest.app]
    · simp only [h2]
      have h2' : H.sub new c = false := by simpa using h2
      have := ihr (pre.app (.cons c kids .nil)) reg hrest (by simpa [h2'] using hnd')
      rw [Forest.app_assoc] at this
      simp only [Forest.app] at this
      simp only [Bool.false_eq_true, if_false]
      rw [this]
      simp [Forest.mapKids, Forest.roots, h2', Forest.app_assoc, Forest.app]

end Glom.C13
