import Glom.Spec.C13
/-
  Helper lemmas for C13 (core Lean only).
    A. insertion-ordered dicts            B. forests as dicts
    C. the tree invariant and `_register_fuzzy_type`
    D. which types a tree contains after `_register_fuzzy_type`
    E. `_get_closest_type`                F. a registered root type (`object`)
    G. `register` / `register_op` seen per op      H. registry invariants along histories
-/
namespace Glom.C13

/-! ### A. insertion-ordered dicts -/

section od
variable {α β : Type} [BEq α] [LawfulBEq α]

theorem odGet_odSet_same (k : α) (v : β) (m : List (α × β)) : odGet k (odSet k v m) = some v := by
  induction m with
  | nil => simp [odSet, odGet]
  | cons p r ih =>
    obtain ⟨k', v'⟩ := p
    by_cases h : k' = k
    · subst h; simp [odSet, odGet]
    · simp [odSet, odGet, h, ih]

theorem odGet_odSet_ne {k k' : α} (v : β) (m : List (α × β)) (h : k' ≠ k) :
    odGet k' (odSet k v m) = odGet k' m := by
  induction m with
  | nil => simp [odSet, odGet]; intro h'; exact absurd h'.symm h
  | cons p r ih =>
    obtain ⟨k'', v''⟩ := p
    by_cases h2 : k'' = k
    · subst h2
      have : ¬ k'' = k' := fun e => h e.symm
      simp [odSet, odGet, this]
    · by_cases h3 : k'' = k'
      · subst h3; simp [odSet, odGet, h2]
      · simp [odSet, odGet, h2, h3, ih]

theorem odGet_odSet (k k' : α) (v : β) (m : List (α × β)) :
    odGet k' (odSet k v m) = if k' == k then some v else odGet k' m := by
  by_cases h : k' = k
  · subst h; simp [odGet_odSet_same]
  · rw [odGet_odSet_ne v m h]; simp [h]

theorem odGet_some_mem {k : α} {v : β} {m : List (α × β)} (h : odGet k m = some v) : (k, v) ∈ m := by
  induction m with
  | nil => simp [odGet] at h
  | cons p r ih =>
    obtain ⟨k', v'⟩ := p
    by_cases hk : k' = k
    · subst hk; simp [odGet] at h; subst h; simp
    · simp [odGet, hk] at h; simp [ih h]

theorem odSet_keys (k : α) (v : β) (m : List (α × β)) (x : α) :
    x ∈ (odSet k v m).map (·.1) ↔ x = k ∨ x ∈ m.map (·.1) := by
  induction m with
  | nil => simp [odSet]
  | cons p r ih =>
    obtain ⟨k', v'⟩ := p
    by_cases hk : k' = k
    · subst hk; simp [odSet]
    · simp only [odSet, beq_iff_eq, hk, if_false, List.map_cons, List.mem_cons, ih]
      constructor
      · rintro (h | h | h) <;> simp [h]
      · rintro (h | h | h) <;> simp [h]

theorem odGet_isSome_iff (k : α) (m : List (α × β)) : (odGet k m).isSome ↔ k ∈ m.map (·.1) := by
  induction m with
  | nil => simp [odGet]
  | cons p r ih =>
    obtain ⟨k', v'⟩ := p
    by_cases hk : k' = k
    · subst hk; simp [odGet]
    · simp [odGet, hk, ih]; intro h; exact absurd h.symm hk

end od

/-! ### B. forests as dicts -/

namespace Forest

theorem get?_set_same (f : Forest) (k : Ty) (v : Forest) : (f.set k v).get? k = some v := by
  induction f with
  | nil => simp [set, get?]
  | cons c kids rest _ ih =>
    by_cases h : c = k
    · subst h; simp [set, get?]
    · simp [set, get?, h, ih]

theorem get?_set_ne (f : Forest) {k k' : Ty} (v : Forest) (h : k' ≠ k) :
    (f.set k v).get? k' = f.get? k' := by
  induction f with
  | nil => simp [set, get?]; intro e; exact absurd e.symm h
  | cons c kids rest _ ih =>
    by_cases h2 : c = k
    · subst h2
      have : ¬ c = k' := fun e => h e.symm
      simp [set, get?, this]
    · by_cases h3 : c = k'
      · subst h3; simp [set, get?, h2]
      · simp [set, get?, h2, h3, ih]

theorem get?_erase_ne (f : Forest) {k k' : Ty} (h : k' ≠ k) : (f.erase k).get? k' = f.get? k' := by
  induction f with
  | nil => simp [erase, get?]
  | cons c kids rest _ ih =>
    by_cases h2 : c = k
    · subst h2
      have : ¬ c = k' := fun e => h e.symm
      simp [erase, get?, this]
    · by_cases h3 : c = k'
      · subst h3; simp [erase, get?, h2]
      · simp [erase, get?, h2, h3, ih]

theorem mem_roots_set (f : Forest) (k : Ty) (v : Forest) (x : Ty) :
    x ∈ roots (f.set k v) ↔ x = k ∨ x ∈ roots f := by
  induction f with
  | nil => simp [set, roots]
  | cons c kids rest _ ih =>
    by_cases h : c = k
    · subst h; simp [set, roots]
    · simp only [set, beq_iff_eq, h, if_false, roots, List.mem_cons, ih]
      constructor
      · rintro (h | h | h) <;> simp [h]
      · rintro (h | h | h) <;> simp [h]

theorem mem_roots_erase {f : Forest} {k x : Ty} (h : x ∈ roots (f.erase k)) : x ∈ roots f := by
  induction f with
  | nil => simp [erase, roots] at h
  | cons c kids rest _ ih =>
    by_cases hc : c = k
    · subst hc; simp [erase, roots] at h; simp [roots, h]
    · simp only [erase, beq_iff_eq, hc, if_false, roots, List.mem_cons] at h
      rcases h with h | h
      · simp [roots, h]
      · simp [roots, ih h]

theorem get?_isSome_iff (f : Forest) (k : Ty) : (f.get? k).isSome ↔ k ∈ roots f := by
  induction f with
  | nil => simp [get?, roots]
  | cons c kids rest _ ih =>
    by_cases hc : c = k
    · subst hc; simp [get?, roots]
    · simp [get?, roots, hc, ih]; intro h; exact absurd h.symm hc

/-- soundness of `set` on the node set -/
theorem mem_nodes_set {f : Forest} {k : Ty} {v : Forest} {x : Ty} (h : x ∈ nodes (f.set k v)) :
    x = k ∨ x ∈ nodes v ∨ x ∈ nodes f := by
  induction f with
  | nil => simp [set, nodes] at h; rcases h with h | h <;> simp [h]
  | cons c kids rest _ ih =>
    by_cases hc : c = k
    · subst hc
      simp only [set, beq_self_eq_true, if_true, nodes, List.mem_cons, List.mem_append] at h
      rcases h with h | h | h
      · simp [h]
      · simp [h]
      · simp [nodes, h]
    · simp only [set, beq_iff_eq, hc, if_false, nodes, List.mem_cons, List.mem_append] at h
      rcases h with h | h | h
      · simp [nodes, h]
      · simp [nodes, h]
      · rcases ih h with h | h | h <;> simp [nodes, h]

theorem mem_nodes_set_key (f : Forest) (k : Ty) (v : Forest) : k ∈ nodes (f.set k v) := by
  induction f with
  | nil => simp [set, nodes]
  | cons c kids rest _ ih =>
    by_cases hc : c = k
    · subst hc; simp [set, nodes]
    · simp [set, nodes, hc, ih]

theorem mem_nodes_set_val (f : Forest) (k : Ty) (v : Forest) {x : Ty} (h : x ∈ nodes v) :
    x ∈ nodes (f.set k v) := by
  induction f with
  | nil => simp [set, nodes, h]
  | cons c kids rest _ ih =>
    by_cases hc : c = k
    · subst hc; simp [set, nodes, h]
    · simp [set, nodes, hc, ih]

/-- what `set` can lose: only nodes of the value it replaces -/
theorem mem_nodes_set_of_mem {f : Forest} (k : Ty) (v : Forest) {x : Ty} (h : x ∈ nodes f) :
    x ∈ nodes (f.set k v) ∨ (∃ old, f.get? k = some old ∧ x ∈ nodes old) := by
  induction f with
  | nil => simp [nodes] at h
  | cons c kids rest _ ih =>
    by_cases hc : c = k
    · subst hc
      simp only [nodes, List.mem_cons, List.mem_append] at h
      rcases h with h | h | h
      · left; simp [set, nodes, h]
      · right; exact ⟨kids, by simp [get?], h⟩
      · left; simp [set, nodes, h]
    · simp only [nodes, List.mem_cons, List.mem_append] at h
      rcases h with h | h | h
      · left; simp [set, nodes, hc, h]
      · left; simp [set, nodes, hc, h]
      · rcases ih h with h | ⟨old, ho, hx⟩
        · left; simp [set, nodes, hc, h]
        · right; exact ⟨old, by simp [get?, hc, ho], hx⟩

theorem mem_nodes_erase {f : Forest} {k x : Ty} (h : x ∈ nodes (f.erase k)) : x ∈ nodes f := by
  induction f with
  | nil => simp [erase, nodes] at h
  | cons c kids rest _ ih =>
    by_cases hc : c = k
    · subst hc; simp [erase] at h; simp [nodes, h]
    · simp only [erase, beq_iff_eq, hc, if_false, nodes, List.mem_cons, List.mem_append] at h
      rcases h with h | h | h
      · simp [nodes, h]
      · simp [nodes, h]
      · simp [nodes, ih h]

theorem mem_nodes_erase_of_mem {f : Forest} (k : Ty) {x : Ty} (h : x ∈ nodes f) :
    x ∈ nodes (f.erase k) ∨ x = k ∨ (∃ old, f.get? k = some old ∧ x ∈ nodes old) := by
  induction f with
  | nil => simp [nodes] at h
  | cons c kids rest _ ih =>
    by_cases hc : c = k
    · subst hc
      simp only [nodes, List.mem_cons, List.mem_append] at h
      rcases h with h | h | h
      · right; left; exact h
      · right; right; exact ⟨kids, by simp [get?], h⟩
      · left; simp [erase, h]
    · simp only [nodes, List.mem_cons, List.mem_append] at h
      rcases h with h | h | h
      · left; simp [erase, nodes, hc, h]
      · left; simp [erase, nodes, hc, h]
      · rcases ih h with h | h | ⟨old, ho, hx⟩
        · left; simp [erase, nodes, hc, h]
        · right; left; exact h
        · right; right; exact ⟨old, by simp [get?, hc, ho], hx⟩

theorem mem_nodes_of_get? {f : Forest} {k : Ty} {sub : Forest} (h : f.get? k = some sub) {x : Ty}
    (hx : x ∈ nodes sub) : x ∈ nodes f := by
  induction f with
  | nil => simp [get?] at h
  | cons c kids rest _ ih =>
    by_cases hc : c = k
    · subst hc; simp [get?] at h; subst h; simp [nodes, hx]
    · simp [get?, hc] at h; simp [nodes, ih h]

theorem roots_subset_nodes {f : Forest} {x : Ty} (h : x ∈ roots f) : x ∈ nodes f := by
  induction f with
  | nil => simp [roots] at h
  | cons c kids rest _ ih =>
    simp only [roots, List.mem_cons] at h
    rcases h with h | h
    · simp [nodes, h]
    · simp [nodes, ih h]

end Forest

/-! ### C. the tree invariant -/

/-- "a key in the mapping is a valid parent type of all its children" (docstring of
    `_register_fuzzy_type`) -/
def TreeInv (H : Hier) : Forest → Prop
  | .nil => True
  | .cons c kids rest => (∀ x ∈ kids.roots, H.sub x c = true) ∧ TreeInv H kids ∧ TreeInv H rest

theorem TreeInv.set {H : Hier} {f v : Forest} {k : Ty} (hf : TreeInv H f) (hv : TreeInv H v)
    (hr : ∀ x ∈ v.roots, H.sub x k = true) : TreeInv H (f.set k v) := by
  induction f with
  | nil => exact ⟨hr, hv, trivial⟩
  | cons c kids rest _ ih =>
    obtain ⟨h1, h2, h3⟩ := hf
    by_cases hc : c = k
    · subst hc; simp only [Forest.set, beq_self_eq_true, if_true]; exact ⟨hr, hv, h3⟩
    · simp only [Forest.set, beq_iff_eq, hc, if_false]; exact ⟨h1, h2, ih h3⟩

theorem TreeInv.erase {H : Hier} {f : Forest} (k : Ty) (hf : TreeInv H f) : TreeInv H (f.erase k) := by
  induction f with
  | nil => trivial
  | cons c kids rest _ ih =>
    obtain ⟨h1, h2, h3⟩ := hf
    by_cases hc : c = k
    · subst hc; simp only [Forest.erase, beq_self_eq_true, if_true]; exact h3
    · simp only [Forest.erase, beq_iff_eq, hc, if_false]; exact ⟨h1, h2, ih h3⟩

theorem TreeInv.get? {H : Hier} {f s : Forest} {k : Ty} (hf : TreeInv H f) (h : f.get? k = some s) :
    TreeInv H s ∧ ∀ x ∈ s.roots, H.sub x k = true := by
  induction f with
  | nil => simp [Forest.get?] at h
  | cons c kids rest _ ih =>
    obtain ⟨h1, h2, h3⟩ := hf
    by_cases hc : c = k
    · subst hc; simp [Forest.get?] at h; subst h; exact ⟨h2, h1⟩
    · simp [Forest.get?, hc] at h; exact ih h3 h

theorem TreeInv.getD {H : Hier} {f : Forest} (k : Ty) (hf : TreeInv H f) :
    TreeInv H ((f.get? k).getD .nil) ∧ ∀ x ∈ ((f.get? k).getD .nil).roots, H.sub x k = true := by
  cases h : f.get? k with
  | none => simp [TreeInv, Forest.roots]
  | some s => simpa using hf.get? h

theorem regFinish_inv {H : Hier} (new : Ty) (r : Forest × Bool) (h : TreeInv H r.1) :
    TreeInv H (regFinish new r) ∧ ∀ x ∈ (regFinish new r).roots, x = new ∨ x ∈ r.1.roots := by
  unfold regFinish
  by_cases hb : r.2 = true
  · simp only [hb, if_true]; exact ⟨h, fun x hx => Or.inr hx⟩
  · simp only [hb]
    by_cases hg : (r.1.get? new).isSome = true
    · simp only [hg, if_true]; exact ⟨h, fun x hx => Or.inr hx⟩
    · simp only [hg]
      refine ⟨h.set trivial (by simp [Forest.roots]), fun x hx => ?_⟩
      exact (Forest.mem_roots_set _ _ _ _).1 hx

/-- the loop of `_register_fuzzy_type` keeps the invariant, and adds at most `new` as a root -/
theorem regLoop_inv (H : Hier) (new : Ty) (snap : Forest) :
    ∀ (cur : Forest) (reg : Bool), TreeInv H snap → TreeInv H cur →
      TreeInv H (regLoop H new snap cur reg).1 ∧
      (∀ x ∈ (regLoop H new snap cur reg).1.roots, x = new ∨ x ∈ cur.roots ∨ x ∈ snap.roots) := by
  induction snap with
  | nil => intro cur reg _ hc; exact ⟨hc, fun x hx => Or.inr (Or.inl hx)⟩
  | cons c kids rest ihk ihr =>
    intro cur reg hs hc
    obtain ⟨hs1, hs2, hs3⟩ := hs
    unfold regLoop
    by_cases h0 : (c == new) = true
    · -- re-registration: the item moves to the end with its subtree
      simp only [h0, if_true]
      have hcn : c = new := by simpa using h0
      have hsub := hc.getD c
      have he : TreeInv H (cur.erase c) := hc.erase c
      have k1 : TreeInv H ((cur.erase c).set new ((cur.get? c).getD .nil)) :=
        he.set hsub.1 (fun x hx => hcn ▸ hsub.2 x hx)
      obtain ⟨r1, r2⟩ := ihr _ true hs3 k1
      refine ⟨r1, fun x hx => ?_⟩
      rcases r2 x hx with hx | hx | hx
      · exact Or.inl hx
      · rcases (Forest.mem_roots_set _ _ _ _).1 hx with hx | hx
        · exact Or.inl hx
        · exact Or.inr (Or.inl (Forest.mem_roots_erase hx))
      · exact Or.inr (Or.inr (by simp [Forest.roots, hx]))
    simp only [h0, Bool.false_eq_true, if_false]
    by_cases h1 : H.sub c new = true
    · simp only [h1, if_true]
      have hsub := hc.getD c
      have he : TreeInv H (cur.erase c) := hc.erase c
      -- the dict after `_type_tree[new_type][cur_type] = sub_tree` (or the KeyError fallback)
      have key : ∀ cur2, cur2 = (match (cur.erase c).get? new with
            | some newKids => (cur.erase c).set new (newKids.set c ((cur.get? c).getD .nil))
            | none => (cur.erase c).set new (.cons c ((cur.get? c).getD .nil) .nil)) →
          TreeInv H cur2 ∧ ∀ x ∈ cur2.roots, x = new ∨ x ∈ cur.roots := by
        intro cur2 h2
        cases hg : (cur.erase c).get? new with
        | some newKids =>
          rw [hg] at h2; subst h2
          obtain ⟨hn1, hn2⟩ := he.get? hg
          refine ⟨he.set (hn1.set hsub.1 hsub.2) ?_, ?_⟩
          · intro x hx
            rcases (Forest.mem_roots_set _ _ _ _).1 hx with hx | hx
            · subst hx; exact h1
            · exact hn2 x hx
          · intro x hx
            rcases (Forest.mem_roots_set _ _ _ _).1 hx with hx | hx
            · exact Or.inl hx
            · exact Or.inr (Forest.mem_roots_erase hx)
        | none =>
          rw [hg] at h2; subst h2
          refine ⟨he.set ⟨hsub.2, hsub.1, trivial⟩ ?_, ?_⟩
          · intro x hx; simp [Forest.roots] at hx; subst hx; exact h1
          · intro x hx
            rcases (Forest.mem_roots_set _ _ _ _).1 hx with hx | hx
            · exact Or.inl hx
            · exact Or.inr (Forest.mem_roots_erase hx)
      obtain ⟨k1, k2⟩ := key _ rfl
      obtain ⟨r1, r2⟩ := ihr _ true hs3 k1
      refine ⟨r1, fun x hx => ?_⟩
      rcases r2 x hx with hx | hx | hx
      · exact Or.inl hx
      · rcases k2 x hx with hx | hx
        · exact Or.inl hx
        · exact Or.inr (Or.inl hx)
      · exact Or.inr (Or.inr (by simp [Forest.roots, hx]))
    · simp only [h1]
      by_cases h2 : H.sub new c = true
      · simp only [h2, if_true]
        obtain ⟨q1, q2⟩ := ihk kids false hs2 hs2
        -- the recursive call's result
        have kinv : TreeInv H (regFinish new (regLoop H new kids kids false)) ∧
            ∀ x ∈ (regFinish new (regLoop H new kids kids false)).roots, H.sub x c = true := by
          have hroot : ∀ x, x = new ∨ x ∈ kids.roots → H.sub x c = true := by
            intro x hx
            rcases hx with hx | hx
            · subst hx; exact h2
            · exact hs1 x hx
          have q2' : ∀ x ∈ (regLoop H new kids kids false).1.roots, x = new ∨ x ∈ kids.roots := by
            intro x hx
            rcases q2 x hx with h | h | h
            · exact Or.inl h
            · exact Or.inr h
            · exact Or.inr h
          obtain ⟨f1, f2⟩ := regFinish_inv (H := H) new _ q1
          exact ⟨f1, fun x hx => hroot x ((f2 x hx).elim Or.inl (q2' x))⟩
        obtain ⟨k1, k2⟩ := kinv
        have hc2 : TreeInv H (cur.set c _) := hc.set k1 k2
        obtain ⟨r1, r2⟩ := ihr _ true hs3 hc2
        refine ⟨r1, fun x hx => ?_⟩
        rcases r2 x hx with hx | hx | hx
        · exact Or.inl hx
        · rcases (Forest.mem_roots_set _ _ _ _).1 hx with hx | hx
          · exact Or.inr (Or.inr (by simp [Forest.roots, hx]))
          · exact Or.inr (Or.inl hx)
        · exact Or.inr (Or.inr (by simp [Forest.roots, hx]))
      · simp only [h2]
        obtain ⟨r1, r2⟩ := ihr cur reg hs3 hc
        refine ⟨r1, fun x hx => ?_⟩
        rcases r2 x hx with hx | hx | hx
        · exact Or.inl hx
        · exact Or.inr (Or.inl hx)
        · exact Or.inr (Or.inr (by simp [Forest.roots, hx]))

theorem regFuzzy_inv {H : Hier} (new : Ty) {f : Forest} (hf : TreeInv H f) :
    TreeInv H (regFuzzy H new f) ∧ ∀ x ∈ (regFuzzy H new f).roots, x = new ∨ x ∈ f.roots := by
  obtain ⟨q1, q2⟩ := regLoop_inv H new f f false hf hf
  obtain ⟨f1, f2⟩ := regFinish_inv (H := H) new _ q1
  refine ⟨f1, fun x hx => ?_⟩
  rcases f2 x hx with h | h
  · exact Or.inl h
  · rcases q2 x h with h | h | h
    · exact Or.inl h
    · exact Or.inr h
    · exact Or.inr h

/-! ### D. what `_register_fuzzy_type` computes, level by level

The loop runs over a snapshot while mutating the dict.  Under the invariants of a registry
(sibling keys distinct and pairwise unrelated) it runs in one of three modes; in each mode the
result is given explicitly. -/

namespace Forest

def app : Forest → Forest → Forest
  | nil, g => g
  | cons c k r, g => cons c k (app r g)

/-- keep the items whose key satisfies `p` -/
def filterR (p : Ty → Bool) : Forest → Forest
  | nil => nil
  | cons c k r => if p c then cons c k (filterR p r) else filterR p r

def mapKids (f : Ty → Forest → Forest) : Forest → Forest
  | nil => nil
  | cons c k r => cons c (f c k) (mapKids f r)

theorem app_nil (f : Forest) : app f nil = f := by
  induction f with
  | nil => rfl
  | cons c k r _ ih => simp [app, ih]

theorem app_assoc (a b c : Forest) : app (app a b) c = app a (app b c) := by
  induction a with
  | nil => rfl
  | cons x k r _ ih => simp [app, ih]

theorem roots_app (a b : Forest) : roots (app a b) = roots a ++ roots b := by
  induction a with
  | nil => rfl
  | cons x k r _ ih => simp [app, roots, ih]

theorem nodes_app (a b : Forest) : nodes (app a b) = nodes a ++ nodes b := by
  induction a with
  | nil => rfl
  | cons x k r _ ih => simp [app, nodes, ih, List.append_assoc]

theorem get?_app_left {a : Forest} (b : Forest) {k : Ty} (h : k ∈ roots a) :
    (app a b).get? k = a.get? k := by
  induction a with
  | nil => simp [roots] at h
  | cons x kx r _ ih =>
    by_cases hx : x = k
    · subst hx; simp [app, get?]
    · simp [roots] at h
      rcases h with h | h
      · exact absurd h.symm hx
      · simp [app, get?, hx, ih h]

theorem get?_app_right {a : Forest} (b : Forest) {k : Ty} (h : k ∉ roots a) :
    (app a b).get? k = b.get? k := by
  induction a with
  | nil => rfl
  | cons x kx r _ ih =>
    simp [roots] at h
    have hx : ¬ x = k := fun e => h.1 e.symm
    simp [app, get?, hx, ih h.2]

theorem get?_none_of_not_mem {f : Forest} {k : Ty} (h : k ∉ roots f) : f.get? k = none := by
  cases hg : f.get? k with
  | none => rfl
  | some v => exact absurd ((get?_isSome_iff f k).1 (by simp [hg])) h

theorem erase_app_right {a : Forest} (b : Forest) {k : Ty} (h : k ∉ roots a) :
    (app a b).erase k = app a (b.erase k) := by
  induction a with
  | nil => rfl
  | cons x kx r _ ih =>
    simp [roots] at h
    have hx : ¬ x = k := fun e => h.1 e.symm
    simp [app, erase, hx, ih h.2]

theorem set_app_right {a : Forest} (b : Forest) {k : Ty} (v : Forest) (h : k ∉ roots a) :
    (app a b).set k v = app a (b.set k v) := by
  induction a with
  | nil => rfl
  | cons x kx r _ ih =>
    simp [roots] at h
    have hx : ¬ x = k := fun e => h.1 e.symm
    simp [app, set, hx, ih h.2]

theorem set_of_not_mem {f : Forest} {k : Ty} (v : Forest) (h : k ∉ roots f) :
    f.set k v = app f (cons k v nil) := by
  induction f with
  | nil => rfl
  | cons x kx r _ ih =>
    simp [roots] at h
    have hx : ¬ x = k := fun e => h.1 e.symm
    simp [app, set, hx, ih h.2]

theorem erase_of_not_mem {f : Forest} {k : Ty} (h : k ∉ roots f) : f.erase k = f := by
  induction f with
  | nil => rfl
  | cons x kx r _ ih =>
    simp [roots] at h
    have hx : ¬ x = k := fun e => h.1 e.symm
    simp [erase, hx, ih h.2]

theorem roots_filterR (p : Ty → Bool) (f : Forest) : roots (filterR p f) = (roots f).filter p := by
  induction f with
  | nil => rfl
  | cons c k r _ ih =>
    by_cases h : p c = true
    · simp [filterR, roots, h, ih]
    · simp [filterR, roots, h, ih]

theorem roots_mapKids (g : Ty → Forest → Forest) (f : Forest) : roots (mapKids g f) = roots f := by
  induction f with
  | nil => rfl
  | cons c k r _ ih => simp [mapKids, roots, ih]

end Forest

/-- one iteration of the loop (the recursive call of the `elif` branch is `regFuzzy`) -/
theorem regLoop_cons (H : Hier) (new c : Ty) (kids rest cur : Forest) (reg : Bool) :
    regLoop H new (.cons c kids rest) cur reg =
      if c == new then regLoop H new rest ((cur.erase c).set new ((cur.get? c).getD .nil)) true
      else if H.sub c new then
        regLoop H new rest
          (match (cur.erase c).get? new with
            | some newKids => (cur.erase c).set new (newKids.set c ((cur.get? c).getD .nil))
            | none => (cur.erase c).set new (.cons c ((cur.get? c).getD .nil) .nil)) true
      else if H.sub new c then regLoop H new rest (cur.set c (regFuzzy H new kids)) true
      else regLoop H new rest cur reg := by
  rw [regLoop]; rfl

/-- no item related to `new`: the loop does nothing -/
theorem regLoop_skip (H : Hier) (new : Ty) (snap : Forest) :
    ∀ cur reg, (∀ c ∈ snap.roots, H.sub c new = false ∧ H.sub new c = false) → new ∉ snap.roots →
      regLoop H new snap cur reg = (cur, reg) := by
  induction snap with
  | nil => intro cur reg _ _; rfl
  | cons c kids rest _ ihr =>
    intro cur reg h hn
    have hc := h c (by simp [Forest.roots])
    simp only [Forest.roots, List.mem_cons, not_or] at hn
    have hcn : (c == new) = false := by simpa using fun e : c = new => hn.1 e.symm
    rw [regLoop_cons]; simp only [hcn, hc.1, hc.2]
    exact ihr cur reg (fun x hx => h x (by simp [Forest.roots, hx])) hn.2

/-- the same with an unrelated prefix in front of the snapshot -/
theorem regLoop_skip_prefix (H : Hier) (new : Ty) (pre snap : Forest) :
    ∀ cur reg, (∀ c ∈ pre.roots, H.sub c new = false ∧ H.sub new c = false) → new ∉ pre.roots →
      regLoop H new (pre.app snap) cur reg = regLoop H new snap cur reg := by
  induction pre with
  | nil => intro cur reg _ _; rfl
  | cons c kids rest _ ihr =>
    intro cur reg h hn
    have hc := h c (by simp [Forest.roots])
    simp only [Forest.roots, List.mem_cons, not_or] at hn
    have hcn : (c == new) = false := by simpa using fun e : c = new => hn.1 e.symm
    simp only [Forest.app]
    rw [regLoop_cons]; simp only [hcn, hc.1, hc.2]
    exact ihr cur reg (fun x hx => h x (by simp [Forest.roots, hx])) hn.2

/-- **mode P** — no item is a subtype of `new`: only the recursive `elif` branch fires, each
    matching item has its subtree replaced by the recursive result, in place -/
theorem regLoop_modeP (H : Hier) (new : Ty) (snap : Forest) :
    ∀ (pre : Forest) (reg : Bool), (∀ c ∈ snap.roots, H.sub c new = false) → new ∉ snap.roots →
      (pre.roots ++ snap.roots).Nodup →
      regLoop H new snap (pre.app snap) reg =
        (pre.app (snap.mapKids (fun c kids => if H.sub new c then regFuzzy H new kids else kids)),
         reg || snap.roots.any (fun c => H.sub new c)) := by
  induction snap with
  | nil => intro pre reg _ _ _; simp [regLoop, Forest.mapKids, Forest.roots]
  | cons c kids rest _ ihr =>
    intro pre reg h hnew hnd
    have hc := h c (by simp [Forest.roots])
    simp only [Forest.roots, List.mem_cons, not_or] at hnew
    have hcn : (c == new) = false := by simpa using fun e : c = new => hnew.1 e.symm
    have hcpre : c ∉ pre.roots := by
      intro hm
      have := (List.nodup_append.1 hnd).2.2 c hm c (by simp [Forest.roots])
      exact this rfl
    have hnd' : ((pre.app (.cons c (if H.sub new c then regFuzzy H new kids else kids) .nil)).roots
        ++ rest.roots).Nodup := by
      simpa [Forest.roots_app, Forest.roots, List.append_assoc] using hnd
    have hrest : ∀ x ∈ rest.roots, H.sub x new = false := fun x hx => h x (by simp [Forest.roots, hx])
    rw [regLoop_cons]; simp only [hcn, hc]
    by_cases h2 : H.sub new c = true
    · simp only [h2, if_true]
      rw [Forest.set_app_right _ _ hcpre]
      simp only [Forest.set, beq_self_eq_true, if_true]
      have := ihr (pre.app (.cons c (regFuzzy H new kids) .nil)) true hrest hnew.2 (by simpa [h2] using hnd')
      rw [Forest.app_assoc] at this
      simp only [Forest.app] at this
      rw [this]
      simp [Forest.mapKids, Forest.roots, h2, Forest.app_assoc, Forest.app]
    · simp only [h2]
      have h2' : H.sub new c = false := by simpa using h2
      have := ihr (pre.app (.cons c kids .nil)) reg hrest hnew.2 (by simpa [h2'] using hnd')
      rw [Forest.app_assoc] at this
      simp only [Forest.app] at this
      simp only [Bool.false_eq_true, if_false]
      rw [this]
      simp [Forest.mapKids, Forest.roots, h2', Forest.app_assoc, Forest.app]

/-- the item `new: moved` that mode S builds at the end of the dict (absent until the first move) -/
def tailOf (new : Ty) : Option Forest → Forest
  | none => .nil
  | some m => .cons new m .nil

def ext (mv : Option Forest) (S : Forest) : Option Forest :=
  match S with
  | .nil => mv
  | S => some ((mv.getD .nil).app S)

theorem Forest.set_head (c : Ty) (k v r : Forest) : (Forest.cons c k r).set c v = .cons c v r := by
  simp [Forest.set]

theorem Forest.app_cons_nil (pre : Forest) (c : Ty) (k g : Forest) :
    (pre.app (.cons c k .nil)).app g = pre.app (.cons c k g) := by
  rw [Forest.app_assoc]; rfl

/-- **mode S** — `new` is not a key of this dict and no item is a strict supertype of `new`:
    only the first branch fires; every subtype item is popped and re-attached, in order, under
    one item `new` that is appended at the end -/
theorem regLoop_modeS (H : Hier) (new : Ty) (snap : Forest) :
    ∀ (pre : Forest) (mv : Option Forest) (reg : Bool),
      (∀ c ∈ snap.roots, H.sub c new = true ∨ (H.sub c new = false ∧ H.sub new c = false)) →
      new ∉ pre.roots → new ∉ snap.roots →
      (pre.roots ++ snap.roots ++ (mv.getD .nil).roots).Nodup →
      regLoop H new snap (pre.app (snap.app (tailOf new mv))) reg =
        ((pre.app (snap.filterR (fun c => !H.sub c new))).app
            (tailOf new (ext mv (snap.filterR (fun c => H.sub c new)))),
         reg || snap.roots.any (fun c => H.sub c new)) := by
  induction snap with
  | nil =>
    intro pre mv reg _ _ _ _
    simp [regLoop, Forest.filterR, Forest.roots, Forest.app, Forest.app_nil, ext]
  | cons c kids rest _ ihr =>
    intro pre mv reg h hnp hns hnd
    have hc := h c (by simp [Forest.roots])
    have hrest : ∀ x ∈ rest.roots, H.sub x new = true ∨ (H.sub x new = false ∧ H.sub new x = false) :=
      fun x hx => h x (by simp [Forest.roots, hx])
    simp only [Forest.roots, List.mem_cons, not_or] at hns
    have hnd1 : (pre.roots ++ (c :: rest.roots) ++ (mv.getD .nil).roots).Nodup := by
      simpa [Forest.roots] using hnd
    have hcpre : c ∉ pre.roots := by
      intro hm
      have := List.nodup_append.1 (List.nodup_append.1 hnd1).1
      exact this.2.2 c hm c (by simp) rfl
    have hcrest : c ∉ rest.roots := by
      have := List.nodup_append.1 (List.nodup_append.1 hnd1).1
      exact (List.nodup_cons.1 this.2.1).1
    have hcmv : c ∉ (mv.getD .nil).roots := by
      intro hm
      exact (List.nodup_append.1 hnd1).2.2 c (by simp) c hm rfl
    have hcn : (c == new) = false := by simpa using fun e : c = new => hns.1 e.symm
    rw [regLoop_cons]
    simp only [hcn, Bool.false_eq_true, if_false]
    rcases hc with hc | ⟨hc1, hc2⟩
    · -- first branch: pop `c`, attach it under `new`
      simp only [hc, if_true]
      have hget : (pre.app ((Forest.cons c kids rest).app (tailOf new mv))).get? c = some kids := by
        rw [Forest.get?_app_right _ hcpre]; simp [Forest.app, Forest.get?]
      have herase : (pre.app ((Forest.cons c kids rest).app (tailOf new mv))).erase c =
          pre.app (rest.app (tailOf new mv)) := by
        rw [Forest.erase_app_right _ hcpre]; simp [Forest.app, Forest.erase]
      rw [hget, herase]
      have hnew_pr : new ∉ (pre.app rest).roots := by
        simp [Forest.roots_app, hnp, hns.2]
      have hstep : (match (pre.app (rest.app (tailOf new mv))).get? new with
            | some newKids => (pre.app (rest.app (tailOf new mv))).set new (newKids.set c ((some kids).getD .nil))
            | none => (pre.app (rest.app (tailOf new mv))).set new (.cons c ((some kids).getD .nil) .nil)) =
          pre.app (rest.app (tailOf new (some ((mv.getD .nil).app (.cons c kids .nil))))) := by
        rw [← Forest.app_assoc, Forest.get?_app_right _ hnew_pr]
        cases mv with
        | none =>
          simp only [tailOf, Forest.get?, Option.getD]
          rw [Forest.app_nil, Forest.set_of_not_mem _ hnew_pr]
          simp [Forest.app, Forest.app_assoc]
        | some m =>
          simp only [tailOf, Forest.get?, beq_self_eq_true, if_true, Option.getD]
          rw [Forest.set_app_right _ _ hnew_pr, Forest.set_head]
          have : c ∉ m.roots := by simpa using hcmv
          rw [Forest.set_of_not_mem _ this, Forest.app_assoc]
      rw [hstep]
      have hnd2 : (pre.roots ++ rest.roots ++
          ((some ((mv.getD .nil).app (.cons c kids .nil)) : Option Forest).getD .nil).roots).Nodup := by
        simp only [Option.getD, Forest.roots_app, Forest.roots]
        have := hnd1
        simp only [List.append_assoc, List.cons_append] at this ⊢
        -- move `c` from the middle to the end
        have hp : (pre.roots ++ (c :: (rest.roots ++ (mv.getD .nil).roots))).Perm
            (pre.roots ++ (rest.roots ++ ((mv.getD .nil).roots ++ [c]))) := by
          apply List.Perm.append_left
          have : (c :: (rest.roots ++ (mv.getD .nil).roots)).Perm ((rest.roots ++ (mv.getD .nil).roots) ++ [c]) :=
            (List.perm_append_singleton c _).symm
          simpa [List.append_assoc] using this
        exact (hp.nodup_iff).1 this
      rw [ihr pre _ true hrest hnp hns.2 hnd2]
      simp only [Forest.filterR, hc, Bool.not_true, Bool.false_eq_true, if_false, if_true, Forest.roots,
        List.any_cons, Bool.true_or, Bool.or_true]
      congr 2
      -- the moved items: `(mv ++ [c]) ++ S` = `mv ++ (c :: S)`
      cases hS : rest.filterR (fun c => H.sub c new) with
      | nil => simp [ext, Forest.app_nil, Forest.app_cons_nil]
      | cons x kx rx => simp [ext, Forest.app_cons_nil]
    · -- unrelated item: stays where it is
      simp only [hc1, hc2, Bool.false_eq_true, if_false]
      have hmove : pre.app ((Forest.cons c kids rest).app (tailOf new mv)) =
          (pre.app (.cons c kids .nil)).app (rest.app (tailOf new mv)) := by
        rw [Forest.app_cons_nil]; rfl
      rw [hmove]
      have hnp' : new ∉ (pre.app (.cons c kids .nil)).roots := by
        simp [Forest.roots_app, Forest.roots, hnp]; exact fun e => hns.1 e
      have hnd2 : ((pre.app (.cons c kids .nil)).roots ++ rest.roots ++ (mv.getD .nil).roots).Nodup := by
        simpa [Forest.roots_app, Forest.roots, List.append_assoc] using hnd1
      rw [ihr _ mv reg hrest hnp' hns.2 hnd2]
      simp [Forest.filterR, hc1, Forest.roots, Forest.app_cons_nil, Forest.app_assoc, Forest.app]

/-- **mode R** — `new` is itself a key of this dict and every other key is unrelated to it
    (re-registration): the item is popped and put back, with its subtree, at the end of the dict -/
theorem regLoop_modeR (H : Hier) (new : Ty) (pre K post : Forest) (reg : Bool)
    (hpre : ∀ c ∈ pre.roots, H.sub c new = false ∧ H.sub new c = false)
    (hpost : ∀ c ∈ post.roots, H.sub c new = false ∧ H.sub new c = false)
    (hnp : new ∉ pre.roots) (hnq : new ∉ post.roots) :
    regLoop H new (pre.app (.cons new K post)) (pre.app (.cons new K post)) reg =
      ((pre.app post).app (.cons new K .nil), true) := by
  rw [regLoop_skip_prefix H new pre _ _ reg hpre hnp, regLoop_cons]
  simp only [beq_self_eq_true, if_true]
  have hget : (pre.app (Forest.cons new K post)).get? new = some K := by
    rw [Forest.get?_app_right _ hnp]; simp [Forest.get?]
  have herase : (pre.app (Forest.cons new K post)).erase new = pre.app post := by
    rw [Forest.erase_app_right _ hnp]; simp [Forest.erase]
  rw [hget, herase]
  simp only [Option.getD]
  rw [Forest.set_of_not_mem _ (by simp [Forest.roots_app, hnp, hnq])]
  exact regLoop_skip H new post _ true hpost hnq

/-! #### the registry's structural invariant: sibling keys distinct and pairwise unrelated -/

def Unrel (H : Hier) (a b : Ty) : Prop :=
  H.sub a b = false ∧ H.sub b a = false

theorem Unrel.symm {H : Hier} {a b : Ty} (h : Unrel H a b) : Unrel H b a := ⟨h.2, h.1⟩

/-- at every level of the tree the keys are distinct and no key is a subclass of a sibling -/
def GoodF (H : Hier) : Forest → Prop
  | .nil => True
  | .cons c kids rest =>
    c ∉ rest.roots ∧ (∀ x ∈ rest.roots, Unrel H c x) ∧ GoodF H kids ∧ GoodF H rest

def Forest.size : Forest → Nat
  | .nil => 0
  | .cons _ k r => 1 + size k + size r

theorem GoodF.nodup {H : Hier} {f : Forest} (h : GoodF H f) : f.roots.Nodup := by
  induction f with
  | nil => simp [Forest.roots]
  | cons c k r _ ih => exact List.nodup_cons.2 ⟨h.1, ih h.2.2.2⟩

theorem GoodF.unrel {H : Hier} {f : Forest} (h : GoodF H f) {a b : Ty} (ha : a ∈ f.roots)
    (hb : b ∈ f.roots) (hab : a ≠ b) : Unrel H a b := by
  induction f with
  | nil => simp [Forest.roots] at ha
  | cons c k r _ ih =>
    simp only [Forest.roots, List.mem_cons] at ha hb
    rcases ha with ha | ha <;> rcases hb with hb | hb
    · exact absurd (ha.trans hb.symm) hab
    · subst ha; exact h.2.1 b hb
    · subst hb; exact (h.2.1 a ha).symm
    · exact ih h.2.2.2 ha hb

theorem GoodF.app {H : Hier} {a b : Forest} (ha : GoodF H a) (hb : GoodF H b)
    (hab : ∀ x ∈ a.roots, ∀ y ∈ b.roots, x ≠ y ∧ Unrel H x y) : GoodF H (a.app b) := by
  induction a with
  | nil => exact hb
  | cons c k r _ ih =>
    have hr := ih ha.2.2.2 (fun x hx y hy => hab x (by simp [Forest.roots, hx]) y hy)
    refine ⟨?_, ?_, ha.2.2.1, hr⟩
    · rw [Forest.roots_app]
      intro hm
      rcases List.mem_append.1 hm with hm | hm
      · exact ha.1 hm
      · exact (hab c (by simp [Forest.roots]) c hm).1 rfl
    · intro x hx
      rw [Forest.roots_app] at hx
      rcases List.mem_append.1 hx with hx | hx
      · exact ha.2.1 x hx
      · exact (hab c (by simp [Forest.roots]) x hx).2

theorem GoodF.of_app {H : Hier} {a b : Forest} (h : GoodF H (a.app b)) :
    GoodF H a ∧ GoodF H b ∧ ∀ x ∈ a.roots, ∀ y ∈ b.roots, x ≠ y ∧ Unrel H x y := by
  induction a with
  | nil => exact ⟨trivial, h, fun x hx => by simp [Forest.roots] at hx⟩
  | cons c k r _ ih =>
    obtain ⟨h1, h2, h3, h4⟩ := h
    obtain ⟨i1, i2, i3⟩ := ih h4
    rw [Forest.roots_app] at h1 h2
    refine ⟨⟨fun hm => h1 (List.mem_append_left _ hm), fun x hx => h2 x (List.mem_append_left _ hx),
      h3, i1⟩, i2, ?_⟩
    intro x hx y hy
    simp only [Forest.roots, List.mem_cons] at hx
    rcases hx with hx | hx
    · subst hx
      exact ⟨fun e => h1 (List.mem_append_right _ (e ▸ hy)), h2 y (List.mem_append_right _ hy)⟩
    · exact i3 x hx y hy

theorem GoodF.filterR {H : Hier} (p : Ty → Bool) {f : Forest} (h : GoodF H f) : GoodF H (f.filterR p) := by
  induction f with
  | nil => trivial
  | cons c k r _ ih =>
    obtain ⟨h1, h2, h3, h4⟩ := h
    by_cases hp : p c = true
    · simp only [Forest.filterR, hp, if_true]
      refine ⟨?_, ?_, h3, ih h4⟩
      · rw [Forest.roots_filterR]; exact fun hm => h1 (List.mem_filter.1 hm).1
      · intro x hx; rw [Forest.roots_filterR] at hx; exact h2 x (List.mem_filter.1 hx).1
    · simp only [Forest.filterR, hp]; exact ih h4

theorem GoodF.mapKids {H : Hier} (g : Ty → Forest → Forest) {f : Forest} (h : GoodF H f)
    (hg : ∀ c k, k.size < f.size → GoodF H k → GoodF H (g c k)) : GoodF H (f.mapKids g) := by
  induction f with
  | nil => trivial
  | cons c k r _ ih =>
    obtain ⟨h1, h2, h3, h4⟩ := h
    refine ⟨by rw [Forest.roots_mapKids]; exact h1, by rw [Forest.roots_mapKids]; exact h2,
      hg c k (by simp [Forest.size]; omega) h3, ih h4 ?_⟩
    intro c' k' hs hk'
    exact hg c' k' (by simp [Forest.size]; omega) hk'

theorem GoodF.get? {H : Hier} {f k : Forest} {c : Ty} (h : GoodF H f) (hg : f.get? c = some k) :
    GoodF H k := by
  induction f with
  | nil => simp [Forest.get?] at hg
  | cons c' k' r _ ih =>
    by_cases hc : c' = c
    · subst hc; simp [Forest.get?] at hg; subst hg; exact h.2.2.1
    · simp [Forest.get?, hc] at hg; exact ih h.2.2.2 hg

theorem Forest.size_get? {f k : Forest} {c : Ty} (hg : f.get? c = some k) : k.size < f.size := by
  induction f with
  | nil => simp [Forest.get?] at hg
  | cons c' k' r _ ih =>
    by_cases hc : c' = c
    · subst hc; simp [Forest.get?] at hg; subst hg; simp [Forest.size]; omega
    · simp [Forest.get?, hc] at hg; have := ih hg; simp [Forest.size]; omega

/-- split a dict at a key -/
theorem Forest.split_at {f : Forest} {c : Ty} (h : c ∈ f.roots) :
    ∃ pre K post : Forest, f = pre.app (Forest.cons c K post) ∧ c ∉ pre.roots := by
  induction f with
  | nil => simp [Forest.roots] at h
  | cons c' k' r _ ih =>
    by_cases hc : c' = c
    · subst hc; exact ⟨Forest.nil, k', r, rfl, by simp [Forest.roots]⟩
    · simp only [Forest.roots, List.mem_cons] at h
      rcases h with h | h
      · exact absurd h.symm hc
      · obtain ⟨pre, K, post, he, hn⟩ := ih h
        refine ⟨Forest.cons c' k' pre, K, post, by simp [Forest.app, he], ?_⟩
        simp [Forest.roots, hn]; exact fun e => hc e.symm

theorem Forest.mem_nodes_filterR (p : Ty → Bool) (f : Forest) (x : Ty) :
    x ∈ f.nodes ↔ x ∈ (f.filterR p).nodes ∨ x ∈ (f.filterR (fun c => !p c)).nodes := by
  induction f with
  | nil => simp [Forest.filterR, Forest.nodes]
  | cons c k r _ ih =>
    by_cases hp : p c = true
    · simp only [Forest.filterR, hp, if_true, Bool.not_true, Bool.false_eq_true, if_false,
        Forest.nodes, List.mem_cons, List.mem_append, ih]
      constructor
      · rintro (h | h | h | h) <;> simp [h]
      · rintro ((h | h | h) | h) <;> simp [h]
    · have hp' : p c = false := by simpa using hp
      simp only [Forest.filterR, hp', Bool.false_eq_true, if_false, Bool.not_false, if_true,
        Forest.nodes, List.mem_cons, List.mem_append, ih]
      constructor
      · rintro (h | h | h | h) <;> simp [h]
      · rintro (h | h | h | h) <;> simp [h]

theorem Forest.mem_nodes_mapKids {H : Hier} (g : Ty → Forest → Forest) (new : Ty) (q : Ty → Prop)
    (f : Forest) (hf : GoodF H f)
    (hg : ∀ c k, k.size < f.size → GoodF H k →
      ∀ x, x ∈ (g c k).nodes ↔ (x = new ∧ q c) ∨ x ∈ k.nodes) (x : Ty) :
    x ∈ (f.mapKids g).nodes ↔ x ∈ f.nodes ∨ (x = new ∧ ∃ c ∈ f.roots, q c) := by
  induction f with
  | nil => simp [Forest.mapKids, Forest.nodes, Forest.roots]
  | cons c k r _ ih =>
    have ih' := ih hf.2.2.2 (fun c' k' hs => hg c' k' (by simp [Forest.size]; omega))
    have hk := hg c k (by simp [Forest.size]; omega) hf.2.2.1 x
    simp only [Forest.mapKids, Forest.nodes, List.mem_cons, List.mem_append, ih', hk, Forest.roots,
      exists_eq_or_imp]
    constructor
    · rintro (h | (h | h) | h | h)
      · simp [h]
      · simp [h]
      · simp [h]
      · simp [h]
      · right; exact ⟨h.1, Or.inr h.2⟩
    · rintro ((h | h | h) | ⟨h1, h2 | h2⟩)
      · simp [h]
      · simp [h]
      · simp [h]
      · right; left; left; exact ⟨h1, h2⟩
      · right; right; right; exact ⟨h1, h2⟩

theorem ext_none_of_ne_nil {S : Forest} (h : S ≠ .nil) : ext none S = some S := by
  cases S with
  | nil => exact absurd rfl h
  | cons c k r => simp [ext, Forest.app]

/-- **`_register_fuzzy_type` on a well-formed tree**: the result is well-formed again, and it
    contains exactly the types it contained before plus the new one (nothing is lost, nothing
    else appears) -/
theorem regFuzzy_good (H : Hier)
    (hT : ∀ a b c, H.sub a b = true → H.sub b c = true → H.sub a c = true) (new : Ty) :
    ∀ (n : Nat) (f : Forest), f.size = n → GoodF H f →
      GoodF H (regFuzzy H new f) ∧ ∀ x, x ∈ (regFuzzy H new f).nodes ↔ x = new ∨ x ∈ f.nodes := by
  intro n
  induction n using Nat.strongRecOn with
  | _ n IH =>
  intro f hsz hf
  unfold regFuzzy
  by_cases hmem : new ∈ f.roots
  · -- `new` is already a key of this dict
    obtain ⟨pre, K, post, he, hnp⟩ := Forest.split_at hmem
    subst he
    obtain ⟨gpre, gmid, gcross⟩ := hf.of_app
    obtain ⟨hnq, hpostU, gK, gpost⟩ := gmid
    have hpre : ∀ c ∈ pre.roots, H.sub c new = false ∧ H.sub new c = false :=
      fun c hc => (gcross c hc new (by simp [Forest.roots])).2
    have hpost : ∀ c ∈ post.roots, H.sub c new = false ∧ H.sub new c = false :=
      fun c hc => (hpostU c hc).symm
    rw [regLoop_modeR H new pre K post false hpre hpost hnp hnq]
    simp only [regFinish, if_true]
    constructor
    · apply GoodF.app
      · exact gpre.app gpost (fun x hx y hy =>
          gcross x hx y (by simp [Forest.roots, hy]))
      · exact ⟨by simp [Forest.roots], by simp [Forest.roots], gK, trivial⟩
      · intro x hx y hy
        simp only [Forest.roots, List.mem_singleton] at hy
        subst hy
        rw [Forest.roots_app] at hx
        rcases List.mem_append.1 hx with hx | hx
        · exact ⟨fun e => hnp (e ▸ hx), hpre x hx⟩
        · exact ⟨fun e => hnq (e ▸ hx), hpost x hx⟩
    · intro x
      simp only [Forest.nodes_app, Forest.nodes, List.mem_append, List.mem_cons, List.append_nil]
      constructor
      · rintro ((h | h) | h | h) <;> simp [h]
      · rintro (h | h | h | h | h) <;> simp [h]
  · by_cases hsub : ∃ s ∈ f.roots, H.sub s new = true
    · -- mode S
      obtain ⟨s0, hs0, hs0n⟩ := hsub
      have hside : ∀ c ∈ f.roots, H.sub c new = true ∨ (H.sub c new = false ∧ H.sub new c = false) := by
        intro c hc
        by_cases h1 : H.sub c new = true
        · exact Or.inl h1
        · right
          refine ⟨by simpa using h1, ?_⟩
          by_cases h2 : H.sub new c = true
          · have hsc : H.sub s0 c = true := hT _ _ _ hs0n h2
            have hne : s0 ≠ c := fun e => h1 (e ▸ hs0n)
            have := (hf.unrel hs0 hc hne).1
            rw [hsc] at this; exact absurd this (by simp)
          · simpa using h2
      have hnd : (Forest.nil.roots ++ f.roots ++ ((none : Option Forest).getD .nil).roots).Nodup := by
        simpa [Forest.roots] using hf.nodup
      have := regLoop_modeS H new f .nil none false hside (by simp [Forest.roots]) hmem hnd
      simp only [Forest.app, tailOf, Forest.app_nil] at this
      rw [this]
      have hany : (f.roots.any fun c => H.sub c new) = true :=
        List.any_eq_true.2 ⟨s0, hs0, hs0n⟩
      have hne : f.filterR (fun c => H.sub c new) ≠ .nil := by
        intro e
        have : s0 ∈ (f.filterR (fun c => H.sub c new)).roots := by
          rw [Forest.roots_filterR]; exact List.mem_filter.2 ⟨hs0, hs0n⟩
        rw [e] at this; simp [Forest.roots] at this
      simp only [regFinish, hany, Bool.false_or, if_true, ext_none_of_ne_nil hne, tailOf]
      constructor
      · apply GoodF.app (hf.filterR _)
        · exact ⟨by simp [Forest.roots], by simp [Forest.roots], hf.filterR _, trivial⟩
        · intro x hx y hy
          simp only [Forest.roots, List.mem_singleton] at hy
          subst hy
          rw [Forest.roots_filterR] at hx
          obtain ⟨hx1, hx2⟩ := List.mem_filter.1 hx
          refine ⟨fun e => hmem (e ▸ hx1), ?_⟩
          rcases hside x hx1 with h | h
          · simp [h] at hx2
          · exact h
      · intro x
        rw [Forest.mem_nodes_filterR (fun c => H.sub c new) f x]
        simp only [Forest.nodes_app, Forest.nodes, List.mem_append, List.mem_cons, List.append_nil]
        constructor
        · rintro (h | h | h) <;> simp [h]
        · rintro (h | h | h) <;> simp [h]
    · -- mode P
      have hno : ∀ c ∈ f.roots, H.sub c new = false := by
        intro c hc
        by_cases h : H.sub c new = true
        · exact absurd ⟨c, hc, h⟩ hsub
        · simpa using h
      have hnd : (Forest.nil.roots ++ f.roots).Nodup := by simpa [Forest.roots] using hf.nodup
      have := regLoop_modeP H new f .nil false hno hmem hnd
      simp only [Forest.app] at this
      rw [this]
      have gmap : GoodF H (f.mapKids fun c kids => if H.sub new c then regFuzzy H new kids else kids) := by
        apply hf.mapKids
        intro c k hs hk
        by_cases h : H.sub new c = true
        · simp only [h, if_true]; exact (IH k.size (by omega) k rfl hk).1
        · simp only [h]; exact hk
      have nmap := Forest.mem_nodes_mapKids (H := H)
        (fun c kids => if H.sub new c then regFuzzy H new kids else kids) new
        (fun c => H.sub new c = true) f hf (by
          intro c k hs hk x
          by_cases h : H.sub new c = true
          · simp only [h, if_true, and_true]; exact (IH k.size (by omega) k rfl hk).2 x
          · simp only [h]; simp)
      by_cases hany : (f.roots.any fun c => H.sub new c) = true
      · simp only [regFinish, hany, Bool.false_or, if_true]
        refine ⟨gmap, fun x => ?_⟩
        rw [nmap x]
        obtain ⟨p, hp, hpn⟩ := List.any_eq_true.1 hany
        constructor
        · rintro (h | h)
          · exact Or.inr h
          · exact Or.inl h.1
        · rintro (h | h)
          · exact Or.inr ⟨h, p, hp, hpn⟩
          · exact Or.inl h
      · have hnone : ((f.mapKids fun c kids => if H.sub new c then regFuzzy H new kids else kids).get? new).isSome
            = false := by
          cases hg : ((f.mapKids fun c kids => if H.sub new c then regFuzzy H new kids else kids).get? new).isSome
          · rfl
          · exact absurd (by rw [← Forest.roots_mapKids]; exact (Forest.get?_isSome_iff _ _).1 hg) hmem
        simp only [regFinish, hany, Bool.false_or, Bool.false_eq_true, if_false, hnone]
        have hnr : new ∉ (f.mapKids fun c kids => if H.sub new c then regFuzzy H new kids else kids).roots := by
          rw [Forest.roots_mapKids]; exact hmem
        rw [Forest.set_of_not_mem _ hnr]
        constructor
        · apply GoodF.app gmap
          · exact ⟨by simp [Forest.roots], by simp [Forest.roots], trivial, trivial⟩
          · intro x hx y hy
            simp only [Forest.roots, List.mem_singleton] at hy
            subst hy
            rw [Forest.roots_mapKids] at hx
            refine ⟨fun e => hmem (e ▸ hx), hno x hx, ?_⟩
            by_cases h : H.sub y x = true
            · exact absurd (List.any_eq_true.2 ⟨x, hx, h⟩) hany
            · simpa using h
        · intro x
          simp only [Forest.nodes_app, Forest.nodes, List.mem_append, List.mem_cons, List.append_nil,
            List.not_mem_nil, or_false, nmap x]
          constructor
          · rintro ((h | h) | h)
            · exact Or.inr h
            · exact Or.inl h.1
            · exact Or.inl h
          · rintro (h | h)
            · exact Or.inr h
            · exact Or.inl (Or.inl h)

/-! ### E. `_get_matching_types` / `_get_closest_type` -/

/-- under the tree invariant every node below a key is a subclass of the key -/
theorem TreeInv.nodes_sub {H : Hier}
    (hT : ∀ a b c, H.sub a b = true → H.sub b c = true → H.sub a c = true) (p : Ty) :
    ∀ f : Forest, TreeInv H f → (∀ r ∈ f.roots, H.sub r p = true) → ∀ x ∈ f.nodes, H.sub x p = true := by
  intro f
  induction f with
  | nil => intro _ _ x hx; simp [Forest.nodes] at hx
  | cons c k r ihk ihr =>
    intro hf hr x hx
    obtain ⟨h1, h2, h3⟩ := hf
    have hc : H.sub c p = true := hr c (by simp [Forest.roots])
    simp only [Forest.nodes, List.mem_cons, List.mem_append] at hx
    rcases hx with hx | hx | hx
    · subst hx; exact hc
    · exact ihk h2 (fun r' hr' => hT _ _ _ (h1 r' hr') hc) x hx
    · exact ihr h3 (fun r' hr' => hr r' (by simp [Forest.roots, hr'])) x hx

theorem TreeInv.kids_sub {H : Hier}
    (hT : ∀ a b c, H.sub a b = true → H.sub b c = true → H.sub a c = true) {c : Ty} {k r : Forest}
    (h : TreeInv H (.cons c k r)) : ∀ x ∈ k.nodes, H.sub x c = true :=
  TreeInv.nodes_sub hT c k h.2.1 h.1

theorem matching_sound (H : Hier) (t : Ty) (f : Forest) :
    ∀ x ∈ matching H t f, x ∈ f.nodes ∧ H.inst t x = true := by
  induction f with
  | nil => intro x hx; simp [matching] at hx
  | cons c k r ihk ihr =>
    intro x hx
    unfold matching at hx
    by_cases hi : H.inst t c = true
    · simp only [hi, if_true, List.mem_append] at hx
      rcases hx with hx | hx
      · cases hm : matching H t k with
        | nil => rw [hm] at hx; simp at hx; subst hx; simp [Forest.nodes, hi]
        | cons a l =>
          rw [hm] at hx
          have := ihk x (by rw [hm]; exact hx)
          exact ⟨by simp [Forest.nodes, this.1], this.2⟩
      · have := ihr x hx
        exact ⟨by simp [Forest.nodes, this.1], this.2⟩
    · simp only [hi] at hx
      have := ihr x hx
      exact ⟨by simp [Forest.nodes, this.1], this.2⟩

/-- every node the object is an instance of is represented among the deepest matches by itself
    or by a subclass of it -/
theorem matching_complete (H : Hier) (hH : SubFacts H) (t : Ty) (f : Forest) :
    TreeInv H f → ∀ d ∈ f.nodes, H.inst t d = true →
      ∃ e ∈ matching H t f, e = d ∨ H.sub e d = true := by
  induction f with
  | nil => intro _ d hd; simp [Forest.nodes] at hd
  | cons c k r ihk ihr =>
    intro hf d hd hi
    have hks := hf.kids_sub hH.sub_trans
    obtain ⟨h1, h2, h3⟩ := hf
    simp only [Forest.nodes, List.mem_cons, List.mem_append] at hd
    unfold matching
    rcases hd with hd | hd | hd
    · subst hd
      simp only [hi, if_true]
      cases hm : matching H t k with
      | nil => exact ⟨d, by simp, Or.inl rfl⟩
      | cons a l =>
        have ha := matching_sound H t k a (by rw [hm]; simp)
        exact ⟨a, by simp, Or.inr (hks a ha.1)⟩
    · have hic : H.inst t c = true := hH.inst_sub t d c hi (hks d hd)
      simp only [hic, if_true]
      obtain ⟨e, he, hed⟩ := ihk h2 d hd hi
      cases hm : matching H t k with
      | nil => rw [hm] at he; simp at he
      | cons a l => exact ⟨e, by rw [hm] at he; simp only [List.mem_append]; exact Or.inl he, hed⟩
    · obtain ⟨e, he, hed⟩ := ihr h3 d hd hi
      by_cases hic : H.inst t c = true
      · simp only [hic, if_true]; exact ⟨e, List.mem_append_right _ he, hed⟩
      · simp only [hic]; exact ⟨e, he, hed⟩

theorem mem_dropSupers (H : Hier) (l : List Ty) (x : Ty) :
    x ∈ dropSupers H l ↔ x ∈ l ∧ ∀ o ∈ l, o ≠ x → H.sub o x = false := by
  unfold dropSupers
  simp only [List.mem_filter, Bool.not_eq_true', List.any_eq_false, Bool.and_eq_true, bne_iff_ne, ne_eq,
    not_and, Bool.not_eq_true]

theorem pickMinAux_spec (H : Hier) (t : Ty) (l : List Ty) :
    ∀ best, (pickMinAux H t best l = best ∨ pickMinAux H t best l ∈ l) ∧
      key H t (pickMinAux H t best l) ≤ key H t best ∧
      ∀ x ∈ l, key H t (pickMinAux H t best l) ≤ key H t x := by
  induction l with
  | nil => intro best; simp [pickMinAux]
  | cons a l ih =>
    intro best
    unfold pickMinAux
    by_cases h : key H t a < key H t best
    · simp only [h, if_true]
      obtain ⟨i1, i2, i3⟩ := ih a
      refine ⟨Or.inr ?_, by omega, ?_⟩
      · rcases i1 with i1 | i1
        · rw [i1]; simp
        · simp [i1]
      · intro x hx
        simp only [List.mem_cons] at hx
        rcases hx with hx | hx
        · subst hx; exact i2
        · exact i3 x hx
    · simp only [h, if_false]
      obtain ⟨i1, i2, i3⟩ := ih best
      refine ⟨?_, i2, ?_⟩
      · rcases i1 with i1 | i1
        · exact Or.inl i1
        · exact Or.inr (by simp [i1])
      · intro x hx
        simp only [List.mem_cons] at hx
        rcases hx with hx | hx
        · subst hx; omega
        · exact i3 x hx

theorem pickMin_some {H : Hier} {t : Ty} {l : List Ty} {c : Ty} (h : pickMin H t l = some c) :
    c ∈ l ∧ ∀ x ∈ l, key H t c ≤ key H t x := by
  cases l with
  | nil => simp [pickMin] at h
  | cons a l =>
    simp only [pickMin, Option.some.injEq] at h
    subst h
    obtain ⟨i1, i2, i3⟩ := pickMinAux_spec H t l a
    refine ⟨?_, ?_⟩
    · rcases i1 with i1 | i1
      · rw [i1]; simp
      · simp [i1]
    · intro x hx
      simp only [List.mem_cons] at hx
      rcases hx with hx | hx
      · subst hx; exact i2
      · exact i3 x hx

theorem pickMin_none {H : Hier} {t : Ty} {l : List Ty} (h : pickMin H t l = none) : l = [] := by
  cases l with
  | nil => rfl
  | cons a l => simp [pickMin] at h

theorem idxOf_cons_ne' {x a : Ty} (l : List Ty) (h : x ≠ a) : (x :: l).idxOf a = l.idxOf a + 1 := by
  have : (x == a) = false := by simpa using h
  rw [List.idxOf_cons, this]; rfl

theorem find?_first {l : List Ty} {p : Ty → Bool} {n : Ty} (h : l.find? p = some n) :
    n ∈ l ∧ p n = true ∧ ∀ c ∈ l, p c = true → l.idxOf n ≤ l.idxOf c := by
  induction l with
  | nil => simp at h
  | cons a l ih =>
    by_cases ha : p a = true
    · simp [List.find?, ha] at h
      subst h
      refine ⟨by simp, ha, fun c _ _ => by simp [List.idxOf_cons_self]⟩
    · have ha' : p a = false := by simpa using ha
      simp only [List.find?, ha'] at h
      obtain ⟨i1, i2, i3⟩ := ih h
      have hna : a ≠ n := fun e => ha (e ▸ i2)
      refine ⟨by simp [i1], i2, ?_⟩
      intro c hc hpc
      simp only [List.mem_cons] at hc
      have hnc : a ≠ c := fun e => ha (e ▸ hpc)
      rcases hc with hc | hc
      · exact absurd hc.symm hnc
      · rw [idxOf_cons_ne' _ hna, idxOf_cons_ne' _ hnc]
        exact Nat.succ_le_succ (i3 c hc hpc)

theorem idxOf_inj {l : List Ty} {a b : Ty} (ha : a ∈ l) (hb : b ∈ l) (h : l.idxOf a = l.idxOf b) :
    a = b := by
  induction l with
  | nil => simp at ha
  | cons x l ih =>
    by_cases hxa : x = a
    · by_cases hxb : x = b
      · exact hxa.symm.trans hxb
      · subst hxa
        rw [List.idxOf_cons_self, idxOf_cons_ne' _ hxb] at h
        omega
    · by_cases hxb : x = b
      · subst hxb
        rw [List.idxOf_cons_self, idxOf_cons_ne' _ hxa] at h
        omega
      · rw [idxOf_cons_ne' _ hxa, idxOf_cons_ne' _ hxb] at h
        simp only [List.mem_cons] at ha hb
        exact ih (ha.resolve_left (fun e => hxa e.symm)) (hb.resolve_left (fun e => hxb e.symm))
          (by omega)

/-- **the deepest matches without their superclasses are exactly the minimal applicable types** -/
theorem dropSupers_matching_iff (H : Hier) (hH : SubFacts H) (t : Ty) (f : Forest) (cover : List Ty)
    (hf : TreeInv H f) (hc : ∀ x, x ∈ cover ↔ x ∈ f.nodes) (c : Ty) :
    c ∈ dropSupers H (matching H t f) ↔ c ∈ minimal H (applicable H cover t) := by
  have happ : ∀ x, x ∈ applicable H cover t ↔ x ∈ f.nodes ∧ H.inst t x = true := by
    intro x; simp [applicable, hc x]
  have hmin : ∀ x, x ∈ minimal H (applicable H cover t) ↔
      x ∈ applicable H cover t ∧ ∀ d ∈ applicable H cover t, d ≠ x → H.sub d x = false := by
    intro x
    simp only [minimal, strictlyBelow, List.mem_filter, Bool.not_eq_true', List.any_eq_false,
      Bool.and_eq_true, bne_iff_ne, ne_eq, not_and, Bool.not_eq_true]
  rw [mem_dropSupers, hmin]
  constructor
  · rintro ⟨hm, hno⟩
    have hs := matching_sound H t f c hm
    refine ⟨(happ c).2 hs, fun d hd hdc => ?_⟩
    obtain ⟨hdn, hdi⟩ := (happ d).1 hd
    obtain ⟨e, he, hed⟩ := matching_complete H hH t f hf d hdn hdi
    by_cases hsub : H.sub d c = true
    · exfalso
      have hec : H.sub e c = true := by
        rcases hed with hed | hed
        · rw [hed]; exact hsub
        · exact hH.sub_trans _ _ _ hed hsub
      have hne : e ≠ c := by
        intro e1
        rcases hed with hed | hed
        · exact hdc (hed.symm.trans e1)
        · rw [e1] at hed
          exact hdc (hH.sub_antisymm _ _ hsub hed)
      have := hno e he hne
      rw [hec] at this; exact absurd this (by simp)
    · simpa using hsub
  · rintro ⟨ha, hno⟩
    obtain ⟨hcn, hci⟩ := (happ c).1 ha
    obtain ⟨e, he, hed⟩ := matching_complete H hH t f hf c hcn hci
    have hec : e = c := by
      rcases hed with hed | hed
      · exact hed
      · by_cases h : e = c
        · exact h
        · have hs := matching_sound H t f e he
          have := hno e ((happ e).2 hs) h
          rw [hed] at this; exact absurd this (by simp)
    subst hec
    refine ⟨he, fun o ho hoc => ?_⟩
    have hs := matching_sound H t f o ho
    exact hno o ((happ o).2 hs) hoc

/-- **`_get_closest_type` returns an allowed type, and `None` only when none is allowed** -/
theorem closest_allowed (H : Hier) (hH : SubFacts H) (t : Ty) (f : Forest) (cover : List Ty)
    (hf : TreeInv H f) (hc : ∀ x, x ∈ cover ↔ x ∈ f.nodes) :
    match closest H t f with
    | none => allowed H cover t = []
    | some c => c ∈ allowed H cover t := by
  have hiff := dropSupers_matching_iff H hH t f cover hf hc
  cases hcl : closest H t f with
  | none =>
    have hnil := pickMin_none hcl
    have hmins : minimal H (applicable H cover t) = [] := by
      cases hm : minimal H (applicable H cover t) with
      | nil => rfl
      | cons a l =>
        have : a ∈ dropSupers H (matching H t f) := (hiff a).2 (by rw [hm]; simp)
        rw [hnil] at this; simp at this
    simp only [allowed, hmins]
    cases firstNominal H t (applicable H cover t) <;> simp
  | some c =>
    obtain ⟨hmem, hkey⟩ := pickMin_some hcl
    have hcmin : c ∈ minimal H (applicable H cover t) := (hiff c).1 hmem
    simp only [allowed]
    cases hfn : firstNominal H t (applicable H cover t) with
    | none => exact hcmin
    | some n =>
      by_cases hn : (minimal H (applicable H cover t)).contains n = true
      · simp only [hn, if_true, List.mem_singleton]
        have hnmin : n ∈ minimal H (applicable H cover t) := by simpa using hn
        have hnd : n ∈ dropSupers H (matching H t f) := (hiff n).2 hnmin
        obtain ⟨hnm, hnp, hfirst⟩ := find?_first hfn
        have hk : key H t c ≤ key H t n := hkey n hnd
        have hlt : (H.mro t).idxOf n < (H.mro t).length := List.idxOf_lt_length_of_mem hnm
        have hcm : c ∈ H.mro t := by
          apply List.idxOf_lt_length_iff.1
          unfold key at hk; omega
        have hcapp : (applicable H cover t).contains c = true := by
          have : c ∈ applicable H cover t := by
            have := (List.mem_filter.1 (show c ∈ (applicable H cover t).filter _ from hcmin)).1
            exact this
          simpa using this
        have := hfirst c hcm hcapp
        exact idxOf_inj hcm hnm (by unfold key at hk; omega)
      · simp only [hn]; exact hcmin

/-! ### G. `register` / `register_op` seen per op -/

theorem mem_insertSet (t : Ty) (c : List Ty) (x : Ty) : x ∈ insertSet t c ↔ x = t ∨ x ∈ c := by
  unfold insertSet
  by_cases h : c.contains t = true
  · simp only [h, if_true]
    constructor
    · exact Or.inr
    · rintro (h' | h')
      · subst h'; simpa using h
      · exact h'
  · simp only [h]; simp [or_comm]

/-- the per-op relation between a type tree and the reference's covering set -/
def TreeRel (H : Hier) (f : Forest) (c : List Ty) : Prop :=
  TreeInv H f ∧ GoodF H f ∧ ∀ x, x ∈ c ↔ x ∈ f.nodes

theorem TreeRel.nil (H : Hier) : TreeRel H .nil [] := ⟨trivial, trivial, fun x => by simp [Forest.nodes]⟩

theorem TreeRel.step {H : Hier} (hH : SubFacts H) (t : Ty) {f : Forest} {c : List Ty}
    (h : TreeRel H f c) : TreeRel H (regFuzzy H t f) (insertSet t c) := by
  obtain ⟨h1, h2, h3⟩ := h
  obtain ⟨g1, g2⟩ := regFuzzy_good H hH.sub_trans t f.size f rfl h2
  refine ⟨(regFuzzy_inv t h1).1, g1, fun x => ?_⟩
  rw [mem_insertSet, g2 x, h3 x]

theorem TreeRel.fold {H : Hier} (hH : SubFacts H) (order : List Ty) :
    ∀ {f : Forest} {c : List Ty}, TreeRel H f c →
      TreeRel H (order.foldl (fun tr t => regFuzzy H t tr) f) (order.foldl (fun c t => insertSet t c) c) := by
  induction order with
  | nil => intro f c h; exact h
  | cons t l ih => intro f c h; exact ih (h.step hH t)

theorem mem_fold_insertSet (order : List Ty) : ∀ (c : List Ty) (x : Ty),
    x ∈ order.foldl (fun c t => insertSet t c) c ↔ x ∈ order ∨ x ∈ c := by
  induction order with
  | nil => intro c x; simp
  | cons t l ih =>
    intro c x
    simp only [List.foldl_cons, ih, mem_insertSet, List.mem_cons]
    constructor
    · rintro (h | h | h) <;> simp [h]
    · rintro ((h | h) | h) <;> simp [h]

/-- the tree / cover part of `register` (the loop over `new_op_map`) -/
theorem trees_fold {H : Hier} (hH : SubFacts H) (t : Ty) (l : List (Op × Handler)) :
    ∀ (tt : List (Op × Forest)) (cv : List (Op × List Ty)),
      (∀ op, TreeRel H ((odGet op tt).getD .nil) ((odGet op cv).getD [])) →
      (∀ op, TreeRel H
        ((odGet op (l.foldl (fun tt p => odSet p.1 (regFuzzy H t ((odGet p.1 tt).getD .nil)) tt) tt)).getD .nil)
        ((odGet op (l.foldl (fun cv p => odSet p.1 (insertSet t ((odGet p.1 cv).getD [])) cv) cv)).getD [])) ∧
      (∀ op x, x ∈ (odGet op (l.foldl (fun cv p => odSet p.1 (insertSet t ((odGet p.1 cv).getD [])) cv) cv)).getD [] →
        x ∈ (odGet op cv).getD [] ∨ (x = t ∧ op ∈ l.map (·.1))) := by
  induction l with
  | nil => intro tt cv h; exact ⟨h, fun op x hx => Or.inl hx⟩
  | cons p l ih =>
    intro tt cv h
    have hstep : ∀ op, TreeRel H
        ((odGet op (odSet p.1 (regFuzzy H t ((odGet p.1 tt).getD .nil)) tt)).getD .nil)
        ((odGet op (odSet p.1 (insertSet t ((odGet p.1 cv).getD [])) cv)).getD []) := by
      intro op
      by_cases ho : op = p.1
      · subst ho; rw [odGet_odSet_same, odGet_odSet_same]; exact (h p.1).step hH t
      · rw [odGet_odSet_ne _ _ ho, odGet_odSet_ne _ _ ho]; exact h op
    obtain ⟨i1, i2⟩ := ih _ _ hstep
    refine ⟨i1, fun op x hx => ?_⟩
    rcases i2 op x hx with h' | h'
    · by_cases ho : op = p.1
      · subst ho
        rw [odGet_odSet_same] at h'
        simp only [Option.getD_some, mem_insertSet] at h'
        rcases h' with h' | h'
        · exact Or.inr ⟨h', by simp⟩
        · exact Or.inl h'
      · rw [odGet_odSet_ne _ _ ho] at h'; exact Or.inl h'
    · exact Or.inr ⟨h'.1, by simp [h'.2]⟩

/-- the handler-table part of `register` only adds keys, and adds the registered type for
    every op of `new_op_map` -/
theorem setHandlers_keys (t : Ty) (l : List (Op × Handler)) :
    ∀ (tm : List (Op × List (Ty × Handler))),
      (∀ op x, (odGet x ((odGet op tm).getD [])).isSome = true →
        (odGet x ((odGet op (setHandlers tm t l)).getD [])).isSome = true) ∧
      (∀ p ∈ l, (odGet t ((odGet p.1 (setHandlers tm t l)).getD [])).isSome = true) := by
  induction l with
  | nil => intro tm; exact ⟨fun _ _ h => h, fun p hp => by simp at hp⟩
  | cons p l ih =>
    intro tm
    obtain ⟨i1, i2⟩ := ih (odSet p.1 (odSet t p.2 ((odGet p.1 tm).getD [])) tm)
    have hmono : ∀ op x, (odGet x ((odGet op tm).getD [])).isSome = true →
        (odGet x ((odGet op (odSet p.1 (odSet t p.2 ((odGet p.1 tm).getD [])) tm)).getD [])).isSome = true := by
      intro op x hx
      by_cases ho : op = p.1
      · subst ho
        rw [odGet_odSet_same]
        simp only [Option.getD_some, odGet_odSet]
        by_cases hxt : x = t
        · simp [hxt]
        · simp [hxt, hx]
      · rw [odGet_odSet_ne _ _ ho]; exact hx
    refine ⟨fun op x hx => i1 op x (hmono op x hx), fun q hq => ?_⟩
    simp only [List.mem_cons] at hq
    rcases hq with hq | hq
    · subst hq
      apply i1
      rw [odGet_odSet_same]
      simp [odGet_odSet_same]
    · exact i2 q hq

theorem fillAuto_keys (H : Hier) (auto : String) (order : List Ty) :
    ∀ (m : List (Ty × Handler)) (x : Ty),
      ((odGet x m).isSome = true ∨ x ∈ order) → (odGet x (fillAuto H auto order m)).isSome = true := by
  unfold fillAuto
  induction order with
  | nil => intro m x h; simpa using h
  | cons t l ih =>
    intro m x h
    simp only [List.foldl_cons]
    apply ih
    cases hg : odGet t m with
    | some v =>
      simp only
      rcases h with h | h
      · exact Or.inl h
      · simp only [List.mem_cons] at h
        rcases h with h | h
        · subst h; left; simp [hg]
        · exact Or.inr h
    | none =>
      simp only
      rcases h with h | h
      · left; rw [odGet_odSet]; by_cases hx : x = t <;> simp [hx, h]
      · simp only [List.mem_cons] at h
        rcases h with h | h
        · subst h; left; simp [odGet_odSet_same]
        · exact Or.inr h

/-! ### H. registry invariants along histories -/

/-- what holds between a registry of the model and the reference registry after the same
    history: same handler table, every type tree well-formed and containing exactly the covering
    types, every tree node has a handler, and the memo only holds current answers -/
structure Rel (H : Hier) (r : Reg) (ρ : RefReg) : Prop where
  handlers : ρ.handlers = r.typeMap
  autoOps : ρ.autoOps = r.autoMap
  tree : ∀ op, TreeRel H (r.tree op) (ρ.coverOf op)
  subMap : ∀ op x, x ∈ (r.tree op).nodes → (odGet x (r.map op)).isSome = true
  cache : ∀ t op h, odGet (t, op) r.cache = some h → resolve H r op t = some h

theorem Rel.empty (H : Hier) : Rel H {} {} where
  handlers := rfl
  autoOps := rfl
  tree := fun op => by simpa [Reg.tree, RefReg.coverOf, odGet] using TreeRel.nil H
  subMap := fun op x hx => by simp [Reg.tree, odGet, Forest.nodes] at hx
  cache := fun t op h hc => by simp [odGet] at hc

theorem rel_register {H : Hier} (hH : SubFacts H) {r : Reg} {ρ : RefReg} (h : Rel H r ρ)
    (t : Ty) (exact : Bool) (kw : List (Op × Handler)) :
    Rel H (register H r t exact kw) (refRegister H ρ t exact kw) := by
  have hnm : newOpMap H ρ.handlers ρ.autoOps t kw = newOpMap H r.typeMap r.autoMap t kw := by
    rw [h.handlers, h.autoOps]
  obtain ⟨k1, k2⟩ := setHandlers_keys t (newOpMap H r.typeMap r.autoMap t kw) r.typeMap
  refine ⟨?_, ?_, ?_, ?_, ?_⟩
  · simp only [refRegister, Glom.C13.register, h.handlers, h.autoOps]
  · simp only [refRegister, Glom.C13.register, h.autoOps]
  · intro op
    by_cases he : exact = true
    · subst he
      simpa [refRegister, Glom.C13.register, Reg.tree, RefReg.coverOf] using h.tree op
    · have he' : exact = false := by simpa using he
      subst he'
      have := (trees_fold hH t (newOpMap H r.typeMap r.autoMap t kw) r.typeTree ρ.cover h.tree).1 op
      simpa [refRegister, Glom.C13.register, Reg.tree, RefReg.coverOf, hnm] using this
  · intro op x hx
    by_cases he : exact = true
    · subst he
      have hx' : x ∈ (r.tree op).nodes := by simpa [Glom.C13.register, Reg.tree] using hx
      have := k1 op x (h.subMap op x hx')
      simpa [Glom.C13.register, Reg.map] using this
    · have he' : exact = false := by simpa using he
      subst he'
      obtain ⟨f1, f2⟩ := trees_fold hH t (newOpMap H r.typeMap r.autoMap t kw) r.typeTree ρ.cover h.tree
      have hx' : x ∈ ((odGet op ((newOpMap H r.typeMap r.autoMap t kw).foldl
          (fun tt p => odSet p.1 (regFuzzy H t ((odGet p.1 tt).getD .nil)) tt) r.typeTree)).getD .nil).nodes := by
        simpa [Glom.C13.register, Reg.tree] using hx
      have hcov := ((f1 op).2.2 x).2 hx'
      rcases f2 op x hcov with hc | ⟨hc1, hc2⟩
      · have hxn : x ∈ (r.tree op).nodes := ((h.tree op).2.2 x).1 hc
        have := k1 op x (h.subMap op x hxn)
        simpa [Glom.C13.register, Reg.map] using this
      · subst hc1
        obtain ⟨p, hp, hpo⟩ := List.mem_map.1 hc2
        have := k2 p hp
        rw [hpo] at this
        simpa [Glom.C13.register, Reg.map] using this
  · intro t' op h' hc
    simp [Glom.C13.register, odGet] at hc

theorem rel_registerOp {H : Hier} (hH : SubFacts H) {r : Reg} {ρ : RefReg} (h : Rel H r ρ)
    (op : Op) (auto : String) (exact : Bool) (order : List Ty) :
    Rel H (registerOp H r op auto exact order) (refRegisterOp H ρ op auto exact order) := by
  have htab : ρ.table op = r.map op := by simp [RefReg.table, Reg.map, h.handlers]
  refine ⟨?_, ?_, ?_, ?_, ?_⟩
  · simp only [refRegisterOp, Glom.C13.registerOp, htab, h.handlers]
  · simp only [refRegisterOp, Glom.C13.registerOp, h.autoOps]
  · intro op'
    by_cases ho : op' = op
    · subst ho
      simp only [refRegisterOp, Glom.C13.registerOp, Reg.tree, RefReg.coverOf, odGet_odSet_same, Option.getD_some]
      by_cases he : exact = true
      · simp only [he, if_true]; exact h.tree op'
      · simp only [he]; exact (h.tree op').fold hH order
    · simp only [refRegisterOp, Glom.C13.registerOp, Reg.tree, RefReg.coverOf, odGet_odSet_ne _ _ ho]
      exact h.tree op'
  · intro op' x hx
    by_cases ho : op' = op
    · subst ho
      simp only [Glom.C13.registerOp, Reg.tree, Reg.map, odGet_odSet_same, Option.getD_some] at hx ⊢
      apply fillAuto_keys
      by_cases he : exact = true
      · simp only [he, if_true] at hx; exact Or.inl (h.subMap op' x hx)
      · simp only [he] at hx
        have hrel := (h.tree op').fold hH order
        have hcov := (hrel.2.2 x).2 hx
        rcases (mem_fold_insertSet order _ x).1 hcov with hc | hc
        · exact Or.inr hc
        · exact Or.inl (h.subMap op' x (((h.tree op').2.2 x).1 hc))
    · simp only [Glom.C13.registerOp, Reg.tree, Reg.map, odGet_odSet_ne _ _ ho] at hx ⊢
      exact h.subMap op' x hx
  · intro t' op' h' hc
    simp [Glom.C13.registerOp, odGet] at hc

/-- a `register` call with its TypeError path: rejected on both sides (nothing changes) or applied
    on both sides -/
theorem rel_registerChecked {H : Hier} (hH : SubFacts H) {r : Reg} {ρ : RefReg} (h : Rel H r ρ)
    (t : Ty) (exact : Bool) (kw : List (Op × Handler)) :
    Rel H (registerChecked H r t exact kw).1 (refRegisterChecked H ρ t exact kw) := by
  unfold registerChecked refRegisterChecked
  rw [h.handlers, h.autoOps]
  cases hv : firstInvalid (newOpMap H r.typeMap r.autoMap t kw) with
  | some op => simpa using h
  | none => simpa using rel_register hH h t exact kw

theorem rel_registerOpChecked {H : Hier} (hH : SubFacts H) {r : Reg} {ρ : RefReg} (h : Rel H r ρ)
    (op : Op) (auto : String) (exact : Bool) (order : List Ty) :
    Rel H (registerOpChecked H r op auto exact order).1 (refRegisterOpChecked H ρ op auto exact order) := by
  have htab : ρ.table op = r.map op := by simp [RefReg.table, Reg.map, h.handlers]
  unfold registerOpChecked refRegisterOpChecked
  rw [htab]
  cases hv : firstInvalidAuto H auto order (r.map op) with
  | some t => simpa using h
  | none => simpa using rel_registerOp hH h op auto exact order

theorem closest_mem_nodes {H : Hier} {t : Ty} {f : Forest} {c : Ty} (h : closest H t f = some c) :
    c ∈ f.nodes ∧ H.inst t c = true := by
  have := (pickMin_some h).1
  exact matching_sound H t f c ((mem_dropSupers H _ c).1 this).1

/-- the un-memoised lookup always produces a handler value (never the KeyError), and it is one
    the reference allows -/
theorem resolve_ok {H : Hier} (hH : SubFacts H) {r : Reg} {ρ : RefReg} (h : Rel H r ρ) (op : Op) (t : Ty) :
    ∃ hd, resolve H r op t = some hd ∧ hd ∈ refAnswers H ρ op t := by
  have htab : ρ.table op = r.map op := by simp [RefReg.table, Reg.map, h.handlers]
  unfold resolve refAnswers
  rw [htab]
  by_cases he : (r.map op).isEmpty = true
  · simp [he]
  · simp only [he, Bool.false_eq_true, if_false]
    cases hg : odGet t (r.map op) with
    | some hd => exact ⟨hd, rfl, by simp⟩
    | none =>
      simp only
      have hca := closest_allowed H hH t (r.tree op) (ρ.coverOf op) (h.tree op).1
        (h.tree op).2.2
      cases hcl : closest H t (r.tree op) with
      | none =>
        rw [hcl] at hca
        simp only at hca
        exact ⟨none, rfl, by simp [hca]⟩
      | some c =>
        rw [hcl] at hca
        simp only at hca
        have hcn := (closest_mem_nodes hcl).1
        have hs := h.subMap op c hcn
        cases hgc : odGet c (r.map op) with
        | none => rw [hgc] at hs; simp at hs
        | some hd =>
          refine ⟨hd, by simp [hgc], ?_⟩
          have hne : (allowed H (ρ.coverOf op) t).isEmpty = false := by
            cases hal : allowed H (ρ.coverOf op) t with
            | nil => rw [hal] at hca; simp at hca
            | cons a l => rfl
          simp only [hne, Bool.false_eq_true, if_false, List.mem_filterMap]
          exact ⟨c, hca, hgc⟩

theorem resolve_cache_irrel (H : Hier) (r : Reg) (c : List ((Ty × Op) × Handler)) (op : Op) (t : Ty) :
    resolve H { r with cache := c } op t = resolve H r op t := rfl

/-- adding the current answer to the memo keeps the correspondence -/
theorem Rel.cacheSet {H : Hier} {r : Reg} {ρ : RefReg} (h : Rel H r ρ) {op : Op} {t : Ty} {hd : Handler}
    (hres : resolve H r op t = some hd) : Rel H { r with cache := odSet (t, op) hd r.cache } ρ := by
  refine ⟨h.handlers, h.autoOps, h.tree, h.subMap, ?_⟩
  intro t' op' h' hc'
  rw [resolve_cache_irrel]
  by_cases hk : (t', op') = (t, op)
  · injection hk with h1 h2
    subst h1; subst h2
    rw [odGet_odSet_same] at hc'
    injection hc' with hc'
    subst hc'
    exact hres
  · rw [odGet_odSet_ne _ _ hk] at hc'
    exact h.cache t' op' h' hc'

/-- an allowed handler, reported the way the call asked for it, is an allowed answer -/
theorem answerOk_answerOf {acc : List Handler} {hd : Handler} (h : hd ∈ acc) (re : Bool) :
    answerOk acc re (answerOf hd re) = true := by
  cases hd with
  | none => cases re <;> simp [answerOf, answerOk, h]
  | some v => simp [answerOf, answerOk, h]

/-- **one `get_handler` call, under either memo policy, in full**: the answer — *including* whether
    "no handler" is raised or returned — is `answerOf` of the un-memoised lookup, which is a handler
    the reference allows; the registry still corresponds to the same reference registry -/
theorem getHandlerV_answer {H : Hier} (hH : SubFacts H) {r : Reg} {ρ : RefReg} (h : Rel H r ρ)
    (sm : Bool) (op : Op) (t : Ty) (re : Bool) :
    ∃ hd, resolve H r op t = some hd ∧ hd ∈ refAnswers H ρ op t ∧
      (getHandlerV sm H r op t re).2 = answerOf hd re ∧ Rel H (getHandlerV sm H r op t re).1 ρ := by
  obtain ⟨hd, hres, hacc⟩ := resolve_ok hH h op t
  refine ⟨hd, hres, hacc, ?_⟩
  unfold getHandlerV
  cases hc : odGet (t, op) r.cache with
  | some hd' =>
    have hcur := h.cache t op hd' hc
    rw [hres] at hcur
    injection hcur with hcur
    subst hcur
    exact ⟨rfl, h⟩
  | none =>
    simp only [hres]
    by_cases hn : (hd.isNone && re) = true
    · simp only [hn, if_true, answerOf]
      refine ⟨trivial, ?_⟩
      cases sm with
      | false => exact h
      | true => exact h.cacheSet hres
    · simp only [hn, Bool.false_eq_true, if_false, answerOf]
      exact ⟨trivial, h.cacheSet hres⟩

theorem getHandlerV_false (H : Hier) (r : Reg) (op : Op) (t : Ty) (re : Bool) :
    getHandlerV false H r op t re = getHandler H r op t re := by
  unfold getHandlerV getHandler
  cases odGet (t, op) r.cache with
  | some h => rfl
  | none =>
    simp only
    cases resolve H r op t with
    | none => rfl
    | some h => simp

/-- one `get_handler` call: the answer is allowed by the reference, and the registry (now with
    one more memo entry at most) still corresponds to the same reference registry -/
theorem rel_getHandler {H : Hier} (hH : SubFacts H) {r : Reg} {ρ : RefReg} (h : Rel H r ρ)
    (op : Op) (t : Ty) (raiseExc : Bool) :
    Rel H (getHandler H r op t raiseExc).1 ρ ∧
      answerOk (refAnswers H ρ op t) raiseExc (getHandler H r op t raiseExc).2 = true := by
  obtain ⟨hd, _, hacc, hans, hrel⟩ := getHandlerV_answer hH h false op t raiseExc
  rw [getHandlerV_false] at hans hrel
  exact ⟨hrel, by rw [hans]; exact answerOk_answerOf hacc raiseExc⟩

/-! #### worlds -/

inductive All2 {α β : Type} (R : α → β → Prop) : List α → List β → Prop where
  | nil : All2 R [] []
  | cons {a b as bs} : R a b → All2 R as bs → All2 R (a :: as) (b :: bs)

theorem All2.updateAt {α β : Type} {R : α → β → Prop} {f : α → α} {g : β → β}
    (hfg : ∀ a b, R a b → R (f a) (g b)) :
    ∀ (i : Nat) {w : List α} {ω : List β}, All2 R w ω →
      All2 R (Glom.C13.updateAt f i w) (Glom.C13.updateAt g i ω) := by
  intro i w ω h
  induction h generalizing i with
  | nil => cases i <;> exact .nil
  | cons hab hrest ih =>
    cases i with
    | zero => exact .cons (hfg _ _ hab) hrest
    | succ n => exact .cons hab (ih n)

/-- replacing one registry by one that corresponds to the same reference registry -/
theorem All2.updateAt_left {α β : Type} {R : α → β → Prop} {a' : α} :
    ∀ (i : Nat) {w : List α} {ω : List β}, All2 R w ω →
      (∀ b, ω[i]? = some b → R a' b) → All2 R (Glom.C13.updateAt (fun _ => a') i w) ω := by
  intro i w ω h
  induction h generalizing i with
  | nil => intro _; cases i <;> exact .nil
  | cons hab hrest ih =>
    intro hb
    cases i with
    | zero => exact .cons (hb _ (by simp)) hrest
    | succ n => exact .cons hab (ih n (fun b hb' => hb b (by simpa using hb')))

theorem All2.get {α β : Type} {R : α → β → Prop} :
    ∀ {w : List α} {ω : List β}, All2 R w ω → ∀ (i : Nat),
      (∀ a, w[i]? = some a → ∃ b, ω[i]? = some b ∧ R a b) ∧ (w[i]? = none → ω[i]? = none) := by
  intro w ω h
  induction h with
  | nil => intro i; simp
  | cons hab _ ih =>
    intro i
    cases i with
    | zero => exact ⟨fun a ha => by simp at ha; subst ha; exact ⟨_, by simp, hab⟩, fun h => by simp at h⟩
    | succ n => simpa using ih n

theorem All2.map {α β γ : Type} {R : α → β → Prop} (f : γ → α) (g : γ → β) (h : ∀ c, R (f c) (g c)) :
    ∀ l : List γ, All2 R (l.map f) (l.map g) := by
  intro l
  induction l with
  | nil => exact .nil
  | cons c l ih => exact .cons (h c) ih

/-- **every history, every interleaving**: along any list of actions, starting from
    corresponding worlds, every lookup answer of the model is one the reference allows at that
    moment -/
theorem run_checks {H : Hier} (hH : SubFacts H) (acts : List Action) :
    ∀ (w : List Reg) (ω : List RefReg), All2 (Rel H) w ω →
      checkRun H ω acts (run H w acts) = true := by
  induction acts with
  | nil => intro w ω _; simp [run, checkRun]
  | cons a as ih =>
    intro w ω hw
    cases a with
    | register i t e kw =>
      simp only [run, step, checkRun, refStep, Bool.true_and]
      exact ih _ _ (All2.updateAt (fun r ρ h => rel_registerChecked hH h t e kw) i hw)
    | registerOp i op au e ord =>
      simp only [run, step, checkRun, refStep, Bool.true_and]
      exact ih _ _ (All2.updateAt (fun r ρ h => rel_registerOpChecked hH h op au e ord) i hw)
    | badCall i err =>
      simp only [run, step, checkRun, refStep, Bool.true_and]
      exact ih _ _ hw
    | lookup i op t re =>
      simp only [run, step]
      obtain ⟨hsome, hnone⟩ := hw.get i
      cases hi : w[i]? with
      | none =>
        simp only [checkRun, refStep, hnone hi, Bool.true_and]
        exact ih _ _ hw
      | some r =>
        obtain ⟨ρ, hρ, hrel⟩ := hsome r hi
        obtain ⟨g1, g2⟩ := rel_getHandler hH hrel op t re
        simp only [checkRun, refStep, hρ, g2, Bool.true_and]
        apply ih
        apply All2.updateAt_left i hw
        intro b hb
        rw [hρ] at hb
        injection hb with hb
        subst hb
        exact g1

/-! #### initial registries -/

theorem rel_foldl {H : Hier} {γ : Type} (sM : Reg → γ → Reg) (sR : RefReg → γ → RefReg)
    (h : ∀ r ρ x, Rel H r ρ → Rel H (sM r x) (sR ρ x)) :
    ∀ (xs : List γ) (r : Reg) (ρ : RefReg), Rel H r ρ → Rel H (xs.foldl sM r) (xs.foldl sR ρ) := by
  intro xs
  induction xs with
  | nil => intro r ρ hr; exact hr
  | cons x xs ih => intro r ρ hr; exact ih _ _ (h r ρ x hr)

theorem rel_freshReg {H : Hier} (hH : SubFacts H) (S : Setup) (d : Bool) :
    Rel H (freshReg H S d) (refFresh H S d) := by
  have h0 : Rel H
      (S.builtinOps.foldl (fun r o => registerOp H r o.op o.auto o.exact []) ({} : Reg))
      (S.builtinOps.foldl (fun ρ o => refRegisterOp H ρ o.op o.auto o.exact []) ({} : RefReg)) :=
    rel_foldl _ _ (fun r ρ o hr => rel_registerOp hH hr o.op o.auto o.exact []) _ _ _ (Rel.empty H)
  unfold freshReg refFresh
  cases d with
  | false => simpa using h0
  | true =>
    simp only [if_true]
    exact rel_foldl _ _ (fun r ρ x hr => rel_register hH hr x.ty x.exact x.kw) _ _ _ h0

theorem rel_moduleReg {H : Hier} (hH : SubFacts H) (S : Setup) (orders : List (List Ty)) :
    Rel H (moduleReg H S orders) (refModule H S orders) := by
  unfold moduleReg refModule
  exact rel_foldl _ _ (fun r ρ p hr => rel_registerOp hH hr p.1.op p.1.auto p.1.exact p.2) _ _ _
    (rel_freshReg hH S true)

theorem rel_mk {H : Hier} (hH : SubFacts H) (S : Setup) (orders : List (List Ty)) (k : RegKind) :
    Rel H (mkReg H S orders k) (refMk H S orders k) := by
  cases k with
  | module => exact rel_moduleReg hH S orders
  | registry d => exact rel_freshReg hH S d
  | glommer d => exact rel_freshReg hH S d

/-- one action keeps the worlds in correspondence -/
theorem step_rel {H : Hier} (hH : SubFacts H) (a : Action) {w : List Reg} {ω : List RefReg}
    (hw : All2 (Rel H) w ω) : All2 (Rel H) (step H w a).1 (refStep H ω a) := by
  cases a with
  | register i t e kw => exact All2.updateAt (fun r ρ h => rel_registerChecked hH h t e kw) i hw
  | registerOp i op au e ord => exact All2.updateAt (fun r ρ h => rel_registerOpChecked hH h op au e ord) i hw
  | badCall i err => exact hw
  | lookup i op t re =>
    simp only [step, refStep]
    obtain ⟨hsome, _⟩ := hw.get i
    cases hi : w[i]? with
    | none => exact hw
    | some r =>
      obtain ⟨ρ, hρ, hrel⟩ := hsome r hi
      simp only
      apply All2.updateAt_left i hw
      intro b hb
      rw [hρ] at hb
      injection hb with hb
      subst hb
      exact (rel_getHandler hH hrel op t re).1

theorem finalWorld_rel {H : Hier} (hH : SubFacts H) (acts : List Action) :
    ∀ {w : List Reg} {ω : List RefReg}, All2 (Rel H) w ω →
      All2 (Rel H) (finalWorld H w acts) (acts.foldl (refStep H) ω) := by
  induction acts with
  | nil => intro w ω hw; exact hw
  | cons a as ih => intro w ω hw; exact ih (step_rel hH a hw)

/-! #### the memo -/

/-- the handler an answer stands for (`False` returned and UnregisteredTarget raised both mean
    "no handler") -/
def Answer.handler : Answer → Option Handler
  | .ret h => some h
  | .unregistered => some none
  | .keyError => none

theorem handler_answerOf (hd : Handler) (re : Bool) : (answerOf hd re).handler = some hd := by
  cases hd with
  | none => cases re <;> simp [answerOf, Answer.handler]
  | some v => simp [answerOf, Answer.handler]

/-- the answer of a lookup, in full, is determined by the un-memoised lookup and `raise_exc` -/
theorem getHandler_answer {H : Hier} (hH : SubFacts H) {r : Reg} {ρ : RefReg} (h : Rel H r ρ)
    (op : Op) (t : Ty) (re : Bool) :
    some (getHandler H r op t re).2 = (resolve H r op t).map (fun hd => answerOf hd re) := by
  obtain ⟨hd, hres, _, hans, _⟩ := getHandlerV_answer hH h false op t re
  rw [getHandlerV_false] at hans
  rw [hans, hres]; rfl

theorem getHandler_handler {H : Hier} (hH : SubFacts H) {r : Reg} {ρ : RefReg} (h : Rel H r ρ)
    (op : Op) (t : Ty) (re : Bool) : (getHandler H r op t re).2.handler = resolve H r op t := by
  obtain ⟨hd, hres, _, hans, _⟩ := getHandlerV_answer hH h false op t re
  rw [getHandlerV_false] at hans
  rw [hans, hres, handler_answerOf]

/-! #### the memo policy: memoising failed lookups too is harmless *as long as every registration
     resets the memo* (which is what `Rel.cache` records) -/

/-- one `get_handler` call under either memo policy: the registry still corresponds to the same
    reference registry, the answer is one the reference allows, and it is the un-memoised one -/
theorem rel_getHandlerV {H : Hier} (hH : SubFacts H) {r : Reg} {ρ : RefReg} (h : Rel H r ρ)
    (sm : Bool) (op : Op) (t : Ty) (re : Bool) :
    Rel H (getHandlerV sm H r op t re).1 ρ ∧
      answerOk (refAnswers H ρ op t) re (getHandlerV sm H r op t re).2 = true ∧
      (getHandlerV sm H r op t re).2.handler = resolve H r op t := by
  obtain ⟨hd, hres, hacc, hans, hrel⟩ := getHandlerV_answer hH h sm op t re
  exact ⟨hrel, by rw [hans]; exact answerOk_answerOf hacc re, by rw [hans, hres, handler_answerOf]⟩

theorem updateAt_id {α : Type} : ∀ (i : Nat) (w : List α), updateAt (fun r => r) i w = w := by
  intro i w
  induction w generalizing i with
  | nil => cases i <;> rfl
  | cons a w ih =>
    cases i with
    | zero => rfl
    | succ n => simp [updateAt, ih n]

/-- two registries that differ in their memo only -/
def EqC (r r' : Reg) : Prop :=
  r.typeMap = r'.typeMap ∧ r.typeTree = r'.typeTree ∧ r.autoMap = r'.autoMap

theorem EqC.resolve {r r' : Reg} (h : EqC r r') (H : Hier) (op : Op) (t : Ty) :
    resolve H r op t = resolve H r' op t := by
  simp [Glom.C13.resolve, Reg.map, Reg.tree, h.1, h.2.1]

theorem EqC.register {r r' : Reg} (h : EqC r r') (H : Hier) (t : Ty) (e : Bool) (kw : List (Op × Handler)) :
    EqC (Glom.C13.register H r t e kw) (Glom.C13.register H r' t e kw) := by
  simp [EqC, Glom.C13.register, h.1, h.2.1, h.2.2]

theorem EqC.registerOp {r r' : Reg} (h : EqC r r') (H : Hier) (op : Op) (a : String) (e : Bool)
    (ord : List Ty) : EqC (Glom.C13.registerOp H r op a e ord) (Glom.C13.registerOp H r' op a e ord) := by
  simp [EqC, Glom.C13.registerOp, Reg.map, Reg.tree, h.1, h.2.1, h.2.2]

theorem EqC.registerChecked {r r' : Reg} (h : EqC r r') (H : Hier) (t : Ty) (e : Bool)
    (kw : List (Op × Handler)) :
    EqC (Glom.C13.registerChecked H r t e kw).1 (Glom.C13.registerChecked H r' t e kw).1 := by
  unfold Glom.C13.registerChecked
  rw [h.1, h.2.2]
  cases firstInvalid (newOpMap H r'.typeMap r'.autoMap t kw) with
  | some op => exact h
  | none => exact h.register H t e kw

theorem EqC.registerOpChecked {r r' : Reg} (h : EqC r r') (H : Hier) (op : Op) (a : String) (e : Bool)
    (ord : List Ty) :
    EqC (Glom.C13.registerOpChecked H r op a e ord).1 (Glom.C13.registerOpChecked H r' op a e ord).1 := by
  unfold Glom.C13.registerOpChecked
  have : r.map op = r'.map op := by simp [Reg.map, h.1]
  rw [this]
  cases firstInvalidAuto H a ord (r'.map op) with
  | some t => exact h
  | none => exact h.registerOp H op a e ord

theorem getHandler_eqC (H : Hier) (r : Reg) (op : Op) (t : Ty) (re : Bool) :
    EqC (getHandler H r op t re).1 r := by
  unfold getHandler
  cases odGet (t, op) r.cache with
  | some h => exact ⟨rfl, rfl, rfl⟩
  | none =>
    simp only
    cases resolve H r op t with
    | none => exact ⟨rfl, rfl, rfl⟩
    | some h =>
      simp only
      by_cases hn : (h.isNone && re) = true
      · simp only [hn, if_true]; exact ⟨rfl, rfl, rfl⟩
      · simp only [hn, Bool.false_eq_true, if_false]; exact ⟨rfl, rfl, rfl⟩

theorem getHandlerV_eqC (sm : Bool) (H : Hier) (r : Reg) (op : Op) (t : Ty) (re : Bool) :
    EqC (getHandlerV sm H r op t re).1 r := by
  unfold getHandlerV
  cases odGet (t, op) r.cache with
  | some h => exact ⟨rfl, rfl, rfl⟩
  | none =>
    simp only
    cases resolve H r op t with
    | none => exact ⟨rfl, rfl, rfl⟩
    | some h =>
      simp only
      by_cases hn : (h.isNone && re) = true
      · simp only [hn, if_true]
        cases sm with
        | false => exact ⟨rfl, rfl, rfl⟩
        | true => exact ⟨rfl, rfl, rfl⟩
      · simp only [hn, Bool.false_eq_true, if_false]; exact ⟨rfl, rfl, rfl⟩

/-- a registration erases every trace of earlier lookups: registries that differ in their memo
    only are *equal* after the same `register` / `register_op` call (accepted or refused … a
    refused one keeps the memo: see `registerChecked_eqC`) -/
theorem register_eq_of_eqC {r r' : Reg} (h : EqC r r') (H : Hier) (t : Ty) (e : Bool)
    (kw : List (Op × Handler)) : Glom.C13.register H r t e kw = Glom.C13.register H r' t e kw := by
  obtain ⟨h1, h2, h3⟩ := h
  simp [Glom.C13.register, h1, h2, h3]

theorem registerOp_eq_of_eqC {r r' : Reg} (h : EqC r r') (H : Hier) (op : Op) (a : String) (e : Bool)
    (ord : List Ty) : Glom.C13.registerOp H r op a e ord = Glom.C13.registerOp H r' op a e ord := by
  obtain ⟨h1, h2, h3⟩ := h
  simp [Glom.C13.registerOp, Reg.map, Reg.tree, h1, h2, h3]

/-- a sequence of `get_handler` calls (under either memo policy) on one registry -/
def lookupsOn (sm : Bool) (H : Hier) (r : Reg) : List (Op × Ty × Bool) → Reg
  | [] => r
  | (op, t, re) :: ls => lookupsOn sm H (getHandlerV sm H r op t re).1 ls

theorem lookupsOn_eqC (sm : Bool) (H : Hier) (ls : List (Op × Ty × Bool)) :
    ∀ r, EqC (lookupsOn sm H r ls) r := by
  induction ls with
  | nil => intro r; exact ⟨rfl, rfl, rfl⟩
  | cons l ls ih =>
    intro r
    obtain ⟨op, t, re⟩ := l
    have h1 := ih (getHandlerV sm H r op t re).1
    have h2 := getHandlerV_eqC sm H r op t re
    exact ⟨h1.1.trans h2.1, h1.2.1.trans h2.2.1, h1.2.2.trans h2.2.2⟩

theorem updateAt_fix {α : Type} (f : α → α) : ∀ (i : Nat) (w : List α),
    (∀ a, w[i]? = some a → f a = a) → updateAt f i w = w := by
  intro i w
  induction w generalizing i with
  | nil => intro _; cases i <;> rfl
  | cons a w ih =>
    intro h
    cases i with
    | zero => simp [updateAt, h a (by simp)]
    | succ n => simp [updateAt, ih n (fun b hb => h b (by simpa using hb))]

/-- what `register_op` stores for a known type: its previous handler, else the auto-discovered one -/
theorem fillAuto_value (H : Hier) (auto : String) (t : Ty) (order : List Ty) :
    ∀ m : List (Ty × Handler), odGet t (fillAuto H auto order m) =
      match odGet t m with
      | some v => some v
      | none => if t ∈ order then some (H.auto auto t) else none := by
  induction order with
  | nil => intro m; cases h : odGet t m <;> simp [fillAuto, h]
  | cons x xs ih =>
    intro m
    have hstep : fillAuto H auto (x :: xs) m =
        fillAuto H auto xs (match odGet x m with | some _ => m | none => odSet x (H.auto auto x) m) := rfl
    rw [hstep]
    cases hx : odGet x m with
    | some v =>
      simp only
      rw [ih m]
      cases ht : odGet t m with
      | some v' => rfl
      | none =>
        simp only
        have hne : t ≠ x := by
          intro e; subst e; rw [hx] at ht; cases ht
        simp [hne]
    | none =>
      simp only
      rw [ih]
      by_cases hxt : t = x
      · subst hxt
        rw [odGet_odSet_same, hx]
        simp
      · rw [odGet_odSet_ne _ _ hxt]
        cases ht : odGet t m with
        | some v' => rfl
        | none => simp [hxt]

def Action.isLookup : Action → Bool
  | .lookup .. => true
  | _ => false

theorem All2.refl_eqC : ∀ (w : List Reg), All2 EqC w w := by
  intro w
  induction w with
  | nil => exact .nil
  | cons r w ih => exact .cons ⟨rfl, rfl, rfl⟩ ih

/-- a history and the same history with its lookups deleted lead to registries that differ in
    their memo only -/
theorem finalWorld_dropLookups (H : Hier) (acts : List Action) :
    ∀ {w w' : List Reg}, All2 EqC w w' →
      All2 EqC (finalWorld H w acts) (finalWorld H w' (acts.filter (fun a => !a.isLookup))) := by
  induction acts with
  | nil => intro w w' h; exact h
  | cons a as ih =>
    intro w w' h
    cases a with
    | register i t e kw =>
      simp only [finalWorld, step, List.filter, Action.isLookup, Bool.not_false]
      exact ih (All2.updateAt (fun r r' hr => hr.registerChecked H t e kw) i h)
    | registerOp i op au e ord =>
      simp only [finalWorld, step, List.filter, Action.isLookup, Bool.not_false]
      exact ih (All2.updateAt (fun r r' hr => hr.registerOpChecked H op au e ord) i h)
    | badCall i err =>
      simp only [finalWorld, step, List.filter, Action.isLookup, Bool.not_false]
      exact ih h
    | lookup i op t re =>
      simp only [finalWorld, step, List.filter, Action.isLookup, Bool.not_true]
      apply ih
      cases hi : w[i]? with
      | none => exact h
      | some r =>
        simp only
        obtain ⟨hsome, _⟩ := h.get i
        obtain ⟨r', hr', hrr⟩ := hsome r hi
        apply All2.updateAt_left i h
        intro b hb
        rw [hr'] at hb
        injection hb with hb
        subst hb
        have := getHandler_eqC H r op t re
        exact ⟨this.1.trans hrr.1, this.2.1.trans hrr.2.1, this.2.2.trans hrr.2.2⟩

theorem refStep_dropLookups (H : Hier) (acts : List Action) :
    ∀ ω, (acts.filter (fun a => !a.isLookup)).foldl (refStep H) ω = acts.foldl (refStep H) ω := by
  induction acts with
  | nil => intro ω; rfl
  | cons a as ih =>
    intro ω
    cases a with
    | register i t e kw =>
      simp only [List.filter, Action.isLookup, Bool.not_false, List.foldl_cons]; exact ih _
    | registerOp i op au e ord =>
      simp only [List.filter, Action.isLookup, Bool.not_false, List.foldl_cons]; exact ih _
    | badCall i err =>
      simp only [List.filter, Action.isLookup, Bool.not_false, List.foldl_cons]; exact ih _
    | lookup i op t re =>
      simp only [List.filter, Action.isLookup, Bool.not_true, List.foldl_cons, refStep]; exact ih _

/-! #### what `register` stores, which types cover, congruence of `allowed` -/

theorem setHandlers_value (t : Ty) (pick : Op → Handler) (ops : List Op) :
    ∀ (done : List Op) (tm : List (Op × List (Ty × Handler))),
      (∀ op ∈ done, odGet t ((odGet op tm).getD []) = some (pick op)) →
      ∀ op, op ∈ done ∨ op ∈ ops →
        odGet t ((odGet op (setHandlers tm t (ops.map (fun o => (o, pick o))))).getD []) = some (pick op) := by
  induction ops with
  | nil =>
    intro done tm h op hop
    rcases hop with hop | hop
    · exact h op hop
    · simp at hop
  | cons o ops ih =>
    intro done tm h op hop
    simp only [List.map_cons, setHandlers, List.foldl_cons]
    apply ih (o :: done)
    · intro op' hop'
      by_cases ho : op' = o
      · subst ho; rw [odGet_odSet_same]; simp [odGet_odSet_same]
      · rw [odGet_odSet_ne _ _ ho]
        simp only [List.mem_cons] at hop'
        exact h op' (hop'.resolve_left ho)
    · simp only [List.mem_cons] at hop ⊢
      rcases hop with hop | hop | hop
      · exact Or.inl (Or.inr hop)
      · exact Or.inl (Or.inl hop)
      · exact Or.inr hop

theorem cover_fold_iff (t : Ty) (l : List (Op × Handler)) :
    ∀ (cv : List (Op × List Ty)) (op : Op) (x : Ty),
      x ∈ (odGet op (l.foldl (fun cv p => odSet p.1 (insertSet t ((odGet p.1 cv).getD [])) cv) cv)).getD [] ↔
        x ∈ (odGet op cv).getD [] ∨ (x = t ∧ op ∈ l.map (·.1)) := by
  induction l with
  | nil => intro cv op x; simp
  | cons p l ih =>
    intro cv op x
    simp only [List.foldl_cons, ih, List.map_cons, List.mem_cons]
    by_cases ho : op = p.1
    · subst ho
      rw [odGet_odSet_same]
      simp only [Option.getD_some, mem_insertSet]
      constructor
      · rintro ((h | h) | h)
        · exact Or.inr ⟨h, by simp⟩
        · exact Or.inl h
        · exact Or.inr ⟨h.1, by simp [h.2]⟩
      · rintro (h | ⟨h1, h2⟩)
        · exact Or.inl (Or.inr h)
        · exact Or.inl (Or.inl h1)
    · rw [odGet_odSet_ne _ _ ho]
      constructor
      · rintro (h | h)
        · exact Or.inl h
        · exact Or.inr ⟨h.1, Or.inr h.2⟩
      · rintro (h | ⟨h1, h2 | h2⟩)
        · exact Or.inl h
        · exact absurd h2 ho
        · exact Or.inr ⟨h1, h2⟩

theorem newOpMap_keys (H : Hier) (tm : List (Op × List (Ty × Handler))) (am : List (Op × String))
    (t : Ty) (kw : List (Op × Handler)) :
    (newOpMap H tm am t kw).map (·.1) = opsOf (am.map (·.1)) kw := by
  simp [newOpMap, Function.comp_def]

/-- which types cover after `register`: the old ones, plus the registered type for every op the
    call touches unless `exact` -/
theorem refRegister_cover (H : Hier) (ρ : RefReg) (t : Ty) (e : Bool) (kw : List (Op × Handler))
    (op : Op) (x : Ty) :
    x ∈ (refRegister H ρ t e kw).coverOf op ↔
      x ∈ ρ.coverOf op ∨ (x = t ∧ e = false ∧ op ∈ opsOf (ρ.autoOps.map (·.1)) kw) := by
  cases e with
  | true => simp [refRegister, RefReg.coverOf]
  | false =>
    simp only [refRegister, RefReg.coverOf, Bool.false_eq_true, if_false, cover_fold_iff, newOpMap_keys,
      true_and]

theorem refRegister_autoOps (H : Hier) (ρ : RefReg) (t : Ty) (e : Bool) (kw : List (Op × Handler)) :
    (refRegister H ρ t e kw).autoOps = ρ.autoOps := rfl

/-- a list of registrations `(type, exact, kwargs)` applied to a reference registry -/
def refRegisterAll (H : Hier) (ρ : RefReg) (regs : List (Ty × Bool × List (Op × Handler))) : RefReg :=
  regs.foldl (fun ρ g => refRegister H ρ g.1 g.2.1 g.2.2) ρ

theorem refRegisterAll_autoOps (H : Hier) (regs : List (Ty × Bool × List (Op × Handler))) :
    ∀ ρ, (refRegisterAll H ρ regs).autoOps = ρ.autoOps := by
  induction regs with
  | nil => intro ρ; rfl
  | cons g regs ih => intro ρ; simp only [refRegisterAll, List.foldl_cons]; exact (ih _).trans rfl

theorem refRegisterAll_cover (H : Hier) (regs : List (Ty × Bool × List (Op × Handler))) :
    ∀ (ρ : RefReg) (op : Op) (x : Ty),
      x ∈ (refRegisterAll H ρ regs).coverOf op ↔
        x ∈ ρ.coverOf op ∨ ∃ g ∈ regs, x = g.1 ∧ g.2.1 = false ∧ op ∈ opsOf (ρ.autoOps.map (·.1)) g.2.2 := by
  induction regs with
  | nil => intro ρ op x; simp [refRegisterAll]
  | cons g regs ih =>
    intro ρ op x
    have := ih (refRegister H ρ g.1 g.2.1 g.2.2) op x
    simp only [refRegisterAll, List.foldl_cons] at this ⊢
    rw [this, refRegister_cover, refRegister_autoOps]
    simp only [List.mem_cons, exists_eq_or_imp]
    constructor
    · rintro ((h | h) | h)
      · exact Or.inl h
      · exact Or.inr (Or.inl h)
      · exact Or.inr (Or.inr h)
    · rintro (h | h | h)
      · exact Or.inl (Or.inl h)
      · exact Or.inl (Or.inr h)
      · exact Or.inr h

theorem mem_applicable (H : Hier) (cover : List Ty) (t x : Ty) :
    x ∈ applicable H cover t ↔ x ∈ cover ∧ H.inst t x = true := by
  simp [applicable]

theorem mem_minimal (H : Hier) (app : List Ty) (x : Ty) :
    x ∈ minimal H app ↔ x ∈ app ∧ ∀ d ∈ app, d ≠ x → H.sub d x = false := by
  simp only [minimal, strictlyBelow, List.mem_filter, Bool.not_eq_true', List.any_eq_false,
    Bool.and_eq_true, bne_iff_ne, ne_eq, not_and, Bool.not_eq_true]

/-- `allowed` depends on the covering types as a set only -/
theorem mem_allowed_congr (H : Hier) (t : Ty) {c1 c2 : List Ty} (hc : ∀ x, x ∈ c1 ↔ x ∈ c2) (x : Ty) :
    x ∈ allowed H c1 t ↔ x ∈ allowed H c2 t := by
  have happ : ∀ y, y ∈ applicable H c1 t ↔ y ∈ applicable H c2 t := by
    intro y; rw [mem_applicable, mem_applicable, hc y]
  have hmin : ∀ y, y ∈ minimal H (applicable H c1 t) ↔ y ∈ minimal H (applicable H c2 t) := by
    intro y
    rw [mem_minimal, mem_minimal, happ y]
    constructor
    · rintro ⟨h1, h2⟩; exact ⟨h1, fun d hd => h2 d ((happ d).2 hd)⟩
    · rintro ⟨h1, h2⟩; exact ⟨h1, fun d hd => h2 d ((happ d).1 hd)⟩
  have hpred : (fun c => (applicable H c1 t).contains c) = (fun c => (applicable H c2 t).contains c) := by
    funext c
    by_cases h : c ∈ applicable H c1 t
    · have h2 := (happ c).1 h
      simp [h, h2]
    · have h2 : c ∉ applicable H c2 t := fun h' => h ((happ c).2 h')
      simp [h, h2]
  have hfn : firstNominal H t (applicable H c1 t) = firstNominal H t (applicable H c2 t) := by
    simp only [firstNominal, hpred]
  simp only [allowed, hfn]
  cases firstNominal H t (applicable H c2 t) with
  | none => exact hmin x
  | some n =>
    have hcn : (minimal H (applicable H c1 t)).contains n = (minimal H (applicable H c2 t)).contains n := by
      by_cases h : n ∈ minimal H (applicable H c1 t)
      · have h2 := (hmin n).1 h; simp [h, h2]
      · have h2 : n ∉ minimal H (applicable H c2 t) := fun h' => h ((hmin n).2 h')
        simp [h, h2]
    simp only [hcn]
    by_cases hb : (minimal H (applicable H c2 t)).contains n = true
    · simp only [hb, if_true]
    · simp only [hb]; exact hmin x

/-- when every matching covering type is a real base class (no virtual match), the nearest base
    class in MRO order is the only allowed type -/
theorem allowed_nominal (H : Hier) (hH : HierFacts H) (cover : List Ty) (t n : Ty)
    (hnom : ∀ x ∈ applicable H cover t, x ∈ H.mro t)
    (hfn : firstNominal H t (applicable H cover t) = some n) : allowed H cover t = [n] := by
  obtain ⟨hnm, hnp, hfirst⟩ := find?_first hfn
  have hnapp : n ∈ applicable H cover t := by simpa using hnp
  have hmin : n ∈ minimal H (applicable H cover t) := by
    rw [mem_minimal]
    refine ⟨hnapp, fun d hd hdn => ?_⟩
    by_cases hs : H.sub d n = true
    · exfalso
      have hdm := hnom d hd
      have h1 := hH.mro_lin t n d hnm hdm hs hdn
      have h2 := hfirst d hdm (by simpa using hd)
      omega
    · simpa using hs
  have : (minimal H (applicable H cover t)).contains n = true := by simpa using hmin
  simp only [allowed, hfn, this, if_true]

/-! #### the hierarchy facts of a table-given hierarchy follow from the decidable check -/

theorem subFacts_of_table (T : HierTab) (h : subOK T = true) : SubFacts T.toHier := by
  simp only [subOK, Bool.and_eq_true] at h
  obtain ⟨⟨h1, h2⟩, h4⟩ := h
  have mem_of_contains : ∀ {α : Type} [BEq α] [LawfulBEq α] {l : List α} {x : α},
      l.contains x = true → x ∈ l := fun h => by simpa using h
  refine ⟨?_, ?_, ?_⟩
  · intro a b c hab hbc
    simp only [HierTab.toHier] at hab hbc ⊢
    have := List.all_eq_true.1 (List.all_eq_true.1 h1 (a, b) (mem_of_contains hab)) (b, c) (mem_of_contains hbc)
    simpa using this
  · intro a b hab hba
    simp only [HierTab.toHier] at hab hba
    have := List.all_eq_true.1 h2 (a, b) (mem_of_contains hab)
    simp only [hba, Bool.not_true, Bool.false_or, beq_iff_eq] at this
    exact this
  · intro t c d hi hs
    simp only [HierTab.toHier] at hi hs ⊢
    have := List.all_eq_true.1 (List.all_eq_true.1 h4 (t, c) (mem_of_contains hi)) (c, d) (mem_of_contains hs)
    simpa using this

theorem mroFacts_of_table (T : HierTab) (h : mroOK T = true) : MroFacts T.toHier := by
  simp only [mroOK, Bool.and_eq_true] at h
  obtain ⟨h3, h5⟩ := h
  refine ⟨?_, ?_⟩
  · intro t c hc
    simp only [HierTab.toHier] at hc ⊢
    cases hg : odGet t T.mro with
    | none => rw [hg] at hc; simp at hc
    | some m =>
      rw [hg] at hc
      simp only [Option.getD_some] at hc
      have := List.all_eq_true.1 (List.all_eq_true.1 h3 (t, m) (odGet_some_mem hg)) c hc
      exact this
  · intro t c d hc hd hs hne
    simp only [HierTab.toHier] at hc hd hs ⊢
    cases hg : odGet t T.mro with
    | none => rw [hg] at hc; simp at hc
    | some m =>
      rw [hg] at hc hd
      simp only [Option.getD_some] at hc hd ⊢
      have := List.all_eq_true.1 (List.all_eq_true.1 (List.all_eq_true.1 h5 (t, m) (odGet_some_mem hg)) c hc) d hd
      simp only [hs, Bool.true_and, Bool.or_eq_true, Bool.not_eq_true', bne_eq_false_iff_eq,
        decide_eq_true_eq] at this
      rcases this with this | this
      · exact absurd this hne
      · exact this

theorem hierFacts_of_table (T : HierTab) (h : tableOK T = true) : HierFacts T.toHier := by
  simp only [tableOK, Bool.and_eq_true] at h
  exact { toSubFacts := subFacts_of_table T h.1, toMroFacts := mroFacts_of_table T h.2 }

/-- a non-empty list of candidates keeps at least one after its strict superclasses are dropped
    (a finite strict partial order has a minimal element) -/
theorem dropSupers_ne_nil (H : Hier) (hH : SubFacts H) :
    ∀ l : List Ty, l ≠ [] → ∃ m ∈ l, ∀ o ∈ l, o ≠ m → H.sub o m = false := by
  intro l
  induction l with
  | nil => intro h; exact absurd rfl h
  | cons a l ih =>
    intro _
    cases l with
    | nil => exact ⟨a, by simp, fun o ho hne => by simp at ho; exact absurd ho hne⟩
    | cons b l' =>
      obtain ⟨m, hm, hmin⟩ := ih (by simp)
      by_cases hlt : a ≠ m ∧ H.sub a m = true
      · refine ⟨a, by simp, fun o ho hne => ?_⟩
        simp only [List.mem_cons] at ho
        rcases ho with ho | ho
        · exact absurd ho hne
        · by_cases hs : H.sub o a = true
          · exfalso
            have hom : H.sub o m = true := hH.sub_trans _ _ _ hs hlt.2
            have hne' : o ≠ m := by
              intro e; subst e
              exact hlt.1 (hH.sub_antisymm _ _ hlt.2 hs)
            have := hmin o (by simpa using ho) hne'
            rw [hom] at this; exact absurd this (by simp)
          · simpa using hs
      · refine ⟨m, by simp [hm], fun o ho hne => ?_⟩
        simp only [List.mem_cons] at ho
        rcases ho with ho | ho
        · subst ho
          by_cases hs : H.sub o m = true
          · exact absurd ⟨hne, hs⟩ hlt
          · simpa using hs
        · exact hmin o (by simpa using ho) hne

theorem updateAt_get_ne (f : Reg → Reg) : ∀ (w : List Reg) (i j : Nat), i ≠ j →
    (updateAt f i w)[j]? = w[j]? := by
  intro w
  induction w with
  | nil => intro i j _; cases i <;> rfl
  | cons x xs ih =>
    intro i j hij
    cases i with
    | zero =>
      cases j with
      | zero => exact absurd rfl hij
      | succ m => rfl
    | succ n =>
      cases j with
      | zero => rfl
      | succ m => simpa [updateAt] using ih n m (by omega)


/-! ### I. arbitrary insertion orders: the forest invariant needs transitivity only -/

theorem TreeRel.step_trans {H : Hier}
    (hT : ∀ a b c, H.sub a b = true → H.sub b c = true → H.sub a c = true) (t : Ty) {f : Forest}
    {c : List Ty} (h : TreeRel H f c) : TreeRel H (regFuzzy H t f) (insertSet t c) := by
  obtain ⟨h1, h2, h3⟩ := h
  obtain ⟨g1, g2⟩ := regFuzzy_good H hT t f.size f rfl h2
  refine ⟨(regFuzzy_inv t h1).1, g1, fun x => ?_⟩
  rw [mem_insertSet, g2 x, h3 x]

theorem TreeRel.fold_trans {H : Hier}
    (hT : ∀ a b c, H.sub a b = true → H.sub b c = true → H.sub a c = true) (order : List Ty) :
    ∀ {f : Forest} {c : List Ty}, TreeRel H f c →
      TreeRel H (order.foldl (fun tr t => regFuzzy H t tr) f) (order.foldl (fun c t => insertSet t c) c) := by
  induction order with
  | nil => intro f c h; exact h
  | cons t l ih => intro f c h; exact ih (h.step_trans hT t)

/-- the forest built from any list of types, in any order, is well-formed and holds exactly
    those types -/
theorem insertAll_rel {H : Hier}
    (hT : ∀ a b c, H.sub a b = true → H.sub b c = true → H.sub a c = true) (order : List Ty) :
    TreeInv H (insertAll H order) ∧ GoodF H (insertAll H order) ∧
      ∀ x, x ∈ (insertAll H order).nodes ↔ x ∈ order := by
  have h := TreeRel.fold_trans hT order (TreeRel.nil H)
  refine ⟨h.1, h.2.1, fun x => ?_⟩
  show x ∈ (order.foldl (fun tr t => regFuzzy H t tr) Forest.nil).nodes ↔ x ∈ order
  rw [← h.2.2 x, mem_fold_insertSet]
  simp

/-- every node below a key is a subclass of the key ("child ⊂ parent", transitively) -/
theorem TreeInv.descendants {H : Hier}
    (hT : ∀ a b c, H.sub a b = true → H.sub b c = true → H.sub a c = true) :
    ∀ (f : Forest), TreeInv H f → ∀ c kids, f.get? c = some kids → ∀ x ∈ kids.nodes, H.sub x c = true := by
  intro f
  induction f with
  | nil => intro _ c kids h; simp [Forest.get?] at h
  | cons a k r _ ihr =>
    intro hf c kids hg x hx
    unfold Forest.get? at hg
    by_cases hac : (a == c) = true
    · simp only [hac, if_true, Option.some.injEq] at hg
      subst hg
      have hac' : a = c := by simpa using hac
      subst hac'
      exact hf.kids_sub hT x hx
    · simp only [hac] at hg
      exact ihr hf.2.2 c kids hg x hx

/-! ### J. what `register` writes, entry by entry; `exact=True` -/

theorem nodup_eraseDups_aux : ∀ (n : Nat) (l : List Op), l.length ≤ n → l.eraseDups.Nodup := by
  intro n
  induction n with
  | zero =>
    intro l h
    have : l = [] := List.eq_nil_of_length_eq_zero (by omega)
    subst this; simp
  | succ n ih =>
    intro l h
    cases l with
    | nil => simp
    | cons a as =>
      rw [List.eraseDups_cons]
      refine List.nodup_cons.2 ⟨?_, ih _ ?_⟩
      · intro hm
        rw [List.mem_eraseDups] at hm
        simp at hm
      · have := List.length_filter_le (fun b => !b == a) as
        simp only [List.length_cons] at h
        omega

theorem opsOf_nodup (autoOps : List Op) (kw : List (Op × Handler)) : (opsOf autoOps kw).Nodup :=
  nodup_eraseDups_aux _ _ (Nat.le_refl _)

theorem mem_opsOf (autoOps : List Op) (kw : List (Op × Handler)) (op : Op) :
    op ∈ opsOf autoOps kw ↔ op ∈ kw.map (·.1) ∨ op ∈ autoOps := by
  unfold opsOf
  rw [List.mem_eraseDups, List.mem_append]

/-- the tree part of `register`, as an equation: the type is inserted into the tree of every op of
    `new_op_map`, the other trees are untouched -/
theorem trees_fold_eq (H : Hier) (t : Ty) : ∀ (l : List (Op × Handler)) (tt : List (Op × Forest)) (op : Op),
    (l.map (·.1)).Nodup →
    (odGet op (l.foldl (fun tt p => odSet p.1 (regFuzzy H t ((odGet p.1 tt).getD .nil)) tt) tt)).getD .nil =
      if op ∈ l.map (·.1) then regFuzzy H t ((odGet op tt).getD .nil) else (odGet op tt).getD .nil := by
  intro l
  induction l with
  | nil => intro tt op _; simp
  | cons p l ih =>
    intro tt op hnd
    simp only [List.map_cons, List.nodup_cons] at hnd
    simp only [List.foldl_cons, List.map_cons, List.mem_cons]
    rw [ih _ op hnd.2]
    by_cases ho : op = p.1
    · subst ho
      simp only [hnd.1, if_false, true_or, if_true, odGet_odSet_same, Option.getD_some]
    · rw [odGet_odSet_ne _ _ ho]
      simp only [ho, false_or]

theorem register_tree (H : Hier) (r : Reg) (t : Ty) (e : Bool) (kw : List (Op × Handler)) (op : Op) :
    (register H r t e kw).tree op =
      if e = false ∧ op ∈ opsOf (r.autoMap.map (·.1)) kw then regFuzzy H t (r.tree op) else r.tree op := by
  cases e with
  | true => simp [register, Reg.tree]
  | false =>
    simp only [register, Reg.tree, Bool.false_eq_true, if_false, true_and]
    have hk := newOpMap_keys H r.typeMap r.autoMap t kw
    have := trees_fold_eq H t (newOpMap H r.typeMap r.autoMap t kw) r.typeTree op
      (by rw [hk]; exact opsOf_nodup _ _)
    rw [hk] at this
    exact this

/-- entries of other types are left alone by `register` -/
theorem setHandlers_other (t : Ty) (l : List (Op × Handler)) :
    ∀ (tm : List (Op × List (Ty × Handler))) (op : Op) (x : Ty), x ≠ t →
      odGet x ((odGet op (setHandlers tm t l)).getD []) = odGet x ((odGet op tm).getD []) := by
  unfold setHandlers
  induction l with
  | nil => intro tm op x _; rfl
  | cons p l ih =>
    intro tm op x hx
    simp only [List.foldl_cons]
    rw [ih _ op x hx]
    by_cases ho : op = p.1
    · subst ho
      rw [odGet_odSet_same]
      simp only [Option.getD_some]
      exact odGet_odSet_ne _ _ hx
    · rw [odGet_odSet_ne _ _ ho]

theorem register_map_other (H : Hier) (r : Reg) (t : Ty) (e : Bool) (kw : List (Op × Handler)) (op : Op)
    (x : Ty) (hx : x ≠ t) : odGet x ((register H r t e kw).map op) = odGet x (r.map op) := by
  simp only [register, Reg.map]
  exact setHandlers_other t _ r.typeMap op x hx

/-- entries of ops the call does not touch are left alone as well -/
theorem setHandlers_otherOp (t : Ty) (l : List (Op × Handler)) :
    ∀ (tm : List (Op × List (Ty × Handler))) (op : Op), op ∉ l.map (·.1) →
      (odGet op (setHandlers tm t l)).getD [] = (odGet op tm).getD [] := by
  unfold setHandlers
  induction l with
  | nil => intro tm op _; rfl
  | cons p l ih =>
    intro tm op hop
    simp only [List.map_cons, List.mem_cons, not_or] at hop
    simp only [List.foldl_cons]
    rw [ih _ op hop.2, odGet_odSet_ne _ _ hop.1]

/-- the handler `register` stores for the registered type -/
theorem register_map_self (H : Hier) (r : Reg) (t : Ty) (e : Bool) (kw : List (Op × Handler)) (op : Op)
    (hop : op ∈ opsOf (r.autoMap.map (·.1)) kw) :
    odGet t ((register H r t e kw).map op) = some (pickHandler H r.typeMap r.autoMap t kw op) := by
  have hval := setHandlers_value t (pickHandler H r.typeMap r.autoMap t kw)
    (opsOf (r.autoMap.map (·.1)) kw) [] r.typeMap (fun _ h => by simp at h) op (Or.inr hop)
  simpa [Glom.C13.register, Reg.map, newOpMap] using hval

theorem resolve_of_closest {H : Hier} {r : Reg} {op : Op} {t c : Ty} {hd : Handler}
    (hne : odGet t (r.map op) = none) (hc : closest H t (r.tree op) = some c)
    (hh : odGet c (r.map op) = some hd) : resolve H r op t = some hd := by
  unfold resolve
  have hnemp : (r.map op).isEmpty = false := by
    cases hm : r.map op with
    | nil => rw [hm] at hh; simp [odGet] at hh
    | cons a l => rfl
  simp [hnemp, hne, hc, hh]

/-! ### K. the tie-break; histories as the code runs them -/

theorem pickMinAux_all_ge (H : Hier) (t : Ty) : ∀ (l : List Ty) (best : Ty),
    (∀ x ∈ l, key H t best ≤ key H t x) → pickMinAux H t best l = best := by
  intro l
  induction l with
  | nil => intro best _; rfl
  | cons x xs ih =>
    intro best h
    have hx := h x (by simp)
    unfold pickMinAux
    have : ¬ key H t x < key H t best := by omega
    simp only [this, if_false]
    exact ih best (fun y hy => h y (by simp [hy]))

theorem key_of_not_mem {H : Hier} {t c : Ty} (h : c ∉ H.mro t) : key H t c = (H.mro t).length := by
  unfold key
  exact List.idxOf_eq_length h

theorem canon_eq_of_eraseOrder {a b : Action} (w : List Reg) (h : a.eraseOrder = b.eraseOrder) :
    a.canon w = b.canon w := by
  cases a <;> cases b <;> simp_all [Action.eraseOrder, Action.canon]

theorem runD_eq_run (H : Hier) : ∀ (acts : List Action) (w : List Reg),
    runD H w acts = run H w (canonActs H w acts) := by
  intro acts
  induction acts with
  | nil => intro w; rfl
  | cons a as ih =>
    intro w
    simp only [runD, canonActs, run]
    rw [ih]

end Glom.C13
