import Glom.Lemmas.C05Frames
/-
  C05 — `_unpack_stack`'s loop on the frame store of an evaluation tree.
-/
namespace Glom.C05

theorem lastHead_range : ∀ (K : Kids) (prev : Option Nat) (n h : Nat),
    lastHead prev n K = some h → n ≤ h ∧ h < n + K.size := by
  intro K
  induction K with
  | nil => intro prev n h hh; simp [lastHead] at hh
  | cons ch i ks res rest _ ihrest =>
    intro prev n h hh
    simp only [lastHead] at hh
    simp only [Kids.size]
    cases hr : lastHead (some n) (n + 1 + ks.size) rest with
    | some h' =>
      rw [hr] at hh
      simp at hh
      subst hh
      have := ihrest _ _ _ hr
      omega
    | none =>
      rw [hr] at hh
      simp only [Option.none_or] at hh
      split at hh
      · simp at hh
      · simp at hh; omega

theorem segRes_eq_lastRes_of_no_head : ∀ (rest : Kids) (ch : Bool) (i : Info) (ks : Kids) (res : Option Nat)
    (n n' : Nat), lastHead (some n) n' rest = none →
    segRes (.cons ch i ks res rest) = lastRes (.cons ch i ks res rest) := by
  intro rest
  induction rest with
  | nil => intro ch i ks res n n' _; simp [segRes, lastRes, Kids.startsChained]
  | cons ch2 i2 ks2 res2 rest2 _ ih2 =>
    intro ch i ks res n n' h
    simp only [lastHead, Option.isSome_some, Bool.and_true] at h
    cases hr : lastHead (some n') (n' + 1 + ks2.size) rest2 with
    | some x => simp [hr] at h
    | none =>
      rw [hr] at h
      simp only [Option.none_or] at h
      have hch2 : ch2 = true := by
        cases ch2
        · simp at h
        · rfl
      subst hch2
      rw [show lastRes (.cons ch i ks res (.cons true i2 ks2 res2 rest2)) = lastRes (.cons true i2 ks2 res2 rest2) from rfl]
      rw [← ih2 true i2 ks2 res2 n' _ hr]
      simp [segRes, Kids.startsChained]

/-- the CUR_ERROR of the first call of `K` is the outcome of the chain it starts -/
theorem frameAt_cur_first (p : Nat) (prev : Option Nat) (n : Nat) (K : Kids) :
    (frameAt p prev n K n).bind (·.curError) = segRes K := by
  cases K with
  | nil => rfl
  | cons ch i ks res rest =>
    simp only [frameAt, if_true, segRes]
    split <;> rfl

/-- the CUR_ERROR of a call's LAST_CHILD_SCOPE is the outcome of the call's last sub-evaluation -/
theorem frameAt_cur_lastHead : ∀ (K : Kids) (p : Nat) (prev : Option Nat) (n h : Nat),
    lastHead prev n K = some h → (frameAt p prev n K h).bind (·.curError) = lastRes K := by
  intro K
  induction K with
  | nil => intro p prev n h hh; simp [lastHead] at hh
  | cons ch i ks res rest _ ihrest =>
    intro p prev n h hh
    simp only [lastHead] at hh
    cases hr : lastHead (some n) (n + 1 + ks.size) rest with
    | some h' =>
      rw [hr] at hh
      simp at hh
      subst hh
      have hrange := lastHead_range rest _ _ _ hr
      simp only [frameAt, if_neg (by omega : ¬ h' = n), if_neg (by omega : ¬ h' < n + 1 + ks.size)]
      rw [ihrest _ _ _ _ hr]
      cases rest with
      | nil => simp [lastHead] at hr
      | cons _ _ _ _ _ => rfl
    | none =>
      rw [hr] at hh
      simp only [Option.none_or] at hh
      split at hh
      · simp at hh
      · simp at hh
        subst hh
        rw [frameAt_cur_first]
        exact segRes_eq_lastRes_of_no_head rest ch i ks res n _ hr

theorem unpackLoop_rowsAt (fs : Array Frame) : ∀ (K : Kids) (p : Nat) (prev : Option Nat) (n : Nat),
    (∀ j, n ≤ j → j < n + K.size → fs[j]? = frameAt p prev n K j) →
    ∀ j, n ≤ j → j < n + K.size → ∀ fuel, n + K.size ≤ j + fuel → ∀ acc,
      unpackLoop fs fuel j acc = acc ++ rowsAt n K j := by
  intro K
  induction K with
  | nil => intro p prev n _ j h1 h2; simp [Kids.size] at h2; omega
  | cons ch i ks res rest ihks ihrest =>
    intro p prev n hfs j hj1 hj2 fuel hfuel acc
    simp only [Kids.size] at hj2 hfuel hfs
    have hfs_ks : ∀ j, n + 1 ≤ j → j < n + 1 + ks.size → fs[j]? = frameAt n none (n + 1) ks j := by
      intro j h1 h2
      rw [hfs j (by omega) (by omega)]
      simp only [frameAt, if_neg (by omega : ¬ j = n), if_pos h2]
    have hfs_rest : ∀ j, n + 1 + ks.size ≤ j → j < n + 1 + ks.size + rest.size →
        fs[j]? = frameAt p (some n) (n + 1 + ks.size) rest j := by
      intro j h1 h2
      rw [hfs j (by omega) (by omega)]
      simp only [frameAt, if_neg (by omega : ¬ j = n), if_neg (by omega : ¬ j < n + 1 + ks.size)]
    by_cases hjn : j = n
    · subst hjn
      obtain ⟨fuel, rfl⟩ : ∃ k, fuel = k + 1 := ⟨fuel - 1, by omega⟩
      have hf := hfs j (by omega) (by omega)
      simp only [frameAt, if_true] at hf
      simp only [rowsAt, if_true]
      unfold unpackLoop
      rw [hf]
      cases hrs : rest.startsChained with
      | true =>
        simp only [if_true]
        have hrsz : 0 < rest.size := by
          cases rest with
          | nil => simp [Kids.startsChained] at hrs
          | cons _ _ _ _ _ => simp [Kids.size]; omega
        have hbr : (if (if (segRes rest).isSome = true then [j + 1 + ks.size] else []) == [j + 1 + ks.size] then []
            else if (segRes rest).isSome = true then [j + 1 + ks.size] else []) = ([] : List Nat) := by
          cases (segRes rest).isSome <;> simp
        simp only [hbr]
        have hchild : (fs[j + 1 + ks.size]?.bind (·.curError)) = segRes rest := by
          rw [hfs_rest _ (by omega) (by omega), frameAt_cur_first]
        simp only [List.contains_nil, Bool.false_eq_true, if_false, hchild]
        cases hsr : (segRes rest).isNone with
        | true => simp
        | false =>
          simp only [Bool.false_eq_true, if_false]
          rw [ihrest p (some j) (j + 1 + ks.size) hfs_rest (j + 1 + ks.size) (by omega) (by omega) fuel (by omega)]
          simp
      | false =>
        simp only [Bool.false_eq_true, if_false]
        cases hlh : lastHead none (j + 1) ks with
        | none => simp
        | some h =>
          simp only
          have hr := lastHead_range ks none (j + 1) h hlh
          generalize (if failedHeads j none (j + 1) ks == [h] then [] else failedHeads j none (j + 1) ks) = br
          cases hc : br.contains h with
          | true => simp
          | false =>
            have hchild : (fs[h]?.bind (·.curError)) = lastRes ks := by
              rw [hfs_ks _ hr.1 hr.2, frameAt_cur_lastHead ks j none (j + 1) h hlh]
            simp only [Bool.false_eq_true, if_false, hchild]
            cases hlr : (lastRes ks).isNone with
            | true => simp
            | false =>
              simp only [Bool.false_eq_true, if_false]
              rw [ihks j none (j + 1) hfs_ks h hr.1 hr.2 fuel (by omega)]
              simp
    · by_cases hjk : j < n + 1 + ks.size
      · simp only [rowsAt, if_neg hjn, if_pos hjk]
        exact ihks n none (n + 1) hfs_ks j (by omega) hjk fuel (by omega) acc
      · simp only [rowsAt, if_neg hjn, if_neg hjk]
        exact ihrest p (some n) (n + 1 + ks.size) hfs_rest j (by omega) (by omega) fuel (by omega) acc

end Glom.C05
